(* C13 — the fresh lists form a forest rooted at the root: every element of a fresh
   list has exactly one sender, its parent under the topology. *)
From PV Require Import Base.Tac.
From Coq Require Import NArith.
From PV Require Import Bcast.BcastDefs Bcast.BcastBits Bcast.BcastTopo Bcast.BcastWalk Bcast.BcastLevels.
Local Open Scope N_scope.

Lemma NoDup_app_disj {A} (a b : list A) : NoDup (a ++ b) -> forall x, In x a -> In x b -> False.
Proof.
  induction a as [|y a IH]; cbn; intros Hnd x Ha Hb; [destruct Ha|].
  inv Hnd. destruct Ha as [->|Ha].
  - apply H1. apply in_or_app. now right.
  - eapply IH; eauto.
Qed.
Lemma NoDup_app_l {A} (a b : list A) : NoDup (a ++ b) -> NoDup a.
Proof. induction a as [|y a IH]; cbn; intros H; [constructor|]. inv H. constructor; [|auto]. intros Hi. apply H2. apply in_or_app; now left. Qed.
Lemma NoDup_app_r {A} (a b : list A) : NoDup (a ++ b) -> NoDup b.
Proof. induction a as [|y a IH]; cbn; intros H; [exact H|]. inv H. auto. Qed.
Lemma NoDup_app_intro {A} (a b : list A) : NoDup a -> NoDup b -> (forall x, In x a -> In x b -> False) -> NoDup (a ++ b).
Proof.
  induction a as [|y a IH]; cbn; intros Ha Hb Hd; [exact Hb|]. inv Ha. constructor.
  - intros Hi. apply in_app_or in Hi. destruct Hi as [Hi|Hi]; [contradiction|]. apply (Hd y); auto.
  - apply IH; auto. intros x Hx. apply Hd. now right.
Qed.
Lemma nth_NoDup_middle (A1 A2 : list N) s i : NoDup (A1 ++ s :: A2) -> (i < length (A1 ++ s :: A2))%nat ->
  nth i (A1 ++ s :: A2) 0 = s -> i = length A1.
Proof.
  intros Hnd Hi He. rewrite NoDup_nth in Hnd. apply (Hnd i (length A1) Hi).
  - rewrite app_length. cbn. lia.
  - rewrite He. now rewrite nth_middle.
Qed.

Section Tree.
Variable root : N.
Variable t : topo.
Variable Fs : list (list N).
Hypothesis HFnd : NoDup (concat Fs).
Hypothesis HFroot : ~ In root (concat Fs).
Hypothesis HFlen : forall F, In F Fs -> (Z.of_nat (length F) < 2 ^ 31)%Z.

Definition m0 (s : N) : Z := if root =? s then 0%Z else (-1)%Z.
Definition succ (s : N) : list N :=
  concat (map (fun F => walk s (child_fn t) F 0%Z (m0 s)) Fs).

Lemma succ_in s x : In x (succ s) -> exists F, In F Fs /\ In x F /\ (s = root \/ In s F).
Proof.
  unfold succ. intros H. apply in_concat in H. destruct H as [l [Hl Hx]].
  apply in_map_iff in Hl. destruct Hl as [F [<- HF]]. exists F. split; [exact HF|]. split.
  - eapply walk_incl; eauto.
  - unfold m0 in Hx. destruct (root =? s) eqn:E; [left; apply N.eqb_eq in E; auto|].
    right. destruct (in_dec N.eq_dec s F) as [Hi|Hn]; [exact Hi|].
    rewrite walk_unknown_nil in Hx by assumption. destruct Hx.
Qed.
Lemma succ_notin s x : ~ In x (concat Fs) -> cnt (succ s) x = 0%nat.
Proof.
  intros Hx. apply count_occ_not_In. intros Hi. apply succ_in in Hi. destruct Hi as [F [HF [HxF _]]].
  apply Hx. apply in_concat. eauto.
Qed.
Lemma succ_root s : cnt (succ s) root = 0%nat.
Proof. now apply succ_notin. Qed.

Definition parent_of (A : list N) : N :=
  let pp := parent_idx t (Z.of_nat (length A) + 1) in
  if (pp =? 0)%Z then root else nth (Z.to_nat (pp - 1)) A 0.

Lemma parent_count Fs1 A x B Fs2 : Fs = Fs1 ++ (A ++ x :: B) :: Fs2 ->
  forall s, cnt (succ s) x = if s =? parent_of A then 1%nat else 0%nat.
Proof.
  intros HFs s.
  assert (HF : In (A ++ x :: B) Fs) by (rewrite HFs; apply in_or_app; right; now left).
  assert (Hnd : NoDup (concat Fs1 ++ (A ++ x :: B) ++ concat Fs2)).
  { rewrite HFs, concat_app in HFnd. exact HFnd. }
  assert (HndF : NoDup (A ++ x :: B)) by (apply NoDup_app_r in Hnd; now apply NoDup_app_l in Hnd).
  assert (HxF : In x (A ++ x :: B)) by (apply in_or_app; right; now left).
  assert (HxA : ~ In x A).
  { intros Hi. apply (NoDup_app_disj _ _ HndF x Hi). now left. }
  assert (HxB : ~ In x B).
  { apply NoDup_app_r in HndF. now inv HndF. }
  assert (HrootF : ~ In root (A ++ x :: B)).
  { intros Hi. apply HFroot. apply in_concat. eauto. }
  (* only the list that contains x matters *)
  assert (Hred : cnt (succ s) x = cnt (walk s (child_fn t) (A ++ x :: B) 0%Z (m0 s)) x).
  { unfold succ. rewrite HFs, map_app, concat_app. cbn [map concat]. rewrite !count_occ_app.
    rewrite !cnt_concat_zero; [lia| |].
    - intros l Hl. apply in_map_iff in Hl. destruct Hl as [F' [<- HF']]. apply cnt_walk_notin.
      intros Hi. apply NoDup_app_r in Hnd. apply (NoDup_app_disj _ _ Hnd x HxF). apply in_concat. eauto.
    - intros l Hl. apply in_map_iff in Hl. destruct Hl as [F' [<- HF']]. apply cnt_walk_notin.
      intros Hi. apply (NoDup_app_disj _ _ Hnd x); [apply in_concat; eauto|apply in_or_app; now left]. }
  rewrite Hred. clear Hred.
  set (q := (Z.of_nat (length A) + 1)%Z).
  assert (Hq : (1 <= q < 2 ^ 31)%Z).
  { specialize (HFlen _ HF). rewrite app_length in HFlen. cbn [length] in HFlen. subst q. lia. }
  pose proof (parent_idx_range t q ltac:(lia)) as Hpp.
  unfold parent_of. fold q. set (pp := parent_idx t q) in *.
  assert (HpA : (pp =? 0)%Z = false -> In (nth (Z.to_nat (pp - 1)) A 0) A).
  { intros E. apply nth_In. lia. }
  unfold m0. destruct (root =? s) eqn:Ers.
  - (* the root sends to the children of index 0 *)
    apply N.eqb_eq in Ers. subst s.
    rewrite cnt_walk_known by (auto; lia).
    replace (0 + Z.of_nat (length A) + 1)%Z with q by lia.
    rewrite (unique_parent_b t q 0 Hq) by lia. fold pp.
    destruct (pp =? 0)%Z eqn:E0.
    + rewrite N.eqb_refl. replace (0 =? pp)%Z with true by lia. reflexivity.
    + replace (0 =? pp)%Z with false by lia.
      destruct (root =? nth (Z.to_nat (pp - 1)) A 0) eqn:E1; [|reflexivity].
      apply N.eqb_eq in E1. exfalso. apply HrootF. apply in_or_app. left. rewrite E1. now apply HpA.
  - apply N.eqb_neq in Ers.
    destruct (in_dec N.eq_dec s A) as [HsA|HsA].
    + (* a relay placed before x *)
      apply in_split in HsA. destruct HsA as [A1 [A2 HA]].
      assert (HndA : NoDup A) by (now apply NoDup_app_l in HndF).
      assert (Hs1 : ~ In s A1).
      { rewrite HA in HndA. intros Hi. apply (NoDup_app_disj _ _ HndA s Hi). now left. }
      rewrite HA, <- app_assoc. cbn [app]. rewrite walk_skip by assumption. rewrite walk_found.
      assert (HxA2 : ~ In x A2). { intros Hi. apply HxA. rewrite HA. apply in_or_app. right. now right. }
      rewrite cnt_walk_known by (auto; lia).
      set (p1 := (0 + Z.of_nat (length A1) + 1)%Z).
      replace (p1 + Z.of_nat (length A2) + 1)%Z with q.
      2:{ subst q p1. rewrite HA, app_length. cbn [length]. lia. }
      rewrite (unique_parent_b t q p1 Hq) by (subst p1; lia). fold pp.
      destruct (pp =? 0)%Z eqn:E0.
      * apply N.eqb_neq in Ers. rewrite N.eqb_sym, Ers.
        replace (p1 =? pp)%Z with false by (subst p1; lia). reflexivity.
      * destruct (s =? nth (Z.to_nat (pp - 1)) (A1 ++ s :: A2) 0) eqn:E1.
        -- apply N.eqb_eq in E1. symmetry in E1.
           apply nth_NoDup_middle in E1; [|now rewrite <- HA|rewrite <- HA; lia].
           replace (p1 =? pp)%Z with true by (subst p1; lia). reflexivity.
        -- destruct (p1 =? pp)%Z eqn:Ep; [|reflexivity]. exfalso.
           apply N.eqb_neq in E1. apply E1.
           replace (Z.to_nat (pp - 1)) with (length A1) by (subst p1; lia).
           now rewrite nth_middle.
    + (* s is x itself, or comes after x, or is not in this list: nothing is sent to x *)
      assert (Hz : cnt (walk s (child_fn t) (A ++ x :: B) 0%Z (-1)%Z) x = 0%nat).
      { rewrite walk_skip by assumption. cbn [BcastWalk.walk]. cbn [Z.eqb].
        destruct (x =? s); now apply cnt_walk_notin. }
      rewrite Hz. destruct (pp =? 0)%Z eqn:E0.
      * apply N.eqb_neq in Ers. now rewrite N.eqb_sym, Ers.
      * destruct (s =? nth (Z.to_nat (pp - 1)) A 0) eqn:E1; [|reflexivity].
        apply N.eqb_eq in E1. exfalso. apply HsA. rewrite E1. now apply HpA.
Qed.

(* every element of a fresh list is reached, at a depth bounded by its position *)
Lemma reach_bound Fs1 F Fs2 : Fs = Fs1 ++ F :: Fs2 ->
  forall j A x B, length A = j -> F = A ++ x :: B ->
  exists d, (1 <= d <= S j)%nat /\ Reach succ root d x.
Proof.
  intros HFs j. induction j as [j IH] using lt_wf_ind. intros A x B Hj HF.
  assert (HFin : In F Fs) by (rewrite HFs; apply in_or_app; right; now left).
  assert (Hxr : x <> root).
  { intros ->. apply HFroot. apply in_concat. exists F. split; [exact HFin|]. rewrite HF. apply in_or_app. right. now left. }
  pose proof (parent_count Fs1 A x B Fs2 ltac:(now rewrite <- HF)) as Hc.
  set (q := (Z.of_nat (length A) + 1)%Z).
  assert (Hq : (1 <= q)%Z) by (subst q; lia).
  pose proof (parent_idx_range t q Hq) as Hpp.
  unfold parent_of in Hc. fold q in Hc.
  destruct (parent_idx t q =? 0)%Z eqn:E0.
  - exists 1%nat. split; [lia|]. eapply Reach_child; [apply Reach_root|exact Hxr|exact Hc].
  - set (i := Z.to_nat (parent_idx t q - 1)) in *.
    assert (Hi : (i < length A)%nat) by (subst i q; lia).
    destruct (nth_split A 0 Hi) as [A1 [A2 [HA Hl1]]].
    destruct (IH i ltac:(lia) A1 (nth i A 0) (A2 ++ x :: B) Hl1) as [d [Hd Hr]].
    { rewrite HF, HA at 1. rewrite <- app_assoc. reflexivity. }
    exists (S d). split; [lia|]. eapply Reach_child; [exact Hr|exact Hxr|exact Hc].
Qed.
End Tree.
