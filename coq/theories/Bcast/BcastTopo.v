(* C13 — the three child predicates: every index q >= 1 has exactly one parent p in [0, q). *)
From PV Require Import Base.Tac.
From PV Require Import Bcast.BcastDefs.
Local Open Scope Z_scope.

Lemma lxor_clear a k : 0 <= k -> Z.testbit a k = true -> Z.lxor a (2 ^ k) = a - 2 ^ k.
Proof.
  intros Hk Hb.
  rewrite Z.sub_nocarry_ldiff.
  - apply Z.bits_inj'. intros m Hm. rewrite Z.lxor_spec, Z.ldiff_spec, Z.pow2_bits_eqb by assumption.
    destruct (Z.eqb_spec k m) as [->|Hne].
    + rewrite Hb. reflexivity.
    + destruct (Z.testbit a m); reflexivity.
  - apply Z.bits_inj'. intros m Hm. rewrite Z.ldiff_spec, Z.pow2_bits_eqb, Z.bits_0 by assumption.
    destruct (Z.eqb_spec k m) as [->|Hne]; [now rewrite Hb|reflexivity].
Qed.

Lemma clear_top_spec k : forall him, 0 < him < 2 ^ Z.of_nat k -> clear_top k him = him - 2 ^ Z.log2 him.
Proof.
  induction k as [|k IH]; intros him Hh.
  - cbn in Hh. lia.
  - cbn [clear_top]. rewrite Nat2Z.inj_succ, Z.pow_succ_r in Hh by lia.
    destruct (Z.testbit him (Z.of_nat k)) eqn:Hb.
    + assert (Hge : 2 ^ Z.of_nat k <= him).
      { destruct (Z.le_gt_cases (2 ^ Z.of_nat k) him) as [H|H]; [exact H|].
        rewrite Z.bits_above_log2 in Hb; [discriminate|lia|]. apply Z.log2_lt_pow2; lia. }
      assert (Hl : Z.log2 him = Z.of_nat k).
      { apply Z.log2_unique; [lia|]. rewrite Z.pow_succ_r by lia. lia. }
      rewrite Hl. apply lxor_clear; [lia|exact Hb].
    + apply IH. split; [lia|].
      destruct (Z.lt_ge_cases him (2 ^ Z.of_nat k)) as [H|H]; [exact H|].
      assert (Hl : Z.log2 him = Z.of_nat k).
      { apply Z.log2_unique; [lia|]. rewrite Z.pow_succ_r by lia. lia. }
      pose proof (Z.bit_log2 him ltac:(lia)) as Hbl. rewrite Hl in Hbl. congruence.
Qed.

Definition parent_idx (t : topo) (q : Z) : Z :=
  match t with Star => 0 | Chain => q - 1 | Binomial => q - 2 ^ Z.log2 q end.

Lemma parent_idx_range t q : 1 <= q -> 0 <= parent_idx t q < q.
Proof.
  intros Hq. destruct t; cbn [parent_idx]; try lia.
  pose proof (Z.log2_spec q ltac:(lia)) as [H1 H2].
  pose proof (Z.pow_pos_nonneg 2 (Z.log2 q) ltac:(lia) (Z.log2_nonneg q)). lia.
Qed.

(* q is a C int: q < 2^31 *)
Theorem unique_parent t q p : 1 <= q < 2 ^ 31 -> 0 <= p ->
  child_fn t p q = true <-> p = parent_idx t q.
Proof.
  intros Hq Hp. destruct t; cbn [child_fn parent_idx].
  - unfold star_child. lia.
  - unfold chain_child. destruct (p =? -1) eqn:E; lia.
  - unfold binomial_child. destruct (q =? 0) eqn:E0; [lia|]. destruct (p =? -1) eqn:E1; [lia|].
    rewrite clear_top_spec by (cbn; lia). lia.
Qed.
Lemma unique_parent_b t q p : 1 <= q < 2 ^ 31 -> 0 <= p ->
  child_fn t p q = (p =? parent_idx t q).
Proof.
  intros Hq Hp. pose proof (unique_parent t q p Hq Hp) as Hu.
  destruct (child_fn t p q); symmetry.
  - apply Z.eqb_eq. now apply Hu.
  - apply Z.eqb_neq. intros He. apply Hu in He. discriminate.
Qed.
