(* C13 — closing the propagation: masks, the static description of every rank's
   sends, and the main theorems. *)
From PV Require Import Base.Tac.
From Coq Require Import NArith Ndigits.
From PV Require Import Bcast.BcastDefs Bcast.BcastBits Bcast.BcastTopo Bcast.BcastWalk Bcast.BcastLevels Bcast.BcastTree.
Local Open Scope N_scope.

(* ---- masks ---- *)
Lemma in_mask_bits m k : In k (mask_bits m) <-> N.testbit m (N.of_nat k) = true.
Proof.
  unfold mask_bits. rewrite filter_In, in_seq. split; [tauto|]. intros H. split; [|exact H].
  split; [lia|]. cbn [plus]. destruct (Nat.lt_ge_cases k (N.size_nat m)) as [Hlt|Hge]; [exact Hlt|].
  rewrite Ntestbit_Nbit, Nbit_Nsize in H by assumption. discriminate.
Qed.

Lemma fold_setbit_spec (cond : nat -> bool) ks : forall acc k,
  N.testbit (fold_left (fun acc k => if cond k then N.setbit acc (N.of_nat k) else acc) ks acc) (N.of_nat k) =
  N.testbit acc (N.of_nat k) || (existsb (Nat.eqb k) ks && cond k).
Proof.
  induction ks as [|a ks IH]; intros acc k; cbn [fold_left existsb].
  - now rewrite Bool.orb_false_r.
  - rewrite IH. destruct (Nat.eqb_spec k a) as [->|Hne].
    + destruct (cond a) eqn:Ec.
      * rewrite N.setbit_eqb, N.eqb_refl. cbn. now rewrite Bool.orb_true_r.
      * cbn [orb]. now rewrite !Bool.andb_false_r.
    + cbn [orb]. destruct (cond a); [|reflexivity].
      rewrite N.setbit_eqb. replace (N.of_nat a =? N.of_nat k) with false by lia. reflexivity.
Qed.
Lemma existsb_eqb_in k ks : existsb (Nat.eqb k) ks = true <-> In k ks.
Proof.
  rewrite existsb_exists. split.
  - intros [x [Hx He]]. apply Nat.eqb_eq in He. now subst.
  - intros H. exists k. split; [exact H|apply Nat.eqb_refl].
Qed.
Lemma existsb_eqb_mask m k : existsb (Nat.eqb k) (mask_bits m) = N.testbit m (N.of_nat k).
Proof.
  destruct (N.testbit m (N.of_nat k)) eqn:E.
  - apply existsb_eqb_in, in_mask_bits, E.
  - apply Bool.not_true_is_false. intros H. apply existsb_eqb_in, in_mask_bits in H. congruence.
Qed.
Lemma existsb_eqb_seq k len : existsb (Nat.eqb k) (seq 0 len) = (k <? len)%nat.
Proof.
  destruct (k <? len)%nat eqn:E.
  - apply existsb_eqb_in, in_seq. lia.
  - apply Bool.not_true_is_false. intros H. apply existsb_eqb_in, in_seq in H. lia.
Qed.

Lemma pack_mask_spec n root outs om peer k :
  N.testbit (pack_mask n root outs om peer) (N.of_nat k) =
  N.testbit om (N.of_nat k) && bit_at (rank_bits (nth k outs (empty_out n))) (rel_of n root peer).
Proof.
  unfold pack_mask. rewrite rank_to_bit_rel.
  rewrite (fold_setbit_spec (fun k => getbit (rank_bits (nth k outs (empty_out n))) (rel_of n root peer / 32) (rel_of n root peer mod 32))).
  rewrite N.bits_0, existsb_eqb_mask. reflexivity.
Qed.

Lemma root_mask_spec root sets k :
  N.testbit (root_mask root sets) (N.of_nat k) = has_remote root (nth k sets []).
Proof.
  unfold root_mask.
  rewrite (fold_setbit_spec (fun k => has_remote root (nth k sets []))), N.bits_0, existsb_eqb_seq. cbn [orb].
  destruct (k <? length sets)%nat eqn:E; [reflexivity|]. cbn [andb].
  rewrite nth_overflow by lia. reflexivity.
Qed.
Lemma relay_mask_spec me sets pm k :
  N.testbit (relay_mask me sets pm) (N.of_nat k) = N.testbit pm (N.of_nat k) && mem me (nth k sets []).
Proof.
  unfold relay_mask.
  rewrite (fold_setbit_spec (fun k => N.testbit pm (N.of_nat k) && mem me (nth k sets []))), N.bits_0, existsb_eqb_seq. cbn [orb].
  destruct (k <? length sets)%nat eqn:E; [reflexivity|]. cbn [andb].
  rewrite nth_overflow by lia. cbn. now rewrite Bool.andb_false_r.
Qed.

Lemma nth_root_outs n root sets k :
  nth k (root_outs n root sets) (empty_out n) = mk_output n root (nonroot root (nth k sets [])).
Proof.
  unfold root_outs. destruct (Nat.lt_ge_cases k (length sets)) as [Hlt|Hge].
  - rewrite (nth_indep _ _ (mk_output n root (nonroot root []))) by (now rewrite map_length).
    apply (map_nth (fun s => mk_output n root (nonroot root s))).
  - rewrite !nth_overflow by (rewrite ?map_length; lia). reflexivity.
Qed.
Lemma nth_relay_outs n root sets pm k :
  nth k (relay_outs n root sets pm) (empty_out n) =
  if N.testbit pm (N.of_nat k) then mk_output n root (nth k sets []) else empty_out n.
Proof.
  unfold relay_outs. destruct (Nat.lt_ge_cases k (length sets)) as [Hlt|Hge].
  - set (f := fun k => if N.testbit pm (N.of_nat k) then mk_output n root (nth k sets []) else empty_out n).
    rewrite (nth_indep _ _ (f 0%nat)) by (now rewrite map_length, seq_length).
    rewrite (map_nth f), seq_nth by assumption. reflexivity.
  - rewrite !nth_overflow by (rewrite ?map_length, ?seq_length; lia).
    destruct (N.testbit pm (N.of_nat k)); reflexivity.
Qed.

(* ---- fresh lists ---- *)
Lemma filter_filter {A} (p q : A -> bool) l : filter p (filter q l) = filter (fun x => q x && p x) l.
Proof. induction l as [|a l IH]; cbn; [reflexivity|]. destruct (q a); cbn; [destruct (p a)|]; now rewrite IH. Qed.
Lemma filter_length_le {A} (p : A -> bool) l : (length (filter p l) <= length l)%nat.
Proof. induction l as [|a l IH]; cbn; [lia|]. destruct (p a); cbn; lia. Qed.

Lemma fresh_spec Ls : forall fwl, (forall L, In L Ls -> NoDup L) ->
  NoDup (concat (fresh fwl Ls)) /\
  forall x, In x (concat (fresh fwl Ls)) <-> mem x fwl = false /\ exists L, In L Ls /\ In x L.
Proof.
  induction Ls as [|L Ls IH]; intros fwl Hnd; cbn [fresh concat].
  - split; [constructor|]. intros x. split; [intros []|intros [_ [L [[] _]]]].
  - set (F := filter (fun r => negb (mem r fwl)) L).
    destruct (IH (rev F ++ fwl) (fun L' H => Hnd L' (or_intror H))) as [IH1 IH2].
    assert (HF : forall x, In x F <-> mem x fwl = false /\ In x L).
    { intros x. subst F. rewrite filter_In. destruct (mem x fwl); cbn; intuition congruence. }
    split.
    + apply NoDup_app_intro; [apply NoDup_filter, Hnd; now left|exact IH1|].
      intros x Hx Hx'. apply IH2 in Hx'. destruct Hx' as [Hm _].
      rewrite mem_app, mem_rev in Hm. apply Bool.orb_false_iff in Hm. destruct Hm as [Hm _].
      apply mem_false in Hm. contradiction.
    + intros x. rewrite in_app_iff, HF, IH2, mem_app, mem_rev. split.
      * intros [[Hm Hx]|[Hm [L' [HL' Hx]]]].
        -- split; [exact Hm|]. exists L. split; [now left|exact Hx].
        -- apply Bool.orb_false_iff in Hm. split; [tauto|]. exists L'. split; [now right|exact Hx].
      * intros [Hm [L' [[<-|HL'] Hx]]]; [left; tauto|].
        destruct (mem x F) eqn:E.
        -- left. apply mem_In, HF in E. exact E.
        -- right. rewrite Hm. split; [reflexivity|]. eauto.
Qed.
Lemma fresh_in Ls : forall fwl F, In F (fresh fwl Ls) ->
  exists L, In L Ls /\ (forall x, In x F -> In x L) /\ (length F <= length L)%nat.
Proof.
  induction Ls as [|L Ls IH]; intros fwl F; cbn [fresh]; [intros []|].
  intros [<-|H].
  - exists L. split; [now left|]. split; [|apply filter_length_le]. intros x Hx. apply filter_In in Hx. tauto.
  - destruct (IH _ _ H) as [L' [H1 H2]]. exists L'. split; [now right|exact H2].
Qed.

Lemma mem_nonroot root s x : mem x (nonroot root s) = mem x s && negb (x =? root).
Proof.
  unfold nonroot. induction s as [|r s IH]; [reflexivity|]. cbn [filter].
  destruct (r =? root) eqn:E; cbn [negb].
  - rewrite IH, mem_cons. apply N.eqb_eq in E. subst r.
    destruct (x =? root); cbn; [now rewrite Bool.andb_false_r|reflexivity].
  - rewrite !mem_cons, IH. destruct (x =? r) eqn:E2; cbn [orb]; [|reflexivity].
    apply N.eqb_eq in E2. subst x. now rewrite E.
Qed.

Section Closed.
Variables n root : N.
Variable sets : list (list N).
Variable t : topo.
Hypothesis Hn31 : n < 2 ^ 31.
Hypothesis Hroot : root < n.
Hypothesis Hsets : forall s, In s sets -> forall r, In r s -> r < n.

Let Hn : 0 < n. Proof. lia. Qed.
Notation child := (child_fn t).
Notation rm := (root_mask root sets).

Definition Lk (k : nat) : list N := filter (fun r => mem r (nth k sets [])) (order n root).
Definition FS : list (list N) := fresh [root] (map Lk (mask_bits rm)).

Lemma nth_sets_lt k r : In r (nth k sets []) -> r < n.
Proof.
  destruct (Nat.lt_ge_cases k (length sets)) as [Hlt|Hge].
  - apply Hsets. now apply nth_In.
  - rewrite nth_overflow by assumption. intros [].
Qed.

Lemma plist_relay k : In k (mask_bits rm) ->
  plist n root (nth k (relay_outs n root sets rm) (empty_out n)) = Lk k.
Proof.
  intros Hk. apply in_mask_bits in Hk. rewrite nth_relay_outs, Hk.
  unfold plist. apply enum_mk_output; auto. apply nth_sets_lt.
Qed.
Lemma plist_root k :
  plist n root (nth k (root_outs n root sets) (empty_out n)) =
  filter (fun r => mem r (nonroot root (nth k sets []))) (order n root).
Proof.
  rewrite nth_root_outs. unfold plist. apply enum_mk_output; auto.
  intros r Hr. unfold nonroot in Hr. apply filter_In in Hr. apply (nth_sets_lt k). tauto.
Qed.

Lemma fresh_root_eq ks : forall fwl, In root fwl ->
  fresh fwl (map (fun k => filter (fun r => mem r (nonroot root (nth k sets []))) (order n root)) ks) =
  fresh fwl (map Lk ks).
Proof.
  induction ks as [|k ks IH]; intros fwl Hr; cbn [map fresh]; [reflexivity|].
  assert (He : filter (fun r => negb (mem r fwl)) (filter (fun r => mem r (nonroot root (nth k sets []))) (order n root)) =
               filter (fun r => negb (mem r fwl)) (Lk k)).
  { unfold Lk. rewrite !filter_filter. apply filter_ext. intros x. rewrite mem_nonroot.
    destruct (x =? root) eqn:E; cbn [negb]; [|now rewrite Bool.andb_true_r].
    apply N.eqb_eq in E. subst x. apply mem_In in Hr. rewrite Hr. cbn. now rewrite !Bool.andb_false_r. }
  rewrite He. f_equal. apply IH. apply in_or_app. now right.
Qed.

Lemma repr_init : repr n root (mark_forwarded n root (zeros n) root) [root].
Proof. apply repr_mark; auto. apply repr_zeros. Qed.

Lemma NoDup_Lk k : NoDup (Lk k).
Proof. apply NoDup_filter, NoDup_order; auto. Qed.
Lemma Lk_lt k r : In r (Lk k) -> r < n.
Proof. unfold Lk. intros H. apply filter_In in H. destruct H as [H _]. now apply in_order in H. Qed.

Theorem dests_relay me : dests n root me child (relay_outs n root sets rm) rm = succ root t FS me.
Proof.
  unfold dests. rewrite (fold_outputs n root Hn Hroot me child _ _ _ _ [root] repr_init).
  - cbn [app]. unfold succ, FS, BcastTree.m0, BcastWalk.m0. do 3 f_equal.
    apply map_ext_in. intros k Hk. now apply plist_relay.
  - intros k Hk. rewrite plist_relay by assumption. split; [apply NoDup_Lk|apply Lk_lt].
Qed.
Theorem dests_root : dests n root root child (root_outs n root sets) rm = succ root t FS root.
Proof.
  unfold dests. rewrite (fold_outputs n root Hn Hroot root child _ _ _ _ [root] repr_init).
  - cbn [app]. unfold succ, FS, BcastTree.m0, BcastWalk.m0. do 2 f_equal.
    rewrite <- fresh_root_eq by (now left). f_equal.
    apply map_ext. intros k. apply plist_root.
  - intros k Hk. rewrite plist_root. split.
    + apply NoDup_filter, NoDup_order; auto.
    + intros r Hr. apply filter_In in Hr. destruct Hr as [Hr _]. now apply in_order in Hr.
Qed.

Lemma FS_nodup : NoDup (concat FS).
Proof. apply fresh_spec. intros L HL. apply in_map_iff in HL. destruct HL as [k [<- _]]. apply NoDup_Lk. Qed.

Lemma has_remote_false s x : has_remote root s = false -> x <> root -> mem x s = false.
Proof.
  intros H Hx. apply mem_false. intros Hi.
  assert (has_remote root s = true); [|congruence].
  apply existsb_exists. exists x. split; [exact Hi|]. apply Bool.negb_true_iff. now apply N.eqb_neq.
Qed.

Lemma FS_in x : In x (concat FS) <-> x <> root /\ exists k, mem x (nth k sets []) = true.
Proof.
  unfold FS. destruct (fresh_spec (map Lk (mask_bits rm)) [root]) as [_ H].
  { intros L HL. apply in_map_iff in HL. destruct HL as [k [<- _]]. apply NoDup_Lk. }
  rewrite H. clear H. rewrite mem_cons. cbn. rewrite Bool.orb_false_r. split.
  - intros [Hx [L [HL HxL]]]. split; [now apply N.eqb_neq|].
    apply in_map_iff in HL. destruct HL as [k [<- _]]. exists k. unfold Lk in HxL. apply filter_In in HxL. tauto.
  - intros [Hx [k Hk]]. split; [now apply N.eqb_neq|]. exists (Lk k). split.
    + apply in_map. apply in_mask_bits. rewrite root_mask_spec.
      destruct (has_remote root (nth k sets [])) eqn:E; [reflexivity|].
      rewrite (has_remote_false _ x E Hx) in Hk. discriminate.
    + unfold Lk. apply filter_In. split; [|exact Hk]. apply in_order; auto. apply (nth_sets_lt k). now apply mem_In.
Qed.
Lemma FS_root : ~ In root (concat FS).
Proof. intros H. apply FS_in in H. destruct H as [H _]. now apply H. Qed.
Lemma FS_lt x : In x (concat FS) -> x < n.
Proof. intros H. apply FS_in in H. destruct H as [_ [k Hk]]. apply (nth_sets_lt k). now apply mem_In. Qed.
Lemma FS_length F : In F FS -> (length F <= N.to_nat n)%nat.
Proof.
  intros HF. apply fresh_in in HF. destruct HF as [L [HL [_ Hlen]]].
  apply in_map_iff in HL. destruct HL as [k [<- _]]. unfold Lk in Hlen.
  pose proof (filter_length_le (fun r => mem r (nth k sets [])) (order n root)) as H2.
  rewrite length_order in H2. lia.
Qed.
Lemma FS_len31 F : In F FS -> (Z.of_nat (length F) < 2 ^ 31)%Z.
Proof. intros HF. apply FS_length in HF. lia. Qed.
Lemma FS_same_set F x y : In F FS -> In x F -> In y F ->
  exists k, mem x (nth k sets []) = true /\ mem y (nth k sets []) = true.
Proof.
  intros HF Hx Hy. apply fresh_in in HF. destruct HF as [L [HL [Hin _]]].
  apply in_map_iff in HL. destruct HL as [k [<- _]]. exists k.
  apply Hin in Hx, Hy. unfold Lk in Hx, Hy. apply filter_In in Hx, Hy. tauto.
Qed.

Lemma bit_at_mk_output s d : (forall r, In r s -> r < n) -> d < n ->
  bit_at (rank_bits (mk_output n root s)) (rel_of n root d) = mem d s.
Proof.
  intros Hs Hd. destruct (mk_output_inv n root Hn Hroot s Hs) as (_ & Hb & _).
  rewrite Hb. rewrite <- mem_rank_of; auto; [|now apply rel_of_lt].
  now rewrite rank_of_rel_of.
Qed.

(* ---- what every message of the closed propagation satisfies ---- *)
Definition good (m : msg) : Prop :=
  m_pm m = rm /\ In (m_dst m) (concat FS) /\
  (forall k, N.testbit (m_ann m) (N.of_nat k) =
             mem (m_dst m) (nth k sets []) && ((m_src m =? root) || mem (m_src m) (nth k sets []))) /\
  (m_src m <> root -> exists j, mem (m_src m) (nth j sets []) = true /\ mem (m_dst m) (nth j sets []) = true) /\
  In (m_dst m) (succ root t FS (m_src m)).

Lemma succ_dst s d : In d (succ root t FS s) -> In d (concat FS).
Proof. intros H. apply succ_in in H. destruct H as [F [HF [Hd _]]]. apply in_concat. eauto. Qed.

Lemma good_root m : In m (root_sends n root sets child) -> good m.
Proof.
  unfold root_sends. destruct (rm =? 0); [intros []|].
  unfold activate. rewrite dests_root. intros Hm. apply in_map_iff in Hm. destruct Hm as [d [<- Hd]].
  pose proof (succ_dst _ _ Hd) as HdF. pose proof (FS_lt _ HdF) as Hdn.
  assert (Hdr : d <> root) by (apply FS_in in HdF; tauto).
  unfold good. cbn [m_pm m_dst m_ann m_src]. repeat split; auto.
  - intros k. rewrite pack_mask_spec, root_mask_spec, nth_root_outs, N.eqb_refl. cbn [orb].
    rewrite bit_at_mk_output; auto.
    2:{ intros r Hr. unfold nonroot in Hr. apply filter_In in Hr. apply (nth_sets_lt k). tauto. }
    rewrite mem_nonroot. replace (d =? root) with false by (symmetry; now apply N.eqb_neq).
    cbn [negb]. rewrite !Bool.andb_true_r.
    destruct (has_remote root (nth k sets [])) eqn:E; [reflexivity|].
    now rewrite (has_remote_false _ d E Hdr).
  - intros H. now contradiction H.
Qed.

Lemma good_relay m' m : good m' -> In m (relay_sends n root sets child m') -> good m.
Proof.
  intros (Hpm & Hme & _ & _). unfold relay_sends. rewrite Hpm. unfold activate. rewrite dests_relay.
  intros Hm. apply in_map_iff in Hm. destruct Hm as [d [<- Hd]].
  set (me := m_dst m') in *.
  pose proof (succ_dst _ _ Hd) as HdF. pose proof (FS_lt _ HdF) as Hdn.
  assert (Hdr : d <> root) by (apply FS_in in HdF; tauto).
  assert (Hmr : me <> root) by (apply FS_in in Hme; tauto).
  unfold good. cbn [m_pm m_dst m_ann m_src]. repeat split; auto.
  - intros k. rewrite pack_mask_spec, relay_mask_spec, root_mask_spec, nth_relay_outs, root_mask_spec.
    replace (me =? root) with false by (symmetry; now apply N.eqb_neq). cbn [orb].
    destruct (has_remote root (nth k sets [])) eqn:E; cbn [andb].
    + rewrite bit_at_mk_output; auto; [apply Bool.andb_comm|apply nth_sets_lt].
    + now rewrite (has_remote_false _ d E Hdr).
  - intros _. apply succ_in in Hd. destruct Hd as [F [HF [HdFF [Hs|Hs]]]]; [contradiction|].
    destruct (FS_same_set F me d HF Hs HdFF) as [k Hk]. eauto.
Qed.

(* ---- rounds = breadth-first levels ---- *)
Notation sc := (succ root t FS).

Lemma relay_dsts m' : m_pm m' = rm -> map m_dst (relay_sends n root sets child m') = sc (m_dst m').
Proof.
  intros Hpm. unfold relay_sends, activate. rewrite Hpm, map_map, dests_relay. cbn [m_dst]. apply map_id.
Qed.
Lemma root_dsts : map m_dst (root_sends n root sets child) = sc root.
Proof.
  unfold root_sends. destruct (rm =? 0) eqn:E.
  - apply N.eqb_eq in E. unfold succ, FS. rewrite E. reflexivity.
  - unfold activate. rewrite map_map, dests_root. cbn [m_dst]. apply map_id.
Qed.

Lemma map_flat_map {A B C} (f : B -> C) (g : A -> list B) l :
  map f (flat_map g l) = flat_map (fun x => map f (g x)) l.
Proof. induction l as [|a l IH]; cbn; [reflexivity|]. now rewrite map_app, IH. Qed.
Lemma flat_map_map {A B C} (f : A -> B) (g : B -> list C) l :
  flat_map g (map f l) = flat_map (fun x => g (f x)) l.
Proof. induction l as [|a l IH]; cbn; [reflexivity|]. now rewrite IH. Qed.
Lemma flat_map_snd_map {A B} (f : A -> list B) (l : list A) :
  flat_map snd (map (fun m => (m, f m)) l) = flat_map f l.
Proof. induction l as [|a l IH]; cbn; [reflexivity|]. now rewrite IH. Qed.

Lemma step_good fr : Forall good fr ->
  Forall good (flat_map (relay_sends n root sets child) fr) /\
  map m_dst (flat_map (relay_sends n root sets child) fr) = flat_map sc (map m_dst fr).
Proof.
  intros Hg. split.
  - apply Forall_forall. intros m Hm. apply in_flat_map in Hm. destruct Hm as [m' [Hm' Hm]].
    rewrite Forall_forall in Hg. eapply good_relay; eauto.
  - rewrite map_flat_map, flat_map_map. induction Hg as [|m' fr Hm' Hfr IH]; cbn; [reflexivity|].
    rewrite IH. f_equal. apply relay_dsts. apply Hm'.
Qed.

Lemma rounds_levels fuel : forall fr lv, Forall good fr -> map m_dst fr = level sc root lv ->
  Forall good (flat_map snd (fst (rounds n root sets child fuel fr))) /\
  map m_dst (flat_map snd (fst (rounds n root sets child fuel fr))) = levels_range sc root (S lv) fuel /\
  map m_dst (snd (rounds n root sets child fuel fr)) = level sc root (lv + fuel).
Proof.
  induction fuel as [|fuel IH]; intros fr lv Hg Hl; cbn [rounds].
  - cbn. rewrite Nat.add_0_r. auto.
  - rewrite flat_map_snd_map. destruct (step_good fr Hg) as [Hg' Hd'].
    specialize (IH (flat_map (relay_sends n root sets child) fr) (S lv) Hg').
    rewrite Hd', Hl in IH. specialize (IH eq_refl).
    destruct (rounds n root sets child fuel (flat_map (relay_sends n root sets child) fr)) as [log rest].
    cbn [fst snd] in *. destruct IH as (I1 & I2 & I3).
    rewrite flat_map_app, flat_map_snd_map. repeat split.
    + apply Forall_app. split; assumption.
    + rewrite map_app, I2, Hd', Hl. reflexivity.
    + rewrite I3. f_equal. lia.
Qed.

Lemma propagate_unfold :
  propagate n root sets child =
  (root_sends n root sets child,
   fst (rounds n root sets child (N.to_nat n) (root_sends n root sets child)),
   snd (rounds n root sets child (N.to_nat n) (root_sends n root sets child))).
Proof. unfold propagate. destruct (rounds n root sets child (N.to_nat n) (root_sends n root sets child)); reflexivity. Qed.

Lemma root_sends_good : Forall good (root_sends n root sets child).
Proof. apply Forall_forall. intros m. apply good_root. Qed.

Lemma all_good : Forall good (all_msgs (propagate n root sets child)).
Proof.
  rewrite propagate_unfold. cbn [all_msgs]. apply Forall_app. split; [apply root_sends_good|].
  apply (rounds_levels (N.to_nat n) _ 1%nat root_sends_good). cbn [level flat_map]. rewrite app_nil_r. apply root_dsts.
Qed.
Lemma all_dsts : map m_dst (all_msgs (propagate n root sets child)) = levels_range sc root 1 (S (N.to_nat n)).
Proof.
  rewrite propagate_unfold. cbn [all_msgs levels_range]. rewrite map_app. f_equal.
  - rewrite root_dsts. cbn [level flat_map]. now rewrite app_nil_r.
  - apply (rounds_levels (N.to_nat n) _ 1%nat root_sends_good). cbn [level flat_map]. rewrite app_nil_r. apply root_dsts.
Qed.
Lemma left_dsts : map m_dst (leftover (propagate n root sets child)) = level sc root (S (N.to_nat n)).
Proof.
  rewrite propagate_unfold. cbn [leftover].
  apply (rounds_levels (N.to_nat n) _ 1%nat root_sends_good). cbn [level flat_map]. rewrite app_nil_r. apply root_dsts.
Qed.

Lemma reach_FS x : In x (concat FS) -> exists d, (1 <= d <= N.to_nat n)%nat /\ Reach sc root d x.
Proof.
  intros Hx. apply in_concat in Hx. destruct Hx as [F [HF HxF]].
  apply in_split in HF. destruct HF as [Fs1 [Fs2 HFs]].
  apply in_split in HxF. destruct HxF as [A [B HAB]].
  destruct (reach_bound root t FS FS_nodup FS_root FS_len31 Fs1 F Fs2 HFs (length A) A x B eq_refl HAB) as [d [Hd Hr]].
  exists d. split; [|exact Hr].
  assert (HF : In F FS) by (rewrite HFs; apply in_or_app; right; now left).
  apply FS_length in HF. rewrite HAB, app_length in HF. cbn [length] in HF. lia.
Qed.

Lemma cnt_sc_root s : cnt (sc s) root = 0%nat.
Proof. apply succ_root. apply FS_root. Qed.

Lemma is_dest_FS r : is_dest root sets r = true <-> In r (concat FS).
Proof.
  unfold is_dest. rewrite FS_in, Bool.andb_true_iff, Bool.negb_true_iff, N.eqb_neq, existsb_exists.
  split; intros [H1 H2]; (split; [exact H1|]).
  - destruct H2 as [s [Hs Hm]]. destruct (In_nth _ _ [] Hs) as [k [_ Hk]]. exists k. now rewrite Hk.
  - destruct H2 as [k Hk]. exists (nth k sets []). split; [|exact Hk].
    destruct (Nat.lt_ge_cases k (length sets)); [now apply nth_In|].
    rewrite nth_overflow in Hk by assumption. discriminate.
Qed.

Lemma recv_count_cnt r ms : recv_count r ms = cnt (map m_dst ms) r.
Proof.
  unfold recv_count. induction ms as [|m ms IH]; [reflexivity|]. cbn [filter map].
  destruct (N.eq_dec (m_dst m) r) as [He|Hne].
  - rewrite count_occ_cons_eq by assumption. apply N.eqb_eq in He. rewrite He. cbn [length]. now rewrite IH.
  - rewrite count_occ_cons_neq by assumption. apply N.eqb_neq in Hne. now rewrite Hne.
Qed.

(* (1) every destination rank receives exactly one activation, nobody else any *)
Theorem activation_exactly_once r :
  recv_count r (all_msgs (propagate n root sets child)) = if is_dest root sets r then 1%nat else 0%nat.
Proof.
  rewrite recv_count_cnt, all_dsts.
  destruct (is_dest root sets r) eqn:E.
  - apply is_dest_FS in E. destruct (reach_FS r E) as [d [Hd Hr]].
    rewrite (reach_range sc root cnt_sc_root d r Hr).
    replace ((1 <=? d)%nat && (d <? 1 + S (N.to_nat n))%nat) with true by lia. reflexivity.
  - destruct (N.eq_dec r root) as [->|Hne].
    + rewrite (reach_range sc root cnt_sc_root 0 root (Reach_root sc root)). reflexivity.
    + apply unreached_range; [exact Hne|]. intros s. apply succ_notin.
      intros Hi. apply is_dest_FS in Hi. congruence.
Qed.

(* the propagation is over after nb_nodes rounds: nothing is left undelivered *)
Theorem propagation_terminates : leftover (propagate n root sets child) = [].
Proof.
  pose proof left_dsts as Hl.
  destruct (leftover (propagate n root sets child)) as [|m ms]; [reflexivity|exfalso].
  cbn [map] in Hl. set (y := m_dst m) in *.
  assert (Hc : (cnt (level sc root (S (N.to_nat n))) y >= 1)%nat).
  { rewrite <- Hl. rewrite count_occ_cons_eq by reflexivity. lia. }
  destruct (is_dest root sets y) eqn:E.
  - apply is_dest_FS in E. destruct (reach_FS y E) as [d [Hd Hr]].
    rewrite (reach_level sc root cnt_sc_root d y Hr) in Hc.
    destruct (Nat.eqb_spec (S (N.to_nat n)) d); lia.
  - destruct (N.eq_dec y root) as [He|Hne].
    + rewrite He in Hc. rewrite (reach_level sc root cnt_sc_root 0 root (Reach_root sc root)) in Hc. cbn in Hc. lia.
    + rewrite (unreached_level sc root y Hne) in Hc; [lia|]. intros s. apply succ_notin.
      intros Hi. apply is_dest_FS in Hi. congruence.
Qed.

(* what a message announces: exactly the outputs its receiver consumes and its sender holds *)
Theorem announced_iff m k : In m (all_msgs (propagate n root sets child)) ->
  N.testbit (m_ann m) (N.of_nat k) =
  mem (m_dst m) (nth k sets []) && ((m_src m =? root) || mem (m_src m) (nth k sets [])).
Proof. intros Hm. pose proof all_good as Hg. rewrite Forall_forall in Hg. apply (Hg m Hm). Qed.

Theorem relay_shares_a_set m : In m (all_msgs (propagate n root sets child)) -> m_src m <> root ->
  exists j, mem (m_src m) (nth j sets []) = true /\ mem (m_dst m) (nth j sets []) = true.
Proof. intros Hm. pose proof all_good as Hg. rewrite Forall_forall in Hg. apply (Hg m Hm). Qed.

Theorem dst_is_dest m : In m (all_msgs (propagate n root sets child)) -> is_dest root sets (m_dst m) = true.
Proof. intros Hm. pose proof all_good as Hg. rewrite Forall_forall in Hg. apply is_dest_FS. apply (Hg m Hm). Qed.

Theorem sent_by_sender m : In m (all_msgs (propagate n root sets child)) ->
  In (m_dst m) (succ root t FS (m_src m)).
Proof. intros Hm. pose proof all_good as Hg. rewrite Forall_forall in Hg. apply (Hg m Hm). Qed.

(* the payload clause is decided by relay_lacks_output *)
Theorem payload_iff : payload_ok n root sets child <-> relay_lacks_output n root sets child = false.
Proof.
  unfold payload_ok, relay_lacks_output. split.
  - intros H. apply Bool.not_true_is_false. intros He. apply existsb_exists in He.
    destruct He as [m [Hm He]]. apply existsb_exists in He. destruct He as [k [_ He]].
    apply Bool.andb_true_iff in He. destruct He as [H1 H2].
    destruct (H m Hm k H1) as [H3 _]. rewrite H3 in H2. discriminate.
  - intros He m Hm k Hk.
    assert (Ha : N.testbit (m_ann m) (N.of_nat k) = true).
    { destruct (N.testbit (m_ann m) (N.of_nat k)) eqn:E; [reflexivity|exfalso].
      assert (Hlen : (k < length sets)%nat).
      { destruct (Nat.lt_ge_cases k (length sets)); [assumption|]. rewrite nth_overflow in Hk by assumption. discriminate. }
      assert (Hx : existsb (fun m => existsb (fun k => mem (m_dst m) (nth k sets []) && negb (N.testbit (m_ann m) (N.of_nat k)))
                                             (seq 0 (length sets))) (all_msgs (propagate n root sets child)) = true); [|congruence].
      apply existsb_exists. exists m. split; [exact Hm|]. apply existsb_exists. exists k. split; [apply in_seq; lia|].
      now rewrite Hk, E. }
    split; [exact Ha|]. rewrite (announced_iff m k Hm), Hk in Ha. cbn [andb] in Ha.
    apply Bool.orb_true_iff in Ha. destruct Ha as [Ha|Ha]; [left; now apply N.eqb_eq|now right].
Qed.

Lemma payload_from_senders :
  (forall m, In m (all_msgs (propagate n root sets child)) ->
   forall k, mem (m_dst m) (nth k sets []) = true -> m_src m = root \/ mem (m_src m) (nth k sets []) = true) ->
  payload_ok n root sets child.
Proof.
  intros H m Hm k Hk. split; [|now apply H].
  rewrite (announced_iff m k Hm), Hk. cbn [andb]. destruct (H m Hm k Hk) as [->|Hs].
  - now rewrite N.eqb_refl.
  - rewrite Hs. apply Bool.orb_true_r.
Qed.

Theorem payload_same_or_disjoint : same_or_disjoint root sets -> payload_ok n root sets child.
Proof.
  intros Hc. apply payload_from_senders. intros m Hm k Hk.
  destruct (N.eq_dec (m_src m) root) as [He|Hne]; [now left|right].
  destruct (relay_shares_a_set m Hm Hne) as [j [Hj1 Hj2]].
  pose proof (dst_is_dest m Hm) as Hd. unfold is_dest in Hd. apply Bool.andb_true_iff in Hd.
  destruct Hd as [Hd _]. apply Bool.negb_true_iff, N.eqb_neq in Hd.
  destruct (Hc j k) as [Heq|Hdis].
  - rewrite <- Heq; assumption.
  - rewrite (Hdis _ Hd Hj2) in Hk. discriminate.
Qed.

(* each consumer of an output gets it announced exactly once when the payload clause holds *)
Theorem each_output_once : payload_ok n root sets child ->
  forall k r, mem r (nth k sets []) = true -> r <> root ->
  exists m, In m (all_msgs (propagate n root sets child)) /\ m_dst m = r /\
            N.testbit (m_ann m) (N.of_nat k) = true /\
            (m_src m = root \/ mem (m_src m) (nth k sets []) = true) /\
            forall m', In m' (all_msgs (propagate n root sets child)) -> m_dst m' = r -> m' = m.
Proof.
  intros Hp k r Hk Hr.
  assert (Hd : is_dest root sets r = true).
  { apply is_dest_FS, FS_in. split; [exact Hr|]. eauto. }
  pose proof (activation_exactly_once r) as Hc. rewrite Hd in Hc. unfold recv_count in Hc.
  destruct (filter (fun m => m_dst m =? r) (all_msgs (propagate n root sets child))) as [|m [|m2 l]] eqn:Hf; try discriminate.
  assert (Hm : In m (filter (fun m => m_dst m =? r) (all_msgs (propagate n root sets child)))) by (rewrite Hf; now left).
  apply filter_In in Hm. destruct Hm as [Hm He]. apply N.eqb_eq in He.
  exists m. split; [exact Hm|]. split; [exact He|].
  destruct (Hp m Hm k ltac:(now rewrite He)) as [H1 H2]. split; [exact H1|]. split; [exact H2|].
  intros m' Hm' He'.
  assert (Hin : In m' (filter (fun m => m_dst m =? r) (all_msgs (propagate n root sets child)))).
  { apply filter_In. split; [exact Hm'|]. now apply N.eqb_eq. }
  rewrite Hf in Hin. destruct Hin as [<-|[]]. reflexivity.
Qed.
End Closed.

(* ---- star: only the root sends ---- *)
Lemma walk_star s F : forall idx my, (0 <= idx)%Z -> (my = -1 \/ 1 <= my)%Z ->
  walk s star_child F idx my = [].
Proof.
  induction F as [|r F IH]; intros idx my Hi Hm; cbn [walk]; [reflexivity|].
  destruct (my =? -1)%Z eqn:E.
  - apply IH; [lia|]. destruct (r =? s); lia.
  - unfold star_child at 1. replace (my =? 0)%Z with false by lia. cbn [app]. apply IH; lia.
Qed.

Theorem star_only_root n root sets : n < 2 ^ 31 -> root < n ->
  (forall s, In s sets -> forall r, In r s -> r < n) ->
  forall m, In m (all_msgs (propagate n root sets (child_fn Star))) -> m_src m = root.
Proof.
  intros Hn Hr Hs m Hm. pose proof (sent_by_sender n root sets Star Hn Hr Hs m Hm) as Hd.
  destruct (N.eq_dec (m_src m) root) as [He|Hne]; [exact He|exfalso].
  unfold succ, BcastTree.m0 in Hd. apply N.eqb_neq in Hne. rewrite N.eqb_sym, Hne in Hd.
  apply in_concat in Hd. destruct Hd as [l [Hl Hx]]. apply in_map_iff in Hl. destruct Hl as [F [<- _]].
  cbn [child_fn] in Hx. rewrite walk_star in Hx by lia. destruct Hx.
Qed.

Theorem payload_star n root sets : n < 2 ^ 31 -> root < n ->
  (forall s, In s sets -> forall r, In r s -> r < n) ->
  payload_ok n root sets (child_fn Star).
Proof.
  intros Hn Hr Hs. apply payload_from_senders; auto. intros m Hm k _. left. now apply (star_only_root n root sets).
Qed.
