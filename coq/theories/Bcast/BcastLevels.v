(* C13 — a generic counting argument: when every node other than the root has a
   unique sender (its parent) and parents are reached, the breadth-first levels
   started at the root contain every node exactly once. *)
From PV Require Import Base.Tac.
From Coq Require Import NArith.
Local Open Scope N_scope.

Notation cnt l x := (count_occ N.eq_dec l x).

Lemma list_sum_cons a l : list_sum (a :: l) = (a + list_sum l)%nat.
Proof. reflexivity. Qed.
Lemma cnt_flat_map {A} (f : A -> list N) l x :
  cnt (flat_map f l) x = list_sum (map (fun s => cnt (f s) x) l).
Proof.
  induction l as [|a l IH]; [reflexivity|].
  cbn [flat_map map]. now rewrite count_occ_app, list_sum_cons, IH.
Qed.
Lemma cnt_concat_zero (Ls : list (list N)) x : (forall l, In l Ls -> cnt l x = 0%nat) -> cnt (concat Ls) x = 0%nat.
Proof.
  induction Ls as [|l Ls IH]; cbn [concat]; intros H; [reflexivity|].
  rewrite count_occ_app, H by (now left). apply IH. intros; apply H; now right.
Qed.
Lemma list_sum_indicator (l : list N) p :
  list_sum (map (fun s => if s =? p then 1%nat else 0%nat) l) = cnt l p.
Proof.
  induction l as [|a l IH]; [reflexivity|]. cbn [map]. rewrite list_sum_cons, IH.
  destruct (N.eq_dec a p) as [->|Hne].
  - rewrite N.eqb_refl, count_occ_cons_eq by reflexivity. reflexivity.
  - rewrite count_occ_cons_neq by assumption. apply N.eqb_neq in Hne. now rewrite Hne.
Qed.
Lemma list_sum_zero {A} (f : A -> nat) l : (forall s, f s = 0%nat) -> list_sum (map f l) = 0%nat.
Proof. intros H. induction l as [|a l IH]; [reflexivity|]. cbn [map]. now rewrite list_sum_cons, H, IH. Qed.

Section Levels.
Variable succ : N -> list N.
Variable root : N.

Fixpoint level (t : nat) : list N :=
  match t with O => [root] | S t' => flat_map succ (level t') end.

Inductive Reach : nat -> N -> Prop :=
| Reach_root : Reach 0 root
| Reach_child d p x : Reach d p -> x <> root ->
    (forall s, cnt (succ s) x = if s =? p then 1%nat else 0%nat) -> Reach (S d) x.

Hypothesis root_not_sent : forall s, cnt (succ s) root = 0%nat.

Lemma reach_level d x : Reach d x -> forall t, cnt (level t) x = if (t =? d)%nat then 1%nat else 0%nat.
Proof.
  induction 1 as [|d p x Hp IH Hx Hc]; intros t.
  - destruct t as [|t]; cbn [level].
    + cbn. destruct (N.eq_dec root root); [reflexivity|contradiction].
    + rewrite cnt_flat_map, list_sum_zero by apply root_not_sent. reflexivity.
  - destruct t as [|t]; cbn [level].
    + cbn. destruct (N.eq_dec root x); [congruence|reflexivity].
    + rewrite cnt_flat_map. rewrite (map_ext _ (fun s => if s =? p then 1%nat else 0%nat)) by apply Hc.
      rewrite list_sum_indicator, IH. reflexivity.
Qed.

Lemma unreached_level x : x <> root -> (forall s, cnt (succ s) x = 0%nat) -> forall t, cnt (level t) x = 0%nat.
Proof.
  intros Hx Hc [|t]; cbn [level].
  - cbn. destruct (N.eq_dec root x); [congruence|reflexivity].
  - rewrite cnt_flat_map. now apply list_sum_zero.
Qed.

(* levels t .. t+k-1 *)
Fixpoint levels_range (t k : nat) : list N :=
  match k with O => [] | S k' => level t ++ levels_range (S t) k' end.

Lemma reach_range d x : Reach d x -> forall k t,
  cnt (levels_range t k) x = if ((t <=? d) && (d <? t + k))%nat then 1%nat else 0%nat.
Proof.
  intros Hr. induction k as [|k IH]; intros t; cbn [levels_range].
  - destruct (t <=? d)%nat eqn:E1, (d <? t + 0)%nat eqn:E2; cbn; try reflexivity. lia.
  - rewrite count_occ_app, IH, (reach_level d x Hr t).
    destruct (Nat.eqb_spec t d); destruct (S t <=? d)%nat eqn:E1, (d <? S t + k)%nat eqn:E2,
      (t <=? d)%nat eqn:E3, (d <? t + S k)%nat eqn:E4; cbn; try reflexivity; lia.
Qed.
Lemma unreached_range x : x <> root -> (forall s, cnt (succ s) x = 0%nat) ->
  forall k t, cnt (levels_range t k) x = 0%nat.
Proof.
  intros Hx Hc. induction k as [|k IH]; intros t; cbn [levels_range]; [reflexivity|].
  rewrite count_occ_app, IH. now rewrite unreached_level.
Qed.
End Levels.
