(* C13 — bit layer: rank <-> (bank, bit) is a bijection; word arrays; mk_output and
   the enumeration loop of parsec_remote_dep_activate produce the destination set in
   increasing relative rank, each rank once. *)
From PV Require Import Base.Tac.
From Coq Require Import NArith FinFun.
From PV Require Import Bcast.BcastDefs.
Local Open Scope N_scope.
Ltac Zify.zify_post_hook ::= Z.to_euclidean_division_equations.

Definition rel_of (n root rank : N) : N := (rank + n - root) mod n.
Definition rank_of (n root rel : N) : N := (rel + root) mod n.

Lemma rel_of_lt n root rank : 0 < n -> rel_of n root rank < n.
Proof. intros; unfold rel_of; apply N.mod_lt; lia. Qed.
Lemma rank_of_lt n root rel : 0 < n -> rank_of n root rel < n.
Proof. intros; unfold rank_of; apply N.mod_lt; lia. Qed.

Lemma rank_of_rel_of n root rank : root < n -> rank < n -> rank_of n root (rel_of n root rank) = rank.
Proof.
  intros Hr Hk. unfold rank_of, rel_of.
  destruct (N.lt_ge_cases rank root) as [Hlt|Hge].
  - rewrite (N.mod_small (rank + n - root)) by lia.
    symmetry; apply N.mod_unique with (q := 1); lia.
  - replace ((rank + n - root) mod n) with (rank - root).
    + rewrite N.mod_small; lia.
    + apply N.mod_unique with (q := 1); lia.
Qed.
Lemma rel_of_rank_of n root rel : root < n -> rel < n -> rel_of n root (rank_of n root rel) = rel.
Proof.
  intros Hr Hk. unfold rank_of, rel_of.
  destruct (N.lt_ge_cases (rel + root) n) as [Hlt|Hge].
  - rewrite (N.mod_small (rel + root)) by lia.
    symmetry; apply N.mod_unique with (q := 1); lia.
  - replace ((rel + root) mod n) with (rel + root - n).
    + rewrite N.mod_small; lia.
    + apply N.mod_unique with (q := 1); lia.
Qed.

Lemma rank_to_bit_rel n root rank :
  rank_to_bit n root rank = (rel_of n root rank / 32, rel_of n root rank mod 32).
Proof. reflexivity. Qed.
Lemma bit_to_rank_rel n root b i : bit_to_rank n root b i = rank_of n root (b * 32 + i).
Proof. reflexivity. Qed.

(* the bijection between ranks and (bank, bit) positions *)
Lemma rank_to_bit_to_rank n root rank : root < n -> rank < n ->
  let '(b, i) := rank_to_bit n root rank in
  bit_to_rank n root b i = rank /\ i < 32 /\ b * 32 + i < n.
Proof.
  intros Hr Hk. rewrite rank_to_bit_rel, bit_to_rank_rel.
  pose proof (rel_of_lt n root rank ltac:(lia)) as Hl.
  replace (rel_of n root rank / 32 * 32 + rel_of n root rank mod 32) with (rel_of n root rank) by lia.
  rewrite rank_of_rel_of by assumption. repeat split; lia.
Qed.
Lemma bit_to_rank_to_bit n root b i : root < n -> i < 32 -> b * 32 + i < n ->
  bit_to_rank n root b i < n /\ rank_to_bit n root (bit_to_rank n root b i) = (b, i).
Proof.
  intros Hr Hi Hb. rewrite bit_to_rank_rel, rank_to_bit_rel. split.
  - apply rank_of_lt; lia.
  - rewrite rel_of_rank_of by assumption. f_equal; lia.
Qed.
Lemma rank_to_bit_inj n root r1 r2 : root < n -> r1 < n -> r2 < n ->
  rank_to_bit n root r1 = rank_to_bit n root r2 -> r1 = r2.
Proof.
  intros Hr H1 H2 He.
  pose proof (rank_to_bit_to_rank n root r1 Hr H1) as A.
  pose proof (rank_to_bit_to_rank n root r2 Hr H2) as B.
  rewrite He in A. destruct (rank_to_bit n root r2) as [b i]. destruct A as [A _], B as [B _]. congruence.
Qed.
Lemma rel_of_inj n root r1 r2 : root < n -> r1 < n -> r2 < n -> rel_of n root r1 = rel_of n root r2 -> r1 = r2.
Proof. intros Hr H1 H2 He. rewrite <- (rank_of_rel_of n root r1), <- (rank_of_rel_of n root r2) by assumption. now rewrite He. Qed.

(* ---- word arrays ---- *)
Lemma length_upd ws b v : length (upd ws b v) = length ws.
Proof. revert b; induction ws as [|w ws IH]; intros [|b]; cbn; auto. Qed.
Lemma nth_upd ws b v b' : nth b' (upd ws b v) 0 = if (b' =? b)%nat && (b <? length ws)%nat then v else nth b' ws 0.
Proof.
  revert b b'; induction ws as [|w ws IH]; intros b b'.
  - cbn. destruct b, b'; cbn; try reflexivity; now rewrite Bool.andb_false_r.
  - destruct b as [|b], b' as [|b']; cbn [upd nth length]; try reflexivity.
    rewrite IH. reflexivity.
Qed.
Lemma nth_repeat0 k b : nth b (repeat 0 k) 0 = 0.
Proof. revert b; induction k; intros [|b]; cbn; auto. Qed.

Definition bit_at (ws : list N) (rel : N) : bool := getbit ws (rel / 32) (rel mod 32).

Lemma testbit_lor_shift w i j : N.testbit (N.lor w (N.shiftl 1 i)) j = N.testbit w j || (j =? i).
Proof.
  rewrite N.lor_spec, N.shiftl_1_l, N.pow2_bits_eqb. f_equal. apply N.eqb_sym.
Qed.

Lemma bit_at_setbit ws rel rel' : (N.to_nat (rel / 32) < length ws)%nat ->
  bit_at (setbit ws (rel / 32) (rel mod 32)) rel' = bit_at ws rel' || (rel' =? rel).
Proof.
  intros Hl. unfold bit_at, getbit, setbit. rewrite nth_upd.
  destruct (N.to_nat (rel' / 32) =? N.to_nat (rel / 32))%nat eqn:Hb.
  - apply Nat.eqb_eq in Hb. apply Nat.ltb_lt in Hl. rewrite Hl. cbn [andb].
    assert (Hbb : rel' / 32 = rel / 32) by lia. rewrite Hbb.
    rewrite testbit_lor_shift. f_equal.
    destruct (rel' mod 32 =? rel mod 32) eqn:E1, (rel' =? rel) eqn:E2; try reflexivity; exfalso; lia.
  - cbn [andb]. apply Nat.eqb_neq in Hb.
    destruct (rel' =? rel) eqn:E2; [exfalso; apply N.eqb_eq in E2; subst; lia|].
    now rewrite Bool.orb_false_r.
Qed.
Lemma length_setbit ws b i : length (setbit ws b i) = length ws.
Proof. apply length_upd. Qed.
Lemma bit_at_zeros n rel : bit_at (zeros n) rel = false.
Proof. unfold bit_at, getbit, zeros. now rewrite nth_repeat0. Qed.
Lemma bit_at_short ws rel : (length ws <= N.to_nat (rel / 32))%nat -> bit_at ws rel = false.
Proof. intros H. unfold bit_at, getbit. now rewrite nth_overflow. Qed.

Lemma is_forwarded_rel n root fw rank : is_forwarded n root fw rank = bit_at fw (rel_of n root rank).
Proof. reflexivity. Qed.
Lemma mark_forwarded_rel n root fw rank :
  mark_forwarded n root fw rank = setbit fw (rel_of n root rank / 32) (rel_of n root rank mod 32).
Proof. reflexivity. Qed.

Lemma nbanks_covers n rel : rel < n -> (N.to_nat (rel / 32) < nbanks n)%nat.
Proof. intros H. unfold nbanks. lia. Qed.

(* ---- generic list facts ---- *)
Definition rels (k : nat) : list N := map N.of_nat (seq 0 k).
Lemma NoDup_rels k : NoDup (rels k).
Proof.
  unfold rels. apply FinFun.Injective_map_NoDup; [|apply seq_NoDup].
  intros a b H. lia.
Qed.
Lemma in_rels k x : In x (rels k) <-> (N.to_nat x < k)%nat.
Proof.
  unfold rels. rewrite in_map_iff. split.
  - intros [y [<- Hy]]. apply in_seq in Hy. lia.
  - intros H. exists (N.to_nat x). split; [lia|]. apply in_seq. lia.
Qed.
Lemma flat_map_if {A B} (p : A -> bool) (g : A -> B) l :
  flat_map (fun x => if p x then [g x] else []) l = map g (filter p l).
Proof. induction l as [|a l IH]; cbn; [reflexivity|]. destruct (p a); cbn; now rewrite IH. Qed.
Lemma filter_map_comm {A B} (p : B -> bool) (f : A -> B) l :
  filter p (map f l) = map f (filter (fun x => p (f x)) l).
Proof. induction l as [|a l IH]; cbn; [reflexivity|]. destruct (p (f a)); cbn; now rewrite IH. Qed.
Lemma filter_none {A} (p : A -> bool) l : (forall x, In x l -> p x = false) -> filter p l = [].
Proof.
  induction l as [|a l IH]; cbn; intros H; [reflexivity|].
  rewrite (H a) by now left. apply IH. intros x Hx. apply H. now right.
Qed.
Lemma filter_add_one (f g : N -> bool) l a : NoDup l -> In a l -> f a = false ->
  (forall x, g x = f x || (x =? a)) -> length (filter g l) = S (length (filter f l)).
Proof.
  intros Hnd Hin Hfa Hg. induction l as [|x l IH]; [destruct Hin|].
  inv Hnd. cbn [filter]. rewrite Hg. destruct Hin as [->|Hin].
  - rewrite Hfa, N.eqb_refl. cbn. f_equal. f_equal. apply filter_ext_in.
    intros y Hy. rewrite Hg. destruct (y =? a) eqn:E; [apply N.eqb_eq in E; subst; contradiction|].
    now rewrite Bool.orb_false_r.
  - destruct (x =? a) eqn:E; [apply N.eqb_eq in E; subst; contradiction|].
    rewrite Bool.orb_false_r. destruct (f x); cbn [length]; rewrite IH; auto.
Qed.

Lemma seq_shift_map s k : seq s k = map (fun i => s + i)%nat (seq 0 k).
Proof.
  induction s as [|s IH]; [now rewrite map_id|].
  rewrite <- seq_shift, IH, map_map. reflexivity.
Qed.

Lemma NoDup_map_inj_in {A B} (f : A -> B) l :
  (forall x y, In x l -> In y l -> f x = f y -> x = y) -> NoDup l -> NoDup (map f l).
Proof.
  intros Hinj Hnd. induction Hnd as [|a l Hna Hnd IH]; cbn; constructor.
  - intros Hin. apply in_map_iff in Hin. destruct Hin as [y [He Hy]].
    assert (y = a) by (apply Hinj; auto; [now right|now left]). subst. contradiction.
  - apply IH. intros x y Hx Hy. apply Hinj; now right.
Qed.

(* ---- mk_output ---- *)
Section MkOutput.
Variables n root : N.
Hypothesis Hn : 0 < n.
Hypothesis Hroot : root < n.

Definition has_rel (s : list N) (rel : N) : bool := existsb (fun r => rel_of n root r =? rel) s.

Definition out_inv (o : outp) (s : list N) : Prop :=
  length (rank_bits o) = nbanks n /\
  (forall rel, bit_at (rank_bits o) rel = has_rel s rel) /\
  count_bits o = length (filter (bit_at (rank_bits o)) (rels (32 * nbanks n))).

Lemma out_inv_empty : out_inv (empty_out n) [].
Proof.
  unfold out_inv, empty_out; cbn [rank_bits count_bits]. repeat split.
  - unfold zeros. apply repeat_length.
  - intros rel. apply bit_at_zeros.
  - rewrite filter_none; [reflexivity|]. intros x _. apply bit_at_zeros.
Qed.

Lemma add_rank_rel o rank :
  add_rank n root o rank =
  if bit_at (rank_bits o) (rel_of n root rank) then o
  else {| rank_bits := setbit (rank_bits o) (rel_of n root rank / 32) (rel_of n root rank mod 32);
          count_bits := S (count_bits o) |}.
Proof. reflexivity. Qed.

Lemma out_inv_add o s rank : rank < n -> out_inv o s -> out_inv (add_rank n root o rank) (s ++ [rank]).
Proof.
  intros Hr (Hlen & Hbit & Hcnt). rewrite add_rank_rel.
  pose proof (rel_of_lt n root rank Hn) as Hrel.
  assert (Hhas : forall rel, has_rel (s ++ [rank]) rel = has_rel s rel || (rel =? rel_of n root rank)).
  { intros rel. unfold has_rel. rewrite existsb_app. cbn. rewrite Bool.orb_false_r. f_equal. apply N.eqb_sym. }
  destruct (bit_at (rank_bits o) (rel_of n root rank)) eqn:Hb.
  - repeat split; auto. intros rel. rewrite Hhas, <- Hbit.
    destruct (rel =? rel_of n root rank) eqn:E; [|now rewrite Bool.orb_false_r].
    apply N.eqb_eq in E; subst. now rewrite Hb.
  - unfold out_inv. cbn [rank_bits count_bits].
    assert (Hbk : (N.to_nat (rel_of n root rank / 32) < length (rank_bits o))%nat).
    { rewrite Hlen. now apply nbanks_covers. }
    repeat split.
    + now rewrite length_setbit.
    + intros rel. rewrite bit_at_setbit by assumption. now rewrite Hhas, Hbit.
    + rewrite Hcnt. symmetry.
      apply filter_add_one with (a := rel_of n root rank); auto using NoDup_rels.
      * apply in_rels. unfold nbanks. lia.
      * intros x. now apply bit_at_setbit.
Qed.

Lemma out_inv_fold s : forall o s0, (forall r, In r s -> r < n) -> out_inv o s0 ->
  out_inv (fold_left (add_rank n root) s o) (s0 ++ s).
Proof.
  induction s as [|r s IH]; intros o s0 Hs Hi; cbn [fold_left].
  - now rewrite app_nil_r.
  - replace (s0 ++ r :: s) with ((s0 ++ [r]) ++ s) by (now rewrite <- app_assoc).
    apply IH; [intros; apply Hs; now right|]. apply out_inv_add; auto. apply Hs; now left.
Qed.

Lemma mk_output_inv s : (forall r, In r s -> r < n) -> out_inv (mk_output n root s) s.
Proof. intros Hs. unfold mk_output. apply (out_inv_fold s _ []); auto using out_inv_empty. Qed.

(* ---- enumeration ---- *)
Fixpoint enum_full (ai : nat) (ws : list N) : list N :=
  match ws with [] => [] | w :: ws' => enum_word n root ai w ++ enum_full (S ai) ws' end.

Lemma enum_banks_full ws : forall count ai, count = length (enum_full ai ws) ->
  enum_banks n root count ai ws = enum_full ai ws.
Proof.
  induction ws as [|w ws IH]; intros count ai Hc.
  - destruct count; reflexivity.
  - cbn [enum_full] in *. destruct count as [|c].
    + symmetry in Hc. apply length_zero_iff_nil in Hc. now rewrite Hc.
    + cbn [enum_banks]. f_equal. apply IH. rewrite app_length in Hc. lia.
Qed.

Lemma enum_word_spec ai w :
  enum_word n root ai w =
  map (rank_of n root) (filter (fun rel => N.testbit w (rel mod 32)) (map N.of_nat (seq (32 * ai) 32))).
Proof.
  unfold enum_word. rewrite flat_map_if.
  rewrite (seq_shift_map (32 * ai) 32).
  rewrite !map_map. rewrite filter_map_comm, map_map.
  rewrite (filter_ext_in (fun x => N.testbit w (N.of_nat (32 * ai + x) mod 32)) (fun bi => N.testbit w (N.of_nat bi))).
  - apply map_ext. intros bi. rewrite bit_to_rank_rel. f_equal. lia.
  - intros bi Hbi. apply in_seq in Hbi. f_equal. lia.
Qed.

Lemma enum_full_spec ws : forall ai pre, length pre = ai ->
  enum_full ai ws =
  map (rank_of n root) (filter (bit_at (pre ++ ws)) (map N.of_nat (seq (32 * ai) (32 * length ws)))).
Proof.
  induction ws as [|w ws IH]; intros ai pre Hp.
  - cbn [enum_full length]. rewrite Nat.mul_0_r. reflexivity.
  - cbn [enum_full length]. replace (32 * S (length ws))%nat with (32 + 32 * length ws)%nat by lia.
    rewrite seq_app, map_app, filter_app, map_app. f_equal.
    + rewrite enum_word_spec. f_equal. apply filter_ext_in. intros rel Hrel.
      apply in_map_iff in Hrel. destruct Hrel as [k [<- Hk]]. apply in_seq in Hk.
      unfold bit_at, getbit. replace (N.to_nat (N.of_nat k / 32)) with ai by lia.
      rewrite app_nth2 by lia. now rewrite Hp, Nat.sub_diag.
    + rewrite (IH (S ai) (pre ++ [w])) by (rewrite app_length; cbn; lia).
      rewrite <- app_assoc. cbn [app]. replace (32 * S ai)%nat with (32 * ai + 32)%nat by lia. reflexivity.
Qed.

Definition order : list N := map (rank_of n root) (rels (N.to_nat n)).

Lemma mem_rank_of s rel : (forall r, In r s -> r < n) -> rel < n ->
  mem (rank_of n root rel) s = has_rel s rel.
Proof.
  intros Hs Hrel. unfold mem, has_rel. induction s as [|r s IH]; [reflexivity|]. cbn [existsb].
  rewrite IH by (intros; apply Hs; now right). f_equal.
  assert (Hr : r < n) by (apply Hs; now left).
  destruct (rank_of n root rel =? r) eqn:E1, (rel_of n root r =? rel) eqn:E2; try reflexivity; exfalso.
  - apply N.eqb_eq in E1. apply N.eqb_neq in E2. subst r. now rewrite rel_of_rank_of in E2.
  - apply N.eqb_eq in E2. apply N.eqb_neq in E1. subst rel. now rewrite rank_of_rel_of in E1.
Qed.

Theorem enum_mk_output s : (forall r, In r s -> r < n) ->
  enum_banks n root (count_bits (mk_output n root s)) 0 (rank_bits (mk_output n root s)) =
  filter (fun r => mem r s) order.
Proof.
  intros Hs. destruct (mk_output_inv s Hs) as (Hlen & Hbit & Hcnt).
  set (o := mk_output n root s) in *.
  pose proof (enum_full_spec (rank_bits o) 0 [] eq_refl) as Hf. cbn [app] in Hf. rewrite Nat.mul_0_r in Hf.
  rewrite enum_banks_full.
  2:{ rewrite Hf, map_length, Hcnt, Hlen. reflexivity. }
  rewrite Hf, Hlen. fold (rels (32 * nbanks n)).
  assert (Hsplit : rels (32 * nbanks n) = rels (N.to_nat n) ++ map N.of_nat (seq (N.to_nat n) (32 * nbanks n - N.to_nat n))).
  { unfold rels. rewrite <- map_app, <- seq_app. f_equal. f_equal. unfold nbanks. lia. }
  rewrite Hsplit, filter_app, map_app.
  rewrite (filter_none _ (map N.of_nat _)).
  2:{ intros x Hx. apply in_map_iff in Hx. destruct Hx as [k [<- Hk]]. apply in_seq in Hk.
      rewrite Hbit. unfold has_rel. apply Bool.not_true_is_false. intros He.
      apply existsb_exists in He. destruct He as [r [_ He]]. apply N.eqb_eq in He.
      pose proof (rel_of_lt n root r Hn). lia. }
  cbn [map]. rewrite app_nil_r. unfold order. rewrite filter_map_comm. f_equal.
  apply filter_ext_in. intros rel Hrel. apply in_rels in Hrel.
  rewrite Hbit. symmetry. apply mem_rank_of; auto. lia.
Qed.

Lemma NoDup_order : NoDup order.
Proof.
  unfold order. apply NoDup_map_inj_in; [|apply NoDup_rels].
  intros x y Hx Hy He. apply in_rels in Hx, Hy.
  apply (f_equal (rel_of n root)) in He. rewrite !rel_of_rank_of in He by lia. exact He.
Qed.
Lemma in_order r : In r order <-> r < n.
Proof.
  unfold order. rewrite in_map_iff. split.
  - intros [rel [<- _]]. now apply rank_of_lt.
  - intros Hr. exists (rel_of n root r). split; [now apply rank_of_rel_of|].
    apply in_rels. pose proof (rel_of_lt n root r Hn). lia.
Qed.
Lemma length_order : length order = N.to_nat n.
Proof. unfold order, rels. now rewrite !map_length, seq_length. Qed.
End MkOutput.
