(* C13 — the loop of parsec_remote_dep_activate against a static description:
   the participants of output i that are not yet forwarded form the "fresh" list F_i,
   numbered 1..|F_i|; the sends are the walk over F_i. *)
From PV Require Import Base.Tac.
From Coq Require Import NArith.
From PV Require Import Bcast.BcastDefs Bcast.BcastBits.
Local Open Scope N_scope.

Lemma mem_In r l : mem r l = true <-> In r l.
Proof.
  unfold mem. rewrite existsb_exists. split.
  - intros [x [Hx He]]. apply N.eqb_eq in He. now subst.
  - intros H. exists r. split; [exact H|apply N.eqb_refl].
Qed.
Lemma mem_false r l : mem r l = false <-> ~ In r l.
Proof. rewrite <- mem_In. destruct (mem r l); split; congruence. Qed.
Lemma mem_app r a b : mem r (a ++ b) = mem r a || mem r b.
Proof. apply existsb_app. Qed.
Lemma mem_rev r a : mem r (rev a) = mem r a.
Proof.
  destruct (mem r a) eqn:E.
  - apply mem_In. apply -> in_rev. now apply mem_In.
  - apply mem_false. intros H. apply in_rev in H. apply mem_In in H. congruence.
Qed.
Lemma mem_cons r x l : mem r (x :: l) = (r =? x) || mem r l.
Proof. reflexivity. Qed.

(* the sends of one rank over one fresh list, numbering from idx+1 *)
Fixpoint walk (me : N) (child : Z -> Z -> bool) (F : list N) (idx my : Z) : list N :=
  match F with
  | [] => []
  | r :: F' =>
    let idx' := (idx + 1)%Z in
    if (my =? -1)%Z then walk me child F' idx' (if r =? me then idx' else (-1)%Z)
    else (if child my idx' then [r] else []) ++ walk me child F' idx' my
  end.

Fixpoint fresh (fwl : list N) (Ls : list (list N)) : list (list N) :=
  match Ls with
  | [] => []
  | L :: Ls' => let F := filter (fun r => negb (mem r fwl)) L in F :: fresh (rev F ++ fwl) Ls'
  end.

Section Loop.
Variables n root : N.
Hypothesis Hn : 0 < n.
Hypothesis Hroot : root < n.
Variable me : N.
Variable child : Z -> Z -> bool.

Definition repr (fwc fwl : list N) : Prop :=
  length fwc = nbanks n /\ forall r, r < n -> is_forwarded n root fwc r = mem r fwl.

Lemma repr_zeros : repr (zeros n) [].
Proof.
  split; [apply repeat_length|]. intros r _. rewrite is_forwarded_rel. apply bit_at_zeros.
Qed.

Lemma repr_mark fwc fwl r : r < n -> repr fwc fwl -> repr (mark_forwarded n root fwc r) (r :: fwl).
Proof.
  intros Hr [Hl Hb]. rewrite mark_forwarded_rel. split; [now rewrite length_setbit|].
  intros r' Hr'. rewrite is_forwarded_rel, bit_at_setbit.
  2:{ rewrite Hl. apply nbanks_covers. now apply rel_of_lt. }
  rewrite <- is_forwarded_rel, Hb by assumption. rewrite mem_cons, Bool.orb_comm. f_equal.
  destruct (rel_of n root r' =? rel_of n root r) eqn:E1, (r' =? r) eqn:E2; try reflexivity; exfalso.
  - apply N.eqb_eq in E1. apply rel_of_inj in E1; auto. subst. now rewrite N.eqb_refl in E2.
  - apply N.eqb_eq in E2. subst. now rewrite N.eqb_refl in E1.
Qed.

Lemma filter_notin_cons (fwl : list N) x L : ~ In x L ->
  filter (fun r => negb (mem r (x :: fwl))) L = filter (fun r => negb (mem r fwl)) L.
Proof.
  intros Hx. apply filter_ext_in. intros r Hr. rewrite mem_cons.
  destruct (r =? x) eqn:E; [apply N.eqb_eq in E; subst; contradiction|reflexivity].
Qed.

Lemma visit_fwd st r : is_forwarded n root (fw st) r = true -> visit n root me child st r = st.
Proof. intros H. unfold visit. now rewrite H. Qed.
Lemma visit_unknown st r : is_forwarded n root (fw st) r = false -> my_idx st = (-1)%Z ->
  visit n root me child st r =
  {| fw := mark_forwarded n root (fw st) r; idx := (idx st + 1)%Z;
     my_idx := if r =? me then (idx st + 1)%Z else (-1)%Z; sent := sent st |}.
Proof. intros H1 H2. unfold visit. rewrite H1, H2. reflexivity. Qed.
Lemma visit_known st r : is_forwarded n root (fw st) r = false -> my_idx st <> (-1)%Z ->
  visit n root me child st r =
  {| fw := mark_forwarded n root (fw st) r; idx := (idx st + 1)%Z; my_idx := my_idx st;
     sent := if child (my_idx st) (idx st + 1)%Z then sent st ++ [r] else sent st |}.
Proof.
  intros H1 H2. unfold visit. rewrite H1. destruct (my_idx st =? -1)%Z eqn:E; [lia|reflexivity].
Qed.

Lemma fold_visit L : forall st fwl, NoDup L -> (forall r, In r L -> r < n) -> repr (fw st) fwl ->
  let st' := fold_left (visit n root me child) L st in
  let F := filter (fun r => negb (mem r fwl)) L in
  repr (fw st') (rev F ++ fwl) /\ sent st' = sent st ++ walk me child F (idx st) (my_idx st).
Proof.
  induction L as [|r L IH]; intros st fwl Hnd Hlt Hrep; cbn [fold_left filter].
  - cbn. split; [exact Hrep|now rewrite app_nil_r].
  - inv Hnd. assert (Hr : r < n) by (apply Hlt; now left).
    assert (Hlt' : forall x, In x L -> x < n) by (intros; apply Hlt; now right).
    pose proof Hrep as [Hl Hb]. specialize (Hb r Hr).
    destruct (mem r fwl) eqn:Hm; cbn [negb].
    + rewrite visit_fwd by assumption. apply IH; auto.
    + destruct (my_idx st =? -1)%Z eqn:Hmy.
      * rewrite visit_unknown by (auto; lia).
        match goal with |- context[fold_left _ L ?s] => set (st1 := s) end.
        destruct (IH st1 (r :: fwl) H2 Hlt') as [R1 R2].
        { subst st1; cbn [fw]. apply repr_mark; auto. }
        rewrite filter_notin_cons in R1, R2 by assumption.
        split.
        -- cbn [rev]. rewrite <- app_assoc. exact R1.
        -- rewrite R2. subst st1; cbn [sent idx my_idx walk]. rewrite Hmy. reflexivity.
      * rewrite visit_known by (auto; lia).
        match goal with |- context[fold_left _ L ?s] => set (st1 := s) end.
        destruct (IH st1 (r :: fwl) H2 Hlt') as [R1 R2].
        { subst st1; cbn [fw]. apply repr_mark; auto. }
        rewrite filter_notin_cons in R1, R2 by assumption.
        split.
        -- cbn [rev]. rewrite <- app_assoc. exact R1.
        -- rewrite R2. subst st1; cbn [sent idx my_idx walk]. rewrite Hmy.
           destruct (child (my_idx st) (idx st + 1)%Z); cbn [app]; [now rewrite <- app_assoc|reflexivity].
Qed.

Definition m0 : Z := if root =? me then 0%Z else (-1)%Z.
Definition plist (o : outp) : list N := enum_banks n root (count_bits o) 0 (rank_bits o).

Lemma fold_outputs (outs : list outp) ks : forall fwc snt fwl, repr fwc fwl ->
  (forall k, In k ks -> NoDup (plist (nth k outs (empty_out n))) /\
                        forall r, In r (plist (nth k outs (empty_out n))) -> r < n) ->
  snd (fold_left (fun acc i => do_output n root me child (nth i outs (empty_out n)) acc) ks (fwc, snt)) =
  snt ++ concat (map (fun F => walk me child F 0%Z m0)
                     (fresh fwl (map (fun k => plist (nth k outs (empty_out n))) ks))).
Proof.
  induction ks as [|k ks IH]; intros fwc snt fwl Hrep Hks; cbn [fold_left map fresh concat].
  - cbn. now rewrite app_nil_r.
  - destruct (Hks k (or_introl eq_refl)) as [Hnd Hlt].
    unfold do_output at 2. cbn [fst snd].
    match goal with |- context[fold_left (visit _ _ _ _) _ ?s] => set (st0 := s) end.
    destruct (fold_visit (plist (nth k outs (empty_out n))) st0 fwl Hnd Hlt Hrep) as [R1 R2].
    fold (plist (nth k outs (empty_out n))).
    rewrite (IH _ _ _ R1) by (intros; apply Hks; now right).
    rewrite R2. subst st0. cbn [sent idx my_idx]. fold m0. now rewrite <- app_assoc.
Qed.
End Loop.

(* ---- facts about walk ---- *)
Section WalkFacts.
Variable me : N.
Variable child : Z -> Z -> bool.
Notation walk := (walk me child).
Notation cnt l x := (count_occ N.eq_dec l x).

Lemma walk_incl F : forall idx my x, In x (walk F idx my) -> In x F.
Proof.
  induction F as [|r F IH]; intros idx my x; cbn [BcastDefs.mem BcastWalk.walk]; [auto|].
  destruct (my =? -1)%Z.
  - intros H. right. eapply IH; eauto.
  - intros H. apply in_app_or in H. destruct H as [H|H].
    + destruct (child my (idx + 1)%Z); [destruct H as [<-|[]]; now left|destruct H].
    + right. eapply IH; eauto.
Qed.
Lemma cnt_walk_notin F idx my x : ~ In x F -> cnt (walk F idx my) x = 0%nat.
Proof. intros H. apply count_occ_not_In. intros Hi. apply H. eapply walk_incl; eauto. Qed.

Lemma walk_known_app A : forall B idx my, my <> (-1)%Z ->
  walk (A ++ B) idx my = walk A idx my ++ walk B (idx + Z.of_nat (length A))%Z my.
Proof.
  induction A as [|a A IH]; intros B idx my Hmy; cbn [app BcastWalk.walk length].
  - now rewrite Z.add_0_r.
  - destruct (my =? -1)%Z eqn:E; [lia|]. rewrite IH by assumption. rewrite <- app_assoc.
    do 3 f_equal. lia.
Qed.
Lemma walk_skip A : forall B idx, ~ In me A ->
  walk (A ++ B) idx (-1)%Z = walk B (idx + Z.of_nat (length A))%Z (-1)%Z.
Proof.
  induction A as [|a A IH]; intros B idx Hme; cbn [app BcastWalk.walk length].
  - now rewrite Z.add_0_r.
  - cbn. destruct (a =? me) eqn:E; [apply N.eqb_eq in E; subst; exfalso; apply Hme; now left|].
    rewrite IH by (intros H; apply Hme; now right). f_equal. lia.
Qed.
Lemma walk_unknown_nil F idx : ~ In me F -> walk F idx (-1)%Z = [].
Proof. intros H. rewrite <- (app_nil_r F), walk_skip by assumption. reflexivity. Qed.
Lemma walk_found B idx : walk (me :: B) idx (-1)%Z = walk B (idx + 1)%Z (idx + 1)%Z.
Proof. cbn. now rewrite N.eqb_refl. Qed.

Lemma cnt_app l1 l2 (x : N) : cnt (l1 ++ l2) x = (cnt l1 x + cnt l2 x)%nat.
Proof. apply count_occ_app. Qed.

(* the sender knows its index [my] *)
Lemma cnt_walk_known A x B my : my <> (-1)%Z -> ~ In x A -> ~ In x B ->
  forall idx, cnt (walk (A ++ x :: B) idx my) x =
              if child my (idx + Z.of_nat (length A) + 1)%Z then 1%nat else 0%nat.
Proof.
  intros Hmy HA HB idx. rewrite walk_known_app by assumption. rewrite cnt_app, cnt_walk_notin by assumption.
  cbn [BcastWalk.walk]. destruct (my =? -1)%Z eqn:E; [lia|]. rewrite cnt_app, (cnt_walk_notin B) by assumption.
  destruct (child my (idx + Z.of_nat (length A) + 1)%Z); cbn; [|reflexivity].
  destruct (N.eq_dec x x); [reflexivity|contradiction].
Qed.
End WalkFacts.
