(* C15 — properties of every run of the model, through the abstract machine. *)
From PV Require Import Base.Tac Base.ListX Compound.CompoundDefs Compound.CompoundAbs Compound.CompoundRefine.
Local Open Scope nat_scope.

Lemma lentry_eqb_spec a b : reflect (a = b) (lentry_eqb a b).
Proof.
  destruct a as [k|k i|k i|k|], b as [k'|k' i'|k' i'|k'|]; cbn [lentry_eqb]; try (constructor; congruence).
  - destruct (Nat.eqb_spec k k'); constructor; congruence.
  - destruct (Nat.eqb_spec k k'), (Nat.eqb_spec i i'); constructor; congruence.
  - destruct (Nat.eqb_spec k k'), (Nat.eqb_spec i i'); constructor; congruence.
  - destruct (Nat.eqb_spec k k'); constructor; congruence.
Qed.

Definition b2n (b : bool) : nat := if b then 1 else 0.

Lemma lcount_cons x e l : lcount x (e :: l) = b2n (lentry_eqb x e) + lcount x l.
Proof. unfold lcount. cbn [filter]. destruct (lentry_eqb x e); reflexivity. Qed.

Lemma lcount_in x l : 0 < lcount x l -> In x l.
Proof.
  induction l as [|e l IH]; [cbn; lia|]. rewrite lcount_cons. destruct (lentry_eqb_spec x e) as [->|Hne]; [left; reflexivity|].
  cbn [b2n]. intros H. right. apply IH. lia.
Qed.

Lemma lcount_app x a b : lcount x (a ++ b) = lcount x a + lcount x b.
Proof. unfold lcount. rewrite filter_app, app_length. reflexivity. Qed.

Lemma in_lcount x l : In x l -> 0 < lcount x l.
Proof.
  intros H. apply in_split in H. destruct H as (a & b & ->). rewrite lcount_app, lcount_cons.
  destruct (lentry_eqb_spec x x); [cbn; lia|contradiction].
Qed.

(* one more entry that was not expected so far *)
Lemma count_step (P : lentry -> bool) lg e :
  (forall x, lcount x lg = b2n (P x)) -> P e = false ->
  forall x, lcount x (e :: lg) = b2n (P x || lentry_eqb x e).
Proof.
  intros H He x. rewrite lcount_cons, H. destruct (lentry_eqb_spec x e) as [->|Hne].
  - rewrite He. reflexivity.
  - rewrite orb_false_r. reflexivity.
Qed.

Definition started (ts : list tst) (i : nat) : bool :=
  match nth_error ts i with Some TRun | Some TDone => true | _ => false end.
Definition ended (ts : list tst) (i : nat) : bool :=
  match nth_error ts i with Some TDone => true | _ => false end.

Lemma nth_upd {A} (l : list A) i j a b : nth_error l i = Some a ->
  nth_error (upd l i b) j = if j =? i then Some b else nth_error l j.
Proof.
  intros H. destruct (Nat.eqb_spec j i) as [->|Hne].
  - apply (nth_upd_same _ _ _ _ H).
  - apply (nth_upd_other _ _ _ _ _ H Hne).
Qed.

Lemma started_repeat_idle m i : started (repeat TIdle m) i = false.
Proof.
  unfold started. destruct (nth_error (repeat TIdle m) i) as [t|] eqn:E; [|reflexivity].
  apply nth_repeat_inv in E. subst. reflexivity.
Qed.
Lemma ended_repeat_idle m i : ended (repeat TIdle m) i = false.
Proof.
  unfold ended. destruct (nth_error (repeat TIdle m) i) as [t|] eqn:E; [|reflexivity].
  apply nth_repeat_inv in E. subst. reflexivity.
Qed.
Lemma ended_started ts i : ended ts i = true -> started ts i = true.
Proof. unfold ended, started. destruct (nth_error ts i) as [[| |]|]; congruence. Qed.

Lemma all_done_ended ts i : notdone ts = 0%Z -> ended ts i = (i <? length ts).
Proof.
  intros H. apply notdone_zero_repeat in H. unfold ended. destruct (Nat.ltb_spec i (length ts)) as [Hi|Hi].
  - rewrite H. rewrite (nth_error_nth' _ TDone) by (rewrite repeat_length; assumption).
    rewrite nth_repeat. reflexivity.
  - apply nth_error_None in Hi. rewrite Hi. reflexivity.
Qed.
Lemma all_done_started ts i : notdone ts = 0%Z -> started ts i = (i <? length ts).
Proof.
  intros H. pose proof (all_done_ended ts i H) as E. destruct (Nat.ltb_spec i (length ts)) as [Hi|Hi].
  - apply ended_started. exact E.
  - unfold started. apply nth_error_None in Hi. rewrite Hi. reflexivity.
Qed.

Section Props.
Variable pre : bool.
Variable sizes : list nat.
Notation n := (length sizes).
Hypothesis Hn : 0 < n.
Notation sz := (sz sizes).
Notation astep := (astep pre sizes).
Notation wf_a := (wf_a sizes).
Notation advance := (advance pre sizes).

(* which entries the log contains, as a function of the abstract state *)
Definition expb (a : astate) (x : lentry) : bool :=
  match a with
  | ANot => false
  | AIn d su ts =>
      match x with
      | LEnq k => k <=? d
      | LBegin k i => (k <? d) && (i <? sz k) || (k =? d) && started ts i
      | LEnd k i => (k <? d) && (i <? sz k) || (k =? d) && ended ts i
      | LPoolCb k => k <? d
      | LCompound => negb pre
      end
  | AEnd =>
      match x with
      | LEnq k | LPoolCb k => k <? n
      | LBegin k i | LEnd k i => (k <? n) && (i <? sz k)
      | LCompound => true
      end
  end.

(* what precedes an entry *)
Definition entry_ok (e : lentry) (r : list lentry) : Prop :=
  match e with
  | LEnq k => forall k' i', k' < k -> i' < sz k' -> In (LEnd k' i') r
  | LBegin k i => In (LEnq k) r /\ forall k' i', k' < k -> i' < sz k' -> In (LEnd k' i') r
  | LEnd k i => In (LBegin k i) r
  | LPoolCb k => In (LEnq k) r /\ forall i, i < sz k -> In (LEnd k i) r
  | LCompound => if pre then forall k, k < n -> In (LEnq k) r /\ In (LPoolCb k) r /\ forall i, i < sz k -> In (LEnd k i) r
                 else r = []
  end.

Fixpoint log_wf (l : list lentry) : Prop :=
  match l with
  | [] => True
  | e :: r => entry_ok e r /\ log_wf r
  end.

Definition AInv (al : astate * list lentry) : Prop :=
  wf_a (fst al) /\ (forall x, lcount x (snd al) = b2n (expb (fst al) x)) /\ log_wf (snd al) /\
  (fst al = ANot -> snd al = []).

Lemma exp_in a lg x : (forall y, lcount y lg = b2n (expb a y)) -> expb a x = true -> In x lg.
Proof. intros H Hx. apply lcount_in. rewrite H, Hx. cbn. lia. Qed.

Lemma entry_ok_mono e r e' : entry_ok e r -> e <> LCompound \/ pre = true -> entry_ok e (e' :: r).
Proof.
  destruct e; cbn [entry_ok]; intros H Hc.
  - intros; right; auto.
  - destruct H; split; [right; auto|intros; right; auto].
  - right; auto.
  - destruct H; split; [right; auto|intros; right; auto].
  - destruct Hc as [Hc|Hc]; [congruence|]. rewrite Hc in *. intros k Hk. destruct (H k Hk) as (A & B & C).
    split; [right; auto|]. split; [right; auto|]. intros; right; auto.
Qed.

(* termination of member d *)
Lemma advance_inv d su ts lg : d < n -> length ts = sz d -> notdone ts = 0%Z ->
  (forall x, lcount x lg = b2n (expb (AIn d su ts) x)) -> log_wf lg ->
  AInv (advance d lg).
Proof.
  intros Hd Hl Hz Hc Hw. unfold CompoundAbs.advance.
  assert (Hend : forall i, i < sz d -> In (LEnd d i) lg).
  { intros i Hi. apply (exp_in _ _ _ Hc). cbn [expb]. rewrite (all_done_ended _ _ Hz), Hl, Nat.eqb_refl.
    apply Nat.ltb_lt in Hi. rewrite Hi. apply orb_true_r. }
  assert (Hprev : forall k' i', k' < d -> i' < sz k' -> In (LEnd k' i') lg).
  { intros k' i' Hk Hi. apply (exp_in _ _ _ Hc). cbn [expb]. apply Nat.ltb_lt in Hk, Hi. rewrite Hk, Hi. reflexivity. }
  assert (Henq : In (LEnq d) lg).
  { apply (exp_in _ _ _ Hc). cbn [expb]. apply Nat.leb_refl. }
  assert (Hcb : entry_ok (LPoolCb d) lg) by (split; assumption).
  assert (Hc1 : forall x, lcount x (LPoolCb d :: lg) = b2n (expb (AIn d su ts) x || lentry_eqb x (LPoolCb d))).
  { apply count_step; [assumption|]. cbn [expb]. apply Nat.ltb_irrefl. }
  destruct (Nat.ltb_spec (S d) n) as [Hlt|Hge].
  - (* next member *)
    split; [|split; [|split]]; cbn [fst snd].
    + split; [assumption|]. split; [apply repeat_length|]. left; auto.
    + intros x. rewrite (count_step _ _ _ Hc1).
      * f_equal. destruct x as [k|k i|k i|k|]; cbn [expb lentry_eqb].
        -- lia.
        -- rewrite started_repeat_idle, (all_done_started _ _ Hz), Hl.
           destruct (Nat.eqb_spec k d) as [->|Hk]; [|lia]. lia.
        -- rewrite ended_repeat_idle, (all_done_ended _ _ Hz), Hl.
           destruct (Nat.eqb_spec k d) as [->|Hk]; [|lia]. lia.
        -- lia.
        -- rewrite !orb_false_r. reflexivity.
      * cbn [expb lentry_eqb]. lia.
    + cbn [log_wf]. split; [|split; [exact Hcb|exact Hw]].
      cbn [entry_ok]. intros k' i' Hk Hi. right. destruct (Nat.eq_dec k' d) as [->|Hne]; [auto|apply Hprev; [lia|assumption]].
    + discriminate.
  - (* last member *)
    assert (Hnd : S d = n) by lia.
    assert (Hall : forall k, k < n -> In (LEnq k) (LPoolCb d :: lg) /\ In (LPoolCb k) (LPoolCb d :: lg) /\
                                     forall i, i < sz k -> In (LEnd k i) (LPoolCb d :: lg)).
    { intros k Hk. split; [|split].
      - right. apply (exp_in _ _ _ Hc). cbn [expb]. apply Nat.leb_le. lia.
      - destruct (Nat.eq_dec k d) as [->|Hne]; [left; reflexivity|]. right. apply (exp_in _ _ _ Hc). cbn [expb]. apply Nat.ltb_lt. lia.
      - intros i Hi. right. destruct (Nat.eq_dec k d) as [->|Hne]; [auto|apply Hprev; [lia|assumption]]. }
    destruct pre eqn:Epre; (split; [|split; [|split]]); cbn [fst snd]; try exact I; try discriminate.
    + intros x. rewrite (count_step _ _ _ Hc1).
      * f_equal. destruct x as [k|k i|k i|k|]; cbn [expb lentry_eqb].
        -- lia.
        -- rewrite (all_done_started _ _ Hz), Hl. destruct (Nat.eqb_spec k d) as [->|Hk]; lia.
        -- rewrite (all_done_ended _ _ Hz), Hl. destruct (Nat.eqb_spec k d) as [->|Hk]; lia.
        -- lia.
        -- rewrite orb_true_r. reflexivity.
      * cbn [expb lentry_eqb]. rewrite Epre. reflexivity.
    + cbn [log_wf]. split; [|split; [exact Hcb|exact Hw]]. cbn [entry_ok]. rewrite Epre. exact Hall.
    + intros x. rewrite Hc1. f_equal. destruct x as [k|k i|k i|k|]; cbn [expb lentry_eqb].
        -- lia.
        -- rewrite (all_done_started _ _ Hz), Hl. destruct (Nat.eqb_spec k d) as [->|Hk]; lia.
        -- rewrite (all_done_ended _ _ Hz), Hl. destruct (Nat.eqb_spec k d) as [->|Hk]; lia.
        -- lia.
        -- rewrite Epre. reflexivity.
    + cbn [log_wf]. split; [exact Hcb|exact Hw].
Qed.

Lemma started_upd ts i j a b : nth_error ts i = Some a ->
  started (upd ts i b) j = if j =? i then (match b with TIdle => false | _ => true end) else started ts j.
Proof. intros H. unfold started. rewrite (nth_upd _ _ _ _ _ H). destruct (j =? i); [destruct b|]; reflexivity. Qed.
Lemma ended_upd ts i j a b : nth_error ts i = Some a ->
  ended (upd ts i b) j = if j =? i then (match b with TDone => true | _ => false end) else ended ts j.
Proof. intros H. unfold ended. rewrite (nth_upd _ _ _ _ _ H). destruct (j =? i); [destruct b|]; reflexivity. Qed.

Lemma astep_inv al e : AInv al -> AInv (astep al e).
Proof.
  destruct al as [a lg]. intros (Hwf & Hc & Hw & Hnot). cbn [fst snd] in *.
  destruct a as [|d su ts|].
  - (* ANot *)
    destruct e; cbn [CompoundAbs.astep]; try (split; [|split; [|split]]; cbn [fst snd]; assumption).
    rewrite (Hnot eq_refl) in *. clear Hnot.
    split; [|split; [|split]]; cbn [fst snd]; try discriminate.
    + split; [assumption|]. split; [apply repeat_length|]. left; auto.
    + assert (H0 : forall x, lcount x [] = b2n ((fun _ => false) x)) by reflexivity.
      destruct pre eqn:Epre.
      * intros x. rewrite (count_step _ _ (LEnq 0) H0 eq_refl). f_equal.
        destruct x as [k|k i|k i|k|]; cbn [expb lentry_eqb]; rewrite ?started_repeat_idle, ?ended_repeat_idle, ?Epre; try lia; reflexivity.
      * pose proof (count_step _ _ LCompound H0 eq_refl) as H1.
        intros x. rewrite (count_step _ _ (LEnq 0) H1 eq_refl). f_equal.
        destruct x as [k|k i|k i|k|]; cbn [expb lentry_eqb]; rewrite ?started_repeat_idle, ?ended_repeat_idle, ?Epre; try lia; reflexivity.
    + destruct pre eqn:Epre; cbn [log_wf entry_ok]; rewrite ?Epre; repeat split; auto; intros; lia.
  - (* AIn *)
    destruct Hwf as (Hd & Hl & Hsu).
    assert (Hnn := notdone_nonneg ts).
    destruct e as [|k|k|k i|k i]; cbn [CompoundAbs.astep].
    + split; [|split; [|split]]; cbn [fst snd]; try assumption. split; auto.
    + destruct ((k =? d) && (su =? 1)) eqn:E.
      * split; [|split; [|split]]; cbn [fst snd]; try assumption; try discriminate. split; auto.
      * split; [|split; [|split]]; cbn [fst snd]; try assumption. split; auto.
    + destruct ((k =? d) && (su =? 2)) eqn:E.
      * destruct (Z.eqb_spec (notdone ts) 0) as [Hz|Hz].
        -- apply (advance_inv d su ts); assumption.
        -- split; [|split; [|split]]; cbn [fst snd]; try assumption; try discriminate.
           split; [assumption|]. split; [assumption|]. right; right. split; [reflexivity|lia].
      * split; [|split; [|split]]; cbn [fst snd]; try assumption. split; auto.
    + destruct ((k =? d) && (2 <=? su)) eqn:E; [|split; [|split; [|split]]; cbn [fst snd]; try assumption; split; auto].
      destruct (nth_error ts i) as [[| |]|] eqn:Ei; try (split; [|split; [|split]]; cbn [fst snd]; try assumption; split; auto).
      apply andb_prop in E. destruct E as [Ek Es]. apply Nat.eqb_eq in Ek. subst k. apply Nat.leb_le in Es.
      pose proof (notdone_upd _ _ _ TRun Ei) as Hup. cbn [is_done] in Hup.
      split; [|split; [|split]]; cbn [fst snd]; try discriminate.
      * split; [assumption|]. split; [rewrite (len_upd _ _ _ _ Ei); assumption|].
        destruct Hsu as [[H _]|[H|[H H']]]; [lia|auto|]. right; right. split; [assumption|lia].
      * intros x. rewrite (count_step _ _ _ Hc).
        -- f_equal. destruct x as [k|k j|k j|k|]; cbn [expb lentry_eqb]; try reflexivity; try (rewrite orb_false_r; reflexivity).
           ++ rewrite (started_upd _ _ _ _ _ Ei). destruct (Nat.eqb_spec k d), (Nat.eqb_spec j i); subst; try lia; unfold started; rewrite Ei; lia.
           ++ rewrite (ended_upd _ _ _ _ _ Ei). destruct (Nat.eqb_spec j i); subst; try lia; unfold ended; rewrite Ei; lia.
        -- cbn [expb]. unfold started. rewrite Ei. lia.
      * cbn [log_wf]. split; [|assumption]. cbn [entry_ok]. split.
        -- apply (exp_in _ _ _ Hc). cbn [expb]. apply Nat.leb_refl.
        -- intros k' i' Hk Hi. apply (exp_in _ _ _ Hc). cbn [expb]. apply Nat.ltb_lt in Hk, Hi. rewrite Hk, Hi. reflexivity.
    + destruct (Nat.eqb_spec k d) as [->|Hk]; [|split; [|split; [|split]]; cbn [fst snd]; try assumption; split; auto].
      destruct (nth_error ts i) as [[| |]|] eqn:Ei; try (split; [|split; [|split]]; cbn [fst snd]; try assumption; split; auto).
      pose proof (notdone_upd _ _ _ TDone Ei) as Hup. cbn [is_done] in Hup.
      assert (Hsu' : su = 2 \/ su = 3).
      { destruct Hsu as [[_ Hts]|[H|[H _]]]; auto. rewrite Hts in Ei. apply nth_repeat_inv in Ei. discriminate. }
      assert (Hlen : length (upd ts i TDone) = sz d) by (rewrite (len_upd _ _ _ _ Ei); assumption).
      assert (Hc' : forall x, lcount x (LEnd d i :: lg) = b2n (expb (AIn d su (upd ts i TDone)) x)).
      { intros x. rewrite (count_step _ _ _ Hc).
        -- f_equal. destruct x as [k|k j|k j|k|]; cbn [expb lentry_eqb]; try reflexivity; try (rewrite orb_false_r; reflexivity).
           ++ rewrite (started_upd _ _ _ _ _ Ei). destruct (Nat.eqb_spec j i); subst; try lia; unfold started; rewrite Ei; lia.
           ++ rewrite (ended_upd _ _ _ _ _ Ei). destruct (Nat.eqb_spec k d), (Nat.eqb_spec j i); subst; try lia; unfold ended; rewrite Ei; lia.
        -- cbn [expb]. unfold ended. rewrite Ei. lia. }
      assert (Hw' : log_wf (LEnd d i :: lg)).
      { cbn [log_wf]. split; [|assumption]. cbn [entry_ok]. apply (exp_in _ _ _ Hc). cbn [expb].
        unfold started. rewrite Ei, Nat.eqb_refl. apply orb_true_r. }
      destruct ((notdone (upd ts i TDone) =? 0)%Z && (su =? 3)) eqn:E.
      * apply andb_prop in E. destruct E as [Ez _]. apply Z.eqb_eq in Ez.
        apply (advance_inv d su (upd ts i TDone)); assumption.
      * split; [|split; [|split]]; cbn [fst snd]; try assumption; try discriminate.
        split; [assumption|]. split; [assumption|].
        destruct Hsu' as [-> | ->]; [auto|]. right; right. split; [reflexivity|].
        rewrite Nat.eqb_refl, andb_true_r in E. apply Z.eqb_neq in E. pose proof (notdone_nonneg (upd ts i TDone)). lia.
  - (* AEnd *)
    cbn [CompoundAbs.astep]. split; [|split; [|split]]; cbn [fst snd]; assumption.
Qed.

Notation arun := (arun pre sizes).
Notation conc := (conc pre sizes).

Lemma arun_inv evs : AInv (arun evs).
Proof.
  unfold CompoundAbs.arun. apply fold_left_inv.
  - intros al e H. apply astep_inv. exact H.
  - split; [exact I|]. split; [reflexivity|]. split; [exact I|reflexivity].
Qed.

Lemma run_conc evs : run pre sizes evs = conc (fst (arun evs)) (snd (arun evs)).
Proof.
  unfold run, CompoundAbs.arun.
  assert (G : forall evs al, AInv al ->
              fold_left step evs (conc (fst al) (snd al)) =
              conc (fst (fold_left astep evs al)) (snd (fold_left astep evs al))).
  { induction evs0 as [|e evs0 IH]; intros al Hal; [reflexivity|].
    cbn [fold_left]. destruct al as [a lg]. cbn [fst snd].
    rewrite (step_conc pre sizes Hn a lg e (proj1 Hal)). apply IH. apply astep_inv. exact Hal. }
  apply (G evs (ANot, [])). apply (arun_inv []).
Qed.

Lemma log_conc a lg : log (conc a lg) = lg.
Proof. destruct a; reflexivity. Qed.

Lemma log_run evs : log (run pre sizes evs) = snd (arun evs).
Proof. rewrite run_conc. apply log_conc. Qed.

Lemma log_wf_split l2 e l1 : log_wf (l2 ++ e :: l1) -> entry_ok e l1.
Proof. induction l2 as [|x l2 IH]; cbn [app log_wf]; intros [H1 H2]; auto. Qed.

(* ---- the statements ------------------------------------------------------------------ *)

(* a task of member k begins only after member k was enqueued and every task of every
   earlier member ended *)
Lemma P_sequential evs l1 l2 k i :
  log (run pre sizes evs) = l2 ++ LBegin k i :: l1 ->
  In (LEnq k) l1 /\ forall k' i', k' < k -> i' < sz k' -> In (LEnd k' i') l1.
Proof.
  intros H. rewrite log_run in H. destruct (arun_inv evs) as (_ & _ & Hw & _). rewrite H in Hw.
  exact (log_wf_split _ _ _ Hw).
Qed.

(* member k is handed to the context only after every task of every earlier member ended *)
Lemma P_enqueue_after evs l1 l2 k :
  log (run pre sizes evs) = l2 ++ LEnq k :: l1 ->
  forall k' i', k' < k -> i' < sz k' -> In (LEnd k' i') l1.
Proof.
  intros H. rewrite log_run in H. destruct (arun_inv evs) as (_ & _ & Hw & _). rewrite H in Hw.
  exact (log_wf_split _ _ _ Hw).
Qed.

Lemma P_end_after_begin evs l1 l2 k i :
  log (run pre sizes evs) = l2 ++ LEnd k i :: l1 -> In (LBegin k i) l1.
Proof.
  intros H. rewrite log_run in H. destruct (arun_inv evs) as (_ & _ & Hw & _). rewrite H in Hw.
  exact (log_wf_split _ _ _ Hw).
Qed.

(* a member's completion callback runs after it was enqueued and all its tasks ended *)
Lemma P_poolcb_after evs l1 l2 k :
  log (run pre sizes evs) = l2 ++ LPoolCb k :: l1 -> In (LEnq k) l1 /\ forall i, i < sz k -> In (LEnd k i) l1.
Proof.
  intros H. rewrite log_run in H. destruct (arun_inv evs) as (_ & _ & Hw & _). rewrite H in Hw.
  exact (log_wf_split _ _ _ Hw).
Qed.

(* nothing happens twice *)
Lemma P_at_most_once evs x : lcount x (log (run pre sizes evs)) <= 1.
Proof.
  rewrite log_run. destruct (arun_inv evs) as (_ & Hc & _). rewrite Hc. destruct (expb _ x); cbn; lia.
Qed.

(* when the last member's callback has run, everything happened exactly once *)
Lemma done_is_end evs : c_done (run pre sizes evs) = n -> fst (arun evs) = AEnd.
Proof.
  rewrite run_conc. destruct (arun_inv evs) as (Hwf & _). destruct (fst (arun evs)) as [|d su ts|]; cbn.
  - lia.
  - destruct Hwf. lia.
  - reflexivity.
Qed.

Lemma P_complete evs : c_done (run pre sizes evs) = n ->
  let lg := log (run pre sizes evs) in
  lcount LCompound lg = 1 /\
  (forall k, k < n -> lcount (LEnq k) lg = 1 /\ lcount (LPoolCb k) lg = 1 /\
                      (forall i, i < sz k -> lcount (LBegin k i) lg = 1 /\ lcount (LEnd k i) lg = 1)).
Proof.
  intros Hd. cbv zeta. rewrite log_run. pose proof (done_is_end evs Hd) as Ha.
  destruct (arun_inv evs) as (_ & Hc & _). rewrite Ha in Hc.
  split; [rewrite Hc; reflexivity|]. intros k Hk. apply Nat.ltb_lt in Hk.
  split; [rewrite Hc; cbn [expb]; rewrite Hk; reflexivity|]. split; [rewrite Hc; cbn [expb]; rewrite Hk; reflexivity|].
  intros i Hi. apply Nat.ltb_lt in Hi. split; rewrite Hc; cbn [expb]; rewrite Hk, Hi; reflexivity.
Qed.

(* state of the context counters *)
Lemma P_active evs : c_added (run pre sizes evs) = true ->
  (active (run pre sizes evs) = 0%Z <-> c_done (run pre sizes evs) = n) /\ (0 <= active (run pre sizes evs))%Z.
Proof.
  rewrite run_conc. destruct (arun_inv evs) as (Hwf & _). destruct (fst (arun evs)) as [|d su ts|]; cbn.
  - discriminate.
  - destruct Hwf as (Hd & _). intros _. destruct pre; split; try lia; split; intros; lia.
  - intros _. split; [tauto|lia].
Qed.

(* the compound is reported terminated (its on_complete runs, parsec_taskpool_wait(compound)
   may return) only after every member was enqueued, ran all its tasks and completed —
   with the repaired constructor *)
Lemma P_compound_after_all evs l1 l2 : pre = true ->
  log (run pre sizes evs) = l2 ++ LCompound :: l1 ->
  forall k, k < n -> In (LEnq k) l1 /\ In (LPoolCb k) l1 /\ forall i, i < sz k -> In (LEnd k i) l1.
Proof.
  intros Hp H. rewrite log_run in H. destruct (arun_inv evs) as (_ & _ & Hw & _). rewrite H in Hw.
  pose proof (log_wf_split _ _ _ Hw) as He. cbn [entry_ok] in He. rewrite Hp in He. exact He.
Qed.

(* the code as it is: the report is the very first thing that happens *)
Lemma P_compound_first evs l1 l2 : pre = false ->
  log (run pre sizes evs) = l2 ++ LCompound :: l1 -> l1 = [].
Proof.
  intros Hp H. rewrite log_run in H. destruct (arun_inv evs) as (_ & _ & Hw & _). rewrite H in Hw.
  pose proof (log_wf_split _ _ _ Hw) as He. cbn [entry_ok] in He. rewrite Hp in He. exact He.
Qed.

Lemma P_compound_at_add evs : pre = false -> c_added (run pre sizes evs) = true ->
  exists l, log (run pre sizes evs) = l ++ [LCompound].
Proof.
  intros Hp Ha. assert (Hin : In LCompound (log (run pre sizes evs))).
  { rewrite log_run. rewrite run_conc in Ha. destruct (arun_inv evs) as (_ & Hc & _).
    apply lcount_in. rewrite Hc. destruct (fst (arun evs)); cbn in *; try discriminate; rewrite ?Hp; cbn; lia. }
  apply in_split in Hin. destruct Hin as (l2 & l1 & H). rewrite (P_compound_first evs l1 l2 Hp H) in H.
  exists l2. exact H.
Qed.

(* with the repaired constructor the compound is reported exactly when the last member completed *)
Lemma P_compound_iff_done evs : pre = true -> c_added (run pre sizes evs) = true ->
  (lcount LCompound (log (run pre sizes evs)) = 1 <-> c_done (run pre sizes evs) = n) /\
  (lcount LCompound (log (run pre sizes evs)) = 0 <-> c_done (run pre sizes evs) < n).
Proof.
  intros Hp. rewrite log_run, run_conc. destruct (arun_inv evs) as (Hwf & Hc & _). rewrite Hc.
  destruct (fst (arun evs)) as [|d su ts|]; cbn.
  - discriminate.
  - destruct Hwf as (Hd & _). rewrite Hp. cbn. intros _. split; split; intros; lia.
  - intros _. split; split; intros; lia.
Qed.

(* ---- progress: a run that is not complete can always go on ---------------------------- *)
Definition pm (s : state) : nat := 4 * length (log s) + su_of s (c_done s) + (if c_added s then 1 else 0).
Definition apm (al : astate * list lentry) : nat :=
  4 * length (snd al) + match fst al with ANot => 0 | AIn d su ts => su + 1 | AEnd => 1 end.

Lemma pm_conc a lg : wf_a a -> pm (conc a lg) = apm (a, lg).
Proof.
  intros Hwf. unfold pm, apm. rewrite log_conc. cbn [fst snd]. destruct a as [|d su ts|].
  - rewrite (su_init pre sizes). cbn. lia.
  - destruct Hwf as (Hd & _). change (c_done (conc (AIn d su ts) lg)) with d.
    rewrite (su_cur pre sizes) by assumption. cbn. lia.
  - change (c_done (conc AEnd lg)) with n. unfold su_of. cbn [CompoundAbs.conc pools].
    rewrite nth_map_seq, Nat.ltb_irrefl. cbn. lia.
Qed.

Lemma advance_pm d lg : length lg < length (snd (advance d lg)).
Proof. unfold CompoundAbs.advance. destruct (S d <? n); [|destruct pre]; cbn; lia. Qed.

Lemma astep_mono al e : AInv al -> astep al e = al \/ apm al < apm (astep al e).
Proof.
  destruct al as [a lg]. intros (Hwf & _). cbn [fst] in Hwf. destruct a as [|d su ts|]; [| |left; reflexivity].
  - destruct e; cbn [CompoundAbs.astep]; auto. right. unfold apm. cbn [fst snd]. destruct pre; cbn [length]; lia.
  - destruct Hwf as (Hd & Hl & Hsu).
    destruct e as [|k|k|k i|k i]; cbn [CompoundAbs.astep]; auto.
    + destruct ((k =? d) && (su =? 1)) eqn:E; auto. right. apply andb_prop in E. destruct E as [_ E]. apply Nat.eqb_eq in E.
      unfold apm. cbn. lia.
    + destruct ((k =? d) && (su =? 2)) eqn:E; auto. right. apply andb_prop in E. destruct E as [_ E]. apply Nat.eqb_eq in E.
      destruct (notdone ts =? 0)%Z.
      * pose proof (advance_pm d lg). unfold apm. cbn [fst snd].
        destruct (fst (advance d lg)) as [|d' su' ts'|]; lia.
      * unfold apm. cbn. lia.
    + destruct ((k =? d) && (2 <=? su)) eqn:E; auto. destruct (nth_error ts i) as [[| |]|]; auto.
      right. unfold apm. cbn [fst snd length]. lia.
    + destruct (k =? d); auto. destruct (nth_error ts i) as [[| |]|]; auto. right.
      destruct ((notdone (upd ts i TDone) =? 0)%Z && (su =? 3)).
      * pose proof (advance_pm d (LEnd d i :: lg)) as H. cbn [length] in H. unfold apm. cbn [fst snd].
        assert (su <= 3) by (destruct Hsu as [[-> _]|[->|[-> _]]]; lia).
        destruct (fst (advance d (LEnd d i :: lg))) as [|d' su' ts'|]; lia.
      * unfold apm. cbn [fst snd length]. lia.
Qed.

Lemma AEnd_dec (a : astate) : a = AEnd \/ a <> AEnd.
Proof. destruct a; [right; discriminate|right; discriminate|left; reflexivity]. Qed.

Lemma astep_progress a lg : wf_a a -> a <> AEnd -> exists e, apm (a, lg) < apm (astep (a, lg) e).
Proof.
  intros Hwf Hne. destruct a as [|d su ts|]; [| |contradiction].
  - exists EAdd. unfold apm. cbn [CompoundAbs.astep fst snd]. destruct pre; cbn [length]; lia.
  - destruct Hwf as (Hd & Hl & [[-> Hts]|[->|[-> Hpos]]]).
    + exists (EStartup d). cbn [CompoundAbs.astep]. rewrite Nat.eqb_refl. cbn. lia.
    + exists (EStartupDone d). cbn [CompoundAbs.astep]. rewrite Nat.eqb_refl. cbn [andb Nat.eqb].
      destruct (notdone ts =? 0)%Z.
      * pose proof (advance_pm d lg). unfold apm. cbn [fst snd]. destruct (fst (advance d lg)) as [|d' su' ts'|]; lia.
      * unfold apm. cbn. lia.
    + destruct (notdone_exists _ Hpos) as (i & t & Hi & Ht). destruct t; try discriminate.
      * exists (EBegin d i). cbn [CompoundAbs.astep]. rewrite Nat.eqb_refl, Hi. cbn. lia.
      * exists (EEnd d i). cbn [CompoundAbs.astep]. rewrite Nat.eqb_refl, Hi.
        destruct ((notdone (upd ts i TDone) =? 0)%Z && (3 =? 3)).
        -- pose proof (advance_pm d (LEnd d i :: lg)) as H. cbn [length] in H. unfold apm. cbn [fst snd].
           destruct (fst (advance d (LEnd d i :: lg))) as [|d' su' ts'|]; lia.
        -- unfold apm. cbn [fst snd length]. lia.
Qed.

Lemma P_step_monotone evs e :
  let s := run pre sizes evs in step s e = s \/ pm s < pm (step s e).
Proof.
  cbv zeta. pose proof (arun_inv evs) as Hi. rewrite run_conc. destruct (arun evs) as [a lg]. cbn [fst snd] in *.
  rewrite (step_conc pre sizes Hn a lg e (proj1 Hi)).
  pose proof (astep_inv (a, lg) e Hi) as Hi'.
  destruct (astep_mono (a, lg) e Hi) as [H|H].
  - left. rewrite H. reflexivity.
  - right. destruct (astep (a, lg) e) as [a' lg'] eqn:E. cbn [fst snd] in *.
    rewrite !pm_conc; [exact H|apply Hi'|apply Hi].
Qed.

Lemma P_progress evs :
  let s := run pre sizes evs in c_done s = n \/ exists e, pm s < pm (step s e).
Proof.
  cbv zeta. pose proof (arun_inv evs) as Hi. rewrite run_conc. destruct (arun evs) as [a lg]. cbn [fst snd] in *.
  destruct (AEnd_dec a) as [->|Hne]; [left; reflexivity|right].
  destruct (astep_progress a lg (proj1 Hi) Hne) as (e & He). exists e.
  rewrite (step_conc pre sizes Hn a lg e (proj1 Hi)).
  pose proof (astep_inv (a, lg) e Hi) as Hi'.
  destruct (astep (a, lg) e) as [a' lg'] eqn:E. cbn [fst snd] in *.
  rewrite !pm_conc; [exact He|apply Hi'|apply Hi].
Qed.
End Props.
