(* C15 — refinement: the model of compound.c (CompoundDefs.step) follows the abstract
   machine of CompoundAbs.v on every event:  step (conc a lg) e = conc (astep (a, lg) e). *)
From PV Require Import Base.Tac Base.ListX Compound.CompoundDefs Compound.CompoundAbs.
Local Open Scope nat_scope.

Section Ref.
Variable pre : bool.
Variable sizes : list nat.
Notation n := (length sizes).
Hypothesis Hn : 0 < n.
Notation sz := (sz sizes).
Notation poolF := (poolF sizes).
Notation mk d c c' a b e f g h := (mkState (map (CompoundAbs.poolF sizes d c c') (seq 0 (length sizes))) true a b e f g h).
Notation conc := (conc pre sizes).
Notation astep := (astep pre sizes).
Notation wf_a := (wf_a sizes).

Lemma poolF_d d c c' : poolF d c c' d = c.
Proof. unfold CompoundAbs.poolF. rewrite Nat.ltb_irrefl, Nat.eqb_refl. reflexivity. Qed.
Lemma poolF_Sd d c c' : poolF d c c' (S d) = c'.
Proof.
  unfold CompoundAbs.poolF. destruct (Nat.ltb_spec (S d) d); [lia|].
  destruct (Nat.eqb_spec (S d) d); [lia|]. rewrite Nat.eqb_refl. reflexivity.
Qed.
Lemma poolF_lt d c c' k : k < d -> poolF d c c' k = fin_pool (sz k).
Proof. intros H. unfold CompoundAbs.poolF. destruct (Nat.ltb_spec k d); [reflexivity|lia]. Qed.
Lemma poolF_gt d c c' k : S d < k -> poolF d c c' k = new_pool (sz k).
Proof.
  intros H. unfold CompoundAbs.poolF. destruct (Nat.ltb_spec k d); [lia|].
  destruct (Nat.eqb_spec k d); [lia|]. destruct (Nat.eqb_spec k (S d)); [lia|]. reflexivity.
Qed.

Lemma mk_nth d c c' a b e f g h k :
  nth_error (pools (mk d c c' a b e f g h)) k = if k <? n then Some (poolF d c c' k) else None.
Proof. cbn [pools]. apply nth_map_seq. Qed.

Lemma on_pool_mk_d d c c' a b e f g h F : d < n ->
  on_pool d F (mk d c c' a b e f g h) = mk d (F c) c' a b e f g h.
Proof.
  intros Hd. unfold on_pool. rewrite mk_nth. destruct (Nat.ltb_spec d n); [|lia].
  rewrite poolF_d. unfold set_pools; cbn [pools c_added c_pa c_st c_done c_cb active log]. f_equal.
  rewrite <- (poolF_d d (F c) c') at 1. apply upd_map_seq; [assumption|].
  intros k Hk. unfold CompoundAbs.poolF. destruct (k <? d); [reflexivity|].
  destruct (Nat.eqb_spec k d); [contradiction|reflexivity].
Qed.

Lemma on_pool_mk_Sd d c c' a b e f g h F : S d < n ->
  on_pool (S d) F (mk d c c' a b e f g h) = mk d c (F c') a b e f g h.
Proof.
  intros Hd. unfold on_pool. rewrite mk_nth. destruct (Nat.ltb_spec (S d) n); [|lia].
  rewrite poolF_Sd. unfold set_pools; cbn [pools c_added c_pa c_st c_done c_cb active log]. f_equal.
  rewrite <- (poolF_Sd d c (F c')) at 1. apply upd_map_seq; [assumption|].
  intros k Hk. unfold CompoundAbs.poolF. destruct (k <? d); [reflexivity|].
  destruct (k =? d); [reflexivity|]. destruct (Nat.eqb_spec k (S d)); [contradiction|reflexivity].
Qed.

(* finishing member d moves the window *)
Lemma mk_shift d c' a b e f g h : S d < n ->
  mk d (fin_pool (sz d)) c' a b e f g h = mk (S d) c' (new_pool (sz (S (S d)))) a b e f g h.
Proof.
  intros Hd. f_equal. apply map_ext_in. intros k _. unfold CompoundAbs.poolF.
  destruct (Nat.ltb_spec k d), (Nat.ltb_spec k (S d)); try lia; try reflexivity.
  - destruct (Nat.eqb_spec k d); [subst; reflexivity|lia].
  - destruct (Nat.eqb_spec k d); [lia|]. destruct (Nat.eqb_spec k (S d)); [reflexivity|].
    destruct (Nat.eqb_spec k (S (S d))); [subst; reflexivity|reflexivity].
Qed.

Lemma mk_last d c' : S d = n ->
  map (poolF d (fin_pool (sz d)) c') (seq 0 n) = map (fun k => fin_pool (sz k)) (seq 0 n).
Proof.
  intros Hd. apply map_ext_in. intros k Hk. apply in_seq in Hk. unfold CompoundAbs.poolF.
  destruct (Nat.ltb_spec k d); [reflexivity|]. destruct (Nat.eqb_spec k d); [subst; reflexivity|lia].
Qed.

Lemma init_pools : map new_pool sizes = map (poolF 0 (new_pool (sz 0)) (new_pool (sz 1))) (seq 0 n).
Proof.
  rewrite (map_as_seq new_pool sizes 0). apply map_ext. intros k. unfold CompoundAbs.poolF.
  destruct k as [|[|k]]; reflexivity.
Qed.
Lemma su_of_mk d c c' a b e f g h k :
  su_of (mk d c c' a b e f g h) k = if k <? n then p_su (poolF d c c' k) else 0.
Proof. unfold su_of. rewrite mk_nth. destruct (k <? n); reflexivity. Qed.

Lemma task_of_mk d c c' a b e f g h k i :
  task_of (mk d c c' a b e f g h) k i = if k <? n then nth_error (p_tasks (poolF d c c' k)) i else None.
Proof. unfold task_of. rewrite mk_nth. destruct (k <? n); reflexivity. Qed.

Lemma nth_repeat_inv {A} (x y : A) m i : nth_error (repeat x m) i = Some y -> y = x.
Proof. intros H. apply nth_error_In in H. apply repeat_spec in H. exact H. Qed.

(* members other than the current one: nothing is enabled *)
Lemma other_su d c k : k <> d -> k < n ->
  p_su (poolF d c (new_pool (sz (S d))) k) = 3 /\ (forall i t, nth_error (p_tasks (poolF d c (new_pool (sz (S d))) k)) i = Some t -> t = TDone)
  \/ p_su (poolF d c (new_pool (sz (S d))) k) = 0 /\ (forall i t, nth_error (p_tasks (poolF d c (new_pool (sz (S d))) k)) i = Some t -> t = TIdle).
Proof.
  intros Hk Hkn. destruct (Nat.lt_ge_cases k d) as [H|H].
  - left. rewrite poolF_lt by assumption. split; [reflexivity|]. intros i t Ht. cbn in Ht. eapply nth_repeat_inv; eauto.
  - right. destruct (Nat.eq_dec k (S d)) as [->|H2].
    + rewrite poolF_Sd. split; [reflexivity|]. intros i t Ht. cbn in Ht. eapply nth_repeat_inv; eauto.
    + rewrite poolF_gt by lia. split; [reflexivity|]. intros i t Ht. cbn in Ht. eapply nth_repeat_inv; eauto.
Qed.

Lemma noop_other d su ts lg e k :
  k <> d ->
  match e with EStartup k' | EStartupDone k' | EBegin k' _ | EEnd k' _ => k' = k | EAdd => False end ->
  step (conc (AIn d su ts) lg) e = conc (AIn d su ts) lg.
Proof.
  intros Hk He. unfold CompoundAbs.conc, CompoundAbs.mk.
  destruct (Nat.ltb_spec k n) as [Hkn|Hkn].
  - destruct (other_su d (cur_pool su ts) k Hk Hkn) as [[Hs Ht]|[Hs Ht]];
    destruct e as [|k'|k'|k' i|k' i]; try contradiction; subst k'; cbn [step];
    rewrite ?su_of_mk, ?task_of_mk; destruct (Nat.ltb_spec k n); try lia; rewrite ?Hs; cbn [Nat.eqb Nat.leb]; try reflexivity.
    + destruct (nth_error _ i) as [t|] eqn:E; [|reflexivity]. rewrite (Ht _ _ E). reflexivity.
    + destruct (nth_error _ i) as [t|] eqn:E; [|reflexivity]. rewrite (Ht _ _ E). reflexivity.
    + destruct (nth_error _ i) as [t|] eqn:E; [|reflexivity]. rewrite (Ht _ _ E). reflexivity.
    + destruct (nth_error _ i) as [t|] eqn:E; [|reflexivity]. rewrite (Ht _ _ E). reflexivity.
  - destruct e as [|k'|k'|k' i|k' i]; try contradiction; subst k'; cbn [step];
    rewrite ?su_of_mk, ?task_of_mk; destruct (Nat.ltb_spec k n); try lia; reflexivity.
Qed.

Ltac fields := unfold set_pools, set_added, set_cpa, set_cst, set_cdone, set_ccb, add_active, emit,
                    pset_tasks, pset_nt, pset_pa, pset_st, pset_su, pset_enq, pset_cb;
               cbn [pools c_added c_pa c_st c_done c_cb active log p_tasks p_nt p_pa p_st p_su p_enq p_cb].

Lemma ltb_t a b : a < b -> (a <? b) = true. Proof. intros; apply Nat.ltb_lt; assumption. Qed.
Lemma ltb_f a b : b <= a -> (a <? b) = false. Proof. intros; apply Nat.ltb_ge; assumption. Qed.

Lemma compound_check_mk P ad cpa cst cd ccb act lg :
  compound_check (mkState P ad cpa cst cd ccb act lg) =
  if is_busy cst && (cpa =? 0)%Z
  then mkState P ad cpa MTerminated cd (S ccb) (act + -1)%Z (LCompound :: lg)
  else mkState P ad cpa cst cd ccb act lg.
Proof. unfold compound_check, compound_detected. fields. destruct (is_busy cst && (cpa =? 0)%Z); reflexivity. Qed.

Lemma compound_dec_mk P cpa cst cd ccb act lg :
  compound_dec (mkState P true cpa cst cd ccb act lg) =
  if is_busy cst && (cpa - 1 =? 0)%Z
  then mkState P true (cpa - 1)%Z MTerminated cd (S ccb) (act + -1)%Z (LCompound :: lg)
  else mkState P true (cpa - 1)%Z cst cd ccb act lg.
Proof. unfold compound_dec. fields. apply compound_check_mk. Qed.

Lemma pool_cb_mk d c c' cpa cst ccb act lg : d < n ->
  pool_cb d (mk d c c' cpa cst d ccb act lg) =
  let s2 := compound_dec (mk d (pset_cb c (S (p_cb c))) c' cpa cst (S d) ccb act (LPoolCb d :: lg)) in
  if (0 <? c_pa s2)%Z then add_pool (S d) s2 else s2.
Proof.
  intros Hd. unfold pool_cb. fields. rewrite on_pool_mk_d by assumption. reflexivity.
Qed.

Lemma add_pool_mk_Sd d c c' cpa cst cd ccb act lg : S d < n ->
  add_pool (S d) (mk d c c' cpa cst cd ccb act lg) =
  mk d c (pset_su (pset_enq c' (S (p_enq c'))) 1) cpa cst cd ccb (act + 1)%Z (LEnq (S d) :: lg).
Proof.
  intros Hd. unfold add_pool. rewrite mk_nth, (ltb_t _ _ Hd). fields. rewrite on_pool_mk_Sd by assumption. reflexivity.
Qed.

(* termination of member d (all its tasks done, startup released) *)
Lemma detected_advance d ts lg : d < n -> length ts = sz d -> notdone ts = 0%Z ->
  pool_detected pool_cb d
    (mk d (mkPool ts 0 0 MBusy 3 1 0) (new_pool (sz (S d))) (Z.of_nat n - Z.of_nat d)%Z
        (if pre then MBusy else MTerminated) d (if pre then 0 else 1) (if pre then 2 else 1)%Z lg)
  = conc (fst (advance pre sizes d lg)) (snd (advance pre sizes d lg)).
Proof.
  intros Hd Hl Hz. unfold pool_detected. rewrite pool_cb_mk by assumption. cbv zeta.
  rewrite compound_dec_mk. unfold advance.
  destruct (Nat.ltb_spec (S d) n) as [Hlt|Hge].
  - assert (Hpa : ((Z.of_nat n - Z.of_nat d - 1 =? 0) = false)%Z) by lia. rewrite Hpa, andb_false_r.
    cbn [c_pa].
    assert (Hpos : ((0 <? Z.of_nat n - Z.of_nat d - 1) = true)%Z) by lia. rewrite Hpos.
    rewrite add_pool_mk_Sd by assumption. unfold add_active. cbn [pools c_added c_pa c_st c_done c_cb active log].
    rewrite on_pool_mk_d by assumption. unfold pset_st, pset_cb, pset_su, pset_enq. cbn [p_tasks p_nt p_pa p_st p_su p_enq p_cb new_pool].
    rewrite (notdone_zero_repeat _ Hz), Hl. change (mkPool (repeat TDone (sz d)) 0 0 MTerminated 3 1 1) with (fin_pool (sz d)).
    rewrite mk_shift by assumption. cbn [fst snd]. unfold CompoundAbs.conc, CompoundAbs.mk, cur_pool, cur_nt.
    cbn [Nat.eqb Nat.ltb Nat.leb]. change ((0 <? 0)%Z) with false. cbv iota. change (1 + 0)%Z with 1%Z.
    f_equal; destruct pre; lia.
  - assert (Hnd : S d = n) by lia.
    assert (Hpa : ((Z.of_nat n - Z.of_nat d - 1 =? 0) = true)%Z) by lia. rewrite Hpa, andb_true_r.
    assert (Hpos : ((0 <? Z.of_nat n - Z.of_nat d - 1) = false)%Z) by lia.
    destruct pre; [change (is_busy MBusy) with true | change (is_busy MTerminated) with false]; cbv iota;
      cbn [c_pa]; rewrite Hpos; unfold add_active; cbn [pools c_added c_pa c_st c_done c_cb active log];
      rewrite on_pool_mk_d by assumption; unfold pset_st, pset_cb; cbn [p_tasks p_nt p_pa p_st p_su p_enq p_cb];
      rewrite (notdone_zero_repeat _ Hz), Hl; change (mkPool (repeat TDone (sz d)) 0 0 MTerminated 3 1 1) with (fin_pool (sz d));
      rewrite mk_last by assumption; cbn [fst snd CompoundAbs.conc]; f_equal; lia.
Qed.

Lemma su_cur d su ts lg : d < n -> su_of (conc (AIn d su ts) lg) d = su.
Proof. intros Hd. unfold CompoundAbs.conc, CompoundAbs.mk. rewrite su_of_mk, (ltb_t _ _ Hd), poolF_d. reflexivity. Qed.
Lemma task_cur d su ts lg i : d < n -> task_of (conc (AIn d su ts) lg) d i = nth_error ts i.
Proof. intros Hd. unfold CompoundAbs.conc, CompoundAbs.mk. rewrite task_of_mk, (ltb_t _ _ Hd), poolF_d. reflexivity. Qed.

Lemma step_startup d lg : d < n ->
  pool_startup pool_cb d (conc (AIn d 1 (repeat TIdle (sz d))) lg) = conc (AIn d 2 (repeat TIdle (sz d))) lg.
Proof.
  intros Hd. unfold pool_startup, CompoundAbs.conc, CompoundAbs.mk. fields. rewrite nth_map_seq, (ltb_t _ _ Hd), poolF_d.
  rewrite !on_pool_mk_d by assumption. unfold pool_check. fields. rewrite nth_map_seq, (ltb_t _ _ Hd), poolF_d.
  unfold cur_pool, cur_nt. cbn [Nat.eqb Nat.ltb Nat.leb]. fields. rewrite repeat_length, notdone_repeat_idle.
  cbn [is_busy andb Z.eqb].
  destruct (Z.ltb_spec 0 (Z.of_nat (sz d))) as [H|H].
  - cbn [andb]. replace ((1 + (if (0 <? 0)%Z then 1 else 0) + 1 =? 0)%Z) with false by reflexivity.
    replace (0 + Z.of_nat (sz d))%Z with (Z.of_nat (sz d)) by lia.
    destruct (Z.ltb_spec 0 (Z.of_nat (sz d))); [|lia]. reflexivity.
  - cbn [andb]. replace ((1 + (if (0 <? 0)%Z then 1 else 0) =? 0)%Z) with false by reflexivity.
    replace (0 + Z.of_nat (sz d))%Z with (Z.of_nat (sz d)) by lia.
    destruct (Z.ltb_spec 0 (Z.of_nat (sz d))); [lia|]. reflexivity.
Qed.

Lemma notdone_nonneg ts : (0 <= notdone ts)%Z.
Proof. unfold notdone. apply cnt_nonneg. Qed.

Lemma step_startup_done d ts lg : d < n -> length ts = sz d ->
  pool_dec_pa pool_cb d (on_pool d (fun p => pset_su p 3) (conc (AIn d 2 ts) lg)) =
  if (notdone ts =? 0)%Z then conc (fst (advance pre sizes d lg)) (snd (advance pre sizes d lg))
  else conc (AIn d 3 ts) lg.
Proof.
  intros Hd Hl. unfold pool_dec_pa, CompoundAbs.conc, CompoundAbs.mk. rewrite !on_pool_mk_d by assumption.
  unfold pool_check. fields. rewrite nth_map_seq, (ltb_t _ _ Hd), poolF_d.
  unfold cur_pool, cur_nt. cbn [Nat.eqb Nat.ltb Nat.leb]. fields. cbn [is_busy andb].
  pose proof (notdone_nonneg ts) as Hnn.
  destruct (Z.eqb_spec (notdone ts) 0) as [Hz|Hz].
  - rewrite Hz. change ((0 <? 0)%Z) with false. cbv iota. change (1 + 0 - 1)%Z with 0%Z. change ((0 =? 0)%Z) with true. cbv iota.
    exact (detected_advance d ts lg Hd Hl Hz).
  - destruct (Z.ltb_spec 0 (notdone ts)); [|lia].
    replace ((1 + 1 - 1 =? 0)%Z) with false by reflexivity. reflexivity.
Qed.

Lemma step_begin d su ts lg i : d < n -> 2 <= su -> nth_error ts i = Some TIdle ->
  emit (set_task d i TRun (conc (AIn d su ts) lg)) (LBegin d i) = conc (AIn d su (upd ts i TRun)) (LBegin d i :: lg).
Proof.
  intros Hd Hsu Hi. unfold set_task, CompoundAbs.conc, CompoundAbs.mk. rewrite on_pool_mk_d by assumption. fields.
  f_equal. f_equal. unfold cur_pool, cur_nt. fields.
  destruct (Nat.eqb_spec su 1); [lia|].
  rewrite (notdone_upd _ _ _ _ Hi). cbn [is_done]. replace (notdone ts - 1 + 1)%Z with (notdone ts) by lia. reflexivity.
Qed.

Lemma step_end d su ts lg i : d < n -> length ts = sz d -> (su = 2 \/ su = 3) -> nth_error ts i = Some TRun ->
  pool_dec_nt pool_cb d (emit (set_task d i TDone (conc (AIn d su ts) lg)) (LEnd d i)) =
  if (notdone (upd ts i TDone) =? 0)%Z && (su =? 3)
  then conc (fst (advance pre sizes d (LEnd d i :: lg))) (snd (advance pre sizes d (LEnd d i :: lg)))
  else conc (AIn d su (upd ts i TDone)) (LEnd d i :: lg).
Proof.
  intros Hd Hl Hsu Hi. unfold set_task, CompoundAbs.conc, CompoundAbs.mk. rewrite on_pool_mk_d by assumption. fields.
  unfold pool_dec_nt. fields. rewrite nth_map_seq, (ltb_t _ _ Hd), poolF_d.
  rewrite on_pool_mk_d by assumption. unfold cur_pool at 1 2 3. fields.
  pose proof (notdone_pos _ _ _ Hi eq_refl) as Hpos.
  pose proof (notdone_upd _ _ _ TDone Hi) as Hup. cbn [is_done] in Hup.
  assert (Hnt : cur_nt su ts = notdone ts). { unfold cur_nt. destruct Hsu; subst su; reflexivity. }
  rewrite Hnt. destruct (Z.ltb_spec 0 (notdone ts)); [|lia]. cbn [andb].
  assert (Hlen : length (upd ts i TDone) = sz d). { rewrite (len_upd _ _ _ _ Hi). exact Hl. }
  destruct (Z.eqb_spec (notdone ts - 1) 0) as [Hz|Hz].
  - assert (Hz' : notdone (upd ts i TDone) = 0%Z) by lia. rewrite Hz'. cbn [Z.eqb andb].
    unfold pool_dec_pa. rewrite on_pool_mk_d by assumption. unfold pool_check. fields.
    rewrite nth_map_seq, (ltb_t _ _ Hd), poolF_d. fields. cbn [is_busy andb]. unfold cur_pool. fields. rewrite Hnt.
    destruct (Z.ltb_spec 0 (notdone ts)); [|lia].
    destruct Hsu; subst su; cbn [Nat.ltb Nat.leb Nat.eqb].
    + replace ((1 + 1 - 1 =? 0)%Z) with false by reflexivity. unfold cur_nt. cbn [Nat.eqb]. rewrite Hz', Hz.
      cbn [Z.ltb Z.compare]. reflexivity.
    + replace ((0 + 1 - 1 =? 0)%Z) with true by reflexivity.
      rewrite Hz. change ((0 =? 0)%Z) with true. cbv iota. change (is_busy MBusy && true) with true. cbv iota. change (0 + 1 - 1)%Z with 0%Z.
      exact (detected_advance d (upd ts i TDone) (LEnd d i :: lg) Hd Hlen Hz').
  - assert (Hz' : notdone (upd ts i TDone) <> 0%Z) by lia.
    destruct (Z.eqb_spec (notdone (upd ts i TDone)) 0); [contradiction|]. cbn [andb].
    unfold cur_pool, cur_nt. fields.
    destruct Hsu; subst su; cbn [Nat.ltb Nat.leb Nat.eqb]; rewrite Hup;
      replace (notdone ts - 1 + 0)%Z with (notdone ts - 1)%Z by lia;
      destruct (Z.eqb_spec (notdone ts - 1) 0); try lia;
      destruct (Z.ltb_spec 0 (notdone ts)); try lia; destruct (Z.ltb_spec 0 (notdone ts - 1)); try lia; reflexivity.
Qed.

Lemma su_init lg k : su_of (conc ANot lg) k = 0.
Proof.
  unfold su_of, CompoundAbs.conc. cbn [pools]. rewrite nth_error_map. destruct (nth_error sizes k); reflexivity.
Qed.
Lemma task_init lg k i t : task_of (conc ANot lg) k i = Some t -> t = TIdle.
Proof.
  unfold task_of, CompoundAbs.conc. cbn [pools]. rewrite nth_error_map. destruct (nth_error sizes k); cbn; [|discriminate].
  intros H. eapply nth_repeat_inv; eauto.
Qed.

Lemma su_end lg k : su_of (conc AEnd lg) k = 3 \/ su_of (conc AEnd lg) k = 0.
Proof.
  unfold su_of, CompoundAbs.conc. cbn [pools]. rewrite nth_map_seq. destruct (k <? n); cbn; auto.
Qed.
Lemma task_end lg k i t : task_of (conc AEnd lg) k i = Some t -> t = TDone.
Proof.
  unfold task_of, CompoundAbs.conc. cbn [pools]. rewrite nth_map_seq. destruct (k <? n); cbn; [|discriminate].
  intros H. eapply nth_repeat_inv; eauto.
Qed.

Lemma step_add lg :
  step (conc ANot lg) EAdd = conc (AIn 0 1 (repeat TIdle (sz 0))) (LEnq 0 :: (if pre then lg else LCompound :: lg)).
Proof.
  unfold CompoundAbs.conc, CompoundAbs.mk. cbn [step c_added]. rewrite init_pools. unfold compound_add. cbv zeta.
  assert (Hz : (Z.of_nat n =? 0)%Z = false) by lia.
  set (s1 := compound_check (set_cst _ _)).
  assert (E1 : s1 = mk 0 (new_pool (sz 0)) (new_pool (sz 1)) (if pre then 1 else 0)%Z
                       (if pre then MBusy else MTerminated) 0 (if pre then 0 else 1) (if pre then 0 else -1)%Z
                       (if pre then lg else LCompound :: lg)).
  { subst s1. fields. rewrite compound_check_mk. destruct pre; reflexivity. }
  rewrite E1. clear s1 E1. fields. rewrite compound_check_mk, map_length, seq_length, Hz, andb_false_r.
  unfold add_pool. fields. rewrite nth_map_seq, (ltb_t _ _ Hn). fields. rewrite on_pool_mk_d by assumption.
  unfold cur_pool, cur_nt, new_pool. fields. cbn [Nat.eqb Nat.ltb Nat.leb]. change ((0 <? 0)%Z) with false. cbv iota.
  f_equal; destruct pre; lia.
Qed.

Theorem step_conc a lg e : wf_a a ->
  step (conc a lg) e = conc (fst (astep (a, lg) e)) (snd (astep (a, lg) e)).
Proof.
  intros Hwf. destruct a as [|d su ts|].
  - (* not added yet *)
    destruct e as [|k|k|k i|k i]; cbn [CompoundAbs.astep fst snd].
    + apply step_add.
    + cbn [step]. rewrite su_init. reflexivity.
    + cbn [step]. rewrite su_init. reflexivity.
    + cbn [step]. rewrite su_init. destruct (task_of (conc ANot lg) k i) as [[| |]|]; reflexivity.
    + cbn [step]. destruct (task_of (conc ANot lg) k i) as [t|] eqn:E; [|reflexivity].
      rewrite (task_init _ _ _ _ E). reflexivity.
  - (* member d is current *)
    destruct Hwf as (Hd & Hl & Hsu).
    destruct e as [|k|k|k i|k i]; cbn [CompoundAbs.astep].
    + reflexivity.
    + destruct (Nat.eqb_spec k d) as [->|Hk]; [|cbn [andb fst snd]; apply (noop_other d su ts lg (EStartup k) k Hk eq_refl)].
      cbn [andb step]. rewrite su_cur by assumption.
      destruct (Nat.eqb_spec su 1) as [->|Hs]; [|reflexivity].
      destruct Hsu as [[_ ->]|[H|[H _]]]; try discriminate. cbn [fst snd]. apply step_startup. assumption.
    + destruct (Nat.eqb_spec k d) as [->|Hk]; [|cbn [andb fst snd]; apply (noop_other d su ts lg (EStartupDone k) k Hk eq_refl)].
      cbn [andb step]. rewrite su_cur by assumption.
      destruct (Nat.eqb_spec su 2) as [->|Hs]; [|reflexivity].
      rewrite step_startup_done by assumption. destruct (notdone ts =? 0)%Z; reflexivity.
    + destruct (Nat.eqb_spec k d) as [->|Hk]; [|cbn [andb fst snd]; apply (noop_other d su ts lg (EBegin k i) k Hk eq_refl)].
      cbn [andb step]. rewrite su_cur, task_cur by assumption.
      destruct (nth_error ts i) as [[| |]|] eqn:E; destruct (Nat.leb_spec 2 su); try reflexivity.
      cbn [fst snd]. apply step_begin; assumption.
    + destruct (Nat.eqb_spec k d) as [->|Hk]; [|cbn [fst snd]; apply (noop_other d su ts lg (EEnd k i) k Hk eq_refl)].
      cbn [step]. rewrite task_cur by assumption.
      destruct (nth_error ts i) as [[| |]|] eqn:E; try reflexivity.
      assert (Hsu' : su = 2 \/ su = 3).
      { destruct Hsu as [[_ Hts]|[H|[H _]]]; auto. rewrite Hts in E. apply nth_repeat_inv in E. discriminate. }
      rewrite step_end by assumption.
      destruct ((notdone (upd ts i TDone) =? 0)%Z && (su =? 3)); reflexivity.
  - (* everything finished *)
    destruct e as [|k|k|k i|k i]; cbn [CompoundAbs.astep fst snd].
    + reflexivity.
    + cbn [step]. destruct (su_end lg k) as [H|H]; rewrite H; reflexivity.
    + cbn [step]. destruct (su_end lg k) as [H|H]; rewrite H; reflexivity.
    + cbn [step]. destruct (task_of (conc AEnd lg) k i) as [t|] eqn:E; [|reflexivity].
      rewrite (task_end _ _ _ _ E). reflexivity.
    + cbn [step]. destruct (task_of (conc AEnd lg) k i) as [t|] eqn:E; [|reflexivity].
      rewrite (task_end _ _ _ _ E). reflexivity.
Qed.
End Ref.
