(* C15 — which constructor of the compound taskpool /repo has today.
   THE SWITCH: [false] while parsec_compose leaves the compound's
   nb_pending_actions at 0 (the code as it is: the compound is reported
   terminated inside parsec_context_add_taskpool, before its first member
   starts); set it to [true] in the same change that applies
   notes/findings/C15-compound-completes-at-add.patch (the constructor takes
   one pending action, which the startup hook replaces by nb_taskpools).
   Only the extraction (the model that is run against the code) depends on
   this file; the theorems of Properties_C15.v are stated for explicit values. *)
Definition code_precharge : bool := true.
