(* C15 — the model extended with bare members (CompoundDefs.stepB / runB) is the model the
   theorems are about whenever no member is bare. *)
From PV Require Import Base.Tac Base.ListX Compound.CompoundDefs.
Local Open Scope nat_scope.

Section NoBare.
Variable bare : list bool.
Hypothesis Hnb : forall k, is_bare bare k = false.

Lemma add_member_nobare fuel k s : add_member bare fuel k s = add_pool k s.
Proof.
  destruct fuel; cbn [add_member]; unfold add_pool; destruct (nth_error (pools s) k) eqn:E; rewrite ?Hnb, ?E; reflexivity.
Qed.

Lemma add_any_nobare k s : add_any bare k s = add_pool k s.
Proof. apply add_member_nobare. Qed.

Lemma pool_cb_nobare k s : pool_cb_with (add_any bare) k s = pool_cb k s.
Proof. unfold pool_cb_with, pool_cb. cbv zeta. rewrite add_any_nobare. reflexivity. Qed.
End NoBare.

Section Ext.
Variables cb cb' : nat -> state -> state.
Hypothesis Hcb : forall k s, cb k s = cb' k s.

Lemma pool_detected_ext k s : pool_detected cb k s = pool_detected cb' k s.
Proof. unfold pool_detected. rewrite Hcb. reflexivity. Qed.
Lemma pool_check_ext k s : pool_check cb k s = pool_check cb' k s.
Proof. unfold pool_check. destruct (nth_error (pools s) k); [|reflexivity]. rewrite pool_detected_ext. reflexivity. Qed.
Lemma pool_dec_pa_ext k s : pool_dec_pa cb k s = pool_dec_pa cb' k s.
Proof. unfold pool_dec_pa. apply pool_check_ext. Qed.
Lemma pool_dec_nt_ext k s : pool_dec_nt cb k s = pool_dec_nt cb' k s.
Proof. unfold pool_dec_nt. destruct (nth_error (pools s) k); [|reflexivity]. cbv zeta. rewrite pool_dec_pa_ext. reflexivity. Qed.
Lemma pool_startup_ext k s : pool_startup cb k s = pool_startup cb' k s.
Proof. unfold pool_startup. destruct (nth_error (pools s) k); [|reflexivity]. cbv zeta. apply pool_check_ext. Qed.
End Ext.

Lemma stepB_nobare bare s e : (forall k, is_bare bare k = false) -> stepB bare s e = step s e.
Proof.
  intros H. pose proof (pool_cb_nobare bare H) as Hcb.
  destruct e as [|k|k|k i|k i]; cbn [stepB step].
  - destruct (c_added s); [reflexivity|]. unfold compound_add_with, compound_add. cbv zeta. apply add_any_nobare. assumption.
  - destruct (Nat.eqb (su_of s k) 1); [|reflexivity]. apply pool_startup_ext. assumption.
  - destruct (Nat.eqb (su_of s k) 2); [|reflexivity]. apply pool_dec_pa_ext. assumption.
  - reflexivity.
  - destruct (task_of s k i) as [[| |]|]; try reflexivity. apply pool_dec_nt_ext. assumption.
Qed.

Lemma bare_of_some sizes k : is_bare (bare_of (map Some sizes)) k = false.
Proof.
  unfold is_bare, bare_of. rewrite map_map. revert k. induction sizes as [|x l IH]; intros [|k]; cbn; auto.
Qed.

Theorem runB_no_bare pre sizes evs : runB pre (map Some sizes) evs = run pre sizes evs.
Proof.
  unfold runB, run.
  assert (Hi : initB pre (map Some sizes) = init pre sizes).
  { unfold initB, init. rewrite map_map. reflexivity. }
  rewrite Hi. generalize (init pre sizes). induction evs as [|e evs IH]; intros s; [reflexivity|].
  cbn [fold_left]. rewrite stepB_nobare by apply bare_of_some. apply IH.
Qed.
