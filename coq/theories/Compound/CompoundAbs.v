(* C15 — list infrastructure and the abstract machine the model of compound.c is shown to follow.

   [astate] describes a reachable state of CompoundDefs.step by three numbers: which
   member is current (all members before it are finished, all after it untouched), how
   far its startup task got, and the status of its tasks.  [conc] rebuilds the full
   model state from it; CompoundRefine.step_conc proves  step (conc a) e = conc (astep a e). *)
From PV Require Import Base.Tac Base.ListX Compound.CompoundDefs.
Local Open Scope nat_scope.

(* ---- list infrastructure ---- *)
Lemma nth_error_ext {A} (l l' : list A) : (forall i, nth_error l i = nth_error l' i) -> l = l'.
Proof.
  revert l'; induction l as [|x l IH]; intros [|y l'] H; auto.
  - specialize (H 0); discriminate.
  - specialize (H 0); discriminate.
  - f_equal. + specialize (H 0); simpl in H; congruence.
    + apply IH. intros i. apply (H (S i)).
Qed.

Lemma nth_error_seq0 n k : nth_error (seq 0 n) k = if k <? n then Some k else None.
Proof.
  destruct (Nat.ltb_spec k n) as [H|H].
  - rewrite (nth_error_nth' _ 0) by (rewrite seq_length; lia). rewrite seq_nth by lia. reflexivity.
  - apply nth_error_None. rewrite seq_length. lia.
Qed.

Lemma nth_map_seq {A} (F : nat -> A) n k : nth_error (map F (seq 0 n)) k = if k <? n then Some (F k) else None.
Proof. rewrite nth_error_map, nth_error_seq0. destruct (k <? n); reflexivity. Qed.

Lemma upd_map_seq {A} (F G : nat -> A) n d : d < n -> (forall k, k <> d -> G k = F k) ->
  upd (map F (seq 0 n)) d (G d) = map G (seq 0 n).
Proof.
  intros Hd HG. apply nth_error_ext. intros i.
  assert (Hn : nth_error (map F (seq 0 n)) d = Some (F d)).
  { rewrite nth_map_seq. destruct (Nat.ltb_spec d n); [reflexivity|lia]. }
  destruct (Nat.eq_dec i d) as [->|Hne].
  - rewrite (nth_upd_same _ _ _ _ Hn), nth_map_seq. destruct (Nat.ltb_spec d n); [reflexivity|lia].
  - rewrite (nth_upd_other _ _ _ _ _ Hn Hne), !nth_map_seq. destruct (i <? n); [|reflexivity]. now rewrite HG.
Qed.

Lemma map_as_seq {A B} (f : A -> B) (l : list A) (d : A) : map f l = map (fun k => f (nth k l d)) (seq 0 (length l)).
Proof.
  apply nth_error_ext. intros i. rewrite nth_map_seq, nth_error_map.
  destruct (Nat.ltb_spec i (length l)) as [H|H].
  - rewrite (nth_error_nth' _ d H). reflexivity.
  - apply nth_error_None in H. rewrite H. reflexivity.
Qed.

(* ---- task lists ---- *)
Definition notdone (ts : list tst) : Z := cnt (fun t => negb (is_done t)) ts.

Lemma notdone_cnt ts : notdone ts = cnt (fun t => negb (is_done t)) ts.
Proof. reflexivity. Qed.

Lemma notdone_repeat_idle n : notdone (repeat TIdle n) = Z.of_nat n.
Proof. unfold notdone. rewrite cnt_repeat. reflexivity. Qed.

Lemma notdone_upd ts i a b : nth_error ts i = Some a ->
  notdone (upd ts i b) = (notdone ts - (if is_done a then 0 else 1) + (if is_done b then 0 else 1))%Z.
Proof. intros H. unfold notdone. rewrite (cnt_upd _ _ _ _ _ H). cbv beta. destruct (is_done a), (is_done b); cbn [negb]; lia. Qed.

Lemma notdone_pos ts i a : nth_error ts i = Some a -> is_done a = false -> (0 < notdone ts)%Z.
Proof. intros H Ha. unfold notdone. apply (cnt_pos_of_nth _ _ _ _ H). now rewrite Ha. Qed.

Lemma notdone_zero_repeat ts : notdone ts = 0%Z -> ts = repeat TDone (length ts).
Proof.
  induction ts as [|t ts IH]; intros H; [reflexivity|].
  unfold notdone in *. rewrite cnt_cons in H. pose proof (cnt_nonneg (fun t => negb (is_done t)) ts).
  destruct t; cbn [is_done negb] in H; try lia.
  cbn [length repeat]. f_equal. apply IH. lia.
Qed.

Lemma notdone_exists ts : (0 < notdone ts)%Z -> exists i a, nth_error ts i = Some a /\ is_done a = false.
Proof.
  induction ts as [|t ts IH]; intros H.
  - unfold notdone in H. rewrite cnt_nil in H. lia.
  - destruct (is_done t) eqn:E.
    + unfold notdone in *. rewrite cnt_cons, E in H. cbn [negb] in H. destruct IH as (i & a & Hi & Ha). { lia. }
      exists (S i), a. auto.
    + exists 0, t. auto.
Qed.

Section Abs.
Variable pre : bool.
Variable sizes : list nat.
Notation n := (length sizes).
Definition sz (k : nat) : nat := nth k sizes 0.

Inductive astate := ANot | AIn (d su : nat) (ts : list tst) | AEnd.

Definition fin_pool (m : nat) : pool := mkPool (repeat TDone m) 0 0 MTerminated 3 1 1.
Definition cur_nt (su : nat) (ts : list tst) : Z := if su =? 1 then 0%Z else notdone ts.
Definition cur_pool (su : nat) (ts : list tst) : pool :=
  mkPool ts (cur_nt su ts)
         ((if Nat.ltb su 3 then 1 else 0) + (if 0 <? cur_nt su ts then 1 else 0))%Z
         (if su =? 1 then MNotReady else MBusy) su 1 0.

Definition poolF (d : nat) (c c' : pool) (k : nat) : pool :=
  if k <? d then fin_pool (sz k) else if k =? d then c else if k =? S d then c' else new_pool (sz k).

Definition mk (d : nat) (c c' : pool) (cpa : Z) (cst : monst) (cdone ccb : nat) (act : Z) (lg : list lentry) : state :=
  mkState (map (poolF d c c') (seq 0 n)) true cpa cst cdone ccb act lg.

Definition conc (a : astate) (lg : list lentry) : state :=
  match a with
  | ANot => mkState (map new_pool sizes) false (if pre then 1 else 0)%Z MNotReady 0 0 0%Z lg
  | AIn d su ts => mk d (cur_pool su ts) (new_pool (sz (S d))) (Z.of_nat n - Z.of_nat d)%Z
                      (if pre then MBusy else MTerminated) d (if pre then 0 else 1) (if pre then 2 else 1)%Z lg
  | AEnd => mkState (map (fun k => fin_pool (sz k)) (seq 0 n)) true 0%Z MTerminated n 1 0%Z lg
  end.

Definition advance (d : nat) (lg : list lentry) : astate * list lentry :=
  if S d <? n then (AIn (S d) 1 (repeat TIdle (sz (S d))), LEnq (S d) :: LPoolCb d :: lg)
  else (AEnd, if pre then LCompound :: LPoolCb d :: lg else LPoolCb d :: lg).

Definition astep (al : astate * list lentry) (e : event) : astate * list lentry :=
  let (a, lg) := al in
  match a with
  | ANot => match e with
            | EAdd => (AIn 0 1 (repeat TIdle (sz 0)), LEnq 0 :: (if pre then lg else LCompound :: lg))
            | _ => al
            end
  | AEnd => al
  | AIn d su ts =>
      match e with
      | EAdd => al
      | EStartup k => if (k =? d) && (su =? 1) then (AIn d 2 ts, lg) else al
      | EStartupDone k =>
          if (k =? d) && (su =? 2) then (if Z.eqb (notdone ts) 0 then advance d lg else (AIn d 3 ts, lg)) else al
      | EBegin k i =>
          if (k =? d) && (2 <=? su) then
            match nth_error ts i with
            | Some TIdle => (AIn d su (upd ts i TRun), LBegin d i :: lg)
            | _ => al
            end
          else al
      | EEnd k i =>
          if k =? d then
            match nth_error ts i with
            | Some TRun =>
                let ts' := upd ts i TDone in
                if Z.eqb (notdone ts') 0 && (su =? 3) then advance d (LEnd d i :: lg)
                else (AIn d su ts', LEnd d i :: lg)
            | _ => al
            end
          else al
      end
  end.

Definition wf_a (a : astate) : Prop :=
  match a with
  | ANot | AEnd => True
  | AIn d su ts => d < n /\ length ts = sz d /\
                   ((su = 1 /\ ts = repeat TIdle (sz d)) \/ su = 2 \/ (su = 3 /\ (0 < notdone ts)%Z))
  end.

Definition arun (evs : list event) : astate * list lentry := fold_left astep evs (ANot, []).

End Abs.
