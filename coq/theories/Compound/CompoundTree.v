(* C15 — nested compositions: an element of a compound may itself be a compound
   (parsec_compose(X, parsec_compose(Y, Z)) builds [X, [Y, Z]]; parsec_compose(C1, C2) with both
   compounds appends C2 as ONE element of C1).  Executable model, NO proofs here.

   A composition is a tree; its leaves, in order, are the member taskpools (PTG of a given size, or
   bare).  Every compound node has its own termination detector and counters, exactly as the single
   compound of CompoundDefs: nb_pending_actions (1 from the repaired constructor, or 0),
   completed_taskpools, the monitor.  parsec_context_add_taskpool(compound c) declares its detector
   ready, increments active_taskpools and runs its startup hook: set_runtime_actions(number of
   elements), installs parsec_composed_taskpool_cb(cbdata = c) as the on_complete of EVERY element —
   leaf or compound — and adds its first element.  When an element of c completes,
   parsec_composed_taskpool_cb runs with cbdata = c: completed_taskpools++, one pending action less;
   if some are left the next element is added, otherwise c's detector reports c terminated:
   parsec_taskpool_termination_detected(c) runs c's on_complete — the user's callback for the root
   (LCompound), parsec_composed_taskpool_cb(cbdata = parent) for a nested compound — then
   active_taskpools--.

   The leaves are the pools of a CompoundDefs.state (the member machinery — startup task, tasks,
   detector — is reused as it is); the completion callback of a leaf only records that it ran
   ([mark]: p_cb, LPoolCb), the chain through the compounds is run right after the member event
   ([elem_done]): inside one atomic event the order of the log entries is the real one (LPoolCb k,
   then whatever the chain enqueues or reports) and the updates of active_taskpools commute.

   The recursion (up through the ancestors that finish with this element, down into the first
   elements of a nested compound, and through runs of bare leaves) is structural on [fuel]. *)
From Coq Require Import ZArith List Bool Arith.
From PV Require Import Base.ListX Compound.CompoundDefs.
Import ListNotations.
Local Open Scope Z_scope.

Inductive elem := ELeaf (k : nat) | EComp (c : nat).

Record cnode := mkC {
  n_elems : list elem;
  n_parent : option nat;       (* None: the root, whose on_complete is the user's *)
  n_pa : Z; n_st : monst; n_done : nat; n_cb : nat
}.

Record tstate := mkT { t_s : state; t_nodes : list cnode }.

Definition nset (c : nat) (f : cnode -> cnode) (ts : tstate) : tstate :=
  match nth_error (t_nodes ts) c with
  | Some x => mkT (t_s ts) (upd (t_nodes ts) c (f x))
  | None => ts
  end.
Definition on_s (f : state -> state) (ts : tstate) : tstate := mkT (f (t_s ts)) (t_nodes ts).

Definition set_npa x v := mkC (n_elems x) (n_parent x) v (n_st x) (n_done x) (n_cb x).
Definition set_nst x v := mkC (n_elems x) (n_parent x) (n_pa x) v (n_done x) (n_cb x).
Definition set_ndone x v := mkC (n_elems x) (n_parent x) (n_pa x) (n_st x) v (n_cb x).
Definition set_ncb x v := mkC (n_elems x) (n_parent x) (n_pa x) (n_st x) (n_done x) v.

(* the completion callback of a leaf, as far as the leaf is concerned *)
Definition mark (k : nat) (s : state) : state := emit (on_pool k (fun p => pset_cb p (S (p_cb p))) s) (LPoolCb k).

(* the compound whose element a leaf is *)
Definition owner (owners : list nat) (k : nat) : nat := nth k owners 0%nat.

Fixpoint add_elem (bare : list bool) (owners : list nat) (fuel : nat) (e : elem) (ts : tstate) : tstate :=
  match fuel with
  | O => ts
  | S f =>
      match e with
      | ELeaf k =>
          match nth_error (pools (t_s ts)) k with
          | None => ts
          | Some _ =>
              if is_bare bare k then
                (* terminates inside parsec_context_add_taskpool: callback chain first, then
                   active--, TERMINATED, active++, on_enqueue *)
                let ts1 := elem_done bare owners f (owner owners k) (on_s (mark k) ts) in
                on_s (fun s => on_pool k (fun p => pset_enq p (S (p_enq p)))
                                 (emit (add_active (on_pool k (fun p => pset_st p MTerminated) (add_active s (-1))) 1) (LEnq k))) ts1
              else on_s (add_pool k) ts
          end
      | EComp c =>
          match nth_error (t_nodes ts) c with
          | None => ts
          | Some x =>
              (* ready: NOT_READY -> BUSY, "nb_pending_actions == 0" -> reported at once *)
              let ts1 := nset c (fun x => set_nst x MBusy) ts in
              let ts2 := if n_pa x =? 0 then node_detected bare owners f c ts1 else ts1 in
              let ts3 := on_s (fun s => add_active s 1) ts2 in
              (* startup hook *)
              let ts4 := nset c (fun x => set_npa x (Z.of_nat (length (n_elems x)))) ts3 in
              match n_elems x with
              | e0 :: _ => add_elem bare owners f e0 ts4
              | [] => ts4
              end
          end
      end
  end
(* parsec_composed_taskpool_cb(_, cbdata = compound c) *)
with elem_done (bare : list bool) (owners : list nat) (fuel : nat) (c : nat) (ts : tstate) : tstate :=
  match fuel with
  | O => ts
  | S f =>
      match nth_error (t_nodes ts) c with
      | None => ts
      | Some x =>
          let d := n_done x in
          let ts1 := nset c (fun x => set_npa (set_ndone x (S d)) (n_pa x - 1)) ts in
          if is_busy (n_st x) && (n_pa x - 1 =? 0) then node_detected bare owners f c ts1
          else if 0 <? n_pa x - 1 then
            match nth_error (n_elems x) (S d) with
            | Some e => add_elem bare owners f e ts1
            | None => ts1
            end
          else ts1
      end
  end
(* parsec_taskpool_termination_detected(compound c) *)
with node_detected (bare : list bool) (owners : list nat) (fuel : nat) (c : nat) (ts : tstate) : tstate :=
  match fuel with
  | O => ts
  | S f =>
      match nth_error (t_nodes ts) c with
      | None => ts
      | Some x =>
          let ts1 := nset c (fun x => set_ncb x (S (n_cb x))) ts in
          let ts2 := match n_parent x with
                     | None => on_s (fun s => emit (set_ccb s (S (c_cb s))) LCompound) ts1
                     | Some p => elem_done bare owners f p ts1
                     end in
          nset c (fun x => set_nst x MTerminated) (on_s (fun s => add_active s (-1)) ts2)
      end
  end.

(* the number of nodes and leaves bounds every chain *)
Definition tfuel (ts : tstate) : nat := (3 * (length (t_nodes ts) + length (pools (t_s ts))) + 3)%nat.

Definition stepT (bare : list bool) (owners : list nat) (ts : tstate) (e : event) : tstate :=
  let s := t_s ts in
  match e with
  | EAdd => if c_added s then ts else add_elem bare owners (tfuel ts) (EComp 0) (on_s set_added ts)
  | EBegin k i => on_s (fun s => step s (EBegin k i)) ts
  | EStartup k | EStartupDone k | EEnd k _ =>
      let s' := match e with
                | EStartup k => if Nat.eqb (su_of s k) 1 then pool_startup mark k s else s
                | EStartupDone k => if Nat.eqb (su_of s k) 2 then pool_dec_pa mark k (on_pool k (fun p => pset_su p 3) s) else s
                | EEnd k i => match task_of s k i with
                              | Some TRun => pool_dec_nt mark k (emit (set_task k i TDone s) (LEnd k i))
                              | _ => s
                              end
                | _ => s
                end in
      let fired := match nth_error (pools s) k, nth_error (pools s') k with
                   | Some p, Some p' => Nat.ltb (p_cb p) (p_cb p')
                   | _, _ => false
                   end in
      let ts' := mkT s' (t_nodes ts) in
      if fired then elem_done bare owners (tfuel ts) (owner owners k) ts' else ts'
  end.

(* ---- composition trees ---------------------------------------------------------------------- *)
Inductive ctree := CLeaf (m : option nat) | CNode (l : list ctree).

Fixpoint flatten (t : ctree) : list (option nat) :=
  match t with
  | CLeaf m => [m]
  | CNode l => (fix go (l : list ctree) := match l with [] => [] | x :: r => flatten x ++ go r end) l
  end.

(* layout of a tree: nodes in preorder (the root is 0), leaves in order; returns
   (element standing for the tree, nodes, owners of the leaves, next free node id, next leaf id) *)
Fixpoint layout (pre : bool) (t : ctree) (parent : option nat) (cid : nat) (lid : nat)
  : elem * list (nat * cnode) * list nat * nat * nat :=
  match t with
  | CLeaf _ => (ELeaf lid, [], [match parent with Some p => p | None => 0%nat end], cid, S lid)
  | CNode l =>
      let me := cid in
      let '(els, nodes, owns, cid', lid') :=
        (fix go (l : list ctree) (cid lid : nat) : list elem * list (nat * cnode) * list nat * nat * nat :=
           match l with
           | [] => ([], [], [], cid, lid)
           | x :: r =>
               let '(e, ns, os, c1, l1) := layout pre x (Some me) cid lid in
               let '(es, ns', os', c2, l2) := go r c1 l1 in
               (e :: es, ns ++ ns', os ++ os', c2, l2)
           end) l (S cid) lid in
      (EComp me, (me, mkC els parent (if pre then 1 else 0) MNotReady 0 0) :: nodes, owns, cid', lid')
  end.

Definition sort_nodes (n : nat) (l : list (nat * cnode)) : list cnode :=
  map (fun i => match find (fun x => Nat.eqb (fst x) i) l with
                | Some x => snd x
                | None => mkC [] None 0 MNotReady 0 0
                end) (seq 0 n).

(* a composition given as a tree whose root is a compound *)
Definition initT (pre : bool) (t : ctree) : tstate * list bool * list nat :=
  let '(_, nodes, owns, ncomp, _) := layout pre t None 0 0 in
  let ms := flatten t in
  (mkT (initB pre ms) (sort_nodes ncomp nodes), bare_of ms, owns).

Definition runT (pre : bool) (t : ctree) (evs : list event) : tstate :=
  let '(ts, bare, owns) := initT pre t in fold_left (stepT bare owns) evs ts.

(* what is compared with the list semantics of the flattened composition: the whole history and
   the member taskpools (active_taskpools differs while nested compounds are open) *)
Fixpoint log_eqb (a b : list lentry) : bool :=
  match a, b with
  | [], [] => true
  | x :: a', y :: b' => lentry_eqb x y && log_eqb a' b'
  | _, _ => false
  end.
Definition nats_eqb (a b : list nat) : bool :=
  Nat.eqb (length a) (length b) && forallb (fun xy => Nat.eqb (fst xy) (snd xy)) (combine a b).
Definition same_as_flat (pre : bool) (t : ctree) (evs : list event) : bool :=
  let a := t_s (runT pre t evs) in
  let b := runB pre (flatten t) evs in
  log_eqb (log a) (log b) && nats_eqb (ran a) (ran b) && nats_eqb (enqs a) (enqs b) && Nat.eqb (c_cb a) (c_cb b).

(* ---- exhaustive comparison on small compositions (used by Examples; a test, not a proof) -------
   explores EVERY interleaving: from a pair (tree state, state of the flattened list) tries every event,
   follows it when it is effective on either side, and requires identical histories, member records and
   compound completion counts in every reachable pair *)
Definition sig_of (s : state) : list nat := length (log s) :: (if c_added s then 1%nat else 0%nat) :: map p_su (pools s).
Definition pair_ok (a b : state) : bool :=
  log_eqb (log a) (log b) && nats_eqb (ran a) (ran b) && nats_eqb (begun a) (begun b) && nats_eqb (enqs a) (enqs b) && Nat.eqb (c_cb a) (c_cb b).
Fixpoint explore (fuel : nat) (bare : list bool) (owners : list nat) (evs : list event) (ts : tstate) (fl : state) : bool :=
  match fuel with
  | O => true
  | S f =>
      pair_ok (t_s ts) fl &&
      forallb (fun e =>
                 let ts' := stepT bare owners ts e in
                 let fl' := stepB bare fl e in
                 if nats_eqb (sig_of (t_s ts')) (sig_of (t_s ts)) && nats_eqb (sig_of fl') (sig_of fl) then true
                 else explore f bare owners evs ts' fl') evs
  end.
Definition nested_equals_flat_everywhere (t : ctree) : bool :=
  let '(ts, bare, owns) := initT true t in
  let ms := flatten t in
  let sizes := map (fun m => match m with Some n => n | None => 0%nat end) ms in
  explore (4 * (length ms + 1) + 2 * fold_right Nat.add 0%nat sizes + 4) bare owns (all_events sizes) ts (initB true ms).
