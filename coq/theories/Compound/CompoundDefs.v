(* C15 — executable model of parsec/compound.c on top of the pieces of
   parsec/scheduling.c and parsec/mca/termdet/local it drives.  NO proofs here.

   A compound taskpool holds an array of n taskpools.  Handing the compound to
   parsec_context_add_taskpool
     - installs the local termination detector on the compound (its tdm.module is
       NULL: scheduling.c opens "local", monitor_taskpool, taskpool_ready),
     - increments context->active_taskpools,
     - runs the compound's startup hook (parsec_compound_taskpool_startup):
       set_runtime_actions(compound, n), install parsec_composed_taskpool_cb as
       the on_complete of every member, parsec_context_add_taskpool(member 0).
   When member k terminates its on_complete (parsec_composed_taskpool_cb) runs:
     d = completed_taskpools++ ; remaining = addto_runtime_actions(compound,-1);
     if remaining > 0 then parsec_context_add_taskpool(member d+1).

   Member taskpools are PTG pools as jdf2c generates them, abstracted to what
   termination detection sees: one startup task (a pending action taken in the
   constructor), `size` independent tasks that become available when the startup
   task ran, nb_tasks / nb_pending_actions / tdm.monitor handled as in
   termdet_local_module.c.  Every detector operation is ONE atomic step here
   (C10 proves that the fine-grained interleavings of the detector are
   equivalent to that for clients that hold a reference while they add work,
   which is the case of every call below; the compound's own calls are made by
   a single thread at a time).

   [pre] selects the initial value of the compound's nb_pending_actions:
   false = the code as it is (0: parsec_taskpool_t's constructor), true = the
   repaired constructor of notes/findings/C15-compound-completes-at-add.patch (1).

   Events a schedule is made of (an event that is not enabled is a no-op):
     EAdd            parsec_context_add_taskpool(ctx, compound)
     EStartup k      the startup task of member k runs (internal_init: addto_nb_tasks,
                     taskpool_ready; the hook makes the tasks available)
     EStartupDone k  the startup task is released (addto_runtime_actions -1)
     EBegin k i      task i of member k starts its body
     EEnd k i        task i of member k ends its body and is released
                     (addto_nb_tasks -1, possibly termination and the callbacks) *)
From Coq Require Import ZArith List Bool Arith.
From PV Require Import Base.ListX.
Import ListNotations.
Local Open Scope Z_scope.

Inductive monst := MNotReady | MBusy | MTerminated.
Inductive tst := TIdle | TRun | TDone.

Definition is_busy m := match m with MBusy => true | _ => false end.
Definition is_idle t := match t with TIdle => true | _ => false end.
Definition is_run t := match t with TRun => true | _ => false end.
Definition is_done t := match t with TDone => true | _ => false end.

Record pool := mkPool {
  p_tasks : list tst;        (* status of every task of the pool *)
  p_nt : Z;                  (* tp->nb_tasks *)
  p_pa : Z;                  (* tp->nb_pending_actions *)
  p_st : monst;              (* tp->tdm.monitor *)
  p_su : nat;                (* startup task: 0 not scheduled, 1 scheduled, 2 ran (tasks available), 3 released *)
  p_enq : nat;               (* times the pool was given to parsec_context_add_taskpool (on_enqueue calls) *)
  p_cb : nat                 (* times its on_complete ran *)
}.

Inductive lentry :=
| LEnq (k : nat)             (* member k enqueued in the context *)
| LBegin (k i : nat)
| LEnd (k i : nat)
| LPoolCb (k : nat)          (* on_complete of member k *)
| LCompound.                 (* the compound is reported terminated: its on_complete runs,
                                parsec_taskpool_wait(compound) may return from now on *)

Record state := mkState {
  pools : list pool;
  c_added : bool;            (* the compound was given to the context *)
  c_pa : Z;                  (* compound->super.nb_pending_actions *)
  c_st : monst;              (* compound->super.tdm.monitor (MNotReady also stands for "no module yet") *)
  c_done : nat;              (* compound->completed_taskpools *)
  c_cb : nat;                (* times the compound was reported terminated *)
  active : Z;                (* context->active_taskpools *)
  log : list lentry          (* most recent first *)
}.

Definition set_pools s v := mkState v (c_added s) (c_pa s) (c_st s) (c_done s) (c_cb s) (active s) (log s).
Definition set_added s := mkState (pools s) true (c_pa s) (c_st s) (c_done s) (c_cb s) (active s) (log s).
Definition set_cpa s v := mkState (pools s) (c_added s) v (c_st s) (c_done s) (c_cb s) (active s) (log s).
Definition set_cst s v := mkState (pools s) (c_added s) (c_pa s) v (c_done s) (c_cb s) (active s) (log s).
Definition set_cdone s v := mkState (pools s) (c_added s) (c_pa s) (c_st s) v (c_cb s) (active s) (log s).
Definition set_ccb s v := mkState (pools s) (c_added s) (c_pa s) (c_st s) (c_done s) v (active s) (log s).
Definition add_active s d := mkState (pools s) (c_added s) (c_pa s) (c_st s) (c_done s) (c_cb s) (active s + d) (log s).
Definition emit s e := mkState (pools s) (c_added s) (c_pa s) (c_st s) (c_done s) (c_cb s) (active s) (e :: log s).

Definition pset_tasks p v := mkPool v (p_nt p) (p_pa p) (p_st p) (p_su p) (p_enq p) (p_cb p).
Definition pset_nt p v := mkPool (p_tasks p) v (p_pa p) (p_st p) (p_su p) (p_enq p) (p_cb p).
Definition pset_pa p v := mkPool (p_tasks p) (p_nt p) v (p_st p) (p_su p) (p_enq p) (p_cb p).
Definition pset_st p v := mkPool (p_tasks p) (p_nt p) (p_pa p) v (p_su p) (p_enq p) (p_cb p).
Definition pset_su p v := mkPool (p_tasks p) (p_nt p) (p_pa p) (p_st p) v (p_enq p) (p_cb p).
Definition pset_enq p v := mkPool (p_tasks p) (p_nt p) (p_pa p) (p_st p) (p_su p) v (p_cb p).
Definition pset_cb p v := mkPool (p_tasks p) (p_nt p) (p_pa p) (p_st p) (p_su p) (p_enq p) v.

(* apply f to member k (nothing when k is out of range) *)
Definition on_pool (k : nat) (f : pool -> pool) (s : state) : state :=
  match nth_error (pools s) k with
  | Some p => set_pools s (upd (pools s) k (f p))
  | None => s
  end.

(* ---- the compound's detector ------------------------------------------------------ *)

(* parsec_termdet_local_termination_detected(compound): callback
   parsec_taskpool_termination_detected = on_complete, active_taskpools--; then TERMINATED *)
Definition compound_detected (s : state) : state :=
  set_cst (add_active (emit (set_ccb s (S (c_cb s))) LCompound) (-1)) MTerminated.

(* "if( tp->tdm.monitor == BUSY && nbpa == 0 ) CAS BUSY -> TERMINATING, termination_detected" *)
Definition compound_check (s : state) : state :=
  if is_busy (c_st s) && (c_pa s =? 0) then compound_detected s else s.

(* taskpool_addto_runtime_actions(compound, -1) *)
Definition compound_dec (s : state) : state := compound_check (set_cpa s (c_pa s - 1)).

(* ---- parsec_context_add_taskpool(ctx, taskpool_array[k]) ---------------------------- *)
(* a member has its own detector (generated constructor): no taskpool_ready here;
   active_taskpools++, on_enqueue, startup hook = the startup task is scheduled.
   An index past the array reads the terminating NULL: the real code crashes there;
   the model does nothing (unreachable: CompoundRefine.step_conc shows that every reachable
   state only ever enables an existing member). *)
Definition add_pool (k : nat) (s : state) : state :=
  match nth_error (pools s) k with
  | None => s
  | Some _ => on_pool k (fun p => pset_su (pset_enq p (S (p_enq p))) 1) (emit (add_active s 1) (LEnq k))
  end.

(* ---- parsec_composed_taskpool_cb(member k, compound) -------------------------------- *)
Definition pool_cb (k : nat) (s : state) : state :=
  let d := c_done s in
  let s1 := emit (on_pool k (fun p => pset_cb p (S (p_cb p))) (set_cdone s (S d))) (LPoolCb k) in
  let s2 := compound_dec s1 in
  if 0 <? c_pa s2 then add_pool (S d) s2 else s2.

(* ---- a member's detector ------------------------------------------------------------- *)
(* [cb] is the member's on_complete.  termination_detected: on_complete, then
   active_taskpools--, then the monitor becomes TERMINATED *)
Definition pool_detected (cb : nat -> state -> state) (k : nat) (s : state) : state :=
  on_pool k (fun p => pset_st p MTerminated) (add_active (cb k s) (-1)).

Definition pool_check (cb : nat -> state -> state) (k : nat) (s : state) : state :=
  match nth_error (pools s) k with
  | Some p => if is_busy (p_st p) && (p_pa p =? 0) then pool_detected cb k s else s
  | None => s
  end.

(* taskpool_addto_runtime_actions(member k, -1) *)
Definition pool_dec_pa cb (k : nat) (s : state) : state :=
  pool_check cb k (on_pool k (fun p => pset_pa p (p_pa p - 1)) s).

(* taskpool_addto_nb_tasks(member k, -1): the zero crossing gives one pending action back *)
Definition pool_dec_nt cb (k : nat) (s : state) : state :=
  match nth_error (pools s) k with
  | Some p =>
      let s1 := on_pool k (fun q => pset_nt q (p_nt q - 1)) s in
      if (0 <? p_nt p) && (p_nt p - 1 =? 0) then pool_dec_pa cb k s1 else s1
  | None => s
  end.

(* internal_init of the (single) task class + taskpool_ready *)
Definition pool_startup cb (k : nat) (s : state) : state :=
  match nth_error (pools s) k with
  | Some p =>
      let sz := Z.of_nat (length (p_tasks p)) in
      let s1 := on_pool k (fun q =>
                  let q1 := pset_nt q (p_nt q + sz) in
                  if (p_nt q =? 0) && (0 <? sz) then pset_pa q1 (p_pa q + 1) else q1) s in
      let s2 := on_pool k (fun q => pset_su (pset_st q MBusy) 2) s1 in
      pool_check cb k s2
  | None => s
  end.

Inductive event :=
| EAdd
| EStartup (k : nat)
| EStartupDone (k : nat)
| EBegin (k i : nat)
| EEnd (k i : nat).

Definition task_of (s : state) (k i : nat) : option tst :=
  match nth_error (pools s) k with
  | Some p => nth_error (p_tasks p) i
  | None => None
  end.

Definition set_task (k i : nat) (v : tst) (s : state) : state :=
  on_pool k (fun p => pset_tasks p (upd (p_tasks p) i v)) s.

Definition su_of (s : state) (k : nat) : nat :=
  match nth_error (pools s) k with Some p => p_su p | None => 0%nat end.

(* parsec_context_add_taskpool(ctx, compound):
     tdm.module == NULL: open "local", monitor_taskpool, taskpool_ready (NOT_READY -> BUSY, and
       "if nb_pending_actions == 0" the termination is reported at once);
     active_taskpools++;
     startup hook: set_runtime_actions(nb_taskpools) (with its own check), callbacks installed,
       parsec_context_add_taskpool(member 0) *)
Definition compound_add (s : state) : state :=
  let s1 := compound_check (set_cst (set_added s) MBusy) in
  let s2 := add_active s1 1 in
  let s3 := compound_check (set_cpa s2 (Z.of_nat (length (pools s2)))) in
  add_pool 0 s3.

(* the compound proper (n >= 2 through parsec_compose; the model accepts any n >= 1) *)
Definition step (s : state) (e : event) : state :=
  match e with
  | EAdd => if c_added s then s else compound_add s
  | EStartup k => if Nat.eqb (su_of s k) 1 then pool_startup pool_cb k s else s
  | EStartupDone k =>
      if Nat.eqb (su_of s k) 2 then pool_dec_pa pool_cb k (on_pool k (fun p => pset_su p 3) s) else s
  | EBegin k i =>
      match task_of s k i with
      | Some TIdle => if Nat.leb 2 (su_of s k) then emit (set_task k i TRun s) (LBegin k i) else s
      | _ => s
      end
  | EEnd k i =>
      match task_of s k i with
      | Some TRun => pool_dec_nt pool_cb k (emit (set_task k i TDone s) (LEnd k i))
      | _ => s
      end
  end.

(* generated constructor of a member: detector monitored (NOT_READY), one pending
   action for the startup task of its single task class *)
Definition new_pool (size : nat) : pool := mkPool (repeat TIdle size) 0 1 MNotReady 0 0 0.

Definition init (pre : bool) (sizes : list nat) : state :=
  mkState (map new_pool sizes) false (if pre then 1 else 0) MNotReady 0 0 0 [].

Definition run (pre : bool) (sizes : list nat) (evs : list event) : state :=
  fold_left step evs (init pre sizes).

(* ---- a single taskpool (parsec_compose(tp, NULL) returns tp itself): its user
   on_complete plays the role of the compound's ------------------------------------- *)
Definition user_cb (k : nat) (s : state) : state := emit (set_ccb s (S (c_cb s))) LCompound.

Definition step1 (s : state) (e : event) : state :=
  match e with
  | EAdd => if c_added s then s else add_pool 0 (set_added s)
  | EStartup k => if Nat.eqb (su_of s k) 1 then pool_startup user_cb k s else s
  | EStartupDone k =>
      if Nat.eqb (su_of s k) 2 then pool_dec_pa user_cb k (on_pool k (fun p => pset_su p 3) s) else s
  | EBegin k i => step s (EBegin k i)
  | EEnd k i =>
      match task_of s k i with
      | Some TRun => pool_dec_nt user_cb k (emit (set_task k i TDone s) (LEnd k i))
      | _ => s
      end
  end.

(* what parsec_compose builds from n >= 1 taskpools *)
Definition compose_step (n : nat) : state -> event -> state := if Nat.leb n 1 then step1 else step.

(* ---- members with no local work at all ("bare": PARSEC_OBJ_NEW(parsec_taskpool_t)) --------
   Such a member has no detector of its own, no startup hook and no pending action:
   parsec_context_add_taskpool installs the local detector on it and declares it ready, and
   the detector reports the termination RIGHT THERE, before active_taskpools++ and before
   on_enqueue: parsec_taskpool_termination_detected runs the member's on_complete =
   parsec_composed_taskpool_cb re-entrantly, i.e. from inside the parsec_context_add_taskpool
   call of the previous member's callback (or of the startup hook), and that callback hands the
   NEXT member to the runtime, possibly a bare one again.  The recursion is structural on
   [fuel] (the number of members is enough).  [bare] says which members are bare; their pool
   record is [new_bare]. *)
Definition is_bare (bare : list bool) (k : nat) : bool := nth k bare false.

(* parsec_composed_taskpool_cb with the function that adds a member as a parameter *)
Definition pool_cb_with (add : nat -> state -> state) (k : nat) (s : state) : state :=
  let d := c_done s in
  let s1 := emit (on_pool k (fun p => pset_cb p (S (p_cb p))) (set_cdone s (S d))) (LPoolCb k) in
  let s2 := compound_dec s1 in
  if (0 <? c_pa s2)%Z then add (S d) s2 else s2.

Fixpoint add_member (bare : list bool) (fuel : nat) (k : nat) (s : state) : state :=
  match nth_error (pools s) k with
  | None => s
  | Some _ =>
      if is_bare bare k then
        match fuel with
        | O => s
        | S f =>
            (* monitor, taskpool_ready, nb_pending_actions == 0: termination_detected:
               on_complete (re-entrant), active_taskpools--, TERMINATED *)
            let s1 := on_pool k (fun p => pset_st p MTerminated)
                        (add_active (pool_cb_with (add_member bare f) k s) (-1)) in
            (* then active_taskpools++, on_enqueue; there is no startup hook *)
            on_pool k (fun p => pset_enq p (S (p_enq p))) (emit (add_active s1 1) (LEnq k))
        end
      else add_pool k s
  end.

Definition add_any (bare : list bool) (k : nat) (s : state) : state := add_member bare (length (pools s)) k s.

Definition compound_add_with (add : nat -> state -> state) (s : state) : state :=
  let s1 := compound_check (set_cst (set_added s) MBusy) in
  let s2 := add_active s1 1 in
  let s3 := compound_check (set_cpa s2 (Z.of_nat (length (pools s2)))) in
  add 0%nat s3.

Definition stepB (bare : list bool) (s : state) (e : event) : state :=
  let cb := pool_cb_with (add_any bare) in
  match e with
  | EAdd => if c_added s then s else compound_add_with (add_any bare) s
  | EStartup k => if Nat.eqb (su_of s k) 1 then pool_startup cb k s else s
  | EStartupDone k =>
      if Nat.eqb (su_of s k) 2 then pool_dec_pa cb k (on_pool k (fun p => pset_su p 3) s) else s
  | EBegin k i => step s (EBegin k i)
  | EEnd k i =>
      match task_of s k i with
      | Some TRun => pool_dec_nt cb k (emit (set_task k i TDone s) (LEnd k i))
      | _ => s
      end
  end.

(* a member: Some n = a PTG taskpool of n tasks, None = a bare taskpool *)
Definition new_bare : pool := mkPool [] 0 0 MNotReady 0%nat 0%nat 0%nat.
Definition new_member (m : option nat) : pool := match m with Some n => new_pool n | None => new_bare end.
Definition bare_of (ms : list (option nat)) : list bool := map (fun m => match m with None => true | Some _ => false end) ms.
Definition initB (pre : bool) (ms : list (option nat)) : state :=
  mkState (map new_member ms) false (if pre then 1 else 0)%Z MNotReady 0%nat 0%nat 0%Z [].
Definition runB (pre : bool) (ms : list (option nat)) (evs : list event) : state :=
  fold_left (stepB (bare_of ms)) evs (initB pre ms).

(* ---- observations (what the harness derives from its stamps) ------------------------ *)
Local Open Scope nat_scope.

Definition lentry_eqb (a b : lentry) : bool :=
  match a, b with
  | LEnq k, LEnq k' => Nat.eqb k k'
  | LBegin k i, LBegin k' i' => Nat.eqb k k' && Nat.eqb i i'
  | LEnd k i, LEnd k' i' => Nat.eqb k k' && Nat.eqb i i'
  | LPoolCb k, LPoolCb k' => Nat.eqb k k'
  | LCompound, LCompound => true
  | _, _ => false
  end.

Definition lcount (e : lentry) (l : list lentry) : nat := length (filter (lentry_eqb e) l).

Definition pool_of (e : lentry) : option nat :=
  match e with LEnq k | LBegin k _ | LEnd k _ => Some k | _ => None end.

(* chronological log: every entry of member k (enqueue, begin, end) comes after every
   entry of the members before it *)
Fixpoint seq_ok_from (maxk : nat) (chron : list lentry) : bool :=
  match chron with
  | [] => true
  | e :: r =>
      match pool_of e with
      | Some k => Nat.leb maxk k && seq_ok_from (Nat.max maxk k) r
      | None => seq_ok_from maxk r
      end
  end.
Definition seq_ok (s : state) : bool := seq_ok_from 0 (rev (log s)).

(* the (first) report of the compound comes after every enqueue, begin and end *)
Fixpoint none_after (chron : list lentry) : bool :=
  match chron with
  | [] => true
  | e :: r => match pool_of e with Some _ => false | None => none_after r end
  end.
Fixpoint compound_last_from (chron : list lentry) : bool :=
  match chron with
  | [] => false
  | LCompound :: r => none_after r
  | _ :: r => compound_last_from r
  end.
Definition compound_last (s : state) : bool := compound_last_from (rev (log s)).

Definition ran (s : state) : list nat := map (fun p => length (filter is_done (p_tasks p))) (pools s).
Definition begun (s : state) : list nat := map (fun p => length (filter (fun t => negb (is_idle t)) (p_tasks p))) (pools s).
Definition enqs (s : state) : list nat := map p_enq (pools s).

(* with bare members: their on_enqueue runs after their termination (and after whatever their
   callback started), so it takes no part in the ordering *)
Definition pool_ofB (bare : list bool) (e : lentry) : option nat :=
  match e with
  | LEnq k => if is_bare bare k then None else Some k
  | LBegin k _ | LEnd k _ => Some k
  | _ => None
  end.
Fixpoint seq_ok_fromB (bare : list bool) (maxk : nat) (chron : list lentry) : bool :=
  match chron with
  | [] => true
  | e :: r =>
      match pool_ofB bare e with
      | Some k => Nat.leb maxk k && seq_ok_fromB bare (Nat.max maxk k) r
      | None => seq_ok_fromB bare maxk r
      end
  end.
Definition seq_okB (bare : list bool) (s : state) : bool := seq_ok_fromB bare 0 (rev (log s)).
Fixpoint none_afterB (bare : list bool) (chron : list lentry) : bool :=
  match chron with
  | [] => true
  | e :: r => match pool_ofB bare e with Some _ => false | None => none_afterB bare r end
  end.
Fixpoint compound_last_fromB (bare : list bool) (chron : list lentry) : bool :=
  match chron with
  | [] => false
  | LCompound :: r => none_afterB bare r
  | _ :: r => compound_last_fromB bare r
  end.
Definition compound_lastB (bare : list bool) (s : state) : bool := compound_last_fromB bare (rev (log s)).

(* every event that could be effective in some state over these sizes *)
Definition all_events (sizes : list nat) : list event :=
  EAdd :: concat (map (fun ks => let k := fst ks in
                         EStartup k :: EStartupDone k ::
                         concat (map (fun i => [EBegin k i; EEnd k i]) (seq 0 (snd ks))))
                      (combine (seq 0 (length sizes)) sizes)).
