(* C06 — the per-thread choreography of __parsec_context_wait (CtxBarrierDefs.v): invariant over every
   interleaving, projection onto the context model, and the theorem that the master is released from
   the final barrier only in a state where active_taskpools = 0 and no thread is inside a task, a
   startup task or a termination callback — the condition CtxWaitDefs.step assumes for MWaitLeave. *)
From PV Require Import Base.Tac Base.ListX CtxWait.CtxWaitDefs CtxWait.CtxWaitProofs CtxWait.CtxBarrierDefs.
Local Open Scope Z_scope.

(* ---- sums ---- *)
Definition sumZ (l : list Z) : Z := fold_right Z.add 0 l.
Lemma sumZ_cons x l : sumZ (x :: l) = x + sumZ l. Proof. reflexivity. Qed.
Lemma sumZ_app a b : sumZ (a ++ b) = sumZ a + sumZ b.
Proof. induction a as [|x a IH]; [reflexivity|]. rewrite <- app_comm_cons, !sumZ_cons, IH. lia. Qed.
Lemma sumZ_upd l t x y : nth_error l t = Some x -> sumZ (upd l t y) = sumZ l - x + y.
Proof.
  intros H. unfold upd. rewrite (split_nth l t x H) at 3. rewrite !sumZ_app, !sumZ_cons. lia.
Qed.
Lemma sumZ_repeat0 n : sumZ (repeat 0 n) = 0.
Proof. induction n as [|n IH]; [reflexivity|]. cbn [repeat]. rewrite sumZ_cons, IH. reflexivity. Qed.
Lemma sumZ_all0 l : (forall t x, nth_error l t = Some x -> x = 0) -> sumZ l = 0.
Proof.
  induction l as [|a l IH]; intros H; [reflexivity|]. rewrite sumZ_cons, (H 0%nat a eq_refl), IH; [reflexivity|].
  intros t x Hx. apply (H (S t)). exact Hx.
Qed.

Lemma nth_default_error {A} (l : list A) t d x : nth_error l t = Some x -> nth t l d = x.
Proof. intros H. apply nth_error_nth. exact H. Qed.
Lemma nth_error_of_lt {A} (l : list A) t d : (t < length l)%nat -> nth_error l t = Some (nth t l d).
Proof. intros H. apply nth_error_nth'. exact H. Qed.

(* ---- obligations ---- *)
Lemma p_ob_nonneg p : 0 <= p_ob p.
Proof. unfold p_ob. pose proof (cnt_nonneg is_run (k_tasks p)) as Hc. destruct (Nat.eqb _ _), (in_cb _); lia. Qed.

Lemma cnt_run_zero ts : cnt is_run ts = 0 -> existsb is_run ts = false.
Proof.
  induction ts as [|t ts IH]; [reflexivity|]. rewrite cnt_cons. pose proof (cnt_nonneg is_run ts) as Hc.
  destruct t; cbn [is_run existsb orb]; intros H; try lia; apply IH; lia.
Qed.

Lemma p_ob_zero_quiet p : p_ob p = 0 -> p_quiet p = true.
Proof.
  unfold p_ob, p_quiet. pose proof (cnt_nonneg is_run (k_tasks p)) as Hc. intros H.
  destruct (Nat.eqb (k_su p) 2) eqn:E1; [lia|]. destruct (in_cb (k_st p)) eqn:E2; [lia|].
  rewrite (cnt_run_zero (k_tasks p)) by lia. reflexivity.
Qed.

Lemma ob_zero_quiescent s : ob s = 0 -> quiescent s = true.
Proof.
  unfold ob, quiescent. induction (pools s) as [|p l IH]; [reflexivity|]. cbn [fold_right forallb].
  intros H. pose proof (p_ob_nonneg p).
  assert (0 <= fold_right (fun p a => p_ob p + a) 0 l).
  { clear. induction l as [|q l IH]; cbn [fold_right]; [lia|]. pose proof (p_ob_nonneg q). lia. }
  rewrite p_ob_zero_quiet by lia. apply IH. lia.
Qed.

Lemma quiescent_ob_zero s : quiescent s = true -> ob s = 0.
Proof.
  unfold ob, quiescent. induction (pools s) as [|p l IH]; [reflexivity|]. cbn [fold_right forallb].
  intros H. apply andb_prop in H. destruct H as [Hp Hl]. rewrite (IH Hl).
  unfold p_quiet in Hp. apply andb_prop in Hp. destruct Hp as [Hp H3]. apply andb_prop in Hp. destruct Hp as [H1 H2].
  unfold p_ob. apply negb_true_iff in H1, H2, H3. rewrite H2, H3.
  assert (cnt is_run (k_tasks p) = 0); [|lia].
  clear -H1. induction (k_tasks p) as [|t ts IH]; [reflexivity|]. rewrite cnt_cons. cbn in H1. apply orb_false_iff in H1.
  destruct H1 as [A B]. rewrite A, (IH B). reflexivity.
Qed.


Definition wcur (g : nat) (p : tpc) : bool :=
  match p with TWaitS g' | TWaitE g' => Nat.eqb g' g | _ => false end.

(* which program counters fit the phase: [run] = the work loop of an epoch is open *)
Definition pc_ok (run : bool) (g : nat) (t : nat) (p : tpc) : Prop :=
  match p with
  | TOut => t = 0%nat
  | TInc => t = 0%nat /\ run = true
  | TLoop => run = true
  | TPassed => run = false
  | TWaitS g' => if run then (g' < g)%nat else g' = g
  | TWaitE g' => if run then g' = g else (g' < g)%nat
  end.

Definition in_ctxwait (p : tpc) : bool := match p with TLoop | TWaitE _ | TPassed => true | _ => false end.
Definition in_start (p : tpc) : bool := match p with TWaitS _ | TInc => true | _ => false end.

Record RCore (r : rstate) : Prop := {
  v_len : length (busy r) = length (pcs r) /\ (1 <= length (pcs r))%nat;
  v_sum : sumZ (busy r) = ob (inner r);
  v_idle : forall t p, nth_error (pcs r) t = Some p -> p <> TLoop -> p <> TOut -> busy_of r t = 0;
  v_pc : forall t p, nth_error (pcs r) t = Some p -> pc_ok (running r) (bgen r) t p;
  v_cnt : Z.of_nat (bcnt r) = cnt (wcur (bgen r)) (pcs r) /\ (bcnt r < length (pcs r))%nat
}.
Record RMas (r : rstate) : Prop := {
  v_wait : in_ctxwait (pc_of r 0) = in_waitm (master (inner r));
  v_start : in_start (pc_of r 0) = true -> master (inner r) = MIdle /\ started (inner r) = true;
  v_run : running r = true -> started (inner r) = true;
  v_done : running r = false -> in_ctxwait (pc_of r 0) = true -> active (inner r) = 0;
  v_out : pc_of r 0 = TOut -> started (inner r) = true -> running r = true
}.
Definition RInv (r : rstate) : Prop := RCore r /\ RMas r.

Lemma nth_upd_eq {A} (l : list A) t u x y : nth_error l t = Some x ->
  nth_error (upd l t y) u = if Nat.eqb u t then Some y else nth_error l u.
Proof. apply nth_upd. Qed.

Lemma pc_of_upd r t u x y : nth_error (pcs r) t = Some x ->
  nth u (upd (pcs r) t y) TOut = if Nat.eqb u t then y else nth u (pcs r) TOut.
Proof.
  intros H. destruct (Nat.eqb_spec u t) as [->|Hne].
  - apply nth_default_error. apply (nth_upd_same _ _ _ _ H).
  - destruct (nth_error (pcs r) u) as [z|] eqn:E.
    + rewrite (nth_default_error _ _ _ _ E). apply nth_default_error. rewrite (nth_upd_other _ _ _ _ _ H Hne). exact E.
    + apply nth_error_None in E. rewrite (nth_overflow (pcs r)) by assumption.
      apply nth_overflow. rewrite (len_upd _ _ _ _ H). assumption.
Qed.

Lemma wcur_all_le r : RCore r -> forall t p, nth_error (pcs r) t = Some p -> wcur (S (bgen r)) p = false.
Proof.
  intros Hi t p Hp. pose proof (v_pc r Hi t p Hp) as Hk. destruct p; cbn in *; try reflexivity;
    destruct (running r); apply Nat.eqb_neq; lia.
Qed.

(* the other threads are all waiting in the current generation when the counter says so *)
Lemma all_others_wait r t p : RCore r -> nth_error (pcs r) t = Some p -> wcur (bgen r) p = false ->
  S (bcnt r) = length (pcs r) ->
  forall u q, nth_error (pcs r) u = Some q -> u <> t -> wcur (bgen r) q = true.
Proof.
  intros Hi Hp Hw Hc u q Hq Hne. destruct (v_cnt r Hi) as [Hcnt _].
  assert (Hfull : cnt (wcur (bgen r)) (upd (pcs r) t (TWaitS (bgen r))) = Z.of_nat (length (upd (pcs r) t (TWaitS (bgen r))))).
  { rewrite (cnt_upd _ _ _ _ _ Hp), (len_upd _ _ _ _ Hp), Hw. cbn [wcur]. rewrite Nat.eqb_refl. lia. }
  apply (cnt_full_all _ _ Hfull u q). rewrite (nth_upd_other _ _ _ _ _ Hp Hne). exact Hq.
Qed.

Lemma pc_ok_flip run g u q : wcur g q = true -> pc_ok run g u q -> pc_ok (negb run) (S g) u q.
Proof.
  destruct q; cbn; try discriminate; intros Hw Hk; apply Nat.eqb_eq in Hw; subst; destruct run; cbn in *; lia.
Qed.

Lemma busy_of_nth r t x : nth_error (busy r) t = Some x -> busy_of r t = x.
Proof. intros H. unfold busy_of. apply nth_default_error. exact H. Qed.

(* arriving at the barrier: the fields that do not mention the master's inner state *)
Lemma arrive_core r t p wait pass : RCore r ->
  nth_error (pcs r) t = Some p -> wcur (bgen r) p = false -> busy_of r t = 0 ->
  pc_ok (running r) (bgen r) t (wait (bgen r)) -> wcur (bgen r) (wait (bgen r)) = true ->
  pc_ok (negb (running r)) (S (bgen r)) t pass -> wcur (S (bgen r)) pass = false ->
  RCore (arrive r t wait pass).
Proof.
  intros Hc Hp Hw Hb Hkw Hww Hkp Hwp. unfold arrive.
  destruct Hc as [[Hl1 Hl2] Hs Hi Hk [Hc1 Hc2]].
  destruct (Nat.eqb_spec (S (bcnt r)) (length (pcs r))) as [Hlast|Hnl].
  - (* last arrival: a new generation *)
    assert (Hall := all_others_wait r t p (Build_RCore r (conj Hl1 Hl2) Hs Hi Hk (conj Hc1 Hc2)) Hp Hw Hlast).
    constructor; cbn [inner pcs busy bgen bcnt running].
    + rewrite (len_upd _ _ _ _ Hp). auto.
    + assumption.
    + intros u q Hq H1 H2. rewrite (nth_upd _ _ _ _ _ Hp) in Hq. unfold busy_of. cbn [busy].
      destruct (Nat.eq_dec u t) as [Eu|Hne]; [subst u; exact Hb|].
      rewrite (proj2 (Nat.eqb_neq u t) Hne) in Hq. apply (Hi u q Hq H1 H2).
    + intros u q Hq. rewrite (nth_upd _ _ _ _ _ Hp) in Hq. destruct (Nat.eq_dec u t) as [Eu|Hne].
      * subst u. rewrite Nat.eqb_refl in Hq. inversion Hq; subst. exact Hkp.
      * rewrite (proj2 (Nat.eqb_neq u t) Hne) in Hq. apply pc_ok_flip; [apply (Hall u q Hq Hne)|apply (Hk u q Hq)].
    + split; [|rewrite (len_upd _ _ _ _ Hp); lia].
      rewrite cnt_all_false; [reflexivity|]. intros q Hq. apply In_nth_error in Hq. destruct Hq as (u & Hq).
      rewrite (nth_upd _ _ _ _ _ Hp) in Hq. destruct (Nat.eq_dec u t) as [Eu|Hne].
      * subst u. rewrite Nat.eqb_refl in Hq. inversion Hq; subst. exact Hwp.
      * rewrite (proj2 (Nat.eqb_neq u t) Hne) in Hq. apply (wcur_all_le r (Build_RCore r (conj Hl1 Hl2) Hs Hi Hk (conj Hc1 Hc2)) u q Hq).
  - constructor; cbn [inner pcs busy bgen bcnt running].
    + rewrite (len_upd _ _ _ _ Hp). auto.
    + assumption.
    + intros u q Hq H1 H2. rewrite (nth_upd _ _ _ _ _ Hp) in Hq. unfold busy_of. cbn [busy].
      destruct (Nat.eq_dec u t) as [Eu|Hne]; [subst u; exact Hb|].
      rewrite (proj2 (Nat.eqb_neq u t) Hne) in Hq. apply (Hi u q Hq H1 H2).
    + intros u q Hq. rewrite (nth_upd _ _ _ _ _ Hp) in Hq. destruct (Nat.eq_dec u t) as [Eu|Hne].
      * subst u. rewrite Nat.eqb_refl in Hq. inversion Hq; subst. exact Hkw.
      * rewrite (proj2 (Nat.eqb_neq u t) Hne) in Hq. apply (Hk u q Hq).
    + split; [|rewrite (len_upd _ _ _ _ Hp); lia].
      rewrite (cnt_upd _ _ _ _ _ Hp), Hw, Hww. lia.
Qed.

(* a thread moves on without touching the barrier counter *)
Lemma set_pc_core r t p p' : RCore r ->
  nth_error (pcs r) t = Some p -> wcur (bgen r) p = false -> wcur (bgen r) p' = false ->
  pc_ok (running r) (bgen r) t p' -> (p' <> TLoop -> p' <> TOut -> busy_of r t = 0) ->
  RCore (set_pc r t p').
Proof.
  intros [[Hl1 Hl2] Hs Hi Hk [Hc1 Hc2]] Hp Hw Hw' Hk' Hb. unfold set_pc.
  constructor; cbn [inner pcs busy bgen bcnt running].
  - rewrite (len_upd _ _ _ _ Hp). auto.
  - assumption.
  - intros u q Hq H1 H2. rewrite (nth_upd _ _ _ _ _ Hp) in Hq. unfold busy_of. cbn [busy].
    destruct (Nat.eq_dec u t) as [Eu|Hne]; [subst u; rewrite Nat.eqb_refl in Hq; inversion Hq; subst; apply Hb; assumption|].
    rewrite (proj2 (Nat.eqb_neq u t) Hne) in Hq. apply (Hi u q Hq H1 H2).
  - intros u q Hq. rewrite (nth_upd _ _ _ _ _ Hp) in Hq. destruct (Nat.eq_dec u t) as [Eu|Hne].
    + subst u. rewrite Nat.eqb_refl in Hq. inversion Hq; subst. exact Hk'.
    + rewrite (proj2 (Nat.eqb_neq u t) Hne) in Hq. apply (Hk u q Hq).
  - split; [|rewrite (len_upd _ _ _ _ Hp); lia]. rewrite (cnt_upd _ _ _ _ _ Hp), Hw, Hw'. lia.
Qed.

(* an inner event performed by thread t *)
Lemma inner_core r t s' : RCore r -> (t < length (pcs r))%nat ->
  (forall p, nth_error (pcs r) t = Some p -> p = TLoop \/ p = TOut \/ ob s' = ob (inner r)) ->
  RCore (set_inner_busy r t s').
Proof.
  intros [[Hl1 Hl2] Hs Hi Hk [Hc1 Hc2]] Ht Hp. unfold set_inner_busy.
  assert (Hb : nth_error (busy r) t = Some (busy_of r t)).
  { unfold busy_of. apply nth_error_of_lt. lia. }
  constructor; cbn [inner pcs busy bgen bcnt running].
  - rewrite (len_upd _ _ _ _ Hb). auto.
  - rewrite (sumZ_upd _ _ _ _ Hb). lia.
  - intros u q Hq H1 H2. unfold busy_of. cbn [busy].
    destruct (Nat.eq_dec u t) as [->|Hne].
    + rewrite (nth_default_error _ _ _ _ (nth_upd_same _ _ _ _ Hb)).
      destruct (Hp q Hq) as [A|[A|A]]; try contradiction. pose proof (Hi t q Hq H1 H2) as Hz. unfold busy_of in *. lia.
    + pose proof (Hi u q Hq H1 H2) as Hz. unfold busy_of in Hz.
      destruct (nth_error (busy r) u) as [z|] eqn:E.
      * rewrite (nth_default_error _ _ _ _ E) in Hz. apply nth_default_error. rewrite (nth_upd_other _ _ _ _ _ Hb Hne). rewrite E, Hz. reflexivity.
      * apply nth_error_None in E. assert (u < length (pcs r))%nat by (apply nth_error_Some; congruence). lia.
  - assumption.
  - auto.
Qed.


(* ---- inner events: what they do to the flags and to [ob] ---- *)
Lemma on_pool_flags q f s : master (on_pool q f s) = master s /\ started (on_pool q f s) = started s.
Proof. unfold on_pool. destruct (nth_error (pools s) q); auto. Qed.
Lemma add_taskpool_flags q s : master (add_taskpool q s) = master s /\ started (add_taskpool q s) = started s.
Proof.
  unfold add_taskpool. destruct (nth_error (pools s) q) as [p|]; auto. destruct (k_added p); auto.
  destruct (k_dtd p); match goal with |- context[on_pool ?q ?f ?s'] => destruct (on_pool_flags q f s') as [A B]; rewrite A, B end; auto.
Qed.

Lemma worker_event_flags s e : is_worker_event e = true ->
  master (step s e) = master s /\ started (step s e) = started s.
Proof.
  destruct e; cbn [is_worker_event]; try discriminate; intros _; cbn [step]; unfold pool_at, task_at, pool_at.
  - destruct (nth_error (pools s) q) as [p|]; auto. destruct (_ && _ && _); auto. apply on_pool_flags.
  - destruct (nth_error (pools s) q) as [p|]; auto. destruct (Nat.eqb _ _); auto. apply on_pool_flags.
  - destruct (nth_error (pools s) q) as [p|]; auto. destruct (nth_error (k_tasks p) i) as [[| |]|]; auto.
    destruct (_ && _ && _); auto. apply on_pool_flags.
  - destruct (nth_error (pools s) q) as [p|]; auto. destruct (nth_error (k_tasks p) i) as [[| |]|]; auto. apply on_pool_flags.
  - destruct (nth_error (pools s) q) as [p|]; auto. destruct (k_st p); auto.
    destruct (on_pool_flags q (fun p => pset_st p STermDec) s). split; assumption.
  - destruct (nth_error (pools s) q) as [p|]; auto. destruct (k_st p); auto. apply on_pool_flags.
  - destruct (nth_error (pools s) p) as [pp|]; auto. destruct (nth_error (k_tasks pp) i) as [[| |]|]; auto. apply add_taskpool_flags.
  - destruct (nth_error (pools s) p) as [pp|]; auto. destruct (k_st pp); auto. apply add_taskpool_flags.
Qed.

(* master API events other than start / the two halves of context_wait, performed outside the wait *)
Lemma api_event_flags s e : is_worker_event e = false -> e <> MStart -> e <> MWaitEnter -> e <> MWaitLeave ->
  in_waitm (master s) = false ->
  in_waitm (master (step s e)) = false /\ started (step s e) = started s.
Proof.
  intros Hw H1 H2 H3 Hm. destruct e; cbn [is_worker_event] in Hw; try discriminate; try congruence; cbn [step]; unfold pool_at.
  - destruct (is_idle_m (master s)); [|auto]. destruct (add_taskpool_flags q s) as [A B]. rewrite A, B. auto.
  - destruct (nth_error (pools s) q) as [p|]; auto. destruct (_ && _ && _ && _); auto.
    destruct (on_pool_flags q (fun p => p_add_nt (pset_tasks p (k_tasks p ++ [TIdle])) 1) s) as [A B]. rewrite A, B. auto.
  - destruct (is_idle_m (master s)); auto.
  - destruct (nth_error (pools s) q) as [p|]; auto. destruct (_ && _ && _ && _ && _ && _); auto.
    destruct (on_pool_flags q (fun p => pset_att (pset_cb (pset_st p STerminated) (S (k_cb p))) true false) s) as [A B].
    cbn [master started add_active]. rewrite A, B. auto.
  - destruct (nth_error (pools s) q) as [p|]; auto. destruct (_ && _ && _); auto.
    destruct (on_pool_flags q (fun p => if k_dtd p then p_ready p else p) s) as [A B]. cbn [master started set_master]. auto.
  - destruct (master s) as [| |q'] eqn:Em; destruct (nth_error (pools s) q) as [p|]; rewrite ?Em; auto.
    destruct (_ && _); [|rewrite Em; auto]. destruct (k_dtd p); cbn [master started set_master add_active]; auto.
    destruct (on_pool_flags q p_rearm s) as [A B]. auto.
Qed.


Lemma ob_pools s s' : pools s' = pools s -> ob s' = ob s.
Proof. unfold ob. intros ->. reflexivity. Qed.

Lemma ob_rearm l : forallb p_quiet l = true ->
  fold_right (fun p a => p_ob p + a) 0 (rearm_all l) = fold_right (fun p a => p_ob p + a) 0 l.
Proof.
  induction l as [|p l IH]; [reflexivity|]. cbn [forallb rearm_all map fold_right]. intros H. apply andb_prop in H.
  destruct H as [Hp Hl]. fold (rearm_all l). rewrite (IH Hl). f_equal.
  destruct (k_att p && k_dtd p); [|reflexivity]. unfold p_quiet in Hp. apply andb_prop in Hp. destruct Hp as [_ Hc].
  apply negb_true_iff in Hc. unfold p_ob, p_rearm. cbn. rewrite Hc. reflexivity.
Qed.

(* the master's leave, in a state where its condition holds *)
Lemma leave_effect s : master s = MInWait -> active s = 0 -> quiescent s = true ->
  let s' := step s MWaitLeave in
  master s' = MIdle /\ started s' = false /\ ob s' = ob s /\ epoch s' = S (epoch s).
Proof.
  intros Hm Ha Hq. cbn [step]. rewrite Hm, Ha, Hq. cbn [Z.eqb andb].
  cbn [master started epoch set_epoch set_master set_started set_waiting add_active set_pools pools].
  repeat split. unfold ob. cbn [pools]. apply ob_rearm. exact Hq.
Qed.

Lemma pc_of_nth r t p : nth_error (pcs r) t = Some p -> pc_of r t = p.
Proof. intros H. unfold pc_of. apply nth_default_error. exact H. Qed.

Lemma pc0_after_upd r t x y : nth_error (pcs r) t = Some x ->
  nth 0 (upd (pcs r) t y) TOut = if Nat.eqb t 0 then y else pc_of r 0.
Proof.
  intros H. rewrite (pc_of_upd r t 0%nat x y H). destruct t; reflexivity.
Qed.

Lemma all_busy_zero r : RCore r -> running r = false -> pc_of r 0 <> TOut -> ob (inner r) = 0.
Proof.
  intros Hc Hr H0. rewrite <- (v_sum r Hc). apply sumZ_all0. intros t x Hx.
  destruct (v_len r Hc) as [Hl _].
  assert (Ht : (t < length (pcs r))%nat) by (rewrite <- Hl; apply nth_error_Some; congruence).
  pose proof (nth_error_of_lt (pcs r) t TOut Ht) as Hp.
  pose proof (v_pc r Hc t _ Hp) as Hk. rewrite <- (busy_of_nth r t x Hx).
  apply (v_idle r Hc t _ Hp).
  - intros E. rewrite E in Hk. cbn in Hk. congruence.
  - intros E. rewrite E in Hk. cbn in Hk. subst t. apply H0. unfold pc_of. exact E.
Qed.


Ltac rfields := cbn [inner pcs busy bgen bcnt running].

(* master fields when the inner state and the phase are unchanged *)
Lemma mas_pc r r' : RMas r -> inner r' = inner r -> running r' = running r ->
  in_ctxwait (pc_of r' 0) = in_ctxwait (pc_of r 0) ->
  (in_start (pc_of r' 0) = true -> in_start (pc_of r 0) = true) ->
  (pc_of r' 0 = TOut -> pc_of r 0 = TOut \/ running r = true) -> RMas r'.
Proof.
  intros [Hw Hs Hr Hd Ho] Ei Er Ec Es Eo. constructor; rewrite ?Ei, ?Er, ?Ec; auto.
  intros H1 H2. destruct (Eo H1) as [A|A]; auto.
Qed.

Lemma pc0_set_pc r t x y : nth_error (pcs r) t = Some x -> pc_of (set_pc r t y) 0 = if Nat.eqb t 0 then y else pc_of r 0.
Proof. intros H. unfold pc_of, set_pc. rfields. apply (pc0_after_upd r t x y H). Qed.

Lemma others_wait0 r t p : RCore r -> nth_error (pcs r) t = Some p -> wcur (bgen r) p = false ->
  S (bcnt r) = length (pcs r) -> t <> 0%nat -> wcur (bgen r) (pc_of r 0) = true.
Proof.
  intros Hc Hp Hw Hl Hne. assert (H0 : (0 < length (pcs r))%nat) by lia.
  pose proof (nth_error_of_lt (pcs r) 0%nat TOut H0) as Hp0. fold (pc_of r 0) in Hp0.
  apply (all_others_wait r t p Hc Hp Hw Hl 0%nat _ Hp0). auto.
Qed.

Theorem rstep_inv r ev : RInv r -> RInv (rstep r ev).
Proof.
  intros [Hc Hm]. destruct ev as [t|t e]; cbn [rstep].
  - (* ---- barrier / loop-test / increment / leave code ---- *)
    destruct (Nat.ltb_spec t (length (pcs r))) as [Ht|Ht]; [|split; assumption].
    pose proof (nth_error_of_lt (pcs r) t TOut Ht) as Hp. fold (pc_of r t) in Hp.
    pose proof (v_pc r Hc t _ Hp) as Hk.
    destruct (pc_of r t) as [| |g| |g|] eqn:Epc.
    + split; assumption.
    + (* loop test *)
      destruct ((busy_of r t =? 0) && (seen_active r =? 0)) eqn:E; [|split; assumption].
      apply andb_prop in E. destruct E as [Eb Ea]. apply Z.eqb_eq in Eb, Ea. cbn in Hk.
      assert (Hcore : RCore (arrive r t TWaitE TPassed)).
      { apply (arrive_core r t TLoop); auto; cbn; rewrite ?Hk; cbn; auto. apply Nat.eqb_refl. }
      split; [exact Hcore|].
      unfold arrive in *. destruct (Nat.eqb_spec (S (bcnt r)) (length (pcs r))) as [Hlast|Hnl].
      * (* the end barrier opens *)
        assert (H0w : t <> 0%nat -> exists g0, pc_of r 0 = TWaitE g0).
        { intros Hne. pose proof (others_wait0 r t TLoop Hc Hp eq_refl Hlast Hne) as Hw0.
          assert (H0 : (0 < length (pcs r))%nat) by lia.
          pose proof (v_pc r Hc 0%nat _ (nth_error_of_lt (pcs r) 0%nat TOut H0)) as Hk0. fold (pc_of r 0) in Hk0. rewrite Hk in Hk0.
          destruct (pc_of r 0); cbn in Hw0; try discriminate; [|eauto].
          apply Nat.eqb_eq in Hw0. cbn in Hk0. lia. }
        assert (Hact : active (inner r) = 0).
        { unfold seen_active in Ea. destruct (Nat.eq_dec t 0) as [->|Hne]; [rewrite Epc in Ea; lia|].
          destruct (H0w Hne) as (g0 & E0). rewrite E0 in Ea. lia. }
        destruct Hm as [Hw Hs Hr Hd Ho]. constructor; rfields; unfold pc_of; rfields; rewrite ?(pc0_after_upd r t _ _ Hp).
        -- destruct (Nat.eqb_spec t 0) as [->|Hne]; [rewrite <- Hw, Epc; reflexivity|exact Hw].
        -- destruct (Nat.eqb_spec t 0) as [->|Hne]; [discriminate|exact Hs].
        -- rewrite Hk. discriminate.
        -- intros _ _. exact Hact.
        -- destruct (Nat.eqb_spec t 0) as [->|Hne]; [discriminate|]. destruct (H0w Hne) as (g0 & E0). rewrite E0. discriminate.
      * apply (mas_pc r); auto; unfold pc_of; rfields; rewrite (pc0_after_upd r t _ _ Hp); fold (pc_of r 0);
          destruct (Nat.eqb_spec t 0) as [->|Hne]; rewrite ?Epc; auto; discriminate.
    + (* waiting at the start barrier *)
      destruct (Nat.eqb_spec (bgen r) g) as [Eg|Eg]; [split; assumption|].
      assert (Hrun : running r = true).
      { cbn in Hk. destruct (running r); [reflexivity|]. congruence. }
      rewrite Hrun in Hk. cbn in Hk.
      assert (Hcore : RCore (set_pc r t (if Nat.eqb t 0 then TInc else TLoop))).
      { apply (set_pc_core r t (TWaitS g) _ Hc Hp).
        - cbn. apply Nat.eqb_neq. lia.
        - destruct (Nat.eqb t 0); reflexivity.
        - destruct (Nat.eqb_spec t 0); cbn; auto.
        - intros _ _. apply (v_idle r Hc t _ Hp); discriminate. }
      split; [exact Hcore|].
      apply (mas_pc r); auto; rewrite (pc0_set_pc r t _ _ Hp);
        destruct (Nat.eqb_spec t 0) as [->|Hne]; rewrite ?Epc; auto; discriminate.
    + (* the increment of parsec_context_start *)
      destruct Hk as [-> Hrun].
      assert (Hcore : RCore (set_pc r 0 TOut)).
      { apply (set_pc_core r 0%nat TInc); auto; try reflexivity. congruence. }
      split; [exact Hcore|].
      apply (mas_pc r); auto; rewrite (pc0_set_pc r 0%nat _ _ Hp); cbn [Nat.eqb]; rewrite ?Epc; auto; discriminate.
    + (* waiting at the end barrier *)
      destruct (Nat.eqb_spec (bgen r) g) as [Eg|Eg]; [split; assumption|].
      assert (Hrun : running r = false).
      { cbn in Hk. destruct (running r); [congruence|reflexivity]. }
      assert (Hcore : RCore (set_pc r t TPassed)).
      { apply (set_pc_core r t (TWaitE g) TPassed Hc Hp).
        - cbn. apply Nat.eqb_neq. lia.
        - reflexivity.
        - cbn. exact Hrun.
        - intros _ _. apply (v_idle r Hc t _ Hp); discriminate. }
      split; [exact Hcore|].
      apply (mas_pc r); auto; rewrite (pc0_set_pc r t _ _ Hp);
        destruct (Nat.eqb_spec t 0) as [->|Hne]; rewrite ?Epc; auto; discriminate.
    + (* released from the end barrier *)
      cbn in Hk.
      destruct (Nat.eqb_spec t 0) as [->|Hne].
      * (* the master leaves *)
        destruct Hm as [Hw Hs Hr Hd Ho].
        assert (Hmi : master (inner r) = MInWait).
        { rewrite Epc in Hw. cbn in Hw. destruct (master (inner r)); try discriminate; reflexivity. }
        assert (Hact : active (inner r) = 0) by (apply Hd; [assumption|rewrite Epc; reflexivity]).
        assert (Hob : ob (inner r) = 0) by (apply all_busy_zero; auto; rewrite Epc; discriminate).
        destruct (leave_effect (inner r) Hmi Hact (ob_zero_quiescent _ Hob)) as (L1 & L2 & L3 & _).
        set (r1 := mkR (step (inner r) MWaitLeave) (pcs r) (busy r) (bgen r) (bcnt r) (running r)).
        assert (Hc1 : RCore r1).
        { destruct Hc as [A B C D E]. constructor; unfold r1; rfields; auto. rewrite L3. exact B. }
        assert (Hcore : RCore (set_pc r1 0 TOut)).
        { apply (set_pc_core r1 0%nat TPassed); auto; try reflexivity. congruence. }
        split; [exact Hcore|].
        constructor; unfold set_pc, r1; rfields; unfold pc_of; rfields; rewrite ?(pc0_after_upd r 0%nat _ _ Hp); cbn [Nat.eqb].
        -- rewrite L1. reflexivity.
        -- discriminate.
        -- rewrite Hk. discriminate.
        -- discriminate.
        -- rewrite L2. discriminate.
      * (* a worker goes back to the start barrier *)
        assert (Hcore : RCore (arrive r t TWaitS TLoop)).
        { apply (arrive_core r t TPassed); auto; cbn; rewrite ?Hk; cbn; auto.
          - apply (v_idle r Hc t _ Hp); discriminate.
          - apply Nat.eqb_refl. }
        split; [exact Hcore|].
        unfold arrive in *. destruct (Nat.eqb_spec (S (bcnt r)) (length (pcs r))) as [Hlast|Hnl].
        -- assert (H0w : exists g0, pc_of r 0 = TWaitS g0).
           { pose proof (others_wait0 r t TPassed Hc Hp eq_refl Hlast Hne) as Hw0.
             assert (H0 : (0 < length (pcs r))%nat) by lia.
             pose proof (v_pc r Hc 0%nat _ (nth_error_of_lt (pcs r) 0%nat TOut H0)) as Hk0. fold (pc_of r 0) in Hk0. rewrite Hk in Hk0.
             destruct (pc_of r 0); cbn in Hw0; try discriminate; [eauto|].
             apply Nat.eqb_eq in Hw0. cbn in Hk0. lia. }
           destruct H0w as (g0 & E0).
           assert (Hst : started (inner r) = true) by (apply (v_start r Hm); rewrite E0; reflexivity).
           destruct Hm as [Hw Hs Hr Hd Ho]. constructor; rfields; unfold pc_of; rfields; rewrite ?(pc0_after_upd r t _ _ Hp);
             rewrite ?(proj2 (Nat.eqb_neq t 0) Hne); fold (pc_of r 0); auto;
             rewrite Hk; cbn [negb]; intros; first [discriminate|reflexivity|assumption].
        -- apply (mas_pc r); auto; unfold pc_of; rfields; rewrite (pc0_after_upd r t _ _ Hp); fold (pc_of r 0);
             rewrite (proj2 (Nat.eqb_neq t 0) Hne); auto.
  - (* ---- an inner event performed by thread t ---- *)
    destruct (Nat.ltb_spec t (length (pcs r))) as [Ht|Ht]; cbn [negb]; [|split; assumption].
    pose proof (nth_error_of_lt (pcs r) t TOut Ht) as Hp. fold (pc_of r t) in Hp.
    pose proof (v_pc r Hc t _ Hp) as Hk.
    destruct (is_worker_event e) eqn:Ew.
    + match goal with |- RInv (if ?c then _ else _) => destruct c eqn:E end; [|split; assumption].
      apply andb_prop in E. destruct E as [Ewh _].
      destruct (worker_event_flags (inner r) e Ew) as [Fm Fs].
      split.
      * apply inner_core; auto. intros p Hp'. rewrite Hp in Hp'. inversion Hp'; subst p.
        destruct (pc_of r t); try discriminate; auto.
      * destruct Hm as [Hw Hs Hr Hd Ho]. constructor; unfold set_inner_busy; rfields; unfold pc_of in *; rfields; rewrite ?Fm, ?Fs; auto.
        intros Hrun Hin. exfalso. fold (pc_of r t) in Ewh, Hk.
        destruct (pc_of r t) eqn:Epc; try discriminate.
        -- apply andb_prop in Ewh. destruct Ewh as [E0 _]. apply Nat.eqb_eq in E0. subst t.
           fold (pc_of r 0) in Hin. rewrite Epc in Hin. discriminate.
        -- cbn in Hk. congruence.
    + destruct (Nat.eqb_spec t 0) as [->|Hne]; [|split; assumption].
      destruct (pc_of r 0) eqn:Epc; try (split; assumption).
      assert (Hnw : in_waitm (master (inner r)) = false) by (rewrite <- (v_wait r Hm), Epc; reflexivity).
      assert (Hgen : forall s', in_waitm (master s') = false -> started s' = started (inner r) ->
                     RInv (set_inner_busy r 0 s')).
      { intros s' Hm' Hs'. split.
        - apply inner_core; auto. intros p Hp'. rewrite Hp in Hp'. inversion Hp'; subst p. auto.
        - destruct Hm as [Hw Hs Hr Hd Ho].
          constructor; unfold set_inner_busy; rfields; unfold pc_of in *; rfields; rewrite ?Epc, ?Hs'; cbn; auto; try discriminate. }
      assert (Hapi : e <> MStart -> e <> MWaitEnter -> e <> MWaitLeave -> RInv (set_inner_busy r 0 (step (inner r) e))).
      { intros H1 H2 H3. destruct (api_event_flags (inner r) e Ew H1 H2 H3 Hnw) as [A B]. apply Hgen; auto. }
      destruct e; try (apply Hapi; discriminate); try discriminate.
      * (* parsec_context_start *)
        destruct (is_idle_m (master (inner r)) && negb (started (inner r)) && (busy_of r 0 =? 0)) eqn:E; [|split; assumption].
        apply andb_prop in E. destruct E as [E E3]. apply andb_prop in E. destruct E as [E1 E2].
        apply Z.eqb_eq in E3. apply negb_true_iff in E2.
        assert (Hmi : master (inner r) = MIdle) by (destruct (master (inner r)); try discriminate; reflexivity).
        assert (Hrun : running r = false).
        { destruct (running r) eqn:Er; [|reflexivity]. rewrite (v_run r Hm Er) in E2. discriminate. }
        set (s' := step (inner r) MStart).
        assert (Es' : s' = add_active (set_started (inner r) true) 1).
        { unfold s'. cbn [step]. rewrite Hmi, E2. reflexivity. }
        assert (Hob : ob s' = ob (inner r)) by (apply ob_pools; rewrite Es'; reflexivity).
        set (r1 := set_inner_busy r 0 s').
        assert (Hc1 : RCore r1) by (apply inner_core; auto).
        assert (Hb1 : busy_of r1 0 = 0).
        { unfold r1, set_inner_busy, busy_of. rfields.
          assert (Hb : nth_error (busy r) 0 = Some (busy_of r 0)).
          { unfold busy_of. apply nth_error_of_lt. destruct (v_len r Hc). lia. }
          rewrite (nth_default_error _ _ _ _ (nth_upd_same _ _ _ _ Hb)). fold (busy_of r 0). lia. }
        assert (Hp1 : nth_error (pcs r1) 0 = Some TOut) by exact Hp.
        assert (Hcore : RCore (arrive r1 0 TWaitS TInc)).
        { apply (arrive_core r1 0%nat TOut); auto; unfold r1, set_inner_busy; rfields; rewrite ?Hrun; cbn; auto. apply Nat.eqb_refl. }
        split; [exact Hcore|].
        unfold arrive in *. destruct (Nat.eqb (S (bcnt r1)) (length (pcs r1)));
          (constructor; unfold r1, set_inner_busy; rfields; unfold pc_of; rfields; rewrite ?(pc0_after_upd r 0%nat _ _ Hp); cbn [Nat.eqb in_ctxwait in_start];
           rewrite ?Es'; cbn [master started active add_active set_started]; rewrite ?Hmi; auto; try discriminate;
           rewrite ?Hrun; cbn [negb]; intros; first [discriminate|reflexivity|assumption]).
      * (* parsec_context_wait, first half *)
        destruct (is_idle_m (master (inner r)) && started (inner r) && (busy_of r 0 =? 0)) eqn:E; [|split; assumption].
        apply andb_prop in E. destruct E as [E E3]. apply andb_prop in E. destruct E as [E1 E2].
        apply Z.eqb_eq in E3.
        assert (Hmi : master (inner r) = MIdle) by (destruct (master (inner r)); try discriminate; reflexivity).
        assert (Hrun : running r = true) by (apply (v_out r Hm Epc E2)).
        set (s' := step (inner r) MWaitEnter).
        assert (Em' : master s' = MInWait /\ started s' = true).
        { unfold s'. cbn [step]. rewrite Hmi, E2. cbn. auto. }
        destruct Em' as [Em' Est'].
        set (r1 := set_inner_busy r 0 s').
        assert (Hc1 : RCore r1).
        { apply inner_core; auto. intros p Hp'. rewrite Hp in Hp'. inversion Hp'; auto. }
        assert (Hp1 : nth_error (pcs r1) 0 = Some TOut) by exact Hp.
        assert (Hcore : RCore (set_pc r1 0 TLoop)).
        { apply (set_pc_core r1 0%nat TOut); auto; try reflexivity. congruence. }
        split; [exact Hcore|].
        constructor; unfold set_pc, r1, set_inner_busy; rfields; unfold pc_of; rfields; rewrite ?(pc0_after_upd r 0%nat _ _ Hp); cbn [Nat.eqb in_ctxwait in_start];
          rewrite ?Em', ?Est'; auto; try discriminate; rewrite ?Hrun; intros; first [discriminate|reflexivity|assumption].
      * (* only RBar 0 performs the second half *)
        split; assumption.
      * (* parsec_taskpool_wait returns *)
        destruct (busy_of r 0 =? 0); [|split; assumption]. apply Hapi; discriminate.
Qed.


Lemma rinit_inv decls n : (1 <= n)%nat -> RInv (rinit decls n).
Proof.
  intros Hn. destruct n as [|m]; [lia|]. unfold rinit. replace (S m - 1)%nat with m by lia. split.
  - constructor; cbn [inner pcs busy bgen bcnt running].
    + cbn [length]. rewrite !repeat_length. split; [reflexivity|lia].
    + rewrite sumZ_repeat0. unfold ob, init. cbn [pools]. induction decls as [|d l IH]; [reflexivity|].
      cbn [map fold_right]. rewrite <- IH. destruct d; cbn; [|reflexivity].
      unfold p_ob. cbn. rewrite cnt_repeat. reflexivity.
    + intros t p Hp _ _. unfold busy_of. cbn [busy].
      destruct (Nat.lt_ge_cases t (S m)) as [H|H].
      * rewrite (nth_default_error _ _ 0 0); [reflexivity|]. rewrite (nth_error_of_lt _ t 0) by (rewrite repeat_length; lia).
        f_equal. apply nth_repeat.
      * apply nth_overflow. rewrite repeat_length. lia.
    + intros [|t] p Hp; cbn in Hp.
      * inversion Hp. reflexivity.
      * apply nth_repeat_inv in Hp. subst p. reflexivity.
    + split; [|cbn [length]; rewrite repeat_length; lia].
      rewrite cnt_cons, cnt_repeat. cbn. lia.
  - constructor; cbn; auto; try discriminate.
Qed.

Lemma rrun_inv decls n evs : (1 <= n)%nat -> RInv (rrun decls n evs).
Proof.
  intros Hn. unfold rrun. apply fold_left_inv; [intros; apply rstep_inv; assumption|apply rinit_inv; assumption].
Qed.

(* every refined run projects to a run of the context model *)
Lemma rstep_inner r ev : inner (rstep r ev) = inner r \/ exists e, inner (rstep r ev) = step (inner r) e.
Proof.
  destruct ev as [t|t e]; cbn [rstep].
  - destruct (Nat.ltb t (length (pcs r))); auto.
    destruct (pc_of r t); auto.
    + destruct (_ && _); auto. unfold arrive. destruct (Nat.eqb _ _); auto.
    + destruct (Nat.eqb _ _); auto.
    + destruct (Nat.eqb _ _); auto.
    + destruct (Nat.eqb t 0); [right; exists MWaitLeave; reflexivity|]. unfold arrive. destruct (Nat.eqb _ _); auto.
  - destruct (negb _); auto. destruct (is_worker_event e).
    + destruct (_ && _); [right; exists e; reflexivity|auto].
    + destruct (Nat.eqb t 0); auto. destruct (pc_of r 0); auto.
      destruct e; try (right; eexists; reflexivity); auto.
      * destruct (_ && _ && _); auto. right. exists MStart. unfold arrive. destruct (Nat.eqb _ _); reflexivity.
      * destruct (_ && _ && _); auto. right. exists MWaitEnter. reflexivity.
      * destruct (_ =? _); auto. right. eexists. reflexivity.
Qed.

Lemma rrun_projects decls n evs : exists evs', inner (rrun decls n evs) = run decls evs'.
Proof.
  unfold rrun. assert (G : forall evs r l, inner r = run decls l -> exists l', inner (fold_left rstep evs r) = run decls l').
  { induction evs0 as [|ev evs0 IH]; intros r l Hr; [exists l; exact Hr|]. cbn [fold_left].
    destruct (rstep_inner r ev) as [E|[e E]].
    - apply (IH _ l). rewrite E. exact Hr.
    - apply (IH _ (l ++ [e])). rewrite E, Hr. unfold run. rewrite fold_left_app. reflexivity. }
  apply (G evs (rinit decls n) []). reflexivity.
Qed.

(* THE POINT: whenever the master has been released from the final barrier of __parsec_context_wait —
   under any interleaving of any number of threads — the condition that CtxWaitDefs assumes for
   MWaitLeave holds *)
Theorem P_master_passes_only_when_done decls n evs : (1 <= n)%nat ->
  let r := rrun decls n evs in
  pc_of r 0 = TPassed ->
  master (inner r) = MInWait /\ active (inner r) = 0 /\ quiescent (inner r) = true /\
  (forall t, t <> 0%nat -> pc_of r t <> TLoop).
Proof.
  intros Hn r Hp. destruct (rrun_inv decls n evs Hn) as [Hc Hm]. fold r in Hc, Hm.
  assert (H0 : (0 < length (pcs r))%nat) by (destruct (v_len r Hc); lia).
  pose proof (v_pc r Hc 0%nat _ (nth_error_of_lt (pcs r) 0%nat TOut H0)) as Hk. fold (pc_of r 0) in Hk. rewrite Hp in Hk. cbn in Hk.
  split; [|split; [|split]].
  - pose proof (v_wait r Hm) as Hw. rewrite Hp in Hw. cbn in Hw. destruct (master (inner r)); try discriminate; reflexivity.
  - apply (v_done r Hm Hk). rewrite Hp. reflexivity.
  - apply ob_zero_quiescent. apply all_busy_zero; auto. rewrite Hp. discriminate.
  - intros t Ht E. destruct (Nat.lt_ge_cases t (length (pcs r))) as [Hl|Hl].
    + pose proof (v_pc r Hc t _ (nth_error_of_lt (pcs r) t TOut Hl)) as Hkt. fold (pc_of r t) in Hkt. rewrite E in Hkt. cbn in Hkt. congruence.
    + unfold pc_of in E. rewrite nth_overflow in E by assumption. discriminate.
Qed.

(* and the master's next step is the return: the epoch counter advances *)
Theorem P_master_returns decls n evs : (1 <= n)%nat ->
  let r := rrun decls n evs in
  pc_of r 0 = TPassed ->
  pc_of (rstep r (RBar 0)) 0 = TOut /\ inner (rstep r (RBar 0)) = step (inner r) MWaitLeave /\
  epoch (step (inner r) MWaitLeave) = S (epoch (inner r)).
Proof.
  intros Hn r Hp. destruct (P_master_passes_only_when_done decls n evs Hn Hp) as (A & B & C & _). fold r in A, B, C.
  destruct (rrun_inv decls n evs Hn) as [Hc Hm]. fold r in Hc.
  assert (H0 : (0 < length (pcs r))%nat) by (destruct (v_len r Hc); lia).
  cbn [rstep]. destruct (Nat.ltb_spec 0 (length (pcs r))); [|lia]. rewrite Hp. cbn [Nat.eqb].
  split; [|split].
  - unfold set_pc, pc_of. cbn [pcs]. apply nth_default_error. apply (nth_upd_same _ _ TPassed).
    rewrite <- Hp. apply (nth_error_of_lt (pcs r) 0%nat TOut H0).
  - reflexivity.
  - apply leave_effective. auto.
Qed.

(* no thread is left behind a barrier: the counter is exactly the number of threads waiting in the
   current generation and never reaches the number of threads; a thread waiting in an older generation
   passes at its next step *)
Theorem P_barrier_accounting decls n evs : (1 <= n)%nat ->
  let r := rrun decls n evs in
  Z.of_nat (bcnt r) = cnt (wcur (bgen r)) (pcs r) /\ (bcnt r < length (pcs r))%nat.
Proof. intros Hn r. destruct (rrun_inv decls n evs Hn) as [Hc _]. exact (v_cnt _ Hc). Qed.

Theorem P_stale_waiter_passes r t g : (t < length (pcs r))%nat -> g <> bgen r ->
  (pc_of r t = TWaitE g -> pc_of (rstep r (RBar t)) t = TPassed) /\
  (pc_of r t = TWaitS g -> pc_of (rstep r (RBar t)) t = if Nat.eqb t 0 then TInc else TLoop).
Proof.
  intros Ht Hg. pose proof (nth_error_of_lt (pcs r) t TOut Ht) as Hp.
  split; intros E; cbn [rstep]; destruct (Nat.ltb_spec t (length (pcs r))); try lia; rewrite E;
    destruct (Nat.eqb_spec (bgen r) g); try congruence; unfold set_pc, pc_of; cbn [pcs];
    apply nth_default_error; apply (nth_upd_same _ _ _ _ Hp).
Qed.

(* ---- the statements of C06 for the refined (per-thread) model ------------------------------------ *)
Lemma project (P : state -> Prop) decls n evs : (forall evs', P (run decls evs')) -> P (inner (rrun decls n evs)).
Proof. intros H. destruct (rrun_projects decls n evs) as (l & ->). apply H. Qed.

Theorem R_context_wait_returns_when_done decls n evs : (1 <= n)%nat ->
  let r := rrun decls n evs in
  pc_of r 0 = TPassed ->
  forall q p, nth_error (pools (inner r)) q = Some p -> k_added p = true ->
    k_st p = STerminated /\ all_done p = true /\ norun (k_tasks p) /\ (k_dtd p = false -> k_cb p = 1%nat).
Proof.
  intros Hn r Hp. destruct (P_master_passes_only_when_done decls n evs Hn Hp) as (A & B & C & _). fold r in A, B, C.
  assert (He : epoch (step (inner r) MWaitLeave) = S (epoch (inner r))) by (apply leave_effective; auto).
  revert He. unfold r. destruct (rrun_projects decls n evs) as (l & ->). apply (P_wait_returns_settled decls l).
Qed.

Theorem R_epochs_independent decls n evs : (1 <= n)%nat ->
  let r := rrun decls n evs in
  pc_of r 0 = TPassed ->
  fresh_like (inner (rstep r (RBar 0))) /\ pc_of (rstep r (RBar 0)) 0 = TOut /\
  (forall t, t <> 0%nat -> pc_of (rstep r (RBar 0)) t <> TLoop).
Proof.
  intros Hn r Hp. destruct (P_master_returns decls n evs Hn Hp) as (A & B & C). fold r in A, B, C.
  destruct (P_master_passes_only_when_done decls n evs Hn Hp) as (_ & _ & _ & D). fold r in D.
  split; [|split; [exact A|]].
  - rewrite B. revert C. unfold r. destruct (rrun_projects decls n evs) as (l & ->). apply (P_epoch_reset decls l).
  - intros t Ht. cbn [rstep]. destruct (Nat.ltb 0 (length (pcs r))) eqn:E0; [|apply D; assumption].
    rewrite Hp. cbn [Nat.eqb]. unfold set_pc, pc_of. cbn [pcs].
    assert (H0 : nth_error (pcs r) 0 = Some TPassed).
    { rewrite <- Hp. apply nth_error_of_lt. apply Nat.ltb_lt. exact E0. }
    rewrite (pc_of_upd r 0%nat t _ _ H0). destruct (Nat.eqb_spec t 0); [contradiction|]. apply D. assumption.
Qed.

Theorem R_taskpool_wait decls n evs q : (1 <= n)%nat ->
  let r := rrun decls n evs in
  master (inner r) = MInTp q -> master (inner (rstep r (RIn 0 (MTpLeave q)))) = MIdle ->
  exists p, nth_error (pools (inner r)) q = Some p /\ k_st p = STerminated /\ all_done p = true /\ norun (k_tasks p) /\
            (k_dtd p = false -> k_cb p = 1%nat).
Proof.
  intros Hn r Hm Hl.
  assert (Hs : master (step (inner r) (MTpLeave q)) = MIdle).
  { destruct (rstep_inner r (RIn 0 (MTpLeave q))) as [E|[e E]].
    - rewrite E, Hm in Hl. discriminate.
    - revert Hl E. cbn [rstep]. destruct (negb _); [intros Hl; rewrite Hm in Hl; discriminate|]. cbn [is_worker_event Nat.eqb].
      destruct (pc_of r 0); try (intros Hl; rewrite Hm in Hl; discriminate).
      destruct (busy_of r 0 =? 0); [|intros Hl; rewrite Hm in Hl; discriminate]. unfold set_inner_busy. cbn [inner]. auto. }
  revert Hm Hs. unfold r. destruct (rrun_projects decls n evs) as (l & ->). apply (P_taskpool_wait decls l q).
Qed.


(* ---- liveness: once the work is done, the master is released ------------------------------------ *)
Definition is_waitS (p : tpc) : bool := match p with TWaitS _ => true | _ => false end.
Definition is_loop (p : tpc) : bool := match p with TLoop => true | _ => false end.
Definition phi (r : rstate) : Z := 2 * cnt is_waitS (pcs r) + cnt is_loop (pcs r).

(* all the work given to the context is done and every thread is outside tasks *)
Definition work_done (r : rstate) : Prop :=
  running r = true /\ in_ctxwait (pc_of r 0) = true /\ active (inner r) = 0 /\ (forall t, busy_of r t = 0).

Lemma phi_nonneg r : 0 <= phi r.
Proof. unfold phi. pose proof (cnt_nonneg is_waitS (pcs r)). pose proof (cnt_nonneg is_loop (pcs r)). lia. Qed.

Lemma live_step r : RInv r -> work_done r ->
  exists t, let r' := rstep r (RBar t) in
    (work_done r' /\ phi r' < phi r) \/ (running r' = false /\ in_ctxwait (pc_of r' 0) = true).
Proof.
  intros [Hc Hm] (Hrun & Hin & Hact & Hbusy).
  destruct (v_cnt r Hc) as [Hcnt Hlt].
  destruct (exists_false (wcur (bgen r)) (pcs r)) as (t & p & Hp & Hw); [lia|].
  assert (Ht : (t < length (pcs r))%nat) by (apply nth_error_Some; congruence).
  pose proof (v_pc r Hc t p Hp) as Hk. rewrite Hrun in Hk.
  assert (Hpc : pc_of r t = p) by (apply pc_of_nth; exact Hp).
  assert (H0 : (0 < length (pcs r))%nat) by lia.
  assert (Hseen : seen_active r = 0).
  { unfold seen_active. rewrite Hact. destruct (pc_of r 0); try discriminate; reflexivity. }
  exists t. cbn [rstep]. destruct (Nat.ltb_spec t (length (pcs r))); [|lia]. rewrite Hpc.
  destruct p as [| |g| |g|]; cbn in Hk, Hw.
  - subst t. rewrite Hpc in Hin. discriminate.
  - (* loop test: arrives *)
    rewrite Hbusy, Hseen. cbn [Z.eqb andb]. unfold arrive.
    destruct (Nat.eqb_spec (S (bcnt r)) (length (pcs r))) as [Hl|Hl].
    + right. cbn [running pcs]. rewrite Hrun. split; [reflexivity|].
      unfold pc_of. cbn [pcs]. rewrite (pc0_after_upd r t _ _ Hp). destruct (Nat.eqb t 0); [reflexivity|exact Hin].
    + left. split.
      * split; [exact Hrun|]. split; [|split; [exact Hact|exact Hbusy]].
        unfold pc_of. cbn [pcs]. rewrite (pc0_after_upd r t _ _ Hp). destruct (Nat.eqb t 0); [reflexivity|exact Hin].
      * unfold phi. cbn [pcs]. rewrite !(cnt_upd _ _ _ _ _ Hp). cbn [is_waitS is_loop]. lia.
  - (* released from the start barrier: enters the loop *)
    destruct (Nat.eqb_spec (bgen r) g) as [E|E]; [lia|].
    assert (Hne : t <> 0%nat). { intros ->. rewrite Hpc in Hin. discriminate. }
    rewrite (proj2 (Nat.eqb_neq t 0) Hne). left. split.
    + split; [exact Hrun|]. split; [|split; [exact Hact|exact Hbusy]].
      rewrite (pc0_set_pc r t _ _ Hp), (proj2 (Nat.eqb_neq t 0) Hne). exact Hin.
    + unfold phi, set_pc. cbn [pcs]. rewrite !(cnt_upd _ _ _ _ _ Hp). cbn [is_waitS is_loop]. lia.
  - destruct Hk as [-> _]. rewrite Hpc in Hin. discriminate.
  - apply Nat.eqb_neq in Hw. congruence.
  - discriminate.
Qed.

Lemma fold_RInv evs r : RInv r -> RInv (fold_left rstep evs r).
Proof. apply fold_left_inv. intros; apply rstep_inv; assumption. Qed.

Lemma live_to_end k : forall r, RInv r -> work_done r -> phi r <= Z.of_nat k ->
  exists sched, let r' := fold_left rstep sched r in running r' = false /\ in_ctxwait (pc_of r' 0) = true.
Proof.
  induction k as [|k IH]; intros r Hi Hd Hphi.
  - destruct (live_step r Hi Hd) as (t & [[Hd' Hlt]|Hend]).
    + pose proof (phi_nonneg (rstep r (RBar t))). lia.
    + exists [RBar t]. exact Hend.
  - destruct (live_step r Hi Hd) as (t & [[Hd' Hlt]|Hend]).
    + destruct (IH (rstep r (RBar t)) (rstep_inv r _ Hi) Hd') as (sched & Hs); [lia|].
      exists (RBar t :: sched). exact Hs.
    + exists [RBar t]. exact Hend.
Qed.

(* from every reachable state in which the master is inside parsec_context_wait, the work is done and
   the threads are outside tasks, there is a schedule (of barrier steps only) after which the master
   has been released from the final barrier — nobody is left behind *)
Theorem P_master_is_released decls n evs : (1 <= n)%nat ->
  let r := rrun decls n evs in
  work_done r -> exists sched, pc_of (fold_left rstep sched r) 0 = TPassed.
Proof.
  intros Hn r Hd. pose proof (rrun_inv decls n evs Hn) as Hi. fold r in Hi.
  destruct (live_to_end (Z.to_nat (phi r)) r Hi Hd) as (sched & Hrun & Hin).
  { pose proof (phi_nonneg r). lia. }
  set (r1 := fold_left rstep sched r) in *.
  assert (Hi1 : RInv r1) by (apply fold_RInv; exact Hi).
  destruct Hi1 as [Hc1 Hm1].
  assert (H0 : (0 < length (pcs r1))%nat) by (destruct (v_len r1 Hc1); lia).
  pose proof (nth_error_of_lt (pcs r1) 0%nat TOut H0) as Hp0. fold (pc_of r1 0) in Hp0.
  pose proof (v_pc r1 Hc1 0%nat _ Hp0) as Hk. rewrite Hrun in Hk.
  destruct (pc_of r1 0) as [| |g| |g|] eqn:E; try discriminate.
  - exists (sched ++ [RBar 0]). rewrite fold_left_app. fold r1. cbn [fold_left].
    cbn in Hk. apply (proj1 (P_stale_waiter_passes r1 0%nat g H0 ltac:(lia))). exact E.
  - exists sched. exact E.
Qed.

Theorem R_callback_once decls n evs q p :
  nth_error (pools (inner (rrun decls n evs))) q = Some p ->
  (in_term (k_st p) = true -> all_done p = true /\ norun (k_tasks p)) /\
  (k_dtd p = false -> k_cb p = if in_term (k_st p) then 1%nat else 0%nat).
Proof. destruct (rrun_projects decls n evs) as (l & ->). apply P_detected_means_done. Qed.

Theorem R_test_true decls n evs :
  let s := inner (rrun decls n evs) in
  active s = 0 -> forall q p, nth_error (pools s) q = Some p -> k_added p = true ->
  in_term (k_st p) = true /\ k_st p <> STermCb /\ all_done p = true.
Proof. cbv zeta. destruct (rrun_projects decls n evs) as (l & ->). apply (P_test_true decls l). Qed.
