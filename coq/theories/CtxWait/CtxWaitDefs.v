(* C06 — executable model of the context's wait / completion protocol.  NO proofs here.

   parsec/scheduling.c: parsec_context_add_taskpool, parsec_context_start, parsec_context_test,
   parsec_context_wait / __parsec_context_wait (enter_wait, work loop, leave_wait),
   parsec_taskpool_wait / __parsec_taskpool_wait, parsec_taskpool_termination_detected;
   parsec/mca/termdet/local: ready / addto_nb_tasks / addto_runtime_actions / termination;
   parsec/interfaces/dtd/insert_function.c: parsec_dtd_taskpool_enter_wait (taskpool_ready),
   parsec_dtd_taskpool_leave_wait (detector re-armed, active_taskpools++), the destructor
   (parsec_taskpool_termination_detected called once more).

   State: the context (CONTEXT_ACTIVE and WAITING flags, active_taskpools, what the master
   thread is doing), and any number of taskpools.  A PTG taskpool is what termination
   detection sees of a generated one: a startup task (one pending action taken by the
   constructor) that counts the tasks, declares the detector ready and makes the tasks
   available, then `size` tasks.  A DTD taskpool receives its tasks one by one from the
   master thread; its detector stays NOT_READY until a wait is entered.

   Events (an event that is not enabled is a no-op, so every interleaving of the master
   thread, any number of workers, task bodies and callbacks is a list of events):
     master, only between two API calls:
       MStart            parsec_context_start
       MAdd q            parsec_context_add_taskpool(ctx, q)
       MInsert q         parsec_dtd_insert_task(q, ...)                 (DTD)
       MTest             parsec_context_test
       MFree q           parsec_taskpool_free(q)                        (DTD, between waits)
       MWaitEnter        parsec_context_wait up to the work loop
       MWaitLeave        ... the master leaves the loop, passes the barrier, leave_wait, returns
       MTpEnter q        parsec_taskpool_wait(q) up to its loop
       MTpLeave q        ... sees TERMINATED, on_leave_wait, returns
     any thread that executes tasks (workers; the master inside a wait):
       WStartup q / WStartupDone q    the startup task of a PTG taskpool runs / is released
       WBegin q i / WEnd q i          a task body starts / ends and the task is released
       WCbDone q                      the thread that detected q's termination returns from on_complete
                                      and decrements active_taskpools
       WFin q                         ... and stores TERMINATED
     code run inside a task body or a completion callback:
       TAdd p i q        the running task i of p calls parsec_context_add_taskpool(ctx, q)
       CAdd p q          the on_complete of p (running) calls parsec_context_add_taskpool(ctx, q)

   Abstraction of the worker choreography (why the level is "partial"): the barriers of
   __parsec_context_wait are not modelled thread by thread.  What they guarantee is kept as
   the enabling condition of MWaitLeave: the master passes the final barrier only when
   every thread has left the work loop, i.e. at an instant where active_taskpools = 0 and
   no thread is inside a task, a startup task, or a termination callback ([quiescent]).
   Each detector operation is one atomic step (C10).  Not modelled: the list lock, the
   communication engine, inserting DTD tasks from task bodies, parsec_taskpool_test. *)
From Coq Require Import ZArith List Bool Arith.
From PV Require Import Base.ListX.
Import ListNotations.
Local Open Scope Z_scope.

Inductive tst := TIdle | TRun | TDone.
(* tdm.monitor, with TERMINATING split at the decrement of active_taskpools *)
Inductive pst := SNotReady | SBusy | STermCb | STermDec | STerminated.
Inductive mpc := MIdle | MInWait | MInTp (q : nat).

Definition is_done t := match t with TDone => true | _ => false end.
Definition is_run t := match t with TRun => true | _ => false end.
Definition is_busy s := match s with SBusy => true | _ => false end.
Definition is_notready s := match s with SNotReady => true | _ => false end.
Definition is_terminated s := match s with STerminated => true | _ => false end.
Definition in_cb s := match s with STermCb | STermDec => true | _ => false end.

Record pool := mkPool {
  k_dtd : bool;              (* DTD taskpool (PTG otherwise) *)
  k_tasks : list tst;        (* PTG: its tasks; DTD: the tasks inserted so far *)
  k_nt : Z;                  (* nb_tasks *)
  k_pa : Z;                  (* nb_pending_actions *)
  k_st : pst;                (* termination detector *)
  k_su : nat;                (* PTG startup task: 0 not scheduled, 1 scheduled, 2 ran, 3 released *)
  k_added : bool;            (* given to parsec_context_add_taskpool *)
  k_att : bool;              (* in context->taskpool_list *)
  k_cb : nat                 (* number of on_complete calls *)
}.

Record state := mkState {
  pools : list pool;
  started : bool;            (* PARSEC_CONTEXT_FLAG_CONTEXT_ACTIVE *)
  waiting : bool;            (* PARSEC_CONTEXT_FLAG_WAITING *)
  active : Z;                (* context->active_taskpools *)
  master : mpc;
  epoch : nat;               (* completed parsec_context_wait calls *)
  obs : list bool            (* results of parsec_context_test, most recent first *)
}.

Definition set_pools s v := mkState v (started s) (waiting s) (active s) (master s) (epoch s) (obs s).
Definition set_started s v := mkState (pools s) v (waiting s) (active s) (master s) (epoch s) (obs s).
Definition set_waiting s v := mkState (pools s) (started s) v (active s) (master s) (epoch s) (obs s).
Definition add_active s d := mkState (pools s) (started s) (waiting s) (active s + d) (master s) (epoch s) (obs s).
Definition set_master s v := mkState (pools s) (started s) (waiting s) (active s) v (epoch s) (obs s).
Definition set_epoch s v := mkState (pools s) (started s) (waiting s) (active s) (master s) v (obs s).
Definition add_obs s b := mkState (pools s) (started s) (waiting s) (active s) (master s) (epoch s) (b :: obs s).

Definition pset_tasks p v := mkPool (k_dtd p) v (k_nt p) (k_pa p) (k_st p) (k_su p) (k_added p) (k_att p) (k_cb p).
Definition pset_nt p v := mkPool (k_dtd p) (k_tasks p) v (k_pa p) (k_st p) (k_su p) (k_added p) (k_att p) (k_cb p).
Definition pset_pa p v := mkPool (k_dtd p) (k_tasks p) (k_nt p) v (k_st p) (k_su p) (k_added p) (k_att p) (k_cb p).
Definition pset_st p v := mkPool (k_dtd p) (k_tasks p) (k_nt p) (k_pa p) v (k_su p) (k_added p) (k_att p) (k_cb p).
Definition pset_su p v := mkPool (k_dtd p) (k_tasks p) (k_nt p) (k_pa p) (k_st p) v (k_added p) (k_att p) (k_cb p).
Definition pset_att p a t := mkPool (k_dtd p) (k_tasks p) (k_nt p) (k_pa p) (k_st p) (k_su p) a t (k_cb p).
Definition pset_cb p v := mkPool (k_dtd p) (k_tasks p) (k_nt p) (k_pa p) (k_st p) (k_su p) (k_added p) (k_att p) v.

(* ---- operations on one taskpool (pure functions pool -> pool) --------------------------- *)

(* "monitor == BUSY && nbpa == 0": CAS BUSY -> TERMINATING, the callback starts *)
Definition p_check (p : pool) : pool :=
  if is_busy (k_st p) && (k_pa p =? 0) then pset_cb (pset_st p STermCb) (S (k_cb p)) else p.
(* taskpool_addto_runtime_actions(-1) *)
Definition p_dec_pa (p : pool) : pool := p_check (pset_pa p (k_pa p - 1)).
(* taskpool_addto_nb_tasks(-1) *)
Definition p_dec_nt (p : pool) : pool :=
  let q := pset_nt p (k_nt p - 1) in
  if (0 <? k_nt p) && (k_nt p - 1 =? 0) then p_dec_pa q else q.
(* taskpool_addto_nb_tasks(+v) *)
Definition p_add_nt (p : pool) (v : Z) : pool :=
  let q := pset_nt p (k_nt p + v) in
  if (k_nt p =? 0) && (0 <? v) then pset_pa q (k_pa p + 1) else q.
(* taskpool_ready: NOT_READY -> BUSY, then the check *)
Definition p_ready (p : pool) : pool :=
  if is_notready (k_st p) then p_check (pset_st p SBusy) else p.
(* parsec_dtd_taskpool_leave_wait: unmonitor, monitor, set_nb_tasks(0), set_runtime_actions(0) *)
Definition p_rearm (p : pool) : pool := pset_pa (pset_nt (pset_st p SNotReady) 0) 0.

(* does the taskpool count in active_taskpools ? *)
Definition counted (p : pool) : bool :=
  k_added p && match k_st p with SNotReady | SBusy | STermCb => true | _ => false end.

(* a thread is inside a task, a startup task or a termination callback of this taskpool *)
Definition p_quiet (p : pool) : bool :=
  negb (existsb is_run (k_tasks p)) && negb (Nat.eqb (k_su p) 2) && negb (in_cb (k_st p)).

Definition all_done (p : pool) : bool := forallb is_done (k_tasks p).

(* ---- the context ------------------------------------------------------------------------- *)
Definition on_pool (q : nat) (f : pool -> pool) (s : state) : state :=
  match nth_error (pools s) q with
  | Some p => set_pools s (upd (pools s) q (f p))
  | None => s
  end.

Definition quiescent (s : state) : bool := forallb p_quiet (pools s).

(* parsec_context_add_taskpool(ctx, q) by any thread *)
Definition add_taskpool (q : nat) (s : state) : state :=
  match nth_error (pools s) q with
  | Some p =>
      if k_added p then s else      (* a taskpool is given to the context once *)
      let s1 := add_active s 1 in
      if k_dtd p then
        (* on_enqueue; list push; "if WAITING" on_enter_wait = taskpool_ready *)
        on_pool q (fun p => let p1 := pset_att p true true in if waiting s then p_ready p1 else p1) s1
      else
        (* list push; startup hook: the startup task is scheduled *)
        on_pool q (fun p => pset_su (pset_att p true true) 1) s1
  | None => s
  end.

Inductive event :=
| MStart | MAdd (q : nat) | MInsert (q : nat) | MTest | MFree (q : nat)
| MWaitEnter | MWaitLeave | MTpEnter (q : nat) | MTpLeave (q : nat)
| WStartup (q : nat) | WStartupDone (q : nat) | WBegin (q i : nat) | WEnd (q i : nat)
| WCbDone (q : nat) | WFin (q : nat)
| TAdd (p i q : nat) | CAdd (p q : nat).

Definition is_idle_m m := match m with MIdle => true | _ => false end.
Definition pool_at (s : state) (q : nat) : option pool := nth_error (pools s) q.
Definition task_at (s : state) (q i : nat) : option tst :=
  match pool_at s q with Some p => nth_error (k_tasks p) i | None => None end.

(* on_enter_wait / on_leave_wait of every taskpool of the list (only DTD taskpools have them) *)
Definition enter_all (l : list pool) : list pool :=
  map (fun p => if k_att p && k_dtd p then p_ready p else p) l.
Definition rearm_all (l : list pool) : list pool :=
  map (fun p => if k_att p && k_dtd p then p_rearm p else p) l.
Definition count_dtd_att (l : list pool) : Z := cnt (fun p => k_att p && k_dtd p) l.

Definition step (s : state) (e : event) : state :=
  match e with
  | MStart =>
      if is_idle_m (master s) && negb (started s) then add_active (set_started s true) 1 else s
  | MAdd q => if is_idle_m (master s) then add_taskpool q s else s
  | MInsert q =>
      match pool_at s q with
      | Some p =>
          if is_idle_m (master s) && k_dtd p && k_att p && is_notready (k_st p)
          then on_pool q (fun p => p_add_nt (pset_tasks p (k_tasks p ++ [TIdle])) 1) s else s
      | None => s
      end
  | MTest => if is_idle_m (master s) then add_obs s (active s =? 0) else s
  | MFree q =>
      match pool_at s q with
      | Some p =>
          (* the destructor: unmonitor, parsec_taskpool_termination_detected (on_complete, active--),
             parsec_context_remove_taskpool *)
          if is_idle_m (master s) && k_dtd p && k_att p && is_notready (k_st p) && (k_nt p =? 0) && (k_pa p =? 0)
          then add_active (on_pool q (fun p => pset_att (pset_cb (pset_st p STerminated) (S (k_cb p))) true false) s) (-1)
          else s
      | None => s
      end
  | MWaitEnter =>
      (* flag test; active_taskpools-- (the start token); enter_wait; WAITING *)
      if is_idle_m (master s) && started s
      then set_master (set_waiting (set_pools (add_active s (-1)) (enter_all (pools s))) true) MInWait
      else s
  | MWaitLeave =>
      match master s with
      | MInWait =>
          if (active s =? 0) && quiescent s
          then (* leave_wait: DTD taskpools re-armed and counted again; flags cleared *)
            set_epoch (set_master (set_started (set_waiting
              (add_active (set_pools s (rearm_all (pools s))) (count_dtd_att (pools s))) false) false) MIdle)
              (S (epoch s))
          else s
      | _ => s
      end
  | MTpEnter q =>
      match pool_at s q with
      | Some p =>
          if is_idle_m (master s) && started s && k_added p
          then set_master (on_pool q (fun p => if k_dtd p then p_ready p else p) s) (MInTp q)
          else s
      | None => s
      end
  | MTpLeave q =>
      match master s, pool_at s q with
      | MInTp q', Some p =>
          if Nat.eqb q q' && is_terminated (k_st p)
          then set_master (if k_dtd p then add_active (on_pool q p_rearm s) 1 else s) MIdle
          else s
      | _, _ => s
      end
  | WStartup q =>
      match pool_at s q with
      | Some p =>
          if started s && negb (k_dtd p) && Nat.eqb (k_su p) 1
          then on_pool q (fun p => p_ready (pset_su (p_add_nt p (Z.of_nat (length (k_tasks p)))) 2)) s
          else s
      | None => s
      end
  | WStartupDone q =>
      match pool_at s q with
      | Some p => if Nat.eqb (k_su p) 2 then on_pool q (fun p => p_dec_pa (pset_su p 3)) s else s
      | None => s
      end
  | WBegin q i =>
      match pool_at s q, task_at s q i with
      | Some p, Some TIdle =>
          if started s && k_added p && (k_dtd p || Nat.leb 2 (k_su p))
          then on_pool q (fun p => pset_tasks p (upd (k_tasks p) i TRun)) s else s
      | _, _ => s
      end
  | WEnd q i =>
      match task_at s q i with
      | Some TRun => on_pool q (fun p => p_dec_nt (pset_tasks p (upd (k_tasks p) i TDone))) s
      | _ => s
      end
  | WCbDone q =>
      match pool_at s q with
      | Some p => match k_st p with
                  | STermCb => add_active (on_pool q (fun p => pset_st p STermDec) s) (-1)
                  | _ => s
                  end
      | None => s
      end
  | WFin q =>
      match pool_at s q with
      | Some p => match k_st p with
                  | STermDec => on_pool q (fun p => pset_st p STerminated) s
                  | _ => s
                  end
      | None => s
      end
  | TAdd p i q =>
      match task_at s p i with
      | Some TRun => add_taskpool q s
      | _ => s
      end
  | CAdd p q =>
      match pool_at s p with
      | Some pp => match k_st pp with STermCb => add_taskpool q s | _ => s end
      | None => s
      end
  end.

(* a program declares its taskpools: PTG of a given size, or DTD *)
Inductive pdecl := DPtg (size : nat) | DDtd.
Definition new_pool (d : pdecl) : pool :=
  match d with
  | DPtg n => mkPool false (repeat TIdle n) 0 1 SNotReady 0 false false 0
  | DDtd => mkPool true [] 0 0 SNotReady 0 false false 0
  end.

Definition init (decls : list pdecl) : state :=
  mkState (map new_pool decls) false false 0 MIdle 0 [].

Definition run (decls : list pdecl) (evs : list event) : state := fold_left step evs (init decls).

(* ---- observations --------------------------------------------------------------------- *)
Local Open Scope nat_scope.
Definition ran (s : state) : list nat := map (fun p => length (filter is_done (k_tasks p))) (pools s).
Definition cbs (s : state) : list nat := map k_cb (pools s).
(* what must hold when a context wait returns: every taskpool given to the context terminated,
   all its tasks done, nothing running *)
Definition pool_settled (p : pool) : bool :=
  negb (k_added p) || (all_done p && p_quiet p && (is_terminated (k_st p) || (k_dtd p && is_notready (k_st p) && k_att p))).
Definition settled (s : state) : bool := forallb pool_settled (pools s).
