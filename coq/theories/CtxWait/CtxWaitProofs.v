(* C06 — invariant of the context model (CtxWaitDefs.v) and the statements derived from it.
   [pool_ok]: what holds of every taskpool's detector after every event list;
   [Inv]: active_taskpools = start token + number of taskpools given to the context whose
   termination callback has not returned yet. *)
From PV Require Import Base.Tac Base.ListX CtxWait.CtxWaitDefs.
Local Open Scope Z_scope.

Definition notdone (ts : list tst) : Z := cnt (fun t => negb (is_done t)) ts.
Definition in_term (s : pst) : bool := match s with STermCb | STermDec | STerminated => true | _ => false end.
Definition norun (ts : list tst) : Prop := forall i, nth_error ts i <> Some TRun.

Lemma notdone_nonneg ts : 0 <= notdone ts. Proof. apply cnt_nonneg. Qed.
Lemma notdone_app ts t : notdone (ts ++ [t]) = notdone ts + (if is_done t then 0 else 1).
Proof. unfold notdone. rewrite cnt_app, cnt_cons, cnt_nil. destruct (is_done t); cbn; lia. Qed.
Lemma notdone_upd ts i a b : nth_error ts i = Some a ->
  notdone (upd ts i b) = notdone ts - (if is_done a then 0 else 1) + (if is_done b then 0 else 1).
Proof. intros H. unfold notdone. rewrite (cnt_upd _ _ _ _ _ H). cbv beta. destruct (is_done a), (is_done b); cbn [negb]; lia. Qed.
Lemma notdone_pos ts i a : nth_error ts i = Some a -> is_done a = false -> 0 < notdone ts.
Proof. intros H Ha. unfold notdone. apply (cnt_pos_of_nth _ _ _ _ H). now rewrite Ha. Qed.
Lemma notdone_repeat_idle n : notdone (repeat TIdle n) = Z.of_nat n.
Proof. unfold notdone. rewrite cnt_repeat. reflexivity. Qed.
Lemma notdone_zero_all ts : notdone ts = 0 -> forallb is_done ts = true.
Proof.
  induction ts as [|t ts IH]; intros H; [reflexivity|].
  unfold notdone in *. rewrite cnt_cons in H. pose proof (cnt_nonneg (fun t => negb (is_done t)) ts).
  destruct t; cbn [is_done negb] in H; try lia. cbn. apply IH. lia.
Qed.
Lemma all_done_norun ts : forallb is_done ts = true -> norun ts.
Proof.
  intros H i Hi. rewrite forallb_forall in H. apply nth_error_In in Hi. apply H in Hi. discriminate.
Qed.
Lemma norun_existsb ts : norun ts -> existsb is_run ts = false.
Proof.
  intros H. destruct (existsb is_run ts) eqn:E; [|reflexivity]. apply existsb_exists in E. destruct E as (t & Hin & Ht).
  destruct t; try discriminate. apply In_nth_error in Hin. destruct Hin as (i & Hi). elim (H i Hi).
Qed.
Lemma existsb_norun ts : existsb is_run ts = false -> norun ts.
Proof.
  intros H i Hi. assert (existsb is_run ts = true); [|congruence].
  apply existsb_exists. exists TRun. split; [eapply nth_error_In; eauto|reflexivity].
Qed.

Lemma nth_upd {A} (l : list A) i j a b : nth_error l i = Some a ->
  nth_error (upd l i b) j = if Nat.eqb j i then Some b else nth_error l j.
Proof.
  intros H. destruct (Nat.eqb_spec j i) as [->|Hne].
  - apply (nth_upd_same _ _ _ _ H).
  - apply (nth_upd_other _ _ _ _ _ H Hne).
Qed.
Lemma nth_repeat_inv {A} (x y : A) m i : nth_error (repeat x m) i = Some y -> y = x.
Proof. intros H. apply nth_error_In in H. apply repeat_spec in H. exact H. Qed.

(* ---- what holds of every taskpool ---------------------------------------------------- *)
(* [pool_pre]: between a counter update and the check that follows it *)
Record pool_pre (p : pool) : Prop := {
  ok_nt : k_nt p = if negb (k_dtd p) && Nat.ltb (k_su p) 2 then 0 else notdone (k_tasks p);
  ok_pa : if in_term (k_st p) then k_pa p = 0 /\ k_nt p = 0
          else k_pa p = (if negb (k_dtd p) && Nat.ltb (k_su p) 3 then 1 else 0) + (if 0 <? k_nt p then 1 else 0);
  ok_su : if k_dtd p then k_su p = 0%nat
          else (k_su p <= 3)%nat /\ (k_added p = false <-> k_su p = 0%nat) /\
               ((k_su p <= 1)%nat -> k_st p = SNotReady /\ k_tasks p = repeat TIdle (length (k_tasks p))) /\
               ((2 <= k_su p)%nat -> k_st p <> SNotReady) /\
               (in_term (k_st p) = true -> k_su p = 3%nat);
  ok_cb : k_dtd p = false -> k_cb p = if in_term (k_st p) then 1%nat else 0%nat;
  ok_att : k_att p = true -> k_added p = true;
  ok_new : k_added p = false -> k_st p = SNotReady /\ k_att p = false /\ (k_dtd p = true -> k_tasks p = [])
}.
Definition pool_ok (p : pool) : Prop := pool_pre p /\ (k_st p = SBusy -> 0 < k_pa p).

Lemma ok_term_done p : pool_pre p -> in_term (k_st p) = true -> all_done p = true /\ norun (k_tasks p).
Proof.
  intros H Ht. assert (Hz : notdone (k_tasks p) = 0).
  { pose proof (ok_nt p H) as Hn. pose proof (ok_pa p H) as Hp. pose proof (ok_su p H) as Hs. rewrite Ht in Hp.
    destruct (k_dtd p); cbn [negb andb] in Hn; [lia|].
    destruct Hs as (_ & _ & _ & _ & H3). rewrite (H3 Ht) in Hn. cbn in Hn. lia. }
  unfold all_done. split; [apply notdone_zero_all; assumption|apply all_done_norun, notdone_zero_all; assumption].
Qed.

Ltac psimpl := cbn [k_dtd k_tasks k_nt k_pa k_st k_su k_added k_att k_cb
                     pset_tasks pset_nt pset_pa pset_st pset_su pset_att pset_cb in_term] in *.
Ltac pk p := destruct p as [dtd ts nt pa st su ad att cb]; psimpl.

Lemma check_ok p : pool_pre p -> pool_ok (p_check p).
Proof.
  intros [Hn Hp Hs Hc Ha Hw]. unfold p_check.
  destruct (is_busy (k_st p) && (k_pa p =? 0)) eqn:E.
  - apply andb_prop in E. destruct E as [Eb Ez]. apply Z.eqb_eq in Ez. pk p. destruct st; try discriminate. clear Eb.
    pose proof (notdone_nonneg ts).
    split; [|discriminate]. constructor; psimpl.
    + exact Hn.
    + destruct (0 <? nt) eqn:E0; destruct (negb dtd && Nat.ltb su 3) eqn:E1; try lia.
      destruct (negb dtd && Nat.ltb su 2) eqn:E2; lia.
    + destruct dtd; [assumption|]. destruct Hs as (H1 & H2 & H3 & H4 & H5).
      assert (Hsu : su = 3%nat).
      { cbn [negb andb] in Hp. destruct (Nat.ltb_spec su 3); [destruct (0 <? nt); lia|lia]. }
      subst su. split; [lia|]. split; [exact H2|]. split; [lia|]. split; [discriminate|reflexivity].
    + intros Hd. rewrite (Hc Hd). reflexivity.
    + exact Ha.
    + intros Hf. destruct (Hw Hf) as [Hx _]. discriminate.
  - split; [constructor; assumption|]. intros Hb. rewrite Hb in E. cbn in E. apply Z.eqb_neq in E.
    rewrite Hb in Hp. cbn [in_term] in Hp. destruct (negb (k_dtd p) && Nat.ltb (k_su p) 3), (0 <? k_nt p); lia.
Qed.

Lemma pre_of_ok p : pool_ok p -> pool_pre p. Proof. intros [H _]. exact H. Qed.

Ltac ok_intro H := destruct H as [[Hn Hp Hs Hc Ha Hw] Hb].

(* taskpool_ready on a DTD taskpool that was given to the context *)
Lemma ready_ok p : pool_ok p -> k_dtd p = true -> k_added p = true -> pool_ok (p_ready p).
Proof.
  intros H Hd Had. unfold p_ready. destruct (is_notready (k_st p)) eqn:E; [|exact H].
  apply check_ok. ok_intro H. pk p. subst dtd ad. destruct st; try discriminate.
  constructor; psimpl; auto; try discriminate.
Qed.

(* parsec_context_add_taskpool *)
Lemma add_ptg_ok p : pool_ok p -> k_dtd p = false -> k_added p = false -> pool_ok (pset_su (pset_att p true true) 1).
Proof.
  intros H Hd Had. ok_intro H. pk p. subst dtd ad. destruct (Hw eq_refl) as (Hst & Hat & _). subst st att.
  destruct Hs as (H1 & H2 & H3 & H4 & H5). assert (su = 0%nat) by (apply H2; reflexivity). subst su.
  destruct (H3 ltac:(lia)) as [_ Hts].
  split; [|discriminate]. constructor; psimpl; auto; try discriminate.
  repeat split; try lia; try discriminate; auto.
Qed.
Lemma add_dtd_ok p : pool_ok p -> k_dtd p = true -> k_added p = false -> pool_ok (pset_att p true true).
Proof.
  intros H Hd Had. ok_intro H. pk p. subst dtd ad. destruct (Hw eq_refl) as (Hst & Hat & _). subst st att.
  split; [|discriminate]. constructor; psimpl; auto; try discriminate.
Qed.

(* parsec_dtd_insert_task *)
Lemma insert_ok p : pool_ok p -> k_dtd p = true -> k_added p = true -> k_st p = SNotReady ->
  pool_ok (p_add_nt (pset_tasks p (k_tasks p ++ [TIdle])) 1).
Proof.
  intros H Hd Had Hst. ok_intro H. pk p. subst dtd ad st. unfold p_add_nt. psimpl. cbn [negb andb] in *.
  pose proof (notdone_nonneg ts). change (0 <? 1) with true. rewrite andb_true_r.
  split; [|destruct (nt =? 0); discriminate].
  destruct (Z.eqb_spec nt 0) as [Hz|Hz]; constructor; psimpl; cbn [negb andb]; auto; try discriminate;
    rewrite ?notdone_app; cbn [is_done]; try lia.
  - destruct (0 <? nt) eqn:E1; destruct (0 <? nt + 1) eqn:E2; lia.
  - destruct (0 <? nt) eqn:E1; destruct (0 <? nt + 1) eqn:E2; lia.
Qed.

(* the destructor of a DTD taskpool between two waits *)
Lemma free_ok p : pool_ok p -> k_dtd p = true -> k_added p = true -> k_st p = SNotReady -> k_nt p = 0 -> k_pa p = 0 ->
  pool_ok (pset_att (pset_cb (pset_st p STerminated) (S (k_cb p))) true false).
Proof.
  intros H Hd Had Hst Hz Hz'. ok_intro H. pk p. subst. split; [|discriminate].
  constructor; psimpl; auto; try discriminate.
Qed.

(* parsec_dtd_taskpool_leave_wait *)
Lemma rearm_ok p : pool_ok p -> k_dtd p = true -> k_added p = true -> k_st p = STerminated -> pool_ok (p_rearm p).
Proof.
  intros H Hd Had Hst. ok_intro H. pk p. subst. unfold p_rearm. psimpl. cbn [negb andb] in *. destruct Hp as [Hp1 Hp2].
  split; [|discriminate]. constructor; psimpl; cbn [negb andb]; auto; try discriminate; try lia.
Qed.

(* the startup task of a PTG taskpool *)
Lemma startup_ok p : pool_ok p -> k_dtd p = false -> k_su p = 1%nat ->
  pool_ok (p_ready (pset_su (p_add_nt p (Z.of_nat (length (k_tasks p)))) 2)).
Proof.
  intros H Hd Hsu. ok_intro H. pk p. subst dtd su. cbn [negb andb Nat.ltb Nat.leb] in *.
  destruct Hs as (H1 & H2 & H3 & H4 & H5). destruct (H3 ltac:(lia)) as [Hst Hts]. subst st. psimpl.
  assert (Had : ad = true). { destruct ad; auto. destruct H2 as [H2 _]. specialize (H2 eq_refl). discriminate. }
  subst ad nt. unfold p_add_nt. psimpl. change (0 =? 0) with true. cbn [andb].
  unfold p_ready. assert (Hnd : notdone ts = Z.of_nat (length ts)) by (rewrite Hts at 1; apply notdone_repeat_idle).
  destruct (Z.ltb_spec 0 (Z.of_nat (length ts))) as [Hpos|Hpos]; psimpl; cbn [is_notready]; apply check_ok;
    constructor; psimpl; cbn [negb andb Nat.ltb Nat.leb]; auto; try discriminate.
  - change (0 <? 0) with false in Hp. cbv iota in Hp. destruct (Z.ltb_spec 0 (0 + Z.of_nat (length ts))); lia.
  - split; [lia|]. split; [split; discriminate|]. split; [lia|]. split; discriminate.
  - change (0 <? 0) with false in Hp. cbv iota in Hp. destruct (Z.ltb_spec 0 (0 + Z.of_nat (length ts))); lia.
  - split; [lia|]. split; [split; discriminate|]. split; [lia|]. split; discriminate.
Qed.

Lemma startup_done_ok p : pool_ok p -> k_dtd p = false -> k_su p = 2%nat -> pool_ok (p_dec_pa (pset_su p 3)).
Proof.
  intros H Hd Hsu. ok_intro H. pk p. subst dtd su. cbn [negb andb Nat.ltb Nat.leb] in *.
  destruct Hs as (H1 & H2 & H3 & H4 & H5).
  assert (Hst : st = SBusy).
  { destruct st; try reflexivity; try (specialize (H5 eq_refl); lia). elim (H4 ltac:(lia)). reflexivity. }
  subst st. psimpl. unfold p_dec_pa. psimpl. apply check_ok.
  constructor; psimpl; cbn [negb andb Nat.ltb Nat.leb]; auto; try discriminate.
  - lia.
  - split; [lia|]. split; [split; [intros Hx; apply H2 in Hx; discriminate|discriminate]|].
    split; [lia|]. split; discriminate.
Qed.

(* a task that is not done: the taskpool is not past its detection *)
Lemma undone_not_term p i t : pool_pre p -> nth_error (k_tasks p) i = Some t -> t <> TDone -> in_term (k_st p) = false.
Proof.
  intros H Hi Ht. destruct (in_term (k_st p)) eqn:E; [|reflexivity]. destruct (ok_term_done p H E) as [Hd _].
  unfold all_done in Hd. rewrite forallb_forall in Hd. apply nth_error_In in Hi. apply Hd in Hi. destruct t; try discriminate. congruence.
Qed.
(* a running task: a PTG taskpool has run its startup task; the taskpool was given to the context *)
Lemma running_su p i : pool_pre p -> nth_error (k_tasks p) i = Some TRun ->
  (k_dtd p = false -> (2 <= k_su p)%nat) /\ k_added p = true.
Proof.
  intros H Hi. pose proof (ok_su p H) as Hs. split.
  - intros Hd. rewrite Hd in Hs. destruct Hs as (_ & _ & H3 & _).
    destruct (Nat.le_gt_cases 2 (k_su p)); [assumption|]. destruct (H3 ltac:(lia)) as [_ Hts]. rewrite Hts in Hi.
    apply nth_repeat_inv in Hi. discriminate.
  - destruct (k_added p) eqn:E; [reflexivity|]. destruct (ok_new p H E) as (_ & _ & Hdt).
    destruct (k_dtd p) eqn:Ed.
    + rewrite (Hdt eq_refl) in Hi. destruct i; discriminate.
    + destruct Hs as (_ & H2 & H3 & _). destruct H2 as [H2 _]. specialize (H2 eq_refl).
      destruct (H3 ltac:(lia)) as [_ Hts]. rewrite Hts in Hi. apply nth_repeat_inv in Hi. discriminate.
Qed.

Lemma begin_ok p i : pool_ok p -> nth_error (k_tasks p) i = Some TIdle -> (k_dtd p = true \/ (2 <= k_su p)%nat) ->
  pool_ok (pset_tasks p (upd (k_tasks p) i TRun)).
Proof.
  intros H Hi Hsu. pose proof (undone_not_term p i TIdle (pre_of_ok p H) Hi ltac:(discriminate)) as Hnt.
  ok_intro H. pk p. pose proof (notdone_upd _ _ _ TRun Hi) as Hup. cbn [is_done] in Hup.
  split; [|exact Hb]. constructor; psimpl; auto.
  - rewrite Hup. replace (notdone ts - 1 + 1) with (notdone ts) by lia. exact Hn.
  - destruct dtd; [assumption|]. destruct Hsu as [Hx|Hx]; [discriminate|].
    destruct Hs as (H1 & H2 & H3 & H4 & H5). split; [assumption|]. split; [assumption|]. split; [lia|]. split; assumption.
  - intros Hf. destruct (Hw Hf) as (A & B & C). split; [assumption|]. split; [assumption|].
    intros Hd. rewrite (C Hd) in Hi. destruct i; discriminate.
Qed.

Lemma end_ok p i : pool_ok p -> nth_error (k_tasks p) i = Some TRun ->
  pool_ok (p_dec_nt (pset_tasks p (upd (k_tasks p) i TDone))).
Proof.
  intros H Hi. pose proof (undone_not_term p i TRun (pre_of_ok p H) Hi ltac:(discriminate)) as Hnt.
  destruct (running_su p i (pre_of_ok p H) Hi) as [Hsu Had].
  pose proof (notdone_pos _ _ _ Hi eq_refl) as Hpos.
  ok_intro H. pk p. subst ad. pose proof (notdone_upd _ _ _ TDone Hi) as Hup. cbn [is_done] in Hup. rewrite Hnt in Hp.
  assert (Hnt' : nt = notdone ts).
  { destruct dtd; cbn [negb andb] in Hn; [assumption|]. specialize (Hsu eq_refl).
    destruct (Nat.ltb_spec su 2); [lia|assumption]. }
  unfold p_dec_nt. psimpl. destruct (Z.ltb_spec 0 nt); [|lia]. cbn [andb].
  assert (Hsu2 : negb dtd && Nat.ltb su 2 = false).
  { destruct dtd; [reflexivity|]. specialize (Hsu eq_refl). cbn [negb andb]. destruct (Nat.ltb_spec su 2); [lia|reflexivity]. }
  assert (Hsu' : if dtd then su = 0%nat else (su <= 3)%nat /\ (true = false <-> su = 0%nat) /\
               ((su <= 1)%nat -> st = SNotReady /\ upd ts i TDone = repeat TIdle (length (upd ts i TDone))) /\
               ((2 <= su)%nat -> st <> SNotReady) /\ (in_term st = true -> su = 3%nat)).
  { destruct dtd; [assumption|]. specialize (Hsu eq_refl). destruct Hs as (H1 & H2 & H3 & H4 & H5).
    split; [assumption|]. split; [assumption|]. split; [lia|]. split; assumption. }
  destruct (Z.eqb_spec (nt - 1) 0) as [Hz|Hz].
  - unfold p_dec_pa. psimpl. apply check_ok. constructor; psimpl; auto; try discriminate.
    + rewrite Hsu2, Hup. lia.
    + rewrite Hnt, Hp. destruct (Z.ltb_spec 0 (nt - 1)) as [Hq|Hq]. { exfalso. clear - Hq Hz. lia. } destruct (negb dtd && Nat.ltb su 3); lia.
  - split; [|psimpl; intros Hbb; rewrite Hp; destruct (negb dtd && Nat.ltb su 3); lia].
    constructor; psimpl; auto; try discriminate.
    + rewrite Hsu2, Hup. lia.
    + rewrite Hnt, Hp. destruct (Z.ltb_spec 0 (nt - 1)); [|lia]. destruct (negb dtd && Nat.ltb su 3); lia.
Qed.

Lemma cbdone_ok p : pool_ok p -> k_st p = STermCb -> pool_ok (pset_st p STermDec).
Proof.
  intros H Hst. ok_intro H. pk p. subst st. split; [|discriminate]. constructor; psimpl; auto.
  - destruct dtd; [assumption|]. destruct Hs as (H1 & H2 & H3 & H4 & H5).
    split; [assumption|]. split; [assumption|]. split; [intros Hx; destruct (H3 Hx); discriminate|]. split; [discriminate|assumption].
  - intros Hf. destruct (Hw Hf) as (A & _). discriminate.
Qed.
Lemma fin_ok p : pool_ok p -> k_st p = STermDec -> pool_ok (pset_st p STerminated).
Proof.
  intros H Hst. ok_intro H. pk p. subst st. split; [|discriminate]. constructor; psimpl; auto.
  - destruct dtd; [assumption|]. destruct Hs as (H1 & H2 & H3 & H4 & H5).
    split; [assumption|]. split; [assumption|]. split; [intros Hx; destruct (H3 Hx); discriminate|]. split; [discriminate|assumption].
  - intros Hf. destruct (Hw Hf) as (A & _). discriminate.
Qed.

(* ---- the taskpool's share of active_taskpools ----------------------------------------- *)
Lemma counted_check p : counted (p_check p) = counted p.
Proof.
  unfold p_check. destruct (is_busy (k_st p) && (k_pa p =? 0)) eqn:E; [|reflexivity].
  apply andb_prop in E. destruct E as [E _]. pk p. destruct st; try discriminate. reflexivity.
Qed.
Lemma counted_ready p : counted (p_ready p) = counted p.
Proof.
  unfold p_ready. destruct (is_notready (k_st p)) eqn:E; [|reflexivity]. rewrite counted_check.
  pk p. destruct st; try discriminate. reflexivity.
Qed.
Lemma counted_dec_pa p : counted (p_dec_pa p) = counted p.
Proof. unfold p_dec_pa. rewrite counted_check. reflexivity. Qed.
Lemma counted_dec_nt p : counted (p_dec_nt p) = counted p.
Proof.
  unfold p_dec_nt. cbv zeta. destruct ((0 <? k_nt p) && (k_nt p - 1 =? 0)); [rewrite counted_dec_pa|]; reflexivity.
Qed.
Lemma counted_add_nt p v : counted (p_add_nt p v) = counted p.
Proof. unfold p_add_nt. cbv zeta. destruct ((k_nt p =? 0) && (0 <? v)); reflexivity. Qed.

(* ---- the context ---------------------------------------------------------------------- *)
Definition in_wait (m : mpc) : bool := match m with MInWait => true | _ => false end.
(* the token parsec_context_start adds and parsec_context_wait removes *)
Definition tok (s : state) : Z := if started s && negb (in_wait (master s)) then 1 else 0.

Record Inv (s : state) : Prop := {
  i_pools : Forall pool_ok (pools s);
  i_active : active s = tok s + cnt counted (pools s);
  i_wait : waiting s = in_wait (master s);
  i_started : master s <> MIdle -> started s = true
}.

Lemma Forall_firstn {A} (P : A -> Prop) n l : Forall P l -> Forall P (firstn n l).
Proof. revert l; induction n as [|n IH]; intros [|x l] H; cbn; auto. inversion H; subst. constructor; auto. Qed.
Lemma Forall_skipn {A} (P : A -> Prop) n l : Forall P l -> Forall P (skipn n l).
Proof. revert l; induction n as [|n IH]; intros [|x l] H; cbn; auto. inversion H; subst. auto. Qed.
Lemma Forall_upd {A} (P : A -> Prop) l q x : Forall P l -> P x -> Forall P (upd l q x).
Proof.
  intros Hl Hx. unfold upd. apply Forall_app. split; [apply Forall_firstn; assumption|].
  constructor; [assumption|apply Forall_skipn; assumption].
Qed.
Lemma Forall_nth {A} (P : A -> Prop) l q x : Forall P l -> nth_error l q = Some x -> P x.
Proof. intros H Hq. rewrite Forall_forall in H. apply H. eapply nth_error_In; eauto. Qed.

Lemma b2z_counted_upd l q p p' : nth_error l q = Some p ->
  cnt counted (upd l q p') = cnt counted l - Z.b2z (counted p) + Z.b2z (counted p').
Proof. intros H. rewrite (cnt_upd _ _ _ _ _ H). destruct (counted p), (counted p'); cbn; lia. Qed.

(* one taskpool changes, the flags do not *)
Lemma inv_upd s s' q p p' d : Inv s -> nth_error (pools s) q = Some p -> pool_ok p' ->
  Z.b2z (counted p') = Z.b2z (counted p) + d ->
  pools s' = upd (pools s) q p' -> started s' = started s -> waiting s' = waiting s -> master s' = master s ->
  active s' = active s + d -> Inv s'.
Proof.
  intros [Hp Ha Hw Hs] Hq Hok Hc E1 E2 E3 E4 E5. constructor.
  - rewrite E1. apply Forall_upd; assumption.
  - rewrite E5, E1, (b2z_counted_upd _ _ _ _ Hq), Ha. unfold tok. rewrite E2, E4. lia.
  - rewrite E3, E4. assumption.
  - rewrite E4, E2. assumption.
Qed.

Lemma on_pool_pools s q p f : nth_error (pools s) q = Some p -> on_pool q f s = set_pools s (upd (pools s) q (f p)).
Proof. intros H. unfold on_pool. rewrite H. reflexivity. Qed.

Lemma add_taskpool_inv s q : Inv s -> Inv (add_taskpool q s).
Proof.
  intros Hi. unfold add_taskpool. destruct (nth_error (pools s) q) as [p|] eqn:Hq; [|assumption].
  destruct (k_added p) eqn:Had; [assumption|].
  pose proof (Forall_nth _ _ _ _ (i_pools s Hi) Hq) as Hok.
  assert (Hc0 : counted p = false) by (unfold counted; rewrite Had; reflexivity).
  destruct (k_dtd p) eqn:Hd.
  - rewrite (on_pool_pools (add_active s 1) q p) by assumption.
    eapply (inv_upd s _ q p _ 1 Hi Hq); cbn [pools started waiting master active set_pools add_active]; try reflexivity.
    + destruct (waiting s).
      * apply ready_ok; [apply add_dtd_ok; assumption|assumption|reflexivity].
      * apply add_dtd_ok; assumption.
    + rewrite Hc0. assert (counted (pset_att p true true) = true).
      { unfold counted. cbn. destruct (ok_new p (pre_of_ok p Hok) Had) as (Hst & _). rewrite Hst. reflexivity. }
      destruct (waiting s); [rewrite counted_ready|]; rewrite H; reflexivity.
  - rewrite (on_pool_pools (add_active s 1) q p) by assumption.
    eapply (inv_upd s _ q p _ 1 Hi Hq); cbn [pools started waiting master active set_pools add_active]; try reflexivity.
    + apply add_ptg_ok; assumption.
    + rewrite Hc0. unfold counted. cbn. destruct (ok_new p (pre_of_ok p Hok) Had) as (Hst & _). rewrite Hst. reflexivity.
Qed.

Ltac sfields := cbn [pools started waiting master active epoch obs set_pools set_started set_waiting add_active set_master set_epoch add_obs].
Ltac sfields_in H := cbn [pools started waiting master active epoch obs set_pools set_started set_waiting add_active set_master set_epoch add_obs] in H.

Lemma cnt_map_ext {A} (g h : A -> bool) (f : A -> A) l : (forall p, In p l -> g (f p) = h p) -> cnt g (map f l) = cnt h l.
Proof.
  induction l as [|x l IH]; intros H; [reflexivity|]. cbn [map]. rewrite !cnt_cons, IH.
  - rewrite (H x (or_introl eq_refl)). reflexivity.
  - intros p Hp. apply H. right. assumption.
Qed.
Lemma Forall_map_same {A} (P : A -> Prop) (f : A -> A) l : Forall P l -> (forall p, In p l -> P p -> P (f p)) -> Forall P (map f l).
Proof.
  intros Hl Hf. apply Forall_forall. intros y Hy. apply in_map_iff in Hy. destruct Hy as (x & <- & Hx).
  apply Hf; [assumption|]. rewrite Forall_forall in Hl. apply Hl. assumption.
Qed.

(* what the enabling condition of MWaitLeave gives *)
Lemma leave_facts s : Inv s -> master s = MInWait -> active s = 0 -> quiescent s = true ->
  forall p, In p (pools s) -> counted p = false /\ p_quiet p = true /\ (k_added p = true -> k_st p = STerminated).
Proof.
  intros Hi Hm Ha Hq p Hp. pose proof (i_active s Hi) as HA. unfold tok in HA. rewrite Hm in HA. cbn in HA.
  rewrite andb_false_r in HA. pose proof (cnt_nonneg counted (pools s)).
  assert (Hz : cnt counted (pools s) = 0) by lia.
  apply In_nth_error in Hp. destruct Hp as (q & Hq').
  pose proof (cnt_zero_all _ _ Hz _ _ Hq') as Hc.
  unfold quiescent in Hq. rewrite forallb_forall in Hq. pose proof (Hq p (nth_error_In _ _ Hq')) as Hpq.
  split; [assumption|]. split; [assumption|]. intros Had.
  unfold counted in Hc. rewrite Had in Hc. unfold p_quiet in Hpq. apply andb_prop in Hpq. destruct Hpq as [_ Hcb].
  destruct (k_st p); cbn in *; try discriminate; reflexivity.
Qed.

Theorem step_inv s e : Inv s -> Inv (step s e).
Proof.
  intros Hi. destruct e as [|q|q| |q| | |q|q|q|q|q i|q i|q|q|p i q|p q]; cbn [step].
  - (* MStart *)
    destruct (is_idle_m (master s) && negb (started s)) eqn:E; [|assumption].
    apply andb_prop in E. destruct E as [Em Es]. destruct (master s) eqn:Hm; try discriminate. apply negb_true_iff in Es.
    destruct Hi as [Hp Ha Hw Hst]. constructor; sfields.
    + assumption.
    + rewrite Ha. unfold tok. sfields. rewrite Hm, Es. cbn [andb negb in_wait]. lia.
    + assumption.
    + reflexivity.
  - (* MAdd *)
    destruct (is_idle_m (master s)); [apply add_taskpool_inv|]; assumption.
  - (* MInsert *)
    unfold pool_at. destruct (nth_error (pools s) q) as [p|] eqn:Hq; [|assumption].
    destruct (is_idle_m (master s) && k_dtd p && k_att p && is_notready (k_st p)) eqn:E; [|assumption].
    apply andb_prop in E. destruct E as [E E4]. apply andb_prop in E. destruct E as [E E3]. apply andb_prop in E. destruct E as [E1 E2].
    pose proof (Forall_nth _ _ _ _ (i_pools s Hi) Hq) as Hok.
    assert (Hst : k_st p = SNotReady) by (destruct (k_st p); try discriminate; reflexivity).
    rewrite (on_pool_pools s q p) by assumption.
    eapply (inv_upd s _ q p _ 0 Hi Hq); sfields; try reflexivity; try lia.
    + apply insert_ok; auto. apply (ok_att p (pre_of_ok p Hok)). assumption.
    + rewrite counted_add_nt. unfold counted. cbn. lia.
  - (* MTest *)
    destruct (is_idle_m (master s)); [|assumption]. destruct Hi as [Hp Ha Hw Hst]. constructor; sfields; assumption.
  - (* MFree *)
    unfold pool_at. destruct (nth_error (pools s) q) as [p|] eqn:Hq; [|assumption].
    destruct (is_idle_m (master s) && k_dtd p && k_att p && is_notready (k_st p) && (k_nt p =? 0) && (k_pa p =? 0)) eqn:E; [|assumption].
    apply andb_prop in E. destruct E as [E E6]. apply andb_prop in E. destruct E as [E E5].
    apply andb_prop in E. destruct E as [E E4]. apply andb_prop in E. destruct E as [E E3]. apply andb_prop in E. destruct E as [E1 E2].
    apply Z.eqb_eq in E5, E6.
    pose proof (Forall_nth _ _ _ _ (i_pools s Hi) Hq) as Hok.
    assert (Hst : k_st p = SNotReady) by (destruct (k_st p); try discriminate; reflexivity).
    assert (Had : k_added p = true) by (apply (ok_att p (pre_of_ok p Hok)); assumption).
    rewrite (on_pool_pools s q p) by assumption.
    eapply (inv_upd s _ q p _ (-1) Hi Hq); sfields; try reflexivity.
    + apply free_ok; assumption.
    + unfold counted. cbn. rewrite Had, Hst. reflexivity.
  - (* MWaitEnter *)
    destruct (is_idle_m (master s) && started s) eqn:E; [|assumption].
    apply andb_prop in E. destruct E as [Em Es]. destruct (master s) eqn:Hm; try discriminate.
    destruct Hi as [Hp Ha Hw Hst]. constructor; sfields.
    + unfold enter_all. apply Forall_map_same; [assumption|]. intros p _ Hok.
      destruct (k_att p && k_dtd p) eqn:E; [|assumption]. apply andb_prop in E. destruct E as [Eat Ed].
      apply ready_ok; auto. apply (ok_att p (pre_of_ok p Hok)). assumption.
    + unfold enter_all. rewrite (cnt_map_ext counted counted).
      * rewrite Ha. unfold tok. sfields. rewrite Hm, Es. cbn [andb negb in_wait]. lia.
      * intros p _. destruct (k_att p && k_dtd p); [apply counted_ready|reflexivity].
    + reflexivity.
    + intros _. assumption.
  - (* MWaitLeave *)
    destruct (master s) eqn:Hm; try assumption.
    destruct ((active s =? 0) && quiescent s) eqn:E; [|assumption].
    apply andb_prop in E. destruct E as [Ea Eq]. apply Z.eqb_eq in Ea.
    pose proof (leave_facts s Hi Hm Ea Eq) as Hf.
    destruct Hi as [Hp Ha Hw Hst]. constructor; sfields.
    + unfold rearm_all. apply Forall_map_same; [assumption|]. intros p Hin Hok.
      destruct (k_att p && k_dtd p) eqn:E; [|assumption]. apply andb_prop in E. destruct E as [Eat Ed].
      assert (Had : k_added p = true) by (apply (ok_att p (pre_of_ok p Hok)); assumption).
      apply rearm_ok; auto. apply (Hf p Hin). assumption.
    + unfold tok. sfields. cbn [andb]. unfold rearm_all, count_dtd_att. rewrite (cnt_map_ext counted (fun p => k_att p && k_dtd p)).
      * lia.
      * intros p Hin. destruct (Hf p Hin) as (Hc & _ & _). destruct (k_att p && k_dtd p) eqn:E; [|assumption].
        apply andb_prop in E. destruct E as [Eat Ed]. rewrite Forall_forall in Hp.
        pose proof (ok_att p (pre_of_ok p (Hp p Hin)) Eat) as Had. unfold counted, p_rearm. cbn. rewrite Had. reflexivity.
    + reflexivity.
    + intros Hx. elim Hx. reflexivity.
  - (* MTpEnter *)
    unfold pool_at. destruct (nth_error (pools s) q) as [p|] eqn:Hq; [|assumption].
    destruct (is_idle_m (master s) && started s && k_added p) eqn:E; [|assumption].
    apply andb_prop in E. destruct E as [E E3]. apply andb_prop in E. destruct E as [E1 E2].
    destruct (master s) eqn:Hm; try discriminate.
    pose proof (Forall_nth _ _ _ _ (i_pools s Hi) Hq) as Hok.
    rewrite (on_pool_pools s q p) by assumption.
    assert (Hi' : Inv (set_pools s (upd (pools s) q (if k_dtd p then p_ready p else p)))).
    { eapply (inv_upd s _ q p _ 0 Hi Hq); sfields; try reflexivity; try lia.
      - destruct (k_dtd p) eqn:Hd; [apply ready_ok; auto|assumption].
      - destruct (k_dtd p); [rewrite counted_ready|]; lia. }
    destruct Hi' as [Hp Ha Hw Hst]. sfields_in Hp. sfields_in Ha. sfields_in Hw. constructor; sfields.
    + assumption.
    + rewrite Ha. unfold tok. sfields. rewrite Hm. reflexivity.
    + rewrite Hw, Hm. reflexivity.
    + intros _. assumption.
  - (* MTpLeave *)
    destruct (master s) as [| |q'] eqn:Hm; try assumption.
    unfold pool_at. destruct (nth_error (pools s) q) as [p|] eqn:Hq; [|assumption].
    destruct (Nat.eqb q q' && is_terminated (k_st p)) eqn:E; [|assumption].
    apply andb_prop in E. destruct E as [E1 E2].
    assert (Hst : k_st p = STerminated) by (destruct (k_st p); try discriminate; reflexivity).
    pose proof (Forall_nth _ _ _ _ (i_pools s Hi) Hq) as Hok.
    destruct (k_dtd p) eqn:Hd.
    + rewrite (on_pool_pools s q p) by assumption.
      assert (Had : k_added p = true).
      { destruct (k_added p) eqn:Ead; [reflexivity|]. destruct (ok_new p (pre_of_ok p Hok) Ead) as (Hx & _). congruence. }
      assert (Hi' : Inv (add_active (set_pools s (upd (pools s) q (p_rearm p))) 1)).
      { eapply (inv_upd s _ q p _ 1 Hi Hq); sfields; try reflexivity.
        - apply rearm_ok; assumption.
        - unfold counted, p_rearm. cbn. rewrite Had, Hst. reflexivity. }
      destruct Hi' as [Hp Ha Hw Hs']. sfields_in Hp. sfields_in Ha. sfields_in Hw. constructor; sfields.
      * assumption.
      * rewrite Ha. unfold tok. sfields. rewrite Hm. reflexivity.
      * rewrite Hw, Hm. reflexivity.
      * intros Hx. elim Hx. reflexivity.
    + destruct Hi as [Hp Ha Hw Hs']. constructor; sfields.
      * assumption.
      * rewrite Ha. unfold tok. sfields. rewrite Hm. reflexivity.
      * rewrite Hw, Hm. reflexivity.
      * intros Hx. elim Hx. reflexivity.
  - (* WStartup *)
    unfold pool_at. destruct (nth_error (pools s) q) as [p|] eqn:Hq; [|assumption].
    destruct (started s && negb (k_dtd p) && Nat.eqb (k_su p) 1) eqn:E; [|assumption].
    apply andb_prop in E. destruct E as [E E3]. apply andb_prop in E. destruct E as [E1 E2].
    apply negb_true_iff in E2. apply Nat.eqb_eq in E3.
    pose proof (Forall_nth _ _ _ _ (i_pools s Hi) Hq) as Hok.
    rewrite (on_pool_pools s q p) by assumption.
    eapply (inv_upd s _ q p _ 0 Hi Hq); sfields; try reflexivity; try lia.
    + apply startup_ok; assumption.
    + rewrite counted_ready. unfold p_add_nt. cbv zeta. destruct ((k_nt p =? 0) && (0 <? Z.of_nat (length (k_tasks p)))); unfold counted; cbn; lia.
  - (* WStartupDone *)
    unfold pool_at. destruct (nth_error (pools s) q) as [p|] eqn:Hq; [|assumption].
    destruct (Nat.eqb_spec (k_su p) 2) as [E|E]; [|assumption].
    pose proof (Forall_nth _ _ _ _ (i_pools s Hi) Hq) as Hok.
    assert (Hd : k_dtd p = false).
    { destruct (k_dtd p) eqn:Hd; [|reflexivity]. pose proof (ok_su p (pre_of_ok p Hok)) as Hs. rewrite Hd in Hs. lia. }
    rewrite (on_pool_pools s q p) by assumption.
    eapply (inv_upd s _ q p _ 0 Hi Hq); sfields; try reflexivity; try lia.
    + apply startup_done_ok; assumption.
    + rewrite counted_dec_pa. unfold counted. cbn. lia.
  - (* WBegin *)
    unfold pool_at, task_at, pool_at. destruct (nth_error (pools s) q) as [p|] eqn:Hq; [|assumption].
    destruct (nth_error (k_tasks p) i) as [[| |]|] eqn:Hti; try assumption.
    destruct (started s && k_added p && (k_dtd p || Nat.leb 2 (k_su p))) eqn:E; [|assumption].
    apply andb_prop in E. destruct E as [E E3].
    pose proof (Forall_nth _ _ _ _ (i_pools s Hi) Hq) as Hok.
    rewrite (on_pool_pools s q p) by assumption.
    eapply (inv_upd s _ q p _ 0 Hi Hq); sfields; try reflexivity; try lia.
    + apply begin_ok; auto. apply orb_prop in E3. destruct E3 as [E3|E3]; [left; assumption|right; apply Nat.leb_le; assumption].
    + unfold counted. cbn. lia.
  - (* WEnd *)
    unfold task_at, pool_at. destruct (nth_error (pools s) q) as [p|] eqn:Hq; [|assumption].
    destruct (nth_error (k_tasks p) i) as [[| |]|] eqn:Hti; try assumption.
    pose proof (Forall_nth _ _ _ _ (i_pools s Hi) Hq) as Hok.
    rewrite (on_pool_pools s q p) by assumption.
    eapply (inv_upd s _ q p _ 0 Hi Hq); sfields; try reflexivity; try lia.
    + apply end_ok; assumption.
    + rewrite counted_dec_nt. unfold counted. cbn. lia.
  - (* WCbDone *)
    unfold pool_at. destruct (nth_error (pools s) q) as [p|] eqn:Hq; [|assumption].
    destruct (k_st p) eqn:Hst; try assumption.
    pose proof (Forall_nth _ _ _ _ (i_pools s Hi) Hq) as Hok.
    rewrite (on_pool_pools s q p) by assumption.
    assert (Had : k_added p = true).
    { destruct (k_added p) eqn:Ead; [reflexivity|]. destruct (ok_new p (pre_of_ok p Hok) Ead) as (Hx & _). congruence. }
    eapply (inv_upd s _ q p _ (-1) Hi Hq); sfields; try reflexivity.
    + apply cbdone_ok; assumption.
    + unfold counted. cbn. rewrite Had, Hst. reflexivity.
  - (* WFin *)
    unfold pool_at. destruct (nth_error (pools s) q) as [p|] eqn:Hq; [|assumption].
    destruct (k_st p) eqn:Hst; try assumption.
    pose proof (Forall_nth _ _ _ _ (i_pools s Hi) Hq) as Hok.
    rewrite (on_pool_pools s q p) by assumption.
    eapply (inv_upd s _ q p _ 0 Hi Hq); sfields; try reflexivity; try lia.
    + apply fin_ok; assumption.
    + unfold counted. cbn. rewrite Hst. destruct (k_added p); reflexivity.
  - (* TAdd *)
    destruct (task_at s p i) as [[| |]|]; try assumption. apply add_taskpool_inv. assumption.
  - (* CAdd *)
    unfold pool_at. destruct (nth_error (pools s) p) as [pp|]; [|assumption].
    destruct (k_st pp); try assumption. apply add_taskpool_inv. assumption.
Qed.

Lemma new_pool_ok d : pool_ok (new_pool d).
Proof.
  destruct d as [n|]; (split; [|discriminate]); constructor; cbn; auto; try discriminate.
  - split; [lia|]. split; [tauto|]. split; [intros _; split; [reflexivity|rewrite repeat_length; reflexivity]|].
    split; [intros; lia|discriminate].
  - intros _. split; [reflexivity|]. split; [reflexivity|discriminate].
Qed.

Lemma cnt_all_false {A} (g : A -> bool) l : (forall x, In x l -> g x = false) -> cnt g l = 0.
Proof.
  induction l as [|x l IH]; intros H; [reflexivity|]. rewrite cnt_cons, (H x (or_introl eq_refl)), IH; [reflexivity|].
  intros y Hy. apply H. right. assumption.
Qed.

Lemma init_inv decls : Inv (init decls).
Proof.
  unfold init. constructor; sfields.
  - apply Forall_forall. intros p Hp. apply in_map_iff in Hp. destruct Hp as (d & <- & _). apply new_pool_ok.
  - unfold tok. sfields. cbn [andb]. rewrite cnt_all_false; [reflexivity|].
    intros p Hp. apply in_map_iff in Hp. destruct Hp as (d & <- & _). destruct d; reflexivity.
  - reflexivity.
  - intros H. elim H. reflexivity.
Qed.

Lemma run_inv decls evs : Inv (run decls evs).
Proof. unfold run. apply fold_left_inv; [intros; apply step_inv; assumption|apply init_inv]. Qed.

(* a taskpool whose termination was detected: all its tasks ended, none runs; the completion
   callback of a PTG taskpool ran exactly once (and not at all before) *)
Lemma P_detected_means_done decls evs q p :
  nth_error (pools (run decls evs)) q = Some p ->
  (in_term (k_st p) = true -> all_done p = true /\ norun (k_tasks p)) /\
  (k_dtd p = false -> k_cb p = if in_term (k_st p) then 1%nat else 0%nat).
Proof.
  intros Hq. pose proof (Forall_nth _ _ _ _ (i_pools _ (run_inv decls evs)) Hq) as Hok. split.
  - apply ok_term_done. apply pre_of_ok. assumption.
  - apply (ok_cb p (pre_of_ok p Hok)).
Qed.

(* MWaitLeave changes the state exactly when its condition holds *)
Lemma leave_effective s : epoch (step s MWaitLeave) = S (epoch s) <->
  master s = MInWait /\ active s = 0 /\ quiescent s = true.
Proof.
  cbn [step]. destruct (master s) eqn:Hm.
  - split; [intros H; exfalso; lia|intros (H & _); discriminate].
  - destruct (Z.eqb_spec (active s) 0) as [Ha|Ha]; destruct (quiescent s) eqn:Hq; cbn [andb]; sfields;
      split; try (intros H; exfalso; lia); try tauto; intros (_ & A & B); try congruence; try discriminate.
  - split; [intros H; exfalso; lia|intros (H & _); discriminate].
Qed.

Lemma P_wait_returns_settled decls evs :
  let s := run decls evs in
  epoch (step s MWaitLeave) = S (epoch s) ->
  forall q p, nth_error (pools s) q = Some p -> k_added p = true ->
    k_st p = STerminated /\ all_done p = true /\ norun (k_tasks p) /\ (k_dtd p = false -> k_cb p = 1%nat).
Proof.
  cbv zeta. intros He q p Hq Had. apply leave_effective in He. destruct He as (Hm & Ha & Hqq).
  pose proof (run_inv decls evs) as Hi.
  destruct (leave_facts _ Hi Hm Ha Hqq p (nth_error_In _ _ Hq)) as (_ & _ & Hst). specialize (Hst Had).
  destruct (P_detected_means_done decls evs q p Hq) as [H1 H2]. rewrite Hst in *. cbn [in_term] in *.
  destruct (H1 eq_refl). auto.
Qed.

(* the state a context wait leaves behind *)
Definition fresh_like (s : state) : Prop :=
  started s = false /\ waiting s = false /\ master s = MIdle /\ active s = count_dtd_att (pools s) /\ settled s = true.

Lemma settled_intro l : (forall p, In p l -> pool_settled p = true) -> forallb pool_settled l = true.
Proof. intros H. apply forallb_forall. assumption. Qed.

Lemma P_epoch_reset decls evs :
  let s := run decls evs in
  epoch (step s MWaitLeave) = S (epoch s) -> fresh_like (step s MWaitLeave).
Proof.
  cbv zeta. intros He. pose proof He as He'. apply leave_effective in He. destruct He as (Hm & Ha & Hqq).
  pose proof (run_inv decls evs) as Hi. pose proof (leave_facts _ Hi Hm Ha Hqq) as Hf.
  cbn [step]. rewrite Hm, Ha, Hqq. cbn [Z.eqb andb]. unfold fresh_like. sfields.
  split; [reflexivity|]. split; [reflexivity|]. split; [reflexivity|]. split.
  - rewrite Ha. unfold count_dtd_att, rearm_all. rewrite (cnt_map_ext _ (fun p => k_att p && k_dtd p)); [lia|].
    intros p _. destruct (k_att p && k_dtd p) eqn:E; [|assumption]. unfold p_rearm. cbn. assumption.
  - unfold settled. sfields. unfold rearm_all. apply settled_intro. intros p' Hp'. apply in_map_iff in Hp'.
    destruct Hp' as (p & <- & Hp). destruct (Hf p Hp) as (_ & Hquiet & Hst).
    apply In_nth_error in Hp. destruct Hp as (q & Hq).
    destruct (P_detected_means_done decls evs q p Hq) as [H1 _].
    unfold pool_settled. destruct (k_added p) eqn:Had.
    + specialize (Hst eq_refl). rewrite Hst in H1. destruct (H1 eq_refl) as [Hd Hn].
      destruct (k_att p && k_dtd p) eqn:E.
      * apply andb_prop in E. destruct E as [Eat Ed]. unfold p_rearm, all_done, p_quiet in *. cbn.
        rewrite Had, Ed, Eat. cbn. unfold all_done in Hd. rewrite Hd. cbn.
        rewrite (norun_existsb _ Hn). cbn.
        pose proof (Forall_nth _ _ _ _ (i_pools _ Hi) Hq) as Hok. pose proof (ok_su p (pre_of_ok p Hok)) as Hs. rewrite Ed in Hs.
        rewrite Hs. reflexivity.
      * rewrite Had. cbn [negb orb]. rewrite Hd, Hquiet, Hst. reflexivity.
    + destruct (k_att p && k_dtd p) eqn:E.
      * apply andb_prop in E. destruct E as [Eat Ed].
        pose proof (Forall_nth _ _ _ _ (i_pools _ Hi) Hq) as Hok. pose proof (ok_att p (pre_of_ok p Hok) Eat). congruence.
      * rewrite Had. reflexivity.
Qed.

Lemma fresh_like_init decls : fresh_like (init decls).
Proof.
  unfold fresh_like. cbn. repeat split.
  - unfold count_dtd_att. rewrite cnt_all_false; [reflexivity|].
    intros p Hp. apply in_map_iff in Hp. destruct Hp as (d & <- & _). destruct d; reflexivity.
  - unfold settled. cbn. apply settled_intro. intros p Hp. apply in_map_iff in Hp. destruct Hp as (d & <- & _). destruct d; reflexivity.
Qed.

(* parsec_taskpool_wait returns only for a terminated taskpool *)
Lemma tp_leave_effective s q : master s = MInTp q -> master (step s (MTpLeave q)) = MIdle ->
  exists p, nth_error (pools s) q = Some p /\ k_st p = STerminated.
Proof.
  intros Hm. cbn [step]. rewrite Hm. unfold pool_at. destruct (nth_error (pools s) q) as [p|] eqn:Hq; [|rewrite Hm; discriminate].
  destruct (Nat.eqb q q && is_terminated (k_st p)) eqn:E; [|rewrite Hm; discriminate].
  intros _. exists p. split; [reflexivity|]. apply andb_prop in E. destruct E as [_ E]. destruct (k_st p); try discriminate; reflexivity.
Qed.

Lemma P_taskpool_wait decls evs q :
  let s := run decls evs in
  master s = MInTp q -> master (step s (MTpLeave q)) = MIdle ->
  exists p, nth_error (pools s) q = Some p /\ k_st p = STerminated /\ all_done p = true /\ norun (k_tasks p) /\
            (k_dtd p = false -> k_cb p = 1%nat).
Proof.
  cbv zeta. intros Hm Hl. destruct (tp_leave_effective _ q Hm Hl) as (p & Hq & Hst). exists p.
  destruct (P_detected_means_done decls evs q p Hq) as [H1 H2]. rewrite Hst in *. cbn [in_term] in *.
  destruct (H1 eq_refl). auto.
Qed.

(* parsec_context_test answers true only when nothing given to the context is left *)
Lemma P_test_true decls evs :
  let s := run decls evs in
  active s = 0 -> forall q p, nth_error (pools s) q = Some p -> k_added p = true ->
  in_term (k_st p) = true /\ k_st p <> STermCb /\ all_done p = true.
Proof.
  cbv zeta. intros Ha q p Hq Had. pose proof (run_inv decls evs) as Hi. pose proof (i_active _ Hi) as HA.
  pose proof (cnt_nonneg counted (pools (run decls evs))). unfold tok in HA.
  assert (Hz : cnt counted (pools (run decls evs)) = 0) by (destruct (started _ && _); lia).
  pose proof (cnt_zero_all _ _ Hz _ _ Hq) as Hc. unfold counted in Hc. rewrite Had in Hc.
  destruct (P_detected_means_done decls evs q p Hq) as [H1 _].
  destruct (k_st p) eqn:Hst; cbn in Hc; try discriminate; cbn [in_term] in *; (split; [reflexivity|]); (split; [discriminate|]); apply H1; reflexivity.
Qed.

(* the wait does return when the work is done *)
Lemma P_wait_can_return decls evs :
  let s := run decls evs in
  master s = MInWait -> quiescent s = true ->
  (forall q p, nth_error (pools s) q = Some p -> k_added p = true -> k_st p = STerminated) ->
  epoch (step s MWaitLeave) = S (epoch s).
Proof.
  cbv zeta. intros Hm Hq Hall. apply leave_effective. split; [assumption|]. split; [|assumption].
  pose proof (run_inv decls evs) as Hi. rewrite (i_active _ Hi). unfold tok. rewrite Hm. cbn [in_wait negb]. rewrite andb_false_r.
  rewrite cnt_all_false; [reflexivity|].
  intros p Hp. apply In_nth_error in Hp. destruct Hp as (q & Hq'). unfold counted. destruct (k_added p) eqn:Had; [|reflexivity].
  rewrite (Hall q p Hq' Had). reflexivity.
Qed.

(* while a completion callback runs, its taskpool is still counted: active_taskpools > 0, whoever
   runs the callback (no appeal to the quiescence condition of MWaitLeave) *)
Lemma P_callback_keeps_active decls evs q p :
  nth_error (pools (run decls evs)) q = Some p -> k_st p = STermCb -> 0 < active (run decls evs).
Proof.
  intros Hq Hst. pose proof (run_inv decls evs) as Hi. rewrite (i_active _ Hi).
  pose proof (Forall_nth _ _ _ _ (i_pools _ Hi) Hq) as Hok.
  assert (Had : k_added p = true).
  { destruct (k_added p) eqn:E; [reflexivity|]. destruct (ok_new p (pre_of_ok p Hok) E) as (Hx & _). congruence. }
  assert (Hc : counted p = true) by (unfold counted; rewrite Had, Hst; reflexivity).
  pose proof (cnt_pos_of_nth _ _ _ _ Hq Hc). unfold tok. destruct (started _ && _); lia.
Qed.
