(* C06 — the worker choreography of __parsec_context_wait, thread by thread, on top of the
   context model of CtxWaitDefs.v.  NO proofs here.

   Threads: 0 is the master (the thread that calls the API), 1 .. n-1 are the workers created by
   parsec_init; all of them share ONE barrier (context->barrier, pthread_barrier: counter +
   generation).  A worker runs __parsec_context_wait forever:
       wait_for_the_next_round: barrier            (TWaitS g : arrived in generation g)
       while( !all_tasks_done ) select + task      (TLoop; "inside a task" = busy > 0)
       barrier ("We're all done ?")                (TWaitE g)
       goto wait_for_the_next_round                (TPassed: released, about to arrive again)
   The master: parsec_context_start = flag CAS, CONTEXT_ACTIVE, barrier (TWaitS), then
   active_taskpools++ (TInc: released from the barrier, increment not yet done), back to the
   caller (TOut); parsec_context_wait = active_taskpools--, enter_wait, skip_first_barrier, the
   same loop (TLoop), the same final barrier (TWaitE), then leave_wait and return (TPassed ->
   TOut).  In parsec_taskpool_wait the master executes tasks while its pc stays TOut.

   [inner] is the state of CtxWaitDefs; its events are now performed BY a thread.  [busy t] is
   the number of things thread t is inside (tasks, startup tasks, termination callbacks): an
   inner event performed by t changes busy t by exactly the change of [ob inner], the number of
   such things in the whole state.  A thread tests the loop condition, leaves a wait or calls
   start/wait only when it is inside nothing (busy = 0) — that is the shape of the C loops.

   The token of parsec_context_start: the inner event MStart (CONTEXT_ACTIVE + token) is performed
   when the master arrives at the barrier; the real increment comes after the barrier, so until
   master's TInc step (while it is still in the barrier or just released) the value the workers
   read is [active inner - 1] ([seen_active]).

   Events: RBar t = thread t takes the next step of its barrier / loop-test / increment / leave
   code (a waiting thread whose generation is still current stutters); RIn t e = thread t
   performs the inner event e.  Every interleaving of n threads is a list of such events. *)
From Coq Require Import ZArith List Bool Arith.
From PV Require Import Base.ListX CtxWait.CtxWaitDefs.
Import ListNotations.
Local Open Scope Z_scope.

Inductive tpc := TOut | TLoop | TWaitS (g : nat) | TInc | TWaitE (g : nat) | TPassed.

Record rstate := mkR {
  inner : state;
  pcs : list tpc;            (* index 0 = master *)
  busy : list Z;
  bgen : nat;                (* barrier generation *)
  bcnt : nat;                (* threads arrived in this generation *)
  running : bool             (* ghost: an epoch's work loop is open (between the start and the end barrier) *)
}.

(* what threads are inside, per taskpool and in the whole state *)
Definition p_ob (p : pool) : Z :=
  cnt is_run (k_tasks p) + (if Nat.eqb (k_su p) 2 then 1 else 0) + (if in_cb (k_st p) then 1 else 0).
Definition ob (s : state) : Z := fold_right (fun p a => p_ob p + a) 0 (pools s).

Definition pc_of (r : rstate) (t : nat) : tpc := nth t (pcs r) TOut.
Definition busy_of (r : rstate) (t : nat) : Z := nth t (busy r) 0.
Definition set_pc (r : rstate) (t : nat) (p : tpc) : rstate :=
  mkR (inner r) (upd (pcs r) t p) (busy r) (bgen r) (bcnt r) (running r).
Definition set_inner_busy (r : rstate) (t : nat) (s : state) : rstate :=
  mkR s (pcs r) (upd (busy r) t (busy_of r t + ob s - ob (inner r))) (bgen r) (bcnt r) (running r).

(* pthread_barrier_wait: the last thread to arrive opens a new generation and goes on [pass];
   the others wait in [wait g] until the generation changes *)
Definition arrive (r : rstate) (t : nat) (wait : nat -> tpc) (pass : tpc) : rstate :=
  if Nat.eqb (S (bcnt r)) (length (pcs r))
  then mkR (inner r) (upd (pcs r) t pass) (busy r) (S (bgen r)) 0 (negb (running r))
  else mkR (inner r) (upd (pcs r) t (wait (bgen r))) (busy r) (bgen r) (S (bcnt r)) (running r).

(* the value of context->active_taskpools a thread reads *)
Definition seen_active (r : rstate) : Z :=
  active (inner r) - (match pc_of r 0 with TWaitS _ | TInc => 1 | _ => 0 end).

Definition is_worker_event (e : event) : bool :=
  match e with
  | WStartup _ | WStartupDone _ | WBegin _ _ | WEnd _ _ | WCbDone _ | WFin _ | TAdd _ _ _ | CAdd _ _ => true
  | _ => false
  end.
Definition is_begin_event (e : event) : bool :=
  match e with WStartup _ | WBegin _ _ => true | _ => false end.
Definition in_tp (m : mpc) : bool := match m with MInTp _ => true | _ => false end.
Definition in_waitm (m : mpc) : bool := match m with MInWait => true | _ => false end.

Inductive revent := RBar (t : nat) | RIn (t : nat) (e : event).

Definition rstep (r : rstate) (ev : revent) : rstate :=
  match ev with
  | RBar t =>
      if Nat.ltb t (length (pcs r)) then
      match pc_of r t with
      | TOut => r
      | TWaitS g => if Nat.eqb (bgen r) g then r else set_pc r t (if Nat.eqb t 0 then TInc else TLoop)
      | TWaitE g => if Nat.eqb (bgen r) g then r else set_pc r t TPassed
      | TInc => set_pc r t TOut                                  (* active_taskpools++ of parsec_context_start *)
      | TLoop =>
          if (busy_of r t =? 0) && (seen_active r =? 0) then arrive r t TWaitE TPassed else r
      | TPassed =>
          if Nat.eqb t 0
          then set_pc (mkR (step (inner r) MWaitLeave) (pcs r) (busy r) (bgen r) (bcnt r) (running r)) 0 TOut
          else arrive r t TWaitS TLoop
      end
      else r
  | RIn t e =>
      if negb (Nat.ltb t (length (pcs r))) then r else
      let s := inner r in
      let s' := step s e in
      if is_worker_event e then
        (* executed by a worker in its loop, or by the master inside one of the two waits *)
        let where_ok := match pc_of r t with
                        | TLoop => true
                        | TOut => Nat.eqb t 0 && in_tp (master s)
                        | _ => false
                        end in
        let busy_ok := if is_begin_event e then busy_of r t =? 0 else 1 <=? busy_of r t in
        if where_ok && busy_ok then set_inner_busy r t s' else r
      else if Nat.eqb t 0 then
        match pc_of r 0, e with
        | TOut, MWaitLeave => r                                  (* only at TPassed, by RBar 0 *)
        | TOut, MStart =>
            if is_idle_m (master s) && negb (started s) && (busy_of r 0 =? 0)
            then arrive (set_inner_busy r 0 s') 0 TWaitS TInc else r
        | TOut, MWaitEnter =>
            if is_idle_m (master s) && started s && (busy_of r 0 =? 0)
            then set_pc (set_inner_busy r 0 s') 0 TLoop else r
        | TOut, MTpLeave q => if busy_of r 0 =? 0 then set_inner_busy r 0 s' else r
        | TOut, _ => set_inner_busy r 0 s'
        | _, _ => r
        end
      else r
  end.

(* n threads; the workers wait at the barrier of the first round *)
Definition rinit (decls : list pdecl) (n : nat) : rstate :=
  mkR (init decls) (TOut :: repeat (TWaitS 0) (n - 1)) (repeat 0 n) 0 (n - 1) false.

Definition rrun (decls : list pdecl) (n : nat) (evs : list revent) : rstate :=
  fold_left rstep evs (rinit decls n).
