(* Proofs for PTGVal/ValEngine.v: for EVERY schedule, on a hazard-free (Safe) program,
   the body of every task reads exactly the values the JDF names (Vin), and the final
   memory of a complete run does not depend on the schedule. *)
From Coq Require Import ZArith List Arith Bool Lia.
From PV Require Import Base.Tac PTG.Engine PTG.EngineProofs PTGVal.ValEngine.
Import ListNotations.

Section ValEngineProofs.
  Variable task : Type.
  Variable teq : forall a b : task, {a = b} + {a <> b}.
  Variable tasks : list task.
  Variable preds succs : task -> list task.
  Variable nfl : task -> nat.
  Variable src : task -> nat -> source task.
  Variable reads writes : task -> nat -> bool.
  Variable wbs : task -> list (nat * Z).
  Variable F : task -> nat -> list (nat * Z) -> Z.
  Variable D0 : Z -> Z.
  Variable U0 : task -> nat -> Z.
  Variable rank : task -> nat.

  (* the finite DAG (as in EngineProofs) *)
  Hypothesis H_conv : forall p t, In p tasks -> In t tasks ->
                                  count_occ teq (succs p) t = count_occ teq (preds t) p.
  Hypothesis H_succ_in : forall p s, In p tasks -> In s (succs p) -> In s tasks.
  Hypothesis H_pred_in : forall t p, In t tasks -> In p (preds t) -> In p tasks.
  Hypothesis H_rank : forall t p, In t tasks -> In p (preds t) -> rank p < rank t.
  (* a data input from a task is one of the dependency edges *)
  Hypothesis H_src : forall t f p fp, In t tasks -> src t f = STask p fp -> In p (preds t).
  (* written flows are flows of the class *)
  Hypothesis H_wr_nfl : forall t f, writes t f = true -> f < nfl t.

  Local Notation cellT := (cell task).
  Local Notation vstateT := (vstate task).
  Local Notation vstepE := (vstep task teq tasks succs nfl src reads writes wbs F).
  Local Notation vinitE := (vinit task teq tasks preds D0 U0).
  Local Notation vrunE := (vrun task teq tasks preds succs nfl src reads writes wbs F D0 U0).
  Local Notation BE := (B task src rank).
  Local Notation BnE := (Bn task src).
  Local Notation VoutE := (Vout task nfl src reads writes F D0 U0 rank).
  Local Notation VonE := (Von task nfl src reads writes F D0 U0).
  Local Notation VinE := (Vin task nfl src reads writes F D0 U0 rank).
  Local Notation expectedE := (expected_reads task nfl src reads writes F D0 U0 rank).
  Local Notation ancE := (anc task preds).
  Local Notation SafeE := (Safe task tasks preds src writes wbs rank).
  Local Notation InvE := (Inv task teq tasks preds).
  Local Notation stE := (st task).
  Local Notation rflowsE := (rflows task nfl reads).
  Local Notation init_memE := (init_mem task D0 U0).
  Local Notation cdec := (cell_eq_dec task teq).

  Hypothesis H_safe : SafeE.

  (* ------------------------------------------------------------ static functions *)
  Lemma Bn_indep : forall n m t f, In t tasks -> rank t < n -> rank t < m -> BnE n t f = BnE m t f.
  Proof.
    induction n as [|n IH]; intros m t f Ht Hn Hm; [lia|].
    destruct m as [|m]; [lia|]. cbn [Bn].
    destruct (src t f) as [|p fp|k| |] eqn:Es; try reflexivity.
    pose proof (H_src t f p fp Ht Es) as Hp.
    pose proof (H_rank t p Ht Hp). apply IH; [apply (H_pred_in t p Ht Hp)|lia|lia].
  Qed.

  Lemma B_eq t f : In t tasks ->
    BE t f = match src t f with
             | STask p fp => BE p fp
             | SMem k => Some (CMem k)
             | SNew => Some (CNew t f)
             | _ => None
             end.
  Proof.
    intros Ht. unfold B at 1. cbn [Bn].
    destruct (src t f) as [|p fp|k| |] eqn:Es; try reflexivity.
    pose proof (H_src t f p fp Ht Es) as Hp. pose proof (H_rank t p Ht Hp).
    unfold B. apply Bn_indep; [apply (H_pred_in t p Ht Hp)|lia|lia].
  Qed.

  Lemma Von_indep : forall n m t f, In t tasks -> rank t < n -> rank t < m -> VonE n t f = VonE m t f.
  Proof.
    induction n as [|n IH]; intros m t f Ht Hn Hm; [lia|].
    destruct m as [|m]; [lia|]. cbn [Von].
    assert (Hv : forall g, match src t g with STask p fp => VonE n p fp | SMem k => D0 k | SNew => U0 t g | _ => vnull end
                         = match src t g with STask p fp => VonE m p fp | SMem k => D0 k | SNew => U0 t g | _ => vnull end).
    { intros g. destruct (src t g) as [|p fp|k| |] eqn:Es; try reflexivity.
      pose proof (H_src t g p fp Ht Es) as Hp. pose proof (H_rank t p Ht Hp).
      apply IH; [apply (H_pred_in t p Ht Hp)|lia|lia]. }
    destruct (writes t f); [|apply Hv].
    f_equal. apply map_ext. intros g. rewrite Hv. reflexivity.
  Qed.

  Lemma Vin_fuel t g : In t tasks ->
    match src t g with STask p fp => VonE (rank t) p fp | SMem k => D0 k | SNew => U0 t g | _ => vnull end = VinE t g.
  Proof.
    intros Ht. unfold Vin. destruct (src t g) as [|p fp|k| |] eqn:Es; try reflexivity.
    pose proof (H_src t g p fp Ht Es) as Hp. pose proof (H_rank t p Ht Hp).
    unfold Vout. apply Von_indep; [apply (H_pred_in t p Ht Hp)|lia|lia].
  Qed.

  Lemma Vout_eq t f : In t tasks ->
    VoutE t f = if writes t f then F t f (expectedE t) else VinE t f.
  Proof.
    intros Ht. unfold Vout. cbn [Von].
    destruct (writes t f); [|apply Vin_fuel; assumption].
    f_equal. unfold expected_reads. apply map_ext. intros g. rewrite Vin_fuel by assumption. reflexivity.
  Qed.

  Lemma anc_in_rank p t : ancE p t -> In t tasks -> In p tasks /\ rank p < rank t.
  Proof.
    induction 1 as [p t Hp|p q t Hpq IH Hq]; intros Ht.
    - split; [apply (H_pred_in t p Ht Hp)|apply (H_rank t p Ht Hp)].
    - pose proof (H_pred_in t q Ht Hq) as Hqt. pose proof (H_rank t q Ht Hq).
      destruct (IH Hqt) as [H1 H2]. split; [assumption|lia].
  Qed.

  Lemma anc_irrefl t : In t tasks -> ~ ancE t t.
  Proof. intros Ht H. destruct (anc_in_rank t t H Ht). lia. Qed.
  Lemma anc_asym p t : In t tasks -> ancE p t -> ~ ancE t p.
  Proof.
    intros Ht H1 H2. destruct (anc_in_rank p t H1 Ht) as [Hp Hr].
    destruct (anc_in_rank t p H2 Hp). lia.
  Qed.

  (* a flow without copy holds NULL *)
  Lemma none_vout : forall n p fp, rank p < n -> In p tasks -> BE p fp = None -> VoutE p fp = vnull.
  Proof.
    induction n as [|n IH]; intros p fp Hr Hp Hb; [lia|].
    rewrite Vout_eq by assumption.
    destruct (writes p fp) eqn:Ew; [exfalso; apply (sf_wr_cell _ _ _ _ _ _ _ H_safe p fp Hp Ew Hb)|].
    rewrite B_eq in Hb by assumption. unfold Vin.
    destruct (src p fp) as [|q fq|k| |] eqn:Es; try reflexivity; try discriminate.
    pose proof (H_src p fp q fq Hp Es) as Hq. pose proof (H_rank p q Hp Hq).
    apply IH; [lia|apply (H_pred_in p q Hp Hq)|assumption].
  Qed.
  Lemma none_vin t g : In t tasks -> BE t g = None -> VinE t g = vnull.
  Proof.
    intros Ht Hb. rewrite B_eq in Hb by assumption. unfold Vin.
    destruct (src t g) as [|q fq|k| |] eqn:Es; try reflexivity; try discriminate.
    pose proof (H_src t g q fq Ht Es) as Hq.
    apply (none_vout (S (rank q))); [lia|apply (H_pred_in t q Ht Hq)|assumption].
  Qed.

  (* ------------------------------------------------------------ the core steps *)
  Definition cls (s : status) : nat := match s with Running => 1 | Done => 2 | _ => 0 end.
  Lemma cls_running s : cls s = 1 <-> s = Running.
  Proof. destruct s; cbn; split; intros H; try discriminate; reflexivity. Qed.
  Lemma cls_done s : cls s = 2 <-> s = Done.
  Proof. destruct s; cbn; split; intros H; try discriminate; reflexivity. Qed.
  Lemma cls_rel1 s : cls (rel1 s) = cls s.
  Proof. destruct s as [|[|[|n]]| | |]; reflexivity. Qed.
  Lemma cls_start1 s : cls (start1 s) = cls s.
  Proof. destruct s as [|[|n]| | |]; reflexivity. Qed.
  Lemma cls_iter k s : cls (Nat.iter k rel1 s) = cls s.
  Proof. induction k as [|k IH]; [reflexivity|]. rewrite iter_S, cls_rel1. exact IH. Qed.

  Local Notation stepE := (step task teq tasks succs).

  Lemma cls_step_begin c t : stE c t = Ready ->
    forall v, cls (stE (stepE c (Begin t)) v) = if teq v t then 1 else cls (stE c v).
  Proof.
    intros Ht v. cbn [step]. rewrite Ht. cbn [st].
    destruct (teq v t) as [->|Hne]; [rewrite upd_same; reflexivity|rewrite upd_other by assumption; reflexivity].
  Qed.
  Lemma cls_step_end c t : stE c t = Running ->
    forall v, cls (stE (stepE c (End t)) v) = if teq v t then 2 else cls (stE c v).
  Proof.
    intros Ht v. cbn [step]. rewrite Ht. cbn [st].
    rewrite fold_release, cls_iter.
    destruct (teq v t) as [->|Hne]; [rewrite upd_same; reflexivity|rewrite upd_other by assumption; reflexivity].
  Qed.
  Lemma cls_step_begin_off c t : stE c t <> Ready -> stepE c (Begin t) = c.
  Proof. intros Ht. cbn [step]. destruct (stE c t); try reflexivity. congruence. Qed.
  Lemma cls_step_end_off c t : stE c t <> Running -> stepE c (End t) = c.
  Proof. intros Ht. cbn [step]. destruct (stE c t); try reflexivity. congruence. Qed.
  Lemma cls_step_startup c v : cls (stE (stepE c Startup) v) = cls (stE c v).
  Proof.
    cbn [step st]. rewrite fold_start. destruct (in_dec teq v tasks); [apply cls_start1|reflexivity].
  Qed.
  Lemma cls_step_startup1 c t v : cls (stE (stepE c (StartupOne t)) v) = cls (stE c v).
  Proof.
    cbn [step st]. unfold start_one.
    destruct (teq v t) as [->|Hne]; [rewrite upd_same; apply cls_start1|rewrite upd_other by assumption; reflexivity].
  Qed.

  (* a task that has started (or is about to: Ready) has all its ancestors done *)
  Lemma preds_done c t p : InvE c -> In t tasks -> In p (preds t) ->
    (stE c t = Ready \/ stE c t = Running \/ stE c t = Done) -> stE c p = Done.
  Proof.
    intros I Ht Hp Hs. pose proof (inv_count _ _ _ _ c I t Ht) as Hc.
    apply (pending_zero_all_done task preds (stE c) t); [|assumption].
    destruct Hs as [Hs|[Hs|Hs]]; rewrite Hs in Hc; exact Hc.
  Qed.
  Lemma anc_done c p t : InvE c -> ancE p t -> In t tasks ->
    (stE c t = Ready \/ stE c t = Running \/ stE c t = Done) -> stE c p = Done.
  Proof.
    intros I H. induction H as [p t Hp|p q t Hpq IH Hq]; intros Ht Hs.
    - apply (preds_done c t p I Ht Hp Hs).
    - apply IH; [apply (H_pred_in t q Ht Hq)|]. right; right. apply (preds_done c t q I Ht Hq Hs).
  Qed.
  (* ------------------------------------------------------------ memory updates *)
  Local Notation mupdE := (mupd task teq).
  Lemma mupd_same m c v : mupdE m c v c = v.
  Proof. unfold mupd. destruct (cdec c c); congruence. Qed.
  Lemma mupd_other m c v x : x <> c -> mupdE m c v x = m x.
  Proof. unfold mupd. destruct (cdec x c); congruence. Qed.

  Local Notation write1E := (write1 task teq writes F).

  Lemma fold_nowrite (s : vstateT) t rv c : forall l m,
    (forall h, In h l -> writes t h = true -> bind task s t h <> Some c) ->
    fold_left (write1E s t rv) l m c = m c.
  Proof.
    induction l as [|a l IH]; intros m H; cbn [fold_left]; [reflexivity|].
    rewrite IH by (intros h Hh; apply H; right; assumption).
    unfold write1. destruct (writes t a) eqn:Ew; [|reflexivity].
    destruct (bind task s t a) as [c'|] eqn:Eb; [|reflexivity].
    apply mupd_other. intros ->. apply (H a (or_introl eq_refl) Ew). assumption.
  Qed.

  Lemma fold_write (s : vstateT) t rv c h : forall l m,
    NoDup l -> In h l -> writes t h = true -> bind task s t h = Some c ->
    (forall h', In h' l -> writes t h' = true -> bind task s t h' = Some c -> h' = h) ->
    fold_left (write1E s t rv) l m c = F t h rv.
  Proof.
    induction l as [|a l IH]; intros m Hnd Hin Hw Hb Hu; [destruct Hin|].
    cbn [fold_left]. inversion Hnd as [|a' l' Hna Hnd']; subst.
    destruct (Nat.eq_dec a h) as [->|Hne].
    - rewrite fold_nowrite.
      + unfold write1. rewrite Hw, Hb. apply mupd_same.
      + intros h' Hh' Hw' Hb'. apply Hna. rewrite <- (Hu h' (or_intror Hh') Hw' Hb'). assumption.
    - destruct Hin as [Hin|Hin]; [congruence|].
      apply IH; try assumption. intros h' Hh'. apply Hu. right; assumption.
  Qed.

  Lemma remove_nth_in {A} (x : A) : forall i l, In x (remove_nth i l) -> In x l.
  Proof.
    induction i as [|i IH]; intros [|a l] H; cbn [remove_nth] in H; try contradiction.
    - right; assumption.
    - destruct H as [H|H]; [left; assumption|right; apply IH; assumption].
  Qed.
  Lemma remove_nth_keep {A} (x y : A) : forall i l, nth_error l i = Some y -> x <> y -> In x l -> In x (remove_nth i l).
  Proof.
    induction i as [|i IH]; intros [|a l] Hn Hne Hin; cbn [nth_error remove_nth] in *; try discriminate.
    - inversion Hn; subst. destruct Hin as [Hin|Hin]; [congruence|assumption].
    - destruct Hin as [Hin|Hin]; [left; assumption|right; apply IH; assumption].
  Qed.
  Lemma remove_nth_nodup {A} : forall i (l : list A), NoDup l -> NoDup (remove_nth i l).
  Proof.
    induction i as [|i IH]; intros [|a l] H; cbn [remove_nth].
    - constructor.
    - inversion H; assumption.
    - constructor.
    - inversion H as [|a' l' Hna Hnd]; subst. constructor; [|apply IH; assumption].
      intros Hin. apply Hna. apply (remove_nth_in a i l Hin).
  Qed.
  Lemma remove_nth_gone {A} (y : A) : forall i l, NoDup l -> nth_error l i = Some y -> ~ In y (remove_nth i l).
  Proof.
    induction i as [|i IH]; intros [|a l] Hnd Hn; cbn [nth_error remove_nth] in *; try discriminate.
    - inversion Hn; subst. inversion Hnd; assumption.
    - inversion Hnd as [|a' l' Hna Hnd']; subst. intros [H|H].
      + subst. apply Hna. apply (nth_error_In l i Hn).
      + apply (IH l Hnd' Hn H).
  Qed.
  Lemma remove_nth_length {A} : forall i (l : list A), i < length l -> length (remove_nth i l) = pred (length l).
  Proof.
    induction i as [|i IH]; intros [|a l] H; cbn [remove_nth length] in *; try lia.
    rewrite IH by lia. destruct l; cbn [length] in *; lia.
  Qed.

  (* ------------------------------------------------------------ the invariant *)
  Definition CellOK (s : vstateT) (c : cellT) : Prop :=
    ((forall v h, In v tasks -> BE v h = Some c -> writes v h = true -> stE (core task s) v <> Done)
     /\ mem task s c = init_memE c)
    \/ (exists v h, In v tasks /\ BE v h = Some c /\ writes v h = true /\ stE (core task s) v = Done
                    /\ mem task s c = VoutE v h
                    /\ (forall v' h', In v' tasks -> BE v' h' = Some c -> writes v' h' = true ->
                                      stE (core task s) v' = Done -> v' = v \/ ancE v' v))
    \/ (exists t f k c0, c = CMem k /\ In t tasks /\ In (f, k) (wbs t) /\ BE t f = Some c0 /\ c0 <> CMem k).

  Record VInv (s : vstateT) : Prop := {
    vi_core : InvE (core task s);
    vi_bind : forall t, In t tasks -> (stE (core task s) t = Running \/ stE (core task s) t = Done) ->
                        forall f, bind task s t f = BE t f;
    vi_live : forall t g c, In t tasks -> stE (core task s) t = Running -> BE t g = Some c ->
                            mem task s c = VinE t g;
    vi_rlog : forall t, In t tasks -> stE (core task s) t = Done -> rlog task s t = expectedE t;
    vi_cell : forall c, CellOK s c;
    vi_wb : forall t f k c, In t tasks -> In (f, k) (wbs t) -> BE t f = Some c -> c <> CMem k ->
                            stE (core task s) t = Done ->
                            (In (c, k) (pend task s) /\ mem task s c = VoutE t f)
                            \/ (~ In (c, k) (pend task s) /\ mem task s (CMem k) = VoutE t f);
    vi_pend : forall c k, In (c, k) (pend task s) ->
                          exists t f, In t tasks /\ In (f, k) (wbs t) /\ BE t f = Some c /\ c <> CMem k
                                      /\ stE (core task s) t = Done;
    vi_pend_nodup : NoDup (pend task s)
  }.

  Lemma VInv_init : VInv vinitE.
  Proof.
    assert (Hnd : forall t, stE (init task teq tasks preds) t <> Done /\ stE (init task teq tasks preds) t <> Running).
    { intros t. cbn. destruct (in_dec teq t tasks); split; discriminate. }
    split; cbn [vinit core bind mem rlog pend].
    - apply Inv_init.
    - intros t _ [H|H]; exfalso; destruct (Hnd t); auto.
    - intros t g c _ H. exfalso. destruct (Hnd t); auto.
    - intros t _ H. exfalso. destruct (Hnd t); auto.
    - intros c. left. split; [|reflexivity]. intros v h _ _ _. apply (Hnd v).
    - intros t f k c _ _ _ _ H. exfalso. destruct (Hnd t); auto.
    - intros c k [].
    - constructor.
  Qed.

  (* ---- the value found in a copy when all the producers up the chain are done *)
  (* no writer of the copy has completed: the copy still has its initial content *)
  Lemma chain_init (s : vstateT) c : InvE (core task s) ->
    (forall v h, In v tasks -> BE v h = Some c -> writes v h = true -> stE (core task s) v <> Done) ->
    forall n p fp, rank p < n -> In p tasks -> stE (core task s) p = Done -> BE p fp = Some c ->
    VoutE p fp = init_memE c.
  Proof.
    intros I Hnw. induction n as [|n IH]; intros p fp Hr Hp Hd Hb; [lia|].
    rewrite Vout_eq by assumption.
    destruct (writes p fp) eqn:Ew; [exfalso; apply (Hnw p fp Hp Hb Ew Hd)|].
    rewrite B_eq in Hb by assumption. unfold Vin.
    destruct (src p fp) as [|q fq|k| |] eqn:Es; try discriminate.
    - pose proof (H_src p fp q fq Hp Es) as Hq. pose proof (H_rank p q Hp Hq).
      apply IH; [lia|apply (H_pred_in p q Hp Hq)| |assumption].
      apply (preds_done (core task s) p q I Hp Hq). right; right; assumption.
    - inversion Hb; reflexivity.
    - inversion Hb; reflexivity.
  Qed.

  (* (v, h) is the last completed writer of the copy and sits at or above (p, fp) in its chain *)
  Lemma chain_last (s : vstateT) c v h : InvE (core task s) ->
    In v tasks -> BE v h = Some c -> writes v h = true -> stE (core task s) v = Done ->
    (forall v' h', In v' tasks -> BE v' h' = Some c -> writes v' h' = true ->
                   stE (core task s) v' = Done -> v' = v \/ ancE v' v) ->
    forall n p fp, rank p < n -> In p tasks -> stE (core task s) p = Done -> BE p fp = Some c ->
    (v = p \/ ancE v p) -> VoutE p fp = VoutE v h.
  Proof.
    intros I Hv Hbv Hwv Hdv Hmax. induction n as [|n IH]; intros p fp Hr Hp Hd Hb Hrel; [lia|].
    destruct Hrel as [->|Hanc].
    - rewrite (sf_same _ _ _ _ _ _ _ H_safe p fp h c Hp Hb Hbv Hwv). reflexivity.
    - assert (Hne : p <> v) by (intros ->; apply (anc_irrefl v Hv Hanc)).
      rewrite (Vout_eq p fp Hp).
      destruct (writes p fp) eqn:Ew.
      { exfalso. destruct (Hmax p fp Hp Hb Ew Hd) as [->|H2]; [congruence|].
        apply (anc_asym v p Hp Hanc H2). }
      pose proof (sf_order _ _ _ _ _ _ _ H_safe p fp v h c Hp Hv Hne Hb Hbv Hwv) as Ho.
      destruct Ho as [Ho|[_ Ho]]; [exfalso; apply (anc_asym v p Hp Hanc Ho)|].
      unfold Vin. destruct (src p fp) as [|q fq|k| |] eqn:Es; try contradiction.
      pose proof (H_src p fp q fq Hp Es) as Hq. pose proof (H_rank p q Hp Hq).
      apply IH; [lia|apply (H_pred_in p q Hp Hq)| | |assumption].
      + apply (preds_done (core task s) p q I Hp Hq). right; right; assumption.
      + rewrite B_eq in Hb by assumption. rewrite Es in Hb. assumption.
  Qed.

  (* what a task finds in the copies of its flows when it starts *)
  Lemma begin_values (s : vstateT) t : VInv s -> In t tasks -> stE (core task s) t = Ready ->
    forall g c, BE t g = Some c -> mem task s c = VinE t g.
  Proof.
    intros V Ht Hst g c Hb. pose proof (vi_core s V) as I.
    assert (Hnd : stE (core task s) t <> Done) by (rewrite Hst; discriminate).
    pose proof Hb as Hb0. rewrite B_eq in Hb by assumption.
    destruct (vi_cell s V c) as [[Hnw Hm]|[(v & h & Hv & Hbv & Hwv & Hdv & Hm & Hmax)|(t0 & f0 & k0 & c0 & Hc & Ht0 & Hwb & Hb00 & Hc0)]].
    - (* initial content *)
      rewrite Hm. unfold Vin. destruct (src t g) as [|p fp|k| |] eqn:Es; try discriminate.
      + pose proof (H_src t g p fp Ht Es) as Hp. symmetry.
        apply (chain_init s c I Hnw (S (rank p)) p fp); [lia|apply (H_pred_in t p Ht Hp)| |assumption].
        apply (preds_done (core task s) t p I Ht Hp). left; assumption.
      + inversion Hb; reflexivity.
      + inversion Hb; reflexivity.
    - (* last completed writer *)
      assert (Hne : t <> v) by (intros ->; congruence).
      pose proof (sf_order _ _ _ _ _ _ _ H_safe t g v h c Ht Hv Hne Hb0 Hbv Hwv) as Ho.
      destruct Ho as [Ho|[_ Ho]].
      { exfalso. apply Hnd. apply (anc_done (core task s) t v I Ho Hv). right; right; assumption. }
      rewrite Hm. unfold Vin. destruct (src t g) as [|p fp|k| |] eqn:Es; try contradiction.
      pose proof (H_src t g p fp Ht Es) as Hp. symmetry.
      apply (chain_last s c v h I Hv Hbv Hwv Hdv Hmax (S (rank p)) p fp); [lia|apply (H_pred_in t p Ht Hp)| |assumption|assumption].
      apply (preds_done (core task s) t p I Ht Hp). left; assumption.
    - (* destination of a write-back: nobody holds it *)
      exfalso. subst c. apply (sf_wb_tgt _ _ _ _ _ _ _ H_safe t0 f0 k0 c0 t g Ht0 Hwb Hb00 Hc0 Ht Hb0).
  Qed.
  (* ---- preservation *)
  Lemma in_tasks_of_status c t : InvE c -> stE c t <> Absent -> In t tasks.
  Proof.
    intros I H. destruct (in_dec teq t tasks) as [Hi|Hi]; [assumption|].
    exfalso. apply H. apply (inv_absent _ _ _ _ c I t Hi).
  Qed.

  (* a step that changes neither memory, bindings, posted copies nor which tasks run or are done *)
  Lemma VInv_frame (s s' : vstateT) : VInv s -> InvE (core task s') ->
    (forall v, cls (stE (core task s') v) = cls (stE (core task s) v)) ->
    bind task s' = bind task s -> mem task s' = mem task s -> rlog task s' = rlog task s ->
    pend task s' = pend task s -> VInv s'.
  Proof.
    intros V I Hc Hb Hm Hr Hp.
    assert (Hd : forall v, stE (core task s') v = Done <-> stE (core task s) v = Done)
      by (intros v; rewrite <- !cls_done, Hc; tauto).
    assert (Hrn : forall v, stE (core task s') v = Running <-> stE (core task s) v = Running)
      by (intros v; rewrite <- !cls_running, Hc; tauto).
    split.
    - assumption.
    - intros t Ht Hs f. rewrite Hb. apply (vi_bind s V t Ht). rewrite <- Hd, <- Hrn. assumption.
    - intros t g c Ht Hs Hbc. rewrite Hm. apply (vi_live s V t g c Ht); [apply Hrn; assumption|assumption].
    - intros t Ht Hs. rewrite Hr. apply (vi_rlog s V t Ht). apply Hd; assumption.
    - intros c. unfold CellOK. rewrite Hm.
      destruct (vi_cell s V c) as [[Hnw Hmm]|[(v & h & Hv & Hbv & Hwv & Hdv & Hmm & Hmax)|HT]].
      + left. split; [|assumption]. intros v h Hv Hbv Hwv Hdone. apply (Hnw v h Hv Hbv Hwv). apply Hd; assumption.
      + right; left. exists v, h. repeat split; try assumption; [apply Hd; assumption|].
        intros v' h' Hv' Hb' Hw' Hd'. apply (Hmax v' h' Hv' Hb' Hw'). apply Hd; assumption.
      + right; right. exact HT.
    - intros t f k c Ht Hwb Hbc Hck Hs. rewrite Hp, Hm. apply (vi_wb s V t f k c Ht Hwb Hbc Hck). apply Hd; assumption.
    - intros c k Hin. rewrite Hp in Hin. destruct (vi_pend s V c k Hin) as (t & f & H1 & H2 & H3 & H4 & H5).
      exists t, f. repeat split; try assumption. apply Hd; assumption.
    - rewrite Hp. apply (vi_pend_nodup s V).
  Qed.

  Lemma reads_ok (s : vstateT) t : VInv s -> In t tasks -> stE (core task s) t = Running ->
    body_reads task nfl reads s t = expectedE t.
  Proof.
    intros V Ht Hs. unfold body_reads, expected_reads. apply map_ext. intros g. f_equal.
    unfold rdval. rewrite (vi_bind s V t Ht (or_introl Hs) g).
    destruct (BE t g) as [c|] eqn:Eb.
    - apply (vi_live s V t g c Ht Hs Eb).
    - symmetry. apply none_vin; assumption.
  Qed.

  Lemma writer_dec t c : forall n,
    {h | h < n /\ writes t h = true /\ BE t h = Some c} + {forall h, h < n -> writes t h = true -> BE t h <> Some c}.
  Proof.
    induction n as [|n [(h & H1 & H2 & H3)|IH]].
    - right. intros h Hh. lia.
    - left. exists h. repeat split; [lia|assumption|assumption].
    - destruct (writes t n) eqn:Ew.
      + destruct (BE t n) as [c'|] eqn:Eb.
        * destruct (cdec c' c) as [->|Hne].
          -- left. exists n. repeat split; [lia|assumption|assumption].
          -- right. intros h Hh Hw. destruct (Nat.eq_dec h n) as [->|Hn]; [rewrite Eb; congruence|apply IH; [lia|assumption]].
        * right. intros h Hh Hw. destruct (Nat.eq_dec h n) as [->|Hn]; [rewrite Eb; discriminate|apply IH; [lia|assumption]].
      + right. intros h Hh Hw. destruct (Nat.eq_dec h n) as [->|Hn]; [congruence|apply IH; [lia|assumption]].
  Qed.

  Lemma nodup_app {A} (l1 l2 : list A) : NoDup l1 -> NoDup l2 -> (forall x, In x l1 -> In x l2 -> False) -> NoDup (l1 ++ l2).
  Proof.
    induction l1 as [|a l1 IH]; intros H1 H2 Hd; cbn [app]; [assumption|].
    inversion H1 as [|a' l' Hna Hnd]; subst. constructor.
    - intros Hin. apply in_app_or in Hin. destruct Hin as [Hin|Hin]; [contradiction|].
      apply (Hd a (or_introl eq_refl) Hin).
    - apply IH; [assumption|assumption|]. intros x Hx. apply Hd. right; assumption.
  Qed.

  Lemma in_new_copies (s : vstateT) t c k :
    In (c, k) (new_copies task teq wbs s t) <-> exists f, In (f, k) (wbs t) /\ bind task s t f = Some c /\ c <> CMem k.
  Proof.
    unfold new_copies. rewrite in_flat_map. split.
    - intros ([f k'] & Hin & H). cbn [fst snd] in H.
      destruct (bind task s t f) as [c'|] eqn:Eb; [|destruct H].
      destruct (cdec c' (CMem k')) as [->|Hne]; [destruct H|].
      destruct H as [H|[]]. inversion H; subst. exists f. repeat split; assumption.
    - intros (f & Hin & Hb & Hne). exists (f, k). split; [assumption|]. cbn [fst snd]. rewrite Hb.
      destruct (cdec c (CMem k)); [contradiction|left; reflexivity].
  Qed.

  Lemma nodup_flat_map_inj {A C} (g : A -> list C) : forall l : list A, NoDup l ->
    (forall x, In x l -> NoDup (g x)) ->
    (forall x y z, In x l -> In y l -> In z (g x) -> In z (g y) -> x = y) ->
    NoDup (flat_map g l).
  Proof.
    induction l as [|a l IH]; intros Hnd Hg Hinj; cbn [flat_map]; [constructor|].
    inversion Hnd as [|a' l' Hna Hnd']; subst.
    apply nodup_app.
    - apply Hg. left; reflexivity.
    - apply IH; [assumption| |].
      + intros x Hx. apply Hg. right; assumption.
      + intros x y z Hx Hy. apply Hinj; right; assumption.
    - intros z H1 H2. apply in_flat_map in H2. destruct H2 as (y & Hy & H2).
      assert (a = y) by (apply (Hinj a y z); [left; reflexivity|right; assumption|assumption|assumption]).
      subst y. contradiction.
  Qed.

  Lemma nodup_new_copies (s : vstateT) t : VInv s -> In t tasks -> stE (core task s) t = Running ->
    NoDup (new_copies task teq wbs s t).
  Proof.
    intros V Ht Hs. unfold new_copies. apply nodup_flat_map_inj.
    - apply (sf_wb_nodup _ _ _ _ _ _ _ H_safe t Ht).
    - intros [f k] _. cbn [fst snd]. destruct (bind task s t f) as [c|]; [|constructor].
      destruct (cdec c (CMem k)); [constructor|]. constructor; [intros []|constructor].
    - intros [f k] [f2 k2] [c k'] H1 H2 Hz1 Hz2. cbn [fst snd] in Hz1, Hz2.
      destruct (bind task s t f) as [c1|] eqn:Eb; [|destruct Hz1].
      destruct (cdec c1 (CMem k)) as [|Hne1]; [destruct Hz1|].
      destruct Hz1 as [Hz1|[]]. inversion Hz1; subst c1 k'.
      destruct (bind task s t f2) as [c2|] eqn:Eb2; [|destruct Hz2].
      destruct (cdec c2 (CMem k2)) as [|Hne2]; [destruct Hz2|].
      destruct Hz2 as [Hz2|[]]. inversion Hz2; subst c2 k2.
      rewrite (vi_bind s V t Ht (or_introl Hs)) in Eb, Eb2.
      destruct (sf_wb_uniq _ _ _ _ _ _ _ H_safe t f k c t f2 c Ht Ht H1 H2 Eb Hne1 Eb2 Hne2) as [_ ->].
      reflexivity.
  Qed.
  Lemma VInv_begin (s : vstateT) t : VInv s -> stE (core task s) t = Ready -> VInv (vstepE s (VE (Begin t))).
  Proof.
    intros V Hst. pose proof (vi_core s V) as I.
    assert (Ht : In t tasks) by (apply (in_tasks_of_status (core task s) t I); rewrite Hst; discriminate).
    cbn [vstep]. rewrite Hst.
    set (c' := stepE (core task s) (Begin t)).
    assert (I' : InvE c') by (apply Inv_step; assumption).
    assert (Hc : forall v, cls (stE c' v) = if teq v t then 1 else cls (stE (core task s) v))
      by (apply cls_step_begin; assumption).
    assert (Hd : forall v, stE c' v = Done <-> stE (core task s) v = Done).
    { intros v. rewrite <- !cls_done, Hc. destruct (teq v t) as [->|]; [|tauto].
      rewrite Hst. cbn. split; discriminate. }
    assert (Hrn : forall v, stE c' v = Running <-> v = t \/ stE (core task s) v = Running).
    { intros v. rewrite <- !cls_running, Hc. destruct (teq v t) as [->|Hne]; [tauto|].
      split; [tauto|]. intros [H|H]; [contradiction|assumption]. }
    split; cbn [core bind mem rlog pend].
    - assumption.
    - intros v Hv Hs f. destruct (teq v t) as [->|Hne].
      + unfold lookup. rewrite (B_eq t f Ht).
        destruct (src t f) as [|p fp|k| |] eqn:Es; try reflexivity.
        pose proof (H_src t f p fp Ht Es) as Hp.
        apply (vi_bind s V p (H_pred_in t p Ht Hp)). right.
        apply (preds_done (core task s) t p I Ht Hp). left; assumption.
      + apply (vi_bind s V v Hv). destruct Hs as [Hs|Hs].
        * apply Hrn in Hs. destruct Hs as [Hs|Hs]; [contradiction|left; assumption].
        * right. apply Hd; assumption.
    - intros v g c Hv Hs Hb. apply Hrn in Hs. destruct Hs as [->|Hs].
      + apply (begin_values s t V Ht Hst g c Hb).
      + apply (vi_live s V v g c Hv Hs Hb).
    - intros v Hv Hs. apply (vi_rlog s V v Hv). apply Hd; assumption.
    - intros c. unfold CellOK. cbn [core mem].
      destruct (vi_cell s V c) as [[Hnw Hmm]|[(v & h & Hv & Hbv & Hwv & Hdv & Hmm & Hmax)|HT]].
      + left. split; [|assumption]. intros v h Hv Hbv Hwv Hdone. apply (Hnw v h Hv Hbv Hwv). apply Hd; assumption.
      + right; left. exists v, h. repeat split; try assumption; [apply Hd; assumption|].
        intros v' h' Hv' Hb' Hw' Hd'. apply (Hmax v' h' Hv' Hb' Hw'). apply Hd; assumption.
      + right; right. exact HT.
    - intros v f k c Hv Hwb Hbc Hck Hs. apply (vi_wb s V v f k c Hv Hwb Hbc Hck). apply Hd; assumption.
    - intros c k Hin. destruct (vi_pend s V c k Hin) as (v & f & H1 & H2 & H3 & H4 & H5).
      exists v, f. repeat split; try assumption. apply Hd; assumption.
    - apply (vi_pend_nodup s V).
  Qed.

  Lemma VInv_end (s : vstateT) t : VInv s -> stE (core task s) t = Running -> VInv (vstepE s (VE (End t))).
  Proof.
    intros V Hst. pose proof (vi_core s V) as I.
    assert (Ht : In t tasks) by (apply (in_tasks_of_status (core task s) t I); rewrite Hst; discriminate).
    cbn [vstep]. rewrite Hst.
    set (c' := stepE (core task s) (End t)).
    assert (I' : InvE c') by (apply Inv_step; assumption).
    assert (Hc : forall v, cls (stE c' v) = if teq v t then 2 else cls (stE (core task s) v))
      by (apply cls_step_end; assumption).
    assert (Hd : forall v, stE c' v = Done <-> v = t \/ stE (core task s) v = Done).
    { intros v. rewrite <- !cls_done, Hc. destruct (teq v t) as [->|Hne]; [tauto|].
      split; [tauto|]. intros [H|H]; [contradiction|assumption]. }
    assert (Hrn : forall v, stE c' v = Running <-> v <> t /\ stE (core task s) v = Running).
    { intros v. rewrite <- !cls_running, Hc. destruct (teq v t) as [->|Hne]; [|tauto].
      split; [discriminate|]. intros [H _]; congruence. }
    assert (Hnd : stE (core task s) t <> Done) by (rewrite Hst; discriminate).
    pose proof (vi_bind s V t Ht (or_introl Hst)) as Hbind.
    rewrite (reads_ok s t V Ht Hst).
    set (rv := expectedE t).
    (* the memory after the body *)
    assert (W1 : forall h c, writes t h = true -> BE t h = Some c ->
                             body_writes task teq nfl writes F s t rv c = VoutE t h).
    { intros h c Hw Hb. unfold body_writes.
      rewrite (fold_write s t rv c h).
      - rewrite (Vout_eq t h Ht), Hw. reflexivity.
      - apply seq_NoDup.
      - apply in_seq. pose proof (H_wr_nfl t h Hw). lia.
      - assumption.
      - rewrite Hbind. assumption.
      - intros h' _ Hw' Hb'. rewrite Hbind in Hb'.
        apply (sf_same _ _ _ _ _ _ _ H_safe t h' h c Ht Hb' Hb Hw). }
    assert (W2 : forall c, (forall h, writes t h = true -> BE t h <> Some c) ->
                           body_writes task teq nfl writes F s t rv c = mem task s c).
    { intros c Hn. unfold body_writes. apply fold_nowrite. intros h _ Hw. rewrite Hbind. apply Hn; assumption. }
    assert (Hwdec : forall c, {h | writes t h = true /\ BE t h = Some c} + {forall h, writes t h = true -> BE t h <> Some c}).
    { intros c. destruct (writer_dec t c (nfl t)) as [(h & _ & H1 & H2)|Hn]; [left; exists h; split; assumption|].
      right. intros h Hw. apply Hn; [apply H_wr_nfl|]; assumption. }
    (* t is not ordered with a running or later task, hence does not write their copies *)
    assert (Hnotdone : forall v, ancE t v -> In v tasks -> stE (core task s) v <> Done).
    { intros v Ha Hv Hdv. apply Hnd. apply (anc_done (core task s) t v I Ha Hv). right; right; assumption. }
    split; cbn [core bind mem rlog pend].
    - assumption.
    - intros v Hv Hs f. apply (vi_bind s V v Hv). destruct Hs as [Hs|Hs].
      + apply Hrn in Hs. left; tauto.
      + apply Hd in Hs. destruct Hs as [->|Hs]; [left; assumption|right; assumption].
    - intros v g c Hv Hs Hb. apply Hrn in Hs. destruct Hs as [Hne Hs].
      rewrite W2; [apply (vi_live s V v g c Hv Hs Hb)|].
      intros h Hw Hbt.
      destruct (sf_order _ _ _ _ _ _ _ H_safe v g t h c Hv Ht Hne Hb Hbt Hw) as [Ha|[Ha _]].
      + assert (stE (core task s) v = Done) by (apply (anc_done (core task s) v t I Ha Ht); right; left; assumption).
        congruence.
      + assert (stE (core task s) t = Done) by (apply (anc_done (core task s) t v I Ha Hv); right; left; assumption).
        congruence.
    - intros v Hv Hs. apply Hd in Hs. destruct (teq v t) as [->|Hne]; [reflexivity|].
      destruct Hs as [Hs|Hs]; [contradiction|]. apply (vi_rlog s V v Hv Hs).
    - intros c. unfold CellOK. cbn [core mem].
      destruct (Hwdec c) as [(h & Hw & Hb)|Hn].
      + right; left. exists t, h. repeat split; try assumption.
        * apply Hd. left; reflexivity.
        * apply (W1 h c Hw Hb).
        * intros v' h' Hv' Hb' Hw' Hd'. apply Hd in Hd'. destruct Hd' as [->|Hd']; [left; reflexivity|].
          assert (Hne : t <> v') by (intros <-; contradiction).
          destruct (sf_order _ _ _ _ _ _ _ H_safe t h v' h' c Ht Hv' Hne Hb Hb' Hw') as [Ha|[Ha _]].
          -- exfalso. apply (Hnotdone v' Ha Hv' Hd').
          -- right; assumption.
      + rewrite (W2 c Hn).
        destruct (vi_cell s V c) as [[Hnw Hmm]|[(v & h & Hv & Hbv & Hwv & Hdv & Hmm & Hmax)|HT]].
        * left. split; [|assumption]. intros v h Hv Hbv Hwv Hdone. apply Hd in Hdone.
          destruct Hdone as [->|Hdone]; [apply (Hn h Hwv Hbv)|apply (Hnw v h Hv Hbv Hwv Hdone)].
        * right; left. exists v, h. repeat split; try assumption; [apply Hd; right; assumption|].
          intros v' h' Hv' Hb' Hw' Hd'. apply Hd in Hd'.
          destruct Hd' as [->|Hd']; [exfalso; apply (Hn h' Hw' Hb')|apply (Hmax v' h' Hv' Hb' Hw' Hd')].
        * right; right. exact HT.
    - intros v f k c Hv Hwb Hbc Hck Hs. apply Hd in Hs.
      destruct (teq v t) as [->|Hne].
      + left. split.
        * apply in_or_app. right. apply in_new_copies. exists f. rewrite Hbind. repeat split; assumption.
        * destruct (writes t f) eqn:Ew; [apply (W1 f c Ew Hbc)|].
          rewrite W2.
          -- rewrite (Vout_eq t f Ht), Ew. apply (vi_live s V t f c Ht Hst Hbc).
          -- intros h Hw Hbh. rewrite (sf_same _ _ _ _ _ _ _ H_safe t f h c Ht Hbc Hbh Hw) in Ew. congruence.
      + destruct Hs as [Hs|Hs]; [contradiction|].
        destruct (vi_wb s V v f k c Hv Hwb Hbc Hck Hs) as [[Hin Hm]|[Hnin Hm]].
        * left. split; [apply in_or_app; left; assumption|].
          rewrite W2; [assumption|]. intros h Hw Hbh.
          destruct (sf_wb_src _ _ _ _ _ _ _ H_safe v f k c t h Hv Hwb Hbc Hck Ht Hbh Hw) as [->|Ha]; [congruence|].
          apply (Hnotdone v Ha Hv Hs).
        * right. split.
          -- intros Hin. apply in_app_or in Hin. destruct Hin as [Hin|Hin]; [contradiction|].
             apply in_new_copies in Hin. destruct Hin as (f' & Hwb' & Hb' & Hck').
             rewrite Hbind in Hb'.
             destruct (sf_wb_uniq _ _ _ _ _ _ _ H_safe v f k c t f' c Hv Ht Hwb Hwb' Hbc Hck Hb' Hck') as [-> _].
             congruence.
          -- rewrite W2; [assumption|]. intros h Hw Hbh.
             apply (sf_wb_tgt _ _ _ _ _ _ _ H_safe v f k c t h Hv Hwb Hbc Hck Ht Hbh).
    - intros c k Hin. apply in_app_or in Hin. destruct Hin as [Hin|Hin].
      + destruct (vi_pend s V c k Hin) as (v & f & H1 & H2 & H3 & H4 & H5).
        exists v, f. repeat split; try assumption. apply Hd. right; assumption.
      + apply in_new_copies in Hin. destruct Hin as (f & Hwb & Hb & Hck). rewrite Hbind in Hb.
        exists t, f. repeat split; try assumption. apply Hd. left; reflexivity.
    - apply nodup_app; [apply (vi_pend_nodup s V)|apply (nodup_new_copies s t V Ht Hst)|].
      intros [c k] H1 H2.
      destruct (vi_pend s V c k H1) as (v & f & Hv & Hwb & Hb & Hck & Hdv).
      apply in_new_copies in H2. destruct H2 as (f' & Hwb' & Hb' & Hck'). rewrite Hbind in Hb'.
      destruct (sf_wb_uniq _ _ _ _ _ _ _ H_safe v f k c t f' c Hv Ht Hwb Hwb' Hb Hck Hb' Hck') as [-> _].
      congruence.
  Qed.

  Lemma VInv_copy (s : vstateT) i : VInv s -> VInv (vstepE s (VCopy i)).
  Proof.
    intros V. cbn [vstep]. destruct (nth_error (pend task s) i) as [[c1 k1]|] eqn:En; [|assumption].
    pose proof (nth_error_In _ _ En) as Hin1.
    destruct (vi_pend s V c1 k1 Hin1) as (t1 & f1 & Ht1 & Hwb1 & Hb1 & Hck1 & Hd1).
    assert (Hfree : forall v h, In v tasks -> BE v h <> Some (CMem k1))
      by (intros v h Hv; apply (sf_wb_tgt _ _ _ _ _ _ _ H_safe t1 f1 k1 c1 v h Ht1 Hwb1 Hb1 Hck1 Hv)).
    split; cbn [core bind mem rlog pend].
    - apply (vi_core s V).
    - apply (vi_bind s V).
    - intros v g c Hv Hs Hb. rewrite mupd_other; [apply (vi_live s V v g c Hv Hs Hb)|].
      intros ->. apply (Hfree v g Hv Hb).
    - apply (vi_rlog s V).
    - intros c. unfold CellOK. cbn [core mem].
      destruct (cdec c (CMem k1)) as [->|Hne].
      + right; right. exists t1, f1, k1, c1. repeat split; assumption.
      + rewrite mupd_other by assumption. apply (vi_cell s V c).
    - intros v f k c Hv Hwb Hbc Hck Hs.
      assert (Hcne : c <> CMem k1) by (intros ->; apply (Hfree v f Hv Hbc)).
      destruct (vi_wb s V v f k c Hv Hwb Hbc Hck Hs) as [[Hin Hm]|[Hnin Hm]].
      + destruct (cdec c c1) as [->|Hc1].
        * destruct (Z.eq_dec k k1) as [->|Hk1].
          -- right. split; [apply (remove_nth_gone (c1, k1) i _ (vi_pend_nodup s V) En)|].
             rewrite mupd_same. assumption.
          -- left. split; [apply (remove_nth_keep (c1, k) (c1, k1) i _ En); [congruence|assumption]|].
             rewrite mupd_other by assumption. assumption.
        * left. split; [apply (remove_nth_keep (c, k) (c1, k1) i _ En); [congruence|assumption]|].
          rewrite mupd_other by assumption. assumption.
      + right. split; [intros Hin; apply Hnin; apply (remove_nth_in _ i _ Hin)|].
        destruct (Z.eq_dec k k1) as [->|Hk1].
        * exfalso. apply Hnin.
          destruct (sf_wb_uniq _ _ _ _ _ _ _ H_safe v f k1 c t1 f1 c1 Hv Ht1 Hwb Hwb1 Hbc Hck Hb1 Hck1) as [-> ->].
          rewrite Hb1 in Hbc. inversion Hbc; subst. assumption.
        * rewrite mupd_other by congruence. assumption.
    - intros c k Hin. apply (vi_pend s V c k). apply (remove_nth_in _ i _ Hin).
    - apply remove_nth_nodup. apply (vi_pend_nodup s V).
  Qed.

  Lemma status_dec (x y : status) : {x = y} + {x <> y}.
  Proof. decide equality. apply Nat.eq_dec. Qed.

  Lemma VInv_step (s : vstateT) e : VInv s -> VInv (vstepE s e).
  Proof.
    intros V. destruct e as [ev|i]; [|apply VInv_copy; assumption].
    destruct ev as [|t|t|t].
    - cbn [vstep]. apply (VInv_frame s); cbn [core bind mem rlog pend]; try reflexivity; try assumption.
      + apply Inv_step; try assumption. apply (vi_core s V).
      + apply cls_step_startup.
    - cbn [vstep]. apply (VInv_frame s); cbn [core bind mem rlog pend]; try reflexivity; try assumption.
      + apply Inv_step; try assumption. apply (vi_core s V).
      + apply cls_step_startup1.
    - destruct (status_dec (stE (core task s) t) Ready) as [Hs|Hs]; [apply VInv_begin; assumption|].
      cbn [vstep]. destruct (stE (core task s) t); try assumption. congruence.
    - destruct (status_dec (stE (core task s) t) Running) as [Hs|Hs]; [apply VInv_end; assumption|].
      cbn [vstep]. destruct (stE (core task s) t); try assumption. congruence.
  Qed.

  Theorem VInv_run evs : VInv (vrunE evs).
  Proof. unfold vrun. apply fold_left_inv; [intros a b; apply VInv_step|apply VInv_init]. Qed.
  (* ------------------------------------------------------------ consequences *)
  Local Notation runE := (run task teq tasks preds succs).

  Definition core_events (evs : list (vevent task)) : list (event task) :=
    flat_map (fun e => match e with VE ev => [ev] | VCopy _ => [] end) evs.

  Lemma core_vstep (s : vstateT) e :
    core task (vstepE s e) = match e with VE ev => stepE (core task s) ev | VCopy _ => core task s end.
  Proof.
    destruct e as [ev|i]; cbn [vstep].
    - destruct ev as [|t|t|t]; try reflexivity.
      + destruct (status_dec (stE (core task s) t) Ready) as [Hs|Hs].
        * rewrite Hs. reflexivity.
        * rewrite (cls_step_begin_off _ _ Hs). destruct (stE (core task s) t); reflexivity.
      + destruct (status_dec (stE (core task s) t) Running) as [Hs|Hs].
        * rewrite Hs. reflexivity.
        * rewrite (cls_step_end_off _ _ Hs). destruct (stE (core task s) t); reflexivity.
    - destruct (nth_error (pend task s) i) as [[c k]|]; reflexivity.
  Qed.

  (* the dependency part of a run is a run of the engine of C01 *)
  Theorem core_vrun evs : core task (vrunE evs) = runE (core_events evs).
  Proof.
    assert (H : forall evs s, core task (fold_left vstepE evs s) = fold_left stepE (core_events evs) (core task s)).
    { clear. induction evs as [|e evs IH]; intros s; cbn [fold_left core_events flat_map]; [reflexivity|].
      rewrite IH, core_vstep. destruct e as [ev|i]; reflexivity. }
    unfold vrun, run. rewrite H. reflexivity.
  Qed.

  (* (a) a task that has started found, in every data flow, the copy of its producer, the
     producer had completed, and the copy holds the value the producer left there *)
  Theorem started_inputs evs t : In t tasks ->
    stE (core task (vrunE evs)) t = Running ->
    forall g p fp, src t g = STask p fp ->
      stE (core task (vrunE evs)) p = Done
      /\ bind task (vrunE evs) t g = bind task (vrunE evs) p fp
      /\ rdval task (vrunE evs) t g = VoutE p fp.
  Proof.
    intros Ht Hs g p fp Es. pose proof (VInv_run evs) as V. pose proof (vi_core _ V) as I.
    pose proof (H_src t g p fp Ht Es) as Hp. pose proof (H_pred_in t p Ht Hp) as Hpt.
    assert (Hd : stE (core task (vrunE evs)) p = Done)
      by (apply (preds_done _ t p I Ht Hp); right; left; assumption).
    split; [assumption|]. split.
    - rewrite (vi_bind _ V t Ht (or_introl Hs)), (vi_bind _ V p Hpt (or_intror Hd)).
      rewrite (B_eq t g Ht), Es. reflexivity.
    - unfold rdval. rewrite (vi_bind _ V t Ht (or_introl Hs)).
      destruct (BE t g) as [c|] eqn:Eb.
      + rewrite (vi_live _ V t g c Ht Hs Eb). unfold Vin. rewrite Es. reflexivity.
      + pose proof (none_vin t g Ht Eb) as Hn. unfold Vin in Hn. rewrite Es in Hn. symmetry; assumption.
  Qed.

  (* every copy held by a running task holds the value the JDF names, until the task completes *)
  Theorem running_values evs t g : In t tasks -> stE (core task (vrunE evs)) t = Running ->
    rdval task (vrunE evs) t g = VinE t g.
  Proof.
    intros Ht Hs. pose proof (VInv_run evs) as V.
    unfold rdval. rewrite (vi_bind _ V t Ht (or_introl Hs)).
    destruct (BE t g) as [c|] eqn:Eb; [apply (vi_live _ V t g c Ht Hs Eb)|].
    symmetry. apply none_vin; assumption.
  Qed.

  (* the values read by the body of a completed task *)
  Theorem observed_reads evs t : In t tasks -> stE (core task (vrunE evs)) t = Done ->
    rlog task (vrunE evs) t = expectedE t.
  Proof. intros Ht Hs. apply (vi_rlog _ (VInv_run evs) t Ht Hs). Qed.

  (* (c) they do not depend on the schedule *)
  Theorem reads_schedule_independent evs1 evs2 t : In t tasks ->
    stE (core task (vrunE evs1)) t = Done -> stE (core task (vrunE evs2)) t = Done ->
    rlog task (vrunE evs1) t = rlog task (vrunE evs2) t.
  Proof. intros Ht H1 H2. rewrite (observed_reads evs1 t Ht H1), (observed_reads evs2 t Ht H2). reflexivity. Qed.

  Local Notation completeE := (complete task tasks).

  Lemma confluent (s1 s2 : vstateT) : VInv s1 -> VInv s2 -> completeE s1 -> completeE s2 ->
    forall c, mem task s1 c = mem task s2 c.
  Proof.
    intros V1 V2 [D1 P1] [D2 P2] c.
    assert (HT : (exists t f k c0, c = CMem k /\ In t tasks /\ In (f, k) (wbs t) /\ BE t f = Some c0 /\ c0 <> CMem k) ->
                 mem task s1 c = mem task s2 c).
    { intros (t & f & k & c0 & -> & Ht & Hwb & Hb & Hck).
      destruct (vi_wb s1 V1 t f k c0 Ht Hwb Hb Hck (D1 t Ht)) as [[Hin _]|[_ Hm1]]; [rewrite P1 in Hin; destruct Hin|].
      destruct (vi_wb s2 V2 t f k c0 Ht Hwb Hb Hck (D2 t Ht)) as [[Hin _]|[_ Hm2]]; [rewrite P2 in Hin; destruct Hin|].
      congruence. }
    destruct (vi_cell s1 V1 c) as [[Hnw1 Hm1]|[(v1 & h1 & Hv1 & Hb1 & Hw1 & Hd1 & Hm1 & Hmax1)|HT1]]; [| |apply HT; assumption];
      (destruct (vi_cell s2 V2 c) as [[Hnw2 Hm2]|[(v2 & h2 & Hv2 & Hb2 & Hw2 & Hd2 & Hm2 & Hmax2)|HT2]]; [| |apply HT; assumption]).
    - congruence.
    - exfalso. apply (Hnw1 v2 h2 Hv2 Hb2 Hw2). apply D1; assumption.
    - exfalso. apply (Hnw2 v1 h1 Hv1 Hb1 Hw1). apply D2; assumption.
    - rewrite Hm1, Hm2.
      destruct (Hmax1 v2 h2 Hv2 Hb2 Hw2 (D1 v2 Hv2)) as [->|Ha].
      + rewrite (sf_same _ _ _ _ _ _ _ H_safe v1 h2 h1 c Hv1 Hb2 Hb1 Hw1). reflexivity.
      + destruct (Hmax2 v1 h1 Hv1 Hb1 Hw1 (D2 v1 Hv1)) as [->|Ha2].
        * rewrite (sf_same _ _ _ _ _ _ _ H_safe v2 h2 h1 c Hv2 Hb2 Hb1 Hw1). reflexivity.
        * exfalso. apply (anc_asym v2 v1 Hv1 Ha Ha2).
  Qed.

  (* (b) two complete runs end with the same memory, whatever their schedules *)
  Theorem final_memory_schedule_independent evs1 evs2 :
    completeE (vrunE evs1) -> completeE (vrunE evs2) ->
    forall c, mem task (vrunE evs1) c = mem task (vrunE evs2) c.
  Proof. intros C1 C2. apply confluent; try assumption; apply VInv_run. Qed.

  (* ------------------------------------------------------------ the sequential execution *)
  Variable order : list task.
  Hypothesis H_all : forall t, In t tasks -> In t order.
  Hypothesis H_topo : forall l1 t l2, order = l1 ++ t :: l2 -> forall p, In p (preds t) -> In p l1.

  Local Notation seq_tasksE := (seq_tasks task).

  Definition SeqP (done : list task) (s : vstateT) : Prop :=
    (forall t, In t tasks -> In t done -> stE (core task s) t = Done)
    /\ (forall t, ~ In t done -> cls (stE (core task s) t) = 0).

  Lemma all_done_pending f t : (forall p, In p (preds t) -> f p = Done) -> pending task preds f t = 0.
  Proof.
    intros H. unfold pending. induction (preds t) as [|a l IH]; [reflexivity|].
    cbn [filter]. rewrite (H a (or_introl eq_refl)). cbn [isdone negb]. apply IH.
    intros p Hp. apply H. right; assumption.
  Qed.

  Lemma seq_one (s : vstateT) l1 t l2 : order = l1 ++ t :: l2 -> VInv s -> SeqP l1 s ->
    SeqP (l1 ++ [t]) (fold_left vstepE [VE (StartupOne t); VE (Begin t); VE (End t)] s).
  Proof.
    intros Ho V [P1 P2]. cbn [fold_left].
    set (s1 := vstepE s (VE (StartupOne t))).
    assert (V1 : VInv s1) by (apply VInv_step; assumption).
    assert (C1 : forall v, cls (stE (core task s1) v) = cls (stE (core task s) v))
      by (intros v; unfold s1; rewrite core_vstep; apply cls_step_startup1).
    assert (S1 : stE (core task s1) t = start1 (stE (core task s) t)).
    { unfold s1. rewrite core_vstep. cbn [step st]. unfold start_one. apply upd_same. }
    set (s2 := vstepE s1 (VE (Begin t))).
    assert (V2 : VInv s2) by (apply VInv_step; assumption).
    set (s3 := vstepE s2 (VE (End t))).
    (* the three cases: t already done, t not a task, t to be executed now *)
    assert (Hcases : (forall v, cls (stE (core task s3) v) = cls (stE (core task s) v))
                     \/ (In t tasks /\ ~ In t l1 /\ forall v, cls (stE (core task s3) v) = if teq v t then 2 else cls (stE (core task s) v))).
    { destruct (status_dec (stE (core task s1) t) Ready) as [Hr|Hr].
      - (* t becomes running, then done *)
        assert (C2 : forall v, cls (stE (core task s2) v) = if teq v t then 1 else cls (stE (core task s1) v))
          by (intros v; unfold s2; rewrite core_vstep; apply cls_step_begin; assumption).
        assert (R2 : stE (core task s2) t = Running).
        { apply cls_running. rewrite C2. destruct (teq t t); congruence. }
        assert (C3 : forall v, cls (stE (core task s3) v) = if teq v t then 2 else cls (stE (core task s2) v))
          by (intros v; unfold s3; rewrite core_vstep; apply cls_step_end; assumption).
        right. split; [|split].
        + apply (in_tasks_of_status (core task s1) t (vi_core s1 V1)). rewrite Hr; discriminate.
        + intros Hin.
          assert (Ht : In t tasks) by (apply (in_tasks_of_status (core task s1) t (vi_core s1 V1)); rewrite Hr; discriminate).
          pose proof (P1 t Ht Hin) as Hd. rewrite S1, Hd in Hr. discriminate.
        + intros v. rewrite C3. destruct (teq v t); [reflexivity|]. rewrite C2.
          destruct (teq v t); [contradiction|apply C1].
      - left. intros v.
        assert (E2 : core task s2 = core task s1)
          by (unfold s2; rewrite core_vstep; apply cls_step_begin_off; assumption).
        assert (Hnr : stE (core task s2) t <> Running).
        { rewrite E2. intros Hrun. apply cls_running in Hrun. rewrite C1 in Hrun.
          destruct (in_dec teq t l1) as [Hi|Hi]; [|rewrite (P2 t Hi) in Hrun; discriminate].
          destruct (in_dec teq t tasks) as [Ht|Ht].
          - rewrite (P1 t Ht Hi) in Hrun. discriminate.
          - rewrite (inv_absent _ _ _ _ _ (vi_core s V) t Ht) in Hrun. discriminate. }
        assert (E3 : core task s3 = core task s2)
          by (unfold s3; rewrite core_vstep; apply cls_step_end_off; assumption).
        rewrite E3, E2. apply C1. }
    destruct Hcases as [Hc|(Ht & Hnin & Hc)].
    - (* nothing changed: t was done already, or is not a task *)
      assert (Hcase : In t l1 \/ ~ In t tasks).
      { destruct (in_dec teq t l1) as [Hi|Hi]; [left; assumption|].
        destruct (in_dec teq t tasks) as [Ht|Ht]; [|right; assumption].
        exfalso.
        (* t is a task seen for the first time: it must have run *)
        pose proof (vi_core s V) as I.
        assert (Hp : pending task preds (stE (core task s)) t = 0).
        { apply all_done_pending. intros p Hp. apply P1; [apply (H_pred_in t p Ht Hp)|apply (H_topo l1 t l2 Ho p Hp)]. }
        pose proof (inv_count _ _ _ _ _ I t Ht) as Hcnt. pose proof (inv_present _ _ _ _ _ I t Ht) as Hpr.
        pose proof (P2 t Hi) as H0.
        assert (Hr : stE (core task s1) t = Ready).
        { rewrite S1. destruct (stE (core task s) t) as [|n| | |]; try discriminate; try reflexivity; [contradiction|].
          rewrite Hp in Hcnt. subst n. reflexivity. }
        assert (C2 : cls (stE (core task s2) t) = 1).
        { unfold s2. rewrite core_vstep, (cls_step_begin _ _ Hr). destruct (teq t t); congruence. }
        assert (R2 : stE (core task s2) t = Running) by (apply cls_running; assumption).
        assert (C3 : cls (stE (core task s3) t) = 2).
        { unfold s3. rewrite core_vstep, (cls_step_end _ _ R2). destruct (teq t t); congruence. }
        rewrite Hc, H0 in C3. discriminate. }
      split.
      + intros v Hv Hin. apply cls_done. rewrite Hc. apply cls_done.
        apply in_app_or in Hin. destruct Hin as [Hin|[<-|[]]]; [apply P1; assumption|].
        destruct Hcase as [Hi|Hn]; [apply P1; assumption|contradiction].
      + intros v Hn. rewrite Hc. apply P2. intros Hin. apply Hn. apply in_or_app. left; assumption.
    - split.
      + intros v Hv Hin. apply cls_done. rewrite Hc. destruct (teq v t); [reflexivity|].
        apply cls_done. apply in_app_or in Hin. destruct Hin as [Hin|[<-|[]]]; [apply P1; assumption|congruence].
      + intros v Hn. rewrite Hc. destruct (teq v t) as [->|Hne].
        * exfalso. apply Hn. apply in_or_app. right; left; reflexivity.
        * apply P2. intros Hin. apply Hn. apply in_or_app. left; assumption.
  Qed.

  Lemma seq_prefix : forall l2 l1 (s : vstateT), order = l1 ++ l2 -> VInv s -> SeqP l1 s ->
    SeqP order (fold_left vstepE (seq_tasksE l2) s).
  Proof.
    induction l2 as [|t l2 IH]; intros l1 s Ho V P.
    - cbn. rewrite app_nil_r in Ho. subst l1. assumption.
    - unfold seq_tasks. cbn [flat_map]. rewrite fold_left_app.
      apply (IH (l1 ++ [t])).
      + rewrite <- app_assoc. assumption.
      + apply fold_left_inv; [intros a b; apply VInv_step|assumption].
      + apply (seq_one s l1 t l2 Ho V P).
  Qed.

  Lemma seq_tasks_done : forall t, In t tasks -> stE (core task (vrunE (seq_tasksE order))) t = Done.
  Proof.
    intros t Ht.
    assert (P : SeqP order (vrunE (seq_tasksE order))).
    { unfold vrun. apply (seq_prefix order []); [reflexivity|apply VInv_init|].
      split; [intros v _ []|]. intros v _. cbn. destruct (in_dec teq v tasks); reflexivity. }
    destruct P as [P1 _]. apply P1; [assumption|apply H_all; assumption].
  Qed.

  Lemma drain_steps : forall n (s : vstateT), length (pend task s) = n ->
    core task (Nat.iter n (fun x => vstepE x (VCopy 0)) s) = core task s
    /\ pend task (Nat.iter n (fun x => vstepE x (VCopy 0)) s) = [].
  Proof.
    induction n as [|n IH]; intros s Hl.
    - cbn. split; [reflexivity|]. destruct (pend task s); [reflexivity|discriminate].
    - rewrite iter_succ_r.
      destruct (pend task s) as [|[c k] r] eqn:Ep; [discriminate|].
      assert (Hl' : length (pend task (vstepE s (VCopy 0))) = n).
      { cbn [vstep]. rewrite Ep. cbn [nth_error pend remove_nth]. cbn [length] in Hl. lia. }
      destruct (IH _ Hl') as [H1 H2]. split; [|assumption].
      rewrite H1, core_vstep. reflexivity.
  Qed.

  Local Notation seq_execE := (seq_exec task teq tasks preds succs nfl src reads writes wbs F D0 U0 order).
  Local Notation seq_eventsE := (seq_events task teq tasks preds succs nfl src reads writes wbs F D0 U0 order).

  Lemma seq_exec_is_run : seq_execE = vrunE seq_eventsE.
  Proof.
    unfold seq_exec, seq_events, drain, vrun. rewrite fold_left_app.
    generalize (fold_left vstepE (seq_tasksE order) vinitE). intros s.
    generalize (length (pend task s)). intros n. revert s.
    induction n as [|n IH]; intros s; [reflexivity|].
    cbn [repeat fold_left]. rewrite iter_succ_r. apply IH.
  Qed.

  Theorem seq_exec_complete : completeE seq_execE.
  Proof.
    unfold seq_exec, drain.
    destruct (drain_steps _ (vrunE (seq_tasksE order)) eq_refl) as [H1 H2].
    split; [|assumption]. intros t Ht. rewrite H1. apply seq_tasks_done; assumption.
  Qed.

  (* (b) every complete run ends with the memory of the sequential execution *)
  Theorem final_memory_is_sequential evs : completeE (vrunE evs) ->
    forall c, mem task (vrunE evs) c = mem task seq_execE c.
  Proof.
    intros C c. pose proof seq_exec_complete as Cs. rewrite seq_exec_is_run in *.
    apply final_memory_schedule_independent; assumption.
  Qed.

  Theorem reads_are_sequential evs t : In t tasks -> stE (core task (vrunE evs)) t = Done ->
    rlog task (vrunE evs) t = rlog task seq_execE t.
  Proof.
    intros Ht Hs. destruct seq_exec_complete as [Hd _]. rewrite seq_exec_is_run in *.
    apply reads_schedule_independent; [assumption|assumption|apply Hd; assumption].
  Qed.
End ValEngineProofs.
