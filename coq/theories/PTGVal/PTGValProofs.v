(* C02 — from wf_program and the hazard check safeb to the hypotheses of
   PTGVal/ValEngineProofs.v, and the theorems for every well-formed hazard-free
   program and every schedule. *)
From Coq Require Import ZArith List Bool Arith Lia.
From PV Require Import Base.Tac PTG.PTGDefs PTG.Engine PTG.EngineProofs PTG.PTGProofs
     PTGVal.ValEngine PTGVal.ValEngineProofs PTGVal.PTGValDefs.
Import ListNotations.

(* ------------------------------------------------------------------ small facts *)
Lemma cell_eqb_spec (a b : cell tid) : cell_eqb a b = true <-> a = b.
Proof.
  destruct a as [k|t f], b as [k'|t' f']; cbn [cell_eqb]; split; intros H; try discriminate.
  - apply Z.eqb_eq in H. congruence.
  - inversion H. apply Z.eqb_refl.
  - apply andb_true_iff in H. destruct H as [H1 H2]. apply tid_eqb_spec in H1. apply Nat.eqb_eq in H2. congruence.
  - inversion H; subst. apply andb_true_iff. split; [apply tid_eqb_spec; reflexivity|apply Nat.eqb_refl].
Qed.

Lemma flat_mapi_in {A C} (g : nat -> A -> list C) : forall l k i a x,
  nth_error l i = Some a -> In x (g (k + i)%nat a) -> In x (flat_mapi g k l).
Proof.
  induction l as [|b l IH]; intros k i a x Hn Hx; [destruct i; discriminate|].
  cbn [flat_mapi]. apply in_or_app. destruct i as [|i]; cbn [nth_error] in Hn.
  - inversion Hn; subst. left. rewrite Nat.add_0_r in Hx. assumption.
  - right. apply (IH (S k) i a x Hn). replace (S k + i)%nat with (k + S i)%nat by lia. assumption.
Qed.

Lemma flow_at_nfl P t f c env fl : flow_at P t f = Some (c, env, fl) ->
  env_of P t = Some (c, env) /\ nth_error (c_flows c) f = Some fl /\ (f < nflows P t)%nat.
Proof.
  unfold flow_at, nflows. destruct (env_of P t) as [[c0 env0]|]; [|discriminate].
  destruct (nth_error (c_flows c0) f) as [fl0|] eqn:En; [|discriminate].
  intros H; inversion H; subst. repeat split; try assumption.
  apply nth_error_Some. rewrite En. discriminate.
Qed.

(* a data input from a task is one of the predecessor edges *)
Lemma ptg_src_pred P t f p fp : flow_src P t f = STask p fp -> In p (preds P t).
Proof.
  unfold flow_src. destruct (flow_at P t f) as [[[c env] fl]|] eqn:Ef; [|discriminate].
  destruct (flow_at_nfl P t f c env fl Ef) as (He & Hn & _).
  destruct (is_ctl fl) eqn:Ec; [discriminate|].
  destruct (first_active (p_globals P) env (f_deps fl)) as [[c' f' args|[|e args]| |]|] eqn:Ea; try discriminate.
  destruct (expand_args (p_globals P) env args) as [|ps [|ps2 r]] eqn:Ex; try discriminate.
  intros H; inversion H; subst p fp.
  unfold preds, pred_edges. rewrite He.
  apply in_map_iff. exists (f, (c', ps), f'). split; [reflexivity|].
  apply (flat_mapi_in (flow_preds (p_globals P) env) (c_flows c) 0 f fl _ Hn).
  cbn [Nat.add]. unfold flow_preds. rewrite Ec, Ea. cbn [target_tasks]. rewrite Ex. left; reflexivity.
Qed.

Lemma ptg_wr_nfl P t f : flow_writes P t f = true -> (f < nflows P t)%nat.
Proof.
  unfold flow_writes. destruct (flow_at P t f) as [[[c env] fl]|] eqn:Ef; [|discriminate].
  intros _. apply (flow_at_nfl P t f c env fl Ef).
Qed.

Lemma ptg_src_nfl P t f : flow_src P t f <> SNone -> (f < nflows P t)%nat.
Proof.
  unfold flow_src. destruct (flow_at P t f) as [[[c env] fl]|] eqn:Ef; [|congruence].
  intros _. apply (flow_at_nfl P t f c env fl Ef).
Qed.

(* ------------------------------------------------------------------ wf_program_fm *)
(* wf_program implies wf_program_fm (exactly one active input => at least one) *)
Lemma data_inputs_ok_fm G L f : data_inputs_ok G L f = true -> data_inputs_fm G L f = true.
Proof.
  unfold data_inputs_ok, data_inputs_fm. destruct (is_ctl f); [auto|].
  destruct (has_inputs f); [|auto]. intros H. apply Nat.eqb_eq in H. rewrite H. reflexivity.
Qed.

Lemma task_ok_fm_of P ids t : task_ok P ids t = true -> task_ok_fm P ids t = true.
Proof.
  unfold task_ok, task_ok_fm. destruct (env_of P t) as [[c env]|]; [|auto]. intros H.
  repeat (apply andb_true_iff in H; destruct H as [H ?]).
  repeat (apply andb_true_iff; split); try assumption.
  rewrite forallb_forall in *. intros f Hf. apply data_inputs_ok_fm. apply H; assumption.
Qed.

Theorem wf_program_implies_fm P : wf_program P = true -> wf_program_fm P = true.
Proof.
  unfold wf_program, wf_program_fm. intros H.
  apply andb_true_iff in H. destruct H as [H H4].
  apply andb_true_iff in H. destruct H as [H H3].
  apply andb_true_iff in H. destruct H as [H1 H2].
  apply andb_true_iff. split; [|exact H4].
  apply andb_true_iff. split; [|].
  - apply andb_true_iff. split; assumption.
  - rewrite forallb_forall in *. intros t Ht. apply task_ok_fm_of. auto.
Qed.

(* the facts the engines need (as PTGProofs.wf_unpack / wf_engine, for wf_program_fm) *)
Lemma wf_fm_unpack P : wf_program_fm P = true ->
  NoDup (instances P)
  /\ (forall t, In t (instances P) -> forall p, In p (preds P t) ->
        In p (instances P) /\ count t (succs P p) = count p (preds P t))
  /\ (forall t, In t (instances P) -> forall s, In s (succs P t) ->
        In s (instances P) /\ count t (preds P s) = count s (succs P t))
  /\ (forall t p, In t (instances P) -> In p (preds P t) -> (ptg_rank P p < ptg_rank P t)%nat).
Proof.
  unfold wf_program_fm. intros H.
  repeat (apply andb_true_iff in H; destruct H as [H ?]).
  rename H2 into Hnd, H1 into Htask.
  apply andb_true_iff in H0. destruct H0 as [H0 Hord].
  apply andb_true_iff in H0. destruct H0 as [Hlen Hmem].
  assert (Htask' : forall t, In t (instances P) -> task_ok_fm P (instances P) t = true)
    by (apply forallb_forall; assumption).
  split; [apply nodupb_NoDup; assumption|].
  split; [|split].
  - intros t Ht p Hp. specialize (Htask' t Ht). unfold task_ok_fm in Htask'.
    destruct (env_of P t) as [[c env]|]; [|discriminate].
    repeat (apply andb_true_iff in Htask'; destruct Htask' as [Htask' ?]).
    rename H1 into Hpr.
    rewrite forallb_forall in Hpr. specialize (Hpr p Hp).
    apply andb_true_iff in Hpr. destruct Hpr as [Hm Hc].
    split; [apply mem_In; assumption|apply Nat.eqb_eq; assumption].
  - intros t Ht s Hs. specialize (Htask' t Ht). unfold task_ok_fm in Htask'.
    destruct (env_of P t) as [[c env]|]; [|discriminate].
    repeat (apply andb_true_iff in Htask'; destruct Htask' as [Htask' ?]).
    rename H0 into Hsu.
    rewrite forallb_forall in Hsu. specialize (Hsu s Hs).
    apply andb_true_iff in Hsu. destruct Hsu as [Hm Hc].
    split; [apply mem_In; assumption|apply Nat.eqb_eq; assumption].
  - intros t p Ht Hp. unfold ptg_rank.
    rewrite forallb_forall in Hmem. specialize (Hmem t Ht). apply mem_In in Hmem.
    destruct (in_split_first t _ Hmem) as (l1 & l2 & Heq & Hn).
    destruct (check_order_prefix P _ [] Hord l1 t l2 Heq p Hp) as [Hin|[]].
    rewrite Heq. rewrite (findex_first t l1 l2 Hn). apply findex_lt. assumption.
Qed.

Lemma wf_fm_engine P : wf_program_fm P = true ->
  NoDup (instances P)
  /\ (forall p t, In p (instances P) -> In t (instances P) ->
        count_occ tid_eq_dec (succs P p) t = count_occ tid_eq_dec (preds P t) p)
  /\ (forall p s, In p (instances P) -> In s (succs P p) -> In s (instances P))
  /\ (forall t p, In t (instances P) -> In p (preds P t) -> In p (instances P))
  /\ (forall t p, In t (instances P) -> In p (preds P t) -> (ptg_rank P p < ptg_rank P t)%nat).
Proof.
  intros H. destruct (wf_fm_unpack P H) as (Hnd & Hpr & Hsu & Hrk).
  split; [assumption|]. split; [|split; [|split]].
  - intros p t Hp Ht. rewrite <- !count_count_occ.
    destruct (in_dec tid_eq_dec p (preds P t)) as [Hin|Hnin].
    + apply (Hpr t Ht p Hin).
    + rewrite (count_zero_notin p _ Hnin).
      destruct (in_dec tid_eq_dec t (succs P p)) as [Hin2|Hnin2]; [|apply count_zero_notin; assumption].
      destruct (Hsu p Hp t Hin2) as [_ Hc]. rewrite (count_zero_notin p _ Hnin) in Hc.
      pose proof (count_pos_in t _ Hin2). lia.
  - intros p s Hp Hs. apply (Hsu p Hp s Hs).
  - intros t p Ht Hp. apply (Hpr t Ht p Hp).
  - assumption.
Qed.

Lemma wf_order P : wf_program_fm P = true ->
  length (topo_order P) = length (instances P)
  /\ (forall t, In t (instances P) -> In t (topo_order P))
  /\ (forall l1 t l2, topo_order P = l1 ++ t :: l2 -> forall p, In p (preds P t) -> In p l1).
Proof.
  unfold wf_program_fm. intros H.
  repeat (apply andb_true_iff in H; destruct H as [H ?]).
  apply andb_true_iff in H0. destruct H0 as [H0 Hord].
  apply andb_true_iff in H0. destruct H0 as [Hlen Hmem].
  split; [apply Nat.eqb_eq; assumption|]. split.
  - intros t Ht. rewrite forallb_forall in Hmem. apply mem_In. apply Hmem; assumption.
  - intros l1 t l2 Heq p Hp.
    destruct (check_order_prefix P _ [] Hord l1 t l2 Heq p Hp) as [Hin|[]]. assumption.
Qed.

Lemma findex_le t l : (findex t l <= length l)%nat.
Proof. induction l as [|x l IH]; cbn [findex length]; [lia|]. destruct (tid_eq_dec t x); lia. Qed.

Lemma rank_lt_fuel P t : wf_program_fm P = true -> (ptg_rank P t < bfuel P)%nat.
Proof.
  intros H. destruct (wf_order P H) as (Hl & _ & _). unfold ptg_rank, bfuel.
  pose proof (findex_le t (topo_order P)). lia.
Qed.

Section PerProgram.
  Variable names : list (list Z).
  Variable P : program.
  Hypothesis H_wf : wf_program_fm P = true.

  Let Hnd := proj1 (wf_fm_engine P H_wf).
  Let Hconv := proj1 (proj2 (wf_fm_engine P H_wf)).
  Let Hsucc := proj1 (proj2 (proj2 (wf_fm_engine P H_wf))).
  Let Hpred := proj1 (proj2 (proj2 (proj2 (wf_fm_engine P H_wf)))).
  Let Hrank := proj2 (proj2 (proj2 (proj2 (wf_fm_engine P H_wf)))).
  Let Hsrc : forall t f p fp, In t (instances P) -> flow_src P t f = STask p fp -> In p (preds P t)
    := fun t f p fp _ H => ptg_src_pred P t f p fp H.

  Lemma Bf_is_B t f : In t (instances P) -> Bf P t f = ptg_B P t f.
  Proof.
    intros Ht. unfold Bf, ptg_B, B.
    apply (Bn_indep tid (instances P) (preds P) (flow_src P) (ptg_rank P) Hpred Hrank Hsrc); try assumption.
    - apply rank_lt_fuel; assumption.
    - lia.
  Qed.

  Lemma B_some_nfl t f c : In t (instances P) -> ptg_B P t f = Some c -> (f < nflows P t)%nat.
  Proof.
    intros Ht Hb. unfold ptg_B in Hb.
    rewrite (B_eq tid (instances P) (preds P) (flow_src P) (ptg_rank P) Hpred Hrank Hsrc t f Ht) in Hb.
    apply ptg_src_nfl. intros Hs. rewrite Hs in Hb. discriminate.
  Qed.

  Lemma ancb_sound : forall n a t, ancb P n a t = true -> anc tid (preds P) a t.
  Proof.
    induction n as [|n IH]; intros a t H; [discriminate|].
    cbn [ancb] in H. apply existsb_exists in H. destruct H as (p & Hp & H).
    apply orb_true_iff in H. destruct H as [H|H].
    - apply tid_eqb_spec in H. subst p. apply anc_pred. assumption.
    - apply (anc_trans tid (preds P) a p t); [apply IH; assumption|assumption].
  Qed.

  Lemma in_holders t f c : In (t, f, c) (holders P) <-> In t (instances P) /\ (f < nflows P t)%nat /\ Bf P t f = Some c.
  Proof.
    unfold holders. rewrite in_flat_map. split.
    - intros (t' & Ht' & H). apply in_flat_map in H. destruct H as (f' & Hf' & H).
      destruct (Bf P t' f') as [c'|] eqn:Eb; [|destruct H].
      destruct H as [H|[]]. inversion H; subst. apply in_seq in Hf'. repeat split; try assumption; lia.
    - intros (Ht & Hf & Hb). exists t. split; [assumption|]. apply in_flat_map. exists f.
      split; [apply in_seq; lia|]. rewrite Hb. left; reflexivity.
  Qed.

  Lemma in_writebacks t f k c :
    In (t, f, k, c) (writebacks P) <-> In t (instances P) /\ In (f, k) (flow_wbs P t) /\ Bf P t f = Some c /\ c <> CMem k.
  Proof.
    unfold writebacks. rewrite in_flat_map. split.
    - intros (t' & Ht' & H). apply in_flat_map in H. destruct H as ([f' k'] & Hfk & H). cbn [fst snd] in H.
      destruct (Bf P t' f') as [c'|] eqn:Eb; [|destruct H].
      destruct (cell_eqb c' (CMem k')) eqn:Ec; [destruct H|].
      destruct H as [H|[]]. inversion H; subst. repeat split; try assumption.
      intros ->. rewrite (proj2 (cell_eqb_spec _ _) eq_refl) in Ec. discriminate.
    - intros (Ht & Hfk & Hb & Hne). exists t. split; [assumption|]. apply in_flat_map. exists (f, k).
      split; [assumption|]. cbn [fst snd]. rewrite Hb.
      destruct (cell_eqb c (CMem k)) eqn:Ec; [apply cell_eqb_spec in Ec; contradiction|left; reflexivity].
  Qed.

  Lemma nodup_fk_sound : forall l, nodup_fk l = true -> NoDup l.
  Proof.
    induction l as [|[f k] l IH]; cbn [nodup_fk]; intros H; [constructor|].
    apply andb_true_iff in H. destruct H as [H1 H2]. constructor; [|apply IH; assumption].
    intros Hin. apply negb_true_iff in H1.
    assert (existsb (fun x => Nat.eqb (fst x) f && (snd x =? k)%Z) l = true).
    { apply existsb_exists. exists (f, k). split; [assumption|]. cbn [fst snd].
      rewrite Nat.eqb_refl, Z.eqb_refl. reflexivity. }
    congruence.
  Qed.

  Theorem safeb_sound : safeb P = true -> ptg_Safe P.
  Proof.
    unfold safeb. intros H.
    apply andb_true_iff in H. destruct H as [H Hnd4].
    apply andb_true_iff in H. destruct H as [H Hwb].
    apply andb_true_iff in H. destruct H as [Hwc Hpair].
    rewrite forallb_forall in Hpair, Hwb, Hnd4.
    assert (HB : forall t f c, In t (instances P) -> ptg_B P t f = Some c -> In (t, f, c) (holders P)).
    { intros t f c Ht Hb. apply in_holders. split; [assumption|]. split; [apply (B_some_nfl t f c Ht Hb)|].
      rewrite Bf_is_B by assumption. assumption. }
    assert (Hpr : forall u g v h c, In u (instances P) -> In v (instances P) ->
                   ptg_B P u g = Some c -> ptg_B P v h = Some c -> flow_writes P v h = true ->
                   safe_pair P (u, g, c) (v, h, c) = true).
    { intros u g v h c Hu Hv Hbu Hbv Hw.
      pose proof (Hpair _ (HB u g c Hu Hbu)) as H1. rewrite forallb_forall in H1. apply (H1 _ (HB v h c Hv Hbv)). }
    assert (HW : forall t f k c, In t (instances P) -> In (f, k) (flow_wbs P t) -> ptg_B P t f = Some c -> c <> CMem k ->
                   In (t, f, k, c) (writebacks P)).
    { intros t f k c Ht Hfk Hb Hne. apply in_writebacks. repeat split; try assumption.
      rewrite Bf_is_B by assumption. assumption. }
    split.
    - (* sf_wr_cell *)
      intros t f Ht Hw Hb. unfold safe_wr_cell in Hwc. rewrite forallb_forall in Hwc.
      pose proof (Hwc t Ht) as H1. rewrite forallb_forall in H1.
      assert (Hf : In f (seq 0 (nflows P t))) by (apply in_seq; pose proof (ptg_wr_nfl P t f Hw); lia).
      specialize (H1 f Hf). rewrite Hw in H1. rewrite Bf_is_B in H1 by assumption.
      fold (ptg_B P t f) in Hb. rewrite Hb in H1. discriminate.
    - (* sf_same *)
      intros t f h c Ht Hbf Hbh Hw.
      pose proof (Hpr t f t h c Ht Ht Hbf Hbh Hw) as H1. cbn [safe_pair] in H1.
      rewrite (proj2 (cell_eqb_spec c c) eq_refl), Hw in H1. cbn [andb] in H1.
      rewrite (proj2 (tid_eqb_spec t t) eq_refl) in H1. apply Nat.eqb_eq. assumption.
    - (* sf_order *)
      intros u g v h c Hu Hv Hne Hbu Hbv Hw.
      pose proof (Hpr u g v h c Hu Hv Hbu Hbv Hw) as H1. cbn [safe_pair] in H1.
      rewrite (proj2 (cell_eqb_spec c c) eq_refl), Hw in H1. cbn [andb] in H1.
      destruct (tid_eqb u v) eqn:Euv; [apply tid_eqb_spec in Euv; contradiction|].
      apply orb_true_iff in H1. destruct H1 as [H1|H1]; [left; apply (ancb_sound _ _ _ H1)|].
      right. apply andb_true_iff in H1. destruct H1 as [H1 H2]. split; [apply (ancb_sound _ _ _ H1)|].
      destruct (flow_src P u g) as [|p fp|k| |]; try discriminate.
      apply orb_true_iff in H2. destruct H2 as [H2|H2]; [left; apply tid_eqb_spec; assumption|right; apply (ancb_sound _ _ _ H2)].
    - (* sf_wb_src *)
      intros t f k c v h Ht Hfk Hb Hne Hv Hbv Hw.
      pose proof (Hwb _ (HW t f k c Ht Hfk Hb Hne)) as H1. cbn [safe_wb] in H1.
      apply andb_true_iff in H1. destruct H1 as [H1 _]. rewrite forallb_forall in H1.
      specialize (H1 _ (HB v h c Hv Hbv)). cbn beta iota in H1.
      apply andb_true_iff in H1. destruct H1 as [_ H1].
      rewrite (proj2 (cell_eqb_spec c c) eq_refl), Hw in H1. cbn [andb] in H1.
      apply orb_true_iff in H1. destruct H1 as [H1|H1]; [left; apply tid_eqb_spec; assumption|right; apply (ancb_sound _ _ _ H1)].
    - (* sf_wb_tgt *)
      intros t f k c v h Ht Hfk Hb Hne Hv Hbv.
      pose proof (Hwb _ (HW t f k c Ht Hfk Hb Hne)) as H1. cbn [safe_wb] in H1.
      apply andb_true_iff in H1. destruct H1 as [H1 _]. rewrite forallb_forall in H1.
      specialize (H1 _ (HB v h (CMem k) Hv Hbv)). cbn beta iota in H1.
      apply andb_true_iff in H1. destruct H1 as [H1 _].
      rewrite (proj2 (cell_eqb_spec (CMem k) (CMem k)) eq_refl) in H1. discriminate.
    - (* sf_wb_uniq *)
      intros t f k c t' f' c' Ht Ht' Hfk Hfk' Hb Hne Hb' Hne'.
      pose proof (Hwb _ (HW t f k c Ht Hfk Hb Hne)) as H1. cbn [safe_wb] in H1.
      apply andb_true_iff in H1. destruct H1 as [_ H1]. rewrite forallb_forall in H1.
      specialize (H1 _ (HW t' f' k c' Ht' Hfk' Hb' Hne')). cbn beta iota in H1.
      rewrite Z.eqb_refl in H1. apply andb_true_iff in H1. destruct H1 as [H1 H2].
      split; [apply tid_eqb_spec; assumption|apply Nat.eqb_eq; assumption].
    - (* sf_wb_nodup *)
      intros t Ht. apply nodup_fk_sound. apply Hnd4. assumption.
  Qed.

  Hypothesis H_safe : ptg_Safe P.

  Let Horder := wf_order P H_wf.

  Local Notation VP := (ValEngineProofs.VInv tid tid_eq_dec (instances P) (preds P) (nflows P) (flow_src P)
                          (flow_reads P) (flow_writes P) (flow_wbs P) (ptg_F names P) ptg_D0 ptg_U0 (ptg_rank P)).

  (* the dependency part of any run is a run of C01's engine *)
  Theorem ptgval_begin_after_preds evs l1 l2 t :
    log tid (ptg_run P evs) = l2 ++ LBegin t :: l1 -> forall p, In p (preds P t) -> In (LEnd p) l1.
  Proof. apply (begin_after_preds_ended tid tid_eq_dec (instances P) (preds P) (succs P) Hconv Hsucc). Qed.

  Theorem ptgval_core evs : core tid (ptg_vrun names P evs) = ptg_run P (core_events tid evs).
  Proof. apply core_vrun. Qed.

  Theorem ptgval_started_inputs evs t : In t (instances P) ->
    st tid (core tid (ptg_vrun names P evs)) t = Running ->
    forall g p fp, flow_src P t g = STask p fp ->
      st tid (core tid (ptg_vrun names P evs)) p = Done
      /\ bind tid (ptg_vrun names P evs) t g = bind tid (ptg_vrun names P evs) p fp
      /\ rdval tid (ptg_vrun names P evs) t g = ptg_Vout names P p fp.
  Proof.
    apply (started_inputs tid tid_eq_dec (instances P) (preds P) (succs P) (nflows P) (flow_src P) (flow_reads P)
             (flow_writes P) (flow_wbs P) (ptg_F names P) ptg_D0 ptg_U0 (ptg_rank P)
             Hconv Hsucc Hpred Hrank Hsrc (ptg_wr_nfl P) H_safe).
  Qed.

  Theorem ptgval_running_values evs t g : In t (instances P) ->
    st tid (core tid (ptg_vrun names P evs)) t = Running ->
    rdval tid (ptg_vrun names P evs) t g = ptg_Vin names P t g.
  Proof.
    apply (running_values tid tid_eq_dec (instances P) (preds P) (succs P) (nflows P) (flow_src P) (flow_reads P)
             (flow_writes P) (flow_wbs P) (ptg_F names P) ptg_D0 ptg_U0 (ptg_rank P)
             Hconv Hsucc Hpred Hrank Hsrc (ptg_wr_nfl P) H_safe).
  Qed.

  Theorem ptgval_observed_reads evs t : In t (instances P) ->
    st tid (core tid (ptg_vrun names P evs)) t = Done ->
    rlog tid (ptg_vrun names P evs) t = ptg_expected_reads names P t.
  Proof.
    apply (observed_reads tid tid_eq_dec (instances P) (preds P) (succs P) (nflows P) (flow_src P) (flow_reads P)
             (flow_writes P) (flow_wbs P) (ptg_F names P) ptg_D0 ptg_U0 (ptg_rank P)
             Hconv Hsucc Hpred Hrank Hsrc (ptg_wr_nfl P) H_safe).
  Qed.

  Theorem ptgval_seq_complete : ptg_complete P (ptg_seq_exec names P).
  Proof.
    destruct Horder as (_ & Hall & Htopo).
    apply (seq_exec_complete tid tid_eq_dec (instances P) (preds P) (succs P) (nflows P) (flow_src P) (flow_reads P)
             (flow_writes P) (flow_wbs P) (ptg_F names P) ptg_D0 ptg_U0 (ptg_rank P)
             Hconv Hsucc Hpred Hrank Hsrc (ptg_wr_nfl P) H_safe (topo_order P) Hall Htopo).
  Qed.

  Theorem ptgval_final_memory evs : ptg_complete P (ptg_vrun names P evs) ->
    forall c, mem tid (ptg_vrun names P evs) c = mem tid (ptg_seq_exec names P) c.
  Proof.
    destruct Horder as (_ & Hall & Htopo).
    apply (final_memory_is_sequential tid tid_eq_dec (instances P) (preds P) (succs P) (nflows P) (flow_src P) (flow_reads P)
             (flow_writes P) (flow_wbs P) (ptg_F names P) ptg_D0 ptg_U0 (ptg_rank P)
             Hconv Hsucc Hpred Hrank Hsrc (ptg_wr_nfl P) H_safe (topo_order P) Hall Htopo).
  Qed.

  Theorem ptgval_reads_sequential evs t : In t (instances P) ->
    st tid (core tid (ptg_vrun names P evs)) t = Done ->
    rlog tid (ptg_vrun names P evs) t = rlog tid (ptg_seq_exec names P) t.
  Proof.
    destruct Horder as (_ & Hall & Htopo).
    apply (reads_are_sequential tid tid_eq_dec (instances P) (preds P) (succs P) (nflows P) (flow_src P) (flow_reads P)
             (flow_writes P) (flow_wbs P) (ptg_F names P) ptg_D0 ptg_U0 (ptg_rank P)
             Hconv Hsucc Hpred Hrank Hsrc (ptg_wr_nfl P) H_safe (topo_order P) Hall Htopo).
  Qed.

  Theorem ptgval_reads_schedule_independent evs1 evs2 t : In t (instances P) ->
    st tid (core tid (ptg_vrun names P evs1)) t = Done -> st tid (core tid (ptg_vrun names P evs2)) t = Done ->
    rlog tid (ptg_vrun names P evs1) t = rlog tid (ptg_vrun names P evs2) t.
  Proof.
    apply (reads_schedule_independent tid tid_eq_dec (instances P) (preds P) (succs P) (nflows P) (flow_src P) (flow_reads P)
             (flow_writes P) (flow_wbs P) (ptg_F names P) ptg_D0 ptg_U0 (ptg_rank P)
             Hconv Hsucc Hpred Hrank Hsrc (ptg_wr_nfl P) H_safe).
  Qed.
End PerProgram.
