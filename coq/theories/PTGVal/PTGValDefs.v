(* C02 — the engine with data (PTGVal/ValEngine.v) instantiated with the JDF AST of
   PTG/PTGDefs.v.  Definitions only.

   flow_src     the data input of a flow of an instance: the FIRST input dependency whose
                guard holds (generated data_lookup: an if / else-if chain in the order of the
                dependencies); a task target with exactly one instance, D(e…) (the harness'
                collection is indexed by its first argument), NEW or NULL.  CTL flows carry
                nothing.
   flow_reads/flow_writes  what the generated BODY does (tools/jdfgen.py): PTG_READ for READ
                and RW flows, then PTG_WRITE for WRITE and RW flows.
   flow_wbs     `-> D(e…)` output dependencies whose guard holds (complete_hook).
   body_hash    the value PTG_WRITE stores (harness/ptg_driver.c, ptg_rt_write): a SplitMix64
                chain over the class name, the values of ALL locals, the flow number and the
                values read, shifted right by 3.
   again_count  the number of times the body of an instance returns AGAIN under
                `--again SEED MAX` (ptg_again_decide), used by C16.
   safeb        decision procedure for ValEngine.Safe (sound: PTGValProofs.safeb_sound). *)
From Coq Require Import ZArith List Bool Arith.
From PV Require Import PTG.PTGDefs PTG.Engine PTG.PTGProofs PTGVal.ValEngine.
Import ListNotations.
Local Open Scope Z_scope.

(* ------------------------------------------------------------------ flows *)
Definition flow_at (P : program) (t : tid) (f : nat) : option (tclass * list Z * flow) :=
  match env_of P t with
  | Some (c, env) => match nth_error (c_flows c) f with Some fl => Some (c, env, fl) | None => None end
  | None => None
  end.
Definition nflows (P : program) (t : tid) : nat :=
  match env_of P t with Some (c, _) => length (c_flows c) | None => O end.

Definition flow_src (P : program) (t : tid) (f : nat) : source tid :=
  match flow_at P t f with
  | Some (c, env, fl) =>
      if is_ctl fl then SNone
      else match first_active (p_globals P) env (f_deps fl) with
           | Some (Ttask c' f' args) =>
               match expand_args (p_globals P) env args with
               | [ps] => STask (c', ps) f'
               | _ => SNone
               end
           | Some (Tmem (e :: _)) => SMem (eval (p_globals P) env e)
           | Some Tnew => SNew
           | Some Tnull => SNull
           | _ => SNone
           end
  | None => SNone
  end.
Definition mode_reads (m : mode) : bool := match m with MRead | MRW => true | _ => false end.
Definition mode_writes (m : mode) : bool := match m with MWrite | MRW => true | _ => false end.
Definition flow_reads (P : program) (t : tid) (f : nat) : bool :=
  match flow_at P t f with Some (_, _, fl) => mode_reads (f_mode fl) | None => false end.
Definition flow_writes (P : program) (t : tid) (f : nat) : bool :=
  match flow_at P t f with Some (_, _, fl) => mode_writes (f_mode fl) | None => false end.
Definition dep_wb (G L : list Z) (fi : nat) (d : dep) : list (nat * Z) :=
  if d_in d then []
  else match dep_target G L d with
       | Some (Tmem (e :: _)) => [(fi, eval G L e)]
       | _ => []
       end.
Definition flow_wbs (P : program) (t : tid) : list (nat * Z) :=
  match env_of P t with
  | Some (c, env) =>
      flat_mapi (fun fi fl => if is_ctl fl then [] else flat_map (dep_wb (p_globals P) env fi) (f_deps fl))
                O (c_flows c)
  | None => []
  end.

(* ------------------------------------------------------------------ well-formedness, first match wins *)
(* PTGDefs.wf_program asks that EXACTLY one input dependency of a data flow has a true guard.  The runtime
   only needs AT LEAST one: parsec_check_IN_dependencies_with_mask/_with_counter stop at the first dependency
   whose guard holds and the generated data_lookup is an if / else-if chain in the same order, i.e. the
   FIRST applicable dependency wins (`first_active`, which pred_edges and flow_src already use).  The usual
   JDF idiom `<- (k > 0) ? A T(k-1)   <- D(0)` has overlapping guards; wf_program_fm accepts it.  Everything
   else is as in wf_program. *)
Definition data_inputs_fm (G L : list Z) (f : flow) : bool :=
  if is_ctl f then
    forallb (fun d => if d_in d then match dep_target G L d with
                                     | Some t => match t with
                                                 | Ttask _ _ _ => negb (Nat.eqb (length (target_tasks G L O t)) O)
                                                 | _ => false end
                                     | None => true end
                      else true) (f_deps f)
  else if has_inputs f then negb (Nat.eqb (active_inputs G L f) 0) else true.
Definition task_ok_fm (P : program) (ids : list tid) (t : tid) : bool :=
  match env_of P t with
  | None => false
  | Some (c, env) =>
      forallb (data_inputs_fm (p_globals P) env) (c_flows c)
      && forallb (fun e => let '(ft, p, fp) := e in
                           PTGDefs.mem p ids && Nat.eqb (ecount (fp, t, ft) (succ_edges P p)) (ecount e (pred_edges P t)))
                 (pred_edges P t)
      && forallb (fun e => let '(ft, s, fs) := e in
                           PTGDefs.mem s ids && Nat.eqb (ecount (fs, t, ft) (pred_edges P s)) (ecount e (succ_edges P t)))
                 (succ_edges P t)
      && forallb (fun p => PTGDefs.mem p ids && Nat.eqb (count t (succs P p)) (count p (preds P t))) (preds P t)
      && forallb (fun s => PTGDefs.mem s ids && Nat.eqb (count t (preds P s)) (count s (succs P t))) (succs P t)
  end.
Definition wf_program_fm (P : program) : bool :=
  let ids := instances P in
  forallb class_limits (p_classes P)
  && nodupb ids
  && forallb (task_ok_fm P ids) ids
  && (let o := topo_order P in
      Nat.eqb (length o) (length ids) && forallb (fun t => PTGDefs.mem t o) ids && check_order P [] o).

(* ------------------------------------------------------------------ the body *)
Definition M64 : Z := 18446744073709551616.
Definition M32 : Z := 4294967296.
Definition mix64 (z : Z) : Z :=
  let a := (z + 11400714819323198485) mod M64 in
  let b := (Z.lxor a (Z.shiftr a 30) * 13787848793156543929) mod M64 in
  let c := (Z.lxor b (Z.shiftr b 27) * 10723151780598845931) mod M64 in
  Z.lxor c (Z.shiftr c 31).
(* hash_instance(seed, class name, int32 locals) *)
Definition hash_instance (seed : Z) (name : list Z) (locals : list Z) : Z :=
  let h := fold_left (fun h ch => mix64 (Z.lxor h ch)) name (mix64 (seed mod M64)) in
  fold_left (fun h v => mix64 (Z.lxor h (v mod M32))) locals h.
Definition body_hash (name : list Z) (locals : list Z) (flow : nat) (rv : list (nat * Z)) : Z :=
  let h := mix64 (Z.lxor (hash_instance 24301 name locals) (Z.of_nat flow)) in
  let h := fold_left (fun h iv => mix64 (Z.lxor (Z.lxor h (snd iv mod M64)) (Z.shiftl (Z.of_nat (fst iv)) 56))) rv h in
  Z.shiftr h 3.
Definition again_count (seed : Z) (amax : Z) (name : list Z) (locals : list Z) : Z :=
  if amax <=? 0 then 0 else (hash_instance seed name locals) mod (amax + 1).

Definition ptg_F (names : list (list Z)) (P : program) (t : tid) (f : nat) (rv : list (nat * Z)) : Z :=
  match env_of P t with
  | Some (_, env) => body_hash (nth (fst t) names []) env f rv
  | None => 0
  end.
Definition ptg_D0 (k : Z) : Z := 1000 + k.           (* harness/ptg_driver.c dc_create *)
Definition ptg_U0 (t : tid) (f : nat) : Z := 0.      (* a NEW tile: never read in the programs we run *)

(* ------------------------------------------------------------------ the engine *)
Definition ptg_vstep (names : list (list Z)) (P : program) :=
  vstep tid tid_eq_dec (instances P) (succs P) (nflows P) (flow_src P) (flow_reads P) (flow_writes P)
        (flow_wbs P) (ptg_F names P).
Definition ptg_vrun (names : list (list Z)) (P : program) (evs : list (vevent tid)) : vstate tid :=
  vrun tid tid_eq_dec (instances P) (preds P) (succs P) (nflows P) (flow_src P) (flow_reads P)
       (flow_writes P) (flow_wbs P) (ptg_F names P) ptg_D0 ptg_U0 evs.
Definition ptg_complete (P : program) (s : vstate tid) : Prop := complete tid (instances P) s.
(* the sequential execution: the instances one after the other in the topological order *)
Definition ptg_seq_exec (names : list (list Z)) (P : program) : vstate tid :=
  seq_exec tid tid_eq_dec (instances P) (preds P) (succs P) (nflows P) (flow_src P) (flow_reads P)
           (flow_writes P) (flow_wbs P) (ptg_F names P) ptg_D0 ptg_U0 (topo_order P).
(* the values the JDF names *)
Definition ptg_Vin (names : list (list Z)) (P : program) : tid -> nat -> Z :=
  Vin tid (nflows P) (flow_src P) (flow_reads P) (flow_writes P) (ptg_F names P) ptg_D0 ptg_U0 (ptg_rank P).
Definition ptg_Vout (names : list (list Z)) (P : program) : tid -> nat -> Z :=
  Vout tid (nflows P) (flow_src P) (flow_reads P) (flow_writes P) (ptg_F names P) ptg_D0 ptg_U0 (ptg_rank P).
Definition ptg_expected_reads (names : list (list Z)) (P : program) : tid -> list (nat * Z) :=
  expected_reads tid (nflows P) (flow_src P) (flow_reads P) (flow_writes P) (ptg_F names P) ptg_D0 ptg_U0 (ptg_rank P).
Definition ptg_B (P : program) : tid -> nat -> option (cell tid) := B tid (flow_src P) (ptg_rank P).
Definition ptg_Safe (P : program) : Prop :=
  Safe tid (instances P) (preds P) (flow_src P) (flow_writes P) (flow_wbs P) (ptg_rank P).

(* observations of a state, for the driver *)
Definition obs_reads (s : vstate tid) (t : tid) : list (nat * Z) := rlog tid s t.
Definition obs_writes (names : list (list Z)) (P : program) (s : vstate tid) (t : tid) : list (nat * Z) :=
  flat_map (fun f => if flow_writes P t f
                     then match bind tid s t f with Some _ => [(f, ptg_F names P t f (rlog tid s t))] | None => [] end
                     else []) (seq 0 (nflows P t)).
Definition obs_data (s : vstate tid) (n : nat) : list Z := map (fun k => mem tid s (CMem (Z.of_nat k))) (seq 0 n).
Definition all_done (P : program) (s : vstate tid) : bool :=
  forallb (fun t => match st tid (core tid s) t with Done => true | _ => false end) (instances P)
  && match pend tid s with [] => true | _ => false end.

(* ------------------------------------------------------------------ the hazard check *)
Definition cell_eqb (a b : cell tid) : bool :=
  match a, b with
  | CMem k, CMem k' => k =? k'
  | CNew t f, CNew t' f' => tid_eqb t t' && Nat.eqb f f'
  | _, _ => false
  end.
(* static binding with a fuel that exceeds every rank *)
Definition bfuel (P : program) : nat := S (length (instances P)).
Definition Bf (P : program) (t : tid) (f : nat) : option (cell tid) := Bn tid (flow_src P) (bfuel P) t f.

(* strict ancestor, by exploring the predecessors (fuel: the number of instances) *)
Fixpoint ancb (P : program) (n : nat) (a t : tid) : bool :=
  match n with
  | O => false
  | S n' => existsb (fun p => tid_eqb p a || ancb P n' a p) (preds P t)
  end.
Definition ancP (P : program) (a t : tid) : bool := ancb P (length (instances P)) a t.

(* (instance, flow, copy) for every flow that has a copy *)
Definition holders (P : program) : list (tid * nat * cell tid) :=
  flat_map (fun t => flat_map (fun f => match Bf P t f with Some c => [(t, f, c)] | None => [] end)
                              (seq 0 (nflows P t))) (instances P).
(* effective write-backs (instance, flow, k, source copy) *)
Definition writebacks (P : program) : list (tid * nat * Z * cell tid) :=
  flat_map (fun t => flat_map (fun fk => match Bf P t (fst fk) with
                                         | Some c => if cell_eqb c (CMem (snd fk)) then [] else [(t, fst fk, snd fk, c)]
                                         | None => [] end) (flow_wbs P t)) (instances P).
Fixpoint nodup_fk (l : list (nat * Z)) : bool :=
  match l with
  | [] => true
  | (f, k) :: r => negb (existsb (fun x => Nat.eqb (fst x) f && (snd x =? k)) r) && nodup_fk r
  end.

Definition safe_wr_cell (P : program) : bool :=
  forallb (fun t => forallb (fun f => if flow_writes P t f then match Bf P t f with Some _ => true | None => false end else true)
                            (seq 0 (nflows P t))) (instances P).
Definition safe_pair (P : program) (x y : tid * nat * cell tid) : bool :=
  let '(u, g, c) := x in let '(v, h, c') := y in
  if cell_eqb c c' && flow_writes P v h then
    if tid_eqb u v then Nat.eqb g h
    else ancP P u v
         || (ancP P v u && match flow_src P u g with STask p _ => tid_eqb v p || ancP P v p | _ => false end)
  else true.
Definition safe_wb (P : program) (hs : list (tid * nat * cell tid)) (ws : list (tid * nat * Z * cell tid))
           (w : tid * nat * Z * cell tid) : bool :=
  let '(t, f, k, c) := w in
  forallb (fun y => let '(v, h, c') := y in
                    negb (cell_eqb c' (CMem k))
                    && (if cell_eqb c' c && flow_writes P v h then tid_eqb v t || ancP P v t else true)) hs
  && forallb (fun w' => let '(t', f', k', _) := w' in
                        if k' =? k then tid_eqb t t' && Nat.eqb f f' else true) ws.
Definition safeb (P : program) : bool :=
  let hs := holders P in
  let ws := writebacks P in
  safe_wr_cell P
  && forallb (fun x => forallb (safe_pair P x) hs) hs
  && forallb (safe_wb P hs ws) ws
  && forallb (fun t => nodup_fk (flow_wbs P t)) (instances P).

(* a body would read the arbitrary content of a fresh NEW tile *)
Definition reads_uninit (P : program) : bool :=
  existsb (fun t => existsb (fun f => flow_reads P t f && match flow_src P t f with SNew => true | _ => false end)
                            (seq 0 (nflows P t))) (instances P).
