(* C02 — the dataflow engine of PTG/Engine.v extended with DATA.  Definitions only
   (proofs: ValEngineProofs.v).

   What is mirrored (generated data_lookup / hook / complete_hook / release_deps of
   jdf2c.c, parsec_remote_dep_memcpy of remote_dep_mpi.c):

   * a flow of a task does not carry a value but a DATA COPY, i.e. a reference to a
     memory cell.  A cell is an element of the data collection (CMem k: the memory of
     D(k), owned by the collection) or a tile allocated from the arena for a `<- NEW`
     input (CNew t f).  data_lookup (prepare_input, our Begin t) binds every flow:
       <- A P(..)   the pointer found in the repository entry of the producer
                    (entry->data[flow index of A in P]) — the SAME copy, nothing is duplicated
                    inside a process;
       <- D(k)      data_of(D, k): the collection's own copy;
       <- NEW       a fresh arena tile (content: whatever the arena returns, U0);
       <- NULL      no copy.
     The hook sets data_out = data_in for every flow: a flow forwards the copy it
     received, READ flows included.
   * the body (atomic here, at End t) reads the flows it reads, then writes IN PLACE
     the flows it writes (RW/WRITE); a collection element reached through `<- D(k)`
     is therefore modified in place.
   * `-> D(k)` (complete_hook): when the flow's copy is not D(k)'s own copy the runtime
     posts a DEP_MEMCPY command; the copy is done LATER by the communication engine
     (event VCopy), at an arbitrary moment after the task completed.
   * then release_deps: the core engine's End t (successors counted down).

   Because copies are shared, the VALUE semantics of the JDF ("each input flow holds
   the value its producer wrote") holds only for programs free of hazards on the
   shared copies; `Safe` states that condition on the static binding `B`.

   The core of a state is the state of PTG/Engine.v; every step is either a core step
   or leaves the core unchanged, so all the C01 invariants carry over. *)
From Coq Require Import ZArith List Arith Bool.
From PV Require Import PTG.Engine.
Import ListNotations.
Local Open Scope Z_scope.

Section ValEngine.
  Variable task : Type.
  Variable teq : forall a b : task, {a = b} + {a <> b}.
  Variable tasks : list task.
  Variable preds succs : task -> list task.

  Inductive cell := CMem (k : Z) | CNew (t : task) (f : nat).
  Inductive source := SNone | STask (p : task) (fp : nat) | SMem (k : Z) | SNew | SNull.

  Definition cell_eq_dec : forall a b : cell, {a = b} + {a <> b}.
  Proof. decide equality; try apply Z.eq_dec; try apply Nat.eq_dec; apply teq. Defined.

  (* the program, as the engine sees it *)
  Variable nfl : task -> nat.                       (* number of flows of the task's class *)
  Variable src : task -> nat -> source.             (* the active data input of a flow *)
  Variable reads writes : task -> nat -> bool.      (* what the body does with the flow *)
  Variable wbs : task -> list (nat * Z).            (* (flow, k) for every active `-> D(k)` *)
  Variable F : task -> nat -> list (nat * Z) -> Z.  (* value written to a flow, from the values read *)
  Variable D0 : Z -> Z.                             (* initial content of the collection *)
  Variable U0 : task -> nat -> Z.                   (* content of a fresh NEW tile *)
  Definition vnull : Z := -1.                       (* what the harness records when it reads a NULL flow *)

  Record vstate := { core : state task;
                     bind : task -> nat -> option cell;   (* this_task->data[f].data_in / data_out *)
                     mem : cell -> Z;
                     rlog : task -> list (nat * Z);       (* values read by the body of a completed task *)
                     pend : list (cell * Z) }.            (* posted DEP_MEMCPY commands: copy cell into D(k) *)
  Inductive vevent := VE (e : event task) | VCopy (i : nat).

  Definition init_mem (c : cell) : Z := match c with CMem k => D0 k | CNew t f => U0 t f end.
  Definition vinit : vstate :=
    {| core := init task teq tasks preds; bind := fun _ _ => None; mem := init_mem;
       rlog := fun _ => []; pend := [] |}.

  Definition lookup (b : task -> nat -> option cell) (t : task) (f : nat) : option cell :=
    match src t f with
    | STask p fp => b p fp
    | SMem k => Some (CMem k)
    | SNew => Some (CNew t f)
    | _ => None
    end.
  Definition rdval (s : vstate) (t : task) (f : nat) : Z :=
    match bind s t f with Some c => mem s c | None => vnull end.
  Definition rflows (t : task) : list nat := filter (reads t) (seq 0 (nfl t)).
  Definition body_reads (s : vstate) (t : task) : list (nat * Z) :=
    map (fun f => (f, rdval s t f)) (rflows t).
  Definition mupd (m : cell -> Z) (c : cell) (v : Z) : cell -> Z :=
    fun x => if cell_eq_dec x c then v else m x.
  Definition write1 (s : vstate) (t : task) (rv : list (nat * Z)) (m : cell -> Z) (f : nat) : cell -> Z :=
    if writes t f then match bind s t f with Some c => mupd m c (F t f rv) | None => m end else m.
  Definition body_writes (s : vstate) (t : task) (rv : list (nat * Z)) : cell -> Z :=
    fold_left (write1 s t rv) (seq 0 (nfl t)) (mem s).
  Definition new_copies (s : vstate) (t : task) : list (cell * Z) :=
    flat_map (fun fk => match bind s t (fst fk) with
                        | Some c => if cell_eq_dec c (CMem (snd fk)) then [] else [(c, snd fk)]
                        | None => [] end) (wbs t).
  Fixpoint remove_nth {A} (i : nat) (l : list A) : list A :=
    match l, i with
    | [], _ => []
    | _ :: r, O => r
    | x :: r, S j => x :: remove_nth j r
    end.

  Definition vstep (s : vstate) (e : vevent) : vstate :=
    match e with
    | VE ev =>
        let c' := step task teq tasks succs (core s) ev in
        match ev with
        | Begin t =>
            match st task (core s) t with
            | Ready => {| core := c';
                          bind := fun t' f => if teq t' t then lookup (bind s) t f else bind s t' f;
                          mem := mem s; rlog := rlog s; pend := pend s |}
            | _ => s
            end
        | End t =>
            match st task (core s) t with
            | Running => let rv := body_reads s t in
                         {| core := c'; bind := bind s; mem := body_writes s t rv;
                            rlog := fun t' => if teq t' t then rv else rlog s t';
                            pend := pend s ++ new_copies s t |}
            | _ => s
            end
        | _ => {| core := c'; bind := bind s; mem := mem s; rlog := rlog s; pend := pend s |}
        end
    | VCopy i =>
        match nth_error (pend s) i with
        | Some (c, k) => {| core := core s; bind := bind s; mem := mupd (mem s) (CMem k) (mem s c);
                            rlog := rlog s; pend := remove_nth i (pend s) |}
        | None => s
        end
    end.
  Definition vrun (evs : list vevent) : vstate := fold_left vstep evs vinit.

  (* every instance done, every posted copy performed *)
  Definition complete (s : vstate) : Prop :=
    (forall t, In t tasks -> st task (core s) t = Done) /\ pend s = [].

  (* the sequential execution: the tasks one after the other in the given order, then the copies *)
  Definition seq_tasks (order : list task) : list vevent :=
    flat_map (fun t => [VE (StartupOne t); VE (Begin t); VE (End t)]) order.
  Definition drain (s : vstate) : vstate :=
    Nat.iter (length (pend s)) (fun x => vstep x (VCopy 0)) s.
  Definition seq_exec (order : list task) : vstate := drain (vrun (seq_tasks order)).
  Definition seq_events (order : list task) : list vevent :=
    seq_tasks order ++ repeat (VCopy 0) (length (pend (vrun (seq_tasks order)))).

  (* ------------------------------------------------ the value semantics of the program *)
  (* static binding and values, by recursion along the producers (fuel: the rank in a
     topological numbering, larger than the rank of every predecessor) *)
  Variable rank : task -> nat.
  Fixpoint Bn (n : nat) (t : task) (f : nat) : option cell :=
    match n with
    | O => None
    | S n' => match src t f with
              | STask p fp => Bn n' p fp
              | SMem k => Some (CMem k)
              | SNew => Some (CNew t f)
              | _ => None
              end
    end.
  Definition B (t : task) (f : nat) : option cell := Bn (S (rank t)) t f.
  Fixpoint Von (n : nat) (t : task) (f : nat) : Z :=
    match n with
    | O => 0
    | S n' =>
        let vin g := match src t g with
                     | STask p fp => Von n' p fp
                     | SMem k => D0 k
                     | SNew => U0 t g
                     | _ => vnull
                     end in
        if writes t f then F t f (map (fun g => (g, vin g)) (rflows t)) else vin f
    end.
  (* the value a flow holds when the task has completed: what the body wrote, or what it received *)
  Definition Vout (t : task) (f : nat) : Z := Von (S (rank t)) t f.
  (* the value the JDF names as input of the flow *)
  Definition Vin (t : task) (g : nat) : Z :=
    match src t g with
    | STask p fp => Vout p fp
    | SMem k => D0 k
    | SNew => U0 t g
    | _ => vnull
    end.
  Definition expected_reads (t : task) : list (nat * Z) := map (fun g => (g, Vin t g)) (rflows t).

  (* strict ancestor in the dependency graph *)
  Inductive anc : task -> task -> Prop :=
  | anc_pred p t : In p (preds t) -> anc p t
  | anc_trans p q t : anc p q -> In q (preds t) -> anc p t.

  (* absence of hazards on shared copies *)
  Record Safe : Prop := {
    (* a written flow has a copy *)
    sf_wr_cell : forall t f, In t tasks -> writes t f = true -> B t f <> None;
    (* inside a task the written copy is reached through one flow only *)
    sf_same : forall t f h c, In t tasks -> B t f = Some c -> B t h = Some c -> writes t h = true -> f = h;
    (* a writer v of a copy and any other holder u of the same copy are ordered by the
       dependencies; when the writer comes first it is the producer named by u's input,
       or comes before that producer *)
    sf_order : forall u g v h c, In u tasks -> In v tasks -> u <> v ->
        B u g = Some c -> B v h = Some c -> writes v h = true ->
        anc u v \/ (anc v u /\ match src u g with STask p _ => v = p \/ anc v p | _ => False end);
    (* `-> D(k)` from another copy: the source copy is not written after the task ... *)
    sf_wb_src : forall t f k c v h, In t tasks -> In (f, k) (wbs t) -> B t f = Some c -> c <> CMem k ->
        In v tasks -> B v h = Some c -> writes v h = true -> v = t \/ anc v t;
    (* ... no flow uses the destination element D(k) ... *)
    sf_wb_tgt : forall t f k c v h, In t tasks -> In (f, k) (wbs t) -> B t f = Some c -> c <> CMem k ->
        In v tasks -> B v h <> Some (CMem k);
    (* ... and it is the only write-back into D(k) *)
    sf_wb_uniq : forall t f k c t' f' c', In t tasks -> In t' tasks -> In (f, k) (wbs t) -> In (f', k) (wbs t') ->
        B t f = Some c -> c <> CMem k -> B t' f' = Some c' -> c' <> CMem k -> t = t' /\ f = f';
    sf_wb_nodup : forall t, In t tasks -> NoDup (wbs t)
  }.
End ValEngine.

Arguments CMem {task} k.
Arguments CNew {task} t f.
Arguments SNone {task}.
Arguments STask {task} p fp.
Arguments SMem {task} k.
Arguments SNew {task}.
Arguments SNull {task}.
Arguments VE {task} e.
Arguments VCopy {task} i.
