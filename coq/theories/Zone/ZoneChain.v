(* C28, part 2: the chain of segments laid over the segment array, the
   representation invariant of a zone, and what the walk of zone_in_use sees. *)
From PV Require Import Base.Tac Zone.ZoneDefs Zone.ZoneBase.
Local Open Scope Z_scope.

Notation st cs t := (c_st (cget cs t)).
Notation nbu cs t := (c_nbu (cget cs t)).
Notation nbp cs t := (c_nbp (cget cs t)).

(* [Chain cs a p f l b q g]: the heads in l are consecutive segments covering
   [a,b); the segment before a has p units and is free iff f; the last segment
   before b has q units and is free iff g.  Every head has a valid status, at
   least one unit, a back link equal to the size of its predecessor, and a free
   segment is never followed by a free segment. *)
Inductive Chain (cs : list cell) : Z -> Z -> bool -> list Z -> Z -> Z -> bool -> Prop :=
| Ch_nil a p f : Chain cs a p f [] a p f
| Ch_cons a p f l b q g :
    1 <= nbu cs a -> nbp cs a = p ->
    (st cs a = EMPTY \/ st cs a = FULL) ->
    (f = true -> st cs a = FULL) ->
    Chain cs (a + nbu cs a) (nbu cs a) (st cs a =? EMPTY) l b q g ->
    Chain cs a p f (a :: l) b q g.

Lemma chain_app cs a p f l1 m q g l2 b q' g' :
  Chain cs a p f l1 m q g -> Chain cs m q g l2 b q' g' -> Chain cs a p f (l1 ++ l2) b q' g'.
Proof. induction 1; cbn [app]; auto. intros. constructor; auto. Qed.

Lemma chain_cons_inv cs a p f x l b q g : Chain cs a p f (x :: l) b q g ->
  x = a /\ 1 <= nbu cs a /\ nbp cs a = p /\ (st cs a = EMPTY \/ st cs a = FULL) /\
  (f = true -> st cs a = FULL) /\
  Chain cs (a + nbu cs a) (nbu cs a) (st cs a =? EMPTY) l b q g.
Proof. intros H; inv H. repeat split; auto. Qed.

Lemma chain_app_inv cs l1 : forall a p f l2 b q' g',
  Chain cs a p f (l1 ++ l2) b q' g' ->
  exists m q g, Chain cs a p f l1 m q g /\ Chain cs m q g l2 b q' g'.
Proof.
  induction l1 as [|x l1 IH]; cbn [app]; intros a p f l2 b q' g' H.
  - exists a, p, f. split; [constructor|auto].
  - apply chain_cons_inv in H. destruct H as (-> & J1 & J2 & J3 & J4 & J5).
    destruct (IH _ _ _ _ _ _ _ J5) as (m & q & g & H1 & H2).
    exists m, q, g. split; auto. constructor; auto.
Qed.

Lemma chain_bounds cs a p f l b q g : Chain cs a p f l b q g ->
  a <= b /\ forall t, In t l -> a <= t /\ t + nbu cs t <= b /\ 1 <= nbu cs t.
Proof.
  induction 1 as [|a p f l b q g H1 H2 H3 H4 H5 [IH1 IH2]]; [split; [lia|intros t []]|].
  split; [lia|]. intros t [E|Hi]; [subst; lia|]. specialize (IH2 t Hi). lia.
Qed.

Lemma chain_nil_inv cs a p f b q g : Chain cs a p f [] b q g -> b = a /\ q = p /\ g = f.
Proof. intros H; inv H; auto. Qed.

(* only the cells at the heads matter *)
Lemma chain_ext cs cs' a p f l b q g : Chain cs a p f l b q g ->
  (forall t, In t l -> cget cs' t = cget cs t) -> Chain cs' a p f l b q g.
Proof.
  induction 1 as [|a p f l b q g H1 H2 H3 H4 H5 IH]; intros He; [constructor|].
  assert (E : cget cs' a = cget cs a) by (apply He; left; auto).
  constructor; rewrite ?E; auto. apply IH. intros t Ht; apply He; right; auto.
Qed.

(* the first head may get a new back link and a new constraint from its predecessor *)
Lemma chain_rehead cs cs' a p f p' (f' : bool) l b q g : Chain cs a p f l b q g ->
  (forall t, In t l -> t <> a -> cget cs' t = cget cs t) ->
  (l <> [] -> st cs' a = st cs a /\ nbu cs' a = nbu cs a /\ nbp cs' a = p' /\
              (f' = true -> st cs a = FULL)) ->
  exists q' g', Chain cs' a p' f' l b q' g'.
Proof.
  intros H He Hh. inversion H as [|a0 p0 f0 l0 b0 q0 g0 H1 H2 H3 H4 H5]; subst.
  - do 2 eexists; constructor.
  - destruct Hh as (E1 & E2 & E3 & E4); [discriminate|].
    exists q, g. constructor; rewrite ?E1, ?E2; auto.
    apply chain_ext with cs; auto. intros t Ht. apply He; [right; auto|].
    apply chain_bounds in H5. destruct H5 as [_ H5]. specialize (H5 t Ht). lia.
Qed.

Lemma chain_length cs a p f l b q g : Chain cs a p f l b q g -> Z.of_nat (length l) <= b - a.
Proof. induction 1; cbn [length]; lia. Qed.

(* two heads do not overlap *)
Lemma chain_sep cs a p f l b q g t u : Chain cs a p f l b q g ->
  In t l -> In u l -> t < u -> t + nbu cs t <= u.
Proof.
  intros H Ht Hu Hlt. apply in_split in Ht. destruct Ht as (l1 & l2 & ->).
  apply chain_app_inv in H. destruct H as (m & q1 & g1 & H1 & H2).
  apply chain_cons_inv in H2. destruct H2 as (-> & J1 & J2 & J3 & J4 & J5).
  apply in_app_iff in Hu. destruct Hu as [Hu|[Hu|Hu]].
  - apply chain_bounds in H1. destruct H1 as [_ H1]. specialize (H1 u Hu). lia.
  - lia.
  - apply chain_bounds in J5. destruct J5 as [_ H3]. specialize (H3 u Hu). lia.
Qed.

Lemma chain_nodup cs a p f l b q g : Chain cs a p f l b q g -> NoDup l.
Proof.
  induction 1 as [|a p f l b q g H1 H2 H3 H4 H5 IH]; constructor; auto.
  intro Hi. apply chain_bounds in H5. destruct H5 as [_ H5]. specialize (H5 a Hi). lia.
Qed.

(* every unit of [a,b) lies in exactly one segment *)
Lemma chain_cover cs a p f l b q g u : Chain cs a p f l b q g -> a <= u < b ->
  exists t, In t l /\ t <= u < t + nbu cs t.
Proof.
  induction 1 as [|a p f l b q g H1 H2 H3 H4 H5 IH]; intros Hu; [lia|].
  destruct (Z_lt_le_dec u (a + nbu cs a)).
  - exists a. split; [left; auto|lia].
  - destruct IH as (t & Ht & Hr); [lia|]. exists t. split; [right; auto|auto].
Qed.

(* what follows a head: the end of the zone or the next head; free is followed by full *)
Lemma chain_next cs a p f l b q g t : Chain cs a p f l b q g -> In t l ->
  t + nbu cs t = b \/ (In (t + nbu cs t) l /\ nbp cs (t + nbu cs t) = nbu cs t /\
                       (st cs t = EMPTY -> st cs (t + nbu cs t) = FULL)).
Proof.
  intros H Ht. apply in_split in Ht. destruct Ht as (l1 & l2 & ->).
  apply chain_app_inv in H. destruct H as (m & q1 & g1 & H1 & H2).
  apply chain_cons_inv in H2. destruct H2 as (-> & J1 & J2 & J3 & J4 & J5).
  destruct l2 as [|y l2]; [apply chain_nil_inv in J5; left; lia|right].
  apply chain_cons_inv in J5. destruct J5 as (-> & K1 & K2 & K3 & K4 & K5).
  split; [apply in_app_iff; right; right; left; auto|]. split; auto.
  intros E. apply K4. rewrite E. reflexivity.
Qed.


Lemma chain_last cs l : forall a p f u b q g, Chain cs a p f (l ++ [u]) b q g ->
  b = u + nbu cs u /\ q = nbu cs u /\ g = (st cs u =? EMPTY).
Proof.
  intros a p f u b q g H. apply chain_app_inv in H. destruct H as (m & q1 & g1 & _ & H2).
  apply chain_cons_inv in H2. destruct H2 as (-> & J1 & J2 & J3 & J4 & J5).
  apply chain_nil_inv in J5. destruct J5 as (-> & -> & ->). auto.
Qed.

Lemma chain_prev cs p f l b q g t : Chain cs 0 p f l b q g -> In t l ->
  (t = 0 /\ nbp cs t = p) \/
  (exists u, In u l /\ u + nbu cs u = t /\ nbp cs t = nbu cs u /\ (st cs u = EMPTY -> st cs t = FULL)).
Proof.
  intros H Ht. apply in_split in Ht. destruct Ht as (l1 & l2 & ->).
  apply chain_app_inv in H. destruct H as (m & q1 & g1 & H1 & H2).
  apply chain_cons_inv in H2. destruct H2 as (-> & J1 & J2 & J3 & J4 & J5).
  destruct l1 as [|x l1'] using rev_ind.
  - left. apply chain_nil_inv in H1. destruct H1 as (-> & -> & ->). auto.
  - right. clear IHl1'. apply chain_last in H1. destruct H1 as (E1 & E2 & E3). subst.
    exists x. split; [apply in_app_iff; left; apply in_app_iff; right; left; auto|].
    repeat split; auto. intros E. apply J4. rewrite E. reflexivity.
Qed.

(* ---- the walk of zone_in_use / zone_debug sees exactly the chain ------------- *)
Lemma walk_chain cs n : forall l a p f q g fuel, Chain cs a p f l n q g -> 0 <= a ->
  (length l < fuel)%nat -> walk fuel n cs a = l.
Proof.
  induction l as [|x l IH]; intros a p f q g fuel H Ha Hf.
  - apply chain_nil_inv in H. destruct H as (-> & _). destruct fuel; [cbn [length] in Hf; lia|].
    cbn [walk]. assert (E : in_range a a = false) by (apply in_range_false; lia). rewrite E. auto.
  - apply chain_cons_inv in H. destruct H as (-> & J1 & J2 & J3 & J4 & J5).
    destruct fuel; [cbn [length] in Hf; lia|]. cbn [walk length] in *.
    pose proof (chain_bounds _ _ _ _ _ _ _ _ J5) as [Hb _].
    assert (E : in_range n a = true) by (apply in_range_iff; lia). rewrite E.
    f_equal. apply (IH _ _ _ _ _ _ J5); lia.
Qed.

Lemma sum_units_cons s cs x l :
  sum_units s cs (x :: l) = (if st cs x =? s then nbu cs x else 0) + sum_units s cs l.
Proof. reflexivity. Qed.

Lemma sum_units_app s cs l1 l2 : sum_units s cs (l1 ++ l2) = sum_units s cs l1 + sum_units s cs l2.
Proof.
  induction l1 as [|x l1 IH]; [reflexivity|].
  change ((x :: l1) ++ l2) with (x :: (l1 ++ l2)). rewrite !sum_units_cons, IH. lia.
Qed.

Lemma sum_units_ext s cs cs' l : (forall t, In t l -> cget cs' t = cget cs t) ->
  sum_units s cs' l = sum_units s cs l.
Proof.
  induction l as [|x l IH]; intros He; auto. rewrite !sum_units_cons.
  rewrite He by (left; auto). rewrite IH; auto. intros t Ht; apply He; right; auto.
Qed.

Lemma sum_units_total cs a p f l b q g : Chain cs a p f l b q g ->
  sum_units FULL cs l + sum_units EMPTY cs l = b - a.
Proof.
  induction 1 as [|a p f l b q g H1 H2 H3 H4 H5 IH]; [cbn; lia|].
  rewrite !sum_units_cons. unfold EMPTY, FULL in *.
  destruct H3 as [E|E]; rewrite E; cbn [Z.eqb Pos.eqb]; lia.
Qed.

(* ---- the representation invariant of a zone --------------------------------- *)
Definition FreeSeg (cs : list cell) (hs : list Z) (k t : Z) : Prop :=
  In t hs /\ st cs t = EMPTY /\ nbu cs t = k.

Record Inv (z : zone) (hs : list Z) : Prop := mkInv {
  inv_n : 1 <= z_n z;
  inv_unit : 1 <= z_unit z;
  inv_len : Z.of_nat (length (z_cells z)) = z_n z;
  inv_chain : exists q g, Chain (z_cells z) 0 1 false hs (z_n z) q g;
  (* cells inside a segment keep a stale status, never FULL *)
  inv_full_head : forall t, 0 <= t < z_n z -> st (z_cells z) t = FULL -> In t hs;
  inv_sorted : keys_gt 0 (z_idx z);
  inv_rep : Rep (ix_find (z_idx z)) (FreeSeg (z_cells z) hs)
}.

Lemma inv_heads z hs : Inv z hs -> z_heads z = hs.
Proof.
  intros I. destruct (inv_chain _ _ I) as (q & g & H). unfold z_heads.
  apply (walk_chain _ _ _ _ _ _ _ _ _ H); [lia|].
  pose proof (chain_length _ _ _ _ _ _ _ _ H). lia.
Qed.

Lemma inv_head_range z hs t : Inv z hs -> In t hs ->
  0 <= t /\ t + nbu (z_cells z) t <= z_n z /\ 1 <= nbu (z_cells z) t.
Proof.
  intros I Ht. destruct (inv_chain _ _ I) as (q & g & H).
  apply chain_bounds in H. destruct H as [_ H]. apply H; auto.
Qed.

Lemma inv_head_status z hs t : Inv z hs -> In t hs ->
  st (z_cells z) t = EMPTY \/ st (z_cells z) t = FULL.
Proof.
  intros I Ht. destruct (inv_chain _ _ I) as (q & g & H).
  apply in_split in Ht. destruct Ht as (l1 & l2 & ->).
  apply chain_app_inv in H. destruct H as (m & q1 & g1 & H1 & H2).
  apply chain_cons_inv in H2. destruct H2 as (-> & _ & _ & J3 & _). exact J3.
Qed.
