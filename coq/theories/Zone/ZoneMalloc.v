(* C28, part 3: zone_malloc_init establishes the invariant; zone_malloc preserves
   it, fails exactly when no free segment fits, and takes a smallest fitting one. *)
From PV Require Import Base.Tac Zone.ZoneDefs Zone.ZoneBase Zone.ZoneChain.
Local Open Scope Z_scope.

(* decide [a =? b] by arithmetic wherever it occurs in the goal *)
Ltac eqb_lia :=
  repeat match goal with
  | |- context[?a =? ?b] =>
      first [ replace (a =? b) with true by (symmetry; apply Z.eqb_eq; lia)
            | replace (a =? b) with false by (symmetry; apply Z.eqb_neq; lia) ]
  end.
(* read through a stack of cell writes *)
Ltac cg := repeat (rewrite cget_cset by (rewrite ?cset_length; lia)).

Lemma units_of_nonneg size unit : 0 <= size -> 1 <= unit -> 0 <= units_of size unit.
Proof. intros. unfold units_of. apply Z.div_pos; lia. Qed.
Lemma units_of_cover size unit : 1 <= unit -> size <= units_of size unit * unit.
Proof.
  intros. unfold units_of.
  pose proof (Z.mul_div_le (size + unit - 1) unit ltac:(lia)).
  pose proof (Z.mod_pos_bound (size + unit - 1) unit ltac:(lia)).
  pose proof (Z.div_mod (size + unit - 1) unit ltac:(lia)). nia.
Qed.
Lemma units_of_pos size unit : 0 < size -> 1 <= unit -> 1 <= units_of size unit.
Proof.
  intros. unfold units_of.
  assert (1 * unit <= size + unit - 1) by lia.
  pose proof (Z.div_le_mono (1 * unit) (size + unit - 1) unit ltac:(lia) ltac:(lia)).
  rewrite Z.div_mul in *; lia.
Qed.
Lemma units_of_zero size unit : 0 <= size -> 1 <= unit -> units_of size unit = 0 -> size = 0.
Proof.
  intros H1 H2 H3. destruct (Z.eq_dec size 0); auto.
  pose proof (units_of_pos size unit ltac:(lia) H2). lia.
Qed.

(* ---- zone_malloc_init ------------------------------------------------------- *)
Lemma init_inv n unit : 1 <= n -> 1 <= unit -> Inv (zone_init n unit) [0].
Proof.
  intros Hn Hu. unfold zone_init.
  assert (Hlen : Z.of_nat (length (repeat dcell (Z.to_nat n))) = n) by (rewrite repeat_length; lia).
  assert (Hc : forall u, 0 <= u ->
             cget (cset (repeat dcell (Z.to_nat n)) 0 (mkCell EMPTY n 1)) u =
             if u =? 0 then mkCell EMPTY n 1 else dcell).
  { intros u Hu0. rewrite cget_cset by lia. rewrite cget_repeat. reflexivity. }
  constructor; cbn [z_n z_unit z_cells z_idx]; auto.
  - rewrite cset_length. auto.
  - exists n, true. constructor; rewrite ?Hc by lia; cbn; auto; try lia; try (intros; discriminate).
    constructor.
  - intros t Ht. rewrite Hc by lia. destruct (t =? 0); cbn; unfold FULL, EMPTY, UNDEF; lia.
  - cbn. lia.
  - split.
    + intros k l. cbn [ix_find]. destruct (n =? k); intros H; inv H.
      split; [discriminate|]. constructor; [intros []|constructor].
    + intros k t. unfold fget, FreeSeg. cbn [ix_find]. destruct (Z.eqb_spec n k) as [E|E]; cbn [In].
      * split.
        -- intros [<-|[]]. rewrite Hc by lia. cbn. auto.
        -- intros ([<-|[]] & _). auto.
      * split; [tauto|]. intros ([<-|[]] & _ & H). rewrite Hc in H by lia. cbn in H. lia.
Qed.

(* ---- the index part of zone_malloc ------------------------------------------- *)
Lemma remove_first_head t l : remove_first t (t :: l) = l.
Proof. cbn [remove_first]. rewrite Z.eqb_refl. reflexivity. Qed.

Lemma malloc_index_nosplit b ix k cur rest : keys_gt b ix -> ix_find ix k = Some (cur :: rest) ->
  let ix1 := ix_set ix k rest in
  let ix2 := if is_nil rest then ix_remove ix1 k else ix1 in
  keys_gt b ix2 /\ forall x, ix_find ix2 x = sp_del (ix_find ix) k cur x.
Proof.
  intros Hs Hf ix1 ix2. pose proof (keys_gt_set b ix k rest Hs) as Hs1.
  assert (H1 : forall x, ix_find ix1 x = if x =? k then Some rest else ix_find ix x).
  { intros x. unfold ix1. rewrite ix_find_set, Hf. reflexivity. }
  unfold ix2, sp_del. rewrite Hf, remove_first_head. destruct rest as [|y r]; cbn [is_nil olist].
  - split; [apply keys_gt_remove; auto|]. intros x. rewrite (ix_find_remove b) by auto. rewrite H1.
    destruct (x =? k); auto.
  - split; auto.
Qed.

Lemma malloc_index_split b ix k cur rest rem new :
  keys_gt b ix -> b < rem -> rem <> k -> ix_find ix k = Some (cur :: rest) ->
  let ix1 := ix_set ix k rest in
  let ix2 := if is_nil rest then
               match ix_update_key ix1 k rem with
               | Some ix' => ix_push ix' rem new
               | None => ix_push (ix_remove ix1 k) rem new
               end
             else
               match ix_find ix1 rem with
               | Some _ => ix_push ix1 rem new
               | None => ix_push (ix_insert ix1 rem []) rem new
               end in
  keys_gt b ix2 /\ forall x, ix_find ix2 x = sp_add (sp_del (ix_find ix) k cur) rem new x.
Proof.
  intros Hs Hb Hne Hf ix1 ix2. pose proof (keys_gt_set b ix k rest Hs) as Hs1.
  assert (H1 : forall x, ix_find ix1 x = if x =? k then Some rest else ix_find ix x).
  { intros x. unfold ix1. rewrite ix_find_set, Hf. reflexivity. }
  assert (Hd : forall x, sp_del (ix_find ix) k cur x = if x =? k then olist rest else ix_find ix x).
  { intros x. unfold sp_del. rewrite Hf, remove_first_head. reflexivity. }
  assert (Hg : fget (sp_del (ix_find ix) k cur) rem = fget (ix_find ix) rem).
  { unfold fget. rewrite Hd. destruct (Z.eqb_spec rem k); [lia|auto]. }
  unfold ix2. destruct rest as [|y r]; cbn [is_nil].
  - pose proof (ix_update_key_spec b ix1 k rem Hs1 Hb ltac:(lia)) as Hu.
    rewrite H1, Z.eqb_refl in Hu. specialize (Hu eq_refl).
    destruct (ix_update_key ix1 k rem) as [ix'|].
    + destruct Hu as (HM & Hs2 & Hf2). split; [apply keys_gt_set; auto|].
      intros x. rewrite (ix_push_spec _ _ _ []) by (rewrite Hf2, Z.eqb_refl; auto).
      unfold sp_add. rewrite Hg, Hd, Hf2, H1. unfold fget.
      rewrite H1 in HM. destruct (Z.eqb_spec rem k); [lia|]. rewrite HM.
      destruct (Z.eqb_spec x rem), (Z.eqb_spec x k); try lia; auto.
    + split; [apply keys_gt_set, keys_gt_remove; auto|].
      rewrite H1 in Hu. destruct (Z.eqb_spec rem k); [lia|].
      destruct (ix_find ix rem) as [l'|] eqn:El'; [|congruence].
      intros x. rewrite (ix_push_spec _ _ _ l').
      * unfold sp_add. rewrite Hg, Hd. unfold fget. rewrite El'.
        rewrite (ix_find_remove b) by auto. rewrite H1.
        destruct (Z.eqb_spec x rem), (Z.eqb_spec x k); try lia; auto.
      * rewrite (ix_find_remove b) by auto. rewrite H1.
        destruct (Z.eqb_spec rem k); [lia|auto].
  - destruct (ix_find_or_insert_push b ix1 rem new Hs1 Hb) as [Ha Hb']. split; auto.
    intros x. rewrite Hb'. unfold sp_add, fget. rewrite !H1, !Hd. cbn [olist is_nil]. reflexivity.
Qed.

(* ---- what a successful zone_malloc does to the zone --------------------------- *)
Record MallocOk (z : zone) (hs : list Z) (req : Z) (z' : zone) (hs' : list Z) (cur : Z) : Prop := mkMallocOk {
  mo_n : z_n z' = z_n z;
  mo_unit : z_unit z' = z_unit z;
  mo_inv : Inv z' hs';
  (* the chosen segment was free, large enough, and a smallest such *)
  mo_head : In cur hs;
  mo_free : st (z_cells z) cur = EMPTY;
  mo_fits : req <= nbu (z_cells z) cur;
  mo_best : forall t, In t hs -> st (z_cells z) t = EMPTY -> req <= nbu (z_cells z) t ->
            nbu (z_cells z) cur <= nbu (z_cells z) t;
  (* it is now a full segment of exactly req units; the other full segments are untouched *)
  mo_head' : In cur hs';
  mo_full' : st (z_cells z') cur = FULL;
  mo_size' : nbu (z_cells z') cur = req;
  mo_kept : forall t, In t hs -> st (z_cells z) t = FULL ->
            In t hs' /\ st (z_cells z') t = FULL /\ nbu (z_cells z') t = nbu (z_cells z) t;
  mo_only : forall t, In t hs' -> st (z_cells z') t = FULL -> t <> cur ->
            In t hs /\ st (z_cells z) t = FULL;
  mo_defined : forall t, 0 <= t < z_n z ->
            st (z_cells z) t = EMPTY \/ st (z_cells z) t = FULL ->
            st (z_cells z') t = EMPTY \/ st (z_cells z') t = FULL;
  mo_sum : sum_units FULL (z_cells z') hs' = sum_units FULL (z_cells z) hs + req
}.

Lemma sum_units_ext2 s cs cs' l :
  (forall t, In t l -> st cs' t = st cs t /\ nbu cs' t = nbu cs t) ->
  sum_units s cs' l = sum_units s cs l.
Proof.
  induction l as [|x l IH]; intros He; auto. rewrite !sum_units_cons.
  destruct (He x (or_introl eq_refl)) as [E1 E2]. rewrite E1, E2, IH; auto.
  intros t Ht; apply He; right; auto.
Qed.

Lemma zmalloc_spec z hs size : Inv z hs -> 0 <= size ->
  let req := units_of size (z_unit z) in
  match zmalloc z size with
  | (z', None) => z' = z /\ (size = 0 \/ forall t, In t hs -> st (z_cells z) t = EMPTY -> nbu (z_cells z) t < req)
  | (z', Some off) => 0 < size /\ exists cur hs', off = cur * z_unit z /\ MallocOk z hs req z' hs' cur
  end.
Proof.
  intros I Hsize req.
  pose proof (inv_n _ _ I) as Hn. pose proof (inv_unit _ _ I) as Hunit.
  pose proof (inv_len _ _ I) as Hlen. pose proof (inv_sorted _ _ I) as Hsorted.
  destruct (inv_rep _ _ I) as [Rne Rin].
  pose proof (units_of_nonneg size (z_unit z) Hsize Hunit) as Hreq0. fold req in Hreq0.
  unfold zmalloc. fold req.
  destruct (Z.eqb_spec req 0) as [E0|E0].
  { split; auto. left. apply (units_of_zero size (z_unit z)); auto. }
  assert (Hpos : 0 < size).
  { destruct (Z.eq_dec size 0) as [->|]; [|lia]. exfalso. apply E0. unfold req, units_of.
    apply Z.div_small. lia. }
  destruct (ix_find_ge (z_idx z) req) as [[k l]|] eqn:Ege.
  2:{ (* no chunk list with a large enough key *)
    split; auto. right. intros t Ht Hst.
    destruct (Z_lt_le_dec (nbu (z_cells z) t) req) as [|Hge]; auto. exfalso.
    pose proof (ix_find_ge_none _ _ Ege _ Hge) as Hnone.
    assert (Hin : In t (fget (ix_find (z_idx z)) (nbu (z_cells z) t))) by (apply Rin; split; auto).
    unfold fget in Hin. rewrite Hnone in Hin. destruct Hin. }
  destruct (ix_find_ge_some 0 _ _ _ _ Hsorted Ege) as (Hfk & Hle & Hmin).
  destruct (Rne _ _ Hfk) as [Hlne Hlnd].
  destruct l as [|cur rest]; [congruence|].
  assert (HF : FreeSeg (z_cells z) hs k cur).
  { apply Rin. unfold fget. rewrite Hfk. left; auto. }
  destruct HF as (Hcur & Hcst & Hcnbu).
  destruct (inv_head_range _ _ _ I Hcur) as (Hc0 & Hcn & Hc1).
  set (cs0 := z_cells z) in *.
  assert (Hbest : forall t, In t hs -> st cs0 t = EMPTY -> req <= nbu cs0 t -> nbu cs0 cur <= nbu cs0 t).
  { intros t Ht Hst Hge. rewrite Hcnbu. destruct (Z_lt_le_dec (nbu cs0 t) k) as [Hlt|]; [exfalso|lia].
    pose proof (Hmin _ Hge Hlt) as Hnone.
    assert (Hin : In t (fget (ix_find (z_idx z)) (nbu cs0 t))) by (apply Rin; split; auto).
    unfold fget in Hin. rewrite Hnone in Hin. destruct Hin. }
  (* decompose the chain around cur *)
  destruct (inv_chain _ _ I) as (q & g & Hch). pose proof Hch as Hch0. fold cs0 in Hch0.
  destruct (in_split _ _ Hcur) as (l1 & l2 & Ehs).
  rewrite Ehs in Hch. apply chain_app_inv in Hch. destruct Hch as (m & p1 & f1 & Hch1 & Hch2).
  apply chain_cons_inv in Hch2. destruct Hch2 as (-> & J1 & J2 & J3 & J4 & J5).
  fold cs0 in Hch1, J1, J2, J3, J4, J5.
  pose proof (chain_bounds _ _ _ _ _ _ _ _ Hch1) as [_ Hb1].
  pose proof (chain_bounds _ _ _ _ _ _ _ _ J5) as [_ Hb2].
  assert (Ef : (st cs0 m =? EMPTY) = true) by (rewrite Hcst; reflexivity). rewrite Ef in J5.
  rewrite Hcnbu in J5.
  assert (Hst1 : nbu (cset cs0 m (with_st (cget cs0 m) FULL)) m = k).
  { cg. rewrite Z.eqb_refl. cbn. auto. }
  rewrite Hst1.
  destruct (Z.ltb_spec req k) as [Hsplit|Hnosplit].
  - (* split *)
    cbv beta iota. split; auto.
    set (cs1 := cset cs0 m (with_st (cget cs0 m) FULL)).
    set (cs2 := if in_range (z_n z) (m + k)
                then cset cs1 (m + k) (with_nbp (cget cs1 (m + k)) (nbp cs1 (m + k) - req)) else cs1).
    assert (Hlen1 : length cs1 = length cs0) by (unfold cs1; rewrite cset_length; auto).
    assert (Hlen2 : length cs2 = length cs0).
    { unfold cs2. destruct (in_range (z_n z) (m + k)); rewrite ?cset_length; auto. }
    assert (Hrem : nbu cs2 m - req = k - req).
    { unfold cs2. destruct (in_range (z_n z) (m + k)) eqn:Er.
      - apply in_range_iff in Er. cg. eqb_lia. unfold cs1. cg. eqb_lia. cbn. lia.
      - unfold cs1. cg. eqb_lia. cbn. lia. }
    rewrite Hrem.
    set (cs3 := cset cs2 (m + req) (mkCell EMPTY (k - req) req)).
    set (cs4 := cset cs3 m (with_nbu (cget cs3 m) req)).
    assert (Hlen4 : Z.of_nat (length cs4) = z_n z).
    { unfold cs4, cs3. rewrite !cset_length. lia. }
    (* the cells after the operation *)
    assert (Cm : cget cs4 m = mkCell FULL req (nbp cs0 m)).
    { unfold cs4. cg. eqb_lia. unfold cs3. cg. eqb_lia. unfold cs2.
      destruct (in_range (z_n z) (m + k)) eqn:Er.
      - apply in_range_iff in Er. cg. eqb_lia. unfold cs1. cg. eqb_lia. reflexivity.
      - unfold cs1. cg. eqb_lia. reflexivity. }
    assert (Cnew : cget cs4 (m + req) = mkCell EMPTY (k - req) req).
    { unfold cs4. cg. eqb_lia. unfold cs3. cg. eqb_lia. reflexivity. }
    assert (Cother : forall u, 0 <= u -> u <> m -> u <> m + req ->
              st cs4 u = st cs0 u /\ nbu cs4 u = nbu cs0 u /\
              (u <> m + k -> cget cs4 u = cget cs0 u) /\
              (u = m + k -> u < z_n z -> nbp cs4 u = nbp cs0 u - req)).
    { intros u Hu0 Hu1 Hu2. unfold cs4. cg. eqb_lia. unfold cs3. cg. eqb_lia. unfold cs2.
      destruct (in_range (z_n z) (m + k)) eqn:Er.
      - apply in_range_iff in Er. cg. destruct (Z.eqb_spec u (m + k)) as [->|Hne].
        + unfold cs1. cg. eqb_lia. cbn. repeat split; auto; lia.
        + unfold cs1. cg. eqb_lia. repeat split; auto; lia.
      - apply in_range_false in Er. unfold cs1. cg. eqb_lia. repeat split; auto; lia. }
    set (hs' := l1 ++ m :: (m + req) :: l2).
    exists m, hs'. split; auto.
    assert (Hnew_notin : ~ In (m + req) hs).
    { intro Hi. pose proof (chain_sep _ _ _ _ _ _ _ _ m (m + req) Hch0 Hcur Hi ltac:(lia)). lia. }
    assert (Hin' : forall t, In t hs' <-> In t hs \/ t = m + req).
    { intros t. unfold hs'. rewrite Ehs, !in_app_iff. cbn [In]. intuition. }
    (* new chain *)
    assert (Hchain' : exists q' g', Chain cs4 0 1 false hs' (z_n z) q' g').
    { destruct (chain_rehead cs0 cs4 (m + k) k true (k - req) true l2 (z_n z) q g J5) as (q' & g' & Ht).
      - intros t Ht Hne. specialize (Hb2 t Ht). apply Cother; lia.
      - intros Hl2. destruct l2 as [|x l2']; [congruence|].
        apply chain_cons_inv in J5. destruct J5 as (-> & K1 & K2 & K3 & K4 & K5).
        specialize (Hb2 (m + k) (or_introl eq_refl)).
        destruct (Cother (m + k) ltac:(lia) ltac:(lia) ltac:(lia)) as (A1 & A2 & A3 & A4).
        repeat split; auto. rewrite A4; lia.
      - exists q', g'. unfold hs'. eapply chain_app.
        + apply chain_ext with cs0; [exact Hch1|]. intros t Ht1. specialize (Hb1 t Ht1). apply Cother; lia.
        + constructor; rewrite ?Cm; cbn [c_st c_nbu c_nbp]; auto; try lia.
          constructor; rewrite ?Cnew; cbn [c_st c_nbu c_nbp]; auto; try lia; try (intros; discriminate).
          replace (m + req + (k - req)) with (m + k) by lia. exact Ht. }
    constructor; cbn [z_n z_unit z_cells z_idx]; fold cs0; auto; try lia.
    + (* invariant *)
      constructor; cbn [z_n z_unit z_cells z_idx]; auto.
      * intros t Ht Hfull. apply Hin'.
        destruct (Z.eq_dec t m) as [->|Hne1]; [left; auto|].
        destruct (Z.eq_dec t (m + req)) as [->|Hne2]; [right; auto|].
        left. apply (inv_full_head _ _ I); auto. fold cs0.
        destruct (Cother t ltac:(lia) ltac:(lia) ltac:(lia)) as (A1 & _). congruence.
      * apply (proj1 (malloc_index_split 0 (z_idx z) k m rest (k - req) (m + req) Hsorted ltac:(lia) ltac:(lia) Hfk)).
      * destruct (malloc_index_split 0 (z_idx z) k m rest (k - req) (m + req) Hsorted ltac:(lia) ltac:(lia) Hfk) as [_ Hview].
        eapply rep_ext; [|intros x; apply Hview|].
        -- apply rep_add; [apply rep_del; [exact (inv_rep _ _ I)|]|].
           ++ split; auto.
           ++ intros [[Hi _] _]. auto.
        -- intros k' x. unfold FreeSeg. fold cs0. split.
           ++ intros [[(Hx & Hxs & Hxn) Hnot]|[-> ->]].
              ** assert (x <> m) by (intro; subst x; apply Hnot; split; auto; congruence).
                 assert (x <> m + req) by (intro; subst x; auto).
                 destruct (inv_head_range _ _ _ I Hx) as (Hx0 & _).
                 destruct (Cother x ltac:(lia) ltac:(lia) ltac:(lia)) as (A1 & A2 & _).
                 split; [apply Hin'; auto|]. split; congruence.
              ** split; [apply Hin'; auto|]. rewrite Cnew. cbn. auto.
           ++ intros (Hx & Hxs & Hxn). apply Hin' in Hx.
              destruct (Z.eq_dec x (m + req)) as [->|Hne2].
              { right. rewrite Cnew in Hxn. cbn in Hxn. auto. }
              destruct Hx as [Hx|]; [|lia].
              destruct (Z.eq_dec x m) as [->|Hne1].
              { rewrite Cm in Hxs. cbn in Hxs. unfold FULL, EMPTY in Hxs. lia. }
              destruct (inv_head_range _ _ _ I Hx) as (Hx0 & _).
              destruct (Cother x ltac:(lia) ltac:(lia) ltac:(lia)) as (A1 & A2 & _).
              left. split; [split; [auto|split; congruence]|]. intros [_ ?]; auto.
    + apply Hin'; auto.
    + rewrite Cm; auto.
    + rewrite Cm; auto.
    + intros t Ht Hfull.
      assert (t <> m) by (intro; subst t; unfold FULL, EMPTY in *; lia).
      assert (t <> m + req) by (intro; subst t; auto).
      destruct (inv_head_range _ _ _ I Ht) as (Ht0 & _).
      destruct (Cother t ltac:(lia) ltac:(lia) ltac:(lia)) as (A1 & A2 & _).
      split; [apply Hin'; auto|]. split; congruence.
    + intros t Ht Hfull Hne. apply Hin' in Ht.
      destruct (Z.eq_dec t (m + req)) as [->|Hne2].
      { rewrite Cnew in Hfull. cbn in Hfull. unfold FULL, EMPTY in Hfull. lia. }
      destruct Ht as [Ht|]; [|lia]. split; auto.
      destruct (inv_head_range _ _ _ I Ht) as (Ht0 & _).
      destruct (Cother t ltac:(lia) ltac:(lia) ltac:(lia)) as (A1 & _). congruence.
    + intros t Ht Hdef.
      destruct (Z.eq_dec t m) as [->|Hne1]; [rewrite Cm; cbn; auto|].
      destruct (Z.eq_dec t (m + req)) as [->|Hne2]; [rewrite Cnew; cbn; auto|].
      destruct (Cother t ltac:(lia) ltac:(lia) ltac:(lia)) as (A1 & _). rewrite A1. auto.
    + unfold hs'. rewrite Ehs. rewrite !sum_units_app, !sum_units_cons, Cm, Cnew. cbn [c_st c_nbu].
      fold cs0. rewrite Hcst. unfold EMPTY, FULL. cbn [Z.eqb Pos.eqb].
      rewrite (sum_units_ext2 2 cs0 cs4 l1), (sum_units_ext2 2 cs0 cs4 l2); [lia| |].
      * intros t Ht. specialize (Hb2 t Ht). destruct (Cother t ltac:(lia) ltac:(lia) ltac:(lia)) as (A1 & A2 & _). auto.
      * intros t Ht. specialize (Hb1 t Ht). destruct (Cother t ltac:(lia) ltac:(lia) ltac:(lia)) as (A1 & A2 & _). auto.
  - (* exact fit *)
    assert (Hk : k = req) by lia. rewrite Hk in *. clear Hk.
    cbv beta iota. split; auto.
    set (cs1 := cset cs0 m (with_st (cget cs0 m) FULL)).
    assert (Hlen1 : Z.of_nat (length cs1) = z_n z) by (unfold cs1; rewrite cset_length; auto).
    assert (Cm : cget cs1 m = mkCell FULL req (nbp cs0 m)).
    { unfold cs1. cg. eqb_lia. unfold with_st. rewrite Hcnbu. reflexivity. }
    assert (Cother : forall u, 0 <= u -> u <> m -> cget cs1 u = cget cs0 u).
    { intros u Hu0 Hu1. unfold cs1. cg. eqb_lia. reflexivity. }
    exists m, hs. split; auto.
    assert (Hchain' : exists q' g', Chain cs1 0 1 false hs (z_n z) q' g').
    { destruct (chain_rehead cs0 cs1 (m + req) req true req false l2 (z_n z) q g J5) as (q' & g' & Ht).
      - intros t Ht Hne. specialize (Hb2 t Ht). apply Cother; lia.
      - intros Hl2. destruct l2 as [|x l2']; [congruence|].
        apply chain_cons_inv in J5. destruct J5 as (-> & K1 & K2 & K3 & K4 & K5).
        rewrite Cother by lia. repeat split; auto; intros; discriminate.
      - exists q', g'. rewrite Ehs. eapply chain_app.
        + apply chain_ext with cs0; [exact Hch1|]. intros t Ht1. specialize (Hb1 t Ht1). apply Cother; lia.
        + constructor; rewrite ?Cm; cbn [c_st c_nbu c_nbp]; auto; try lia. }
    constructor; cbn [z_n z_unit z_cells z_idx]; fold cs0; auto; try lia.
    + constructor; cbn [z_n z_unit z_cells z_idx]; auto.
      * intros t Ht Hfull. destruct (Z.eq_dec t m) as [->|Hne1]; auto.
        apply (inv_full_head _ _ I); auto. fold cs0. rewrite <- Cother by lia. auto.
      * apply (proj1 (malloc_index_nosplit 0 (z_idx z) req m rest Hsorted Hfk)).
      * destruct (malloc_index_nosplit 0 (z_idx z) req m rest Hsorted Hfk) as [_ Hview].
        eapply rep_ext; [|intros x; apply Hview|].
        -- apply rep_del; [exact (inv_rep _ _ I)|]. split; auto.
        -- intros k' x. unfold FreeSeg. fold cs0. split.
           ++ intros [(Hx & Hxs & Hxn) Hnot].
              assert (x <> m) by (intro; subst x; apply Hnot; split; auto; congruence).
              destruct (inv_head_range _ _ _ I Hx) as (Hx0 & _).
              rewrite Cother by lia. auto.
           ++ intros (Hx & Hxs & Hxn).
              destruct (Z.eq_dec x m) as [->|Hne1].
              { rewrite Cm in Hxs. cbn in Hxs. unfold FULL, EMPTY in Hxs. lia. }
              destruct (inv_head_range _ _ _ I Hx) as (Hx0 & _).
              rewrite Cother in Hxs, Hxn by lia.
              split; [split; auto|]. intros [_ ?]; auto.
    + rewrite Cm; auto.
    + intros t Ht Hfull.
      assert (t <> m) by (intro; subst t; unfold FULL, EMPTY in *; lia).
      destruct (inv_head_range _ _ _ I Ht) as (Ht0 & _).
      rewrite Cother by lia. auto.
    + intros t Ht Hfull Hne. split; auto.
      destruct (inv_head_range _ _ _ I Ht) as (Ht0 & _).
      rewrite Cother in Hfull by lia. auto.
    + intros t Ht Hdef.
      destruct (Z.eq_dec t m) as [->|Hne1]; [rewrite Cm; cbn; auto|].
      rewrite Cother by lia. auto.
    + rewrite Ehs. rewrite !sum_units_app, !sum_units_cons, Cm. cbn [c_st c_nbu].
      fold cs0. rewrite Hcst. unfold EMPTY, FULL. cbn [Z.eqb Pos.eqb].
      rewrite (sum_units_ext2 2 cs0 cs1 l1), (sum_units_ext2 2 cs0 cs1 l2); [lia| |].
      * intros t Ht. specialize (Hb2 t Ht). rewrite Cother by lia. auto.
      * intros t Ht. specialize (Hb1 t Ht). rewrite Cother by lia. auto.
Qed.
