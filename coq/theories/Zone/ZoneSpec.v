(* C28, part 5: what a client of the allocator observes, for every sequence of
   operations: statements in terms of the allocations it holds. *)
From PV Require Import Base.Tac Zone.ZoneDefs Zone.ZoneBase Zone.ZoneChain Zone.ZoneMalloc Zone.ZoneFree.
Local Open Scope Z_scope.

(* ---- the client-level invariant ------------------------------------------------ *)
Record CInv (n unit : Z) (c : client) (hs : list Z) : Prop := mkCInv {
  ci_n : z_n (cl_zone c) = n;
  ci_unit : z_unit (cl_zone c) = unit;
  ci_inv : Inv (cl_zone c) hs;
  ci_live : forall off size, In (off, size) (cl_live c) -> 0 < size /\
            exists t, off = t * unit /\ In t hs /\ st (z_cells (cl_zone c)) t = FULL /\
                      nbu (z_cells (cl_zone c)) t = units_of size unit;
  ci_full : forall t, In t hs -> st (z_cells (cl_zone c)) t = FULL ->
            In (t * unit) (map fst (cl_live c));
  ci_nodup : NoDup (map fst (cl_live c));
  ci_dead : forall off, In off (cl_dead c) ->
            exists t, off = t * unit /\ 0 <= t < n /\
              (st (z_cells (cl_zone c)) t = EMPTY \/ st (z_cells (cl_zone c)) t = FULL);
  ci_sum : sum_units FULL (z_cells (cl_zone c)) hs = units_sum unit (cl_live c)
}.

Lemma units_sum_app unit l1 l2 : units_sum unit (l1 ++ l2) = units_sum unit l1 + units_sum unit l2.
Proof.
  induction l1 as [|a l1 IH]; [reflexivity|].
  change (units_sum unit ((a :: l1) ++ l2)) with (units_of (snd a) unit + units_sum unit (l1 ++ l2)).
  change (units_sum unit (a :: l1)) with (units_of (snd a) unit + units_sum unit l1). lia.
Qed.

Lemma in_map_fst (l : list (Z * Z)) off : In off (map fst l) <-> exists size, In (off, size) l.
Proof.
  rewrite in_map_iff. split.
  - intros ([o s] & E & H). cbn in E. subst. eauto.
  - intros (s & H). exists (off, s). auto.
Qed.

Lemma is_live_iff c off : is_live c off = true <-> In off (map fst (cl_live c)).
Proof.
  unfold is_live. rewrite existsb_exists, in_map_iff. split.
  - intros (a & H & E). exists a. split; auto. lia.
  - intros (a & E & H). exists a. split; auto. lia.
Qed.

Lemma nodup_map_filter {A B} (f : A -> B) (p : A -> bool) l : NoDup (map f l) -> NoDup (map f (filter p l)).
Proof.
  induction l as [|a l IH]; cbn [map filter]; intros H; [constructor|]. inv H.
  destruct (p a); cbn [map]; auto. constructor; auto.
  intro Hi. apply H2. apply in_map_iff in Hi. destruct Hi as (x & E & Hx).
  apply filter_In in Hx. apply in_map_iff. exists x. tauto.
Qed.

Lemma units_sum_filter unit live off size :
  NoDup (map fst live) -> In (off, size) live ->
  units_sum unit (filter (fun a => negb (fst a =? off)) live) = units_sum unit live - units_of size unit.
Proof.
  induction live as [|[o s] l IH]; intros Hnd Hin; [destruct Hin|].
  cbn [map fst] in Hnd. inv Hnd. cbn [filter fst].
  destruct Hin as [E|Hin].
  - inv E. rewrite Z.eqb_refl. cbn [negb].
    assert (Hf : filter (fun a => negb (fst a =? off)) l = l).
    { clear IH. induction l as [|[o' s'] l IH']; auto. cbn [filter fst].
      destruct (Z.eqb_spec o' off) as [->|Hne].
      - exfalso. apply H1. left; auto.
      - cbn [negb]. f_equal. apply IH'.
        + intro Hi. apply H1. right; auto.
        + cbn [map] in H2. inv H2. auto. }
    rewrite Hf. cbn [units_sum fold_right snd]. fold (units_sum unit l). lia.
  - destruct (Z.eqb_spec o off) as [->|Hne].
    + exfalso. apply H1. apply in_map_fst. eauto.
    + cbn [negb units_sum fold_right snd]. fold (units_sum unit l).
      fold (units_sum unit (filter (fun a => negb (fst a =? off)) l)). rewrite IH; auto. lia.
Qed.

Lemma NoDup_app_single {A} (l : list A) x : NoDup l -> ~ In x l -> NoDup (l ++ [x]).
Proof.
  induction l as [|y l IH]; cbn [app]; intros H Hn; [constructor; [intros []|constructor]|].
  inv H. constructor.
  - rewrite in_app_iff. cbn [In]. intros [?|[?|[]]]; auto. subst. apply Hn. left; auto.
  - apply IH; auto. intro; apply Hn; right; auto.
Qed.

Lemma cinv_init n unit : 1 <= n -> 1 <= unit -> CInv n unit (cl_init n unit) [0].
Proof.
  intros Hn Hu. pose proof (init_inv n unit Hn Hu) as I.
  assert (Hst : st (z_cells (zone_init n unit)) 0 = EMPTY).
  { unfold zone_init. cbn [z_cells]. rewrite cget_cset by (rewrite ?repeat_length; lia). reflexivity. }
  constructor; cbn [cl_init cl_zone cl_live cl_dead]; auto.
  - intros off size [].
  - intros t [<-|[]] Hf. rewrite Hst in Hf. unfold FULL, EMPTY in Hf. lia.
  - constructor.
  - intros off [].
  - rewrite sum_units_cons, Hst. reflexivity.
Qed.

Lemma mul_unit_inj unit t t' : 1 <= unit -> t * unit = t' * unit -> t = t'.
Proof. intros. nia. Qed.

Lemma cinv_step n unit c hs o : 1 <= n -> 1 <= unit ->
  CInv n unit c hs -> op_ok c o -> exists hs', CInv n unit (fst (step c o)) hs'.
Proof.
  intros Hn Hu CI Hok. destruct CI as [En Eu I Hlive Hfull Hnd Hdead Hsum].
  destruct o as [size|off]; cbn [op_ok] in Hok; cbn [step].
  - (* malloc *)
    pose proof (zmalloc_spec (cl_zone c) hs size I Hok) as Hm. cbv zeta in Hm.
    destruct (zmalloc (cl_zone c) size) as [z' [off|]].
    + destruct Hm as (Hpos & cur & hs' & Eoff & M). destruct M. cbn [fst]. exists hs'.
      rewrite Eu in *.
      constructor; cbn [cl_zone cl_live cl_dead]; auto; try congruence.
      * intros off' size' Hin. apply in_app_iff in Hin. destruct Hin as [Hin|[E|[]]].
        -- destruct (Hlive _ _ Hin) as (Hp & t & Et & Ht & Hst & Hnb). split; auto.
           destruct (mo_kept t Ht Hst) as (A & B & C). exists t. repeat split; auto. congruence.
        -- inv E. split; auto. exists cur. repeat split; auto.
      * intros t Ht Hst. rewrite map_app, in_app_iff. cbn [map fst In].
        destruct (Z.eq_dec t cur) as [->|Hne]; [right; left; congruence|].
        left. destruct (mo_only t Ht Hst Hne) as (A & B). apply Hfull; auto.
      * rewrite map_app. cbn [map fst]. apply NoDup_app_single; auto.
        intro Hi. apply in_map_fst in Hi. destruct Hi as (s' & Hi).
        destruct (Hlive _ _ Hi) as (_ & t & Et & Ht & Hst & _).
        assert (t = cur) by (apply (mul_unit_inj unit); auto; congruence). subst t.
        unfold FULL, EMPTY in *. lia.
      * intros off' Hin. destruct (Hdead _ Hin) as (t & Et & Hr & Hd). exists t. repeat split; auto; try lia.
        apply mo_defined; auto. lia.
      * rewrite mo_sum, Hsum, units_sum_app. cbn [units_sum fold_right snd]. lia.
    + destruct Hm as (-> & _). cbn [fst]. exists hs. constructor; auto.
  - (* free *)
    destruct (is_live c off) eqn:Elive.
    + (* a live allocation *)
      apply is_live_iff in Elive. pose proof Elive as Hl. apply in_map_fst in Hl. destruct Hl as (size & Hin).
      destruct (Hlive _ _ Hin) as (Hp & t & Et & Ht & Hst & Hnb).
      assert (Hdiv : off / z_unit (cl_zone c) = t) by (rewrite Eu, Et; apply Z.div_mul; lia).
      destruct (zfree_live (cl_zone c) hs off t I Ht Hst Hdiv) as (hs' & F). destruct F.
      destruct (inv_head_range _ _ _ I Ht) as (Ht0 & Htn & Ht1).
      cbn [fst]. exists hs'. constructor; cbn [cl_zone cl_live cl_dead]; auto; try congruence.
      * intros off' size' Hin'. apply filter_In in Hin'. destruct Hin' as [Hin' Hne]. cbn [fst] in Hne.
        destruct (Hlive _ _ Hin') as (Hp' & t' & Et' & Ht' & Hst' & Hnb'). split; auto.
        assert (t' <> t) by (intro; subst; lia).
        destruct (fo_kept t' Ht' Hst' H) as (A & B & C). exists t'. repeat split; auto. congruence.
      * intros t' Ht' Hst'. destruct (fo_only t' Ht' Hst') as (A & B & C).
        pose proof (Hfull t' A B) as Hi. apply in_map_iff in Hi. destruct Hi as (a & Ea & Ha).
        apply in_map_iff. exists a. split; auto. apply filter_In. split; auto.
        rewrite Ea. assert (t' * unit <> off) by (rewrite Et; intro E; apply C; apply (mul_unit_inj unit); auto).
        lia.
      * apply nodup_map_filter; auto.
      * intros off' [<-|Hin'].
        -- exists t. repeat split; auto; try lia. apply fo_defined; [lia|auto].
        -- destruct (Hdead _ Hin') as (t' & Et' & Hr & Hd). exists t'. repeat split; auto; try lia.
           apply fo_defined; auto. lia.
      * rewrite fo_sum, Hsum, (units_sum_filter unit _ off size); auto. lia.
    + (* a stale offset or an address beyond the zone: ignored *)
      assert (Hnl : ~ In off (map fst (cl_live c))).
      { intro Hi. apply is_live_iff in Hi. congruence. }
      assert (Hig : zfree (cl_zone c) off = cl_zone c).
      { apply zfree_ignored. destruct Hok as [Hi|[Hi|Hi]]; [contradiction| |].
        - destruct (Hdead _ Hi) as (t & Et & Hr & Hd).
          assert (Hdiv : off / z_unit (cl_zone c) = t) by (rewrite Eu, Et; apply Z.div_mul; lia).
          rewrite Hdiv. right. destruct Hd as [Hd|Hd]; auto. exfalso. apply Hnl.
          rewrite Et. apply Hfull; auto. apply (inv_full_head _ _ I); auto. lia.
        - left. apply in_range_false. rewrite En, Eu in *.
          pose proof (Z.div_le_mono (n * unit) off unit ltac:(lia) Hi) as Hd.
          rewrite Z.div_mul in Hd by lia. lia. }
      cbn [fst]. rewrite Hig. exists hs. constructor; auto.
Qed.

Lemma cinv_run n unit ops : 1 <= n -> 1 <= unit -> forall c hs,
  CInv n unit c hs -> ops_ok c ops -> exists hs', CInv n unit (run c ops) hs'.
Proof.
  intros Hn Hu. induction ops as [|o r IH]; intros c hs CI Hok; cbn [run]; [eauto|].
  destruct Hok as [Ho Hr]. destruct (cinv_step n unit c hs o Hn Hu CI Ho) as (hs1 & CI1).
  apply (IH _ hs1); auto.
Qed.

Lemma reachable_cinv n unit c : 1 <= n -> 1 <= unit -> reachable n unit c -> exists hs, CInv n unit c hs.
Proof.
  intros Hn Hu (ops & Hok & ->). apply (cinv_run n unit ops Hn Hu _ [0]); auto. apply cinv_init; auto.
Qed.

(* ---- reading the client's view off the invariant ------------------------------- *)
Section View.
Variables (n unit : Z) (c : client) (hs : list Z).
Hypothesis Hn : 1 <= n.
Hypothesis Hu : 1 <= unit.
Hypothesis CI : CInv n unit c hs.
Let cs := z_cells (cl_zone c).

Lemma view_chain : exists q g, Chain cs 0 1 false hs n q g.
Proof. destruct CI. rewrite <- ci_n0. apply (inv_chain _ _ ci_inv0). Qed.

Lemma busy_iff u : busy c u <-> exists t, In t hs /\ st cs t = FULL /\ t <= u < t + nbu cs t.
Proof.
  destruct CI as [En Eu I Hlive Hfull Hnd Hdead Hsum]. unfold busy. rewrite Eu. split.
  - intros ([off size] & Hin & Hr). cbn [fst snd] in Hr.
    destruct (Hlive _ _ Hin) as (_ & t & -> & Ht & Hst & Hnb).
    rewrite Z.div_mul in Hr by lia. exists t. fold cs in Hst, Hnb. rewrite Hnb. auto.
  - intros (t & Ht & Hst & Hr). pose proof (Hfull t Ht Hst) as Hi. apply in_map_fst in Hi.
    destruct Hi as (size & Hin). exists (t * unit, size). split; auto. cbn [fst snd].
    destruct (Hlive _ _ Hin) as (_ & t' & Et & Ht' & Hst' & Hnb).
    assert (t' = t) by (symmetry; apply (mul_unit_inj unit); auto). subst t'.
    rewrite Z.div_mul by lia. fold cs in Hnb. rewrite <- Hnb. auto.
Qed.

Lemma cover u : 0 <= u < n -> exists t, In t hs /\ t <= u < t + nbu cs t.
Proof. intros Hr. destruct view_chain as (q & g & H). apply (chain_cover _ _ _ _ _ _ _ _ u H Hr). Qed.

Lemma cover_unique u t t' : In t hs -> In t' hs ->
  t <= u < t + nbu cs t -> t' <= u < t' + nbu cs t' -> t = t'.
Proof.
  intros Ht Ht' Hr Hr'. destruct view_chain as (q & g & H).
  destruct (Z.lt_total t t') as [Hlt|[E|Hlt]]; auto.
  - pose proof (chain_sep _ _ _ _ _ _ _ _ t t' H Ht Ht' Hlt). lia.
  - pose proof (chain_sep _ _ _ _ _ _ _ _ t' t H Ht' Ht Hlt). lia.
Qed.

Lemma head_status t : In t hs -> st cs t = EMPTY \/ st cs t = FULL.
Proof. intros Ht. destruct CI. apply (inv_head_status _ _ _ ci_inv0 Ht). Qed.

Lemma head_range t : In t hs -> 0 <= t /\ t + nbu cs t <= n /\ 1 <= nbu cs t.
Proof. intros Ht. destruct CI. rewrite <- ci_n0. apply (inv_head_range _ _ _ ci_inv0 Ht). Qed.

Lemma free_head_not_busy t u : In t hs -> st cs t = EMPTY -> t <= u < t + nbu cs t -> ~ busy c u.
Proof.
  intros Ht Hst Hr Hb. apply busy_iff in Hb. destruct Hb as (t' & Ht' & Hst' & Hr').
  assert (t = t') by (apply (cover_unique u); auto). subst t'. unfold FULL, EMPTY in *. lia.
Qed.

(* the maximal free runs are exactly the free segments *)
Lemma run_iff a k : max_free_run c a k <-> In a hs /\ st cs a = EMPTY /\ nbu cs a = k.
Proof.
  destruct view_chain as (q & g & H).
  assert (En : z_n (cl_zone c) = n) by (destruct CI; auto).
  unfold max_free_run, free_window. rewrite En. split.
  - intros (Hk & (Ha0 & Han & Hfree) & Hleft & Hright).
    destruct (cover a ltac:(lia)) as (h & Hh & Hr).
    destruct (head_range h Hh) as (Hh0 & Hhn & Hh1).
    assert (Hhst : st cs h = EMPTY).
    { destruct (head_status h Hh) as [|Hf]; auto. exfalso. apply (Hfree a ltac:(lia)).
      apply busy_iff. exists h. auto. }
    assert (h = a).
    { destruct (Z.eq_dec h a); auto. exfalso. destruct Hleft as [?|Hb]; [lia|].
      apply (free_head_not_busy h (a - 1) Hh Hhst); auto. lia. }
    subst h. split; auto. split; auto.
    destruct (Z.lt_total k (nbu cs a)) as [Hlt|[E|Hlt]]; auto; exfalso.
    + destruct Hright as [?|Hb]; [lia|]. apply (free_head_not_busy a (a + k) Hh Hhst); auto. lia.
    + destruct (chain_next _ _ _ _ _ _ _ _ a H Hh) as [E|(Hnx & _ & Hfl)]; [lia|].
      apply (Hfree (a + nbu cs a) ltac:(lia)). apply busy_iff. exists (a + nbu cs a).
      destruct (head_range _ Hnx) as (_ & _ & ?). repeat split; auto; lia.
  - intros (Ha & Hst & <-). destruct (head_range a Ha) as (Ha0 & Han & Ha1).
    split; auto. split; [split; auto; split; auto|split].
    + intros u Hr. apply (free_head_not_busy a u); auto.
    + destruct (chain_prev _ _ _ _ _ _ _ a H Ha) as [[E _]|(u & Hpu & Epu & _ & Hfl)]; auto.
      right. apply busy_iff. exists u. destruct (head_range u Hpu) as (_ & _ & ?).
      destruct (head_status u Hpu) as [He|Hf].
      * specialize (Hfl He). unfold FULL, EMPTY in *. lia.
      * repeat split; auto; lia.
    + destruct (chain_next _ _ _ _ _ _ _ _ a H Ha) as [E|(Hnx & _ & Hfl)]; auto.
      right. apply busy_iff. exists (a + nbu cs a).
      destruct (head_range _ Hnx) as (_ & _ & ?). repeat split; auto; lia.
Qed.

(* a window of free units lies inside one free segment *)
Lemma window_in_free_head a k : 1 <= k -> free_window c a k ->
  exists h, In h hs /\ st cs h = EMPTY /\ k <= nbu cs h.
Proof.
  intros Hk (Ha0 & Han & Hfree).
  assert (En : z_n (cl_zone c) = n) by (destruct CI; auto). rewrite En in Han.
  destruct view_chain as (q & g & H).
  destruct (cover a ltac:(lia)) as (h & Hh & Hr).
  assert (Hhst : st cs h = EMPTY).
  { destruct (head_status h Hh) as [|Hf]; auto. exfalso. apply (Hfree a ltac:(lia)).
    apply busy_iff. exists h. auto. }
  exists h. split; auto. split; auto.
  destruct (Z_le_gt_dec k (nbu cs h)); auto. exfalso.
  destruct (chain_next _ _ _ _ _ _ _ _ h H Hh) as [E|(Hnx & _ & Hfl)]; [lia|].
  apply (Hfree (h + nbu cs h) ltac:(lia)). apply busy_iff. exists (h + nbu cs h).
  destruct (head_range _ Hnx) as (_ & _ & ?). repeat split; auto; lia.
Qed.

Lemma view_segments : z_segments (cl_zone c) = map (fun t => (t, cget cs t)) hs.
Proof. destruct CI. unfold z_segments. rewrite (inv_heads _ _ ci_inv0). reflexivity. Qed.

Lemma chain_segs_ok : forall l a p f q g, Chain cs a p f l n q g ->
  segs_ok n a p f (map (fun t => (t, cget cs t)) l) /\
  no_adjacent_free f (map (fun t => (t, cget cs t)) l).
Proof.
  induction l as [|x l IH]; intros a p f q g H; cbn [map segs_ok no_adjacent_free].
  - apply chain_nil_inv in H. destruct H as (E & _). auto.
  - apply chain_cons_inv in H. destruct H as (-> & J1 & J2 & J3 & J4 & J5).
    destruct (IH _ _ _ _ _ J5) as [A B]. split.
    + repeat split; auto.
    + split; auto. intros [Hf He]. specialize (J4 Hf). unfold FULL, EMPTY in *. lia.
Qed.
End View.
