(* C28, part 4: zone_free of a live allocation preserves the invariant and
   coalesces with both neighbours; any other zone_free the code accepts is ignored. *)
From PV Require Import Base.Tac Zone.ZoneDefs Zone.ZoneBase Zone.ZoneChain Zone.ZoneMalloc.
Local Open Scope Z_scope.

Lemma cell_eq (c1 c2 : cell) :
  c_st c1 = c_st c2 -> c_nbu c1 = c_nbu c2 -> c_nbp c1 = c_nbp c2 -> c1 = c2.
Proof. destruct c1, c2; cbn; intros; subst; auto. Qed.

(* ---- cells after the blocks of zone_free ------------------------------------
   [Cells cs0 cs n c a e M d]: cs is cs0 where the segment starting at a now
   has M units and ends at e, the status of c became EMPTY, nothing changed
   outside [a,e) except the back link of e, which is d. *)
Definition Cells (cs0 cs : list cell) (n c a e M d : Z) : Prop :=
  length cs = length cs0 /\ nbu cs a = M /\ nbp cs a = nbp cs0 a /\
  (forall u, 0 <= u -> st cs u = if u =? c then EMPTY else st cs0 u) /\
  (forall u, 0 <= u -> u < a \/ e <= u ->
             nbu cs u = nbu cs0 u /\ (u <> e -> nbp cs u = nbp cs0 u)) /\
  (e < n -> nbp cs e = d).

Lemma cells_noprev cs0 n c K :
  Z.of_nat (length cs0) = n -> 0 <= c < n -> nbu cs0 c = K -> 1 <= K ->
  Cells cs0 (cset cs0 c (with_st (cget cs0 c) EMPTY)) n c c (c + K) K (nbp cs0 (c + K)).
Proof.
  intros Hl Hc HK HK1. unfold Cells. rewrite cset_length.
  split; auto. split; [cg; eqb_lia; cbn; auto|]. split; [cg; eqb_lia; cbn; auto|].
  split; [|split].
  - intros u Hu. cg. destruct (Z.eqb_spec u c); subst; cbn; auto.
  - intros u Hu Hr. cg. eqb_lia. auto.
  - intros He. cg. eqb_lia. auto.
Qed.

Lemma cells_prev cs0 n c K pt P :
  Z.of_nat (length cs0) = n -> 0 <= pt -> pt + P = c -> 1 <= P -> 1 <= K -> c + K <= n ->
  nbu cs0 pt = P -> nbu cs0 c = K ->
  let cs1 := cset cs0 c (with_st (cget cs0 c) EMPTY) in
  let csa := if in_range n (c + K)
             then cset cs1 (c + K) (with_nbp (cget cs1 (c + K)) (nbp cs1 (c + K) + nbu cs1 pt))
             else cs1 in
  let csb := cset csa pt (with_nbu (cget csa pt) (nbu csa pt + nbu csa c)) in
  Cells cs0 csb n c pt (c + K) (P + K) (nbp cs0 (c + K) + P).
Proof.
  intros Hl Hpt Hc HP HK Hn EP EK cs1 csa csb.
  assert (L1 : length cs1 = length cs0) by (unfold cs1; rewrite cset_length; auto).
  assert (La : length csa = length cs0).
  { unfold csa. destruct (in_range n (c + K)); rewrite ?cset_length; auto. }
  assert (R1 : forall u, 0 <= u -> cget cs1 u = if u =? c then with_st (cget cs0 c) EMPTY else cget cs0 u).
  { intros u Hu. unfold cs1. cg. reflexivity. }
  assert (Ra : forall u, 0 <= u -> u <> c + K -> cget csa u = cget cs1 u).
  { intros u Hu Hne. unfold csa. destruct (in_range n (c + K)) eqn:Er; auto.
    apply in_range_iff in Er. cg. eqb_lia. auto. }
  assert (Rb : forall u, 0 <= u -> cget csb u =
               if u =? pt then with_nbu (cget csa pt) (nbu csa pt + nbu csa c) else cget csa u).
  { intros u Hu. unfold csb. cg. reflexivity. }
  unfold Cells. split; [unfold csb; rewrite cset_length; auto|].
  split; [rewrite Rb, Z.eqb_refl by lia; cbn; rewrite !Ra, !R1 by lia; eqb_lia; cbn; lia|].
  split; [rewrite Rb, Z.eqb_refl by lia; cbn; rewrite !Ra, !R1 by lia; eqb_lia; auto|].
  split; [|split].
  - intros u Hu. rewrite Rb by lia. destruct (Z.eqb_spec u pt) as [->|Hne].
    + cbn. rewrite Ra, R1 by lia. eqb_lia. auto.
    + unfold csa. destruct (in_range n (c + K)) eqn:Er.
      * apply in_range_iff in Er. cg. destruct (Z.eqb_spec u (c + K)) as [->|Hne2].
        -- cbn. rewrite R1 by lia. eqb_lia. auto.
        -- rewrite R1 by lia. destruct (Z.eqb_spec u c); subst; cbn; auto.
      * rewrite R1 by lia. destruct (Z.eqb_spec u c); subst; cbn; auto.
  - intros u Hu Hr. rewrite Rb by lia. eqb_lia. split.
    + unfold csa. destruct (in_range n (c + K)) eqn:Er.
      * apply in_range_iff in Er. cg. destruct (Z.eqb_spec u (c + K)) as [->|Hne2].
        -- cbn. rewrite R1 by lia. eqb_lia. auto.
        -- rewrite R1 by lia. eqb_lia. auto.
      * rewrite R1 by lia. eqb_lia. auto.
    + intros Hne. rewrite Ra, R1 by lia. eqb_lia. auto.
  - intros He. rewrite Rb by lia. eqb_lia. unfold csa.
    assert (Er : in_range n (c + K) = true) by (apply in_range_iff; lia). rewrite Er.
    cg. eqb_lia. cbn. rewrite !R1 by lia. eqb_lia. lia.
Qed.

Lemma cells_next cs0 cs2 n c a K Ka d X :
  Cells cs0 cs2 n c a (c + K) Ka d ->
  Z.of_nat (length cs0) = n -> 0 <= a <= c -> 1 <= K -> c + K + X <= n -> 1 <= X ->
  nbu cs0 (c + K) = X ->
  let x := c + K in
  let csc := cset cs2 a (with_nbu (cget cs2 a) (nbu cs2 a + nbu cs2 x)) in
  let csd := if in_range n (x + nbu cs2 x)
             then cset csc (x + nbu cs2 x) (with_nbp (cget csc (x + nbu cs2 x)) (nbu csc a))
             else csc in
  Cells cs0 csd n c a (x + X) (Ka + X) (Ka + X).
Proof.
  intros (L2 & Ma & Pa & S2 & O2 & D2) Hl Ha HK Hn HX EX x csc csd.
  assert (EX2 : nbu cs2 x = X).
  { destruct (O2 x) as [E _]; [unfold x; lia|unfold x; lia|]. rewrite E. auto. }
  subst csd csc. rewrite !EX2.
  set (csc := cset cs2 a (with_nbu (cget cs2 a) (nbu cs2 a + X))).
  set (csd := if in_range n (x + X) then cset csc (x + X) (with_nbp (cget csc (x + X)) (nbu csc a)) else csc).
  assert (Lc : length csc = length cs0) by (unfold csc; rewrite cset_length; auto).
  assert (Rc : forall u, 0 <= u -> cget csc u = if u =? a then with_nbu (cget cs2 a) (nbu cs2 a + X) else cget cs2 u).
  { intros u Hu. unfold csc. cg. reflexivity. }
  assert (Rd : forall u, 0 <= u -> u <> x + X -> cget csd u = cget csc u).
  { intros u Hu Hne. unfold csd. destruct (in_range n (x + X)) eqn:Er; auto.
    apply in_range_iff in Er. cg. eqb_lia. auto. }
  assert (Ld : length csd = length cs0).
  { unfold csd. destruct (in_range n (x + X)); rewrite ?cset_length; auto. }
  unfold Cells. split; auto. unfold x in *.
  split; [rewrite Rd, Rc by lia; eqb_lia; cbn; lia|].
  split; [rewrite Rd, Rc by lia; eqb_lia; cbn; auto|].
  split; [|split].
  - intros u Hu. rewrite <- S2 by lia. unfold csd. destruct (in_range n (c + K + X)) eqn:Er.
    + apply in_range_iff in Er. cg. destruct (Z.eqb_spec u (c + K + X)) as [->|Hne].
      * cbn. rewrite Rc by lia. eqb_lia. auto.
      * rewrite Rc by lia. destruct (Z.eqb_spec u a) as [->|Hne2]; [cbn|]; auto.
    + rewrite Rc by lia. destruct (Z.eqb_spec u a) as [->|Hne2]; [cbn|]; auto.
  - intros u Hu Hr. destruct (O2 u Hu ltac:(lia)) as [E1 E2]. split.
    + unfold csd. destruct (in_range n (c + K + X)) eqn:Er.
      * apply in_range_iff in Er. cg. destruct (Z.eqb_spec u (c + K + X)) as [->|Hne].
        -- cbn. rewrite Rc by lia. eqb_lia. auto.
        -- rewrite Rc by lia. eqb_lia. auto.
      * rewrite Rc by lia. eqb_lia. auto.
    + intros Hne. rewrite Rd, Rc by lia. eqb_lia. apply E2. lia.
  - intros He. unfold csd.
    assert (Er : in_range n (c + K + X) = true) by (apply in_range_iff; lia). rewrite Er.
    cg. eqb_lia. cbn. rewrite Rc by lia. eqb_lia. cbn. lia.
Qed.

(* ---- the index through the blocks of zone_free -------------------------------
   [g] is the content seen without the node kept for reuse, which, when it
   exists, carries key M and an empty list *)
Definition VI (M : Z) (ix : index) (r : bool) (g : fview) : Prop :=
  keys_gt 0 ix /\
  (forall k, ix_find ix k = if r then with_empty g M k else g k) /\
  (r = true -> g M = None).

Lemma vi_unlink M ix r g K t l ix' r' : VI M ix r g -> 0 < M -> K <> M -> g K = Some l ->
  ix_unlink ix K t M r = (ix', r') -> VI M ix' r' (sp_del g K t).
Proof.
  intros (H1 & H2 & H3) HM HK Hg E.
  pose proof (ix_unlink_spec 0 ix K t M r g l H1 HM HK H2 H3 Hg) as Hs.
  rewrite E in Hs. destruct Hs as (A & B & C & _). split; auto.
Qed.

Lemma vi_push M ix r g cs a : VI M ix r g -> 0 < M -> nbu cs a = M ->
  let ix4 := free_push (mkF cs ix r a) M in
  keys_gt 0 ix4 /\ forall k, ix_find ix4 k = sp_add g M a k.
Proof.
  intros (H1 & H2 & H3) HM Ha. unfold free_push. cbn [f_cur f_reuse f_ix f_cs]. rewrite Ha.
  destruct r.
  - split; [apply keys_gt_set; auto|]. intros k.
    rewrite (ix_push_spec _ _ _ []) by (rewrite H2; unfold with_empty; rewrite Z.eqb_refl; auto).
    rewrite H2. unfold sp_add, with_empty, fget. rewrite (H3 eq_refl). destruct (k =? M); reflexivity.
  - destruct (ix_find_or_insert_push 0 ix M a H1 HM) as [A B]. split; auto.
    intros k. rewrite B. unfold sp_add, fget. rewrite !H2. reflexivity.
Qed.

(* ---- what zone_free of a live allocation does to the zone ---------------------- *)
Record FreeOk (z : zone) (hs : list Z) (c : Z) (z' : zone) (hs' : list Z) : Prop := mkFreeOk {
  fo_n : z_n z' = z_n z;
  fo_unit : z_unit z' = z_unit z;
  fo_inv : Inv z' hs';
  fo_kept : forall t, In t hs -> st (z_cells z) t = FULL -> t <> c ->
            In t hs' /\ st (z_cells z') t = FULL /\ nbu (z_cells z') t = nbu (z_cells z) t;
  fo_only : forall t, In t hs' -> st (z_cells z') t = FULL ->
            In t hs /\ st (z_cells z) t = FULL /\ t <> c;
  fo_defined : forall t, 0 <= t < z_n z ->
            st (z_cells z) t = EMPTY \/ st (z_cells z) t = FULL ->
            st (z_cells z') t = EMPTY \/ st (z_cells z') t = FULL;
  fo_sum : sum_units FULL (z_cells z') hs' = sum_units FULL (z_cells z) hs - nbu (z_cells z) c
}.

(* the merged segment [a,e) replaces the heads of [mid] *)
Lemma free_assemble z hs c lA mid lB a e M csF ixF (g2 : fview) pa fa qe ge q g :
  Inv z hs -> In c hs -> st (z_cells z) c = FULL ->
  (forall t, In t hs <-> In t lA \/ In t mid \/ In t lB) ->
  (forall t, In t mid -> a <= t < e /\ (t = c \/ st (z_cells z) t = EMPTY)) ->
  In a mid -> In c mid ->
  Chain (z_cells z) 0 1 false lA a pa fa -> (fa = true -> False) -> nbp (z_cells z) a = pa ->
  Chain (z_cells z) e qe ge lB (z_n z) q g -> (lB <> [] -> st (z_cells z) e = FULL) ->
  e = a + M -> 1 <= M ->
  sum_units FULL (z_cells z) hs =
    sum_units FULL (z_cells z) lA + nbu (z_cells z) c + sum_units FULL (z_cells z) lB ->
  Cells (z_cells z) csF (z_n z) c a e M M ->
  keys_gt 0 ixF ->
  Rep g2 (fun k t => FreeSeg (z_cells z) hs k t /\ ~ In t mid) ->
  (forall k, ix_find ixF k = sp_add g2 M a k) ->
  FreeOk z hs c (mkZone (z_n z) (z_unit z) csF ixF) (lA ++ a :: lB).
Proof.
  intros I Hc Hfull Hmem Hmid Hamid Hcmid HA HfA Hpa HB HhB He HM Hsum
         (LF & Ma & Pa & SF & OF & DF) HsF Hrep Hview.
  set (cs0 := z_cells z) in *. set (n := z_n z) in *.
  pose proof (chain_bounds _ _ _ _ _ _ _ _ HA) as [Ha0 BA].
  pose proof (chain_bounds _ _ _ _ _ _ _ _ HB) as [Hen BB].
  destruct (Hmid c Hcmid) as [Hcr _].
  assert (Hst_a : st csF a = EMPTY).
  { rewrite SF by lia. destruct (Z.eqb_spec a c); auto.
    destruct (Hmid a Hamid) as [_ [?|?]]; [lia|auto]. }
  (* cells at the heads that stay *)
  assert (KA : forall t, In t lA -> cget csF t = cget cs0 t).
  { intros t Ht. destruct (BA t Ht) as (B1 & B2 & B3).
    destruct (OF t ltac:(lia) ltac:(lia)) as [E1 E2].
    apply cell_eq; auto; [|apply E2; lia]. rewrite SF by lia. eqb_lia. auto. }
  assert (KB : forall t, In t lB -> st csF t = st cs0 t /\ nbu csF t = nbu cs0 t /\
                                    (t <> e -> nbp csF t = nbp cs0 t)).
  { intros t Ht. destruct (BB t Ht) as (B1 & B2 & B3).
    destruct (OF t ltac:(lia) ltac:(lia)) as [E1 E2].
    split; [|split; auto]. rewrite SF by lia. eqb_lia. auto. }
  assert (Hin' : forall t, In t (lA ++ a :: lB) <-> In t lA \/ t = a \/ In t lB).
  { intros t. rewrite in_app_iff. cbn [In]. intuition. }
  assert (Hout : forall t, In t lA \/ In t lB -> ~ In t mid).
  { intros t [Ht|Ht] Hm; destruct (Hmid t Hm) as [Hr _].
    - destruct (BA t Ht); lia.
    - destruct (BB t Ht); lia. }
  (* the new chain *)
  assert (Hchain' : exists q' g', Chain csF 0 1 false (lA ++ a :: lB) n q' g').
  { destruct (chain_rehead cs0 csF e qe ge M true lB n q g HB) as (q' & g' & Ht).
    - intros t Ht Hne. destruct (KB t Ht) as (E1 & E2 & E3). apply cell_eq; auto.
    - intros HlB. destruct lB as [|y lB']; [congruence|].
      pose proof HB as HB'. apply chain_cons_inv in HB'. destruct HB' as (-> & K1 & _).
      destruct (KB e (or_introl eq_refl)) as (E1 & E2 & _).
      destruct (BB e (or_introl eq_refl)) as (B1 & B2 & B3).
      repeat split; auto. apply DF. lia.
    - exists q', g'. eapply chain_app.
      + apply chain_ext with cs0; [exact HA|]. exact KA.
      + constructor; rewrite ?Ma, ?Pa, ?Hst_a; auto; try lia; try (intros Hf; destruct (HfA Hf)).
        replace (a + M) with e by lia. exact Ht. }
  constructor; cbn [z_n z_unit z_cells z_idx]; fold cs0; fold n; auto.
  - (* invariant *)
    constructor; cbn [z_n z_unit z_cells z_idx]; fold cs0; fold n;
      try apply (inv_n _ _ I); try apply (inv_unit _ _ I); auto.
    + rewrite LF. apply (inv_len _ _ I).
    + intros t Ht Hf. rewrite SF in Hf by lia.
      destruct (Z.eqb_spec t c); [unfold FULL, EMPTY in Hf; lia|].
      pose proof (inv_full_head _ _ I t Ht Hf) as Hin. apply Hmem in Hin.
      apply Hin'. destruct Hin as [?|[Hm|?]]; auto.
      destruct (Hmid t Hm) as [_ [?|Hs]]; [lia|]. fold cs0 in Hs, Hf. unfold FULL, EMPTY in *; lia.
    + eapply rep_ext; [apply rep_add; [exact Hrep|]|exact Hview|].
      * intros [_ Hn]. auto.
      * intros k t. unfold FreeSeg. fold cs0. split.
        -- intros [[(Ht & Hs & Hk) Hnm]|[-> ->]].
           ++ apply Hmem in Ht. destruct Ht as [Ht|[Ht|Ht]]; [|contradiction|].
              ** rewrite (KA t Ht). split; [apply Hin'; auto|auto].
              ** destruct (KB t Ht) as (E1 & E2 & _). rewrite E1, E2. split; [apply Hin'; auto|auto].
           ++ split; [apply Hin'; auto|auto].
        -- intros (Ht & Hs & Hk). apply Hin' in Ht. destruct Ht as [Ht|[->|Ht]].
           ++ left. rewrite (KA t Ht) in Hs, Hk. split; [split; auto; apply Hmem; auto|apply Hout; auto].
           ++ right. split; auto. congruence.
           ++ left. destruct (KB t Ht) as (E1 & E2 & _). rewrite E1 in Hs. rewrite E2 in Hk.
              split; [split; auto; apply Hmem; auto|apply Hout; auto].
  - (* full segments other than c stay *)
    intros t Ht Hf Hne. apply Hmem in Ht. destruct Ht as [Ht|[Ht|Ht]].
    + rewrite (KA t Ht). split; [apply Hin'; auto|auto].
    + destruct (Hmid t Ht) as [_ [?|Hs]]; [lia|]. fold cs0 in Hs. unfold FULL, EMPTY in *; lia.
    + destruct (KB t Ht) as (E1 & E2 & _). rewrite E1, E2. split; [apply Hin'; auto|auto].
  - (* no new full segment *)
    intros t Ht Hf. apply Hin' in Ht. destruct Ht as [Ht|[->|Ht]].
    + rewrite (KA t Ht) in Hf. destruct (BA t Ht). split; [apply Hmem; auto|split; auto; lia].
    + rewrite Hst_a in Hf. unfold FULL, EMPTY in Hf; lia.
    + destruct (KB t Ht) as (E1 & _). rewrite E1 in Hf. destruct (BB t Ht).
      split; [apply Hmem; auto|split; auto; lia].
  - intros t Ht Hd. rewrite SF by lia. destruct (t =? c); auto.
  - rewrite sum_units_app, sum_units_cons, Hst_a, Hsum.
    rewrite (sum_units_ext2 FULL cs0 csF lA), (sum_units_ext2 FULL cs0 csF lB).
    + unfold EMPTY, FULL. cbn [Z.eqb Pos.eqb]. lia.
    + intros t Ht. destruct (KB t Ht) as (E1 & E2 & _). auto.
    + intros t Ht. rewrite (KA t Ht). auto.
Qed.

Lemma cells_dlink cs0 cs n c a e M d d' :
  Cells cs0 cs n c a e M d -> (e < n -> d = d') -> Cells cs0 cs n c a e M d'.
Proof.
  intros (A & B & C & D & E & F) H.
  split; [|split; [|split; [|split; [|split]]]]; auto. intros He. rewrite <- H; auto.
Qed.

Lemma rep_find_some f F k t : Rep f F -> F k t -> exists l, f k = Some l.
Proof.
  intros [_ H] HF. apply H in HF. unfold fget in HF. destruct (f k); [eauto|destruct HF].
Qed.

(* frees that zone_free rejects: out of range, or a segment already marked free *)
Lemma zfree_ignored z off :
  in_range (z_n z) (off / z_unit z) = false \/ st (z_cells z) (off / z_unit z) = EMPTY ->
  zfree z off = z.
Proof.
  intros [H|H]; unfold zfree.
  - rewrite H. reflexivity.
  - destruct (in_range (z_n z) (off / z_unit z)); cbn [negb]; auto. rewrite H. reflexivity.
Qed.

Lemma zfree_live z hs off c :
  Inv z hs -> In c hs -> st (z_cells z) c = FULL -> off / z_unit z = c ->
  exists hs', FreeOk z hs c (zfree z off) hs'.
Proof.
  intros I Hc Hfull Hoff.
  pose proof (inv_len _ _ I) as Hlen. pose proof (inv_sorted _ _ I) as Hsorted.
  pose proof (inv_rep _ _ I) as HRep.
  destruct (inv_head_range _ _ _ I Hc) as (Hc0 & Hcn & HK1).
  destruct (inv_chain _ _ I) as (q & g & Hch).
  set (cs0 := z_cells z) in *. set (n := z_n z) in *. set (K := nbu cs0 c) in *.
  destruct (in_split _ _ Hc) as (l1 & l2 & Ehs).
  pose proof Hch as Hch1. rewrite Ehs in Hch1.
  apply chain_app_inv in Hch1. destruct Hch1 as (m & p1 & f1 & HA1 & Hch2).
  apply chain_cons_inv in Hch2. destruct Hch2 as (-> & _ & J2 & _ & J4 & J5).
  fold K in J5.
  assert (Hs : (st cs0 m =? EMPTY) = false) by (rewrite Hfull; reflexivity).
  rewrite Hs in J5.
  pose proof (chain_bounds _ _ _ _ _ _ _ _ HA1) as [_ B1].
  pose proof (chain_bounds _ _ _ _ _ _ _ _ J5) as [_ B2].
  (* the neighbours of the segment *)
  assert (HP : (f1 = false /\ (in_range n (m - p1) = false \/ st cs0 (m - p1) = FULL) /\ m - p1 <> m) \/
               (exists l1' pt pp fp, l1 = l1' ++ [pt] /\ pt + p1 = m /\ nbu cs0 pt = p1 /\ 1 <= p1 /\
                  st cs0 pt = EMPTY /\ Chain cs0 0 1 false l1' pt pp fp /\ nbp cs0 pt = pp /\
                  (fp = true -> False))).
  { destruct l1 as [|pt l1' _] using rev_ind.
    - apply chain_nil_inv in HA1. destruct HA1 as (-> & -> & ->). left.
      split; auto. split; [left; apply in_range_false; lia|lia].
    - apply chain_app_inv in HA1. destruct HA1 as (m0 & pp & fp & HA0 & HA2).
      apply chain_cons_inv in HA2. destruct HA2 as (-> & L1 & L2 & L3 & L4 & L5).
      apply chain_nil_inv in L5. destruct L5 as (-> & -> & ->).
      destruct L3 as [L3|L3].
      + right. exists l1', m0, pp, fp. repeat split; auto; try lia;
          try (intros Hf; specialize (L4 Hf); unfold FULL, EMPTY in *; lia).
      + left. rewrite L3. split; [reflexivity|]. split; [right|lia].
        replace (m0 + nbu cs0 m0 - nbu cs0 m0) with m0 by lia. auto. }
  assert (HN : (in_range n (m + K) = false \/ st cs0 (m + K) = FULL) /\ (l2 <> [] -> st cs0 (m + K) = FULL) \/
               (exists l2' X, l2 = (m + K) :: l2' /\ nbu cs0 (m + K) = X /\ 1 <= X /\ m + K + X <= n /\
                  st cs0 (m + K) = EMPTY /\ Chain cs0 (m + K + X) X true l2' n q g)).
  { destruct l2 as [|x l2'].
    - apply chain_nil_inv in J5. destruct J5 as (E & _). left.
      split; [left; apply in_range_false; lia|congruence].
    - pose proof J5 as J5'. apply chain_cons_inv in J5'. destruct J5' as (-> & N1 & N2 & N3 & N4 & N5).
      pose proof (chain_bounds _ _ _ _ _ _ _ _ N5) as [Bx _].
      destruct N3 as [N3|N3].
      + right. exists l2', (nbu cs0 (m + K)). rewrite N3 in N5. repeat split; auto; lia.
      + left. split; auto. }
  assert (Hlink : m + K < n -> nbp cs0 (m + K) = K).
  { intros Hlt. destruct l2 as [|x l2'].
    - apply chain_nil_inv in J5. lia.
    - apply chain_cons_inv in J5. destruct J5 as (-> & _ & N2 & _). auto. }
  (* unfold the code *)
  unfold zfree. rewrite Hoff. fold cs0 n. cbv zeta.
  assert (Er : in_range n m = true) by (apply in_range_iff; lia).
  rewrite Er, Hs. cbn [negb].
  set (cs1 := cset cs0 m (with_st (cget cs0 m) EMPTY)).
  assert (R1 : forall u, 0 <= u -> cget cs1 u = if u =? m then with_st (cget cs0 m) EMPTY else cget cs0 u).
  { intros u Hu. unfold cs1. cg. reflexivity. }
  assert (E1 : nbp cs1 m = p1) by (rewrite R1, Z.eqb_refl by lia; cbn; auto).
  assert (E2 : nbu cs1 m = K) by (rewrite R1, Z.eqb_refl by lia; cbn; auto).
  rewrite E1, E2.
  assert (Hmem1 : forall t, In t hs <-> In t l1 \/ In t [m] \/ In t l2).
  { intros t. rewrite Ehs, in_app_iff. cbn [In]. tauto. }
  assert (Hsum1 : sum_units FULL cs0 hs = sum_units FULL cs0 l1 + K + sum_units FULL cs0 l2).
  { rewrite Ehs, sum_units_app, sum_units_cons, Hfull. unfold FULL. cbn [Z.eqb Pos.eqb]. fold K. lia. }
  assert (VI0 : forall M, VI M (z_idx z) false (ix_find (z_idx z))).
  { intros M. split; auto. split; auto. intros; discriminate. }
  destruct HP as [(Ef1 & Hpn & Hpne)|(l1' & pt & pp & fp & El1 & Ept & EP & HP1 & Hpst & HA0 & Hpp & Hfp)].
  - (* the previous segment is not free *)
    assert (Epf : in_range n (m - p1) && (st cs1 (m - p1) =? EMPTY) = false).
    { destruct Hpn as [Hr|Hf]; [rewrite Hr; reflexivity|].
      destruct (in_range n (m - p1)) eqn:Hr; auto. apply in_range_iff in Hr.
      rewrite R1 by lia. eqb_lia. rewrite ?Hf. reflexivity. }
    rewrite !Epf. unfold free_prev. rewrite Epf.
    pose proof (cells_noprev cs0 n m K Hlen ltac:(lia) eq_refl HK1) as C2. fold cs1 in C2.
    apply cells_dlink with (d' := K) in C2; [|exact Hlink].
    destruct HN as [(Hnn & HlB)|(l2' & X & El2 & EX & HX1 & HXn & Hxst & HB)].
    + (* nothing to merge *)
      assert (Enf : in_range n (m + K) && (st cs1 (m + K) =? EMPTY) = false).
      { destruct Hnn as [Hr|Hf]; [rewrite Hr; reflexivity|].
        destruct (in_range n (m + K)) eqn:Hr; auto. apply in_range_iff in Hr.
        rewrite R1 by lia. eqb_lia. rewrite ?Hf. reflexivity. }
      rewrite !Enf. unfold free_next. cbn [f_cs f_cur f_ix f_reuse]. rewrite Enf.
      replace (K + 0 + 0) with K by lia.
      destruct (vi_push K (z_idx z) false (ix_find (z_idx z)) cs1 m (VI0 K) ltac:(lia) E2) as [S4 V4].
      exists (l1 ++ m :: l2). cbn [f_cs].
      eapply (free_assemble z hs m l1 [m] l2 m (m + K) K cs1 _ (ix_find (z_idx z)) p1 f1 K false q g);
        fold cs0; fold n; eauto; try lia.
      * intros t [<-|[]]. split; [lia|auto].
      * left; auto.
      * left; auto.
      * eapply rep_ext; [exact HRep|reflexivity|]. intros k t. unfold FreeSeg. fold cs0. split.
        -- intros (A & B & C). split; auto. intros [<-|[]]. unfold FULL, EMPTY in *; lia.
        -- tauto.
    + (* merge with the next segment *)
      subst l2.
      assert (Enf : in_range n (m + K) && (st cs1 (m + K) =? EMPTY) = true).
      { assert (Hr : in_range n (m + K) = true) by (apply in_range_iff; lia). rewrite Hr.
        rewrite R1 by lia. eqb_lia. rewrite ?Hxst. reflexivity. }
      rewrite !Enf. unfold free_next. cbn [f_cs f_cur f_ix f_reuse]. rewrite Enf.
      assert (EX1 : nbu cs1 (m + K) = X) by (rewrite R1 by lia; eqb_lia; auto).
      pose proof (cells_next cs0 cs1 n m m K K K X C2 Hlen ltac:(lia) HK1 HXn HX1 EX) as CF.
      cbv zeta in CF. rewrite !EX1 in *.
      replace (K + 0 + X) with (K + X) by lia.
      destruct (rep_find_some _ _ X (m + K) HRep) as (lx & Hlx); [split; [rewrite Ehs, in_app_iff; right; right; left; auto|auto]|].
      destruct (ix_unlink (z_idx z) X (m + K) (K + X) false) as [ixb r3] eqn:E3.
      pose proof (vi_unlink (K + X) _ _ _ X (m + K) lx ixb r3 (VI0 (K + X)) ltac:(lia) ltac:(lia) Hlx E3) as V3.
      match goal with |- context[free_push (mkF ?cs _ _ _) _] => set (csF := cs) in * end.
      pose proof CF as (CF1 & CF2 & _).
      destruct (vi_push (K + X) ixb r3 _ csF m V3 ltac:(lia) CF2) as [S4 V4].
      exists (l1 ++ m :: l2'). cbn [f_cs].
      eapply (free_assemble z hs m l1 [m; m + K] l2' m (m + K + X) (K + X) csF _ _ p1 f1 X true q g);
        fold cs0; fold n; eauto; try lia.
      * intros t. rewrite Ehs, in_app_iff. cbn [In]. tauto.
      * intros t [<-|[<-|[]]]; (split; [lia|auto]).
      * left; auto.
      * left; auto.
      * intros HlB. destruct l2' as [|y l2'']; [congruence|].
        apply chain_cons_inv in HB. destruct HB as (-> & _ & _ & _ & N4 & _). auto.
      * rewrite Ehs, !sum_units_app, !sum_units_cons, Hfull, Hxst. unfold FULL, EMPTY.
        cbn [Z.eqb Pos.eqb]. fold K. lia.
      * eapply rep_ext; [apply rep_del; [exact HRep|]|reflexivity|].
        -- split; [rewrite Ehs, in_app_iff; right; right; left; auto|auto].
        -- intros k t. unfold FreeSeg. fold cs0. split.
           ++ intros ((A & B & C) & D). split; auto. intros [<-|[<-|[]]].
              ** unfold FULL, EMPTY in *; lia.
              ** apply D. split; auto. congruence.
           ++ intros (A & B). split; auto. intros [_ ->]. apply B. right; left; auto.
  - (* merge with the previous segment *)
    subst l1.
    assert (Hpt0 : 0 <= pt).
    { pose proof (chain_bounds _ _ _ _ _ _ _ _ HA0) as [Hx _]. lia. }
    replace (m - p1) with pt by lia.
    assert (Epf : in_range n pt && (st cs1 pt =? EMPTY) = true).
    { assert (Hr : in_range n pt = true) by (apply in_range_iff; lia). rewrite Hr.
      rewrite R1 by lia. eqb_lia. rewrite ?Hpst. reflexivity. }
    rewrite !Epf. unfold free_prev. rewrite Epf.
    assert (EP1 : nbu cs1 pt = p1) by (rewrite R1 by lia; eqb_lia; auto).
    pose proof (cells_prev cs0 n m K pt p1 Hlen Hpt0 Ept HP1 HK1 Hcn EP eq_refl) as C2.
    cbv zeta in C2. fold cs1 in C2. rewrite !EP1 in *.
    apply cells_dlink with (d' := p1 + K) in C2; [|intros Hlt; rewrite Hlink by auto; lia].
    destruct (rep_find_some _ _ p1 pt HRep) as (lp & Hlp); [split; [rewrite Ehs, !in_app_iff; left; right; left; auto|auto]|].
    assert (Hmem2 : forall t, In t hs <-> In t l1' \/ In t [pt; m] \/ In t l2).
    { intros t. rewrite Ehs, !in_app_iff. cbn [In]. tauto. }
    destruct HN as [(Hnn & HlB)|(l2' & X & El2 & EX & HX1 & HXn & Hxst & HB)].
    + (* previous only *)
      assert (Enf : in_range n (m + K) && (st cs1 (m + K) =? EMPTY) = false).
      { destruct Hnn as [Hr|Hf]; [rewrite Hr; reflexivity|].
        destruct (in_range n (m + K)) eqn:Hr; auto. apply in_range_iff in Hr.
        rewrite R1 by lia. eqb_lia. rewrite ?Hf. reflexivity. }
      rewrite !Enf. replace (K + p1 + 0) with (p1 + K) by lia.
      destruct (ix_unlink (z_idx z) p1 pt (p1 + K) false) as [ixa r2] eqn:E2'.
      pose proof (vi_unlink (p1 + K) _ _ _ p1 pt lp ixa r2 (VI0 (p1 + K)) ltac:(lia) ltac:(lia) Hlp E2') as V2.
      match goal with |- context[free_next _ (mkF ?cs _ _ _) _ _] => set (cs2 := cs) in * end.
      pose proof C2 as (C21 & C22 & C23 & C24 & C25 & C26).
      assert (Enf2 : in_range n (m + K) && (st cs2 (m + K) =? EMPTY) = false).
      { destruct (in_range n (m + K)) eqn:Hr; auto. apply in_range_iff in Hr.
        destruct Hnn as [Hr'|Hf]; [discriminate|].
        rewrite C24 by lia. eqb_lia. rewrite ?Hf. reflexivity. }
      unfold free_next. cbn [f_cs f_cur f_ix f_reuse]. rewrite Enf2.
      destruct (vi_push (p1 + K) ixa r2 _ cs2 pt V2 ltac:(lia) C22) as [S4 V4].
      exists (l1' ++ pt :: l2). cbn [f_cs].
      eapply (free_assemble z hs m l1' [pt; m] l2 pt (m + K) (p1 + K) cs2 _ _ pp fp K false q g);
        fold cs0; fold n; eauto; try lia.
      * intros t [<-|[<-|[]]]; (split; [lia|auto]).
      * left; auto.
      * right; left; auto.
      * rewrite Ehs, !sum_units_app, !sum_units_cons, Hfull, Hpst. unfold FULL, EMPTY.
        cbn [Z.eqb Pos.eqb sum_units fold_right]. fold K. lia.
      * eapply rep_ext; [apply rep_del; [exact HRep|]|reflexivity|].
        -- split; [apply Hmem2; cbn [In]; auto|auto].
        -- intros k t. unfold FreeSeg. fold cs0. split.
           ++ intros ((A & B & C) & D). split; auto. intros [<-|[<-|[]]].
              ** apply D. split; auto. congruence.
              ** unfold FULL, EMPTY in *; lia.
           ++ intros (A & B). split; auto. intros [_ ->]. apply B. left; auto.
    + (* both neighbours *)
      subst l2.
      assert (Enf : in_range n (m + K) && (st cs1 (m + K) =? EMPTY) = true).
      { assert (Hr : in_range n (m + K) = true) by (apply in_range_iff; lia). rewrite Hr.
        rewrite R1 by lia. eqb_lia. rewrite ?Hxst. reflexivity. }
      rewrite !Enf.
      assert (EX1 : nbu cs1 (m + K) = X) by (rewrite R1 by lia; eqb_lia; auto).
      rewrite !EX1. replace (K + p1 + X) with (p1 + K + X) by lia.
      destruct (ix_unlink (z_idx z) p1 pt (p1 + K + X) false) as [ixa r2] eqn:E2'.
      pose proof (vi_unlink (p1 + K + X) _ _ _ p1 pt lp ixa r2 (VI0 (p1 + K + X)) ltac:(lia) ltac:(lia) Hlp E2') as V2.
      match goal with |- context[free_next _ (mkF ?cs _ _ _) _ _] => set (cs2 := cs) in * end.
      pose proof (cells_next cs0 cs2 n m pt K (p1 + K) (p1 + K) X C2 Hlen ltac:(lia) HK1 HXn HX1 EX) as CF.
      cbv zeta in CF.
      pose proof C2 as (C21 & C22 & C23 & C24 & C25 & C26).
      assert (EX2 : nbu cs2 (m + K) = X).
      { destruct (C25 (m + K) ltac:(lia) ltac:(lia)) as [E _]. rewrite E. auto. }
      assert (Enf2 : in_range n (m + K) && (st cs2 (m + K) =? EMPTY) = true).
      { assert (Hr : in_range n (m + K) = true) by (apply in_range_iff; lia). rewrite Hr.
        rewrite C24 by lia. eqb_lia. rewrite ?Hxst. reflexivity. }
      unfold free_next. cbn [f_cs f_cur f_ix f_reuse]. rewrite Enf2. rewrite !EX2 in *.
      assert (Hx_in : In (m + K) hs) by (apply Hmem2; cbn [In]; auto).
      assert (Hlx : exists lx, sp_del (ix_find (z_idx z)) p1 pt X = Some lx).
      { apply (rep_find_some _ (fun k t => FreeSeg cs0 hs k t /\ ~ (k = p1 /\ t = pt)) X (m + K)).
        - apply rep_del; auto. split; [apply Hmem2; cbn [In]; auto|auto].
        - split; [split; auto|]. intros [_ E]. lia. }
      destruct Hlx as (lx & Hlx).
      destruct (ix_unlink ixa X (m + K) (p1 + K + X) r2) as [ixb r3] eqn:E3.
      pose proof (vi_unlink (p1 + K + X) _ _ _ X (m + K) lx ixb r3 V2 ltac:(lia) ltac:(lia) Hlx E3) as V3.
      match goal with |- context[free_push (mkF ?cs _ _ _) _] => set (csF := cs) in * end.
      pose proof CF as (CF1 & CF2 & _).
      destruct (vi_push (p1 + K + X) ixb r3 _ csF pt V3 ltac:(lia) CF2) as [S4 V4].
      exists (l1' ++ pt :: l2'). cbn [f_cs].
      eapply (free_assemble z hs m l1' [pt; m; m + K] l2' pt (m + K + X) (p1 + K + X) csF _ _ pp fp X true q g);
        fold cs0; fold n; eauto; try lia.
      * intros t. rewrite Hmem2. cbn [In]. tauto.
      * intros t [<-|[<-|[<-|[]]]]; (split; [lia|auto]).
      * left; auto.
      * right; left; auto.
      * intros HlB. destruct l2' as [|y l2'']; [congruence|].
        apply chain_cons_inv in HB. destruct HB as (-> & _ & _ & _ & N4 & _). auto.
      * rewrite Ehs, !sum_units_app, !sum_units_cons, Hfull, Hpst, Hxst. unfold FULL, EMPTY.
        cbn [Z.eqb Pos.eqb sum_units fold_right]. fold K. lia.
      * eapply rep_ext; [apply rep_del; [apply rep_del; [exact HRep|]|]|reflexivity|].
        -- split; [apply Hmem2; cbn [In]; auto|auto].
        -- split; [split; auto|]. intros [_ E]. lia.
        -- intros k t. unfold FreeSeg. fold cs0. split.
           ++ intros (((A & B & C) & D) & D'). split; auto. intros [<-|[<-|[<-|[]]]].
              ** apply D. split; auto. congruence.
              ** unfold FULL, EMPTY in *; lia.
              ** apply D'. split; auto. congruence.
           ++ intros (A & B). split; [split; auto|].
              ** intros [_ ->]. apply B. left; auto.
              ** intros [_ ->]. apply B. right; right; left; auto.
Qed.
