(* C28, part 1: the segment array as a list with get/set, and the free index
   seen as a function key -> option list (the view every proof uses). *)
From PV Require Import Base.Tac Zone.ZoneDefs.
Local Open Scope Z_scope.

(* ---- cells ---------------------------------------------------------------- *)
Lemma lset_length {A} (l : list A) i x : length (lset l i x) = length l.
Proof. revert i; induction l as [|y r IH]; intros [|i]; cbn [lset length]; auto. Qed.

Lemma nth_lset {A} (l : list A) i j x d :
  (i < length l)%nat -> nth j (lset l i x) d = if Nat.eqb j i then x else nth j l d.
Proof.
  revert i j; induction l as [|y r IH]; intros i j Hi; cbn [length] in Hi; [lia|].
  destruct i as [|i], j as [|j]; cbn [lset nth Nat.eqb]; auto.
  apply IH; lia.
Qed.

Lemma cset_length cs t c : length (cset cs t c) = length cs.
Proof. apply lset_length. Qed.

Lemma cget_cset cs t c u :
  0 <= t < Z.of_nat (length cs) -> 0 <= u ->
  cget (cset cs t c) u = if u =? t then c else cget cs u.
Proof.
  intros Ht Hu. unfold cget, cset. rewrite nth_lset by lia.
  destruct (Nat.eqb_spec (Z.to_nat u) (Z.to_nat t)) as [E|E], (Z.eqb_spec u t) as [E'|E']; auto; lia.
Qed.

Lemma in_range_iff n t : in_range n t = true <-> 0 <= t < n.
Proof. unfold in_range. lia. Qed.
Lemma in_range_false n t : in_range n t = false <-> ~ (0 <= t < n).
Proof. unfold in_range. lia. Qed.

Lemma cget_repeat k t : cget (repeat dcell k) t = dcell.
Proof.
  unfold cget. generalize (Z.to_nat t) as i. induction k as [|k IH]; intros [|i]; cbn [repeat nth]; auto.
Qed.

(* ---- index: sortedness ------------------------------------------------------ *)
Lemma keys_gt_weaken b b' ix : b' <= b -> keys_gt b ix -> keys_gt b' ix.
Proof. destruct ix as [|[k l] r]; cbn [keys_gt]; intuition lia. Qed.

Lemma find_none_below b ix k : keys_gt b ix -> k <= b -> ix_find ix k = None.
Proof.
  revert b; induction ix as [|[k' l] r IH]; intros b Hs Hk; cbn [ix_find keys_gt] in *; auto.
  destruct Hs as [H1 H2]. destruct (Z.eqb_spec k' k); [lia|]. apply (IH k'); auto; lia.
Qed.

Lemma find_some_above b ix k l : keys_gt b ix -> ix_find ix k = Some l -> b < k.
Proof.
  intros Hs Hf. destruct (Z_lt_le_dec b k); auto.
  rewrite (find_none_below b ix k) in Hf; auto; discriminate.
Qed.

Lemma ix_find_set ix k l k' :
  ix_find (ix_set ix k l) k' =
  if k' =? k then match ix_find ix k with Some _ => Some l | None => None end else ix_find ix k'.
Proof.
  induction ix as [|[k0 l0] r IH]; cbn [ix_set ix_find].
  - destruct (k' =? k); auto.
  - destruct (Z.eqb_spec k0 k) as [E|E]; cbn [ix_find]; rewrite ?IH;
      destruct (Z.eqb_spec k0 k'), (Z.eqb_spec k' k); try lia; auto.
Qed.

Lemma keys_gt_set b ix k l : keys_gt b ix -> keys_gt b (ix_set ix k l).
Proof.
  revert b; induction ix as [|[k0 l0] r IH]; intros b Hs; cbn [ix_set keys_gt] in *; auto.
  destruct Hs as [H1 H2]. destruct (k0 =? k); cbn [keys_gt]; auto.
Qed.

Lemma ix_find_remove b ix k k' : keys_gt b ix ->
  ix_find (ix_remove ix k) k' = if k' =? k then None else ix_find ix k'.
Proof.
  revert b; induction ix as [|[k0 l0] r IH]; intros b Hs; cbn [ix_remove ix_find keys_gt] in *.
  - destruct (k' =? k); auto.
  - destruct Hs as [H1 H2]. destruct (Z.eqb_spec k0 k) as [E|E].
    + subst k0. destruct (Z.eqb_spec k' k) as [E'|E'].
      * subst k'. apply (find_none_below k r k); auto; lia.
      * destruct (Z.eqb_spec k k'); try lia; auto.
    + cbn [ix_find]. rewrite (IH k0 H2).
      destruct (Z.eqb_spec k0 k'), (Z.eqb_spec k' k); try lia; auto.
Qed.

Lemma keys_gt_remove b ix k : keys_gt b ix -> keys_gt b (ix_remove ix k).
Proof.
  revert b; induction ix as [|[k0 l0] r IH]; intros b Hs; cbn [ix_remove keys_gt] in *; auto.
  destruct Hs as [H1 H2]. destruct (k0 =? k); cbn [keys_gt]; auto.
  apply keys_gt_weaken with k0; auto; lia.
Qed.

Lemma ix_find_insert ix k l k' : ix_find ix k = None ->
  ix_find (ix_insert ix k l) k' = if k' =? k then Some l else ix_find ix k'.
Proof.
  induction ix as [|[k0 l0] r IH]; intros Hn; cbn [ix_insert ix_find] in *.
  - destruct (Z.eqb_spec k k'), (Z.eqb_spec k' k); try lia; auto.
  - destruct (Z.eqb_spec k0 k) as [E|E]; [discriminate|].
    destruct (k <? k0); cbn [ix_find].
    + destruct (Z.eqb_spec k k'), (Z.eqb_spec k' k); try lia; auto.
    + destruct (Z.eqb_spec k0 k'), (Z.eqb_spec k' k); try lia; auto.
Qed.

Lemma keys_gt_insert b ix k l : keys_gt b ix -> b < k -> ix_find ix k = None ->
  keys_gt b (ix_insert ix k l).
Proof.
  revert b; induction ix as [|[k0 l0] r IH]; intros b Hs Hb Hn; cbn [ix_insert keys_gt ix_find] in *; auto.
  destruct Hs as [H1 H2]. destruct (Z.eqb_spec k0 k) as [E|E]; [discriminate|].
  destruct (Z.ltb_spec k k0); cbn [keys_gt]; auto.
  split; auto. apply IH; auto. lia.
Qed.

(* parsec_rbtree_find_or_larger returns the smallest key that is large enough *)
Lemma ix_find_ge_some b ix k k' l : keys_gt b ix -> ix_find_ge ix k = Some (k', l) ->
  ix_find ix k' = Some l /\ k <= k' /\ forall k'', k <= k'' -> k'' < k' -> ix_find ix k'' = None.
Proof.
  revert b; induction ix as [|[k0 l0] r IH]; intros b Hs Hf; cbn [ix_find_ge ix_find keys_gt] in *; [discriminate|].
  destruct Hs as [H1 H2]. destruct (Z.leb_spec k k0).
  - inv Hf. rewrite Z.eqb_refl. repeat split; auto; try lia.
    intros k'' Ha Hb. destruct (Z.eqb_spec k' k''); [lia|]. apply (find_none_below k' r); auto; lia.
  - destruct (IH k0 H2 Hf) as (Ha & Hb & Hc).
    pose proof (find_some_above _ _ _ _ H2 Ha).
    destruct (Z.eqb_spec k0 k'); [lia|]. repeat split; auto.
    intros k'' Hd He. destruct (Z.eqb_spec k0 k''); [lia|]. auto.
Qed.

Lemma ix_find_ge_none ix k : ix_find_ge ix k = None -> forall k', k <= k' -> ix_find ix k' = None.
Proof.
  induction ix as [|[k0 l0] r IH]; intros Hf k' Hk; cbn [ix_find_ge ix_find] in *; auto.
  destruct (Z.leb_spec k k0); [discriminate|].
  destruct (Z.eqb_spec k0 k'); [lia|]. auto.
Qed.

(* ---- the functional view ---------------------------------------------------- *)
Definition fview := Z -> option (list Z).
Definition olist (l : list Z) : option (list Z) := if is_nil l then None else Some l.
Definition fget (f : fview) (k : Z) : list Z := match f k with Some l => l | None => [] end.
(* unlink t from the list of key K; the key disappears with its last element *)
Definition sp_del (f : fview) (K t : Z) : fview :=
  fun k => if k =? K then match f K with Some l => olist (remove_first t l) | None => None end else f k.
(* push t in front of the list of key K, creating the key if needed *)
Definition sp_add (f : fview) (K t : Z) : fview :=
  fun k => if k =? K then Some (t :: fget f K) else f k.
(* a node with key M and an empty list sits in the tree (kept for reuse) *)
Definition with_empty (f : fview) (M : Z) : fview := fun k => if k =? M then Some [] else f k.

(* f lists exactly the pairs (key, segment) of F, without empty lists or duplicates *)
Definition Rep (f : fview) (F : Z -> Z -> Prop) : Prop :=
  (forall k l, f k = Some l -> l <> [] /\ NoDup l) /\
  (forall k t, In t (fget f k) <-> F k t).

Lemma remove_first_in t l x : In x (remove_first t l) -> In x l.
Proof.
  induction l as [|y r IH]; cbn [remove_first]; auto.
  destruct (y =? t); cbn [In]; intuition.
Qed.
Lemma remove_first_nodup t l : NoDup l -> NoDup (remove_first t l).
Proof.
  induction l as [|y r IH]; cbn [remove_first]; intros H; auto. inv H.
  destruct (y =? t); auto. constructor; auto. intro Hi; apply remove_first_in in Hi; auto.
Qed.
Lemma remove_first_spec t l x : NoDup l -> (In x (remove_first t l) <-> In x l /\ x <> t).
Proof.
  induction l as [|y r IH]; cbn [remove_first In]; intros H; [tauto|]. inv H.
  destruct (Z.eqb_spec y t) as [E|E].
  - subst y. split; [intros Hi; split; auto; intro; subst; auto | intros [[?|?] ?]; auto; congruence].
  - cbn [In]. rewrite IH by auto. split; [intros [?|[? ?]]; subst; auto | intros [[?|?] ?]; auto].
Qed.

Lemma olist_some l l' : olist l = Some l' -> l' = l /\ l <> [].
Proof. unfold olist. destruct l; cbn [is_nil]; intros H; inv H. split; auto; discriminate. Qed.
Lemma fget_olist_in l x : In x (match olist l with Some l' => l' | None => [] end) <-> In x l.
Proof. unfold olist. destruct l; cbn [is_nil]; tauto. Qed.

Lemma rep_del f F K t : Rep f F -> F K t ->
  Rep (sp_del f K t) (fun k x => F k x /\ ~ (k = K /\ x = t)).
Proof.
  intros [H1 H2] HF. split.
  - intros k l. unfold sp_del. destruct (Z.eqb_spec k K) as [E|E]; [|apply H1].
    destruct (f K) as [l0|] eqn:E0; [|discriminate]. intros Ho. apply olist_some in Ho. destruct Ho; subst l.
    split; auto. apply remove_first_nodup. apply (H1 K); auto.
  - intros k x. unfold fget, sp_del. destruct (Z.eqb_spec k K) as [E|E].
    + subst k. specialize (H2 K x). unfold fget in H2. destruct (f K) as [l0|] eqn:E0.
      * rewrite fget_olist_in. rewrite remove_first_spec by (apply (H1 K); auto).
        rewrite H2. intuition.
      * cbn [In]. split; [tauto|]. intros [Hx _]. apply H2 in Hx. destruct Hx.
    + specialize (H2 k x). unfold fget in H2. rewrite H2. intuition.
Qed.

Lemma rep_add f F K t : Rep f F -> ~ F K t ->
  Rep (sp_add f K t) (fun k x => F k x \/ (k = K /\ x = t)).
Proof.
  intros [H1 H2] HF. split.
  - intros k l. unfold sp_add. destruct (Z.eqb_spec k K) as [E|E]; [|apply H1].
    intros Hs; inv Hs. split; [discriminate|]. constructor.
    + intro Hi. apply H2 in Hi. auto.
    + unfold fget. destruct (f K) eqn:E0; [apply (H1 K); auto | constructor].
  - intros k x. unfold sp_add. unfold fget at 1. destruct (Z.eqb_spec k K) as [E|E].
    + subst k. cbn [In]. rewrite H2. intuition.
    + specialize (H2 k x). unfold fget in H2. rewrite H2. intuition.
Qed.

Lemma rep_ext f f' F F' : Rep f F -> (forall k, f' k = f k) -> (forall k x, F k x <-> F' k x) -> Rep f' F'.
Proof.
  intros [H1 H2] Hf HF. split.
  - intros k l. rewrite Hf. apply H1.
  - intros k x. unfold fget. rewrite Hf. rewrite <- HF. apply H2.
Qed.

(* ---- the index operations of the code in the functional view ----------------- *)
Lemma ix_push_spec ix k t l k' : ix_find ix k = Some l ->
  ix_find (ix_push ix k t) k' = if k' =? k then Some (t :: l) else ix_find ix k'.
Proof. intros H. unfold ix_push, ix_get. rewrite ix_find_set, H. reflexivity. Qed.

(* the final push of zone_malloc (split) and zone_free when no node is kept for reuse:
   find the node of size M or insert a fresh one, then push_front *)
Lemma ix_find_or_insert_push b ix M t :
  keys_gt b ix -> b < M ->
  let ix' := match ix_find ix M with
             | Some _ => ix_push ix M t
             | None => ix_push (ix_insert ix M []) M t
             end in
  keys_gt b ix' /\ forall k, ix_find ix' k = sp_add (ix_find ix) M t k.
Proof.
  intros Hs Hb. destruct (ix_find ix M) as [l|] eqn:E; cbn zeta.
  - split; [apply keys_gt_set; auto|]. intros k. rewrite (ix_push_spec _ _ _ l) by auto.
    unfold sp_add, fget. rewrite E. reflexivity.
  - split; [apply keys_gt_set, keys_gt_insert; auto|]. intros k.
    rewrite (ix_push_spec _ _ _ []) by (rewrite ix_find_insert by auto; rewrite Z.eqb_refl; auto).
    rewrite ix_find_insert by auto. unfold sp_add, fget. rewrite E.
    destruct (k =? M); auto.
Qed.

(* parsec_rbtree_update_node on a node whose list is empty *)
Lemma ix_update_key_spec b ix K M : keys_gt b ix -> b < M -> K <> M -> ix_find ix K = Some [] ->
  match ix_update_key ix K M with
  | Some ix' => ix_find ix M = None /\ keys_gt b ix' /\
                forall k, ix_find ix' k = if k =? M then Some [] else if k =? K then None else ix_find ix k
  | None => ix_find ix M <> None
  end.
Proof.
  intros Hs Hb Hne HK. unfold ix_update_key. destruct (Z.eqb_spec M K); [lia|].
  destruct (ix_find ix M) eqn:EM; [discriminate|].
  split; auto. split.
  - apply keys_gt_insert; auto using keys_gt_remove.
    rewrite (ix_find_remove b) by auto. destruct (M =? K); auto.
  - intros k. rewrite ix_find_insert.
    + unfold ix_get. rewrite HK. rewrite (ix_find_remove b) by auto. reflexivity.
    + rewrite (ix_find_remove b) by auto. destruct (M =? K); auto.
Qed.

(* one merge step of zone_free on the index; [g] is the content without the
   node kept for reuse (which, when present, has key M and an empty list) *)
Lemma ix_unlink_spec b ix K t M (reuse : bool) (g : fview) l :
  keys_gt b ix -> b < M -> K <> M ->
  (forall k, ix_find ix k = if reuse then with_empty g M k else g k) ->
  (reuse = true -> g M = None) ->
  g K = Some l ->
  let '(ix', r') := ix_unlink ix K t M reuse in
  keys_gt b ix' /\
  (forall k, ix_find ix' k = if r' then with_empty (sp_del g K t) M k else sp_del g K t k) /\
  (r' = true -> sp_del g K t M = None) /\ (reuse = true -> r' = true).
Proof.
  intros Hs Hb Hne Hv Hr HK.
  assert (HfK : ix_find ix K = Some l).
  { rewrite Hv. destruct reuse; auto. unfold with_empty. destruct (Z.eqb_spec K M); [lia|auto]. }
  assert (HgM : sp_del g K t M = g M).
  { unfold sp_del. destruct (Z.eqb_spec M K); [lia|auto]. }
  unfold ix_unlink. rewrite HfK.
  set (l' := remove_first t l).
  assert (Hset : forall k, ix_find (ix_set ix K l') k =
                           if k =? K then Some l' else ix_find ix k).
  { intros k. rewrite ix_find_set, HfK. reflexivity. }
  pose proof (keys_gt_set b ix K l' Hs) as Hs1.
  destruct l' as [|x l''] eqn:El'; cbn [is_nil].
  - (* the chunk list became empty *)
    assert (Hdel : forall k, sp_del g K t k = if k =? K then None else g k).
    { intros k. unfold sp_del. rewrite HK. fold l'. rewrite El'. reflexivity. }
    destruct reuse.
    + split; [apply keys_gt_remove; auto|]. split; [|split; auto].
      * intros k. rewrite (ix_find_remove b) by auto. rewrite Hset, Hv.
        unfold with_empty. rewrite Hdel. destruct (Z.eqb_spec k K), (Z.eqb_spec k M); try lia; auto.
      * intros _. rewrite HgM. auto.
    + pose proof (ix_update_key_spec b (ix_set ix K []) K M Hs1 Hb Hne) as Hu.
      rewrite Hset, Z.eqb_refl in Hu. specialize (Hu eq_refl).
      destruct (ix_update_key (ix_set ix K []) K M) as [ix2|].
      * destruct Hu as (HM & Hs2 & Hf2). split; auto. split; [|split; [|discriminate]].
        -- intros k. rewrite Hf2, Hset, Hv. unfold with_empty. rewrite Hdel.
           destruct (Z.eqb_spec k M), (Z.eqb_spec k K); try lia; auto.
        -- intros _. rewrite HgM. rewrite Hset, Hv in HM.
           destruct (Z.eqb_spec M K); [lia|auto].
      * split; [apply keys_gt_remove; auto|]. split; [|split; discriminate].
        intros k. rewrite (ix_find_remove b) by auto. rewrite Hset, Hv, Hdel.
        destruct (Z.eqb_spec k K); auto.
  - (* other segments of that size remain *)
    assert (Hdel : forall k, sp_del g K t k = if k =? K then Some (x :: l'') else g k).
    { intros k. unfold sp_del. rewrite HK. fold l'. rewrite El'. reflexivity. }
    split; auto. split; [|split; auto].
    + intros k. rewrite Hset, Hv. destruct reuse.
      * unfold with_empty. rewrite Hdel. destruct (Z.eqb_spec k K), (Z.eqb_spec k M); try lia; auto.
      * rewrite Hdel. reflexivity.
    + intros E. rewrite HgM. auto.
Qed.
