(* C28, part 6: the statements of Properties_C28.v, for every reachable client state. *)
From PV Require Import Base.Tac Zone.ZoneDefs Zone.ZoneBase Zone.ZoneChain Zone.ZoneMalloc Zone.ZoneFree Zone.ZoneSpec.
Local Open Scope Z_scope.

Section Reach.
Variables (n unit : Z) (c : client).
Hypothesis Hn : 1 <= n.
Hypothesis Hu : 1 <= unit.
Hypothesis HR : reachable n unit c.

Lemma live_in_range_aligned off size : In (off, size) (cl_live c) ->
  0 < size /\ off mod unit = 0 /\ 0 <= off /\ off + size <= n * unit.
Proof.
  intros Hin. destruct (reachable_cinv n unit c Hn Hu HR) as (hs & CI).
  destruct (ci_live _ _ _ _ CI _ _ Hin) as (Hp & t & -> & Ht & Hst & Hnb).
  destruct (head_range n unit c hs CI t Ht) as (H0 & H1 & H2).
  pose proof (units_of_cover size unit Hu).
  split; auto. split; [apply Z.mod_mul; lia|]. split; [nia|].
  rewrite Hnb in H1. nia.
Qed.

Lemma live_disjoint i j o1 s1 o2 s2 : i <> j ->
  nth_error (cl_live c) i = Some (o1, s1) -> nth_error (cl_live c) j = Some (o2, s2) ->
  o1 + units_of s1 unit * unit <= o2 \/ o2 + units_of s2 unit * unit <= o1.
Proof.
  intros Hij H1 H2. destruct (reachable_cinv n unit c Hn Hu HR) as (hs & CI).
  assert (Hne : o1 <> o2).
  { intro E. subst o2. pose proof (ci_nodup _ _ _ _ CI) as Hnd.
    rewrite NoDup_nth_error in Hnd. apply Hij. apply Hnd.
    - rewrite map_length. apply nth_error_Some. congruence.
    - rewrite !nth_error_map, H1, H2. reflexivity. }
  destruct (ci_live _ _ _ _ CI _ _ (nth_error_In _ _ H1)) as (_ & t1 & -> & Ht1 & _ & Hn1).
  destruct (ci_live _ _ _ _ CI _ _ (nth_error_In _ _ H2)) as (_ & t2 & -> & Ht2 & _ & Hn2).
  destruct (view_chain n unit c hs CI) as (q & g & H).
  rewrite <- Hn1, <- Hn2.
  destruct (Z.lt_total t1 t2) as [Hlt|[E|Hlt]]; [|subst; congruence|].
  - left. pose proof (chain_sep _ _ _ _ _ _ _ _ t1 t2 H Ht1 Ht2 Hlt). nia.
  - right. pose proof (chain_sep _ _ _ _ _ _ _ _ t2 t1 H Ht2 Ht1 Hlt). nia.
Qed.

Lemma malloc_returns_live size off : snd (step c (Malloc size)) = Some off ->
  In (off, size) (cl_live (fst (step c (Malloc size)))).
Proof.
  cbn [step]. destruct (zmalloc (cl_zone c) size) as [z' [o|]]; cbn [fst snd]; intros E; inv E.
  cbn [cl_live]. apply in_app_iff. right; left; auto.
Qed.

Lemma malloc_fails_iff size : 0 < size ->
  (snd (step c (Malloc size)) = None <-> ~ exists a, free_window c a (units_of size unit)).
Proof.
  intros Hp. destruct (reachable_cinv n unit c Hn Hu HR) as (hs & CI).
  pose proof (zmalloc_spec (cl_zone c) hs size (ci_inv _ _ _ _ CI) ltac:(lia)) as Hm. cbv zeta in Hm.
  rewrite (ci_unit _ _ _ _ CI) in Hm.
  pose proof (units_of_pos size unit Hp Hu) as Hreq.
  cbn [step]. destruct (zmalloc (cl_zone c) size) as [z' [off|]]; cbn [snd].
  - destruct Hm as (_ & cur & hs' & _ & M). split; [discriminate|]. intros Hno. exfalso. apply Hno.
    destruct M. destruct (head_range n unit c hs CI cur mo_head) as (H0 & H1 & H2).
    exists cur. split; auto. rewrite (ci_n _ _ _ _ CI). split; [lia|].
    intros u Hr. apply (free_head_not_busy n unit c hs Hu CI cur u); auto. lia.
  - destruct Hm as (_ & [E|Hsmall]); [lia|]. split; auto. intros _ (a & Hw).
    destruct (window_in_free_head n unit c hs Hu CI a _ Hreq Hw) as (h & Hh & Hst & Hk).
    specialize (Hsmall h Hh Hst). lia.
Qed.

Lemma malloc_best_fit size off : 0 <= size -> snd (step c (Malloc size)) = Some off ->
  off mod unit = 0 /\
  exists k, max_free_run c (off / unit) k /\ units_of size unit <= k /\
    forall a' k', max_free_run c a' k' -> units_of size unit <= k' -> k <= k'.
Proof.
  intros Hp. destruct (reachable_cinv n unit c Hn Hu HR) as (hs & CI).
  pose proof (zmalloc_spec (cl_zone c) hs size (ci_inv _ _ _ _ CI) Hp) as Hm. cbv zeta in Hm.
  rewrite (ci_unit _ _ _ _ CI) in Hm.
  cbn [step]. destruct (zmalloc (cl_zone c) size) as [z' [o|]]; cbn [snd]; intros E; inv E.
  destruct Hm as (_ & cur & hs' & -> & M). destruct M.
  split; [apply Z.mod_mul; lia|]. rewrite Z.div_mul by lia.
  exists (nbu (z_cells (cl_zone c)) cur). split; [|split; auto].
  - apply (run_iff n unit c hs Hu CI). auto.
  - intros a' k' Hrun Hk. apply (run_iff n unit c hs Hu CI) in Hrun. destruct Hrun as (Ha & Hst & <-).
    apply mo_best; auto.
Qed.

Lemma segments_wellformed : segs_ok n 0 1 false (z_segments (cl_zone c)).
Proof.
  destruct (reachable_cinv n unit c Hn Hu HR) as (hs & CI).
  rewrite (view_segments n unit c hs CI). destruct (view_chain n unit c hs CI) as (q & g & H).
  apply (chain_segs_ok n c _ _ _ _ _ _ H).
Qed.

Lemma segments_coalesced : no_adjacent_free false (z_segments (cl_zone c)).
Proof.
  destruct (reachable_cinv n unit c Hn Hu HR) as (hs & CI).
  rewrite (view_segments n unit c hs CI). destruct (view_chain n unit c hs CI) as (q & g & H).
  apply (chain_segs_ok n c _ _ _ _ _ _ H).
Qed.

Lemma in_use_is_live_sum : z_in_use (cl_zone c) = unit * units_sum unit (cl_live c).
Proof.
  destruct (reachable_cinv n unit c Hn Hu HR) as (hs & CI).
  unfold z_in_use. rewrite (inv_heads _ _ (ci_inv _ _ _ _ CI)), (ci_unit _ _ _ _ CI), (ci_sum _ _ _ _ CI).
  reflexivity.
Qed.

Lemma free_space_is_complement : z_debug_free (cl_zone c) = n * unit - z_in_use (cl_zone c).
Proof.
  destruct (reachable_cinv n unit c Hn Hu HR) as (hs & CI).
  unfold z_debug_free, z_in_use. rewrite (inv_heads _ _ (ci_inv _ _ _ _ CI)), (ci_unit _ _ _ _ CI).
  destruct (view_chain n unit c hs CI) as (q & g & H).
  pose proof (sum_units_total _ _ _ _ _ _ _ _ H). nia.
Qed.

Lemma index_consistent :
  keys_gt 0 (z_idx (cl_zone c)) /\
  (forall k l, ix_find (z_idx (cl_zone c)) k = Some l -> l <> [] /\ NoDup l) /\
  (forall k t, In t (ix_get (z_idx (cl_zone c)) k) <->
     exists s, In (t, s) (z_segments (cl_zone c)) /\ c_st s = EMPTY /\ c_nbu s = k).
Proof.
  destruct (reachable_cinv n unit c Hn Hu HR) as (hs & CI).
  pose proof (ci_inv _ _ _ _ CI) as I. destruct (inv_rep _ _ I) as [R1 R2].
  split; [apply (inv_sorted _ _ I)|]. split; [exact R1|].
  intros k t. rewrite (view_segments n unit c hs CI).
  change (ix_get (z_idx (cl_zone c)) k) with (fget (ix_find (z_idx (cl_zone c))) k).
  rewrite R2. unfold FreeSeg. split.
  - intros (Ht & Hst & Hk). exists (cget (z_cells (cl_zone c)) t). split; auto.
    apply in_map_iff. exists t. auto.
  - intros (s & Hin & Hst & Hk). apply in_map_iff in Hin. destruct Hin as (t' & E & Ht). inv E. auto.
Qed.

Lemma ignored_free off :
  is_live c off = false -> In off (cl_dead c) \/ n * unit <= off -> fst (step c (Free off)) = c.
Proof.
  intros Hl Hoff. destruct (reachable_cinv n unit c Hn Hu HR) as (hs & CI).
  destruct CI as [En Eu I Hlive Hfull Hnd Hdead Hsum].
  cbn [step]. rewrite Hl. cbn [fst].
  assert (Hig : zfree (cl_zone c) off = cl_zone c).
  { apply zfree_ignored. destruct Hoff as [Hi|Hi].
    - destruct (Hdead _ Hi) as (t & Et & Hr & Hd).
      assert (Hdiv : off / z_unit (cl_zone c) = t) by (rewrite Eu, Et; apply Z.div_mul; lia).
      rewrite Hdiv. right. destruct Hd as [Hd|Hd]; auto. exfalso.
      assert (Hin : In off (map fst (cl_live c))).
      { rewrite Et. apply Hfull; auto. apply (inv_full_head _ _ I); auto. lia. }
      apply is_live_iff in Hin. congruence.
    - left. apply in_range_false. rewrite En, Eu in *.
      pose proof (Z.div_le_mono (n * unit) off unit ltac:(lia) Hi) as Hd.
      rewrite Z.div_mul in Hd by lia. lia. }
  rewrite Hig. destruct c; reflexivity.
Qed.

Lemma malloc_zero : step c (Malloc 0) = (c, None).
Proof.
  destruct (reachable_cinv n unit c Hn Hu HR) as (hs & CI).
  cbn [step]. unfold zmalloc. rewrite (ci_unit _ _ _ _ CI).
  assert (E : units_of 0 unit = 0) by (unfold units_of; apply Z.div_small; lia).
  rewrite E. cbn. destruct c; reflexivity.
Qed.
End Reach.
