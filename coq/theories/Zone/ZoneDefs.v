(* Executable model of the zone allocator (parsec/utils/zone_malloc.c):
   zone_malloc_init / zone_malloc / zone_free / zone_in_use / zone_debug.

   The segment array is modelled cell by cell (status, nb_units, nb_prev at
   every tid, including the stale cells that stay behind inside a segment).
   The free index (red-black tree of chunk lists keyed by nb_units, each
   holding a parsec_list_t of free segments) is modelled abstractly as an
   association list sorted by key — the in-order traversal of the tree — whose
   values are the lists in the order the code produces them (push_front /
   pop_front / unlink).  The tree itself is property C36.
   No proofs in this file. *)
From Coq Require Import ZArith List Bool.
Import ListNotations.
Local Open Scope Z_scope.

(* #define SEGMENT_EMPTY 1, SEGMENT_FULL 2, SEGMENT_UNDEFINED 3 *)
Definition EMPTY : Z := 1.
Definition FULL : Z := 2.
Definition UNDEF : Z := 3.

(* segment_t without its list item: status, nb_units, nb_prev *)
Record cell := mkCell { c_st : Z; c_nbu : Z; c_nbp : Z }.
(* cells never written by the allocator: status is set to UNDEFINED by init,
   the two counters are uninitialised in C (never read under the invariant) *)
Definition dcell : cell := mkCell UNDEF 0 0.
Definition with_st (c : cell) (v : Z) : cell := mkCell v (c_nbu c) (c_nbp c).
Definition with_nbu (c : cell) (v : Z) : cell := mkCell (c_st c) v (c_nbp c).
Definition with_nbp (c : cell) (v : Z) : cell := mkCell (c_st c) (c_nbu c) v.

Fixpoint lset {A} (l : list A) (i : nat) (x : A) : list A :=
  match l with
  | [] => []
  | y :: r => match i with O => x :: r | S j => y :: lset r j x end
  end.
Definition cget (cs : list cell) (t : Z) : cell := nth (Z.to_nat t) cs dcell.
Definition cset (cs : list cell) (t : Z) (c : cell) : list cell := lset cs (Z.to_nat t) c.
(* SEGMENT_AT_TID(gdata, tid) != NULL *)
Definition in_range (n t : Z) : bool := (0 <=? t) && (t <? n).

(* ---- the free index: key nb_units -> list of segment tids --------------- *)
Definition index := list (Z * list Z).

(* parsec_rbtree_find *)
Fixpoint ix_find (ix : index) (k : Z) : option (list Z) :=
  match ix with
  | [] => None
  | (k', l) :: r => if k' =? k then Some l else ix_find r k
  end.
Definition ix_get (ix : index) (k : Z) : list Z :=
  match ix_find ix k with Some l => l | None => [] end.
(* parsec_rbtree_find_or_larger: the node with the smallest key >= k *)
Fixpoint ix_find_ge (ix : index) (k : Z) : option (Z * list Z) :=
  match ix with
  | [] => None
  | (k', l) :: r => if k <=? k' then Some (k', l) else ix_find_ge r k
  end.
(* change the list held by node k (list operations on fl->list) *)
Fixpoint ix_set (ix : index) (k : Z) (l : list Z) : index :=
  match ix with
  | [] => []
  | (k', l') :: r => if k' =? k then (k', l) :: r else (k', l') :: ix_set r k l
  end.
(* parsec_rbtree_remove of node k *)
Fixpoint ix_remove (ix : index) (k : Z) : index :=
  match ix with
  | [] => []
  | (k', l') :: r => if k' =? k then r else (k', l') :: ix_remove r k
  end.
(* parsec_rbtree_insert of a node with key k holding list l *)
Fixpoint ix_insert (ix : index) (k : Z) (l : list Z) : index :=
  match ix with
  | [] => [(k, l)]
  | (k', l') :: r => if k <? k' then (k, l) :: ix else (k', l') :: ix_insert r k l
  end.
(* parsec_rbtree_update_node(tree, node kold, knew): PARSEC_ERR_EXISTS (None)
   when another node carries knew, else the node (with its list) moves to knew *)
Definition ix_update_key (ix : index) (kold knew : Z) : option index :=
  if knew =? kold then Some ix else
  match ix_find ix knew with
  | Some _ => None
  | None => Some (ix_insert (ix_remove ix kold) knew (ix_get ix kold))
  end.
(* parsec_list_nolock_push_front(&fl->list, segment) on node k *)
Definition ix_push (ix : index) (k t : Z) : index := ix_set ix k (t :: ix_get ix k).
(* parsec_list_nolock_remove: unlink one item *)
Fixpoint remove_first (t : Z) (l : list Z) : list Z :=
  match l with
  | [] => []
  | x :: r => if x =? t then r else x :: remove_first t r
  end.
Definition is_nil {A} (l : list A) : bool := match l with [] => true | _ => false end.

(* ---- the allocator ------------------------------------------------------- *)
Record zone := mkZone { z_n : Z; z_unit : Z; z_cells : list cell; z_idx : index }.

(* zone_malloc_init(base != NULL, n, unit) *)
Definition zone_init (n unit : Z) : zone :=
  mkZone n unit (cset (repeat dcell (Z.to_nat n)) 0 (mkCell EMPTY n 1)) [(n, [0])].

(* nb_units = (size + unit_size - 1) / unit_size   (no wrap: see the plugin's assumptions) *)
Definition units_of (size unit : Z) : Z := (size + unit - 1) / unit.

(* zone_malloc: the new zone and the returned offset from base (None = NULL) *)
Definition zmalloc (z : zone) (size : Z) : zone * option Z :=
  let n := z_n z in
  let req := units_of size (z_unit z) in
  if req =? 0 then (z, None) else
  match ix_find_ge (z_idx z) req with
  | None => (z, None)
  | Some (k, []) => (z, None)      (* C would dereference NULL; excluded by the invariant *)
  | Some (k, cur :: rest) =>       (* pop_front *)
    let cs0 := z_cells z in
    let cs1 := cset cs0 cur (with_st (cget cs0 cur) FULL) in
    let ix1 := ix_set (z_idx z) k rest in
    let emptied := is_nil rest in
    let cu := c_nbu (cget cs1 cur) in
    if req <? cu then
      (* split *)
      let next := cur + cu in
      let cs2 := if in_range n next
                 then cset cs1 next (with_nbp (cget cs1 next) (c_nbp (cget cs1 next) - req))
                 else cs1 in
      let new := cur + req in
      let rem := c_nbu (cget cs2 cur) - req in
      let cs3 := cset cs2 new (mkCell EMPTY rem req) in
      let ix2 :=
        if emptied then
          match ix_update_key ix1 k rem with
          | Some ix' => ix_push ix' rem new
          | None => ix_push (ix_remove ix1 k) rem new
          end
        else
          match ix_find ix1 rem with
          | Some _ => ix_push ix1 rem new
          | None => ix_push (ix_insert ix1 rem []) rem new
          end in
      let cs4 := cset cs3 cur (with_nbu (cget cs3 cur) req) in
      (mkZone n (z_unit z) cs4 ix2, Some (cur * z_unit z))
    else
      let ix2 := if emptied then ix_remove ix1 k else ix1 in
      (mkZone n (z_unit z) cs1 ix2, Some (cur * z_unit z))
  end.

(* the index part of one merge in zone_free: unlink segment t from the chunk
   list of size K; when that list becomes empty either re-key the node to the
   merged size (unless a node was already kept for reuse) or retire it *)
Definition ix_unlink (ix : index) (K t merged : Z) (reuse : bool) : index * bool :=
  match ix_find ix K with
  | None => (ix, reuse)            (* C would dereference NULL; excluded by the invariant *)
  | Some l =>
    let l' := remove_first t l in
    let ix1 := ix_set ix K l' in
    if is_nil l' then
      if reuse then (ix_remove ix1 K, true)
      else match ix_update_key ix1 K merged with
           | Some ix2 => (ix2, true)
           | None => (ix_remove ix1 K, false)
           end
    else (ix1, reuse)
  end.

(* local state of zone_free between its blocks: cells, index, whether a chunk
   list node is kept for reuse (reuse_fl != NULL), current_tid *)
Record fstate := mkF { f_cs : list cell; f_ix : index; f_reuse : bool; f_cur : Z }.

(* zone_free, block "if (NULL != prev_segment && prev_segment->status == SEGMENT_EMPTY)" *)
Definition free_prev (n : Z) (ix : index) (cs1 : list cell) (tid ptid ntid merged : Z) : fstate :=
  if in_range n ptid && (c_st (cget cs1 ptid) =? EMPTY) then
    let '(ixa, reuse) := ix_unlink ix (c_nbu (cget cs1 ptid)) ptid merged false in
    let csa := if in_range n ntid
               then cset cs1 ntid (with_nbp (cget cs1 ntid)
                                            (c_nbp (cget cs1 ntid) + c_nbu (cget cs1 ptid)))
               else cs1 in
    let csb := cset csa ptid (with_nbu (cget csa ptid)
                                       (c_nbu (cget csa ptid) + c_nbu (cget csa tid))) in
    mkF csb ixa reuse ptid
  else mkF cs1 ix false tid.

(* zone_free, block "if (NULL != next_segment && next_segment->status == SEGMENT_EMPTY)" *)
Definition free_next (n : Z) (s2 : fstate) (ntid merged : Z) : fstate :=
  let cs2 := f_cs s2 in
  let ctid := f_cur s2 in
  if in_range n ntid && (c_st (cget cs2 ntid) =? EMPTY) then
    let X := c_nbu (cget cs2 ntid) in
    let '(ixb, reuse) := ix_unlink (f_ix s2) X ntid merged (f_reuse s2) in
    let ntid2 := ntid + X in
    let csc := cset cs2 ctid (with_nbu (cget cs2 ctid) (c_nbu (cget cs2 ctid) + X)) in
    let csd := if in_range n ntid2
               then cset csc ntid2 (with_nbp (cget csc ntid2) (c_nbu (cget csc ctid)))
               else csc in
    mkF csd ixb reuse ctid
  else s2.

(* zone_free, "add the merged chunk into the RB tree" *)
Definition free_push (s3 : fstate) (merged : Z) : index :=
  let ctid := f_cur s3 in
  if f_reuse s3 then ix_push (f_ix s3) merged ctid
  else
    let M := c_nbu (cget (f_cs s3) ctid) in
    match ix_find (f_ix s3) M with
    | Some _ => ix_push (f_ix s3) M ctid
    | None => ix_push (ix_insert (f_ix s3) M []) M ctid
    end.

(* zone_free(gdata, base + off) *)
Definition zfree (z : zone) (off : Z) : zone :=
  let n := z_n z in
  let cs0 := z_cells z in
  let tid := off / z_unit z in
  if negb (in_range n tid) then z else             (* "address to free not allocated" *)
  if c_st (cget cs0 tid) =? EMPTY then z else      (* "double free" *)
  let cs1 := cset cs0 tid (with_st (cget cs0 tid) EMPTY) in
  let ptid := tid - c_nbp (cget cs1 tid) in
  let ntid := tid + c_nbu (cget cs1 tid) in
  let pfree := in_range n ptid && (c_st (cget cs1 ptid) =? EMPTY) in
  let nfree := in_range n ntid && (c_st (cget cs1 ntid) =? EMPTY) in
  let merged := c_nbu (cget cs1 tid)
                + (if pfree then c_nbu (cget cs1 ptid) else 0)
                + (if nfree then c_nbu (cget cs1 ntid) else 0) in
  let s2 := free_prev n (z_idx z) cs1 tid ptid ntid merged in
  let s3 := free_next n s2 ntid merged in
  mkZone n (z_unit z) (f_cs s3) (free_push s3 merged).

(* the loop of zone_in_use / zone_debug: tid = 0; tid in range; tid += nb_units.
   Fuel max_segment + 1 is enough whenever every step advances (nb_units >= 1). *)
Fixpoint walk (fuel : nat) (n : Z) (cs : list cell) (t : Z) : list Z :=
  match fuel with
  | O => []
  | S f => if in_range n t then t :: walk f n cs (t + c_nbu (cget cs t)) else []
  end.
Definition z_heads (z : zone) : list Z := walk (S (Z.to_nat (z_n z))) (z_n z) (z_cells z) 0.
Definition z_segments (z : zone) : list (Z * cell) :=
  map (fun t => (t, cget (z_cells z) t)) (z_heads z).
Definition sum_units (st : Z) (cs : list cell) (hs : list Z) : Z :=
  fold_right (fun t acc => (if c_st (cget cs t) =? st then c_nbu (cget cs t) else 0) + acc) 0 hs.
(* zone_in_use *)
Definition z_in_use (z : zone) : Z := z_unit z * sum_units FULL (z_cells z) (z_heads z).
(* return value of zone_debug *)
Definition z_debug_free (z : zone) : Z := z_unit z * sum_units EMPTY (z_cells z) (z_heads z).

(* ---- a client of the allocator ------------------------------------------
   It remembers what it holds: live = (offset, requested size) of every
   allocation not yet freed, oldest first; dead = offsets it has freed. *)
Inductive op := Malloc (size : Z) | Free (off : Z).
Record client := mkClient { cl_zone : zone; cl_live : list (Z * Z); cl_dead : list Z }.
Definition cl_init (n unit : Z) : client := mkClient (zone_init n unit) [] [].
Definition is_live (c : client) (off : Z) : bool := existsb (fun a => fst a =? off) (cl_live c).

Definition step (c : client) (o : op) : client * option Z :=
  match o with
  | Malloc size =>
      let (z', r) := zmalloc (cl_zone c) size in
      match r with
      | Some off => (mkClient z' (cl_live c ++ [(off, size)]) (cl_dead c), r)
      | None => (mkClient z' (cl_live c) (cl_dead c), None)
      end
  | Free off =>
      let z' := zfree (cl_zone c) off in
      if is_live c off
      then (mkClient z' (filter (fun a => negb (fst a =? off)) (cl_live c)) (off :: cl_dead c), None)
      else (mkClient z' (cl_live c) (cl_dead c), None)
  end.

Fixpoint run (c : client) (ops : list op) : client :=
  match ops with
  | [] => c
  | o :: r => run (fst (step c o)) r
  end.

(* what a client may do: request any size; free what it holds, free again
   something it freed before (stale pointer: the allocator must ignore it), or
   free an address beyond the zone (ignored as well) *)
Definition op_ok (c : client) (o : op) : Prop :=
  match o with
  | Malloc size => 0 <= size
  | Free off => In off (map fst (cl_live c)) \/ In off (cl_dead c)
                \/ z_n (cl_zone c) * z_unit (cl_zone c) <= off
  end.
Fixpoint ops_ok (c : client) (ops : list op) : Prop :=
  match ops with
  | [] => True
  | o :: r => op_ok c o /\ ops_ok (fst (step c o)) r
  end.
(* the states a client can reach on a zone of n >= 1 units of unit >= 1 bytes *)
Definition reachable (n unit : Z) (c : client) : Prop :=
  exists ops, ops_ok (cl_init n unit) ops /\ c = run (cl_init n unit) ops.

(* ---- vocabulary of the statements proved about the model (no proofs here) -------- *)
(* the index is sorted by strictly increasing keys, all above b *)
Fixpoint keys_gt (b : Z) (ix : index) : Prop :=
  match ix with
  | [] => True
  | (k, _) :: r => b < k /\ keys_gt k r
  end.


(* number of units reserved for the live allocations *)
Definition units_sum (unit : Z) (live : list (Z * Z)) : Z :=
  fold_right (fun a acc => units_of (snd a) unit + acc) 0 live.

(* unit u of the zone belongs to a live allocation *)
Definition busy (c : client) (u : Z) : Prop :=
  exists a, In a (cl_live c) /\
    fst a / z_unit (cl_zone c) <= u < fst a / z_unit (cl_zone c) + units_of (snd a) (z_unit (cl_zone c)).
(* k consecutive units starting at a, inside the zone, none of them busy *)
Definition free_window (c : client) (a k : Z) : Prop :=
  0 <= a /\ a + k <= z_n (cl_zone c) /\ forall u, a <= u < a + k -> ~ busy c u.
(* a maximal run of free units *)
Definition max_free_run (c : client) (a k : Z) : Prop :=
  1 <= k /\ free_window c a k /\ (a = 0 \/ busy c (a - 1)) /\
  (a + k = z_n (cl_zone c) \/ busy c (a + k)).

(* the segment walk (what zone_debug iterates over), checked as a list *)
Fixpoint segs_ok (n pos prev : Z) (prev_free : bool) (segs : list (Z * cell)) : Prop :=
  match segs with
  | [] => pos = n
  | (t, c) :: r =>
      t = pos /\ 1 <= c_nbu c /\ c_nbp c = prev /\ (c_st c = EMPTY \/ c_st c = FULL) /\
      (prev_free = true -> c_st c = FULL) /\
      segs_ok n (pos + c_nbu c) (c_nbu c) (c_st c =? EMPTY) r
  end.
Fixpoint no_adjacent_free (prev_free : bool) (segs : list (Z * cell)) : Prop :=
  match segs with
  | [] => True
  | (_, c) :: r => ~ (prev_free = true /\ c_st c = EMPTY) /\ no_adjacent_free (c_st c =? EMPTY) r
  end.

