(* Executable atomic-step model of the read-write lock that this build compiles:
     parsec/class/parsec_rwlock.c, branch PARSEC_RWLOCK_IMPL == PARSEC_RWLOCK_IMPL_TICKET
   (phase-fair ticket lock: words rin / rout / win / wout, RINC = 0x100,
   WBITS = 3, PRES = 2, PHID = 1).  NO proofs in this file.

   The four words are int32_t in C; they are only added to, masked and compared
   for equality, so the model keeps the bit pattern as an unsigned residue in
   [0, 2^32) and writes the wrap-around ([wrap]) at every addition.

   A thread runs a list of cycles: KR = rdlock ; <critical section> ; rdunlock,
   KW = wrlock ; <critical section> ; wrunlock.  One [step] = the code between two
   scheduling points of harness/h_rwlock.c: a scheduling point sits before every
   parsec_atomic_* read-modify-write, inside every wait-loop iteration (one
   volatile read of the awaited word per step: a stutter step while the
   condition does not hold), between the fetch_and of rin and the plain update of
   wout in wrunlock, and inside the critical section (between the "enter" and
   "exit" records of the log). *)
From Coq Require Import ZArith List Bool.
From PV Require Import Base.ListX.
Import ListNotations.
Local Open Scope Z_scope.

Notation M32 := 4294967296 (only parsing).
Definition wrap (x : Z) : Z := x mod M32.
Definition RINC : Z := 256.         (* #define RINC 0x100 *)
Definition WBITS : Z := 3.          (* #define WBITS 0x3  *)
Definition PRES : Z := 2.           (* #define PRES  0x2  *)
Definition PHID : Z := 1.           (* #define PHID  0x1  *)
Definition RMASK : Z := 4294967040. (* 0xFFFFFF00 *)

Inductive kind := KR | KW.

Inductive pc :=
| PStart                (* coroutine not yet resumed *)
| PR0                   (* rdlock: before  w = fetch_add(&L->rin, RINC) & WBITS *)
| PRw (w : Z)           (* rdlock: in      while( w == (L->rin & WBITS) ) *)
| PRcs                  (* reader inside the critical section ("enter" recorded) *)
| PRx                   (* "exit" recorded; rdunlock: before fetch_add(&L->rout, RINC) *)
| PW0                   (* wrlock: before  ticket = fetch_inc(&L->win) *)
| PWw (tk : Z)          (* wrlock: in      while( L->wout != ticket ) *)
| PW1 (tk : Z)          (* wrlock: before  ticket = fetch_add(&L->rin, PRES | (ticket & PHID)) *)
| PWr (tk : Z)          (* wrlock: in      while( L->rout != ticket ) *)
| PWcs                  (* writer inside the critical section *)
| PWx                   (* "exit" recorded; wrunlock: before fetch_and(&L->rin, 0xFFFFFF00) *)
| PWy                   (* wrunlock: before L->wout = L->wout + 1 *)
| PDone.

Record thr := { t_pc : pc; t_rest : list kind }.

Inductive ev := Enter (t : nat) (k : kind) | Exit (t : nat) (k : kind).

Record cfg := { rin : Z; rout : Z; win : Z; wout : Z;
                thrs : list thr;
                log : list ev   (* newest first *) }.

(* the thread reaches the first scheduling point of its next cycle, or returns *)
Definition begin (p : list kind) : thr :=
  match p with
  | [] => {| t_pc := PDone; t_rest := [] |}
  | KR :: r => {| t_pc := PR0; t_rest := r |}
  | KW :: r => {| t_pc := PW0; t_rest := r |}
  end.

Definition at_pc (p : pc) (r : list kind) : thr := {| t_pc := p; t_rest := r |}.

Definition step (c : cfg) (t : nat) : cfg :=
  match nth_error (thrs c) t with
  | None => c
  | Some th =>
    let r := t_rest th in
    let put := fun q => upd (thrs c) t q in
    match t_pc th with
    | PStart =>
        {| rin := rin c; rout := rout c; win := win c; wout := wout c;
           thrs := put (begin r); log := log c |}
    | PR0 =>
        (* w = parsec_atomic_fetch_add_int32(&L->rin, RINC) & WBITS;
           if( w != 0 ) while( w == (L->rin & WBITS) ) ...  (first evaluation) *)
        let w := Z.land (rin c) WBITS in
        let rin' := wrap (rin c + RINC) in
        if (w =? 0) || negb (w =? Z.land rin' WBITS)
        then {| rin := rin'; rout := rout c; win := win c; wout := wout c;
                thrs := put (at_pc PRcs r); log := Enter t KR :: log c |}
        else {| rin := rin'; rout := rout c; win := win c; wout := wout c;
                thrs := put (at_pc (PRw w) r); log := log c |}
    | PRw w =>
        (* one more evaluation of  w == (L->rin & WBITS) *)
        if w =? Z.land (rin c) WBITS then c
        else {| rin := rin c; rout := rout c; win := win c; wout := wout c;
                thrs := put (at_pc PRcs r); log := Enter t KR :: log c |}
    | PRcs =>
        {| rin := rin c; rout := rout c; win := win c; wout := wout c;
           thrs := put (at_pc PRx r); log := Exit t KR :: log c |}
    | PRx =>
        (* parsec_atomic_fetch_add_int32(&L->rout, RINC) *)
        {| rin := rin c; rout := wrap (rout c + RINC); win := win c; wout := wout c;
           thrs := put (begin r); log := log c |}
    | PW0 =>
        (* ticket = parsec_atomic_fetch_inc_int32(&L->win); while( L->wout != ticket ) ... *)
        let tk := win c in
        {| rin := rin c; rout := rout c; win := wrap (win c + 1); wout := wout c;
           thrs := put (at_pc (if wout c =? tk then PW1 tk else PWw tk) r); log := log c |}
    | PWw tk =>
        if wout c =? tk
        then {| rin := rin c; rout := rout c; win := win c; wout := wout c;
                thrs := put (at_pc (PW1 tk) r); log := log c |}
        else c
    | PW1 tk =>
        (* w = PRES | (ticket & PHID); ticket = parsec_atomic_fetch_add_int32(&L->rin, w);
           while( L->rout != ticket ) ... *)
        let w := Z.lor PRES (Z.land tk PHID) in
        let old := rin c in
        if rout c =? old
        then {| rin := wrap (rin c + w); rout := rout c; win := win c; wout := wout c;
                thrs := put (at_pc PWcs r); log := Enter t KW :: log c |}
        else {| rin := wrap (rin c + w); rout := rout c; win := win c; wout := wout c;
                thrs := put (at_pc (PWr old) r); log := log c |}
    | PWr tk =>
        if rout c =? tk
        then {| rin := rin c; rout := rout c; win := win c; wout := wout c;
                thrs := put (at_pc PWcs r); log := Enter t KW :: log c |}
        else c
    | PWcs =>
        {| rin := rin c; rout := rout c; win := win c; wout := wout c;
           thrs := put (at_pc PWx r); log := Exit t KW :: log c |}
    | PWx =>
        (* parsec_atomic_fetch_and_int32(&L->rin, 0xFFFFFF00) *)
        {| rin := Z.land (rin c) RMASK; rout := rout c; win := win c; wout := wout c;
           thrs := put (at_pc PWy r); log := log c |}
    | PWy =>
        (* L->wout = L->wout + 1 *)
        {| rin := rin c; rout := rout c; win := win c; wout := wrap (wout c + 1);
           thrs := put (begin r); log := log c |}
    | PDone => c
    end
  end.

Definition run (c : cfg) (sched : list nat) : cfg := fold_left step sched c.

(* a quiescent lock that has already served [a] read cycles and [b] write cycles
   (parsec_atomic_rwlock_init gives a = b = 0), and threads about to run [progs] *)
Definition init_at (a b : Z) (progs : list (list kind)) : cfg :=
  {| rin := wrap (RINC * a); rout := wrap (RINC * a); win := wrap b; wout := wrap b;
     thrs := map (at_pc PStart) progs; log := [] |}.
Definition init (progs : list (list kind)) : cfg := init_at 0 0 progs.

(* ---- observations ------------------------------------------------------- *)
Definition is_done (th : thr) : bool := match t_pc th with PDone => true | _ => false end.
Definition all_done (c : cfg) : bool := forallb is_done (thrs c).

(* the thread can take a step that changes the state (it is neither finished
   nor spinning on a condition that does not hold) *)
Definition enabled (c : cfg) (th : thr) : bool :=
  match t_pc th with
  | PDone => false
  | PRw w => negb (w =? Z.land (rin c) WBITS)
  | PWw tk => wout c =? tk
  | PWr tk => rout c =? tk
  | _ => true
  end.
Definition is_wait (th : thr) : bool :=
  match t_pc th with PRw _ | PWw _ | PWr _ => true | _ => false end.
Definition enabled_at (c : cfg) (t : nat) : bool :=
  match nth_error (thrs c) t with Some th => enabled c th | None => false end.

(* occupancy check of a log (newest first): Some (readers inside, writers inside)
   when no writer ever entered while somebody was inside and no reader entered
   while a writer was inside *)
Fixpoint occ (l : list ev) : option (Z * Z) :=
  match l with
  | [] => Some (0, 0)
  | e :: older =>
    match occ older with
    | None => None
    | Some (nr, nw) =>
      match e with
      | Enter _ KR => if nw =? 0 then Some (nr + 1, nw) else None
      | Enter _ KW => if (nw =? 0) && (nr =? 0) then Some (nr, nw + 1) else None
      | Exit _ KR => Some (nr - 1, nw)
      | Exit _ KW => Some (nr, nw - 1)
      end
    end
  end.
