(* Arithmetic (mod 2^32, bit masks) and list-counting lemmas used by the
   read-write lock proofs. *)
From PV Require Import Base.Tac Base.ListX RWLock.RWLockDefs.
Local Open Scope Z_scope.

Ltac Zify.zify_post_hook ::= Z.div_mod_to_equations.

(* ---- bit masks as arithmetic ------------------------------------------- *)
Lemma land_wbits x : 0 <= x -> Z.land x WBITS = x mod 4.
Proof.
  intros Hx. unfold WBITS. change 3 with (Z.ones 2). rewrite Z.land_ones by lia. reflexivity.
Qed.

Lemma lor_pres tk : 0 <= tk -> Z.lor PRES (Z.land tk PHID) = 2 + tk mod 2.
Proof.
  intros Hx. unfold PRES, PHID. change 1 with (Z.ones 1). rewrite Z.land_ones by lia.
  change (2 ^ 1) with 2.
  assert (H : tk mod 2 = 0 \/ tk mod 2 = 1) by lia.
  destruct H as [H|H]; rewrite H; reflexivity.
Qed.

Lemma testbit_above x n : 0 <= x < 2 ^ n -> forall m, n <= m -> Z.testbit x m = false.
Proof.
  intros Hx m Hm. destruct (Z.eq_dec x 0) as [->|Hne]; [apply Z.bits_0|].
  apply Z.bits_above_log2; [lia|].
  assert (Z.log2 x < n); [|lia].
  apply Z.log2_lt_pow2; lia.
Qed.

Lemma land_rmask x : 0 <= x < M32 -> Z.land x RMASK = x - x mod 256.
Proof.
  intros Hx.
  assert (Hr : x - x mod 256 = Z.shiftl (Z.shiftr x 8) 8).
  { rewrite Z.shiftr_div_pow2, Z.shiftl_mul_pow2 by lia. change (2 ^ 8) with 256. lia. }
  rewrite Hr. apply Z.bits_inj'. intros n Hn.
  rewrite Z.land_spec.
  change RMASK with (Z.shiftl (Z.ones 24) 8).
  destruct (Z.lt_ge_cases n 8) as [Hlt|Hge].
  - rewrite !Z.shiftl_spec_low by lia. apply andb_false_r.
  - rewrite !Z.shiftl_spec_high by lia. rewrite Z.shiftr_spec by lia.
    replace (n - 8 + 8) with n by lia.
    destruct (Z.lt_ge_cases n 32) as [Hlt|Hge2].
    + rewrite Z.ones_spec_low by lia. apply andb_true_r.
    + rewrite Z.ones_spec_high by lia. rewrite andb_false_r.
      symmetry. apply (testbit_above x 32); [exact Hx|lia].
Qed.

(* ---- wrap-around counters ----------------------------------------------- *)
Lemma wrap_range x : 0 <= wrap x < M32.
Proof. unfold wrap. lia. Qed.

Lemma diff_zero_iff a b : 0 <= a < M32 -> 0 <= b < M32 -> ((a - b) mod M32 = 0 <-> a = b).
Proof. intros Ha Hb. lia. Qed.

Lemma diff_inc_l a b d : (a - b) mod M32 = d -> d + 1 < M32 -> (wrap (a + 1) - b) mod M32 = d + 1.
Proof. unfold wrap. intros H Hd. lia. Qed.

Lemma diff_inc_r a b d : (a - b) mod M32 = d -> 1 <= d -> (a - wrap (b + 1)) mod M32 = d - 1.
Proof. unfold wrap. intros H Hd. lia. Qed.

Lemma diff_rinc_l a b d : (a - b) mod M32 = d -> d + 256 < M32 -> (wrap (a + 256) - b) mod M32 = d + 256.
Proof. unfold wrap. intros H Hd. lia. Qed.

Lemma diff_rinc_r a b d : (a - b) mod M32 = d -> 256 <= d -> (a - wrap (b + 256)) mod M32 = d - 256.
Proof. unfold wrap. intros H Hd. lia. Qed.

Lemma wrap_rinc_low x : wrap (x + 256) mod 256 = x mod 256.
Proof. unfold wrap. lia. Qed.

Lemma wrap_inc_parity x : wrap (x + 1) mod 2 = (x + 1) mod 2.
Proof. unfold wrap. lia. Qed.

(* ---- counting ----------------------------------------------------------- *)
Section Cnt.
Context {A : Type}.
Implicit Types (f g : A -> bool) (l : list A).

Lemma cnt_pos_ex f l : 0 < cnt f l -> exists t p, nth_error l t = Some p /\ f p = true.
Proof.
  induction l as [|x l IH]; intros H.
  - rewrite cnt_nil in H. lia.
  - destruct (f x) eqn:E.
    + exists 0%nat, x. auto.
    + rewrite cnt_cons, E in H. destruct IH as (t & p & Ht & Hp); [lia|].
      exists (S t), p. auto.
Qed.

Lemma cnt_ge2_ex f l : 2 <= cnt f l ->
  exists t u p q, t <> u /\ nth_error l t = Some p /\ f p = true /\ nth_error l u = Some q /\ f q = true.
Proof.
  induction l as [|x l IH]; intros H.
  - rewrite cnt_nil in H. lia.
  - rewrite cnt_cons in H. destruct (f x) eqn:E.
    + destruct (cnt_pos_ex f l) as (u & q & Hu & Hq); [lia|].
      exists 0%nat, (S u), x, q. repeat split; auto.
    + destruct IH as (t & u & p & q & Hne & Ht & Hp & Hu & Hq); [lia|].
      exists (S t), (S u), p, q. repeat split; auto.
Qed.

Lemma cnt_le_1 f l :
  (forall t u p q, nth_error l t = Some p -> f p = true -> nth_error l u = Some q -> f q = true -> t = u) ->
  cnt f l <= 1.
Proof.
  intros H. destruct (Z_le_gt_dec (cnt f l) 1) as [Hle|Hgt]; [exact Hle|].
  destruct (cnt_ge2_ex f l) as (t & u & p & q & Hne & Ht & Hp & Hu & Hq); [lia|].
  exfalso. apply Hne. eapply H; eauto.
Qed.

Lemma cnt_ext_in f g l :
  (forall t p, nth_error l t = Some p -> f p = g p) -> cnt f l = cnt g l.
Proof.
  induction l as [|x l IH]; intros H; [reflexivity|].
  rewrite !cnt_cons, (H 0%nat x eq_refl), IH; [reflexivity|].
  intros t p Hp. apply (H (S t) p Hp).
Qed.

Lemma cnt_mono f g l : (forall p, f p = true -> g p = true) -> cnt f l <= cnt g l.
Proof.
  intros H. induction l as [|x l IH]; [rewrite !cnt_nil; lia|].
  rewrite !cnt_cons. specialize (H x). destruct (f x), (g x); try lia.
Qed.

Lemma cnt_zero_of_all f l :
  (forall t p, nth_error l t = Some p -> f p = false) -> cnt f l = 0.
Proof.
  intros H. destruct (Z.eq_dec (cnt f l) 0) as [E|E]; [exact E|].
  pose proof (cnt_nonneg f l).
  destruct (cnt_pos_ex f l) as (t & p & Ht & Hp); [lia|].
  rewrite (H t p Ht) in Hp. discriminate.
Qed.

Lemma nth_upd_cases l t (p q : A) u x :
  nth_error l t = Some p -> nth_error (upd l t q) u = Some x ->
  (u = t /\ x = q) \/ (u <> t /\ nth_error l u = Some x).
Proof.
  intros Ht Hu. destruct (Nat.eq_dec u t) as [->|Hne].
  - rewrite (nth_upd_same l t p q Ht) in Hu. inversion Hu. auto.
  - rewrite (nth_upd_other l t u p q Ht Hne) in Hu. auto.
Qed.

(* sums over the thread list *)
Fixpoint sumz (f : A -> Z) (l : list A) : Z :=
  match l with [] => 0 | x :: r => f x + sumz f r end.
Lemma sumz_app h a b : sumz h (a ++ b) = sumz h a + sumz h b.
Proof. induction a as [|x a IH]; cbn [app sumz]; lia. Qed.
Lemma sumz_upd h l t p q : nth_error l t = Some p -> sumz h (upd l t q) = sumz h l - h p + h q.
Proof.
  intros H. unfold upd. rewrite (split_nth l t p H) at 3.
  rewrite !sumz_app. cbn [sumz]. lia.
Qed.
Lemma sumz_nonneg h l : (forall x, 0 <= h x) -> 0 <= sumz h l.
Proof. intros H. induction l as [|x l IH]; cbn [sumz]; [lia|]. specialize (H x). lia. Qed.
Lemma sumz_zero_all h l : (forall x, 0 <= h x) -> sumz h l = 0 ->
  forall t p, nth_error l t = Some p -> h p = 0.
Proof.
  intros Hn. induction l as [|x l IH]; intros H t p Hp; [destruct t; discriminate|].
  cbn [sumz] in H. pose proof (Hn x). pose proof (sumz_nonneg h l Hn).
  destruct t as [|t]; cbn in Hp.
  - inversion Hp; subst. lia.
  - apply (IH ltac:(lia) t p Hp).
Qed.
End Cnt.
Lemma sumz_map {A B} (h : A -> Z) (g : B -> A) (l : list B) : sumz h (map g l) = sumz (fun x => h (g x)) l.
Proof. induction l as [|x l IH]; cbn [map sumz]; [reflexivity|]. rewrite IH. reflexivity. Qed.
