(* Progress of the read-write lock model: no reachable state is stuck, an
   enabled thread stays enabled until it moves, and every fair schedule
   completes every thread's program. *)
From PV Require Import Base.Tac Base.ListX RWLock.RWLockDefs RWLock.RWLockBase RWLock.RWLockInv.
Local Open Scope Z_scope.

Ltac Zify.zify_post_hook ::= Z.div_mod_to_equations.

(* ---- stutter steps -------------------------------------------------------- *)
Lemma step_disabled c t th : nth_error (thrs c) t = Some th -> enabled c th = false -> step c t = c.
Proof.
  intros Hn He. unfold step. rewrite Hn. unfold enabled in He.
  destruct (t_pc th); try discriminate; try reflexivity.
  - destruct (w =? Z.land (rin c) WBITS); [reflexivity|discriminate].
  - rewrite He. reflexivity.
  - rewrite He. reflexivity.
Qed.

Lemma step_other c u t : u <> t -> nth_error (thrs (step c u)) t = nth_error (thrs c) t.
Proof.
  intros Hne. unfold step. destruct (nth_error (thrs c) u) as [uh|] eqn:Hu; [|reflexivity].
  destruct (t_pc uh); repeat match goal with |- context[if ?b then _ else _] => destruct b end;
    cbn [thrs]; try reflexivity; apply (nth_upd_other _ _ _ _ _ Hu); auto.
Qed.

Lemma step_len c t : length (thrs (step c t)) = length (thrs c).
Proof.
  unfold step. destruct (nth_error (thrs c) t) as [th|] eqn:Hn; [|reflexivity].
  destruct (t_pc th); repeat match goal with |- context[if ?b then _ else _] => destruct b end;
    cbn [thrs]; try reflexivity; apply (len_upd _ _ _ _ Hn).
Qed.

Lemma run_len s : forall c, length (thrs (run c s)) = length (thrs c).
Proof. induction s as [|t s IH]; intros c; [reflexivity|]. unfold run in *. cbn [fold_left]. rewrite (IH (step c t)). apply step_len. Qed.

(* ---- deadlock freedom ------------------------------------------------------ *)
Definition is_run (th : thr) : bool :=
  match t_pc th with PDone | PRw _ | PWw _ | PWr _ => false | _ => true end.

Lemma forallb_false_ex {A} (f : A -> bool) l : forallb f l = false ->
  exists t x, nth_error l t = Some x /\ f x = false.
Proof.
  induction l as [|x l IH]; cbn [forallb]; intros H; [discriminate|].
  destruct (f x) eqn:E.
  - destruct (IH H) as (t & y & Ht & Hy). exists (S t), y. auto.
  - exists 0%nat, x. auto.
Qed.

Theorem deadlock_free c : Inv c ->
  all_done c = true \/ exists t th, nth_error (thrs c) t = Some th /\ enabled c th = true.
Proof.
  intros [Hlen HT HR]. destruct (all_done c) eqn:Hall; [left; reflexivity|right].
  destruct (forallb_false_ex _ _ Hall) as (t0 & th0 & Hn0 & Hd0).
  pose proof (cnt_nonneg is_run (thrs c)) as Hrn.
  destruct (Z.eq_dec (cnt is_run (thrs c)) 0) as [Hr0|Hrpos].
  2:{ destruct (cnt_pos_ex is_run (thrs c) ltac:(lia)) as (t & th & Hn & Hr).
      exists t, th. split; [exact Hn|]. unfold is_run in Hr. unfold enabled.
      destruct (t_pc th); try discriminate; reflexivity. }
  pose proof (cnt_zero_all _ _ Hr0) as Hnorun.
  pose proof (ti_rng c HT) as [Hwin Hwout]. pose proof (ri_rng c HR) as [Hrin Hrout].
  pose proof (cnt_nonneg is_A (thrs c)) as HAn.
  destruct (Z.eq_dec (cnt is_A (thrs c)) 0) as [HA0|HApos].
  - (* no writer anywhere: the non-finished thread is a waiting reader and the bits are clear *)
    pose proof (cnt_zero_all _ _ HA0 t0 th0 Hn0) as HA. pose proof (Hnorun t0 th0 Hn0) as Hr.
    exists t0, th0. split; [exact Hn0|].
    unfold is_A in HA. unfold is_run in Hr. unfold is_done in Hd0. unfold enabled.
    destruct (t_pc th0) eqn:Hpc; try discriminate.
    pose proof (cnt_mono is_wset is_A (thrs c) (fun p H => hold_A p (wset_hold p H))) as Hm.
    pose proof (cnt_nonneg is_wset (thrs c)).
    destruct (low_bits c HR) as [(_ & _ & E4)|(Hpos & _)]; [|lia].
    destruct (ri_rw c HR t0 th0 w Hn0 Hpc) as [H23 _].
    rewrite land_wbits by lia. rewrite E4. destruct (w =? 0) eqn:E; [lia|reflexivity].
  - (* some writer holds a ticket: look at the one being served *)
    destruct (ti_sur c HT 0 ltac:(lia)) as (t & th & Hn & HA & Ho).
    pose proof (Hnorun t th Hn) as Hr.
    unfold is_A in HA. unfold is_run in Hr. unfold off in Ho.
    destruct (t_pc th) eqn:Hpc; try discriminate.
    + (* waiting for wout, and wout is its ticket *)
      exists t, th. split; [exact Hn|]. unfold enabled. rewrite Hpc.
      pose proof (ti_ww c HT t th tk Hn Hpc). lia.
    + (* waiting for the readers of the previous phase *)
      destruct (ri_wr c HR t th tk Hn Hpc) as [Htk Hd].
      pose proof (cnt_nonneg (early (wout c)) (thrs c)) as Hen.
      destruct (Z.eq_dec (cnt (early (wout c)) (thrs c)) 0) as [He0|Hepos].
      * exists t, th. split; [exact Hn|]. unfold enabled. rewrite Hpc. rewrite He0 in Hd. lia.
      * destruct (cnt_pos_ex (early (wout c)) (thrs c)) as (u & uh & Hu & He); [lia|].
        exists u, uh. split; [exact Hu|]. pose proof (Hnorun u uh Hu) as Hru.
        unfold early in He. unfold is_run in Hru. unfold enabled.
        destruct (t_pc uh) eqn:Hpcu; try discriminate.
        assert (Hpos : 0 < cnt is_wset (thrs c)).
        { apply (cnt_pos_of_nth _ _ t th Hn). unfold is_wset. rewrite Hpc. reflexivity. }
        destruct (low_bits c HR) as [(E & _)|(_ & _ & E4)]; [lia|].
        rewrite land_wbits by lia. rewrite E4. exact He.
Qed.

(* ---- an enabled thread stays enabled while the others move ------------------ *)
(* which words a step can change, and how *)
Lemma step_words c u : Inv c ->
  (rin (step c u) mod 4 = rin c mod 4
   \/ (exists uh tk, nth_error (thrs c) u = Some uh /\ t_pc uh = PW1 tk /\
                     rin (step c u) mod 4 = cur (wout c))
   \/ (exists uh, nth_error (thrs c) u = Some uh /\ t_pc uh = PWx /\ rin (step c u) mod 4 = 0))
  /\ (wout (step c u) = wout c \/ exists uh, nth_error (thrs c) u = Some uh /\ t_pc uh = PWy)
  /\ (rout (step c u) = rout c \/ exists uh, nth_error (thrs c) u = Some uh /\ t_pc uh = PRx).
Proof.
  intros [Hlen HT HR]. pose proof (ri_rng c HR) as [Hrin Hrout].
  unfold step. destruct (nth_error (thrs c) u) as [uh|] eqn:Hu; [|auto].
  destruct (t_pc uh) eqn:Hpc;
    repeat match goal with |- context[if ?b then _ else _] => destruct b end;
    cbn [rin rout wout]; auto.
  - split; [left; unfold wrap, RINC; lia|auto].
  - split; [left; unfold wrap, RINC; lia|auto].
  - split; [auto|split; [auto|right; eauto]].
  - split; [|auto]. right. left. exists uh, tk. repeat split; auto.
    pose proof (ti_rng c HT) as [_ Hwout]. pose proof (ti_w1 c HT u uh tk Hu Hpc). subst tk.
    rewrite lor_pres by lia. fold (cur (wout c)). pose proof (cur_23 (wout c)).
    assert (Hh : is_hold uh = true) by (unfold is_hold; rewrite Hpc; reflexivity).
    assert (Hw0 : cnt is_wset (thrs c) = 0).
    { rewrite (cnt_only_holder c u uh is_wset HT Hu Hh wset_hold). unfold is_wset. rewrite Hpc. reflexivity. }
    destruct (low_bits c HR) as [(_ & Hlo & _)|(Hpos & _)]; [|lia]. unfold wrap. lia.
  - split; [|auto]. right. left. exists uh, tk. repeat split; auto.
    pose proof (ti_rng c HT) as [_ Hwout]. pose proof (ti_w1 c HT u uh tk Hu Hpc). subst tk.
    rewrite lor_pres by lia. fold (cur (wout c)). pose proof (cur_23 (wout c)).
    assert (Hh : is_hold uh = true) by (unfold is_hold; rewrite Hpc; reflexivity).
    assert (Hw0 : cnt is_wset (thrs c) = 0).
    { rewrite (cnt_only_holder c u uh is_wset HT Hu Hh wset_hold). unfold is_wset. rewrite Hpc. reflexivity. }
    destruct (low_bits c HR) as [(_ & Hlo & _)|(Hpos & _)]; [|lia]. unfold wrap. lia.
  - split; [|auto]. right. right. exists uh. repeat split; auto. rewrite land_rmask by lia. lia.
  - split; [auto|split; [right; eauto|auto]].
Qed.

Theorem enabled_stable c t u th : Inv c ->
  nth_error (thrs c) t = Some th -> enabled c th = true -> u <> t ->
  nth_error (thrs (step c u)) t = Some th /\ enabled (step c u) th = true.
Proof.
  intros HI Hn He Hne. split; [rewrite (step_other c u t Hne); exact Hn|].
  pose proof (step_inv c u HI) as HI'.
  destruct (step_words c u HI) as (Hri & Hwo & Hro).
  destruct HI as [Hlen HT HR]. destruct HI' as [_ HT' HR'].
  pose proof (ri_rng c HR) as [Hrin Hrout]. pose proof (ri_rng _ HR') as [Hrin' Hrout'].
  unfold enabled in *. destruct (t_pc th) eqn:Hpc; try reflexivity; try discriminate.
  - (* waiting reader whose bits differ from rin's *)
    rewrite land_wbits in * by lia.
    destruct (ri_rw c HR t th w Hn Hpc) as [H23 Hw].
    destruct Hri as [E|[(uh & tk & Hu & Hpcu & E)|(uh & Hu & Hpcu & E)]]; rewrite E.
    + exact He.
    + assert (Hh : is_hold uh = true) by (unfold is_hold; rewrite Hpcu; reflexivity).
      assert (Hw0 : cnt is_wset (thrs c) = 0).
      { rewrite (cnt_only_holder c u uh is_wset HT Hu Hh wset_hold). unfold is_wset. rewrite Hpcu. reflexivity. }
      assert (Hy0 : cnt is_wy (thrs c) = 0).
      { rewrite (cnt_only_holder c u uh is_wy HT Hu Hh wy_hold). unfold is_wy. rewrite Hpcu. reflexivity. }
      specialize (Hw Hw0). rewrite Hy0 in Hw. change (0 <? 0) with false in Hw. cbv iota in Hw.
      pose proof (cur_next (wout c)) as [Hx _]. subst w.
      destruct (cur (wout c + 1) =? cur (wout c)) eqn:E2; [lia|reflexivity].
    + destruct (w =? 0) eqn:E2; [lia|reflexivity].
  - (* writer whose ticket is being served *)
    destruct Hwo as [E|(uh & Hu & Hpcu)]; [rewrite E; exact He|].
    exfalso. apply Hne. pose proof (ti_rng c HT) as [_ Hwout].
    assert (wout c = tk) by lia. subst tk.
    apply (ti_inj c HT u t uh th Hu Hn).
    + unfold is_A. rewrite Hpcu. reflexivity.
    + unfold is_A. rewrite Hpc. reflexivity.
    + unfold off. rewrite Hpcu, Hpc, Z.sub_diag. reflexivity.
  - (* writer whose readers have all left *)
    destruct Hro as [E|(uh & Hu & Hpcu)]; [rewrite E; exact He|].
    exfalso. destruct (ri_wr c HR t th tk Hn Hpc) as [Htk Hd].
    assert (rout c = tk) by lia. subst tk. rewrite Z.sub_diag in Hd.
    change (0 mod 4294967296) with 0 in Hd.
    assert (0 < cnt (early (wout c)) (thrs c)); [|lia].
    apply (cnt_pos_of_nth _ _ u uh Hu). unfold early. rewrite Hpcu. reflexivity.
Qed.

(* ---- a measure of the work left -------------------------------------------- *)
Definition wt_pc (p : pc) : Z :=
  match p with
  | PStart => 1 | PR0 => 4 | PRw _ => 3 | PRcs => 2 | PRx => 1
  | PW0 => 7 | PWw _ => 6 | PW1 _ => 5 | PWr _ => 4 | PWcs => 3 | PWx => 2 | PWy => 1
  | PDone => 0
  end.
Definition wt_k (k : kind) : Z := match k with KR => 4 | KW => 7 end.
Definition mu_th (th : thr) : Z := wt_pc (t_pc th) + sumz wt_k (t_rest th).
Definition mu (c : cfg) : Z := sumz mu_th (thrs c).

Lemma mu_th_nonneg th : 0 <= mu_th th.
Proof.
  unfold mu_th. assert (0 <= sumz wt_k (t_rest th)) by (apply sumz_nonneg; intros []; cbn; lia).
  destruct (t_pc th); cbn [wt_pc]; lia.
Qed.
Lemma mu_nonneg c : 0 <= mu c.
Proof. apply sumz_nonneg, mu_th_nonneg. Qed.
Lemma mu_begin r : mu_th (begin r) = sumz wt_k r.
Proof. destruct r as [|[|] r]; unfold mu_th; cbn [begin t_pc t_rest wt_pc sumz wt_k]; lia. Qed.

Lemma step_mu c t :
  mu (step c t) <= mu c /\
  (forall th, nth_error (thrs c) t = Some th -> enabled c th = true -> mu (step c t) < mu c).
Proof.
  unfold step. destruct (nth_error (thrs c) t) as [th|] eqn:Hn.
  2:{ split; [lia|intros th H; discriminate]. }
  assert (G : forall q, mu_th q < mu_th th ->
              sumz mu_th (upd (thrs c) t q) <= mu c /\
              (forall th0, Some th = Some th0 -> enabled c th0 = true -> sumz mu_th (upd (thrs c) t q) < mu c)).
  { intros q Hq. rewrite (sumz_upd _ _ _ _ _ Hn). unfold mu. split; [lia|intros; lia]. }
  unfold mu at 1 3. unfold enabled.
  destruct th as [p r]. cbn [t_pc t_rest] in *.
  destruct p; repeat match goal with |- context[if ?b then _ else _] => destruct b eqn:? end;
    cbn [thrs];
    try (apply G; rewrite ?mu_begin; unfold mu_th; cbn [t_pc t_rest at_pc wt_pc]; lia);
    (split; [fold (mu c); lia|intros th0 H0 He; inversion H0; subst th0; cbn [t_pc] in He; try discriminate;
             match goal with H : ?b = _ |- _ => rewrite H in He; discriminate end]).
Qed.

Lemma run_mu_le s : forall c, mu (run c s) <= mu c.
Proof.
  induction s as [|t s IH]; intros c; unfold run in *; cbn [fold_left]; [lia|].
  pose proof (IH (step c t)). pose proof (step_mu c t) as [H1 _]. lia.
Qed.

Lemma mu_zero_done c : mu c = 0 -> all_done c = true.
Proof.
  intros H. unfold all_done. apply forallb_forall. intros th Hin.
  destruct (In_nth_error _ _ Hin) as (t & Hn).
  pose proof (sumz_zero_all mu_th (thrs c) mu_th_nonneg H t th Hn) as Hz.
  unfold mu_th in Hz. assert (0 <= sumz wt_k (t_rest th)) by (apply sumz_nonneg; intros []; cbn; lia).
  unfold is_done. destruct (t_pc th); cbn [wt_pc] in Hz; try lia; reflexivity.
Qed.

Lemma done_stays c t : all_done c = true -> step c t = c.
Proof.
  intros H. destruct (nth_error (thrs c) t) as [th|] eqn:Hn.
  - apply (step_disabled c t th Hn). unfold all_done in H. rewrite forallb_forall in H.
    specialize (H th (nth_error_In _ _ Hn)). unfold is_done in H. unfold enabled.
    destruct (t_pc th); try discriminate. reflexivity.
  - unfold step. rewrite Hn. reflexivity.
Qed.
Lemma done_stays_run s : forall c, all_done c = true -> run c s = c.
Proof.
  induction s as [|t s IH]; intros c H; [reflexivity|]. unfold run in *. cbn [fold_left].
  rewrite (done_stays c t H). apply IH, H.
Qed.

(* ---- fair schedules complete every program ------------------------------------ *)
(* an enabled thread that is scheduled somewhere in s makes the measure drop *)
Lemma enabled_run_lt s : forall c t th, Inv c ->
  nth_error (thrs c) t = Some th -> enabled c th = true -> In t s -> mu (run c s) < mu c.
Proof.
  induction s as [|u s IH]; intros c t th HI Hn He Hin; [destruct Hin|].
  unfold run in *. cbn [fold_left].
  destruct (Nat.eq_dec u t) as [->|Hne].
  - pose proof (step_mu c t) as [_ Hlt]. specialize (Hlt th Hn He).
    pose proof (run_mu_le s (step c t)). unfold run in *. lia.
  - destruct Hin as [E|Hin]; [congruence|].
    destruct (enabled_stable c t u th HI Hn He Hne) as [Hn' He'].
    pose proof (IH (step c u) t th (step_inv c u HI) Hn' He' Hin).
    pose proof (step_mu c u) as [Hle _]. lia.
Qed.

(* a round: every thread id is scheduled at least once (in any order, any number of times) *)
Definition covers (n : nat) (s : list nat) : Prop := forall t, (t < n)%nat -> In t s.

Lemma round_progress c s : Inv c -> all_done c = false -> covers (length (thrs c)) s ->
  mu (run c s) < mu c.
Proof.
  intros HI Hnd Hcov. destruct (deadlock_free c HI) as [E|(t & th & Hn & He)]; [congruence|].
  apply (enabled_run_lt s c t th HI Hn He). apply Hcov. apply nth_error_Some. congruence.
Qed.

Theorem fair_termination rounds : forall c, Inv c ->
  (forall s, In s rounds -> covers (length (thrs c)) s) ->
  mu c <= Z.of_nat (length rounds) ->
  all_done (run c (concat rounds)) = true.
Proof.
  induction rounds as [|s rs IH]; intros c HI Hcov Hmu.
  - unfold run. cbn [concat fold_left]. apply mu_zero_done. pose proof (mu_nonneg c). cbn [length] in Hmu. lia.
  - cbn [concat]. unfold run. rewrite fold_left_app. fold (run c s). fold (run (run c s) (concat rs)).
    destruct (all_done c) eqn:Hd.
    + rewrite (done_stays_run s c Hd), (done_stays_run (concat rs) c Hd). exact Hd.
    + apply IH.
      * apply run_inv, HI.
      * intros s' Hs'. rewrite run_len. apply Hcov. right. exact Hs'.
      * pose proof (round_progress c s HI Hd (Hcov s (or_introl eq_refl))).
        cbn [length] in Hmu. lia.
Qed.
