(* Bounded bypass (phase-fairness) of the read-write lock model:
   - a waiting reader is overtaken by at most one writer;
   - a writer whose bits are in rin is overtaken by no writer and only by the
     readers that were already counted when it set its bits (the current read phase);
   - writers enter in ticket order: a writer waiting for wout is overtaken by at
     most as many writers as there are tickets before its own. *)
From PV Require Import Base.Tac Base.ListX RWLock.RWLockDefs RWLock.RWLockBase RWLock.RWLockInv.
Local Open Scope Z_scope.

Ltac Zify.zify_post_hook ::= Z.div_mod_to_equations.

(* entries into the critical section recorded so far *)
Definition wents (l : list ev) : Z := sumz (fun e => match e with Enter _ KW => 1 | _ => 0 end) l.
Definition rents (l : list ev) : Z := sumz (fun e => match e with Enter _ KR => 1 | _ => 0 end) l.

(* [P] holds after every step of the schedule *)
Fixpoint stays (P : cfg -> Prop) (c : cfg) (s : list nat) : Prop :=
  match s with [] => True | u :: s' => P (step c u) /\ stays P (step c u) s' end.

Definition is_wr (th : thr) : bool := match t_pc th with PWr _ => true | _ => false end.
Lemma wr_hold th : is_wr th = true -> is_hold th = true.
Proof. unfold is_wr, is_hold. destruct (t_pc th); auto. Qed.

Ltac cnts Hn :=
  rewrite ?(cnt_upd _ _ _ _ _ Hn) in *;
  cbn [is_wset is_wr is_wy is_rfl is_wcs is_A is_hold early t_pc t_rest at_pc begin] in *.

(* ---- a waiting reader ------------------------------------------------------ *)
Definition rd_waits (t : nat) (w : Z) (c : cfg) : Prop :=
  exists th, nth_error (thrs c) t = Some th /\ t_pc th = PRw w.

(* writer entries that can still happen before the reader (blocked on bits w) gets in *)
Definition wbudget (c : cfg) (w : Z) : Z :=
  if (0 <? cnt is_wset (thrs c)) && (w =? cur (wout c)) then cnt is_wr (thrs c) else 0.

Lemma wbudget_le1 c w : Inv c -> 0 <= wbudget c w <= 1.
Proof.
  intros [_ HT _]. unfold wbudget. pose proof (cnt_hold_le1 c HT).
  pose proof (cnt_mono is_wr is_hold (thrs c) wr_hold). pose proof (cnt_nonneg is_wr (thrs c)).
  destruct (_ && _); lia.
Qed.

Lemma reader_bypass_step c t u w : Inv c -> rd_waits t w c -> rd_waits t w (step c u) ->
  wents (log (step c u)) + wbudget (step c u) w <= wents (log c) + wbudget c w.
Proof.
  intros HI (th & Hn & Hpc) (th' & Hn' & Hpc').
  destruct (Nat.eq_dec u t) as [->|Hne].
  { (* the reader itself: a stutter step *)
    unfold step in *. rewrite Hn, Hpc in *.
    destruct (w =? Z.land (rin c) WBITS); [lia|].
    cbn [thrs] in Hn'. rewrite (nth_upd_same _ _ _ _ Hn) in Hn'. inversion Hn'; subst th'. discriminate. }
  clear th' Hn' Hpc'. destruct HI as [Hlen HT HR].
  pose proof (ri_rng c HR) as [Hrin Hrout].
  pose proof (cnt_nonneg is_wr (thrs c)) as Hwrn. pose proof (cnt_nonneg is_wset (thrs c)) as Hwsn.
  assert (Hfl : 0 < cnt is_rfl (thrs c)).
  { apply (cnt_pos_of_nth _ _ t th Hn). unfold is_rfl. rewrite Hpc. reflexivity. }
  assert (G1 : forall uh tk, nth_error (thrs c) u = Some uh -> t_pc uh = PW1 tk ->
               cnt is_wset (thrs c) = 0 /\ w <> cur (wout c) /\ rout c <> rin c).
  { intros uh tk Hu Hpcu.
    assert (Hh : is_hold uh = true) by (unfold is_hold; rewrite Hpcu; reflexivity).
    assert (Hw0 : cnt is_wset (thrs c) = 0).
    { rewrite (cnt_only_holder c u uh is_wset HT Hu Hh wset_hold). unfold is_wset. rewrite Hpcu. reflexivity. }
    assert (Hy0 : cnt is_wy (thrs c) = 0).
    { rewrite (cnt_only_holder c u uh is_wy HT Hu Hh wy_hold). unfold is_wy. rewrite Hpcu. reflexivity. }
    destruct (ri_rw c HR t th w Hn Hpc) as [_ Hw]. specialize (Hw Hw0). rewrite Hy0 in Hw.
    change (0 <? 0) with false in Hw. cbv iota in Hw. pose proof (cur_next (wout c)) as [Hx _].
    destruct (low_bits c HR) as [(_ & Hlo & _)|(Hpos & _)]; [|lia].
    pose proof (ri_dif c HR) as Hd. rewrite Hlo in Hd. repeat split; [exact Hw0|congruence|lia]. }
  assert (G2 : forall uh tk, nth_error (thrs c) u = Some uh -> t_pc uh = PWr tk -> rout c = tk ->
               w = cur (wout c) /\ 0 < cnt is_wset (thrs c) /\ 0 < cnt is_wr (thrs c)).
  { intros uh tk Hu Hpcu E. destruct (ri_wr c HR u uh tk Hu Hpcu) as [_ Hd].
    subst tk. rewrite Z.sub_diag in Hd. change (0 mod 4294967296) with 0 in Hd.
    assert (He0 : cnt (early (wout c)) (thrs c) = 0) by lia.
    pose proof (cnt_zero_all _ _ He0 t th Hn) as He. unfold early in He. rewrite Hpc in He.
    repeat split.
    - destruct (w =? cur (wout c)) eqn:E; [lia|discriminate].
    - apply (cnt_pos_of_nth _ _ u uh Hu). unfold is_wset. rewrite Hpcu. reflexivity.
    - apply (cnt_pos_of_nth _ _ u uh Hu). unfold is_wr. rewrite Hpcu. reflexivity. }
  assert (G3 : forall uh, nth_error (thrs c) u = Some uh -> is_hold uh = true ->
               cnt is_wset (thrs c) = if is_wset uh then 1 else 0).
  { intros uh Hu Hh. apply (cnt_only_holder c u uh is_wset HT Hu Hh wset_hold). }
  unfold step, wbudget, wents. destruct (nth_error (thrs c) u) as [uh|] eqn:Hu; [|lia].
  destruct uh as [p r]. cbn [t_pc t_rest].
  destruct p; repeat match goal with |- context[if ?b then _ else _] => destruct b eqn:? end;
    cbn [log thrs wout sumz] in *; cnts Hu; try lia;
    try (destruct r as [|[|] r]; cbn [begin t_pc is_wset is_wr] in *; lia).
  all: try (destruct (G1 _ _ eq_refl eq_refl) as (Ha & Hb & Hc); lia).
  all: try (destruct (G2 _ _ eq_refl eq_refl ltac:(lia)) as (Ha & Hb & Hc); lia).
  all: try (pose proof (G3 _ eq_refl eq_refl) as Ha; cbn [is_wset t_pc] in Ha; lia).
  all: destruct r as [|[|] r]; cbn [begin t_pc is_wset is_wr] in *;
    pose proof (G3 _ eq_refl eq_refl) as Ha; cbn [is_wset t_pc] in Ha; lia.
Qed.

Lemma stays_run (P : cfg -> Prop) (F : cfg -> Z) :
  (forall c u, Inv c -> P c -> P (step c u) -> F (step c u) <= F c) ->
  forall s c, Inv c -> P c -> stays P c s -> F (run c s) <= F c.
Proof.
  intros Hstep. induction s as [|u s IH]; intros c HI HP Hs; unfold run in *; cbn [fold_left]; [lia|].
  destruct Hs as [HP' Hs]. pose proof (IH (step c u) (step_inv c u HI) HP' Hs).
  pose proof (Hstep c u HI HP HP'). lia.
Qed.

(* while reader t keeps waiting, at most one writer enters the critical section *)
Theorem reader_bypass c s t w : Inv c -> rd_waits t w c -> stays (rd_waits t w) c s ->
  wents (log (run c s)) <= wents (log c) + 1.
Proof.
  intros HI HP Hs.
  pose proof (stays_run (rd_waits t w) (fun c => wents (log c) + wbudget c w)
                (fun c u HI HP HP' => reader_bypass_step c t u w HI HP HP') s c HI HP Hs) as H.
  cbv beta in H. pose proof (wbudget_le1 c w HI). pose proof (wbudget_le1 _ w (run_inv s c HI)). lia.
Qed.

(* ---- a writer whose bits are set (waiting for the readers of the current phase) ---- *)
Definition wr_waits (t : nat) (tk : Z) (c : cfg) : Prop :=
  exists th, nth_error (thrs c) t = Some th /\ t_pc th = PWr tk.
(* readers that were blocked by the previous writer and have not yet noticed that it left *)
Definition is_erw (wo : Z) (th : thr) : bool :=
  match t_pc th with PRw w => negb (w =? cur wo) | _ => false end.

Lemma writer_bypass_step c t u tk : Inv c -> wr_waits t tk c -> wr_waits t tk (step c u) ->
  wout (step c u) = wout c /\
  wents (log (step c u)) = wents (log c) /\
  rents (log (step c u)) + cnt (is_erw (wout c)) (thrs (step c u)) =
  rents (log c) + cnt (is_erw (wout c)) (thrs c).
Proof.
  intros HI (th & Hn & Hpc) (th' & Hn' & Hpc').
  destruct (Nat.eq_dec u t) as [->|Hne].
  { unfold step in *. rewrite Hn, Hpc in *.
    destruct (rout c =? tk); [|auto].
    cbn [thrs] in Hn'. rewrite (nth_upd_same _ _ _ _ Hn) in Hn'. inversion Hn'; subst th'. discriminate. }
  clear th' Hn' Hpc'. destruct HI as [Hlen HT HR].
  pose proof (ri_rng c HR) as [Hrin Hrout].
  assert (Hh : is_hold th = true) by (unfold is_hold; rewrite Hpc; reflexivity).
  assert (Hpos : 0 < cnt is_wset (thrs c)).
  { apply (cnt_pos_of_nth _ _ t th Hn). unfold is_wset. rewrite Hpc. reflexivity. }
  destruct (low_bits c HR) as [(E & _)|(_ & _ & E4)]; [lia|].
  pose proof (cur_23 (wout c)) as H23.
  assert (G : forall uh, nth_error (thrs c) u = Some uh -> is_hold uh = true -> False).
  { intros uh Hu Hhu. apply Hne. apply (hold_unique c u t uh th HT Hu Hhu Hn Hh). }
  unfold step, wents, rents. destruct (nth_error (thrs c) u) as [uh|] eqn:Hu; [|auto].
  destruct uh as [p r]. cbn [t_pc t_rest].
  destruct p; try (exfalso; apply (G _ eq_refl eq_refl)).
  - destruct r as [|[|] r]; cbn [log thrs wout sumz begin]; rewrite (cnt_upd _ _ _ _ _ Hu);
      cbn [is_erw t_pc]; repeat split; lia.
  - rewrite !land_wbits by (try apply wrap_range; lia).
    assert (Hm4 : wrap (rin c + RINC) mod 4 = rin c mod 4) by (unfold wrap, RINC; lia).
    rewrite Hm4, E4, Z.eqb_refl. destruct (cur (wout c) =? 0) eqn:E0; [lia|].
    cbn [orb negb log thrs wout sumz]. rewrite (cnt_upd _ _ _ _ _ Hu).
    cbn [is_erw t_pc at_pc]. rewrite Z.eqb_refl. cbn [negb]. repeat split; lia.
  - rewrite land_wbits by lia. rewrite E4.
    destruct (w =? cur (wout c)) eqn:Ew; [auto|].
    cbn [log thrs wout sumz]. rewrite (cnt_upd _ _ _ _ _ Hu).
    cbn [is_erw t_pc at_pc]. rewrite Ew. cbn [negb]. repeat split; lia.
  - cbn [log thrs wout sumz]. rewrite (cnt_upd _ _ _ _ _ Hu). cbn [is_erw t_pc at_pc]. repeat split; lia.
  - destruct r as [|[|] r]; cbn [log thrs wout sumz begin]; rewrite (cnt_upd _ _ _ _ _ Hu);
      cbn [is_erw t_pc]; repeat split; lia.
  - destruct (wout c =? win c); cbn [log thrs wout sumz]; rewrite (cnt_upd _ _ _ _ _ Hu);
      cbn [is_erw t_pc at_pc]; repeat split; lia.
  - destruct (wout c =? tk0); [|auto]. cbn [log thrs wout sumz]. rewrite (cnt_upd _ _ _ _ _ Hu).
    cbn [is_erw t_pc at_pc]. repeat split; lia.
  - auto.
Qed.

Lemma stays_run_eq (P : cfg -> Prop) (F : cfg -> Z) :
  (forall c u, Inv c -> P c -> P (step c u) -> F (step c u) = F c) ->
  forall s c, Inv c -> P c -> stays P c s -> F (run c s) = F c.
Proof.
  intros Hstep. induction s as [|u s IH]; intros c HI HP Hs; unfold run in *; cbn [fold_left]; [lia|].
  destruct Hs as [HP' Hs]. pose proof (IH (step c u) (step_inv c u HI) HP' Hs).
  pose proof (Hstep c u HI HP HP'). lia.
Qed.

(* while writer t waits with its bits set: no other writer enters, and the readers that
   enter are taken from those that were waiting on the previous writer's bits (none of the
   readers that arrive later); their number is bounded by the readers counted in its ticket *)
Theorem writer_bypass c s t tk : Inv c -> wr_waits t tk c -> stays (wr_waits t tk) c s ->
  wents (log (run c s)) = wents (log c) /\
  rents (log (run c s)) + cnt (is_erw (wout c)) (thrs (run c s)) =
    rents (log c) + cnt (is_erw (wout c)) (thrs c) /\
  256 * cnt (is_erw (wout c)) (thrs c) <= (tk - rout c) mod M32.
Proof.
  intros HI HP Hs.
  assert (Hwo : forall s c', Inv c' -> wr_waits t tk c' -> stays (wr_waits t tk) c' s ->
                wout (run c' s) = wout c').
  { apply (stays_run_eq (wr_waits t tk) wout). intros c' u HI' H1 H2.
    apply (writer_bypass_step c' t u tk HI' H1 H2). }
  repeat split.
  - apply (stays_run_eq (wr_waits t tk) (fun c => wents (log c))); auto.
    intros c' u HI' H1 H2. apply (writer_bypass_step c' t u tk HI' H1 H2).
  - revert c HI HP Hs. induction s as [|u s IH]; intros c HI HP Hs; unfold run in *; cbn [fold_left]; [lia|].
    destruct Hs as [HP' Hs].
    destruct (writer_bypass_step c t u tk HI HP HP') as (E1 & _ & E3).
    pose proof (IH (step c u) (step_inv c u HI) HP' Hs) as H. rewrite E1 in H. lia.
  - destruct HP as (th & Hn & Hpc). destruct HI as [_ _ HR].
    destruct (ri_wr c HR t th tk Hn Hpc) as [_ Hd]. rewrite Hd.
    assert (cnt (is_erw (wout c)) (thrs c) <= cnt (early (wout c)) (thrs c)); [|lia].
    apply cnt_mono. intros p. unfold is_erw, early. destruct (t_pc p); auto; discriminate.
Qed.

(* ---- writers enter in ticket order ------------------------------------------------ *)
Definition ww_waits (t : nat) (tk : Z) (c : cfg) : Prop :=
  exists th, nth_error (thrs c) t = Some th /\ t_pc th = PWw tk.
(* the served ticket's owner is already past its entry *)
Definition is_ent (th : thr) : bool := match t_pc th with PWcs | PWx | PWy => true | _ => false end.
Lemma ent_hold th : is_ent th = true -> is_hold th = true.
Proof. unfold is_ent, is_hold. destruct (t_pc th); auto. Qed.
(* writer entries that can still precede the owner of ticket tk *)
Definition ahead (c : cfg) (tk : Z) : Z := (tk - wout c) mod M32 - cnt is_ent (thrs c).

Lemma ahead_bounds c t tk : Inv c -> ww_waits t tk c ->
  0 <= ahead c tk <= (tk - wout c) mod M32 /\ (tk - wout c) mod M32 < cnt is_A (thrs c).
Proof.
  intros [_ HT _] (th & Hn & Hpc). unfold ahead.
  assert (HA : is_A th = true) by (unfold is_A; rewrite Hpc; reflexivity).
  pose proof (ti_lt c HT t th Hn HA) as Hlt. unfold off in Hlt. rewrite Hpc in Hlt.
  pose proof (cnt_nonneg is_ent (thrs c)). pose proof (cnt_hold_le1 c HT).
  pose proof (cnt_mono is_ent is_hold (thrs c) ent_hold).
  split; [|exact Hlt]. split; [|lia].
  destruct (Z.eq_dec ((tk - wout c) mod M32) 0) as [E|E]; [|lia].
  assert (cnt is_ent (thrs c) = 0); [|lia].
  apply cnt_zero_of_all. intros u uh Hu. destruct (is_ent uh) eqn:Ee; [|reflexivity]. exfalso.
  assert (u = t).
  { apply (ti_inj c HT u t uh th Hu Hn (hold_A _ (ent_hold _ Ee)) HA).
    rewrite (hold_off c u uh HT Hu (ent_hold _ Ee)). unfold off. rewrite Hpc. lia. }
  subst u. rewrite Hn in Hu. inversion Hu; subst uh. unfold is_ent in Ee. rewrite Hpc in Ee. discriminate.
Qed.

Lemma fifo_step c t u tk : Inv c -> ww_waits t tk c -> ww_waits t tk (step c u) ->
  wents (log (step c u)) + ahead (step c u) tk = wents (log c) + ahead c tk.
Proof.
  intros HI (th & Hn & Hpc) (th' & Hn' & Hpc').
  destruct (Nat.eq_dec u t) as [->|Hne].
  { unfold step in *. rewrite Hn, Hpc in *.
    destruct (wout c =? tk); [|auto].
    cbn [thrs] in Hn'. rewrite (nth_upd_same _ _ _ _ Hn) in Hn'. inversion Hn'; subst th'. discriminate. }
  clear th' Hn' Hpc'. destruct HI as [Hlen HT HR].
  assert (HA : is_A th = true) by (unfold is_A; rewrite Hpc; reflexivity).
  (* if u is past the ticket wait, t's ticket is not the served one *)
  assert (G : forall uh, nth_error (thrs c) u = Some uh -> is_hold uh = true ->
              1 <= (tk - wout c) mod M32).
  { intros uh Hu Hh. destruct (Z.eq_dec ((tk - wout c) mod M32) 0) as [E|E]; [|lia].
    exfalso. apply Hne. apply (ti_inj c HT u t uh th Hu Hn (hold_A _ Hh) HA).
    rewrite (hold_off c u uh HT Hu Hh). unfold off. rewrite Hpc. lia. }
  unfold step, wents, ahead. destruct (nth_error (thrs c) u) as [uh|] eqn:Hu; [|auto].
  destruct uh as [p r]. cbn [t_pc t_rest].
  destruct p; repeat match goal with |- context[if ?b then _ else _] => destruct b end;
    cbn [log thrs wout sumz]; rewrite ?(cnt_upd _ _ _ _ _ Hu); cbn [is_ent t_pc at_pc]; try lia;
    try (destruct r as [|[|] r]; cbn [begin t_pc is_ent]; lia).
  (* PWy: wout moves on *)
  pose proof (G _ eq_refl eq_refl) as H1.
  rewrite (diff_inc_r tk (wout c) _ eq_refl H1).
  destruct r as [|[|] r]; cbn [begin t_pc is_ent]; lia.
Qed.

(* while writer t waits for its ticket, at most as many writers enter as there are
   tickets before its own (minus the served one if its owner is already inside) *)
Theorem writer_fifo c s t tk : Inv c -> ww_waits t tk c -> stays (ww_waits t tk) c s ->
  wents (log (run c s)) <= wents (log c) + ahead c tk /\
  ahead c tk <= (tk - wout c) mod M32 < cnt is_A (thrs c).
Proof.
  intros HI HP Hs.
  pose proof (stays_run_eq (ww_waits t tk) (fun c => wents (log c) + ahead c tk)
                (fun c u HI HP HP' => fifo_step c t u tk HI HP HP') s c HI HP Hs) as H.
  cbv beta in H.
  assert (HP' : ww_waits t tk (run c s)).
  { clear H. revert c HI HP Hs. induction s as [|u s IH]; intros c HI HP Hs; [exact HP|].
    destruct Hs as [HP' Hs]. unfold run in *. cbn [fold_left]. apply (IH (step c u)); auto.
    apply step_inv, HI. }
  pose proof (ahead_bounds _ t tk (run_inv s c HI) HP') as [[H0 _] _].
  pose proof (ahead_bounds c t tk HI HP) as [[_ H1] H2]. lia.
Qed.
