(* Bounded bypass (phase-fairness) of the read-write lock model:
   - a waiting reader is overtaken by at most one writer;
   - a writer whose bits are in rin is overtaken by no writer and only by the
     readers that were already counted when it set its bits (the current read phase);
   - writers enter in ticket order: a writer waiting for wout is overtaken by at
     most as many writers as there are tickets before its own. *)
From PV Require Import Base.Tac Base.ListX RWLock.RWLockDefs RWLock.RWLockBase RWLock.RWLockInv.
Local Open Scope Z_scope.

Ltac Zify.zify_post_hook ::= Z.div_mod_to_equations.

(* entries into the critical section recorded so far *)
Definition wents (l : list ev) : Z := sumz (fun e => match e with Enter _ KW => 1 | _ => 0 end) l.
Definition rents (l : list ev) : Z := sumz (fun e => match e with Enter _ KR => 1 | _ => 0 end) l.

(* [P] holds after every step of the schedule *)
Fixpoint stays (P : cfg -> Prop) (c : cfg) (s : list nat) : Prop :=
  match s with [] => True | u :: s' => P (step c u) /\ stays P (step c u) s' end.

Definition is_wr (th : thr) : bool := match t_pc th with PWr _ => true | _ => false end.
Lemma wr_hold th : is_wr th = true -> is_hold th = true.
Proof. unfold is_wr, is_hold. destruct (t_pc th); auto. Qed.

Ltac cnts Hn :=
  rewrite ?(cnt_upd _ _ _ _ _ Hn) in *;
  cbn [is_wset is_wr is_wy is_rfl is_wcs is_A is_hold early t_pc t_rest at_pc begin] in *.

(* ---- a waiting reader ------------------------------------------------------ *)
Definition rd_waits (t : nat) (w : Z) (c : cfg) : Prop :=
  exists th, nth_error (thrs c) t = Some th /\ t_pc th = PRw w.

(* writer entries that can still happen before the reader (blocked on bits w) gets in *)
Definition wbudget (c : cfg) (w : Z) : Z :=
  if (0 <? cnt is_wset (thrs c)) && (w =? cur (wout c)) then cnt is_wr (thrs c) else 0.

Lemma wbudget_le1 c w : Inv c -> 0 <= wbudget c w <= 1.
Proof.
  intros [_ HT _]. unfold wbudget. pose proof (cnt_hold_le1 c HT).
  pose proof (cnt_mono is_wr is_hold (thrs c) wr_hold). pose proof (cnt_nonneg is_wr (thrs c)).
  destruct (_ && _); lia.
Qed.

Lemma reader_bypass_step c t u w : Inv c -> rd_waits t w c -> rd_waits t w (step c u) ->
  wents (log (step c u)) + wbudget (step c u) w <= wents (log c) + wbudget c w.
Proof.
  intros HI (th & Hn & Hpc) (th' & Hn' & Hpc').
  destruct (Nat.eq_dec u t) as [->|Hne].
  { (* the reader itself: a stutter step *)
    unfold step in *. rewrite Hn, Hpc in *.
    destruct (w =? Z.land (rin c) WBITS); [lia|].
    cbn [thrs] in Hn'. rewrite (nth_upd_same _ _ _ _ Hn) in Hn'. inversion Hn'; subst th'. discriminate. }
  clear th' Hn' Hpc'. destruct HI as [Hlen HT HR].
  pose proof (ri_rng c HR) as [Hrin Hrout].
  pose proof (cnt_nonneg is_wr (thrs c)) as Hwrn. pose proof (cnt_nonneg is_wset (thrs c)) as Hwsn.
  assert (Hfl : 0 < cnt is_rfl (thrs c)).
  { apply (cnt_pos_of_nth _ _ t th Hn). unfold is_rfl. rewrite Hpc. reflexivity. }
  assert (G1 : forall uh tk, nth_error (thrs c) u = Some uh -> t_pc uh = PW1 tk ->
               cnt is_wset (thrs c) = 0 /\ w <> cur (wout c) /\ rout c <> rin c).
  { intros uh tk Hu Hpcu.
    assert (Hh : is_hold uh = true) by (unfold is_hold; rewrite Hpcu; reflexivity).
    assert (Hw0 : cnt is_wset (thrs c) = 0).
    { rewrite (cnt_only_holder c u uh is_wset HT Hu Hh wset_hold). unfold is_wset. rewrite Hpcu. reflexivity. }
    assert (Hy0 : cnt is_wy (thrs c) = 0).
    { rewrite (cnt_only_holder c u uh is_wy HT Hu Hh wy_hold). unfold is_wy. rewrite Hpcu. reflexivity. }
    destruct (ri_rw c HR t th w Hn Hpc) as [_ Hw]. specialize (Hw Hw0). rewrite Hy0 in Hw.
    change (0 <? 0) with false in Hw. cbv iota in Hw. pose proof (cur_next (wout c)) as [Hx _].
    destruct (low_bits c HR) as [(_ & Hlo & _)|(Hpos & _)]; [|lia].
    pose proof (ri_dif c HR) as Hd. rewrite Hlo in Hd. repeat split; [exact Hw0|congruence|lia]. }
  assert (G2 : forall uh tk, nth_error (thrs c) u = Some uh -> t_pc uh = PWr tk -> rout c = tk ->
               w = cur (wout c) /\ 0 < cnt is_wset (thrs c) /\ 0 < cnt is_wr (thrs c)).
  { intros uh tk Hu Hpcu E. destruct (ri_wr c HR u uh tk Hu Hpcu) as [_ Hd].
    subst tk. rewrite Z.sub_diag in Hd. change (0 mod 4294967296) with 0 in Hd.
    assert (He0 : cnt (early (wout c)) (thrs c) = 0) by lia.
    pose proof (cnt_zero_all _ _ He0 t th Hn) as He. unfold early in He. rewrite Hpc in He.
    repeat split.
    - destruct (w =? cur (wout c)) eqn:E; [lia|discriminate].
    - apply (cnt_pos_of_nth _ _ u uh Hu). unfold is_wset. rewrite Hpcu. reflexivity.
    - apply (cnt_pos_of_nth _ _ u uh Hu). unfold is_wr. rewrite Hpcu. reflexivity. }
  assert (G3 : forall uh, nth_error (thrs c) u = Some uh -> is_hold uh = true ->
               cnt is_wset (thrs c) = if is_wset uh then 1 else 0).
  { intros uh Hu Hh. apply (cnt_only_holder c u uh is_wset HT Hu Hh wset_hold). }
  unfold step, wbudget, wents. destruct (nth_error (thrs c) u) as [uh|] eqn:Hu; [|lia].
  destruct uh as [p r]. cbn [t_pc t_rest].
  destruct p; repeat match goal with |- context[if ?b then _ else _] => destruct b eqn:? end;
    cbn [log thrs wout sumz] in *; cnts Hu; try lia;
    try (destruct r as [|[|] r]; cbn [begin t_pc is_wset is_wr] in *; lia).
  all: try (destruct (G1 _ _ eq_refl eq_refl) as (Ha & Hb & Hc); lia).
  all: try (destruct (G2 _ _ eq_refl eq_refl ltac:(lia)) as (Ha & Hb & Hc); lia).
  all: try (pose proof (G3 _ eq_refl eq_refl) as Ha; cbn [is_wset t_pc] in Ha; lia).
  all: destruct r as [|[|] r]; cbn [begin t_pc is_wset is_wr] in *;
    pose proof (G3 _ eq_refl eq_refl) as Ha; cbn [is_wset t_pc] in Ha; lia.
Qed.
