(* Safety of the read-write lock model: mutual exclusion (on states and on the
   recorded enter/exit log), single writer of wout, counters at quiescence. *)
From PV Require Import Base.Tac Base.ListX RWLock.RWLockDefs RWLock.RWLockBase RWLock.RWLockInv.
Local Open Scope Z_scope.

Ltac Zify.zify_post_hook ::= Z.div_mod_to_equations.

(* ---- mutual exclusion on states ----------------------------------------- *)
Lemma rcs_early wo th : is_rcs th = true -> early wo th = true.
Proof. unfold is_rcs, early. destruct (t_pc th); auto; discriminate. Qed.

Theorem excl c : Inv c ->
  cnt is_wcs (thrs c) <= 1 /\ (0 < cnt is_wcs (thrs c) -> cnt is_rcs (thrs c) = 0).
Proof.
  intros [Hlen HT HR]. split.
  - pose proof (cnt_hold_le1 c HT).
    pose proof (cnt_mono is_wcs is_hold (thrs c) (fun p H => wset_hold p (wcs_wset p H))). lia.
  - intros Hpos. destruct (cnt_pos_ex _ _ Hpos) as (t & th & Hn & Hw).
    pose proof (ri_wcs c HR t th Hn Hw) as He.
    pose proof (cnt_mono is_rcs (early (wout c)) (thrs c) (rcs_early (wout c))).
    pose proof (cnt_nonneg is_rcs (thrs c)). lia.
Qed.

(* the plain (non-atomic) update L->wout = L->wout+1 is never concurrent with another one,
   nor with any other thread that is past the ticket wait *)
Theorem wout_single_writer c t u th uh : Inv c ->
  nth_error (thrs c) t = Some th -> t_pc th = PWy ->
  nth_error (thrs c) u = Some uh -> is_hold uh = true -> u = t.
Proof.
  intros [_ HT _] Hn Hpc Hu Hh. apply (hold_unique c u t uh th HT Hu Hh Hn).
  unfold is_hold. rewrite Hpc. reflexivity.
Qed.

(* ---- mutual exclusion on the log ----------------------------------------- *)
Definition is_rin (th : thr) : bool := match t_pc th with PRcs => true | _ => false end.
Definition is_win (th : thr) : bool := match t_pc th with PWcs => true | _ => false end.
Definition LInv (c : cfg) : Prop :=
  occ (log c) = Some (cnt is_rin (thrs c), cnt is_win (thrs c)).

Lemma rin_rcs th : is_rin th = true -> is_rcs th = true.
Proof. unfold is_rin, is_rcs. destruct (t_pc th); auto. Qed.
Lemma win_wcs th : is_win th = true -> is_wcs th = true.
Proof. unfold is_win, is_wcs. destruct (t_pc th); auto. Qed.

Ltac cnts Hn :=
  rewrite ?(cnt_upd _ _ _ _ _ Hn) in *;
  cbn [is_rin is_win is_wcs is_rcs t_pc t_rest at_pc begin] in *.

Theorem step_linv c t : Inv c -> LInv c -> LInv (step c t).
Proof.
  intros HI HL. pose proof (excl _ (step_inv c t HI)) as [Hx1 Hx2].
  pose proof (cnt_mono is_rin is_rcs (thrs (step c t)) rin_rcs) as Hm1.
  pose proof (cnt_mono is_win is_wcs (thrs (step c t)) win_wcs) as Hm2.
  pose proof (cnt_nonneg is_rin (thrs c)) as Hn1. pose proof (cnt_nonneg is_win (thrs c)) as Hn2.
  pose proof (cnt_nonneg is_rcs (thrs c)) as Hn3. pose proof (cnt_nonneg is_wcs (thrs c)) as Hn4.
  unfold LInv in *. unfold step in *.
  destruct (nth_error (thrs c) t) as [th|] eqn:Hn; [|exact HL].
  destruct th as [p r]. cbn [t_pc t_rest] in *.
  destruct p; cbn [log thrs] in *.
  - destruct r as [|[|] r]; cnts Hn; rewrite HL; f_equal; f_equal; lia.
  - destruct (_ || _); cbn [log thrs occ] in *; cnts Hn; rewrite HL.
    + destruct (cnt is_win (thrs c) =? 0) eqn:E; [f_equal; f_equal; lia|lia].
    + f_equal; f_equal; lia.
  - destruct (_ =? _); [exact HL|]. cbn [log thrs occ] in *; cnts Hn; rewrite HL.
    destruct (cnt is_win (thrs c) =? 0) eqn:E; [f_equal; f_equal; lia|lia].
  - cbn [occ]. cnts Hn. rewrite HL. f_equal; f_equal; lia.
  - destruct r as [|[|] r]; cnts Hn; rewrite HL; f_equal; f_equal; lia.
  - destruct (_ =? _); cnts Hn; rewrite HL; f_equal; f_equal; lia.
  - destruct (_ =? _); [|exact HL]. cbn [log thrs] in *. cnts Hn; rewrite HL; f_equal; f_equal; lia.
  - destruct (_ =? _); cbn [log thrs occ] in *; cnts Hn; rewrite HL.
    + destruct ((cnt is_win (thrs c) =? 0) && (cnt is_rin (thrs c) =? 0)) eqn:E;
        [f_equal; f_equal; lia|lia].
    + f_equal; f_equal; lia.
  - destruct (_ =? _); [|exact HL]. cbn [log thrs occ] in *; cnts Hn; rewrite HL.
    destruct ((cnt is_win (thrs c) =? 0) && (cnt is_rin (thrs c) =? 0)) eqn:E;
      [f_equal; f_equal; lia|lia].
  - cbn [occ]. cnts Hn. rewrite HL. f_equal; f_equal; lia.
  - cnts Hn; rewrite HL; f_equal; f_equal; lia.
  - destruct r as [|[|] r]; cnts Hn; rewrite HL; f_equal; f_equal; lia.
  - exact HL.
Qed.

Lemma init_linv a b progs : LInv (init_at a b progs).
Proof.
  unfold LInv, init_at. cbn [log thrs occ].
  assert (Hno : forall f : thr -> bool, (forall r, f (at_pc PStart r) = false) ->
                cnt f (map (at_pc PStart) progs) = 0).
  { intros f Hf. apply cnt_zero_of_all. intros t p Hp.
    destruct (nth_error_map_inv _ _ _ _ Hp) as (x & _ & <-). apply Hf. }
  rewrite !Hno by reflexivity. reflexivity.
Qed.

Lemma run_both sched : forall c, Inv c /\ LInv c -> Inv (run c sched) /\ LInv (run c sched).
Proof.
  unfold run. apply (fold_left_inv step (fun c => Inv c /\ LInv c)). intros x t [HI HL].
  split; [apply step_inv, HI|apply step_linv; assumption].
Qed.

Theorem log_exclusion a b progs sched : Z.of_nat (length progs) < NB ->
  let c := run (init_at a b progs) sched in
  occ (log c) = Some (cnt is_rin (thrs c), cnt is_win (thrs c)).
Proof.
  intros Hlen. apply (run_both sched (init_at a b progs)).
  split; [apply init_inv, Hlen|apply init_linv].
Qed.

(* ---- counters at quiescence ---------------------------------------------- *)
Definition kcount (k : kind) (p : list kind) : Z :=
  sumz (fun x => match x, k with KR, KR | KW, KW => 1 | _, _ => 0 end) p.
(* read (write) cycles a thread has not completed yet *)
Definition pendR (th : thr) : Z :=
  kcount KR (t_rest th) + match t_pc th with PR0 | PRw _ | PRcs | PRx => 1 | _ => 0 end.
Definition pendW (th : thr) : Z :=
  kcount KW (t_rest th) +
  match t_pc th with PW0 | PWw _ | PW1 _ | PWr _ | PWcs | PWx | PWy => 1 | _ => 0 end.
Definition totalR (progs : list (list kind)) : Z := sumz (kcount KR) progs.
Definition totalW (progs : list (list kind)) : Z := sumz (kcount KW) progs.

Definition QInv (nr nw : Z) (c : cfg) : Prop :=
  rout c = wrap (RINC * (nr - sumz pendR (thrs c))) /\ wout c = wrap (nw - sumz pendW (thrs c)).

Lemma pend_begin r : pendR (begin r) = kcount KR r /\ pendW (begin r) = kcount KW r.
Proof. destruct r as [|[|] r]; unfold pendR, pendW, kcount; cbn [begin t_pc t_rest sumz]; lia. Qed.

Lemma step_qinv nr nw c t : QInv nr nw c -> QInv nr nw (step c t).
Proof.
  intros [Hr Hw]. unfold QInv, step.
  destruct (nth_error (thrs c) t) as [th|] eqn:Hn; [|split; assumption].
  destruct th as [p r]. cbn [t_pc t_rest].
  pose proof (pend_begin r) as [Hb1 Hb2].
  set (S1 := sumz pendR (thrs c)) in *. set (S2 := sumz pendW (thrs c)) in *.
  destruct p; repeat match goal with |- context[if ?b then _ else _] => destruct b end;
    cbn [rout wout thrs]; rewrite ?(sumz_upd _ _ _ _ _ Hn), ?Hb1, ?Hb2;
    fold S1; fold S2; clearbody S1 S2; unfold pendR, pendW; cbn [t_pc t_rest at_pc]; try (split; assumption);
    rewrite Hr, Hw; split; try (f_equal; lia); unfold wrap, RINC; lia.
Qed.

Lemma all_done_pcs c : all_done c = true ->
  forall t th, nth_error (thrs c) t = Some th -> t_pc th = PDone.
Proof.
  unfold all_done. intros H t th Hn. rewrite forallb_forall in H.
  specialize (H th (nth_error_In _ _ Hn)). unfold is_done in H. destruct (t_pc th); congruence.
Qed.

Theorem quiescent_counters a b progs sched : Z.of_nat (length progs) < NB ->
  let c := run (init_at a b progs) sched in
  all_done c = true ->
  rin c = wrap (RINC * (a + totalR progs)) /\ rout c = rin c /\
  win c = wrap (b + totalW progs) /\ wout c = win c.
Proof.
  intros Hlen c Hd.
  assert (HI : Inv c) by (apply reachable_inv, Hlen).
  assert (HQ : QInv (a + totalR progs) (b + totalW progs) c).
  { unfold c, run. apply fold_left_inv; [intros x t; apply step_qinv|].
    unfold QInv, init_at. cbn [rout wout thrs]. rewrite !sumz_map.
    unfold pendR, pendW, totalR, totalW. cbn [t_pc t_rest at_pc].
    split; f_equal; [f_equal|].
    - assert (E : sumz (fun x : list kind => kcount KR x + 0) progs = sumz (kcount KR) progs).
      { clear. induction progs as [|x l IH]; cbn [sumz]; lia. } lia.
    - assert (E : sumz (fun x : list kind => kcount KW x + 0) progs = sumz (kcount KW) progs).
      { clear. induction progs as [|x l IH]; cbn [sumz]; lia. } lia. }
  destruct HI as [_ HT HR]. destruct HQ as [Hr Hw].
  pose proof (all_done_pcs c Hd) as Hpcs.
  assert (Hz : forall f : thr -> bool, (forall th, t_pc th = PDone -> f th = false) -> cnt f (thrs c) = 0).
  { intros f Hf. apply cnt_zero_of_all. intros t th Hn. apply Hf, (Hpcs t th Hn). }
  assert (HA : cnt is_A (thrs c) = 0) by (apply Hz; intros th E; unfold is_A; rewrite E; reflexivity).
  assert (HS : cnt is_wset (thrs c) = 0) by (apply Hz; intros th E; unfold is_wset; rewrite E; reflexivity).
  assert (HF : cnt is_rfl (thrs c) = 0) by (apply Hz; intros th E; unfold is_rfl; rewrite E; reflexivity).
  assert (HpR : sumz pendR (thrs c) = 0 /\ sumz pendW (thrs c) = 0).
  { assert (G : forall l : list thr, (forall t th, nth_error l t = Some th -> t_pc th = PDone /\ t_rest th = []) ->
              sumz pendR l = 0 /\ sumz pendW l = 0).
    { induction l as [|x l IH]; intros H; cbn [sumz]; [split; reflexivity|].
      destruct (H 0%nat x eq_refl) as [E1 E2]. destruct IH as [I1 I2].
      { intros t th Hn. apply (H (S t) th Hn). }
      rewrite I1, I2. unfold pendR, pendW. rewrite E1, E2. split; reflexivity. }
    apply G. intros t th Hn. split; [apply (Hpcs t th Hn)|apply (ri_done c HR t th Hn (Hpcs t th Hn))]. }
  destruct HpR as [HpR HpW]. rewrite HpR in Hr. rewrite HpW in Hw. rewrite Z.sub_0_r in Hr, Hw.
  pose proof (ti_rng c HT) as [Hwin Hwout]. pose proof (ri_rng c HR) as [Hrin Hrout].
  pose proof (ti_cnt c HT) as Hc. rewrite HA in Hc.
  pose proof (ri_low c HR) as Hl. rewrite HS in Hl. change (0 <? 0) with false in Hl. cbv iota in Hl.
  pose proof (ri_dif c HR) as Hdif. rewrite HF, Hl in Hdif.
  assert (win c = wout c) by lia. assert (rin c = rout c) by lia.
  repeat split; congruence.
Qed.
