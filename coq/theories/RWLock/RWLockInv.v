(* The inductive invariant of the phase-fair ticket read-write lock model and
   its preservation by every step (any thread, any number of threads below
   2^24, any schedule). *)
From PV Require Import Base.Tac Base.ListX RWLock.RWLockDefs RWLock.RWLockBase.
Local Open Scope Z_scope.

Ltac Zify.zify_post_hook ::= Z.div_mod_to_equations.

(* ---- regions of the code a thread can be in ---------------------------- *)
(* holds a writer ticket that wout has not passed yet *)
Definition is_A (th : thr) : bool :=
  match t_pc th with PWw _ | PW1 _ | PWr _ | PWcs | PWx | PWy => true | _ => false end.
(* its ticket is the one being served *)
Definition is_hold (th : thr) : bool :=
  match t_pc th with PW1 _ | PWr _ | PWcs | PWx | PWy => true | _ => false end.
(* its PRES/PHID bits are in the low byte of rin *)
Definition is_wset (th : thr) : bool :=
  match t_pc th with PWr _ | PWcs | PWx => true | _ => false end.
Definition is_w1 (th : thr) : bool := match t_pc th with PW1 _ => true | _ => false end.
Definition is_wy (th : thr) : bool := match t_pc th with PWy => true | _ => false end.
(* holds the lock for writing: from the acquisition to the first atomic of wrunlock *)
Definition is_wcs (th : thr) : bool := match t_pc th with PWcs | PWx => true | _ => false end.
(* counted in rin but not yet in rout *)
Definition is_rfl (th : thr) : bool := match t_pc th with PRw _ | PRcs | PRx => true | _ => false end.
(* holds the lock for reading: from the acquisition to the atomic of rdunlock *)
Definition is_rcs (th : thr) : bool := match t_pc th with PRcs | PRx => true | _ => false end.

(* distance of a writer's ticket from the ticket being served *)
Definition off (wo : Z) (th : thr) : Z :=
  match t_pc th with PWw tk | PW1 tk => (tk - wo) mod M32 | _ => 0 end.
(* low bits of rin while the writer with ticket wo is present *)
Definition cur (wo : Z) : Z := 2 + wo mod 2.
(* readers the present writer (ticket wo) has to wait for: inside, or blocked by the previous writer only *)
Definition early (wo : Z) (th : thr) : bool :=
  match t_pc th with PRcs | PRx => true | PRw w => negb (w =? cur wo) | _ => false end.

Definition NB : Z := 16777216.   (* 2^24: rin counts readers in its 3 high bytes *)

(* ---- writers' ticket dispenser (win / wout) ---------------------------- *)
Record TInv (c : cfg) : Prop := {
  ti_rng : 0 <= win c < M32 /\ 0 <= wout c < M32;
  ti_cnt : (win c - wout c) mod M32 = cnt is_A (thrs c);
  ti_lt  : forall t th, nth_error (thrs c) t = Some th -> is_A th = true ->
             off (wout c) th < cnt is_A (thrs c);
  ti_inj : forall t u th uh, nth_error (thrs c) t = Some th -> nth_error (thrs c) u = Some uh ->
             is_A th = true -> is_A uh = true -> off (wout c) th = off (wout c) uh -> t = u;
  ti_sur : forall k, 0 <= k < cnt is_A (thrs c) ->
             exists t th, nth_error (thrs c) t = Some th /\ is_A th = true /\ off (wout c) th = k;
  ti_w1  : forall t th tk, nth_error (thrs c) t = Some th -> t_pc th = PW1 tk -> tk = wout c;
  ti_ww  : forall t th tk, nth_error (thrs c) t = Some th -> t_pc th = PWw tk -> 0 <= tk < M32 }.

Lemma off_nonneg wo th : 0 <= off wo th.
Proof. unfold off. destruct (t_pc th); lia. Qed.

Lemma hold_off c t th : TInv c -> nth_error (thrs c) t = Some th -> is_hold th = true ->
  off (wout c) th = 0.
Proof.
  intros HT Hn Hh. unfold off. destruct (t_pc th) eqn:E; try reflexivity; try discriminate.
  - unfold is_hold in Hh. rewrite E in Hh. discriminate.
  - rewrite (ti_w1 c HT t th tk Hn E). rewrite Z.sub_diag. reflexivity.
Qed.

Lemma hold_A th : is_hold th = true -> is_A th = true.
Proof. unfold is_hold, is_A. destruct (t_pc th); auto. Qed.

(* at most one thread is past the ticket wait *)
Lemma hold_unique c t u th uh : TInv c ->
  nth_error (thrs c) t = Some th -> is_hold th = true ->
  nth_error (thrs c) u = Some uh -> is_hold uh = true -> t = u.
Proof.
  intros HT Ht Hth Hu Huh.
  apply (ti_inj c HT t u th uh Ht Hu (hold_A _ Hth) (hold_A _ Huh)).
  rewrite (hold_off c t th HT Ht Hth), (hold_off c u uh HT Hu Huh). reflexivity.
Qed.

Lemma cnt_hold_le1 c : TInv c -> cnt is_hold (thrs c) <= 1.
Proof. intros HT. apply cnt_le_1. intros t u p q Ht Hp Hu Hq. eapply hold_unique; eauto. Qed.

(* a step of thread t that neither takes nor retires a ticket *)
Lemma tinv_same c c' t th q : TInv c -> nth_error (thrs c) t = Some th ->
  win c' = win c -> wout c' = wout c -> thrs c' = upd (thrs c) t q ->
  is_A q = is_A th -> off (wout c) q = off (wout c) th ->
  (forall tk, t_pc q = PW1 tk -> tk = wout c) ->
  (forall tk, t_pc q = PWw tk -> 0 <= tk < M32) ->
  TInv c'.
Proof.
  intros HT Hn Hwi Hwo Hth HA Hoff H1 Hw.
  assert (Hc : cnt is_A (thrs c') = cnt is_A (thrs c)).
  { rewrite Hth, (cnt_upd _ _ _ _ _ Hn), HA. lia. }
  constructor; rewrite ?Hwi, ?Hwo, ?Hc.
  - apply (ti_rng c HT).
  - apply (ti_cnt c HT).
  - intros u uh Hu HAu. rewrite Hth in Hu.
    destruct (nth_upd_cases _ _ _ _ _ _ Hn Hu) as [[-> ->]|[Hne Hu']].
    + rewrite Hoff. apply (ti_lt c HT t th Hn). congruence.
    + apply (ti_lt c HT u uh Hu' HAu).
  - intros u v uh vh Hu Hv HAu HAv Ho. rewrite Hth in Hu, Hv.
    destruct (nth_upd_cases _ _ _ _ _ _ Hn Hu) as [[-> ->]|[Hne Hu']];
    destruct (nth_upd_cases _ _ _ _ _ _ Hn Hv) as [[-> ->]|[Hne2 Hv']].
    + reflexivity.
    + rewrite Hoff in Ho. apply (ti_inj c HT t v th vh Hn Hv'); congruence.
    + rewrite Hoff in Ho. apply (ti_inj c HT u t uh th Hu' Hn); congruence.
    + apply (ti_inj c HT u v uh vh Hu' Hv'); congruence.
  - intros k Hk. destruct (ti_sur c HT k Hk) as (u & uh & Hu & HAu & Ho).
    destruct (Nat.eq_dec u t) as [->|Hne].
    + exists t, q. rewrite Hth, (nth_upd_same _ _ _ _ Hn).
      rewrite Hn in Hu. inversion Hu; subst uh. repeat split; congruence.
    + exists u, uh. rewrite Hth, (nth_upd_other _ _ _ _ _ Hn Hne). auto.
  - intros u uh tk Hu Hpc. rewrite Hth in Hu.
    destruct (nth_upd_cases _ _ _ _ _ _ Hn Hu) as [[-> ->]|[Hne Hu']].
    + apply H1, Hpc.
    + apply (ti_w1 c HT u uh tk Hu' Hpc).
  - intros u uh tk Hu Hpc. rewrite Hth in Hu.
    destruct (nth_upd_cases _ _ _ _ _ _ Hn Hu) as [[-> ->]|[Hne Hu']].
    + apply Hw, Hpc.
    + apply (ti_ww c HT u uh tk Hu' Hpc).
Qed.

(* fetch_inc(&L->win): thread t takes the next ticket *)
Lemma tinv_take c c' t th q : TInv c -> nth_error (thrs c) t = Some th ->
  Z.of_nat (length (thrs c)) < NB ->
  win c' = wrap (win c + 1) -> wout c' = wout c -> thrs c' = upd (thrs c) t q ->
  is_A th = false -> is_A q = true -> off (wout c) q = (win c - wout c) mod M32 ->
  (forall tk, t_pc q = PW1 tk -> tk = wout c) ->
  (forall tk, t_pc q = PWw tk -> 0 <= tk < M32) ->
  TInv c'.
Proof.
  intros HT Hn Hlen Hwi Hwo Hth HA HAq Hoff H1 Hw.
  assert (Hc : cnt is_A (thrs c') = cnt is_A (thrs c) + 1).
  { rewrite Hth, (cnt_upd _ _ _ _ _ Hn), HA, HAq. lia. }
  pose proof (cnt_lt_len is_A (thrs c) t th Hn HA) as Hroom.
  pose proof (cnt_nonneg is_A (thrs c)) as Hnn.
  pose proof (ti_cnt c HT) as Hcnt.
  constructor; rewrite ?Hwi, ?Hwo, ?Hc.
  - split; [apply wrap_range|apply (ti_rng c HT)].
  - apply diff_inc_l; [exact Hcnt|unfold NB in Hlen; lia].
  - intros u uh Hu HAu. rewrite Hth in Hu.
    destruct (nth_upd_cases _ _ _ _ _ _ Hn Hu) as [[-> ->]|[Hne Hu']].
    + rewrite Hoff, Hcnt. lia.
    + pose proof (ti_lt c HT u uh Hu' HAu). lia.
  - intros u v uh vh Hu Hv HAu HAv Ho. rewrite Hth in Hu, Hv.
    destruct (nth_upd_cases _ _ _ _ _ _ Hn Hu) as [[-> ->]|[Hne Hu']];
    destruct (nth_upd_cases _ _ _ _ _ _ Hn Hv) as [[-> ->]|[Hne2 Hv']].
    + reflexivity.
    + pose proof (ti_lt c HT v vh Hv' HAv). rewrite Hoff, Hcnt in Ho. lia.
    + pose proof (ti_lt c HT u uh Hu' HAu). rewrite Hoff, Hcnt in Ho. lia.
    + apply (ti_inj c HT u v uh vh Hu' Hv'); congruence.
  - intros k Hk. destruct (Z.eq_dec k (cnt is_A (thrs c))) as [->|Hne].
    + exists t, q. rewrite Hth, (nth_upd_same _ _ _ _ Hn). repeat split; [exact HAq|congruence].
    + destruct (ti_sur c HT k ltac:(lia)) as (u & uh & Hu & HAu & Ho).
      assert (u <> t) by (intros ->; congruence).
      exists u, uh. rewrite Hth, (nth_upd_other _ _ _ _ _ Hn H). auto.
  - intros u uh tk Hu Hpc. rewrite Hth in Hu.
    destruct (nth_upd_cases _ _ _ _ _ _ Hn Hu) as [[-> ->]|[Hne Hu']].
    + apply H1, Hpc.
    + apply (ti_w1 c HT u uh tk Hu' Hpc).
  - intros u uh tk Hu Hpc. rewrite Hth in Hu.
    destruct (nth_upd_cases _ _ _ _ _ _ Hn Hu) as [[-> ->]|[Hne Hu']].
    + apply Hw, Hpc.
    + apply (ti_ww c HT u uh tk Hu' Hpc).
Qed.

Lemma off_dec wo th : is_A th = true -> 1 <= off wo th ->
  off (wrap (wo + 1)) th = off wo th - 1.
Proof.
  unfold is_A, off. destruct (t_pc th); intros HA Ho; try discriminate; try lia;
    (apply diff_inc_r; [reflexivity|exact Ho]).
Qed.

(* L->wout = L->wout+1: the served ticket is retired by its holder t *)
Lemma tinv_release c c' t th q : TInv c -> nth_error (thrs c) t = Some th ->
  win c' = win c -> wout c' = wrap (wout c + 1) -> thrs c' = upd (thrs c) t q ->
  is_hold th = true -> is_A q = false ->
  TInv c'.
Proof.
  intros HT Hn Hwi Hwo Hth Hh HAq.
  pose proof (hold_A _ Hh) as HA.
  pose proof (hold_off c t th HT Hn Hh) as Hoff0.
  assert (Hc : cnt is_A (thrs c') = cnt is_A (thrs c) - 1).
  { rewrite Hth, (cnt_upd _ _ _ _ _ Hn), HA, HAq. lia. }
  pose proof (cnt_pos_of_nth is_A (thrs c) t th Hn HA) as Hpos.
  pose proof (ti_cnt c HT) as Hcnt.
  (* every other ticket holder is at distance >= 1 *)
  assert (Hoth : forall u uh, u <> t -> nth_error (thrs c) u = Some uh -> is_A uh = true ->
                 1 <= off (wout c) uh).
  { intros u uh Hne Hu HAu. pose proof (off_nonneg (wout c) uh).
    destruct (Z.eq_dec (off (wout c) uh) 0) as [E|E]; [|lia].
    exfalso. apply Hne. apply (ti_inj c HT u t uh th Hu Hn HAu HA). congruence. }
  constructor; rewrite ?Hwi, ?Hwo, ?Hc.
  - split; [apply (ti_rng c HT)|apply wrap_range].
  - apply diff_inc_r; [exact Hcnt|lia].
  - intros u uh Hu HAu. rewrite Hth in Hu.
    destruct (nth_upd_cases _ _ _ _ _ _ Hn Hu) as [[-> ->]|[Hne Hu']]; [congruence|].
    rewrite (off_dec _ _ HAu (Hoth u uh Hne Hu' HAu)).
    pose proof (ti_lt c HT u uh Hu' HAu). lia.
  - intros u v uh vh Hu Hv HAu HAv Ho. rewrite Hth in Hu, Hv.
    destruct (nth_upd_cases _ _ _ _ _ _ Hn Hu) as [[-> ->]|[Hne Hu']]; [congruence|].
    destruct (nth_upd_cases _ _ _ _ _ _ Hn Hv) as [[-> ->]|[Hne2 Hv']]; [congruence|].
    rewrite (off_dec _ _ HAu (Hoth u uh Hne Hu' HAu)) in Ho.
    rewrite (off_dec _ _ HAv (Hoth v vh Hne2 Hv' HAv)) in Ho.
    apply (ti_inj c HT u v uh vh Hu' Hv' HAu HAv). lia.
  - intros k Hk. destruct (ti_sur c HT (k + 1) ltac:(lia)) as (u & uh & Hu & HAu & Ho).
    assert (Hne : u <> t).
    { intros ->. rewrite Hn in Hu. inversion Hu; subst uh. lia. }
    exists u, uh. rewrite Hth, (nth_upd_other _ _ _ _ _ Hn Hne). repeat split; auto.
    rewrite (off_dec (wout c) uh HAu) by lia. lia.
  - intros u uh tk Hu Hpc. rewrite Hth in Hu.
    destruct (nth_upd_cases _ _ _ _ _ _ Hn Hu) as [[-> ->]|[Hne Hu']].
    + unfold is_A in HAq. rewrite Hpc in HAq. discriminate.
    + exfalso. apply Hne. apply (hold_unique c u t uh th HT Hu'); auto.
      unfold is_hold. rewrite Hpc. reflexivity.
  - intros u uh tk Hu Hpc. rewrite Hth in Hu.
    destruct (nth_upd_cases _ _ _ _ _ _ Hn Hu) as [[-> ->]|[Hne Hu']].
    + unfold is_A in HAq. rewrite Hpc in HAq. discriminate.
    + apply (ti_ww c HT u uh tk Hu' Hpc).
Qed.

(* ---- readers / present writer (rin / rout) ------------------------------ *)
Record RInv (c : cfg) : Prop := {
  ri_rng : 0 <= rin c < M32 /\ 0 <= rout c < M32;
  ri_rout : rout c mod 256 = 0;
  ri_low : rin c mod 256 = if 0 <? cnt is_wset (thrs c) then cur (wout c) else 0;
  ri_dif : (rin c - rin c mod 256 - rout c) mod M32 = 256 * cnt is_rfl (thrs c);
  ri_rw : forall t th w, nth_error (thrs c) t = Some th -> t_pc th = PRw w ->
            (w = 2 \/ w = 3) /\
            (cnt is_wset (thrs c) = 0 ->
             w = if 0 <? cnt is_wy (thrs c) then cur (wout c) else cur (wout c + 1));
  ri_wr : forall t th tk, nth_error (thrs c) t = Some th -> t_pc th = PWr tk ->
            0 <= tk < M32 /\ (tk - rout c) mod M32 = 256 * cnt (early (wout c)) (thrs c);
  ri_wcs : forall t th, nth_error (thrs c) t = Some th -> is_wcs th = true ->
            cnt (early (wout c)) (thrs c) = 0;
  ri_done : forall t th, nth_error (thrs c) t = Some th -> t_pc th = PDone -> t_rest th = [] }.

Record Inv (c : cfg) : Prop := {
  inv_len : Z.of_nat (length (thrs c)) < NB;
  inv_t : TInv c;
  inv_r : RInv c }.

Lemma wcs_wset th : is_wcs th = true -> is_wset th = true.
Proof. unfold is_wcs, is_wset. destruct (t_pc th); auto. Qed.
Lemma wset_hold th : is_wset th = true -> is_hold th = true.
Proof. unfold is_hold, is_wset. destruct (t_pc th); auto. Qed.
Lemma wy_hold th : is_wy th = true -> is_hold th = true.
Proof. unfold is_hold, is_wy. destruct (t_pc th); auto. Qed.
Lemma w1_hold th : is_w1 th = true -> is_hold th = true.
Proof. unfold is_hold, is_w1. destruct (t_pc th); auto. Qed.

Lemma cur_23 wo : cur wo = 2 \/ cur wo = 3.
Proof. unfold cur. lia. Qed.
Lemma cur_next wo : cur (wo + 1) <> cur wo /\ cur (wo + 1 + 1) = cur wo /\ cur (wrap (wo + 1)) = cur (wo + 1).
Proof. unfold cur, wrap. lia. Qed.

(* when thread t is the holder, nobody else is *)
Lemma only_holder c t th u uh (f : thr -> bool) : TInv c ->
  nth_error (thrs c) t = Some th -> is_hold th = true ->
  (forall x, f x = true -> is_hold x = true) ->
  u <> t -> nth_error (thrs c) u = Some uh -> f uh = false.
Proof.
  intros HT Hn Hh Hf Hne Hu. destruct (f uh) eqn:E; [|reflexivity].
  exfalso. apply Hne. apply (hold_unique c u t uh th HT Hu (Hf _ E) Hn Hh).
Qed.

Lemma cnt_only_holder c t th (f : thr -> bool) : TInv c ->
  nth_error (thrs c) t = Some th -> is_hold th = true ->
  (forall x, f x = true -> is_hold x = true) ->
  cnt f (thrs c) = if f th then 1 else 0.
Proof.
  intros HT Hn Hh Hf.
  pose proof (cnt_hold_le1 c HT) as H1. pose proof (cnt_mono f is_hold (thrs c) Hf) as H2.
  pose proof (cnt_nonneg f (thrs c)) as H3.
  destruct (f th) eqn:E.
  - pose proof (cnt_pos_of_nth f (thrs c) t th Hn E). lia.
  - apply cnt_zero_of_all. intros u uh Hu.
    destruct (Nat.eq_dec u t) as [->|Hne]; [congruence|].
    apply (only_holder c t th u uh f HT Hn Hh Hf Hne Hu).
Qed.

(* a step that touches neither rin, rout, wout nor the reader/writer regions *)
Lemma rinv_frame c c' t th q : TInv c -> RInv c -> nth_error (thrs c) t = Some th ->
  rin c' = rin c -> rout c' = rout c -> wout c' = wout c -> thrs c' = upd (thrs c) t q ->
  is_wset q = is_wset th -> is_wy q = is_wy th -> is_rfl q = is_rfl th ->
  (early (wout c) q = early (wout c) th \/ cnt is_wset (thrs c) = 0) ->
  (forall w, t_pc q = PRw w -> t_pc th = PRw w) ->
  (forall tk, t_pc q = PWr tk -> t_pc th = PWr tk) ->
  (is_wcs q = true -> is_wcs th = true \/ cnt (early (wout c)) (thrs c) = 0) ->
  (t_pc q = PDone -> t_rest q = []) ->
  RInv c'.
Proof.
  intros HT HR Hn Hri Hro Hwo Hth Hws Hwy Hrf Hea Hrw Hwr Hwc Hdn.
  assert (Hcw : cnt is_wset (thrs c') = cnt is_wset (thrs c)).
  { rewrite Hth, (cnt_upd _ _ _ _ _ Hn), Hws. lia. }
  assert (Hcy : cnt is_wy (thrs c') = cnt is_wy (thrs c)).
  { rewrite Hth, (cnt_upd _ _ _ _ _ Hn), Hwy. lia. }
  assert (Hcf : cnt is_rfl (thrs c') = cnt is_rfl (thrs c)).
  { rewrite Hth, (cnt_upd _ _ _ _ _ Hn), Hrf. lia. }
  assert (Hce : cnt is_wset (thrs c) = 0 \/
                cnt (early (wout c)) (thrs c') = cnt (early (wout c)) (thrs c)).
  { destruct Hea as [E|E]; [right|left; exact E].
    rewrite Hth, (cnt_upd _ _ _ _ _ Hn), E. lia. }
  assert (Hnow : forall u uh, nth_error (thrs c) u = Some uh -> is_wset uh = true ->
                 cnt (early (wout c)) (thrs c') = cnt (early (wout c)) (thrs c)).
  { intros u uh Hu Hs. destruct Hce as [E|E]; [|exact E].
    pose proof (cnt_pos_of_nth is_wset (thrs c) u uh Hu Hs). lia. }
  constructor; rewrite ?Hri, ?Hro, ?Hwo, ?Hcw, ?Hcy, ?Hcf.
  - apply (ri_rng c HR).
  - apply (ri_rout c HR).
  - apply (ri_low c HR).
  - apply (ri_dif c HR).
  - intros u uh w Hu Hpc. rewrite Hth in Hu.
    destruct (nth_upd_cases _ _ _ _ _ _ Hn Hu) as [[-> ->]|[Hne Hu']].
    + apply (ri_rw c HR t th w Hn (Hrw w Hpc)).
    + apply (ri_rw c HR u uh w Hu' Hpc).
  - intros u uh tk Hu Hpc. rewrite Hth in Hu.
    destruct (nth_upd_cases _ _ _ _ _ _ Hn Hu) as [[-> ->]|[Hne Hu']].
    + pose proof (Hwr tk Hpc) as Hpc'.
      rewrite (Hnow t th Hn) by (unfold is_wset; rewrite Hpc'; reflexivity).
      apply (ri_wr c HR t th tk Hn Hpc').
    + rewrite (Hnow u uh Hu') by (unfold is_wset; rewrite Hpc; reflexivity).
      apply (ri_wr c HR u uh tk Hu' Hpc).
  - intros u uh Hu Hw. rewrite Hth in Hu.
    destruct (nth_upd_cases _ _ _ _ _ _ Hn Hu) as [[-> ->]|[Hne Hu']].
    + rewrite (Hnow t th Hn) by (rewrite <- Hws; apply wcs_wset, Hw).
      destruct (Hwc Hw) as [Hw'|E]; [apply (ri_wcs c HR t th Hn Hw')|exact E].
    + rewrite (Hnow u uh Hu') by (apply wcs_wset, Hw).
      apply (ri_wcs c HR u uh Hu' Hw).
  - intros u uh Hu Hpc. rewrite Hth in Hu.
    destruct (nth_upd_cases _ _ _ _ _ _ Hn Hu) as [[-> ->]|[Hne Hu']].
    + apply Hdn, Hpc.
    + apply (ri_done c HR u uh Hu' Hpc).
Qed.

(* with a writer's bits present, the low byte of rin is cur; without, zero *)
Lemma low_bits c : RInv c ->
  (cnt is_wset (thrs c) = 0 /\ rin c mod 256 = 0 /\ rin c mod 4 = 0) \/
  (0 < cnt is_wset (thrs c) /\ rin c mod 256 = cur (wout c) /\ rin c mod 4 = cur (wout c)).
Proof.
  intros HR. pose proof (ri_low c HR) as Hl. pose proof (cnt_nonneg is_wset (thrs c)) as Hn.
  pose proof (cur_23 (wout c)) as H23.
  destruct (0 <? cnt is_wset (thrs c)) eqn:E; [right|left]; lia.
Qed.

(* rdlock: w = fetch_add(&L->rin, RINC) & WBITS and the first test of the wait loop *)
Lemma rinv_R0 c c' t th q : TInv c -> RInv c -> Z.of_nat (length (thrs c)) < NB ->
  nth_error (thrs c) t = Some th -> t_pc th = PR0 ->
  rin c' = wrap (rin c + RINC) -> rout c' = rout c -> wout c' = wout c ->
  thrs c' = upd (thrs c) t q ->
  t_pc q = (if (Z.land (rin c) WBITS =? 0) || negb (Z.land (rin c) WBITS =? Z.land (rin c') WBITS)
            then PRcs else PRw (Z.land (rin c) WBITS)) ->
  RInv c'.
Proof.
  intros HT HR Hlen Hn Hpc Hri Hro Hwo Hth Hq.
  pose proof (ri_rng c HR) as [Hrin Hrout].
  pose proof (wrap_range (rin c + RINC)) as Hrin'.
  rewrite Hri in Hq. rewrite !land_wbits in Hq by lia.
  assert (Hm4 : wrap (rin c + RINC) mod 4 = rin c mod 4) by (unfold wrap, RINC; lia).
  rewrite Hm4, Z.eqb_refl in Hq. cbn [negb] in Hq. rewrite orb_false_r in Hq.
  assert (Hws : is_wset th = false) by (unfold is_wset; rewrite Hpc; reflexivity).
  assert (Hwsq : is_wset q = false) by (unfold is_wset; rewrite Hq; destruct (_ =? _); reflexivity).
  assert (Hcw : cnt is_wset (thrs c') = cnt is_wset (thrs c)).
  { rewrite Hth, (cnt_upd _ _ _ _ _ Hn), Hws, Hwsq. lia. }
  assert (Hcy : cnt is_wy (thrs c') = cnt is_wy (thrs c)).
  { rewrite Hth, (cnt_upd _ _ _ _ _ Hn). unfold is_wy. rewrite Hpc, Hq. destruct (_ =? _); lia. }
  assert (Hcf : cnt is_rfl (thrs c') = cnt is_rfl (thrs c) + 1).
  { rewrite Hth, (cnt_upd _ _ _ _ _ Hn). unfold is_rfl. rewrite Hpc, Hq. destruct (_ =? _); lia. }
  assert (Hroom : cnt is_rfl (thrs c) <= Z.of_nat (length (thrs c)) - 1).
  { apply (cnt_lt_len is_rfl (thrs c) t th Hn). unfold is_rfl. rewrite Hpc. reflexivity. }
  pose proof (cnt_nonneg is_rfl (thrs c)) as Hnn.
  (* while a writer's bits are present the newcomer is not early *)
  assert (Hce : 0 < cnt is_wset (thrs c) ->
                t_pc q = PRw (cur (wout c)) /\
                cnt (early (wout c)) (thrs c') = cnt (early (wout c)) (thrs c)).
  { intros Hpos. destruct (low_bits c HR) as [(E & _)|(_ & _ & E4)]; [lia|].
    rewrite E4 in Hq. pose proof (cur_23 (wout c)) as H23.
    destruct (cur (wout c) =? 0) eqn:E0; [lia|]. split; [exact Hq|].
    rewrite Hth, (cnt_upd _ _ _ _ _ Hn). unfold early. rewrite Hpc, Hq, Z.eqb_refl. cbn [negb]. lia. }
  constructor; rewrite ?Hri, ?Hro, ?Hwo, ?Hcw, ?Hcy, ?Hcf.
  - split; [exact Hrin'|exact Hrout].
  - apply (ri_rout c HR).
  - unfold RINC. rewrite wrap_rinc_low. apply (ri_low c HR).
  - pose proof (ri_dif c HR) as Hd. unfold RINC, NB in *.
    assert (Hlo : wrap (rin c + 256) mod 256 = rin c mod 256) by apply wrap_rinc_low.
    rewrite Hlo.
    assert (Hx : wrap (rin c + 256) - rin c mod 256 = wrap (rin c - rin c mod 256 + 256)).
    { unfold wrap. lia. }
    rewrite Hx. replace (256 * (cnt is_rfl (thrs c) + 1)) with (256 * cnt is_rfl (thrs c) + 256) by lia.
    apply diff_rinc_l; [exact Hd|lia].
  - intros u uh w Hu Hpcu. rewrite Hth in Hu.
    destruct (nth_upd_cases _ _ _ _ _ _ Hn Hu) as [[-> ->]|[Hne Hu']].
    + destruct (low_bits c HR) as [(E & _ & E4)|(Hpos & _ & _)].
      * rewrite E4 in Hq. cbn in Hq. congruence.
      * destruct (Hce Hpos) as [Hq' _]. rewrite Hq' in Hpcu. inversion Hpcu; subst w.
        split; [apply cur_23|lia].
    + apply (ri_rw c HR u uh w Hu' Hpcu).
  - intros u uh tk Hu Hpcu. rewrite Hth in Hu.
    destruct (nth_upd_cases _ _ _ _ _ _ Hn Hu) as [[-> ->]|[Hne Hu']].
    + rewrite Hq in Hpcu. destruct (_ =? _); discriminate.
    + assert (Hpos : 0 < cnt is_wset (thrs c)).
      { apply (cnt_pos_of_nth is_wset (thrs c) u uh Hu'). unfold is_wset. rewrite Hpcu. reflexivity. }
      destruct (Hce Hpos) as [_ ->]. apply (ri_wr c HR u uh tk Hu' Hpcu).
  - intros u uh Hu Hw. rewrite Hth in Hu.
    destruct (nth_upd_cases _ _ _ _ _ _ Hn Hu) as [[-> ->]|[Hne Hu']].
    + unfold is_wcs in Hw. rewrite Hq in Hw. destruct (_ =? _); discriminate.
    + assert (Hpos : 0 < cnt is_wset (thrs c)).
      { apply (cnt_pos_of_nth is_wset (thrs c) u uh Hu'). apply wcs_wset, Hw. }
      destruct (Hce Hpos) as [_ ->]. apply (ri_wcs c HR u uh Hu' Hw).
  - intros u uh Hu Hpcu. rewrite Hth in Hu.
    destruct (nth_upd_cases _ _ _ _ _ _ Hn Hu) as [[-> ->]|[Hne Hu']].
    + rewrite Hq in Hpcu. destruct (_ =? _); discriminate.
    + apply (ri_done c HR u uh Hu' Hpcu).
Qed.

Definition is_begin (q : thr) : Prop :=
  (t_pc q = PDone /\ t_rest q = []) \/ t_pc q = PR0 \/ t_pc q = PW0.
Lemma begin_is_begin r : is_begin (begin r).
Proof. unfold is_begin. destruct r as [|[|] r]; cbn; auto. Qed.

Ltac begin_pc Hb := destruct Hb as [[Hb _]|[Hb|Hb]].

(* rdunlock: fetch_add(&L->rout, RINC) *)
Lemma rinv_Rx c c' t th q : TInv c -> RInv c ->
  nth_error (thrs c) t = Some th -> t_pc th = PRx ->
  rin c' = rin c -> rout c' = wrap (rout c + RINC) -> wout c' = wout c ->
  thrs c' = upd (thrs c) t q -> is_begin q ->
  RInv c'.
Proof.
  intros HT HR Hn Hpc Hri Hro Hwo Hth Hb.
  pose proof (ri_rng c HR) as [Hrin Hrout].
  assert (Hcw : cnt is_wset (thrs c') = cnt is_wset (thrs c)).
  { rewrite Hth, (cnt_upd _ _ _ _ _ Hn). unfold is_wset. rewrite Hpc. begin_pc Hb; rewrite Hb; lia. }
  assert (Hcy : cnt is_wy (thrs c') = cnt is_wy (thrs c)).
  { rewrite Hth, (cnt_upd _ _ _ _ _ Hn). unfold is_wy. rewrite Hpc. begin_pc Hb; rewrite Hb; lia. }
  assert (Hcf : cnt is_rfl (thrs c') = cnt is_rfl (thrs c) - 1).
  { rewrite Hth, (cnt_upd _ _ _ _ _ Hn). unfold is_rfl. rewrite Hpc. begin_pc Hb; rewrite Hb; lia. }
  assert (Hce : cnt (early (wout c)) (thrs c') = cnt (early (wout c)) (thrs c) - 1).
  { rewrite Hth, (cnt_upd _ _ _ _ _ Hn). unfold early. rewrite Hpc. begin_pc Hb; rewrite Hb; lia. }
  assert (Hf1 : 0 < cnt is_rfl (thrs c)).
  { apply (cnt_pos_of_nth _ _ t th Hn). unfold is_rfl. rewrite Hpc. reflexivity. }
  assert (He1 : 0 < cnt (early (wout c)) (thrs c)).
  { apply (cnt_pos_of_nth _ _ t th Hn). unfold early. rewrite Hpc. reflexivity. }
  constructor; rewrite ?Hri, ?Hro, ?Hwo, ?Hcw, ?Hcy, ?Hcf, ?Hce.
  - split; [exact Hrin|apply wrap_range].
  - unfold RINC. rewrite wrap_rinc_low. apply (ri_rout c HR).
  - apply (ri_low c HR).
  - unfold RINC. replace (256 * (cnt is_rfl (thrs c) - 1)) with (256 * cnt is_rfl (thrs c) - 256) by lia.
    apply diff_rinc_r; [apply (ri_dif c HR)|lia].
  - intros u uh w Hu Hpcu. rewrite Hth in Hu.
    destruct (nth_upd_cases _ _ _ _ _ _ Hn Hu) as [[-> ->]|[Hne Hu']].
    + begin_pc Hb; congruence.
    + apply (ri_rw c HR u uh w Hu' Hpcu).
  - intros u uh tk Hu Hpcu. rewrite Hth in Hu.
    destruct (nth_upd_cases _ _ _ _ _ _ Hn Hu) as [[-> ->]|[Hne Hu']].
    + begin_pc Hb; congruence.
    + destruct (ri_wr c HR u uh tk Hu' Hpcu) as [Hr Hd]. split; [exact Hr|].
      unfold RINC. replace (256 * (cnt (early (wout c)) (thrs c) - 1))
        with (256 * cnt (early (wout c)) (thrs c) - 256) by lia.
      apply diff_rinc_r; [exact Hd|lia].
  - intros u uh Hu Hw. rewrite Hth in Hu.
    destruct (nth_upd_cases _ _ _ _ _ _ Hn Hu) as [[-> ->]|[Hne Hu']].
    + unfold is_wcs in Hw. begin_pc Hb; rewrite Hb in Hw; discriminate.
    + pose proof (ri_wcs c HR u uh Hu' Hw). lia.
  - intros u uh Hu Hpcu. rewrite Hth in Hu.
    destruct (nth_upd_cases _ _ _ _ _ _ Hn Hu) as [[-> ->]|[Hne Hu']].
    + destruct Hb as [[_ Hb]|[Hb|Hb]]; congruence.
    + apply (ri_done c HR u uh Hu' Hpcu).
Qed.

(* wrlock: ticket = fetch_add(&L->rin, PRES | (ticket & PHID)) and the first test of the wait loop *)
Lemma rinv_W1 c c' t th q tk : TInv c -> RInv c ->
  nth_error (thrs c) t = Some th -> t_pc th = PW1 tk ->
  rin c' = wrap (rin c + Z.lor PRES (Z.land tk PHID)) -> rout c' = rout c -> wout c' = wout c ->
  thrs c' = upd (thrs c) t q ->
  t_pc q = (if rout c =? rin c then PWcs else PWr (rin c)) ->
  RInv c'.
Proof.
  intros HT HR Hn Hpc Hri Hro Hwo Hth Hq.
  pose proof (ri_rng c HR) as [Hrin Hrout].
  pose proof (ti_rng c HT) as [_ Hwout].
  assert (Hh : is_hold th = true) by (unfold is_hold; rewrite Hpc; reflexivity).
  pose proof (ti_w1 c HT t th tk Hn Hpc) as Htk. subst tk.
  rewrite lor_pres in Hri by lia. fold (cur (wout c)) in Hri.
  pose proof (cur_23 (wout c)) as H23.
  assert (Hw0 : cnt is_wset (thrs c) = 0).
  { rewrite (cnt_only_holder c t th is_wset HT Hn Hh wset_hold). unfold is_wset. rewrite Hpc. reflexivity. }
  assert (Hy0 : cnt is_wy (thrs c) = 0).
  { rewrite (cnt_only_holder c t th is_wy HT Hn Hh wy_hold). unfold is_wy. rewrite Hpc. reflexivity. }
  destruct (low_bits c HR) as [(_ & Hlo & _)|(Hpos & _)]; [|lia].
  assert (Hri' : rin c' = rin c + cur (wout c)) by (rewrite Hri; unfold wrap; lia).
  assert (Hcw : cnt is_wset (thrs c') = 1).
  { rewrite Hth, (cnt_upd _ _ _ _ _ Hn), Hw0. unfold is_wset. rewrite Hpc, Hq. destruct (_ =? _); lia. }
  assert (Hcy : cnt is_wy (thrs c') = 0).
  { rewrite Hth, (cnt_upd _ _ _ _ _ Hn), Hy0. unfold is_wy. rewrite Hpc, Hq. destruct (_ =? _); lia. }
  assert (Hcf : cnt is_rfl (thrs c') = cnt is_rfl (thrs c)).
  { rewrite Hth, (cnt_upd _ _ _ _ _ Hn). unfold is_rfl. rewrite Hpc, Hq. destruct (_ =? _); lia. }
  assert (Hce : cnt (early (wout c)) (thrs c') = cnt is_rfl (thrs c)).
  { rewrite Hth, (cnt_upd _ _ _ _ _ Hn). unfold early at 2 3. rewrite Hpc, Hq.
    replace (if match (if rout c =? rin c then PWcs else PWr (rin c)) with
                | PRw w => negb (w =? cur (wout c)) | PRcs | PRx => true | _ => false end
             then 1 else 0) with 0 by (destruct (_ =? _); reflexivity).
    rewrite Z.sub_0_r, Z.add_0_r. apply cnt_ext_in. intros u uh Hu.
    unfold early, is_rfl. destruct (t_pc uh) eqn:E; try reflexivity.
    destruct (ri_rw c HR u uh w Hu E) as [_ Hw]. specialize (Hw Hw0). rewrite Hy0 in Hw. change (0 <? 0) with false in Hw. cbv iota in Hw.
    pose proof (cur_next (wout c)) as [Hne _]. subst w.
    destruct (cur (wout c + 1) =? cur (wout c)) eqn:E2; [lia|reflexivity]. }
  pose proof (ri_dif c HR) as Hd. rewrite Hlo, Z.sub_0_r in Hd.
  pose proof (cnt_nonneg is_rfl (thrs c)) as Hnn.
  constructor; rewrite ?Hro, ?Hwo, ?Hcw, ?Hcy, ?Hcf, ?Hce.
  - split; [rewrite Hri; apply wrap_range|exact Hrout].
  - apply (ri_rout c HR).
  - rewrite Hri'. change (0 <? 1) with true. cbv iota. lia.
  - rewrite Hri'. replace ((rin c + cur (wout c)) mod 256) with (cur (wout c)) by lia.
    replace (rin c + cur (wout c) - cur (wout c)) with (rin c) by lia. exact Hd.
  - intros u uh w Hu Hpcu. rewrite Hth in Hu.
    destruct (nth_upd_cases _ _ _ _ _ _ Hn Hu) as [[-> ->]|[Hne Hu']].
    + rewrite Hq in Hpcu. destruct (_ =? _); discriminate.
    + split; [apply (ri_rw c HR u uh w Hu' Hpcu)|lia].
  - intros u uh tk Hu Hpcu. rewrite Hth in Hu.
    destruct (nth_upd_cases _ _ _ _ _ _ Hn Hu) as [[-> ->]|[Hne Hu']].
    + rewrite Hq in Hpcu. destruct (rout c =? rin c) eqn:E; [discriminate|].
      inversion Hpcu; subst tk. split; [exact Hrin|exact Hd].
    + exfalso. apply Hne. apply (hold_unique c u t uh th HT Hu'); auto.
      unfold is_hold. rewrite Hpcu. reflexivity.
  - intros u uh Hu Hw. rewrite Hth in Hu.
    destruct (nth_upd_cases _ _ _ _ _ _ Hn Hu) as [[-> ->]|[Hne Hu']].
    + unfold is_wcs in Hw. rewrite Hq in Hw. destruct (rout c =? rin c) eqn:E; [|discriminate].
      assert (rout c = rin c) by lia. rewrite H, Z.sub_diag in Hd. change (0 mod 4294967296) with 0 in Hd. lia.
    + exfalso. apply Hne. apply (hold_unique c u t uh th HT Hu'); auto.
      apply wset_hold, wcs_wset, Hw.
  - intros u uh Hu Hpcu. rewrite Hth in Hu.
    destruct (nth_upd_cases _ _ _ _ _ _ Hn Hu) as [[-> ->]|[Hne Hu']].
    + rewrite Hq in Hpcu. destruct (_ =? _); discriminate.
    + apply (ri_done c HR u uh Hu' Hpcu).
Qed.

(* wrunlock: fetch_and(&L->rin, 0xFFFFFF00) *)
Lemma rinv_Wx c c' t th q : TInv c -> RInv c ->
  nth_error (thrs c) t = Some th -> t_pc th = PWx ->
  rin c' = Z.land (rin c) RMASK -> rout c' = rout c -> wout c' = wout c ->
  thrs c' = upd (thrs c) t q -> t_pc q = PWy ->
  RInv c'.
Proof.
  intros HT HR Hn Hpc Hri Hro Hwo Hth Hq.
  pose proof (ri_rng c HR) as [Hrin Hrout].
  rewrite land_rmask in Hri by exact Hrin.
  assert (Hh : is_hold th = true) by (unfold is_hold; rewrite Hpc; reflexivity).
  assert (Hw1 : cnt is_wset (thrs c) = 1).
  { rewrite (cnt_only_holder c t th is_wset HT Hn Hh wset_hold). unfold is_wset. rewrite Hpc. reflexivity. }
  assert (Hy0 : cnt is_wy (thrs c) = 0).
  { rewrite (cnt_only_holder c t th is_wy HT Hn Hh wy_hold). unfold is_wy. rewrite Hpc. reflexivity. }
  assert (He0 : cnt (early (wout c)) (thrs c) = 0).
  { apply (ri_wcs c HR t th Hn). unfold is_wcs. rewrite Hpc. reflexivity. }
  assert (Hcw : cnt is_wset (thrs c') = 0).
  { rewrite Hth, (cnt_upd _ _ _ _ _ Hn), Hw1. unfold is_wset. rewrite Hpc, Hq. lia. }
  assert (Hcy : cnt is_wy (thrs c') = 1).
  { rewrite Hth, (cnt_upd _ _ _ _ _ Hn), Hy0. unfold is_wy. rewrite Hpc, Hq. lia. }
  assert (Hcf : cnt is_rfl (thrs c') = cnt is_rfl (thrs c)).
  { rewrite Hth, (cnt_upd _ _ _ _ _ Hn). unfold is_rfl. rewrite Hpc, Hq. lia. }
  constructor; rewrite ?Hro, ?Hwo, ?Hcw, ?Hcy, ?Hcf.
  - split; [rewrite Hri; lia|exact Hrout].
  - apply (ri_rout c HR).
  - rewrite Hri. change (0 <? 0) with false. cbv iota. lia.
  - rewrite Hri. replace ((rin c - rin c mod 256) mod 256) with 0 by lia.
    rewrite Z.sub_0_r. apply (ri_dif c HR).
  - intros u uh w Hu Hpcu. rewrite Hth in Hu.
    destruct (nth_upd_cases _ _ _ _ _ _ Hn Hu) as [[-> ->]|[Hne Hu']]; [congruence|].
    split; [apply (ri_rw c HR u uh w Hu' Hpcu)|]. intros _. change (0 <? 1) with true. cbv iota.
    pose proof (cnt_zero_all _ _ He0 u uh Hu') as He. unfold early in He. rewrite Hpcu in He.
    destruct (w =? cur (wout c)) eqn:E; [lia|discriminate].
  - intros u uh tk Hu Hpcu. rewrite Hth in Hu.
    destruct (nth_upd_cases _ _ _ _ _ _ Hn Hu) as [[-> ->]|[Hne Hu']]; [congruence|].
    exfalso. apply Hne. apply (hold_unique c u t uh th HT Hu'); auto.
    unfold is_hold. rewrite Hpcu. reflexivity.
  - intros u uh Hu Hw. rewrite Hth in Hu.
    destruct (nth_upd_cases _ _ _ _ _ _ Hn Hu) as [[-> ->]|[Hne Hu']].
    + unfold is_wcs in Hw. rewrite Hq in Hw. discriminate.
    + exfalso. apply Hne. apply (hold_unique c u t uh th HT Hu'); auto.
      apply wset_hold, wcs_wset, Hw.
  - intros u uh Hu Hpcu. rewrite Hth in Hu.
    destruct (nth_upd_cases _ _ _ _ _ _ Hn Hu) as [[-> ->]|[Hne Hu']]; [congruence|].
    apply (ri_done c HR u uh Hu' Hpcu).
Qed.

(* wrunlock: L->wout = L->wout + 1 *)
Lemma rinv_Wy c c' t th q : TInv c -> RInv c ->
  nth_error (thrs c) t = Some th -> t_pc th = PWy ->
  rin c' = rin c -> rout c' = rout c -> wout c' = wrap (wout c + 1) ->
  thrs c' = upd (thrs c) t q -> is_begin q ->
  RInv c'.
Proof.
  intros HT HR Hn Hpc Hri Hro Hwo Hth Hb.
  assert (Hh : is_hold th = true) by (unfold is_hold; rewrite Hpc; reflexivity).
  assert (Hw0 : cnt is_wset (thrs c) = 0).
  { rewrite (cnt_only_holder c t th is_wset HT Hn Hh wset_hold). unfold is_wset. rewrite Hpc. reflexivity. }
  assert (Hy1 : cnt is_wy (thrs c) = 1).
  { rewrite (cnt_only_holder c t th is_wy HT Hn Hh wy_hold). unfold is_wy. rewrite Hpc. reflexivity. }
  assert (Hcw : cnt is_wset (thrs c') = 0).
  { rewrite Hth, (cnt_upd _ _ _ _ _ Hn), Hw0. unfold is_wset. rewrite Hpc. begin_pc Hb; rewrite Hb; lia. }
  assert (Hcy : cnt is_wy (thrs c') = 0).
  { rewrite Hth, (cnt_upd _ _ _ _ _ Hn), Hy1. unfold is_wy. rewrite Hpc. begin_pc Hb; rewrite Hb; lia. }
  assert (Hcf : cnt is_rfl (thrs c') = cnt is_rfl (thrs c)).
  { rewrite Hth, (cnt_upd _ _ _ _ _ Hn). unfold is_rfl. rewrite Hpc. begin_pc Hb; rewrite Hb; lia. }
  constructor; rewrite ?Hri, ?Hro, ?Hwo, ?Hcw, ?Hcy, ?Hcf.
  - apply (ri_rng c HR).
  - apply (ri_rout c HR).
  - pose proof (ri_low c HR) as Hl. rewrite Hw0 in Hl. exact Hl.
  - apply (ri_dif c HR).
  - intros u uh w Hu Hpcu. rewrite Hth in Hu.
    destruct (nth_upd_cases _ _ _ _ _ _ Hn Hu) as [[-> ->]|[Hne Hu']]; [begin_pc Hb; congruence|].
    destruct (ri_rw c HR u uh w Hu' Hpcu) as [H23 Hw]. split; [exact H23|]. intros _.
    specialize (Hw Hw0). rewrite Hy1 in Hw. change (0 <? 1) with true in Hw. cbv iota in Hw.
    change (0 <? 0) with false. cbv iota. subst w. unfold cur, wrap. lia.
  - intros u uh tk Hu Hpcu. rewrite Hth in Hu.
    destruct (nth_upd_cases _ _ _ _ _ _ Hn Hu) as [[-> ->]|[Hne Hu']]; [begin_pc Hb; congruence|].
    exfalso. apply Hne. apply (hold_unique c u t uh th HT Hu'); auto.
    unfold is_hold. rewrite Hpcu. reflexivity.
  - intros u uh Hu Hw. rewrite Hth in Hu.
    destruct (nth_upd_cases _ _ _ _ _ _ Hn Hu) as [[-> ->]|[Hne Hu']].
    + unfold is_wcs in Hw. begin_pc Hb; rewrite Hb in Hw; discriminate.
    + exfalso. apply Hne. apply (hold_unique c u t uh th HT Hu'); auto.
      apply wset_hold, wcs_wset, Hw.
  - intros u uh Hu Hpcu. rewrite Hth in Hu.
    destruct (nth_upd_cases _ _ _ _ _ _ Hn Hu) as [[-> ->]|[Hne Hu']].
    + destruct Hb as [[_ Hb]|[Hb|Hb]]; congruence.
    + apply (ri_done c HR u uh Hu' Hpcu).
Qed.

(* ---- every step preserves the invariant --------------------------------- *)
Ltac prd Hpc :=
  unfold is_A, is_hold, is_wset, is_w1, is_wy, is_wcs, is_rfl, is_rcs, early, off;
  cbn [t_pc t_rest at_pc begin]; rewrite ?Hpc.

Theorem step_inv c t : Inv c -> Inv (step c t).
Proof.
  intros [Hlen HT HR]. unfold step.
  destruct (nth_error (thrs c) t) as [th|] eqn:Hn; [|constructor; assumption].
  destruct (t_pc th) eqn:Hpc.
  - (* PStart *)
    constructor; cbn [thrs].
    + rewrite (len_upd _ _ _ _ Hn). exact Hlen.
    + eapply (tinv_same c _ t th _ HT Hn); try reflexivity;
        destruct (t_rest th) as [|[|] r]; prd Hpc; try reflexivity; intros; discriminate.
    + eapply (rinv_frame c _ t th _ HT HR Hn); try reflexivity;
        destruct (t_rest th) as [|[|] r]; prd Hpc; try reflexivity; auto; intros; discriminate.
  - (* PR0 *)
    destruct ((Z.land (rin c) WBITS =? 0)
              || negb (Z.land (rin c) WBITS =? Z.land (wrap (rin c + RINC)) WBITS)) eqn:Hcond.
    + constructor; cbn [thrs].
      * rewrite (len_upd _ _ _ _ Hn). exact Hlen.
      * eapply (tinv_same c _ t th _ HT Hn); try reflexivity; prd Hpc; try reflexivity; intros; discriminate.
      * eapply (rinv_R0 c _ t th _ HT HR Hlen Hn Hpc); try reflexivity.
        cbn [rin t_pc at_pc]. rewrite Hcond. reflexivity.
    + constructor; cbn [thrs].
      * rewrite (len_upd _ _ _ _ Hn). exact Hlen.
      * eapply (tinv_same c _ t th _ HT Hn); try reflexivity; prd Hpc; try reflexivity; intros; discriminate.
      * eapply (rinv_R0 c _ t th _ HT HR Hlen Hn Hpc); try reflexivity.
        cbn [rin t_pc at_pc]. rewrite Hcond. reflexivity.
  - (* PRw *)
    destruct (w =? Z.land (rin c) WBITS) eqn:Hcond; [constructor; assumption|].
    constructor; cbn [thrs].
    + rewrite (len_upd _ _ _ _ Hn). exact Hlen.
    + eapply (tinv_same c _ t th _ HT Hn); try reflexivity; prd Hpc; try reflexivity; intros; discriminate.
    + eapply (rinv_frame c _ t th _ HT HR Hn); try reflexivity; prd Hpc; try reflexivity;
        try (intros; discriminate).
      pose proof (ri_rng c HR) as [Hrin _]. rewrite land_wbits in Hcond by lia.
      destruct (low_bits c HR) as [(E & _)|(_ & _ & E4)]; [right; exact E|left].
      rewrite E4 in Hcond. rewrite Hcond. reflexivity.
  - (* PRcs *)
    constructor; cbn [thrs].
    + rewrite (len_upd _ _ _ _ Hn). exact Hlen.
    + eapply (tinv_same c _ t th _ HT Hn); try reflexivity; prd Hpc; try reflexivity; intros; discriminate.
    + eapply (rinv_frame c _ t th _ HT HR Hn); try reflexivity; prd Hpc; try reflexivity; auto;
        intros; discriminate.
  - (* PRx *)
    constructor; cbn [thrs].
    + rewrite (len_upd _ _ _ _ Hn). exact Hlen.
    + eapply (tinv_same c _ t th _ HT Hn); try reflexivity;
        destruct (t_rest th) as [|[|] r]; prd Hpc; try reflexivity; intros; discriminate.
    + eapply (rinv_Rx c _ t th _ HT HR Hn Hpc); try reflexivity. apply begin_is_begin.
  - (* PW0 *)
    pose proof (ti_rng c HT) as [Hwin Hwout].
    constructor; cbn [thrs].
    + rewrite (len_upd _ _ _ _ Hn). exact Hlen.
    + eapply (tinv_take c _ t th _ HT Hn Hlen); try reflexivity; prd Hpc; try reflexivity;
        destruct (wout c =? win c) eqn:E; try reflexivity; intros tk' Hq; inversion Hq; subst; lia.
    + eapply (rinv_frame c _ t th _ HT HR Hn); try reflexivity; prd Hpc;
        destruct (wout c =? win c) eqn:E; try reflexivity; auto; intros; discriminate.
  - (* PWw *)
    destruct (wout c =? tk) eqn:Hcond; [|constructor; assumption].
    constructor; cbn [thrs].
    + rewrite (len_upd _ _ _ _ Hn). exact Hlen.
    + eapply (tinv_same c _ t th _ HT Hn); try reflexivity; prd Hpc; try reflexivity.
      * intros tk' Hq. inversion Hq; subst. lia.
      * intros; discriminate.
    + eapply (rinv_frame c _ t th _ HT HR Hn); try reflexivity; prd Hpc; try reflexivity; auto;
        intros; discriminate.
  - (* PW1 *)
    assert (Hoff : off (wout c) th = 0).
    { apply (hold_off c t th HT Hn). prd Hpc. reflexivity. }
    unfold off in Hoff. rewrite Hpc in Hoff.
    destruct (rout c =? rin c) eqn:Hcond.
    + constructor; cbn [thrs].
      * rewrite (len_upd _ _ _ _ Hn). exact Hlen.
      * eapply (tinv_same c _ t th _ HT Hn); try reflexivity; prd Hpc; try reflexivity;
          try (intros; discriminate). symmetry; exact Hoff.
      * eapply (rinv_W1 c _ t th _ tk HT HR Hn Hpc); try reflexivity.
        cbn [t_pc at_pc]. rewrite Hcond. reflexivity.
    + constructor; cbn [thrs].
      * rewrite (len_upd _ _ _ _ Hn). exact Hlen.
      * eapply (tinv_same c _ t th _ HT Hn); try reflexivity; prd Hpc; try reflexivity;
          try (intros; discriminate). symmetry; exact Hoff.
      * eapply (rinv_W1 c _ t th _ tk HT HR Hn Hpc); try reflexivity.
        cbn [t_pc at_pc]. rewrite Hcond. reflexivity.
  - (* PWr *)
    destruct (rout c =? tk) eqn:Hcond; [|constructor; assumption].
    constructor; cbn [thrs].
    + rewrite (len_upd _ _ _ _ Hn). exact Hlen.
    + eapply (tinv_same c _ t th _ HT Hn); try reflexivity; prd Hpc; try reflexivity; intros; discriminate.
    + eapply (rinv_frame c _ t th _ HT HR Hn); try reflexivity; prd Hpc; try reflexivity; auto;
        try (intros; discriminate).
      intros _. right. destruct (ri_wr c HR t th tk Hn Hpc) as [Hr Hd].
      assert (rout c = tk) by lia. subst tk. rewrite Z.sub_diag in Hd.
      change (0 mod 4294967296) with 0 in Hd. change (cnt (early (wout c)) (thrs c) = 0). lia.
  - (* PWcs *)
    constructor; cbn [thrs].
    + rewrite (len_upd _ _ _ _ Hn). exact Hlen.
    + eapply (tinv_same c _ t th _ HT Hn); try reflexivity; prd Hpc; try reflexivity; intros; discriminate.
    + eapply (rinv_frame c _ t th _ HT HR Hn); try reflexivity; prd Hpc; try reflexivity; auto;
        intros; discriminate.
  - (* PWx *)
    constructor; cbn [thrs].
    + rewrite (len_upd _ _ _ _ Hn). exact Hlen.
    + eapply (tinv_same c _ t th _ HT Hn); try reflexivity; prd Hpc; try reflexivity; intros; discriminate.
    + eapply (rinv_Wx c _ t th _ HT HR Hn Hpc); reflexivity.
  - (* PWy *)
    constructor; cbn [thrs].
    + rewrite (len_upd _ _ _ _ Hn). exact Hlen.
    + eapply (tinv_release c _ t th _ HT Hn); try reflexivity.
      * prd Hpc. reflexivity.
      * destruct (t_rest th) as [|[|] r]; reflexivity.
    + eapply (rinv_Wy c _ t th _ HT HR Hn Hpc); try reflexivity. apply begin_is_begin.
  - (* PDone *) constructor; assumption.
Qed.

Lemma run_inv sched c : Inv c -> Inv (run c sched).
Proof. unfold run. apply fold_left_inv. intros a b. apply step_inv. Qed.

(* a quiescent lock (a read cycles and b write cycles served) with fewer than 2^24 threads about to start *)
Lemma init_inv a b progs : Z.of_nat (length progs) < NB -> Inv (init_at a b progs).
Proof.
  intros Hlen.
  assert (Hno : forall f : thr -> bool, (forall r, f (at_pc PStart r) = false) ->
                cnt f (map (at_pc PStart) progs) = 0).
  { intros f Hf. apply cnt_zero_of_all. intros t p Hp.
    destruct (nth_error_map_inv _ _ _ _ Hp) as (x & _ & <-). apply Hf. }
  assert (Hst : forall t th, nth_error (map (at_pc PStart) progs) t = Some th -> t_pc th = PStart).
  { intros t th Hp. destruct (nth_error_map_inv _ _ _ _ Hp) as (x & _ & <-). reflexivity. }
  constructor; unfold init_at; cbn [thrs rin rout win wout].
  - rewrite map_length. exact Hlen.
  - constructor; cbn [thrs rin rout win wout]; rewrite ?(Hno is_A) by reflexivity.
    + split; apply wrap_range.
    + rewrite Z.sub_diag. reflexivity.
    + intros t th Hp HA. unfold is_A in HA. rewrite (Hst t th Hp) in HA. discriminate.
    + intros t u th uh Hp _ HA. unfold is_A in HA. rewrite (Hst t th Hp) in HA. discriminate.
    + intros k Hk. lia.
    + intros t th tk Hp Hpc. rewrite (Hst t th Hp) in Hpc. discriminate.
    + intros t th tk Hp Hpc. rewrite (Hst t th Hp) in Hpc. discriminate.
  - constructor; cbn [thrs rin rout win wout];
      rewrite ?(Hno is_wset), ?(Hno is_rfl), ?(Hno is_wy) by reflexivity.
    + split; apply wrap_range.
    + unfold wrap, RINC. lia.
    + change (0 <? 0) with false. cbv iota. unfold wrap, RINC. lia.
    + unfold wrap, RINC. lia.
    + intros t th w Hp Hpc. rewrite (Hst t th Hp) in Hpc. discriminate.
    + intros t th tk Hp Hpc. rewrite (Hst t th Hp) in Hpc. discriminate.
    + intros t th Hp Hw. unfold is_wcs in Hw. rewrite (Hst t th Hp) in Hw. discriminate.
    + intros t th Hp Hpc. rewrite (Hst t th Hp) in Hpc. discriminate.
Qed.

Theorem reachable_inv a b progs sched : Z.of_nat (length progs) < NB ->
  Inv (run (init_at a b progs) sched).
Proof. intros H. apply run_inv, init_inv, H. Qed.
