(* The C33 statements over reachable states: a lock that has served a read and b
   write cycles, any number (< 2^24) of threads with arbitrary programs of
   lock/unlock cycles, any schedule. *)
From PV Require Import Base.Tac Base.ListX RWLock.RWLockDefs RWLock.RWLockBase RWLock.RWLockInv
  RWLock.RWLockSafety RWLock.RWLockProgress RWLock.RWLockFair RWLock.RWLockWait.
Local Open Scope Z_scope.

Definition reach (a b : Z) (progs : list (list kind)) (sched : list nat) : cfg :=
  run (init_at a b progs) sched.

Lemma reach_inv a b progs sched : Z.of_nat (length progs) < NB -> Inv (reach a b progs sched).
Proof. apply reachable_inv. Qed.

Lemma reach_len a b progs sched : length (thrs (reach a b progs sched)) = length progs.
Proof. unfold reach. rewrite run_len. unfold init_at. cbn [thrs]. apply map_length. Qed.

Theorem mutual_exclusion a b progs sched : Z.of_nat (length progs) < NB ->
  let c := reach a b progs sched in
  cnt is_wcs (thrs c) <= 1 /\ (0 < cnt is_wcs (thrs c) -> cnt is_rcs (thrs c) = 0).
Proof. intros H. apply excl, reach_inv, H. Qed.

Theorem log_excl a b progs sched : Z.of_nat (length progs) < NB ->
  let c := reach a b progs sched in
  occ (log c) = Some (cnt is_rin (thrs c), cnt is_win (thrs c)).
Proof. apply log_exclusion. Qed.

Theorem wout_one_writer a b progs sched t u th uh : Z.of_nat (length progs) < NB ->
  let c := reach a b progs sched in
  nth_error (thrs c) t = Some th -> t_pc th = PWy ->
  nth_error (thrs c) u = Some uh -> is_hold uh = true -> u = t.
Proof. intros H c. apply wout_single_writer, reach_inv, H. Qed.

Theorem no_deadlock a b progs sched : Z.of_nat (length progs) < NB ->
  let c := reach a b progs sched in
  all_done c = true \/ exists t th, nth_error (thrs c) t = Some th /\ enabled c th = true.
Proof. intros H. apply deadlock_free, reach_inv, H. Qed.

(* "enabled" is exactly "the step changes the state" *)
Theorem enabled_meaning c t th : nth_error (thrs c) t = Some th ->
  (enabled c th = false -> step c t = c) /\ (enabled c th = true -> mu (step c t) < mu c).
Proof.
  intros Hn. split; [apply (step_disabled c t th Hn)|].
  destruct (step_mu c t) as [_ H]. apply (H th Hn).
Qed.

Theorem quiescent a b progs sched : Z.of_nat (length progs) < NB ->
  let c := reach a b progs sched in
  all_done c = true ->
  rin c = wrap (RINC * (a + totalR progs)) /\ rout c = rin c /\
  win c = wrap (b + totalW progs) /\ wout c = win c.
Proof. apply quiescent_counters. Qed.

Theorem stable a b progs sched t u th : Z.of_nat (length progs) < NB ->
  let c := reach a b progs sched in
  nth_error (thrs c) t = Some th -> enabled c th = true -> u <> t ->
  nth_error (thrs (step c u)) t = Some th /\ enabled (step c u) th = true.
Proof. intros H c. apply enabled_stable, reach_inv, H. Qed.

Theorem fair_completion a b progs sched rounds : Z.of_nat (length progs) < NB ->
  let c := reach a b progs sched in
  (forall s, In s rounds -> covers (length progs) s) ->
  mu (init_at a b progs) <= Z.of_nat (length rounds) ->
  all_done (run c (concat rounds)) = true.
Proof.
  intros H c Hcov Hmu. apply fair_termination.
  - apply reach_inv, H.
  - unfold c. rewrite reach_len. exact Hcov.
  - pose proof (run_mu_le sched (init_at a b progs)). unfold c, reach. lia.
Qed.

Theorem reader_overtaken_once a b progs sched s t w : Z.of_nat (length progs) < NB ->
  let c := reach a b progs sched in
  rd_waits t w c -> stays (rd_waits t w) c s ->
  wents (log (run c s)) <= wents (log c) + 1.
Proof. intros H c. apply reader_bypass, reach_inv, H. Qed.

Theorem writer_overtaken_by_phase a b progs sched s t tk : Z.of_nat (length progs) < NB ->
  let c := reach a b progs sched in
  wr_waits t tk c -> stays (wr_waits t tk) c s ->
  wents (log (run c s)) = wents (log c) /\
  rents (log (run c s)) + cnt (is_erw (wout c)) (thrs (run c s)) =
    rents (log c) + cnt (is_erw (wout c)) (thrs c) /\
  256 * cnt (is_erw (wout c)) (thrs c) <= (tk - rout c) mod M32.
Proof. intros H c. apply writer_bypass, reach_inv, H. Qed.

Theorem writers_fifo a b progs sched s t tk : Z.of_nat (length progs) < NB ->
  let c := reach a b progs sched in
  ww_waits t tk c -> stays (ww_waits t tk) c s ->
  wents (log (run c s)) <= wents (log c) + ahead c tk /\
  ahead c tk <= (tk - wout c) mod M32 < cnt is_A (thrs c).
Proof. intros H c. apply writer_fifo, reach_inv, H. Qed.

(* bounded waiting: a writer that holds a ticket with k tickets before its own enters the
   critical section within (3N+8)(k+1) rounds (N threads), whatever programs the others run *)
Theorem writer_bounded_wait a b progs sched rounds t : Z.of_nat (length progs) < NB ->
  let c := reach a b progs sched in
  let N := Z.of_nat (length progs) in
  waitingW t c ->
  (forall s, In s rounds -> covers (length progs) s) ->
  (3 * N + 8) * (toff c t + 1) <= Z.of_nat (length rounds) ->
  ents t (log c) < ents t (log (run c (concat rounds))).
Proof.
  intros H c N Hw Hcov Hr. apply writer_wait_rounds.
  - apply reach_inv, H.
  - exact Hw.
  - unfold c. rewrite reach_len. exact Hcov.
  - pose proof (rho_bound c t) as Hb.
    assert (E : NN c = N) by (unfold NN, c, N; rewrite reach_len; reflexivity).
    rewrite E in Hb. lia.
Qed.

Theorem reader_phase_bound_refuted_reach :
  exists progs sched s t tk,
    Z.of_nat (length progs) < NB /\
    let c := reach 0 0 progs sched in
    ww_waits t tk c /\ stays (ww_waits t tk) c s /\
    (tk - wout c) mod M32 = 1 /\ cnt is_rfl (thrs c) = 0 /\
    rents (log (run c s)) > rents (log c) + ((tk - wout c) mod M32 + 1) * Z.of_nat (length progs).
Proof. exact reader_phase_bound_refuted. Qed.
