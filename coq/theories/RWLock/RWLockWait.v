(* Bounded waiting of the read-write lock model under fair rounds, and the
   refutation of a schedule-independent bound on the readers that overtake a
   writer waiting for its ticket.

   rho c t ranks how far writer t (holding a ticket, not yet inside) is from
   entering: (3N+8) per ticket before its own, plus the progress of the writer
   whose ticket is being served (the "gate"): not yet past the ticket wait,
   about to set its bits, draining the readers counted in its ticket (3 steps
   each at most), inside, clearing its bits, incrementing wout.  No step of any
   thread increases rho, and there is always a thread that can move and whose
   step decreases it; that thread stays so until it moves.  Hence every round
   that schedules each thread at least once decreases rho. *)
From PV Require Import Base.Tac Base.ListX RWLock.RWLockDefs RWLock.RWLockBase RWLock.RWLockInv
  RWLock.RWLockSafety RWLock.RWLockProgress RWLock.RWLockFair.
Local Open Scope Z_scope.

Ltac Zify.zify_post_hook ::= Z.div_mod_to_equations.

Definition is_pwx (th : thr) : bool := match t_pc th with PWx => true | _ => false end.

(* steps an early reader still needs before it is counted in rout *)
Definition erem (wo : Z) (th : thr) : Z :=
  match t_pc th with PRw w => if w =? cur wo then 0 else 3 | PRcs => 2 | PRx => 1 | _ => 0 end.

Definition NN (c : cfg) : Z := Z.of_nat (length (thrs c)).

Definition gaten (n : Z) (c : cfg) : Z :=
  if 0 <? cnt is_wy (thrs c) then 1
  else if 0 <? cnt is_pwx (thrs c) then 2
  else if 0 <? cnt is_win (thrs c) then 3
  else if 0 <? cnt is_wr (thrs c) then 4 + sumz (erem (wout c)) (thrs c)
  else if 0 <? cnt is_w1 (thrs c) then 3 * n + 6
  else 3 * n + 7.
Definition gate (c : cfg) : Z := gaten (NN c) c.

Definition toff (c : cfg) (t : nat) : Z :=
  match nth_error (thrs c) t with Some th => off (wout c) th | None => 0 end.

Definition rho (c : cfg) (t : nat) : Z := (3 * NN c + 8) * toff c t + gate c.

(* writer t holds a ticket and has not entered yet *)
Definition is_ww (th : thr) : bool := match t_pc th with PWw _ | PW1 _ | PWr _ => true | _ => false end.
Definition waitingW (t : nat) (c : cfg) : Prop :=
  exists th, nth_error (thrs c) t = Some th /\ is_ww th = true.

(* the thread whose step moves the gate *)
Definition desig (c : cfg) (th : thr) : bool :=
  (is_A th && (off (wout c) th =? 0)) || ((0 <? cnt is_wr (thrs c)) && (0 <? erem (wout c) th)).

Lemma hold_partition l :
  cnt is_hold l = cnt is_w1 l + cnt is_wr l + cnt is_win l + cnt is_pwx l + cnt is_wy l.
Proof.
  induction l as [|x l IH]; [reflexivity|]. rewrite !cnt_cons, IH.
  unfold is_hold, is_w1, is_wr, is_win, is_pwx, is_wy. destruct (t_pc x); lia.
Qed.
Lemma wset_partition l : cnt is_wset l = cnt is_wr l + cnt is_win l + cnt is_pwx l.
Proof.
  induction l as [|x l IH]; [reflexivity|]. rewrite !cnt_cons, IH.
  unfold is_wset, is_wr, is_win, is_pwx. destruct (t_pc x); lia.
Qed.

Lemma erem_bounds wo th : 0 <= erem wo th <= 3 /\ (0 < erem wo th <-> early wo th = true).
Proof.
  unfold erem, early. destruct (t_pc th); try (split; [lia|split; [lia|discriminate]]).
  - destruct (w =? cur wo); cbn [negb]; split; try lia; split; try lia; try discriminate; auto.
  - split; [lia|]. split; auto. lia.
  - split; [lia|]. split; auto. lia.
Qed.

Lemma erem_sum_le wo l : 0 <= sumz (erem wo) l <= 3 * cnt is_rfl l.
Proof.
  induction l as [|x l IH]; cbn [sumz]; [rewrite cnt_nil; lia|]. rewrite cnt_cons.
  pose proof (erem_bounds wo x) as [Hb _]. unfold erem, is_rfl in *. destruct (t_pc x); lia.
Qed.

Lemma erem_sum_zero wo l : cnt (early wo) l = 0 -> sumz (erem wo) l = 0.
Proof.
  induction l as [|x l IH]; cbn [sumz]; [reflexivity|]. rewrite cnt_cons. intros H.
  pose proof (cnt_nonneg (early wo) l). pose proof (erem_bounds wo x) as [Hb Hi].
  destruct (early wo x) eqn:E; [lia|]. rewrite IH by lia.
  destruct (Z.eq_dec (erem wo x) 0); [lia|]. assert (0 < erem wo x) by lia. apply Hi in H1. congruence.
Qed.

(* the state of the writer past the ticket wait, as counts *)
Lemma hold_mode c : TInv c ->
  let l := thrs c in
  (cnt is_w1 l = 0 /\ cnt is_wr l = 0 /\ cnt is_win l = 0 /\ cnt is_pwx l = 0 /\ cnt is_wy l = 0 /\ cnt is_hold l = 0) \/
  (cnt is_w1 l = 1 /\ cnt is_wr l = 0 /\ cnt is_win l = 0 /\ cnt is_pwx l = 0 /\ cnt is_wy l = 0 /\ cnt is_hold l = 1) \/
  (cnt is_w1 l = 0 /\ cnt is_wr l = 1 /\ cnt is_win l = 0 /\ cnt is_pwx l = 0 /\ cnt is_wy l = 0 /\ cnt is_hold l = 1) \/
  (cnt is_w1 l = 0 /\ cnt is_wr l = 0 /\ cnt is_win l = 1 /\ cnt is_pwx l = 0 /\ cnt is_wy l = 0 /\ cnt is_hold l = 1) \/
  (cnt is_w1 l = 0 /\ cnt is_wr l = 0 /\ cnt is_win l = 0 /\ cnt is_pwx l = 1 /\ cnt is_wy l = 0 /\ cnt is_hold l = 1) \/
  (cnt is_w1 l = 0 /\ cnt is_wr l = 0 /\ cnt is_win l = 0 /\ cnt is_pwx l = 0 /\ cnt is_wy l = 1 /\ cnt is_hold l = 1).
Proof.
  intros HT l. pose proof (cnt_hold_le1 c HT). pose proof (hold_partition l). fold l in H.
  pose proof (cnt_nonneg is_w1 l). pose proof (cnt_nonneg is_wr l). pose proof (cnt_nonneg is_win l).
  pose proof (cnt_nonneg is_pwx l). pose proof (cnt_nonneg is_wy l).
  destruct (Z.eq_dec (cnt is_w1 l) 1); [right; left; lia|].
  destruct (Z.eq_dec (cnt is_wr l) 1); [right; right; left; lia|].
  destruct (Z.eq_dec (cnt is_win l) 1); [right; right; right; left; lia|].
  destruct (Z.eq_dec (cnt is_pwx l) 1); [right; right; right; right; left; lia|].
  destruct (Z.eq_dec (cnt is_wy l) 1); [right; right; right; right; right; lia|].
  left; lia.
Qed.

Lemma NN_step c u : NN (step c u) = NN c.
Proof. unfold NN. rewrite step_len. reflexivity. Qed.

(* the distance of t's ticket only changes when wout is incremented *)
Lemma toff_step c t u : Inv c -> waitingW t c ->
  (forall uh, nth_error (thrs c) u = Some uh -> t_pc uh <> PWy) -> toff (step c u) t = toff c t.
Proof.
  intros [Hlen HT HR] (th & Hn & Hw) Hny. unfold toff. rewrite Hn.
  destruct (Nat.eq_dec u t) as [->|Hne].
  - unfold step. rewrite Hn. unfold is_ww in Hw. unfold off.
    destruct (t_pc th) eqn:Hpc; try discriminate.
    + destruct (wout c =? tk); cbn [thrs wout]; [|rewrite Hn, Hpc; reflexivity].
      rewrite (nth_upd_same _ _ _ _ Hn). reflexivity.
    + pose proof (ti_w1 c HT t th tk Hn Hpc). subst tk. rewrite Z.sub_diag.
      destruct (rout c =? rin c); cbn [thrs wout]; rewrite (nth_upd_same _ _ _ _ Hn); reflexivity.
    + destruct (rout c =? tk); cbn [thrs wout]; [|rewrite Hn, Hpc; reflexivity].
      rewrite (nth_upd_same _ _ _ _ Hn). reflexivity.
  - rewrite (step_other c u t Hne), Hn.
    destruct (step_words c u (Build_Inv c Hlen HT HR)) as (_ & [E|(uh & Hu & Hpc)] & _).
    + rewrite E. reflexivity.
    + exfalso. apply (Hny uh Hu Hpc).
Qed.

Lemma toff_step_wy c t u uh : Inv c -> waitingW t c ->
  nth_error (thrs c) u = Some uh -> t_pc uh = PWy -> toff (step c u) t = toff c t - 1.
Proof.
  intros [Hlen HT HR] (th & Hn & Hw) Hu Hpc.
  assert (Hhu : is_hold uh = true) by (unfold is_hold; rewrite Hpc; reflexivity).
  assert (Hne : u <> t).
  { intros ->. rewrite Hn in Hu. inversion Hu; subst uh. unfold is_ww in Hw. rewrite Hpc in Hw. discriminate. }
  assert (HA : is_A th = true) by (unfold is_ww in Hw; unfold is_A; destruct (t_pc th); auto; discriminate).
  assert (H1 : 1 <= off (wout c) th).
  { pose proof (off_nonneg (wout c) th). destruct (Z.eq_dec (off (wout c) th) 0) as [E|E]; [|lia].
    exfalso. apply Hne. apply (ti_inj c HT u t uh th Hu Hn (hold_A _ Hhu) HA).
    rewrite (hold_off c u uh HT Hu Hhu). lia. }
  unfold toff. rewrite (step_other c u t Hne), Hn.
  assert (Hwo : wout (step c u) = wrap (wout c + 1)).
  { unfold step. rewrite Hu, Hpc. reflexivity. }
  rewrite Hwo. apply (off_dec (wout c) th HA H1).
Qed.

Ltac prune :=
  repeat match goal with
  | |- context[if ?b then _ else _] => let H := fresh "Hb" in destruct b eqn:H; try (exfalso; lia)
  end.

Lemma waiting_A t c : waitingW t c -> 0 < cnt is_A (thrs c).
Proof.
  intros (th & Hn & Hw). apply (cnt_pos_of_nth _ _ t th Hn).
  unfold is_ww in Hw. unfold is_A. destruct (t_pc th); auto; discriminate.
Qed.

(* while a writer is draining readers, rin's low bits are its bits *)
Lemma wr_bits c : RInv c -> 0 < cnt is_wr (thrs c) ->
  Z.land (rin c) WBITS = cur (wout c) /\ cur (wout c) <> 0 /\
  Z.land (wrap (rin c + RINC)) WBITS = cur (wout c).
Proof.
  intros HR Hpos. pose proof (ri_rng c HR) as [Hrin _]. pose proof (wrap_range (rin c + RINC)).
  pose proof (wset_partition (thrs c)). pose proof (cnt_nonneg is_win (thrs c)).
  pose proof (cnt_nonneg is_pwx (thrs c)). pose proof (cur_23 (wout c)).
  rewrite !land_wbits by lia.
  destruct (low_bits c HR) as [(E & _)|(_ & _ & E4)]; [lia|].
  repeat split; try lia. unfold wrap, RINC. lia.
Qed.

Ltac gfin Hu :=
  unfold gaten; cbn [thrs wout];
  rewrite ?(cnt_upd _ _ _ _ _ Hu), ?(sumz_upd _ _ _ _ _ Hu);
  cbn [is_wy is_pwx is_win is_wr is_w1 erem t_pc t_rest at_pc begin].

Lemma rho_step c t u : Inv c -> waitingW t c ->
  rho (step c u) t <= rho c t /\
  (forall uh, nth_error (thrs c) u = Some uh -> enabled c uh = true -> desig c uh = true ->
     rho (step c u) t < rho c t).
Proof.
  intros HI Hw. pose proof HI as [Hlen HT HR].
  destruct (nth_error (thrs c) u) as [uh|] eqn:Hu.
  2:{ unfold step. rewrite Hu. split; [lia|intros; discriminate]. }
  unfold rho, gate. rewrite NN_step.
  pose proof (waiting_A t c Hw) as HApos.
  assert (HN : 1 <= NN c).
  { unfold NN. assert (u < length (thrs c))%nat; [|lia]. apply (proj1 (nth_error_Some (thrs c) u)). congruence. }
  assert (Htoff : 0 <= toff c t) by (unfold toff; destruct (nth_error (thrs c) t); [apply off_nonneg|lia]).
  pose proof (erem_sum_le (wout c) (thrs c)) as Hsum.
  pose proof (ti_rng c HT) as [Hwin Hwout]. pose proof (ti_cnt c HT) as Hcnt.
  pose proof (cnt_le_len is_A (thrs c)) as HAle. unfold NB in Hlen.
  pose proof (cnt_nonneg is_wr (thrs c)) as Hwrn.
  set (K := 3 * NN c + 8) in *. set (T := toff c t) in *.
  destruct uh as [p r].
  assert (Hstrict : forall G G', G' < G ->
            K * T + G' <= K * T + G /\
            (forall uh, Some {| t_pc := p; t_rest := r |} = Some uh -> enabled c uh = true -> desig c uh = true ->
               K * T + G' < K * T + G)).
  { intros G G' H. split; [lia|intros; lia]. }
  assert (Hsame : forall G G', G' = G -> (enabled c {| t_pc := p; t_rest := r |} = true ->
                                           desig c {| t_pc := p; t_rest := r |} = true -> False) ->
            K * T + G' <= K * T + G /\
            (forall uh, Some {| t_pc := p; t_rest := r |} = Some uh -> enabled c uh = true -> desig c uh = true ->
               K * T + G' < K * T + G)).
  { intros G G' H Hno. split; [lia|]. intros uh E He Hd. inversion E; subst uh. exfalso. apply Hno; assumption. }
  assert (Hmode := hold_mode c HT). cbv zeta in Hmode.
  assert (HT' : toff (step c u) t = if is_wy {| t_pc := p; t_rest := r |} then T - 1 else T).
  { destruct (is_wy {| t_pc := p; t_rest := r |}) eqn:Ey.
    - apply (toff_step_wy c t u _ HI Hw Hu). unfold is_wy in Ey. cbn [t_pc] in *. destruct p; try discriminate. reflexivity.
    - apply (toff_step c t u HI Hw). intros uh0 E0. rewrite Hu in E0. inversion E0; subst uh0.
      unfold is_wy in Ey. cbn [t_pc] in *. intros ->. discriminate. }
  rewrite HT'. clear HT'.
  destruct p; cbn [is_wy t_pc]; unfold step; rewrite Hu; cbn [t_pc t_rest].
  - (* PStart *)
    apply Hsame.
    + destruct r as [|[|] r]; gfin Hu; rewrite !Z.sub_0_r, !Z.add_0_r; reflexivity.
    + unfold desig. cbn. rewrite andb_false_r. discriminate.
  - (* PR0 *)
    destruct (Z_lt_le_dec 0 (cnt is_wr (thrs c))) as [Hwr|Hwr].
    + destruct (wr_bits c HR Hwr) as (B1 & B2 & B3). rewrite B1, B3, Z.eqb_refl.
      destruct (cur (wout c) =? 0) eqn:E0; [lia|]. cbn [orb negb].
      apply Hsame; [|unfold desig; cbn; rewrite andb_false_r; discriminate].
      gfin Hu. rewrite Z.eqb_refl, !Z.sub_0_r, !Z.add_0_r. reflexivity.
    + assert (Hwr0 : cnt is_wr (thrs c) = 0) by lia.
      apply Hsame; [|unfold desig; cbn; rewrite andb_false_r; discriminate].
      destruct (_ || _); gfin Hu; rewrite Hwr0, !Z.sub_0_r, !Z.add_0_r; reflexivity.
  - (* PRw *)
    destruct (w =? Z.land (rin c) WBITS) eqn:Ew.
    + apply Hsame; [reflexivity|]. unfold enabled. cbn [t_pc]. rewrite Ew. discriminate.
    + destruct (Z_lt_le_dec 0 (cnt is_wr (thrs c))) as [Hwr|Hwr].
      * destruct (wr_bits c HR Hwr) as (B1 & B2 & B3). rewrite B1 in Ew.
        apply Hstrict. gfin Hu. rewrite Ew.
        destruct Hmode as [M|[M|[M|[M|[M|M]]]]]; destruct M as (M1 & M2 & M3 & M4 & M5 & M6);
          rewrite ?M1, ?M2, ?M3, ?M4, ?M5; try lia; prune; lia.
      * assert (Hwr0 : cnt is_wr (thrs c) = 0) by lia.
        apply Hsame; [|unfold desig; cbn [is_A t_pc andb orb]; rewrite Hwr0; discriminate].
        gfin Hu. rewrite Hwr0, !Z.sub_0_r, !Z.add_0_r. reflexivity.
  - (* PRcs *)
    destruct (Z_lt_le_dec 0 (cnt is_wr (thrs c))) as [Hwr|Hwr].
    + apply Hstrict. gfin Hu.
      destruct Hmode as [M|[M|[M|[M|[M|M]]]]]; destruct M as (M1 & M2 & M3 & M4 & M5 & M6);
        rewrite ?M1, ?M2, ?M3, ?M4, ?M5; try lia; prune; lia.
    + assert (Hwr0 : cnt is_wr (thrs c) = 0) by lia.
      apply Hsame; [|unfold desig; cbn [is_A t_pc andb orb]; rewrite Hwr0; discriminate].
      gfin Hu. rewrite Hwr0, !Z.sub_0_r, !Z.add_0_r. reflexivity.
  - (* PRx *)
    destruct (Z_lt_le_dec 0 (cnt is_wr (thrs c))) as [Hwr|Hwr].
    + apply Hstrict. destruct r as [|[|] r]; gfin Hu;
      destruct Hmode as [M|[M|[M|[M|[M|M]]]]]; destruct M as (M1 & M2 & M3 & M4 & M5 & M6);
        rewrite ?M1, ?M2, ?M3, ?M4, ?M5; try lia; prune; lia.
    + assert (Hwr0 : cnt is_wr (thrs c) = 0) by lia.
      apply Hsame; [|unfold desig; cbn [is_A t_pc andb orb]; rewrite Hwr0; discriminate].
      destruct r as [|[|] r]; gfin Hu; rewrite Hwr0, !Z.sub_0_r, !Z.add_0_r; reflexivity.
  - (* PW0 *)
    assert (E : (wout c =? win c) = false) by lia. rewrite E.
    apply Hsame; [|unfold desig; cbn; rewrite andb_false_r; discriminate].
    gfin Hu. rewrite !Z.sub_0_r, !Z.add_0_r. reflexivity.
  - (* PWw *)
    destruct (wout c =? tk) eqn:Ew.
    + assert (H0 : cnt is_hold (thrs c) = 0).
      { apply cnt_zero_of_all. intros v vh Hv. destruct (is_hold vh) eqn:Eh; [|reflexivity]. exfalso.
        assert (v = u).
        { apply (ti_inj c HT v u vh _ Hv Hu (hold_A _ Eh) eq_refl).
          rewrite (hold_off c v vh HT Hv Eh). unfold off. cbn [t_pc]. lia. }
        subst v. rewrite Hu in Hv. inversion Hv; subst vh. discriminate. }
      apply Hstrict. gfin Hu.
      destruct Hmode as [M|[M|[M|[M|[M|M]]]]]; destruct M as (M1 & M2 & M3 & M4 & M5 & M6); try lia.
      rewrite ?M1, ?M2, ?M3, ?M4, ?M5. prune; lia.
    + apply Hsame; [reflexivity|]. unfold enabled. cbn [t_pc]. rewrite Ew. discriminate.
  - (* PW1 *)
    assert (H1 : 0 < cnt is_w1 (thrs c)) by (apply (cnt_pos_of_nth _ _ u _ Hu); reflexivity).
    assert (Hfl : cnt is_rfl (thrs c) <= NN c - 1) by (apply (cnt_lt_len _ _ u _ Hu); reflexivity).
    apply Hstrict.
    destruct Hmode as [M|[M|[M|[M|[M|M]]]]]; destruct M as (M1 & M2 & M3 & M4 & M5 & M6); try lia.
    destruct (rout c =? rin c); gfin Hu; rewrite ?M1, ?M2, ?M3, ?M4, ?M5; prune; lia.
  - (* PWr *)
    assert (H1 : 0 < cnt is_wr (thrs c)) by (apply (cnt_pos_of_nth _ _ u _ Hu); reflexivity).
    destruct (rout c =? tk) eqn:Ew.
    + apply Hstrict.
      destruct Hmode as [M|[M|[M|[M|[M|M]]]]]; destruct M as (M1 & M2 & M3 & M4 & M5 & M6); try lia.
      gfin Hu. rewrite ?M1, ?M2, ?M3, ?M4, ?M5. prune; lia.
    + apply Hsame; [reflexivity|]. unfold enabled. cbn [t_pc]. rewrite Ew. discriminate.
  - (* PWcs *)
    assert (H1 : 0 < cnt is_win (thrs c)) by (apply (cnt_pos_of_nth _ _ u _ Hu); reflexivity).
    apply Hstrict.
    destruct Hmode as [M|[M|[M|[M|[M|M]]]]]; destruct M as (M1 & M2 & M3 & M4 & M5 & M6); try lia.
    gfin Hu. rewrite ?M1, ?M2, ?M3, ?M4, ?M5. prune; lia.
  - (* PWx *)
    assert (H1 : 0 < cnt is_pwx (thrs c)) by (apply (cnt_pos_of_nth _ _ u _ Hu); reflexivity).
    apply Hstrict.
    destruct Hmode as [M|[M|[M|[M|[M|M]]]]]; destruct M as (M1 & M2 & M3 & M4 & M5 & M6); try lia.
    gfin Hu. rewrite ?M1, ?M2, ?M3, ?M4, ?M5. prune; lia.
  - (* PWy *)
    assert (H1 : 0 < cnt is_wy (thrs c)) by (apply (cnt_pos_of_nth _ _ u _ Hu); reflexivity).
    assert (G : forall G G', K * (T - 1) + G' < K * T + G ->
            K * (T - 1) + G' <= K * T + G /\
            (forall uh, Some {| t_pc := PWy; t_rest := r |} = Some uh -> enabled c uh = true -> desig c uh = true ->
               K * (T - 1) + G' < K * T + G)).
    { intros G G' H. split; [lia|intros; lia]. }
    apply G.
    destruct Hmode as [M|[M|[M|[M|[M|M]]]]]; destruct M as (M1 & M2 & M3 & M4 & M5 & M6); try lia.
    destruct r as [|[|] r]; gfin Hu; rewrite ?M1, ?M2, ?M3, ?M4, ?M5; prune; unfold K; lia.
  - (* PDone *)
    apply Hsame; [reflexivity|]. unfold enabled. cbn [t_pc]. discriminate.
Qed.

Lemma gate_bounds c : 1 <= gate c <= 3 * NN c + 7.
Proof.
  unfold gate, gaten. pose proof (erem_sum_le (wout c) (thrs c)). pose proof (cnt_le_len is_rfl (thrs c)).
  assert (0 <= NN c) by (unfold NN; lia). fold (NN c) in H0. prune; lia.
Qed.

(* there is always a thread that can move and whose step moves the gate *)
Lemma desig_exists c t : Inv c -> waitingW t c ->
  exists d th, nth_error (thrs c) d = Some th /\ enabled c th = true /\ desig c th = true.
Proof.
  intros [Hlen HT HR] Hw. pose proof (waiting_A t c Hw) as HApos.
  pose proof (ti_rng c HT) as [Hwin Hwout]. pose proof (ri_rng c HR) as [Hrin Hrout].
  destruct (ti_sur c HT 0 ltac:(lia)) as (d & th & Hn & HA & Ho).
  assert (Hd1 : desig c th = true) by (unfold desig; rewrite HA, Ho; reflexivity).
  unfold is_A in HA. unfold off in Ho. destruct (t_pc th) eqn:Hpc; try discriminate.
  - exists d, th. repeat split; auto. unfold enabled. rewrite Hpc.
    pose proof (ti_ww c HT d th tk Hn Hpc). lia.
  - exists d, th. repeat split; auto. unfold enabled. rewrite Hpc. reflexivity.
  - destruct (ri_wr c HR d th tk Hn Hpc) as [Htk Hd].
    pose proof (cnt_nonneg (early (wout c)) (thrs c)) as Hen.
    destruct (Z.eq_dec (cnt (early (wout c)) (thrs c)) 0) as [He0|Hepos].
    + exists d, th. repeat split; auto. unfold enabled. rewrite Hpc. rewrite He0 in Hd. lia.
    + destruct (cnt_pos_ex (early (wout c)) (thrs c)) as (u & uh & Hu & He); [lia|].
      assert (Hwr : 0 < cnt is_wr (thrs c)).
      { apply (cnt_pos_of_nth _ _ d th Hn). unfold is_wr. rewrite Hpc. reflexivity. }
      destruct (wr_bits c HR Hwr) as (B1 & B2 & B3).
      exists u, uh. split; [exact Hu|]. split.
      * unfold early in He. unfold enabled. destruct (t_pc uh); try discriminate; try reflexivity.
        rewrite B1. exact He.
      * unfold desig. apply orb_true_iff. right. apply andb_true_iff. split; [lia|].
        pose proof (erem_bounds (wout c) uh) as [_ Hi]. apply Hi in He. lia.
  - exists d, th. repeat split; auto. unfold enabled. rewrite Hpc. reflexivity.
  - exists d, th. repeat split; auto. unfold enabled. rewrite Hpc. reflexivity.
  - exists d, th. repeat split; auto. unfold enabled. rewrite Hpc. reflexivity.
Qed.

(* ... and it keeps that role until it moves *)
Lemma desig_stable c d u th : Inv c ->
  nth_error (thrs c) d = Some th -> enabled c th = true -> desig c th = true -> u <> d ->
  nth_error (thrs (step c u)) d = Some th /\ enabled (step c u) th = true /\ desig (step c u) th = true.
Proof.
  intros HI Hn He Hd Hne. destruct (enabled_stable c d u th HI Hn He Hne) as [Hn' He'].
  split; [exact Hn'|]. split; [exact He'|].
  destruct (step_words c u HI) as (_ & Hwo & _). destruct HI as [Hlen HT HR].
  unfold desig in *. apply orb_true_iff in Hd. apply orb_true_iff. destruct Hd as [Hd|Hd].
  - left. apply andb_true_iff in Hd. destruct Hd as [HA Ho].
    destruct Hwo as [E|(uh & Hu & Hpc)]; [rewrite E, HA, Ho; reflexivity|].
    exfalso. apply Hne. assert (Hh : is_hold uh = true) by (unfold is_hold; rewrite Hpc; reflexivity).
    apply (ti_inj c HT u d uh th Hu Hn (hold_A _ Hh) HA). rewrite (hold_off c u uh HT Hu Hh). lia.
  - right. apply andb_true_iff in Hd. destruct Hd as [Hwr Her].
    destruct (cnt_pos_ex is_wr (thrs c)) as (h & hh & Hh & Hhw); [lia|].
    assert (Hhh : is_hold hh = true) by (apply wr_hold, Hhw).
    assert (Hwo' : wout (step c u) = wout c).
    { destruct Hwo as [E|(uh & Hu & Hpc)]; [exact E|]. exfalso.
      assert (Hh2 : is_hold uh = true) by (unfold is_hold; rewrite Hpc; reflexivity).
      assert (u = h) by (apply (hold_unique c u h uh hh HT Hu Hh2 Hh Hhh)). subst u.
      rewrite Hh in Hu. inversion Hu; subst uh. unfold is_wr in Hhw. rewrite Hpc in Hhw. discriminate. }
    rewrite Hwo'. apply andb_true_iff. split; [|exact Her].
    assert (0 < cnt is_wr (thrs (step c u))); [|lia].
    destruct (Nat.eq_dec u h) as [->|Hne2].
    + (* the draining writer cannot leave its loop: th is still counted *)
      assert (Hst : step c h = c); [|rewrite Hst; lia].
      apply (step_disabled c h hh Hh). unfold is_wr in Hhw. unfold enabled.
      destruct (t_pc hh) eqn:Hpc; try discriminate.
      destruct (ri_wr c HR h hh tk Hh Hpc) as [Htk Hdf]. pose proof (ri_rng c HR) as [_ Hrout].
      assert (0 < cnt (early (wout c)) (thrs c)); [|lia].
      apply (cnt_pos_of_nth _ _ d th Hn). apply (erem_bounds (wout c) th). lia.
    + apply (cnt_pos_of_nth _ _ h hh); [|exact Hhw]. rewrite (step_other c u h Hne2). exact Hh.
Qed.

(* ---- entries of one writer -------------------------------------------------- *)
Definition ents (t : nat) (l : list ev) : Z :=
  sumz (fun e => match e with Enter t' KW => if Nat.eqb t' t then 1 else 0 | _ => 0 end) l.

Lemma log_step c u : log (step c u) = log c \/ exists e, log (step c u) = e :: log c.
Proof.
  unfold step. destruct (nth_error (thrs c) u) as [uh|]; [|auto].
  destruct (t_pc uh); repeat match goal with |- context[if ?b then _ else _] => destruct b end;
    cbn [log]; eauto.
Qed.

Lemma ents_step t c u : ents t (log c) <= ents t (log (step c u)).
Proof.
  destruct (log_step c u) as [E|(e & E)]; rewrite E; [lia|]. unfold ents. cbn [sumz].
  destruct e as [t' [|]|]; try lia. destruct (Nat.eqb t' t); lia.
Qed.
Lemma ents_run t s : forall c, ents t (log c) <= ents t (log (run c s)).
Proof.
  induction s as [|u s IH]; intros c; unfold run in *; cbn [fold_left]; [lia|].
  pose proof (IH (step c u)). pose proof (ents_step t c u). lia.
Qed.

Lemma wait_or_enter t c u : waitingW t c ->
  waitingW t (step c u) \/ ents t (log (step c u)) = ents t (log c) + 1.
Proof.
  intros (th & Hn & Hw). destruct (Nat.eq_dec u t) as [->|Hne].
  2:{ left. exists th. rewrite (step_other c u t Hne). auto. }
  unfold step, ents, waitingW. rewrite Hn. unfold is_ww in Hw.
  destruct (t_pc th) eqn:Hpc; try discriminate.
  - left. destruct (wout c =? tk); [|exists th; unfold is_ww; rewrite Hpc; auto].
    exists (at_pc (PW1 tk) (t_rest th)). cbn [thrs]. rewrite (nth_upd_same _ _ _ _ Hn). auto.
  - destruct (rout c =? rin c); cbn [thrs log sumz].
    + right. rewrite Nat.eqb_refl. lia.
    + left. exists (at_pc (PWr (rin c)) (t_rest th)). rewrite (nth_upd_same _ _ _ _ Hn). auto.
  - destruct (rout c =? tk); cbn [thrs log sumz].
    + right. rewrite Nat.eqb_refl. lia.
    + left. exists th. unfold is_ww. rewrite Hpc. auto.
Qed.

(* ---- rounds ------------------------------------------------------------------ *)
Lemma wait_run_le t s : forall c, Inv c -> waitingW t c ->
  ents t (log c) < ents t (log (run c s)) \/ (waitingW t (run c s) /\ rho (run c s) t <= rho c t).
Proof.
  induction s as [|u s IH]; intros c HI Hw; unfold run in *; cbn [fold_left]; [right; split; [exact Hw|lia]|].
  destruct (wait_or_enter t c u Hw) as [Hw'|He].
  - destruct (rho_step c t u HI Hw) as [Hle _].
    destruct (IH (step c u) (step_inv c u HI) Hw') as [H|[H1 H2]].
    + left. pose proof (ents_step t c u). lia.
    + right. split; [exact H1|lia].
  - left. pose proof (ents_run t s (step c u)). unfold run in *. lia.
Qed.

Lemma wait_run_lt t s : forall c d th, Inv c -> waitingW t c ->
  nth_error (thrs c) d = Some th -> enabled c th = true -> desig c th = true -> In d s ->
  ents t (log c) < ents t (log (run c s)) \/ (waitingW t (run c s) /\ rho (run c s) t < rho c t).
Proof.
  induction s as [|u s IH]; intros c d th HI Hw Hn He Hd Hin; [destruct Hin|].
  unfold run in *. cbn [fold_left].
  destruct (wait_or_enter t c u Hw) as [Hw'|Hent].
  2:{ left. pose proof (ents_run t s (step c u)). unfold run in *. lia. }
  destruct (rho_step c t u HI Hw) as [Hle Hlt].
  destruct (Nat.eq_dec u d) as [->|Hne].
  - specialize (Hlt th Hn He Hd).
    destruct (wait_run_le t s (step c d) (step_inv c d HI) Hw') as [H|[H1 H2]]; unfold run in *.
    + left. pose proof (ents_step t c d). lia.
    + right. split; [exact H1|lia].
  - destruct Hin as [E|Hin]; [congruence|].
    destruct (desig_stable c d u th HI Hn He Hd Hne) as (Hn' & He' & Hd').
    destruct (IH (step c u) d th (step_inv c u HI) Hw' Hn' He' Hd' Hin) as [H|[H1 H2]].
    + left. pose proof (ents_step t c u). lia.
    + right. split; [exact H1|lia].
Qed.

(* a writer that holds a ticket enters within rho rounds, whatever the other threads run *)
Theorem writer_wait_rounds t rounds : forall c, Inv c -> waitingW t c ->
  (forall s, In s rounds -> covers (length (thrs c)) s) ->
  rho c t <= Z.of_nat (length rounds) ->
  ents t (log c) < ents t (log (run c (concat rounds))).
Proof.
  induction rounds as [|s rs IH]; intros c HI Hw Hcov Hr.
  - exfalso. pose proof (gate_bounds c). unfold rho in Hr. cbn [length] in Hr.
    assert (0 <= toff c t) by (unfold toff; destruct (nth_error (thrs c) t); [apply off_nonneg|lia]).
    assert (0 <= NN c) by (unfold NN; lia). nia.
  - cbn [concat]. unfold run. rewrite fold_left_app. fold (run c s). fold (run (run c s) (concat rs)).
    destruct (desig_exists c t HI Hw) as (d & th & Hn & He & Hd).
    assert (Hin : In d s).
    { apply (Hcov s (or_introl eq_refl)). apply nth_error_Some. congruence. }
    destruct (wait_run_lt t s c d th HI Hw Hn He Hd Hin) as [H|[H1 H2]].
    + pose proof (ents_run t (concat rs) (run c s)). lia.
    + assert (ents t (log (run c s)) < ents t (log (run (run c s) (concat rs)))).
      { apply IH; [apply run_inv, HI|exact H1| |cbn [length] in Hr; lia].
        intros s' Hs'. rewrite run_len. apply Hcov. right. exact Hs'. }
      pose proof (ents_run t s c). lia.
Qed.

Lemma rho_bound c t : rho c t <= (3 * NN c + 8) * (toff c t + 1) - 1.
Proof. unfold rho. pose proof (gate_bounds c). lia. Qed.

(* ---- no schedule-independent bound on the readers overtaking a queued writer ---- *)
(* Writer 0 owns the served ticket and is stalled just before it sets its bits in rin; writer 1
   waits for its ticket (one ticket before its own); no reader is present.  Reader 2, which
   arrives afterwards, completes 9 read cycles while writer 1 keeps waiting: more than
   (k+1) * (number of threads) = 6 entries, by a reader that was not waiting when the phase began. *)
Theorem reader_phase_bound_refuted :
  exists progs sched s t tk,
    Z.of_nat (length progs) < NB /\
    let c := run (init_at 0 0 progs) sched in
    ww_waits t tk c /\ stays (ww_waits t tk) c s /\
    (tk - wout c) mod M32 = 1 /\ cnt is_rfl (thrs c) = 0 /\
    rents (log (run c s)) > rents (log c) + ((tk - wout c) mod M32 + 1) * Z.of_nat (length progs).
Proof.
  exists [[KW]; [KW]; repeat KR 9], [0; 0; 1; 1]%nat, (repeat 2%nat 28), 1%nat, 1.
  vm_compute. repeat split; try (eexists; split; reflexivity).
Qed.
