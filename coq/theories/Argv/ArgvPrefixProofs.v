(* The two C39 findings, as statements about the code before its repair
   (ArgvPrefixDefs.v), next to what the repaired code does on the same input. *)
From Coq Require Import Ascii.
From PV Require Import Base.Tac Argv.ArgvDefs Argv.ArgvCmdLineDefs Argv.ArgvPrefixDefs.
Local Open Scope char_scope.

(* "a," came back as "a": the field after the trailing delimiter was dropped *)
Lemma P_split_with_empty_join_prefix_refuted :
  exists s d,
    argv_join (Prefix.argv_split_with_empty s d) d <> s /\
    argv_join (argv_split_with_empty s d) d = s.
Proof. exists ["a"; ","], ",". split; [vm_compute; discriminate | vm_compute; reflexivity]. Qed.

(* options a (2 parameters) and b (none), command line "p -ab x": the second
   parameter of -a is missing after the first was taken; the old error path
   freed param->clp_argv twice, the repaired one returns an error *)
Definition df_opts : list opt :=
  [mk_opt "a" None (Some ["a"; "l"; "p"; "h"; "a"]) 2; mk_opt "b" None None 0].
Definition df_argv : list (list ascii) := [["p"]; ["-"; "a"; "b"]; ["x"]].
Lemma P_parse_double_free_prefix_refuted :
  exists opts ign av,
    Prefix.p_ub (Prefix.cmd_parse opts ign (Some av)) = true /\
    p_rc (cmd_parse opts ign (Some av)) = RC_ERROR /\
    p_params (cmd_parse opts ign (Some av)) = [].
Proof. exists df_opts, false, df_argv. repeat split; vm_compute; reflexivity. Qed.
