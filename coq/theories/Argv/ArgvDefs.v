(* Executable model of parsec/utils/argv.c (PaRSEC's copy of opal_argv).
   No proofs here.

   A C string is a [list ascii] without the terminating NUL (so no element is
   "000"); a [char **] is NULL ([None]) or a NULL-terminated array of strings
   ([Some v], the terminator is not represented).  malloc/realloc/strdup never
   fail (assumption of the property); every function therefore returns
   PARSEC_SUCCESS unless it returns PARSEC_ERR_BAD_PARAM explicitly.
   C [int] arguments are [Z] (no overflow: |start| + |num| < 2^31, assumption),
   [size_t] arguments are [nat].  The delimiter is an [int] in the C code and
   is compared with a (signed) [char]; the model covers delimiters 1..127. *)
From Coq Require Import List Ascii Arith ZArith Bool.
Import ListNotations.

(* abbreviations only (notations, so that no unfolding is ever needed) *)
Notation str := (list ascii) (only parsing).
Notation vec := (list (list ascii)) (only parsing).
Notation argv := (option (list (list ascii))) (only parsing).

Inductive rc := RC_SUCCESS | RC_BAD_PARAM | RC_ERROR.

Fixpoint str_eqb (a b : str) : bool :=      (* 0 == strcmp(a, b) *)
  match a, b with
  | [], [] => true
  | x :: a', y :: b' => Ascii.eqb x y && str_eqb a' b'
  | _, _ => false
  end.

Definition vec_of (a : argv) : vec := match a with None => [] | Some v => v end.

(* ---- array cells: argv[i] = x and argv[i] ------------------------------ *)
Fixpoint upd (v : vec) (i : nat) (x : str) : vec :=
  match v, i with
  | [], _ => []
  | _ :: t, O => x :: t
  | h :: t, S i' => h :: upd t i' x
  end.
Definition get (v : vec) (i : nat) : str := nth i v [].

(* ---- parsec_argv_count: for (i = 0, p = argv; *p; i++, p++) ------------- *)
Definition argv_count (a : argv) : nat := match a with None => O | Some v => length v end.

(* ---- parsec_argv_append_nosize / parsec_argv_append --------------------- *)
Definition argv_append_nosize (a : argv) (arg : str) : argv :=
  match a with
  | None => Some [arg]            (* malloc(2); [0] = strdup(arg); [1] = NULL *)
  | Some v => Some (v ++ [arg])   (* realloc(argc + 2); [argc] = strdup(arg); [argc+1] = NULL *)
  end.
(* returns the new *argc and the new *argv *)
Definition argv_append (a : argv) (arg : str) : nat * argv :=
  let a' := argv_append_nosize a arg in (argv_count a', a').

(* ---- loops that move cells ---------------------------------------------- *)
(* for (i = n - 1; i >= 0; --i) v[start + k + i] = v[start + i]; *)
Fixpoint shift_up (v : vec) (start k n : nat) : vec :=
  match n with
  | O => v
  | S i => shift_up (upd v (start + k + i) (get v (start + i))) start k i
  end.
(* for (i = i0; i < i0 + n; ++i) v[i] = v[i + k]; *)
Fixpoint shift_down (v : vec) (i k n : nat) : vec :=
  match n with
  | O => v
  | S n' => shift_down (upd v i (get v (i + k))) (S i) k n'
  end.
(* for (i = i0; i < i0 + count(src); ++i) v[i] = strdup(src[i - i0]); *)
Fixpoint copy_in (v : vec) (i : nat) (src : vec) : vec :=
  match src with
  | [] => v
  | s :: r => copy_in (upd v i s) (S i) r
  end.

(* ---- parsec_argv_prepend_nosize ----------------------------------------- *)
Definition argv_prepend_nosize (a : argv) (arg : str) : argv :=
  match a with
  | None => Some [arg]
  | Some v =>
      let argc := length v in
      let v0 := v ++ [[]] in                 (* realloc(argc + 2): one fresh cell, [argc+1] = NULL *)
      let v1 := shift_up v0 0 1 argc in      (* for (i = argc; 0 < i; i--) v[i] = v[i-1] *)
      Some (upd v1 0 arg)
  end.

(* ---- parsec_argv_append_unique_nosize ----------------------------------- *)
(* the search loop; [Some v'] when the argument was found (and possibly overwritten) *)
Fixpoint unique_scan (v : vec) (arg : str) (overwrite : bool) : option vec :=
  match v with
  | [] => None
  | x :: r =>
      if str_eqb arg x then Some ((if overwrite then arg else x) :: r)
      else match unique_scan r arg overwrite with Some r' => Some (x :: r') | None => None end
  end.
Definition argv_append_unique_nosize (a : argv) (arg : str) (overwrite : bool) : argv :=
  match a with
  | None => argv_append_nosize a arg
  | Some v => match unique_scan v arg overwrite with
              | Some v' => Some v'
              | None => argv_append_nosize a arg
              end
  end.

(* ---- parsec_argv_split / parsec_argv_split_with_empty -------------------- *)
(* while ('\0' != *p && *p != delimiter) { ++p; ++arglen; }
   returns the characters skipped and the string at p *)
Fixpoint scan (d : ascii) (s : str) : str * str :=
  match s with
  | [] => ([], [])
  | c :: s' => if Ascii.eqb c d then ([], s)
               else let (t, p) := scan d s' in (c :: t, p)
  end.

(* after "src_string = p + 1": if (include_empty && '\0' == *src_string) append "" —
   the delimiter just consumed was the last character, one more (empty) field follows *)
Definition trailing (include_empty : bool) (rest : str) (a : argv) : argv :=
  if include_empty then match rest with [] => snd (argv_append a []) | _ :: _ => a end else a.

(* the outer while (src_string && *src_string) loop; one unit of fuel per iteration *)
Fixpoint split_loop (fuel : nat) (include_empty : bool) (d : ascii) (src : str) (a : argv) : argv :=
  match fuel with
  | O => a
  | S f =>
      match src with
      | [] => a
      | _ :: _ =>
          let (tok, p) := scan d src in
          match tok, p with
          | [], _ =>        (* src_string == p: zero length argument; src_string = p + 1 *)
              split_loop f include_empty d (tl p)
                         (trailing include_empty (tl p)
                                   (if include_empty then snd (argv_append a []) else a))
          | _ :: _, [] =>   (* '\0' == *p: tail argument; src_string = p; continue *)
              split_loop f include_empty d [] (snd (argv_append a src))
          | _ :: _, _ :: p1 => (* short or long argument (same result); src_string = p + 1 *)
              split_loop f include_empty d p1 (trailing include_empty p1 (snd (argv_append a tok)))
          end
      end
  end.
Definition split_inter (s : str) (d : ascii) (include_empty : bool) : argv :=
  split_loop (S (length s)) include_empty d s None.
Definition argv_split (s : str) (d : ascii) : argv := split_inter s d false.
Definition argv_split_with_empty (s : str) (d : ascii) : argv := split_inter s d true.

(* ---- parsec_argv_join ---------------------------------------------------- *)
(* for (p = argv; *p; ++p) str_len += strlen( *p ) + 1; *)
Definition join_len (v : vec) : nat := fold_left (fun acc s => acc + (length s + 1)) v 0.
(* for (i = 0; i < n; ++i) { if ('\0' == *pp) { str[i] = delimiter; ++p; pp = *p; } else str[i] = *pp++; }
   [pp] is the rest of the current string, [p] the strings after it. *)
Fixpoint join_fill (n : nat) (pp : str) (p : vec) (d : ascii) : str :=
  match n with
  | O => []
  | S n' =>
      match pp with
      | [] => d :: match p with
                   | [] => []     (* pp = NULL would be dereferenced next: shown unreachable (join_fill_spec) *)
                   | q :: p' => join_fill n' q p' d
                   end
      | c :: pp' => c :: join_fill n' pp' p d
      end
  end.
Definition argv_join (a : argv) (d : ascii) : str :=
  match a with
  | None => []
  | Some [] => []
  | Some (x :: r) => join_fill (join_len (x :: r) - 1) x r d    (* str[--str_len] = '\0' *)
  end.

(* ---- parsec_argv_join_range ---------------------------------------------- *)
Definition argv_join_range (a : argv) (start stop : nat) (d : ascii) : str :=
  match a with
  | None => []
  | Some [] => []
  | Some v =>
      if length v <? start then [] else
      (* for (p = &argv[start], i = start; *p && i < end; ++p, ++i) str_len += ... *)
      let n := join_len (firstn (stop - start) (skipn start v)) in
      if n =? 0 then [] else
      join_fill (n - 1) (get v start) (skipn (S start) v) d
  end.

(* ---- parsec_argv_len ----------------------------------------------------- *)
Definition ptr_size : nat := 8.
Definition argv_len (a : argv) : nat :=
  match a with
  | None => 0
  | Some v => fold_left (fun acc s => acc + (length s + 1 + ptr_size)) v ptr_size
  end.

(* ---- parsec_argv_copy ---------------------------------------------------- *)
Definition argv_copy (a : argv) : argv :=
  match a with
  | None => None
  | Some v => fold_left (fun dup s => snd (argv_append dup s)) v (Some [])
  end.

(* ---- parsec_argv_delete -------------------------------------------------- *)
(* returns (rc, *argc, *argv) *)
Definition argv_delete (argc : Z) (a : argv) (start num : Z) : rc * Z * argv :=
  match a with
  | None => (RC_SUCCESS, argc, a)
  | Some v =>
      if (num =? 0)%Z then (RC_SUCCESS, argc, a) else
      let count := Z.of_nat (length v) in
      if (start >? count)%Z then (RC_SUCCESS, argc, a) else
      if (start <? 0)%Z || (num <? 0)%Z then (RC_BAD_PARAM, argc, a) else
      let suffix_count := Z.max 0 (count - (start + num)) in
      (* for (i = start; i < start + suffix_count; ++i) v[i] = v[i + num]; *)
      let v1 := shift_down v (Z.to_nat start) (Z.to_nat num) (Z.to_nat suffix_count) in
      (* v[i] = NULL *)
      let v2 := firstn (Z.to_nat (start + suffix_count)) v1 in
      (RC_SUCCESS, (argc - num)%Z, Some v2)
  end.

(* ---- parsec_argv_insert -------------------------------------------------- *)
Definition argv_insert (target : argv) (start : Z) (source : argv) : rc * argv :=
  match target with
  | None => (RC_BAD_PARAM, target)
  | Some tv =>
      if (start <? 0)%Z then (RC_BAD_PARAM, target) else
      match source with
      | None => (RC_SUCCESS, target)
      | Some sv =>
          let target_count := length tv in
          let source_count := length sv in
          if (start >? Z.of_nat target_count)%Z then
            (* for (i = 0; i < source_count; ++i) parsec_argv_append(&target_count, target, source[i]); *)
            (RC_SUCCESS, fold_left (fun t s => snd (argv_append t s)) sv target)
          else
            let st := Z.to_nat start in
            (* realloc(target_count + source_count + 1): source_count fresh cells *)
            let v0 := tv ++ repeat [] source_count in
            let suffix_count := target_count - st in
            let v1 := shift_up v0 st source_count suffix_count in
            (* v[start + suffix_count + source_count] = NULL: that is the end of the list *)
            (RC_SUCCESS, Some (copy_in v1 st sv))
      end
  end.

(* ---- parsec_argv_insert_element ----------------------------------------- *)
Definition argv_insert_element (target : argv) (location : Z) (source : option str) : rc * argv :=
  match target with
  | None => (RC_BAD_PARAM, target)
  | Some tv =>
      if (location <? 0)%Z then (RC_BAD_PARAM, target) else
      match source with
      | None => (RC_SUCCESS, target)
      | Some s =>
          let target_count := length tv in
          if (location >? Z.of_nat target_count)%Z then
            (RC_SUCCESS, snd (argv_append target s))
          else
            let loc := Z.to_nat location in
            let v0 := tv ++ [[]] in
            let suffix_count := target_count - loc in
            let v1 := shift_up v0 loc 1 suffix_count in
            (RC_SUCCESS, Some (upd v1 loc s))
      end
  end.

(* ======================================================================== *)
(* Specification-side functions used in the statements (not part of the code) *)

(* the mathematical split: one field per delimiter, plus one *)
Fixpoint fields (d : ascii) (s : str) : vec :=
  match s with
  | [] => [[]]
  | c :: s' =>
      if Ascii.eqb c d then [] :: fields d s'
      else match fields d s' with
           | f :: r => (c :: f) :: r
           | [] => [[c]]
           end
  end.
(* the mathematical join *)
Fixpoint intercalate (d : ascii) (v : vec) : str :=
  match v with
  | [] => []
  | [x] => x
  | x :: r => x ++ d :: intercalate d r
  end.
Definition nonempty (s : str) : bool := match s with [] => false | _ => true end.
(* drop the last element when it is the empty string *)
Fixpoint strip_last_empty (v : vec) : vec :=
  match v with
  | [] => []
  | [x] => match x with [] => [] | _ => [x] end
  | x :: r => x :: strip_last_empty r
  end.
(* strings all of whose fields are non-empty: no leading, trailing or doubled
   delimiter (and not the empty string); [prev] = the previous character was a
   delimiter or the start of the string *)
Fixpoint clean_from (d : ascii) (prev : bool) (s : str) : bool :=
  match s with
  | [] => negb prev
  | c :: s' => if Ascii.eqb c d then negb prev && clean_from d true s' else clean_from d false s'
  end.
Definition clean (d : ascii) (s : str) : bool := clean_from d true s.
Definition ends_with (d : ascii) (s : str) : Prop := exists t, s = t ++ [d].
