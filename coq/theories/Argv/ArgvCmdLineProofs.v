(* Proofs about the model of parsec/utils/cmd_line.c (ArgvCmdLineDefs.v). *)
From Coq Require Import Ascii.
From PV Require Import Base.Tac Argv.ArgvDefs Argv.ArgvProofs Argv.ArgvCmdLineDefs.

(* ------------------------------------------------------------------------ *)
(* well-formed command lines *)

(* the token [tok] names option [k] directly: "--name" or "-name" *)
Definition resolves (opts : list opt) (tok : list ascii) (k : nat) : Prop :=
  tok <> [dash; dash] /\
  ((exists name, tok = dash :: dash :: name /\ find_option opts name = Some k) \/
   (exists name, tok = dash :: name /\ starts_dashdash tok = false /\ find_option opts name = Some k)).

(* one occurrence of an option: its token, the option it names, its parameters *)
Record occ := mk_occ { oc_tok : list ascii; oc_k : nat; oc_ps : list (list ascii) }.
Definition wf_occ (opts : list opt) (o : occ) : Prop :=
  resolves opts (oc_tok o) (oc_k o) /\
  length (oc_ps o) = np_of opts (oc_k o) /\
  Forall (fun p => p <> special_empty_token) (oc_ps o).
Definition render (occs : list occ) : list (list ascii) :=
  flat_map (fun o => oc_tok o :: oc_ps o) occs.
Definition reported (occs : list occ) : list (nat * list (list ascii)) :=
  map (fun o => (oc_k o, oc_ps o)) occs.

(* how the command line ends *)
Inductive ending :=
| E_none
| E_dashdash (rest : list (list ascii))              (* "--" then anything *)
| E_token (u : list ascii) (rest : list (list ascii)). (* a token that does not start with '-', then anything *)
Definition wf_end (e : ending) : Prop :=
  match e with E_token u _ => hd_error u <> Some dash | _ => True end.
Definition render_end (e : ending) : list (list ascii) :=
  match e with E_none => [] | E_dashdash r => [dash; dash] :: r | E_token u r => u :: r end.
Definition tail_of (e : ending) : list (list ascii) :=
  match e with E_none => [] | E_dashdash r => r | E_token u r => u :: r end.
Definition rc_of (ignore_unknown : bool) (e : ending) : rc :=
  match e with E_token _ _ => if ignore_unknown then RC_SUCCESS else RC_ERROR | _ => RC_SUCCESS end.

(* ------------------------------------------------------------------------ *)
Lemma get_middle : forall (pre : list (list ascii)) x post, get (pre ++ x :: post) (length pre) = x.
Proof. intros; unfold get. apply nth_middle. Qed.
Lemma skipn_pre : forall (pre l : list (list ascii)), skipn (length pre) (pre ++ l) = l.
Proof. intros. rewrite <- (Nat.add_0_r (length pre)). now rewrite skipn_app_len. Qed.

Lemma take_params_ok : forall ps pre post acc,
  Forall (fun p => p <> special_empty_token) ps ->
  take_params (length ps) (pre ++ ps ++ post) (length pre) acc = T_ok (acc ++ ps) (length pre + length ps).
Proof.
  induction ps as [|p ps IH]; intros pre post acc Hall; cbn [length take_params].
  - now rewrite app_nil_r, Nat.add_0_r.
  - inv Hall. cbn [app].
    destruct (length (pre ++ p :: ps ++ post) <=? length pre) eqn:Hl.
    { rewrite app_length in Hl; cbn [length] in Hl. lia. }
    rewrite get_middle.
    destruct (str_eqb p special_empty_token) eqn:He; [apply str_eqb_eq in He; easy|].
    replace (pre ++ p :: ps ++ post) with ((pre ++ [p]) ++ ps ++ post) by now rewrite <- app_assoc.
    replace (S (length pre)) with (length (pre ++ [p])) by (rewrite app_length; cbn; lia).
    rewrite IH by easy. rewrite <- app_assoc. cbn [app]. f_equal.
    rewrite app_length; cbn; lia.
Qed.

Lemma str_eqb_false : forall a b, a <> b -> str_eqb a b = false.
Proof.
  intros a b H. destruct (str_eqb a b) eqn:E; [|easy]. apply str_eqb_eq in E. easy.
Qed.

Lemma parse_loop_wf : forall opts ign e occs pre params fuel,
  Forall (wf_occ opts) occs -> wf_end e -> length occs < fuel ->
  parse_loop fuel opts ign (pre ++ render occs ++ render_end e) (length pre) params =
    mk_parsed (rc_of ign e) (params ++ reported occs) (tail_of e)
              (pre ++ render occs ++ render_end e) false false.
Proof.
  intros opts ign e. induction occs as [|o occs IH]; intros pre params fuel Hwf He Hf.
  - destruct fuel as [|f]; [cbn in Hf; lia|]. cbn [render flat_map app reported map]. rewrite app_nil_r.
    cbn [parse_loop]. destruct e as [|r|u r]; cbn [render_end tail_of rc_of].
    + rewrite app_nil_r. rewrite Nat.leb_refl. easy.
    + destruct (length (pre ++ [dash; dash] :: r) <=? length pre) eqn:Hl.
      { rewrite app_length in Hl; cbn [length] in Hl; lia. }
      rewrite get_middle. rewrite str_eqb_refl. f_equal.
      replace (S (length pre)) with (length (pre ++ [[dash; dash]])) by (rewrite app_length; cbn; lia).
      replace (pre ++ [dash; dash] :: r) with ((pre ++ [[dash; dash]]) ++ r) by now rewrite <- app_assoc.
      apply skipn_pre.
    + destruct (length (pre ++ u :: r) <=? length pre) eqn:Hl.
      { rewrite app_length in Hl; cbn [length] in Hl; lia. }
      rewrite get_middle. cbn [wf_end] in He.
      assert (Hne : str_eqb u [dash; dash] = false).
      { apply str_eqb_false. intros ->. now elim He. }
      rewrite Hne. rewrite skipn_pre.
      destruct u as [|c0 rest]; [now destruct ign|].
      destruct (Ascii.eqb c0 dash) eqn:Hc.
      { apply Ascii.eqb_eq in Hc; subst c0. now elim He. }
      cbn [negb]. now destruct ign.
  - destruct fuel as [|f]; [cbn in Hf; lia|]. inv Hwf.
    destruct H1 as ((Hnd & Hres) & Hnp & Hsp). destruct o as [tok k ps]; cbn [oc_tok oc_k oc_ps] in *.
    cbn [render flat_map oc_tok oc_k oc_ps]. fold (render occs). cbn [app]. rewrite <- !app_assoc. cbn [app].
    cbn [parse_loop].
    destruct (length (pre ++ tok :: ps ++ render occs ++ render_end e) <=? length pre) eqn:Hl.
    { rewrite app_length in Hl; cbn [length] in Hl; lia. }
    rewrite get_middle. rewrite (str_eqb_false _ _ Hnd).
    (* both forms lead to [known av k] *)
    assert (Hk : forall av' : list (list ascii),
      av' = pre ++ tok :: ps ++ render occs ++ render_end e ->
      match take_params (np_of opts k) av' (S (length pre)) [] with
      | T_ok ps0 i' => parse_loop f opts ign av' i' (params ++ [(k, ps0)])
      | T_missing i' => mk_parsed RC_ERROR params (skipn i' av') av' false false
      | T_double_free i' => mk_parsed RC_ERROR params (skipn i' av') av' false true
      end =
      mk_parsed (rc_of ign e) (params ++ reported (mk_occ tok k ps :: occs)) (tail_of e) av' false false).
    { intros av' ->. rewrite <- Hnp.
      replace (pre ++ tok :: ps ++ render occs ++ render_end e)
        with ((pre ++ [tok]) ++ ps ++ render occs ++ render_end e) by now rewrite <- app_assoc.
      replace (S (length pre)) with (length (pre ++ [tok])) by (rewrite app_length; cbn; lia).
      rewrite take_params_ok by easy. cbn [app].
      replace ((pre ++ [tok]) ++ ps ++ render occs ++ render_end e)
        with (((pre ++ [tok]) ++ ps) ++ render occs ++ render_end e) by now rewrite <- !app_assoc.
      rewrite <- app_length. rewrite IH by (cbn [length] in Hf; try easy; lia).
      cbn [reported map oc_k oc_ps]. now rewrite <- app_assoc. }
    destruct Hres as [(name & -> & Hfind) | (name & -> & Hsd & Hfind)].
    + rewrite Ascii.eqb_refl. cbn [negb starts_dashdash]. rewrite Ascii.eqb_refl. cbn [andb tl].
      rewrite Hfind. now apply Hk.
    + rewrite Ascii.eqb_refl. cbn [negb]. rewrite Hsd. rewrite Hfind. now apply Hk.
Qed.

Lemma render_length : forall occs, length occs <= length (render occs).
Proof.
  induction occs as [|o occs IH]; [easy|]. cbn [render flat_map length app].
  fold (render occs). rewrite app_length. lia.
Qed.

(* every well-formed command line is reported exactly *)
Theorem parse_wf : forall opts ign prog occs e,
  Forall (wf_occ opts) occs -> wf_end e ->
  cmd_parse opts ign (Some (prog :: render occs ++ render_end e)) =
    mk_parsed (rc_of ign e) (reported occs) (tail_of e) (prog :: render occs ++ render_end e) false false.
Proof.
  intros opts ign prog occs e Hwf He. cbn [cmd_parse].
  apply (parse_loop_wf opts ign e occs [prog] []); try easy.
  unfold parse_fuel. cbn [length]. rewrite app_length. pose proof (render_length occs). lia.
Qed.

(* the queries on such a result *)
Lemma filter_reported : forall occs k,
  filter (fun kp : nat * list (list ascii) => Nat.eqb (fst kp) k) (reported occs) =
  reported (filter (fun o => Nat.eqb (oc_k o) k) occs).
Proof.
  induction occs as [|o occs IH]; intro k; [easy|]. cbn [reported map filter fst].
  destruct (Nat.eqb (oc_k o) k); cbn [reported map]; f_equal; apply IH.
Qed.
Theorem queries_wf : forall opts p occs name k,
  p_params p = reported occs -> find_option opts name = Some k ->
  let mine := filter (fun o => Nat.eqb (oc_k o) k) occs in
  get_ninsts opts p name = length mine /\
  forall inst idx,
    get_param opts p name inst idx =
      if idx <? np_of opts k
      then match nth_error mine inst with Some o => Some (get (oc_ps o) idx) | None => None end
      else None.
Proof.
  intros opts p occs name k Hp Hf mine. unfold get_ninsts, get_param. rewrite Hf, Hp, filter_reported.
  fold mine. split.
  - unfold reported. now rewrite map_length.
  - intros inst idx. destruct (idx <? np_of opts k); [|easy].
    unfold reported. rewrite nth_error_map. now destruct (nth_error mine inst).
Qed.
Theorem queries_unknown : forall opts p name inst idx,
  find_option opts name = None -> get_ninsts opts p name = 0 /\ get_param opts p name inst idx = None.
Proof. intros opts p name inst idx H. unfold get_ninsts, get_param. now rewrite H. Qed.

(* make_opt *)
Theorem make_opt_spec : forall cmd sh sd lg np,
  make_opt cmd sh sd lg np =
    if (Ascii.eqb sh zero && is_none sd && is_none lg) || (np <? 0)%Z
    then (RC_BAD_PARAM, cmd)
    else (RC_SUCCESS, cmd ++ [mk_opt sh sd lg (Z.to_nat np)]).
Proof.
  intros. unfold make_opt. destruct (Ascii.eqb sh zero && is_none sd && is_none lg); [easy|].
  now destruct (np <? 0)%Z.
Qed.

(* ------------------------------------------------------------------------ *)
(* the error path that frees param->clp_argv twice is reachable *)
Definition df_opts : list opt :=
  [mk_opt "a"%char None (Some ["a"; "l"; "p"; "h"; "a"]%char) 2; mk_opt "b"%char None None 0].
Definition df_argv : list (list ascii) := [["p"]; ["-"; "a"; "b"]; ["x"]]%char.
Lemma double_free_reachable : p_ub (cmd_parse df_opts false (Some df_argv)) = true.
Proof. vm_compute. reflexivity. Qed.

(* ------------------------------------------------------------------------ *)
(* the statements of Properties_C39.v *)
Lemma P_parse_queries : forall opts p occs name,
  p_params p = reported occs ->
  match find_option opts name with
  | Some k =>
      let mine := filter (fun o => Nat.eqb (oc_k o) k) occs in
      get_ninsts opts p name = length mine /\
      forall inst idx,
        get_param opts p name inst idx =
          if idx <? np_of opts k
          then match nth_error mine inst with Some o => Some (get (oc_ps o) idx) | None => None end
          else None
  | None => get_ninsts opts p name = 0 /\ forall inst idx, get_param opts p name inst idx = None
  end.
Proof.
  intros opts p occs name Hp. destruct (find_option opts name) as [k|] eqn:Hf.
  - now apply queries_wf.
  - split; [now apply (queries_unknown opts p name 0 0) | intros; now apply queries_unknown].
Qed.
Lemma P_double_free_refuted : exists opts ign av, p_ub (cmd_parse opts ign (Some av)) = true.
Proof. exists df_opts, false, df_argv. exact double_free_reachable. Qed.

Local Open Scope char_scope.
Lemma P_example :
  argv_split [","; "a"; ","; ","; "b"; ","] "," = Some [["a"]; ["b"]] /\
  argv_split_with_empty ["a"; ","; "b"; ","; ","] "," = Some [["a"]; ["b"]; []] /\
  argv_join (Some [["a"]; []; ["b"]]) "," = ["a"; ","; ","; "b"] /\
  argv_insert (Some [["a"]; ["b"]; ["c"]]) 1 (Some [["x"]; ["y"]]) =
    (RC_SUCCESS, Some [["a"]; ["x"]; ["y"]; ["b"]; ["c"]]) /\
  argv_delete 5 (Some [["a"]; ["x"]; ["y"]; ["b"]; ["c"]]) 1 2 = (RC_SUCCESS, 3%Z, Some [["a"]; ["b"]; ["c"]]) /\
  let opts := [mk_opt "a" None (Some ["a"; "l"]) 2; mk_opt "b" None (Some ["b"; "e"; "t"; "a"]) 0] in
  let occs := [mk_occ ["-"; "a"] 0 [["1"]; ["2"]]; mk_occ ["-"; "-"; "b"; "e"; "t"; "a"] 1 []] in
  Forall (wf_occ opts) occs /\ wf_end (E_dashdash [["t"]]) /\
  p_params (cmd_parse opts false (Some (["p"] :: render occs ++ render_end (E_dashdash [["t"]])))) =
    [(0, [["1"]; ["2"]]); (1, [])].
Proof.
  do 5 (split; [vm_compute; reflexivity|]).
  intros opts occs. split; [|split; [exact I | vm_compute; reflexivity]].
  constructor; [|constructor; [|constructor]].
  - split; [|split; [reflexivity|]].
    + split; [discriminate|]. right. exists ["a"]. repeat split.
    + repeat constructor; discriminate.
  - split; [|split; [reflexivity | constructor]].
    split; [discriminate|]. left. exists ["b"; "e"; "t"; "a"]. repeat split.
Qed.
