(* Proofs about the model of parsec/utils/cmd_line.c (ArgvCmdLineDefs.v). *)
From Coq Require Import Ascii.
From PV Require Import Base.Tac Argv.ArgvDefs Argv.ArgvProofs Argv.ArgvCmdLineDefs.

(* ------------------------------------------------------------------------ *)
(* well-formed command lines *)

(* the token [tok] names option [k] directly: "--name" or "-name" *)
Definition resolves (opts : list opt) (tok : list ascii) (k : nat) : Prop :=
  tok <> [dash; dash] /\
  ((exists name, tok = dash :: dash :: name /\ find_option opts name = Some k) \/
   (exists name, tok = dash :: name /\ starts_dashdash tok = false /\ find_option opts name = Some k)).

(* one occurrence of an option: its token, the option it names, its parameters *)
Record occ := mk_occ { oc_tok : list ascii; oc_k : nat; oc_ps : list (list ascii) }.
Definition wf_occ (opts : list opt) (o : occ) : Prop :=
  resolves opts (oc_tok o) (oc_k o) /\
  length (oc_ps o) = np_of opts (oc_k o) /\
  Forall (fun p => p <> special_empty_token) (oc_ps o).
Definition render (occs : list occ) : list (list ascii) :=
  flat_map (fun o => oc_tok o :: oc_ps o) occs.
Definition reported (occs : list occ) : list (nat * list (list ascii)) :=
  map (fun o => (oc_k o, oc_ps o)) occs.

(* how the command line ends *)
Inductive ending :=
| E_none
| E_dashdash (rest : list (list ascii))              (* "--" then anything *)
| E_token (u : list ascii) (rest : list (list ascii)). (* a token that does not start with '-', then anything *)
Definition wf_end (e : ending) : Prop :=
  match e with E_token u _ => hd_error u <> Some dash | _ => True end.
Definition render_end (e : ending) : list (list ascii) :=
  match e with E_none => [] | E_dashdash r => [dash; dash] :: r | E_token u r => u :: r end.
Definition tail_of (e : ending) : list (list ascii) :=
  match e with E_none => [] | E_dashdash r => r | E_token u r => u :: r end.
Definition rc_of (ignore_unknown : bool) (e : ending) : rc :=
  match e with E_token _ _ => if ignore_unknown then RC_SUCCESS else RC_ERROR | _ => RC_SUCCESS end.

(* ------------------------------------------------------------------------ *)
Lemma get_middle : forall (pre : list (list ascii)) x post, get (pre ++ x :: post) (length pre) = x.
Proof. intros; unfold get. apply nth_middle. Qed.
Lemma skipn_pre : forall (pre l : list (list ascii)), skipn (length pre) (pre ++ l) = l.
Proof. intros. rewrite <- (Nat.add_0_r (length pre)). now rewrite skipn_app_len. Qed.

Lemma take_params_ok : forall ps pre post acc,
  Forall (fun p => p <> special_empty_token) ps ->
  take_params (length ps) (pre ++ ps ++ post) (length pre) acc = T_ok (acc ++ ps) (length pre + length ps).
Proof.
  induction ps as [|p ps IH]; intros pre post acc Hall; cbn [length take_params].
  - now rewrite app_nil_r, Nat.add_0_r.
  - inv Hall. cbn [app].
    destruct (length (pre ++ p :: ps ++ post) <=? length pre) eqn:Hl.
    { rewrite app_length in Hl; cbn [length] in Hl. lia. }
    rewrite get_middle.
    destruct (str_eqb p special_empty_token) eqn:He; [apply str_eqb_eq in He; easy|].
    replace (pre ++ p :: ps ++ post) with ((pre ++ [p]) ++ ps ++ post) by now rewrite <- app_assoc.
    replace (S (length pre)) with (length (pre ++ [p])) by (rewrite app_length; cbn; lia).
    rewrite IH by easy. rewrite <- app_assoc. cbn [app]. f_equal.
    rewrite app_length; cbn; lia.
Qed.

Lemma str_eqb_false : forall a b, a <> b -> str_eqb a b = false.
Proof.
  intros a b H. destruct (str_eqb a b) eqn:E; [|easy]. apply str_eqb_eq in E. easy.
Qed.

(* ---- one iteration on a directly named option -------------------------- *)
Lemma direct_step : forall opts ign o pre rest params f,
  wf_occ opts o ->
  parse_loop (S f) opts ign (pre ++ (oc_tok o :: oc_ps o) ++ rest) (length pre) params =
  parse_loop f opts ign (pre ++ (oc_tok o :: oc_ps o) ++ rest)
             (length pre + length (oc_tok o :: oc_ps o)) (params ++ [(oc_k o, oc_ps o)]).
Proof.
  intros opts ign [tok k ps] pre rest params f ((Hnd & Hres) & Hnp & Hsp).
  cbn [oc_tok oc_k oc_ps] in *. cbn [app]. cbn [parse_loop].
  destruct (length (pre ++ tok :: ps ++ rest) <=? length pre) eqn:Hl.
  { rewrite app_length in Hl; cbn [length] in Hl; lia. }
  rewrite get_middle. rewrite (str_eqb_false _ _ Hnd).
  assert (Hk : take_params (np_of opts k) (pre ++ tok :: ps ++ rest) (S (length pre)) [] =
               T_ok ps (length pre + length (tok :: ps))).
  { rewrite <- Hnp.
    replace (pre ++ tok :: ps ++ rest) with ((pre ++ [tok]) ++ ps ++ rest) by now rewrite <- app_assoc.
    replace (S (length pre)) with (length (pre ++ [tok])) by (rewrite app_length; cbn; lia).
    rewrite take_params_ok by easy. cbn [app length]. f_equal. rewrite app_length; cbn; lia. }
  destruct Hres as [(name & -> & Hfind) | (name & -> & Hsd & Hfind)].
  - rewrite Ascii.eqb_refl. cbn [negb starts_dashdash]. rewrite Ascii.eqb_refl. cbn [andb tl].
    rewrite Hfind, Hk. easy.
  - rewrite Ascii.eqb_refl. cbn [negb]. rewrite Hsd, Hfind, Hk. easy.
Qed.

(* a run of directly named options, whatever follows *)
Lemma parse_prefix : forall opts ign os pre rest params fuel,
  Forall (wf_occ opts) os ->
  parse_loop (length os + fuel) opts ign (pre ++ render os ++ rest) (length pre) params =
  parse_loop fuel opts ign (pre ++ render os ++ rest) (length pre + length (render os)) (params ++ reported os).
Proof.
  intros opts ign. induction os as [|o os IH]; intros pre rest params fuel Hwf.
  - cbn [render flat_map length reported map app]. now rewrite Nat.add_0_r, app_nil_r.
  - inv Hwf. cbn [render flat_map]. fold (render os). cbn [length Nat.add].
    rewrite <- (app_assoc (oc_tok o :: oc_ps o)). rewrite direct_step by easy.
    replace (pre ++ (oc_tok o :: oc_ps o) ++ render os ++ rest)
      with ((pre ++ oc_tok o :: oc_ps o) ++ render os ++ rest) by now rewrite <- app_assoc.
    rewrite <- app_length. rewrite IH by easy. f_equal.
    + repeat (rewrite ?app_length; cbn [length]). lia.
    + cbn [reported map]. now rewrite <- app_assoc.
Qed.

(* the iteration that meets the end of the options *)
Lemma end_step : forall opts ign e pre params f,
  wf_end e ->
  parse_loop (S f) opts ign (pre ++ render_end e) (length pre) params =
    mk_parsed (rc_of ign e) params (tail_of e) (pre ++ render_end e) false.
Proof.
  intros opts ign e pre params f He. cbn [parse_loop].
  destruct e as [|r|u r]; cbn [render_end tail_of rc_of].
  - rewrite app_nil_r. rewrite Nat.leb_refl. easy.
  - destruct (length (pre ++ [dash; dash] :: r) <=? length pre) eqn:Hl.
    { rewrite app_length in Hl; cbn [length] in Hl; lia. }
    rewrite get_middle. rewrite str_eqb_refl. f_equal.
    replace (S (length pre)) with (length (pre ++ [[dash; dash]])) by (rewrite app_length; cbn; lia).
    replace (pre ++ [dash; dash] :: r) with ((pre ++ [[dash; dash]]) ++ r) by now rewrite <- app_assoc.
    apply skipn_pre.
  - destruct (length (pre ++ u :: r) <=? length pre) eqn:Hl.
    { rewrite app_length in Hl; cbn [length] in Hl; lia. }
    rewrite get_middle. cbn [wf_end] in He.
    assert (Hne : str_eqb u [dash; dash] = false).
    { apply str_eqb_false. intros ->. now elim He. }
    rewrite Hne. rewrite skipn_pre.
    destruct u as [|c0 rest]; [now destruct ign|].
    destruct (Ascii.eqb c0 dash) eqn:Hc.
    { apply Ascii.eqb_eq in Hc; subst c0. now elim He. }
    cbn [negb]. now destruct ign.
Qed.

Lemma parse_loop_wf : forall opts ign e occs pre params fuel,
  Forall (wf_occ opts) occs -> wf_end e -> length occs < fuel ->
  parse_loop fuel opts ign (pre ++ render occs ++ render_end e) (length pre) params =
    mk_parsed (rc_of ign e) (params ++ reported occs) (tail_of e)
              (pre ++ render occs ++ render_end e) false.
Proof.
  intros opts ign e occs pre params fuel Hwf He Hf.
  replace fuel with (length occs + S (fuel - length occs - 1)) by lia.
  rewrite parse_prefix by easy.
  rewrite <- app_length. rewrite (app_assoc pre). now rewrite end_step.
Qed.

Lemma render_length : forall occs, length occs <= length (render occs).
Proof.
  induction occs as [|o occs IH]; [easy|]. cbn [render flat_map length app].
  fold (render occs). rewrite app_length. lia.
Qed.

(* every well-formed command line is reported exactly *)
Theorem parse_wf : forall opts ign prog occs e,
  Forall (wf_occ opts) occs -> wf_end e ->
  cmd_parse opts ign (Some (prog :: render occs ++ render_end e)) =
    mk_parsed (rc_of ign e) (reported occs) (tail_of e) (prog :: render occs ++ render_end e) false.
Proof.
  intros opts ign prog occs e Hwf He. cbn [cmd_parse].
  apply (parse_loop_wf opts ign e occs [prog] []); try easy.
  unfold parse_fuel. cbn [length]. rewrite app_length. pose proof (render_length occs). lia.
Qed.

(* ------------------------------------------------------------------------ *)
(* groups of short options: "-c1c2..cn" followed by the parameters of c1, then
   those of c2, ... *)
Record sopt := mk_sopt { so_c : ascii; so_k : nat; so_ps : list (list ascii) }.
Definition wf_sopt (opts : list opt) (s : sopt) : Prop :=
  so_c s <> dash /\
  find_option opts [so_c s] = Some (so_k s) /\
  length (so_ps s) = np_of opts (so_k s) /\
  Forall (fun p => p <> special_empty_token) (so_ps s).
Definition expand (g : list sopt) : list occ :=
  map (fun s => mk_occ [dash; so_c s] (so_k s) (so_ps s)) g.
Definition group_tok (g : list sopt) : list ascii := dash :: map so_c g.
Definition group_params (g : list sopt) : list (list ascii) := flat_map so_ps g.
(* the letters together must not be a declared name (the parser tries that first) *)
Definition wf_group (opts : list opt) (g : list sopt) : Prop :=
  g <> [] /\ Forall (wf_sopt opts) g /\ find_option opts (map so_c g) = None.

Lemma expand_wf : forall opts g, Forall (wf_sopt opts) g -> Forall (wf_occ opts) (expand g).
Proof.
  intros opts g H. unfold expand. apply Forall_map. eapply Forall_impl; [|exact H].
  intros [c k ps] (Hc & Hf & Hn & Hs); cbn [so_c so_k so_ps] in *.
  split; [|split; easy]. cbn [oc_tok oc_k]. split.
  - intro E. inv E. easy.
  - right. exists [c]. split; [easy|]. split; [|easy].
    cbn [starts_dashdash]. rewrite Ascii.eqb_refl. cbn [andb].
    now apply Ascii.eqb_neq.
Qed.

Lemma shorts_params_ok : forall ps A B out,
  shorts_params (length ps) (A ++ ps ++ B) (length A) out = (out ++ ps, length A + length ps).
Proof.
  induction ps as [|p ps IH]; intros A B out; cbn [length shorts_params].
  - now rewrite app_nil_r, Nat.add_0_r.
  - destruct (length A <? length (A ++ (p :: ps) ++ B)) eqn:Hl.
    2:{ rewrite app_length in Hl; cbn [length app] in Hl; lia. }
    cbn [app]. rewrite get_middle.
    replace (A ++ p :: ps ++ B) with ((A ++ [p]) ++ ps ++ B) by now rewrite <- app_assoc.
    replace (S (length A)) with (length (A ++ [p])) by (rewrite app_length; cbn; lia).
    rewrite IH. rewrite <- app_assoc. cbn [app]. f_equal. rewrite app_length; cbn; lia.
Qed.

Lemma shorts_loop_ok : forall opts ign g A B out,
  Forall (wf_sopt opts) g ->
  shorts_loop opts (map so_c g) (A ++ group_params g ++ B) ign (length A) out =
    Some (out ++ render (expand g), length A + length (group_params g)).
Proof.
  intros opts ign. induction g as [|s g IH]; intros A B out Hwf.
  - cbn. now rewrite app_nil_r, Nat.add_0_r.
  - inv Hwf. destruct H1 as (Hc & Hf & Hn & Hs).
    cbn [map shorts_loop]. rewrite Hf. rewrite <- Hn.
    cbn [group_params flat_map]. fold (group_params g). rewrite <- app_assoc.
    rewrite shorts_params_ok.
    replace (A ++ so_ps s ++ group_params g ++ B) with ((A ++ so_ps s) ++ group_params g ++ B)
      by now rewrite <- app_assoc.
    rewrite <- app_length. rewrite IH by easy.
    cbn [expand map render flat_map oc_tok oc_ps]. fold (expand g). fold (render (expand g)).
    f_equal. f_equal.
    + rewrite <- !app_assoc. easy.
    + rewrite !app_length. lia.
Qed.

(* the iteration that meets a group rewrites the vector and goes on exactly as
   if the options had been written one by one *)
Lemma group_step : forall opts ign g pre rest params f,
  wf_group opts g ->
  parse_loop (S f) opts ign (pre ++ (group_tok g :: group_params g) ++ rest) (length pre) params =
  parse_loop (S f) opts ign (pre ++ render (expand g) ++ rest) (length pre) params.
Proof.
  intros opts ign g pre rest params f (Hne & Hwf & Hnone).
  destruct g as [|s g]; [easy|]. clear Hne.
  assert (Hs := Hwf). inv Hs. destruct H1 as (Hc & Hf & Hn & Hsp).
  set (G := s :: g) in *.
  (* right-hand side: the first expanded token is handled directly *)
  assert (Er : render (expand G) = [dash; so_c s] :: so_ps s ++ render (expand g)) by reflexivity.
  set (av' := pre ++ render (expand G) ++ rest).
  assert (Hget' : get av' (length pre) = [dash; so_c s]).
  { subst av'. rewrite Er. cbn [app]. apply get_middle. }
  assert (Hlen' : (length av' <=? length pre) = false).
  { subst av'. rewrite Er. rewrite app_length. cbn [app length]. apply Nat.leb_gt. lia. }
  assert (Hcd : Ascii.eqb (so_c s) dash = false) by now apply Ascii.eqb_neq.
  (* left-hand side *)
  set (av := pre ++ (group_tok G :: group_params G) ++ rest).
  assert (Hget : get av (length pre) = group_tok G) by (subst av; cbn [app]; apply get_middle).
  assert (Hlen : (length av <=? length pre) = false).
  { subst av. rewrite app_length. cbn [app length]. apply Nat.leb_gt. lia. }
  assert (Hsk : skipn (S (length pre)) av = group_params G ++ rest).
  { subst av. cbn [app].
    replace (pre ++ group_tok G :: group_params G ++ rest)
      with ((pre ++ [group_tok G]) ++ group_params G ++ rest) by now rewrite <- app_assoc.
    replace (S (length pre)) with (length (pre ++ [group_tok G])) by (rewrite app_length; cbn; lia).
    apply skipn_pre. }
  assert (Hsplit : split_shorts opts (map so_c G) (skipn (S (length pre)) av) ign =
                   Some (render (expand G), length (group_params G))).
  { rewrite Hsk. unfold split_shorts. cbn [G map].
    change (so_c s :: map so_c g) with (map so_c G).
    apply (shorts_loop_ok opts ign G [] rest []). easy. }
  assert (Hdel : argv_delete (Z.of_nat (length av)) (Some av) (Z.of_nat (length pre))
                             (Z.of_nat (1 + length (group_params G))) =
                 (RC_SUCCESS, (Z.of_nat (length av) - Z.of_nat (1 + length (group_params G)))%Z,
                  Some (pre ++ rest))).
  { rewrite delete_spec.
    2:{ subst av. rewrite app_length. lia. }
    2:{ lia. }
    f_equal. f_equal. rewrite !Nat2Z.id. subst av.
    rewrite firstn_app_len.
    rewrite skipn_app_len. cbn [app Nat.add skipn].
    rewrite <- (Nat.add_0_r (length (group_params G))), skipn_app_len. easy. }
  assert (Hins : argv_insert (Some (pre ++ rest)) (Z.of_nat (length pre)) (Some (render (expand G))) =
                 (RC_SUCCESS, Some av')).
  { rewrite insert_spec by lia. rewrite Nat2Z.id. f_equal. f_equal. subst av'.
    rewrite firstn_app_len. rewrite <- (Nat.add_0_r (length pre)), skipn_app_len. easy. }
  cbn [parse_loop]. fold av. fold av'.
  rewrite Hlen, Hlen', Hget, Hget'.
  assert (E1 : str_eqb (group_tok G) [dash; dash] = false).
  { cbn [group_tok G map str_eqb]. rewrite Ascii.eqb_refl, Hcd. easy. }
  assert (E2 : str_eqb [dash; so_c s] [dash; dash] = false).
  { cbn [str_eqb]. rewrite Ascii.eqb_refl, Hcd. easy. }
  assert (E3 : starts_dashdash (group_tok G) = false).
  { cbn [group_tok G map starts_dashdash]. rewrite Ascii.eqb_refl, Hcd. easy. }
  assert (E4 : starts_dashdash [dash; so_c s] = false).
  { cbn [starts_dashdash]. rewrite Ascii.eqb_refl, Hcd. easy. }
  rewrite E1, E2. unfold group_tok at 1. rewrite Ascii.eqb_refl. cbn [negb].
  fold (group_tok G). rewrite E3, E4.
  rewrite Hnone, Hsplit, Hf.
  replace (get (render (expand G)) 0) with [dash; so_c s] by (rewrite Er; reflexivity).
  cbn [tl]. rewrite Hf. rewrite Hdel, Hins. cbn [snd vec_of]. easy.
Qed.

(* command lines mixing both ways of writing options *)
Inductive item := I_direct (o : occ) | I_group (g : list sopt).
Definition wf_item (opts : list opt) (it : item) : Prop :=
  match it with I_direct o => wf_occ opts o | I_group g => wf_group opts g end.
Definition render_item (it : item) : list (list ascii) :=
  match it with I_direct o => oc_tok o :: oc_ps o | I_group g => group_tok g :: group_params g end.
Definition render_items (its : list item) : list (list ascii) := flat_map render_item its.
(* the options as the parser reports them: a group counts as its options one by one *)
Definition flatten (its : list item) : list occ :=
  flat_map (fun it => match it with I_direct o => [o] | I_group g => expand g end) its.
Definition noptions (its : list item) : nat := length (flatten its).

Lemma render_app : forall a b, render (a ++ b) = render a ++ render b.
Proof. intros; unfold render. apply flat_map_app. Qed.

Lemma parse_items_loop : forall opts ign e its pre params fuel,
  Forall (wf_item opts) its -> wf_end e -> noptions its < fuel ->
  parse_loop fuel opts ign (pre ++ render_items its ++ render_end e) (length pre) params =
    mk_parsed (rc_of ign e) (params ++ reported (flatten its)) (tail_of e)
              (pre ++ render (flatten its) ++ render_end e) false.
Proof.
  intros opts ign e. induction its as [|it its IH]; intros pre params fuel Hwf He Hf.
  - cbn [render_items flatten flat_map render reported map app].
    destruct fuel as [|f]; [cbn in Hf; lia|]. rewrite app_nil_r. now apply end_step.
  - inv Hwf. unfold noptions in Hf. cbn [flatten flat_map] in Hf. fold (flatten its) in Hf.
    rewrite app_length in Hf.
    cbn [render_items flatten flat_map]. fold (render_items its). fold (flatten its).
    rewrite render_app. unfold reported. rewrite map_app. fold (reported (flatten its)).
    destruct it as [o|g]; cbn [wf_item render_item] in *.
    + (* a directly named option *)
      cbn [length] in Hf. destruct fuel as [|f]; [lia|].
      rewrite <- (app_assoc (oc_tok o :: oc_ps o)). rewrite direct_step by easy.
      replace (pre ++ (oc_tok o :: oc_ps o) ++ render_items its ++ render_end e)
        with ((pre ++ oc_tok o :: oc_ps o) ++ render_items its ++ render_end e) by now rewrite <- app_assoc.
      rewrite <- app_length. rewrite IH by (try easy; unfold noptions; lia).
      cbn [render flat_map map]. rewrite app_nil_r. rewrite <- !app_assoc. easy.
    + (* a group *)
      destruct H1 as (Hne & Hg & Hnone).
      assert (Hl : length (expand g) = length g) by (unfold expand; apply map_length).
      destruct g as [|s g]; [easy|]. set (G := s :: g) in *.
      destruct fuel as [|f]; [lia|].
      rewrite <- (app_assoc (group_tok G :: group_params G)).
      rewrite group_step by (split; [easy | split; easy]).
      replace (S f) with (length (expand G) + (S f - length (expand G))) by (rewrite Hl in *; cbn [length] in *; lia).
      rewrite parse_prefix by now apply expand_wf.
      rewrite <- app_length.
      rewrite (app_assoc pre (render (expand G))).
      rewrite IH by (try easy; unfold noptions; lia).
      rewrite <- !app_assoc. easy.
Qed.

Lemma noptions_le : forall opts its, Forall (wf_item opts) its ->
  noptions its <= fold_right (fun t acc => length t + acc) 0 (render_items its).
Proof.
  intros opts. induction its as [|it its IH]; intro Hwf; [easy|]. inv Hwf. specialize (IH H2).
  unfold noptions in *. cbn [flatten flat_map render_items]. fold (flatten its). fold (render_items its).
  rewrite app_length.
  assert (Hf : forall a b : list (list ascii),
            fold_right (fun t acc => length t + acc) 0 (a ++ b) =
            fold_right (fun t acc => length t + acc) 0 a + fold_right (fun t acc => length t + acc) 0 b).
  { induction a as [|x a IHa]; intro b; cbn [app fold_right]; [easy|]. rewrite IHa. lia. }
  rewrite Hf. destruct it as [o|g]; cbn [render_item length fold_right wf_item] in *.
  - destruct H1 as ((_ & Hres) & _).
    destruct Hres as [(name & -> & _) | (name & -> & _)]; cbn [length]; lia.
  - unfold expand, group_tok. rewrite map_length. cbn [length]. rewrite map_length. lia.
Qed.
Lemma fuel_enough : forall opts av,
  fold_right (fun t acc => length t + acc) 0 av < parse_fuel opts av.
Proof.
  intros opts av. unfold parse_fuel.
  set (m := fold_right (fun o m => Nat.max (o_np o) m) 0 opts).
  assert (H : fold_right (fun t acc => length t + acc) 0 av <=
              fold_right (fun t acc => length t * (1 + m) + acc) 0 av).
  { induction av as [|t av IH]; cbn [fold_right]; [lia|]. nia. }
  lia.
Qed.

(* the general statement: options written directly or in groups *)
Theorem parse_items_wf : forall opts ign prog its e,
  Forall (wf_item opts) its -> wf_end e ->
  cmd_parse opts ign (Some (prog :: render_items its ++ render_end e)) =
    mk_parsed (rc_of ign e) (reported (flatten its)) (tail_of e)
              (prog :: render (flatten its) ++ render_end e) false.
Proof.
  intros opts ign prog its e Hwf He. cbn [cmd_parse].
  apply (parse_items_loop opts ign e its [prog] []); try easy.
  pose proof (noptions_le opts its Hwf) as H1.
  pose proof (fuel_enough opts (prog :: render_items its ++ render_end e)) as H2.
  cbn [fold_right] in H2.
  assert (H3 : fold_right (fun t acc => length t + acc) 0 (render_items its) <=
               fold_right (fun t acc => length t + acc) 0 (render_items its ++ render_end e)).
  { generalize (render_items its) as a. induction a as [|x a IHa]; cbn [app fold_right]; lia. }
  lia.
Qed.

(* the queries on such a result *)
Lemma filter_reported : forall occs k,
  filter (fun kp : nat * list (list ascii) => Nat.eqb (fst kp) k) (reported occs) =
  reported (filter (fun o => Nat.eqb (oc_k o) k) occs).
Proof.
  induction occs as [|o occs IH]; intro k; [easy|]. cbn [reported map filter fst].
  destruct (Nat.eqb (oc_k o) k); cbn [reported map]; f_equal; apply IH.
Qed.
Theorem queries_wf : forall opts p occs name k,
  p_params p = reported occs -> find_option opts name = Some k ->
  let mine := filter (fun o => Nat.eqb (oc_k o) k) occs in
  get_ninsts opts p name = length mine /\
  forall inst idx,
    get_param opts p name inst idx =
      if idx <? np_of opts k
      then match nth_error mine inst with Some o => Some (get (oc_ps o) idx) | None => None end
      else None.
Proof.
  intros opts p occs name k Hp Hf mine. unfold get_ninsts, get_param. rewrite Hf, Hp, filter_reported.
  fold mine. split.
  - unfold reported. now rewrite map_length.
  - intros inst idx. destruct (idx <? np_of opts k); [|easy].
    unfold reported. rewrite nth_error_map. now destruct (nth_error mine inst).
Qed.
Theorem queries_unknown : forall opts p name inst idx,
  find_option opts name = None -> get_ninsts opts p name = 0 /\ get_param opts p name inst idx = None.
Proof. intros opts p name inst idx H. unfold get_ninsts, get_param. now rewrite H. Qed.

(* make_opt *)
Theorem make_opt_spec : forall cmd sh sd lg np,
  make_opt cmd sh sd lg np =
    if (Ascii.eqb sh zero && is_none sd && is_none lg) || (np <? 0)%Z
    then (RC_BAD_PARAM, cmd)
    else (RC_SUCCESS, cmd ++ [mk_opt sh sd lg (Z.to_nat np)]).
Proof.
  intros. unfold make_opt. destruct (Ascii.eqb sh zero && is_none sd && is_none lg); [easy|].
  now destruct (np <? 0)%Z.
Qed.

(* ------------------------------------------------------------------------ *)
(* a missing parameter is an error return, with the rest of the line in the tail *)
Lemma take_params_missing : forall np av i acc j,
  take_params np av i acc = T_missing j -> i <= j.
Proof.
  induction np as [|np IH]; intros av i acc j H; cbn [take_params] in H; [easy|].
  destruct (length av <=? i); [inv H; lia|].
  destruct (str_eqb (get av i) special_empty_token); [inv H; lia|].
  apply IH in H. lia.
Qed.

(* ------------------------------------------------------------------------ *)
(* the statements of Properties_C39.v *)
Lemma P_parse_queries : forall opts p occs name,
  p_params p = reported occs ->
  match find_option opts name with
  | Some k =>
      let mine := filter (fun o => Nat.eqb (oc_k o) k) occs in
      get_ninsts opts p name = length mine /\
      forall inst idx,
        get_param opts p name inst idx =
          if idx <? np_of opts k
          then match nth_error mine inst with Some o => Some (get (oc_ps o) idx) | None => None end
          else None
  | None => get_ninsts opts p name = 0 /\ forall inst idx, get_param opts p name inst idx = None
  end.
Proof.
  intros opts p occs name Hp. destruct (find_option opts name) as [k|] eqn:Hf.
  - now apply queries_wf.
  - split; [now apply (queries_unknown opts p name 0 0) | intros; now apply queries_unknown].
Qed.
Local Open Scope char_scope.
Lemma P_example :
  argv_split [","; "a"; ","; ","; "b"; ","] "," = Some [["a"]; ["b"]] /\
  argv_split_with_empty ["a"; ","; "b"; ","; ","] "," = Some [["a"]; ["b"]; []; []] /\
  argv_join (Some [["a"]; []; ["b"]]) "," = ["a"; ","; ","; "b"] /\
  argv_insert (Some [["a"]; ["b"]; ["c"]]) 1 (Some [["x"]; ["y"]]) =
    (RC_SUCCESS, Some [["a"]; ["x"]; ["y"]; ["b"]; ["c"]]) /\
  argv_delete 5 (Some [["a"]; ["x"]; ["y"]; ["b"]; ["c"]]) 1 2 = (RC_SUCCESS, 3%Z, Some [["a"]; ["b"]; ["c"]]) /\
  (* p --beta -ba 1 2 -- t : one option written directly, then a group of two *)
  let opts := [mk_opt "a" None (Some ["a"; "l"]) 2; mk_opt "b" None (Some ["b"; "e"; "t"; "a"]) 0] in
  let its := [I_direct (mk_occ ["-"; "-"; "b"; "e"; "t"; "a"] 1 []);
              I_group [mk_sopt "b" 1 []; mk_sopt "a" 0 [["1"]; ["2"]]]] in
  Forall (wf_item opts) its /\ wf_end (E_dashdash [["t"]]) /\
  render_items its = [["-"; "-"; "b"; "e"; "t"; "a"]; ["-"; "b"; "a"]; ["1"]; ["2"]] /\
  p_params (cmd_parse opts false (Some (["p"] :: render_items its ++ render_end (E_dashdash [["t"]])))) =
    [(1, []); (1, []); (0, [["1"]; ["2"]])].
Proof.
  do 5 (split; [vm_compute; reflexivity|]).
  intros opts its. split; [|split; [exact I | split; vm_compute; reflexivity]].
  constructor; [|constructor; [|constructor]].
  - split; [|split; [reflexivity | constructor]].
    split; [discriminate|]. left. exists ["b"; "e"; "t"; "a"]. repeat split.
  - split; [discriminate|]. split; [|reflexivity].
    constructor; [|constructor; [|constructor]].
    + split; [discriminate|]. split; [reflexivity|]. split; [reflexivity | constructor].
    + split; [discriminate|]. split; [reflexivity|]. split; [reflexivity|].
      repeat constructor; discriminate.
Qed.
