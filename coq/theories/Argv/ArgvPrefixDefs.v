(* The code as it was BEFORE the two C39 repairs (repository commits 37250ca and
   6bc250b), kept only for the [..._prefix_refuted] theorems of Properties_C39.v:
   the definitions that differ from ArgvDefs.v / ArgvCmdLineDefs.v, verbatim from
   the model that was run against the unrepaired code (no disagreement on 7750
   cases x 5 seeds).  Nothing here is extracted or tested any more. *)
From Coq Require Import List Ascii Arith ZArith Bool.
From PV Require Import Argv.ArgvDefs Argv.ArgvCmdLineDefs.
Import ListNotations.

Module Prefix.

(* ---- parsec_argv_split_inter before 37250ca: nothing is appended after a
   delimiter that ends the string ------------------------------------------- *)
(* the outer while (src_string && *src_string) loop; one unit of fuel per iteration *)
Fixpoint split_loop (fuel : nat) (include_empty : bool) (d : ascii) (src : str) (a : argv) : argv :=
  match fuel with
  | O => a
  | S f =>
      match src with
      | [] => a
      | _ :: _ =>
          let (tok, p) := scan d src in
          match tok, p with
          | [], _ =>        (* src_string == p: zero length argument; src_string = p + 1 *)
              split_loop f include_empty d (tl p)
                         (if include_empty then snd (argv_append a []) else a)
          | _ :: _, [] =>   (* '\0' == *p: tail argument; src_string = p; continue *)
              split_loop f include_empty d [] (snd (argv_append a src))
          | _ :: _, _ :: p1 => (* short or long argument (same result); src_string = p + 1 *)
              split_loop f include_empty d p1 (snd (argv_append a tok))
          end
      end
  end.
Definition split_inter (s : str) (d : ascii) (include_empty : bool) : argv :=
  split_loop (S (length s)) include_empty d s None.
Definition argv_split_with_empty (s : str) (d : ascii) : argv := split_inter s d true.

(* ---- parsec_cmd_line_parse before 6bc250b ---------------------------------- *)
(* the loop that takes the parameters of a recognised option
   (for (j = 0; j < clo_num_params; ++j, ++i)) *)
Inductive taken :=
| T_ok (ps : list (list ascii)) (i : nat)   (* all parameters present; next token *)
| T_missing (i : nat)                       (* error; the tail starts at i *)
| T_double_free (i : nat).                  (* error path that frees param->clp_argv twice:
                                               parsec_argv_free(param->clp_argv) and then
                                               PARSEC_OBJ_RELEASE(param), whose destructor frees
                                               the same non-NULL clp_argv again (cmd_line.c:414-417) *)
Fixpoint take_params (np : nat) (av : vec) (i : nat) (acc : vec) : taken :=
  match np with
  | O => T_ok acc i
  | S np' =>
      if length av <=? i then T_missing i        (* only PARSEC_OBJ_RELEASE(param) *)
      else if str_eqb (get av i) special_empty_token then
        match acc with [] => T_missing i | _ => T_double_free i end
      else take_params np' av (S i) (acc ++ [get av i])
  end.

Record parsed := mk_parsed {
  p_rc : rc;
  p_params : list (nat * list (list ascii)); (* lcl_params: (option, its parameters), in order *)
  p_tail : list (list ascii);                (* lcl_tail_argv *)
  p_argv : list (list ascii);                (* lcl_argv after the parse (short options expanded) *)
  p_fuel : bool;                             (* the model ran out of fuel (never on the tested inputs) *)
  p_ub : bool                                (* the C code has undefined behaviour here (double free) *)
}.

(* for (i = 1; i < cmd->lcl_argc; ) ... one unit of fuel per iteration *)
Fixpoint parse_loop (fuel : nat) (opts : list opt) (ignore_unknown : bool)
         (av : vec) (i : nat) (params : list (nat * vec)) : parsed :=
  match fuel with
  | O => mk_parsed RC_ERROR params [] av true false
  | S f =>
      if length av <=? i then mk_parsed RC_SUCCESS params [] av false false else
      let tok := get av i in
      let unknown (is_unknown_option : bool) (av' : vec) :=
          (* copy everything from the current token into the tail *)
          mk_parsed (if negb ignore_unknown || is_unknown_option then RC_ERROR else RC_SUCCESS)
                    params (skipn i av') av' false false in
      let known (av' : vec) (k : nat) :=
          match take_params (np_of opts k) av' (S i) [] with
          | T_ok ps i' => parse_loop f opts ignore_unknown av' i' (params ++ [(k, ps)])
          | T_missing i' => mk_parsed RC_ERROR params (skipn i' av') av' false false
          | T_double_free i' => mk_parsed RC_ERROR params (skipn i' av') av' false true
          end in
      if str_eqb tok [dash; dash] then
        mk_parsed RC_SUCCESS params (skipn (S i) av) av false false
      else match tok with
      | [] => unknown false av
      | c0 :: rest =>
          if negb (Ascii.eqb c0 dash) then unknown false av
          else if starts_dashdash tok then
            match find_option opts (tl rest) with
            | None => unknown true av
            | Some k => known av k
            end
          else
            match find_option opts rest with
            | Some k => known av k
            | None =>
                match split_shorts opts rest (skipn (S i) av) ignore_unknown with
                | None => unknown true av
                | Some (shortsv, used) =>
                    match find_option opts (tl (get shortsv 0)) with
                    | None => unknown true av
                    | Some k =>
                        (* parsec_argv_delete(&argc, &argv, i, 1 + num_args_used);
                           parsec_argv_insert(&argv, i, shortsv) *)
                        let '(_, _, a1) := argv_delete (Z.of_nat (length av)) (Some av)
                                                       (Z.of_nat i) (Z.of_nat (1 + used)) in
                        let a2 := snd (argv_insert a1 (Z.of_nat i) (Some shortsv)) in
                        known (vec_of a2) k
                    end
                end
            end
      end
  end.

(* parsec_cmd_line_parse on a fresh handle; argc = count(argv) (assumption) *)
Definition cmd_parse (opts : list opt) (ignore_unknown : bool) (a : argv) : parsed :=
  match a with
  | None => mk_parsed RC_SUCCESS [] [] [] false false
  | Some [] => mk_parsed RC_SUCCESS [] [] [] false false      (* 0 == argc *)
  | Some av => parse_loop (parse_fuel opts av) opts ignore_unknown av 1 []
  end.

End Prefix.
