(* Executable model of the command-line parser parsec/utils/cmd_line.c
   (make_opt, find_option, split_shorts, parsec_cmd_line_parse,
   parsec_cmd_line_get_ninsts, parsec_cmd_line_get_param, the tail), built on
   the argv model.  No proofs here.

   Options are declared without destination variable and without MCA
   parameter (parsec_cmd_line_make_opt3), so set_dest has no effect.  An
   option is identified by its position in the declaration list (the C code
   compares cmd_line_option_t pointers).  The usage message is not modelled. *)
From Coq Require Import List Ascii Arith ZArith Bool.
From PV Require Import Argv.ArgvDefs.
Import ListNotations.

Record opt := mk_opt {
  o_short : ascii;            (* clo_short_name, "000" when absent *)
  o_sd : option (list ascii); (* clo_single_dash_name *)
  o_long : option (list ascii);
  o_np : nat                  (* clo_num_params *)
}.

Definition is_none {A} (o : option A) : bool := match o with None => true | Some _ => false end.

(* make_opt: append a declaration *)
Definition make_opt (cmd : list opt) (sh : ascii) (sd lg : option str) (np : Z) : rc * list opt :=
  if Ascii.eqb sh zero && is_none sd && is_none lg then (RC_BAD_PARAM, cmd)
  else if (np <? 0)%Z then (RC_BAD_PARAM, cmd)
  else (RC_SUCCESS, cmd ++ [mk_opt sh sd lg (Z.to_nat np)]).

(* the test inside find_option *)
Definition opt_matches (name : str) (o : opt) : bool :=
  match o_long o with Some l => str_eqb name l | None => false end
  || match o_sd o with Some l => str_eqb name l | None => false end
  || match name with [c] => Ascii.eqb c (o_short o) | _ => false end.
Fixpoint find_from (opts : list opt) (name : str) (k : nat) : option nat :=
  match opts with
  | [] => None
  | o :: r => if opt_matches name o then Some k else find_from r name (S k)
  end.
Definition find_option (opts : list opt) (name : str) : option nat := find_from opts name 0.
Definition np_of (opts : list opt) (k : nat) : nat :=
  match nth_error opts k with Some o => o_np o | None => 0 end.

Definition special_empty_token : str :=
  map ascii_of_nat [1; 2; 3; 4; 5; 6; 7; 8; 9; 10].
Definition dash : ascii := "-"%char.

(* split_shorts, inner loop: for (j = 0; j < clo_num_params; ++j) *)
Fixpoint shorts_params (np : nat) (args : vec) (used : nat) (out : vec) : vec * nat :=
  match np with
  | O => (out, used)
  | S np' =>
      if used <? length args
      then shorts_params np' args (S used) (out ++ [get args used])
      else shorts_params np' args used (out ++ [special_empty_token])
  end.
(* split_shorts, outer loop over the characters of the token *)
Fixpoint shorts_loop (opts : list opt) (token : str) (args : vec) (ignore_unknown : bool)
         (used : nat) (out : vec) : option (vec * nat) :=
  match token with
  | [] => Some (out, used)
  | c :: token' =>
      let fake := [dash; c] in
      match find_option opts [c] with
      | None => if ignore_unknown
                then shorts_loop opts token' args ignore_unknown used (out ++ [fake])
                else None                                 (* PARSEC_ERR_BAD_PARAM *)
      | Some k =>
          let (out', used') := shorts_params (np_of opts k) args used (out ++ [fake]) in
          shorts_loop opts token' args ignore_unknown used' out'
      end
  end.
(* None = PARSEC_ERR_BAD_PARAM; Some (output argv, num_args_used) *)
Definition split_shorts (opts : list opt) (token : str) (args : vec) (ignore_unknown : bool)
  : option (vec * nat) :=
  match token with
  | [] => None
  | _ => shorts_loop opts token args ignore_unknown 0 []
  end.

(* the loop that takes the parameters of a recognised option
   (for (j = 0; j < clo_num_params; ++j, ++i)) *)
Inductive taken :=
| T_ok (ps : list (list ascii)) (i : nat)   (* all parameters present; next token *)
| T_missing (i : nat).                      (* error; param is released; the tail starts at i *)
Fixpoint take_params (np : nat) (av : vec) (i : nat) (acc : vec) : taken :=
  match np with
  | O => T_ok acc i
  | S np' =>
      if length av <=? i then T_missing i
      else if str_eqb (get av i) special_empty_token then T_missing i
      else take_params np' av (S i) (acc ++ [get av i])
  end.

Record parsed := mk_parsed {
  p_rc : rc;
  p_params : list (nat * list (list ascii)); (* lcl_params: (option, its parameters), in order *)
  p_tail : list (list ascii);                (* lcl_tail_argv *)
  p_argv : list (list ascii);                (* lcl_argv after the parse (short options expanded) *)
  p_fuel : bool                              (* the model ran out of fuel (never on the tested inputs) *)
}.

Definition starts_dashdash (t : str) : bool :=
  match t with a :: b :: _ => Ascii.eqb a dash && Ascii.eqb b dash | _ => false end.

(* for (i = 1; i < cmd->lcl_argc; ) ... one unit of fuel per iteration *)
Fixpoint parse_loop (fuel : nat) (opts : list opt) (ignore_unknown : bool)
         (av : vec) (i : nat) (params : list (nat * vec)) : parsed :=
  match fuel with
  | O => mk_parsed RC_ERROR params [] av true
  | S f =>
      if length av <=? i then mk_parsed RC_SUCCESS params [] av false else
      let tok := get av i in
      let unknown (is_unknown_option : bool) (av' : vec) :=
          (* copy everything from the current token into the tail *)
          mk_parsed (if negb ignore_unknown || is_unknown_option then RC_ERROR else RC_SUCCESS)
                    params (skipn i av') av' false in
      let known (av' : vec) (k : nat) :=
          match take_params (np_of opts k) av' (S i) [] with
          | T_ok ps i' => parse_loop f opts ignore_unknown av' i' (params ++ [(k, ps)])
          | T_missing i' => mk_parsed RC_ERROR params (skipn i' av') av' false
          end in
      if str_eqb tok [dash; dash] then
        mk_parsed RC_SUCCESS params (skipn (S i) av) av false
      else match tok with
      | [] => unknown false av
      | c0 :: rest =>
          if negb (Ascii.eqb c0 dash) then unknown false av
          else if starts_dashdash tok then
            match find_option opts (tl rest) with
            | None => unknown true av
            | Some k => known av k
            end
          else
            match find_option opts rest with
            | Some k => known av k
            | None =>
                match split_shorts opts rest (skipn (S i) av) ignore_unknown with
                | None => unknown true av
                | Some (shortsv, used) =>
                    match find_option opts (tl (get shortsv 0)) with
                    | None => unknown true av
                    | Some k =>
                        (* parsec_argv_delete(&argc, &argv, i, 1 + num_args_used);
                           parsec_argv_insert(&argv, i, shortsv) *)
                        let '(_, _, a1) := argv_delete (Z.of_nat (length av)) (Some av)
                                                       (Z.of_nat i) (Z.of_nat (1 + used)) in
                        let a2 := snd (argv_insert a1 (Z.of_nat i) (Some shortsv)) in
                        known (vec_of a2) k
                    end
                end
            end
      end
  end.

Definition parse_fuel (opts : list opt) (av : vec) : nat :=
  let maxnp := fold_right (fun o m => Nat.max (o_np o) m) 0 opts in
  1 + length av + fold_right (fun t acc => length t * (1 + maxnp) + acc) 0 av.

(* parsec_cmd_line_parse on a fresh handle; argc = count(argv) (assumption) *)
Definition cmd_parse (opts : list opt) (ignore_unknown : bool) (a : argv) : parsed :=
  match a with
  | None => mk_parsed RC_SUCCESS [] [] [] false
  | Some [] => mk_parsed RC_SUCCESS [] [] [] false      (* 0 == argc *)
  | Some av => parse_loop (parse_fuel opts av) opts ignore_unknown av 1 []
  end.

(* parsec_cmd_line_get_ninsts *)
Definition get_ninsts (opts : list opt) (p : parsed) (name : str) : nat :=
  match find_option opts name with
  | None => 0
  | Some k => length (filter (fun kp => Nat.eqb (fst kp) k) (p_params p))
  end.
(* parsec_cmd_line_get_param; None = NULL *)
Definition get_param (opts : list opt) (p : parsed) (name : str) (inst idx : nat) : option str :=
  match find_option opts name with
  | None => None
  | Some k =>
      if idx <? np_of opts k then
        match nth_error (filter (fun kp => Nat.eqb (fst kp) k) (p_params p)) inst with
        | Some kp => Some (get (snd kp) idx)
        | None => None
        end
      else None
  end.
