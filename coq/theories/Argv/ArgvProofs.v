(* Proofs about the model of parsec/utils/argv.c (ArgvDefs.v). *)
From Coq Require Import Ascii.
From PV Require Import Base.Tac Argv.ArgvDefs.

(* ------------------------------------------------------------------------ *)
(* strings *)
Lemma str_eqb_eq : forall a b, str_eqb a b = true <-> a = b.
Proof.
  induction a as [|x a IH]; intros [|y b]; cbn [str_eqb]; split; intro H; try easy.
  - apply andb_true_iff in H as [Hx Hr]. apply Ascii.eqb_eq in Hx. apply IH in Hr. now subst.
  - inv H. apply andb_true_iff; split; [apply Ascii.eqb_refl | now apply IH].
Qed.
Lemma str_eqb_refl : forall a, str_eqb a a = true.
Proof. intro a; now apply str_eqb_eq. Qed.

(* ------------------------------------------------------------------------ *)
(* generic list helpers *)
Lemma nth_firstn_lt {A} : forall n j (l : list A) d, j < n -> nth j (firstn n l) d = nth j l d.
Proof.
  induction n as [|n IH]; intros j l d Hj; [lia|].
  destruct l as [|x l]; [now destruct j|]. destruct j as [|j]; cbn; [easy|]. apply IH; lia.
Qed.
Lemma nth_skipn_plus {A} : forall n j (l : list A) d, nth j (skipn n l) d = nth (n + j) l d.
Proof.
  induction n as [|n IH]; intros j l d; [easy|].
  destruct l as [|x l]; [now destruct j|]. cbn. apply IH.
Qed.
Lemma firstn_app_len {A} : forall (a b : list A), firstn (length a) (a ++ b) = a.
Proof. induction a as [|x a IH]; intro b; cbn; [easy | now rewrite IH]. Qed.
Lemma skipn_app_len {A} : forall (a b : list A) n, skipn (length a + n) (a ++ b) = skipn n b.
Proof. induction a as [|x a IH]; intros b n; cbn; [easy | apply IH]. Qed.

Lemma skipn_S_tl {A} : forall n (l : list A) y t, skipn n l = y :: t -> skipn (S n) l = t.
Proof.
  induction n as [|n IH]; intros l y t H; [cbn in H; now subst|].
  destruct l as [|x l]; [easy|]. cbn [skipn] in H. apply IH in H. easy.
Qed.

(* element j of [firstn st t ++ s ++ skipn st t] *)
Lemma nth_splice : forall (t s : vec) st j,
  st <= length t ->
  nth j (firstn st t ++ s ++ skipn st t) [] =
    if j <? st then nth j t []
    else if j <? st + length s then nth (j - st) s []
    else nth (j - length s) t [].
Proof.
  intros t s st j Hst.
  assert (Hl : length (firstn st t) = st) by (rewrite firstn_length; lia).
  destruct (j <? st) eqn:H1.
  - rewrite app_nth1 by lia. apply nth_firstn_lt; lia.
  - rewrite app_nth2 by lia. rewrite Hl.
    destruct (j <? st + length s) eqn:H2.
    + rewrite app_nth1 by lia. easy.
    + rewrite app_nth2 by lia. rewrite nth_skipn_plus. f_equal. lia.
Qed.

(* ------------------------------------------------------------------------ *)
(* array cells *)
Lemma upd_length : forall v i x, length (upd v i x) = length v.
Proof. induction v as [|h v IH]; intros [|i] x; cbn; auto. Qed.
Lemma nth_upd_same : forall v i x, i < length v -> nth i (upd v i x) [] = x.
Proof.
  induction v as [|h v IH]; intros [|i] x Hi; cbn in *; try lia; [easy|]. apply IH; lia.
Qed.
Lemma nth_upd_other : forall v i j x, i <> j -> nth j (upd v i x) [] = nth j v [].
Proof.
  induction v as [|h v IH]; intros [|i] [|j] x Hij; cbn; try easy. apply IH; lia.
Qed.

Lemma shift_up_length : forall n v start k, length (shift_up v start k n) = length v.
Proof.
  induction n as [|n IH]; intros v start k; cbn [shift_up]; [easy|].
  rewrite IH. apply upd_length.
Qed.
Lemma shift_up_nth : forall n v start k j,
  start + k + n <= length v ->
  nth j (shift_up v start k n) [] =
    if (start + k <=? j) && (j <? start + k + n) then nth (j - k) v [] else nth j v [].
Proof.
  induction n as [|n IH]; intros v start k j Hlen; cbn [shift_up].
  - destruct ((start + k <=? j) && (j <? start + k + 0)) eqn:Hc; [lia | easy].
  - rewrite IH by (rewrite upd_length; lia).
    destruct ((start + k <=? j) && (j <? start + k + n)) eqn:Hc.
    + rewrite nth_upd_other by lia.
      destruct ((start + k <=? j) && (j <? start + k + S n)) eqn:Hd; [easy | lia].
    + destruct (Nat.eq_dec j (start + k + n)) as [->|Hne].
      * rewrite nth_upd_same by lia. unfold get.
        destruct ((start + k <=? start + k + n) && (start + k + n <? start + k + S n)) eqn:Hd; [|lia].
        f_equal; lia.
      * rewrite nth_upd_other by lia.
        destruct ((start + k <=? j) && (j <? start + k + S n)) eqn:Hd; [lia | easy].
Qed.

Lemma shift_down_length : forall n v i k, length (shift_down v i k n) = length v.
Proof.
  induction n as [|n IH]; intros v i k; cbn [shift_down]; [easy|].
  rewrite IH. apply upd_length.
Qed.
Lemma shift_down_nth : forall n v i k j,
  i + n <= length v ->
  nth j (shift_down v i k n) [] =
    if (i <=? j) && (j <? i + n) then nth (j + k) v [] else nth j v [].
Proof.
  induction n as [|n IH]; intros v i k j Hlen; cbn [shift_down].
  - destruct ((i <=? j) && (j <? i + 0)) eqn:Hc; [lia | easy].
  - rewrite IH by (rewrite upd_length; lia).
    destruct ((S i <=? j) && (j <? S i + n)) eqn:Hc.
    + rewrite nth_upd_other by lia.
      destruct ((i <=? j) && (j <? i + S n)) eqn:Hd; [easy | lia].
    + destruct (Nat.eq_dec j i) as [->|Hne].
      * rewrite nth_upd_same by lia. unfold get.
        destruct ((i <=? i) && (i <? i + S n)) eqn:Hd; [easy | lia].
      * rewrite nth_upd_other by lia.
        destruct ((i <=? j) && (j <? i + S n)) eqn:Hd; [lia | easy].
Qed.

Lemma copy_in_length : forall src v i, length (copy_in v i src) = length v.
Proof.
  induction src as [|s r IH]; intros v i; cbn [copy_in]; [easy|].
  rewrite IH. apply upd_length.
Qed.
Lemma copy_in_nth : forall src v i j,
  i + length src <= length v ->
  nth j (copy_in v i src) [] =
    if (i <=? j) && (j <? i + length src) then nth (j - i) src [] else nth j v [].
Proof.
  induction src as [|s r IH]; intros v i j Hlen; cbn [copy_in length] in *.
  - destruct ((i <=? j) && (j <? i + 0)) eqn:Hc; [lia | easy].
  - rewrite IH by (rewrite upd_length; lia).
    destruct ((S i <=? j) && (j <? S i + length r)) eqn:Hc.
    + destruct ((i <=? j) && (j <? i + S (length r))) eqn:Hd; [|lia].
      replace (j - i) with (S (j - S i)) by lia. easy.
    + destruct (Nat.eq_dec j i) as [->|Hne].
      * rewrite nth_upd_same by lia.
        destruct ((i <=? i) && (i <? i + S (length r))) eqn:Hd; [|lia].
        now rewrite Nat.sub_diag.
      * rewrite nth_upd_other by lia.
        destruct ((i <=? j) && (j <? i + S (length r))) eqn:Hd; [lia | easy].
Qed.

(* ------------------------------------------------------------------------ *)
(* append / prepend / unique / copy / count / len *)
Lemma append_nosize_vec : forall a x, argv_append_nosize a x = Some (vec_of a ++ [x]).
Proof. now intros [v|] x. Qed.
Lemma append_vec : forall a x, argv_append a x = (S (argv_count a), Some (vec_of a ++ [x])).
Proof.
  intros [v|] x; unfold argv_append; cbn; [|easy].
  rewrite app_length; cbn. f_equal; lia.
Qed.
Lemma append_count : forall a x, fst (argv_append a x) = argv_count (snd (argv_append a x)).
Proof. intros; reflexivity. Qed.

Lemma fold_append : forall l a,
  l <> [] -> fold_left (fun t s => snd (argv_append t s)) l a = Some (vec_of a ++ l).
Proof.
  induction l as [|x l IH]; intros a Hne; [easy|]. cbn [fold_left].
  rewrite append_vec; cbn [snd]. destruct l as [|y l]; [easy|].
  rewrite IH by easy. cbn [vec_of]. now rewrite <- app_assoc.
Qed.
Lemma fold_append_some : forall l v,
  fold_left (fun t s => snd (argv_append t s)) l (Some v) = Some (v ++ l).
Proof.
  intros [|x l] v; [cbn; now rewrite app_nil_r|]. now rewrite fold_append.
Qed.

Lemma copy_spec : forall a, argv_copy a = a.
Proof. intros [v|]; cbn [argv_copy]; [|easy]. now rewrite fold_append_some. Qed.

Lemma prepend_spec : forall a x, argv_prepend_nosize a x = Some (x :: vec_of a).
Proof.
  intros [v|] x; cbn [argv_prepend_nosize vec_of]; [|easy]. f_equal.
  apply nth_ext with (d := []) (d' := []).
  - rewrite upd_length, shift_up_length, app_length; cbn; lia.
  - intros j Hj. rewrite upd_length, shift_up_length, app_length in Hj; cbn in Hj.
    destruct j as [|j].
    + rewrite nth_upd_same; [easy|]. rewrite shift_up_length, app_length; cbn; lia.
    + rewrite nth_upd_other by lia. rewrite shift_up_nth by (rewrite app_length; cbn; lia).
      destruct ((0 + 1 <=? S j) && (S j <? 0 + 1 + length v)) eqn:Hc; [|lia].
      cbn [nth]. replace (S j - 1) with j by lia. apply app_nth1; lia.
Qed.

Lemma unique_scan_some : forall v x ow v', unique_scan v x ow = Some v' -> v' = v /\ In x v.
Proof.
  induction v as [|h v IH]; intros x ow v' H; cbn [unique_scan] in H; [easy|].
  destruct (str_eqb x h) eqn:He.
  - apply str_eqb_eq in He; subst h. inv H. split; [now destruct ow | now left].
  - destruct (unique_scan v x ow) as [r|] eqn:Hr; [|easy]. inv H.
    apply IH in Hr as [-> Hin]. split; [easy | now right].
Qed.
Lemma unique_scan_none : forall v x ow, unique_scan v x ow = None -> ~ In x v.
Proof.
  induction v as [|h v IH]; intros x ow H; cbn [unique_scan] in H; [easy|].
  destruct (str_eqb x h) eqn:He; [easy|].
  destruct (unique_scan v x ow) as [r|] eqn:Hr; [easy|].
  intros [->|Hin]; [now rewrite str_eqb_refl in He | now apply IH in Hr].
Qed.
(* present: unchanged, whatever [overwrite]; absent: appended *)
Lemma append_unique_spec : forall a x ow,
  (In x (vec_of a) -> argv_append_unique_nosize a x ow = a) /\
  (~ In x (vec_of a) -> argv_append_unique_nosize a x ow = Some (vec_of a ++ [x])).
Proof.
  intros [v|] x ow; cbn [argv_append_unique_nosize vec_of].
  - destruct (unique_scan v x ow) as [v'|] eqn:Hs.
    + apply unique_scan_some in Hs as [-> Hin]. split; [easy | intro Hn; now elim Hn].
    + apply unique_scan_none in Hs. split; [intro Hin; now elim Hs | easy].
  - split; [easy | intros _; reflexivity].
Qed.

Lemma fold_add_acc : forall (f : str -> nat) l a,
  fold_left (fun acc s => acc + f s) l a = a + fold_left (fun acc s => acc + f s) l 0.
Proof.
  induction l as [|x l IH]; intro a; cbn [fold_left]; [lia|].
  rewrite IH. rewrite (IH (0 + f x)). lia.
Qed.
Lemma join_len_cons : forall x r, join_len (x :: r) = length x + 1 + join_len r.
Proof. intros; unfold join_len; cbn [fold_left]. now rewrite fold_add_acc. Qed.
Lemma len_fold : forall (v : vec) (a : nat),
  fold_left (fun acc s => acc + (length s + 1 + ptr_size)) v a =
  a + fold_right (fun s acc => length s + 1 + ptr_size + acc) 0 v.
Proof.
  induction v as [|x v IH]; intro a; cbn [fold_left fold_right]; [lia|].
  rewrite IH. lia.
Qed.
Lemma len_spec : forall v,
  argv_len (Some v) = ptr_size + fold_right (fun s acc => length s + 1 + ptr_size + acc) 0 v.
Proof. intro v; cbn [argv_len]. apply len_fold. Qed.
Lemma count_app : forall a x, argv_count (argv_append_nosize a x) = S (argv_count a).
Proof. intros [v|] x; cbn; [rewrite app_length; cbn; lia | easy]. Qed.

(* ------------------------------------------------------------------------ *)
(* join *)
Lemma intercalate_cons2 : forall d x y r, intercalate d (x :: y :: r) = x ++ d :: intercalate d (y :: r).
Proof. reflexivity. Qed.
Lemma intercalate_cons_char : forall d c f r, intercalate d ((c :: f) :: r) = c :: intercalate d (f :: r).
Proof. intros d c f [|y r]; reflexivity. Qed.

Lemma join_fill_spec : forall d p pp,
  join_fill (length pp + join_len p) pp p d = intercalate d (pp :: p).
Proof.
  intros d p; induction p as [|q p IH]; intro pp.
  - unfold join_len; cbn [fold_left]. rewrite Nat.add_0_r.
    induction pp as [|c pp IHp]; cbn [length join_fill intercalate]; [easy|]. now rewrite IHp.
  - rewrite join_len_cons, intercalate_cons2.
    induction pp as [|c pp IHp]; cbn [length app].
    + replace (0 + (length q + 1 + join_len p)) with (S (length q + join_len p)) by lia.
      cbn [join_fill]. now rewrite IH.
    + cbn [Nat.add join_fill]. now rewrite IHp.
Qed.

Lemma join_spec : forall a d, argv_join a d = intercalate d (vec_of a).
Proof.
  intros [[|x r]|] d; cbn [argv_join vec_of]; try easy.
  rewrite join_len_cons. replace (length x + 1 + join_len r - 1) with (length x + join_len r) by lia.
  apply join_fill_spec.
Qed.

Lemma join_len_0 : forall v, join_len v = 0 -> v = [].
Proof. intros [|x r] H; [easy|]. rewrite join_len_cons in H. lia. Qed.

(* the fill loop walks the whole suffix but stops after the counted characters *)
Lemma join_fill_prefix : forall d t x m,
  join_fill (length x + join_len (firstn m t)) x t d = intercalate d (x :: firstn m t).
Proof.
  intros d t; induction t as [|q t IH]; intros x m.
  - rewrite firstn_nil. apply join_fill_spec.
  - destruct m as [|m]; cbn [firstn].
    + unfold join_len; cbn [fold_left intercalate]. rewrite Nat.add_0_r.
      induction x as [|c x IHx]; cbn [length join_fill]; [easy | now rewrite IHx].
    + rewrite join_len_cons, intercalate_cons2.
      induction x as [|c x IHx]; cbn [length app].
      * replace (0 + (length q + 1 + join_len (firstn m t))) with (S (length q + join_len (firstn m t))) by lia.
        cbn [join_fill]. now rewrite IH.
      * cbn [Nat.add join_fill]. now rewrite IHx.
Qed.

Lemma join_range_spec : forall a start stop d,
  argv_join_range a start stop d = intercalate d (firstn (stop - start) (skipn start (vec_of a))).
Proof.
  intros [v|] start stop d; cbn [argv_join_range vec_of].
  2:{ now rewrite skipn_nil, firstn_nil. }
  destruct v as [|x0 r0] eqn:Hv; [now rewrite skipn_nil, firstn_nil|]. rewrite <- Hv. clear Hv x0 r0.
  destruct (length v <? start) eqn:Hs.
  { rewrite skipn_all2 by lia. now rewrite firstn_nil. }
  destruct (join_len (firstn (stop - start) (skipn start v)) =? 0) eqn:Hz.
  { apply Nat.eqb_eq in Hz. apply join_len_0 in Hz. now rewrite Hz. }
  apply Nat.eqb_neq in Hz.
  assert (Hsk : skipn start v = get v start :: skipn (S start) v).
  { destruct (skipn start v) as [|y t] eqn:Hk; [now rewrite firstn_nil in Hz|].
    assert (Hy : get v start = y).
    { unfold get. rewrite <- (Nat.add_0_r start), <- nth_skipn_plus, Hk. easy. }
    rewrite Hy. f_equal. symmetry. now apply skipn_S_tl with (y := y). }
  rewrite Hsk in *. destruct (stop - start) as [|m]; [easy|]. cbn [firstn] in *.
  rewrite join_len_cons. replace (length (get v start) + 1 + join_len (firstn m (skipn (S start) v)) - 1)
    with (length (get v start) + join_len (firstn m (skipn (S start) v))) by lia.
  apply join_fill_prefix.
Qed.

(* ------------------------------------------------------------------------ *)
(* fields / intercalate: the mathematical split and join are inverse bijections
   between strings and non-empty vectors of delimiter-free strings *)
Lemma fields_nonnil : forall d s, fields d s <> [].
Proof.
  intros d [|c s]; cbn [fields]; [easy|].
  destruct (Ascii.eqb c d); [easy|]. now destruct (fields d s).
Qed.
Lemma intercalate_fields : forall d s, intercalate d (fields d s) = s.
Proof.
  intros d; induction s as [|c s IH]; cbn [fields]; [easy|].
  destruct (Ascii.eqb c d) eqn:Hc.
  - apply Ascii.eqb_eq in Hc; subst c.
    destruct (fields d s) as [|f r] eqn:Hf; [now apply fields_nonnil in Hf|].
    rewrite intercalate_cons2. cbn [app]. f_equal. exact IH.
  - destruct (fields d s) as [|f r] eqn:Hf; [now apply fields_nonnil in Hf|].
    rewrite intercalate_cons_char. f_equal. exact IH.
Qed.
Lemma fields_nodelim : forall d t, ~ In d t -> fields d t = [t].
Proof.
  intros d; induction t as [|c t IH]; intro Hn; cbn [fields]; [easy|].
  destruct (Ascii.eqb c d) eqn:Hc.
  - apply Ascii.eqb_eq in Hc; subst c. elim Hn; now left.
  - rewrite IH; [easy|]. intro Hin; apply Hn; now right.
Qed.
Lemma fields_app_delim : forall d t p, ~ In d t -> fields d (t ++ d :: p) = t :: fields d p.
Proof.
  intros d; induction t as [|c t IH]; intros p Hn; cbn [app fields].
  - now rewrite Ascii.eqb_refl.
  - destruct (Ascii.eqb c d) eqn:Hc.
    + apply Ascii.eqb_eq in Hc; subst c. elim Hn; now left.
    + rewrite IH; [easy|]. intro Hin; apply Hn; now right.
Qed.
Lemma fields_intercalate : forall d v,
  v <> [] -> Forall (fun t => ~ In d t) v -> fields d (intercalate d v) = v.
Proof.
  intros d; induction v as [|x v IH]; intros Hne Hall; [easy|].
  inv Hall. destruct v as [|y v].
  - cbn [intercalate]. now apply fields_nodelim.
  - rewrite intercalate_cons2, fields_app_delim by easy. now rewrite IH.
Qed.
Lemma fields_delimfree : forall d s, Forall (fun t => ~ In d t) (fields d s).
Proof.
  intros d; induction s as [|c s IH]; cbn [fields]; [now constructor|].
  destruct (Ascii.eqb c d) eqn:Hc; [now constructor|].
  apply Ascii.eqb_neq in Hc.
  destruct (fields d s) as [|f r]; [constructor; [|easy]; intros [->|[]]; easy|].
  inv IH. constructor; [|easy]. intros [->|Hin]; easy.
Qed.
Lemma fields_snoc_delim : forall d t, fields d (t ++ [d]) = fields d t ++ [[]].
Proof.
  intros d; induction t as [|c t IH]; cbn [app fields].
  - now rewrite Ascii.eqb_refl.
  - destruct (Ascii.eqb c d); rewrite IH; [easy|].
    destruct (fields d t) as [|f r] eqn:Hf; [now apply fields_nonnil in Hf | easy].
Qed.
Lemma fields_snoc_other : forall d t c, c <> d ->
  exists l f, fields d (t ++ [c]) = l ++ [f ++ [c]].
Proof.
  intros d; induction t as [|a t IH]; intros c Hc; cbn [app fields].
  - apply Ascii.eqb_neq in Hc. rewrite Hc. now exists [], [].
  - destruct (IH c Hc) as (l & f & E). rewrite E.
    destruct (Ascii.eqb a d).
    + now exists ([] :: l), f.
    + destruct l as [|g l]; cbn [app].
      * now exists [], (a :: f).
      * now exists ((a :: g) :: l), f.
Qed.

(* ------------------------------------------------------------------------ *)
(* strip_last_empty / filter *)
Lemma strip_cons : forall x l, l <> [] -> strip_last_empty (x :: l) = x :: strip_last_empty l.
Proof. intros x [|y l] H; easy. Qed.
Lemma strip_snoc_empty : forall l, strip_last_empty (l ++ [[]]) = l.
Proof.
  induction l as [|x l IH]; [easy|]. cbn [app].
  rewrite strip_cons by now destruct l. now rewrite IH.
Qed.
Lemma strip_snoc_nonempty : forall l x, x <> [] -> strip_last_empty (l ++ [x]) = l ++ [x].
Proof.
  induction l as [|y l IH]; intros x Hx; cbn [app].
  - destruct x; easy.
  - rewrite strip_cons by now destruct l. now rewrite IH.
Qed.
(* a vector is a fixed point exactly when it is empty or its last element is not "" *)
Lemma strip_fixed : forall v, strip_last_empty v = v <-> (v = [] \/ last v [] <> []).
Proof.
  intro v. destruct v as [|y v]; [split; [now left | easy]|].
  destruct (@exists_last _ (y :: v)) as (l & x & E); [easy|]. rewrite E.
  rewrite last_last. destruct x as [|c x].
  - rewrite strip_snoc_empty. split.
    + intro H. apply (f_equal (@length _)) in H. rewrite app_length in H; cbn in H; lia.
    + intros [H|H]; [now destruct l | easy].
  - rewrite strip_snoc_nonempty by easy. split; [now right | easy].
Qed.
Lemma filter_len_le {A} (f : A -> bool) : forall l, length (filter f l) <= length l.
Proof. induction l as [|x l IH]; cbn [filter length]; [lia|]. destruct (f x); cbn [length]; lia. Qed.
Lemma filter_fixed {A} (f : A -> bool) : forall l, filter f l = l <-> Forall (fun x => f x = true) l.
Proof.
  induction l as [|x l IH]; cbn [filter]; [split; [constructor | easy]|].
  destruct (f x) eqn:Hx; split; intro H.
  - injection H as H1. constructor; [easy | exact (proj1 IH H1)].
  - inv H. f_equal. apply (proj2 IH). assumption.
  - assert (Hl := filter_len_le f l). rewrite H in Hl. cbn in Hl. lia.
  - inv H. congruence.
Qed.

(* ------------------------------------------------------------------------ *)
(* split *)
Lemma scan_spec : forall d s t p, scan d s = (t, p) ->
  s = t ++ p /\ ~ In d t /\ (p = [] \/ exists p1, p = d :: p1).
Proof.
  intros d; induction s as [|c s IH]; intros t p H; cbn [scan] in H.
  - inv H. repeat split; [easy | now left].
  - destruct (Ascii.eqb c d) eqn:Hc.
    + inv H. apply Ascii.eqb_eq in Hc; subst c. repeat split; [easy|]. right; now exists s.
    + destruct (scan d s) as [t' p'] eqn:Hs. inv H.
      destruct (IH _ _ eq_refl) as (E & Hn & Hp). apply Ascii.eqb_neq in Hc.
      repeat split; [now rewrite E at 1 | | easy]. intros [->|Hin]; easy.
Qed.

(* the tokens the two variants are expected to produce: all the fields, or the
   non-empty ones; the empty string has no token at all *)
Definition toks' (include_empty : bool) (d : ascii) (s : list ascii) : list (list ascii) :=
  if include_empty then fields d s else filter nonempty (fields d s).
Definition toks (include_empty : bool) (d : ascii) (s : list ascii) : list (list ascii) :=
  match s with [] => [] | _ :: _ => toks' include_empty d s end.
(* [l] appended to an argv that may still be NULL *)
Definition app_argv (a : option (list (list ascii))) (l : list (list ascii)) : option (list (list ascii)) :=
  match l with [] => a | _ => Some (vec_of a ++ l) end.
Lemma app_argv_cons : forall a x l, app_argv (Some (vec_of a ++ [x])) l = app_argv a (x :: l).
Proof. intros a x [|y l]; cbn [app_argv vec_of]; [easy|]. now rewrite <- app_assoc. Qed.

Lemma toks'_delim : forall ie d p, toks' ie d (d :: p) = (if ie then [[]] else []) ++ toks' ie d p.
Proof. intros ie d p; unfold toks'; cbn [fields]. rewrite Ascii.eqb_refl. now destruct ie. Qed.
Lemma toks'_tok_delim : forall ie d t p, t <> [] -> ~ In d t ->
  toks' ie d (t ++ d :: p) = t :: toks' ie d p.
Proof.
  intros ie d t p Hne Hn; unfold toks'. rewrite fields_app_delim by easy.
  destruct ie; [easy|]. cbn [filter]. now destruct t.
Qed.
Lemma toks'_tok_end : forall ie d t, t <> [] -> ~ In d t -> toks' ie d t = [t].
Proof.
  intros ie d t Hne Hn; unfold toks'. rewrite fields_nodelim by easy.
  destruct ie; cbn; now destruct t.
Qed.

Lemma split_loop_spec : forall fuel ie d s a,
  length s < fuel -> split_loop fuel ie d s a = app_argv a (toks ie d s).
Proof.
  induction fuel as [|f IH]; intros ie d s a Hf; [lia|].
  cbn [split_loop]. destruct s as [|c s']; [easy|].
  (* what happens after "src_string = p + 1" *)
  assert (Hrest : forall p1 a1, length p1 < f ->
            split_loop f ie d p1 (trailing ie p1 a1) = app_argv a1 (toks' ie d p1)).
  { intros p1 a1 Hp. rewrite IH by easy. destruct p1 as [|c1 p1]; [|now destruct ie].
    destruct ie; cbn [trailing toks toks' fields filter nonempty app_argv]; [|easy].
    now rewrite append_vec. }
  unfold toks. remember (c :: s') as s eqn:Es.
  destruct (scan d s) as [tok p] eqn:Hs.
  destruct (scan_spec _ _ _ _ Hs) as (E & Hn & Hp).
  destruct tok as [|t0 tok].
  - (* zero-length argument *)
    cbn [app] in E. destruct Hp as [->|[p1 ->]]; [congruence|]. cbn [tl].
    rewrite Hrest by (rewrite E in Hf; cbn in Hf; lia).
    rewrite E, toks'_delim. destruct ie; cbn [app]; [|easy].
    rewrite append_vec; cbn [snd]. apply app_argv_cons.
  - destruct Hp as [->|[p1 ->]].
    + (* tail argument *)
      rewrite app_nil_r in E. rewrite IH by (rewrite Es in Hf; cbn in Hf |- *; lia).
      cbn [toks app_argv].
      rewrite append_vec; cbn [snd]. rewrite toks'_tok_end by (rewrite E; easy). easy.
    + rewrite Hrest by (rewrite E, app_length in Hf; cbn in Hf; lia).
      rewrite append_vec; cbn [snd]. rewrite E, toks'_tok_delim by easy. apply app_argv_cons.
Qed.

Lemma split_inter_spec : forall s d ie, split_inter s d ie = app_argv None (toks ie d s).
Proof. intros; unfold split_inter. apply split_loop_spec; lia. Qed.
Lemma vec_of_app_argv_none : forall l, vec_of (app_argv None l) = l.
Proof. now intros [|x l]. Qed.

(* what the two functions return, for every string *)
Theorem split_spec : forall s d, vec_of (argv_split s d) = filter nonempty (fields d s).
Proof.
  intros; unfold argv_split. rewrite split_inter_spec, vec_of_app_argv_none. now destruct s.
Qed.
Theorem split_with_empty_spec : forall s d,
  vec_of (argv_split_with_empty s d) = match s with [] => [] | _ :: _ => fields d s end.
Proof. intros; unfold argv_split_with_empty. now rewrite split_inter_spec, vec_of_app_argv_none. Qed.
(* NULL is returned exactly when there is no token *)
Theorem split_null : forall s d ie, split_inter s d ie = None <-> toks ie d s = [].
Proof.
  intros; rewrite split_inter_spec. destruct (toks ie d s); cbn; split; easy.
Qed.

(* ------------------------------------------------------------------------ *)
(* join after split *)
Lemma join_vec : forall a d, argv_join a d = argv_join (Some (vec_of a)) d.
Proof. intros [v|] d; [easy|]. reflexivity. Qed.

Theorem join_split : forall s d,
  argv_join (argv_split s d) d = intercalate d (filter nonempty (fields d s)).
Proof. intros. now rewrite join_spec, split_spec. Qed.

Theorem join_split_roundtrip_iff : forall s d,
  argv_join (argv_split s d) d = s <-> (s = [] \/ Forall (fun f => f <> []) (fields d s)).
Proof.
  intros s d. rewrite join_split. split.
  - intro H. destruct (filter nonempty (fields d s)) as [|x v] eqn:Hf; [now left|]. right.
    assert (Hall : Forall (fun t => ~ In d t) (x :: v)).
    { rewrite <- Hf. apply Forall_forall. intros t Ht. apply filter_In in Ht as [Ht _].
      eapply Forall_forall in Ht; [|apply fields_delimfree]. easy. }
    apply (f_equal (fields d)) in H. rewrite fields_intercalate in H by easy.
    rewrite <- Hf in H. apply filter_fixed in H.
    eapply Forall_impl; [|exact H]. intros [|c t]; easy.
  - intros [->|Hall]; [easy|].
    assert (Hfix : filter nonempty (fields d s) = fields d s).
    { apply filter_fixed. eapply Forall_impl; [|exact Hall]. intros [|c t]; easy. }
    rewrite Hfix. apply intercalate_fields.
Qed.

(* the strings without empty field, syntactically: no leading, trailing or doubled delimiter *)
Lemma clean_from_spec : forall d s b,
  clean_from d b s = true <->
  ((b = true -> hd [] (fields d s) <> []) /\ Forall (fun f => f <> []) (tl (fields d s))).
Proof.
  intros d; induction s as [|c s IH]; intro b; cbn [clean_from fields].
  - cbn [hd tl]. destruct b; cbn [negb]; split.
    + easy.
    + intros [H _]. now elim H.
    + intros _. split; [easy | constructor].
    + easy.
  - destruct (Ascii.eqb c d) eqn:Hc.
    + cbn [hd tl]. rewrite andb_true_iff, (IH true).
      destruct (fields d s) as [|f r] eqn:Hf; [now apply fields_nonnil in Hf|]. cbn [hd tl].
      destruct b; cbn [negb]; split.
      * intros [H _]; easy.
      * intros [H _]. now elim H.
      * intros [_ [H1 H2]]. split; [easy|]. constructor; [now apply H1 | easy].
      * intros [_ H]. inv H. split; [easy|]. split; [easy|easy].
    + rewrite (IH false).
      destruct (fields d s) as [|f r] eqn:Hf; [now apply fields_nonnil in Hf|]. cbn [hd tl].
      split; intros [_ H]; (split; [easy | exact H]).
Qed.
Lemma clean_spec : forall d s, clean d s = true <-> Forall (fun f => f <> []) (fields d s).
Proof.
  intros d s. unfold clean. rewrite clean_from_spec.
  destruct (fields d s) as [|f r] eqn:Hf; [now apply fields_nonnil in Hf|]. cbn [hd tl].
  split.
  - intros [H1 H2]. constructor; [now apply H1 | easy].
  - intro H. inv H. easy.
Qed.
Theorem join_split_roundtrip_clean : forall s d,
  argv_join (argv_split s d) d = s <-> (s = [] \/ clean d s = true).
Proof. intros. rewrite join_split_roundtrip_iff, clean_spec. easy. Qed.

Lemma str_cases : forall s : str, s = [] \/ exists t c, s = t ++ [c].
Proof.
  intros [|c s]; [now left|]. right.
  destruct (@exists_last _ (c :: s)) as (t & x & E); [easy|]. now exists t, x.
Qed.

(* no field is dropped: joining gives the string back, for every string *)
Theorem join_split_with_empty : forall s d,
  argv_join (argv_split_with_empty s d) d = s.
Proof.
  intros s d. rewrite join_spec, split_with_empty_spec.
  destruct s as [|c s]; [easy|]. apply intercalate_fields.
Qed.

(* ------------------------------------------------------------------------ *)
(* split after join *)
Lemma nonempty_filter_id : forall v, Forall (fun t : str => t <> []) v -> filter nonempty v = v.
Proof.
  intros v H. apply filter_fixed. eapply Forall_impl; [|exact H]. intros [|c t]; easy.
Qed.
Theorem split_join : forall v d,
  Forall (fun t => t <> [] /\ ~ In d t) v ->
  vec_of (argv_split (argv_join (Some v) d) d) = v.
Proof.
  intros v d H. rewrite split_spec, join_spec. cbn [vec_of].
  destruct v as [|x v]; [easy|].
  rewrite fields_intercalate; [| easy | eapply Forall_impl; [|exact H]; now intros t [_ Ht]].
  apply nonempty_filter_id. eapply Forall_impl; [|exact H]. now intros t [Ht _].
Qed.
Theorem split_with_empty_join_iff : forall v d,
  Forall (fun t => ~ In d t) v ->
  (vec_of (argv_split_with_empty (argv_join (Some v) d) d) = v <-> v <> [[]]).
Proof.
  intros v d H. rewrite split_with_empty_spec, join_spec. cbn [vec_of].
  destruct v as [|x v]; [split; easy|].
  destruct (intercalate d (x :: v)) as [|c s] eqn:Ei.
  - assert (Hf : fields d (intercalate d (x :: v)) = x :: v) by now apply fields_intercalate.
    rewrite Ei in Hf. cbn [fields] in Hf. split; intro Hc; [easy|]. elim Hc. now rewrite <- Hf.
  - rewrite <- Ei. rewrite fields_intercalate by easy. split; [|easy].
    intros _ Hc. rewrite Hc in Ei. cbn in Ei. easy.
Qed.
Theorem split_with_empty_join : forall v d,
  Forall (fun t => t <> [] /\ ~ In d t) v ->
  vec_of (argv_split_with_empty (argv_join (Some v) d) d) = v.
Proof.
  intros v d H. apply split_with_empty_join_iff.
  - eapply Forall_impl; [|exact H]. now intros t [_ Ht].
  - intros ->. inv H. now destruct H2.
Qed.
(* the result of splitting is NULL (not an empty vector) when v is empty *)
Theorem split_join_null : forall d ie, split_inter (argv_join (Some []) d) d ie = None.
Proof. intros d [|]; reflexivity. Qed.

(* ------------------------------------------------------------------------ *)
(* insert / delete *)
Theorem insert_spec : forall tv start sv,
  (0 <= start)%Z ->
  argv_insert (Some tv) start (Some sv) =
    (RC_SUCCESS, Some (firstn (Z.to_nat start) tv ++ sv ++ skipn (Z.to_nat start) tv)).
Proof.
  intros tv start sv Hs. cbn [argv_insert].
  destruct (start <? 0)%Z eqn:Hneg; [lia|].
  destruct (start >? Z.of_nat (length tv))%Z eqn:Hgt.
  - rewrite fold_append_some. rewrite firstn_all2, skipn_all2 by lia. now rewrite app_nil_r.
  - f_equal. f_equal. set (st := Z.to_nat start). assert (Hst : st <= length tv) by lia.
    apply nth_ext with (d := []) (d' := []).
    + rewrite copy_in_length, shift_up_length, !app_length, repeat_length, firstn_length, skipn_length. lia.
    + intros j Hj. rewrite copy_in_length, shift_up_length, app_length, repeat_length in Hj.
      rewrite copy_in_nth by (rewrite shift_up_length, app_length, repeat_length; lia).
      rewrite nth_splice by easy.
      destruct ((st <=? j) && (j <? st + length sv)) eqn:Hc.
      * destruct (j <? st) eqn:H1; [lia|]. destruct (j <? st + length sv) eqn:H2; [easy | lia].
      * rewrite shift_up_nth by (rewrite app_length, repeat_length; lia).
        destruct ((st + length sv <=? j) && (j <? st + length sv + (length tv - st))) eqn:Hd.
        -- destruct (j <? st) eqn:H1; [lia|]. destruct (j <? st + length sv) eqn:H2; [lia|].
           apply app_nth1; lia.
        -- destruct (j <? st) eqn:H1; [|lia]. apply app_nth1; lia.
Qed.

Theorem insert_element_spec : forall tv loc s,
  (0 <= loc)%Z ->
  argv_insert_element (Some tv) loc (Some s) = argv_insert (Some tv) loc (Some [s]).
Proof.
  intros tv loc s Hs. rewrite insert_spec by easy. cbn [argv_insert_element].
  destruct (loc <? 0)%Z eqn:Hneg; [lia|].
  destruct (loc >? Z.of_nat (length tv))%Z eqn:Hgt.
  - rewrite append_vec; cbn [snd vec_of]. rewrite firstn_all2, skipn_all2 by lia. now rewrite app_nil_r.
  - f_equal. f_equal. set (st := Z.to_nat loc). assert (Hst : st <= length tv) by lia.
    apply nth_ext with (d := []) (d' := []).
    + rewrite upd_length, shift_up_length, !app_length, firstn_length, skipn_length. cbn [length]. lia.
    + intros j Hj. rewrite upd_length, shift_up_length, app_length in Hj. cbn [length] in Hj.
      rewrite nth_splice by easy. cbn [length].
      destruct (Nat.eq_dec j st) as [->|Hne].
      * rewrite nth_upd_same by (rewrite shift_up_length, app_length; cbn [length]; lia).
        destruct (st <? st) eqn:H1; [lia|]. destruct (st <? st + 1) eqn:H2; [|lia].
        now rewrite Nat.sub_diag.
      * rewrite nth_upd_other by lia.
        rewrite shift_up_nth by (rewrite app_length; cbn [length]; lia).
        destruct ((st + 1 <=? j) && (j <? st + 1 + (length tv - st))) eqn:Hd.
        -- destruct (j <? st) eqn:H1; [lia|]. destruct (j <? st + 1) eqn:H2; [lia|].
           apply app_nth1; lia.
        -- destruct (j <? st) eqn:H1; [|lia]. apply app_nth1; lia.
Qed.

Theorem delete_spec : forall argc v start num,
  (0 <= start <= Z.of_nat (length v))%Z -> (0 < num)%Z ->
  argv_delete argc (Some v) start num =
    (RC_SUCCESS, (argc - num)%Z,
     Some (firstn (Z.to_nat start) v ++ skipn (Z.to_nat start + Z.to_nat num) v)).
Proof.
  intros argc v start num Hs Hn. cbn [argv_delete].
  destruct (num =? 0)%Z eqn:H0; [lia|].
  destruct (start >? Z.of_nat (length v))%Z eqn:Hgt; [lia|].
  destruct ((start <? 0)%Z || (num <? 0)%Z) eqn:Hneg; [lia|].
  f_equal. f_equal.
  set (st := Z.to_nat start). set (nm := Z.to_nat num).
  set (sf := Z.to_nat (Z.max 0 (Z.of_nat (length v) - (start + num)))).
  replace (Z.to_nat (start + Z.max 0 (Z.of_nat (length v) - (start + num)))) with (st + sf) by lia.
  assert (Hsf : sf = length v - (st + nm)) by lia.
  apply nth_ext with (d := []) (d' := []).
  - rewrite firstn_length, shift_down_length, app_length, firstn_length, skipn_length. lia.
  - intros j Hj. rewrite firstn_length, shift_down_length in Hj.
    rewrite nth_firstn_lt by lia. rewrite shift_down_nth by lia.
    assert (Hl : length (firstn st v) = st) by (rewrite firstn_length; lia).
    destruct ((st <=? j) && (j <? st + sf)) eqn:Hc.
    + rewrite app_nth2 by lia. rewrite nth_skipn_plus, Hl. f_equal; lia.
    + rewrite app_nth1 by lia. now rewrite nth_firstn_lt by lia.
Qed.

(* everything that is not covered by delete_spec leaves the vector alone *)
Theorem delete_noop : forall argc a start num,
  (num = 0 \/ start > Z.of_nat (argv_count a) \/ a = None)%Z ->
  argv_delete argc a start num = (RC_SUCCESS, argc, a).
Proof.
  intros argc [v|] start num H; cbn [argv_delete argv_count] in *; [|easy].
  destruct (num =? 0)%Z eqn:H0; [easy|].
  destruct (start >? Z.of_nat (length v))%Z eqn:Hgt; [easy|].
  destruct H as [H|[H|H]]; [lia | lia | easy].
Qed.
Theorem delete_bad_param : forall argc v start num,
  (num <> 0)%Z -> (start <= Z.of_nat (length v))%Z -> (start < 0 \/ num < 0)%Z ->
  argv_delete argc (Some v) start num = (RC_BAD_PARAM, argc, Some v).
Proof.
  intros argc v start num Hn Hs Hb. cbn [argv_delete].
  destruct (num =? 0)%Z eqn:H0; [lia|].
  destruct (start >? Z.of_nat (length v))%Z eqn:Hgt; [lia|].
  destruct ((start <? 0)%Z || (num <? 0)%Z) eqn:Hneg; [easy | lia].
Qed.

(* delete after insert at the same position is the identity *)
Theorem delete_insert : forall argc tv start sv,
  (0 <= start <= Z.of_nat (length tv))%Z ->
  argv_delete argc (snd (argv_insert (Some tv) start (Some sv))) start (Z.of_nat (length sv)) =
    (RC_SUCCESS, (argc - Z.of_nat (length sv))%Z, Some tv).
Proof.
  intros argc tv start sv Hs. rewrite insert_spec by lia. cbn [snd].
  destruct sv as [|x sv].
  - cbn [length app]. rewrite firstn_skipn. rewrite delete_noop by now left.
    now rewrite Z.sub_0_r.
  - set (st := Z.to_nat start). assert (Hl : length (firstn st tv) = st) by (rewrite firstn_length; lia).
    rewrite delete_spec.
    2:{ rewrite !app_length, Hl. lia. }
    2:{ cbn [length]; lia. }
    f_equal. f_equal. fold st. rewrite Nat2Z.id.
    rewrite <- Hl at 1. rewrite firstn_app_len.
    rewrite <- Hl at 2. rewrite skipn_app_len.
    rewrite <- (Nat.add_0_r (length (x :: sv))), skipn_app_len. cbn [skipn].
    apply firstn_skipn.
Qed.
(* with a start beyond the end the insertion appends, so the deletion at
   [start] does not find what was inserted *)
Theorem delete_insert_beyond : forall argc tv start sv,
  (start > Z.of_nat (length tv))%Z ->
  snd (argv_delete argc (snd (argv_insert (Some tv) start (Some sv))) start (Z.of_nat (length sv))) =
    Some (tv ++ firstn (Z.to_nat start - length tv) sv).
Proof.
  intros argc tv start sv Hs. rewrite insert_spec by lia. cbn [snd].
  rewrite firstn_all2, skipn_all2 by lia. rewrite app_nil_r.
  destruct sv as [|x sv].
  - rewrite delete_noop by now left. cbn [snd]. now rewrite firstn_nil.
  - destruct (Z_le_gt_dec start (Z.of_nat (length (tv ++ x :: sv)))) as [Hle|Hgt].
    + rewrite delete_spec by (cbn [length]; lia). cbn [snd]. f_equal.
      rewrite skipn_all2 by (rewrite app_length in *; cbn [length] in *; lia).
      rewrite app_nil_r. rewrite firstn_app. f_equal. apply firstn_all2; lia.
    + rewrite delete_noop by (right; left; cbn [argv_count]; lia). cbn [snd]. f_equal. f_equal.
      symmetry; apply firstn_all2. rewrite app_length in Hgt. lia.
Qed.

(* positional laws of insert *)
Theorem insert_count : forall tv start sv,
  (0 <= start)%Z ->
  argv_count (snd (argv_insert (Some tv) start (Some sv))) = length tv + length sv.
Proof.
  intros. rewrite insert_spec by easy. cbn [snd argv_count].
  rewrite !app_length, firstn_length, skipn_length. lia.
Qed.
Theorem insert_nth : forall tv start sv j,
  (0 <= start)%Z ->
  let p := Nat.min (Z.to_nat start) (length tv) in
  let r := vec_of (snd (argv_insert (Some tv) start (Some sv))) in
  (j < p -> nth j r [] = nth j tv []) /\
  (p <= j < p + length sv -> nth j r [] = nth (j - p) sv []) /\
  (p + length sv <= j -> nth j r [] = nth (j - length sv) tv []).
Proof.
  intros tv start sv j Hs p r.
  assert (Hr : r = firstn p tv ++ sv ++ skipn p tv).
  { subst r. rewrite insert_spec by easy. cbn [snd vec_of]. subst p.
    destruct (Nat.le_gt_cases (Z.to_nat start) (length tv)).
    - now rewrite Nat.min_l by easy.
    - rewrite Nat.min_r by lia. now rewrite !firstn_all2, !skipn_all2 by lia. }
  rewrite Hr. assert (Hp : p <= length tv) by (subst p; lia).
  rewrite nth_splice by easy. repeat split; intro Hj.
  - destruct (j <? p) eqn:H1; [easy | lia].
  - destruct (j <? p) eqn:H1; [lia|]. destruct (j <? p + length sv) eqn:H2; [easy | lia].
  - destruct (j <? p) eqn:H1; [lia|]. destruct (j <? p + length sv) eqn:H2; [lia | easy].
Qed.
Theorem insert_bozo : forall t start s,
  (t = None \/ (start < 0)%Z -> argv_insert t start s = (RC_BAD_PARAM, t)) /\
  (t <> None -> (0 <= start)%Z -> s = None -> argv_insert t start s = (RC_SUCCESS, t)).
Proof.
  intros [tv|] start s; cbn [argv_insert]; split.
  - intros [H|H]; [easy|]. destruct (start <? 0)%Z eqn:E; [easy | lia].
  - intros _ Hs ->. destruct (start <? 0)%Z eqn:E; [lia | easy].
  - easy.
  - easy.
Qed.

(* positional laws of delete *)
Theorem delete_count : forall argc v start num,
  (0 <= start <= Z.of_nat (length v))%Z -> (0 < num)%Z ->
  argv_count (snd (argv_delete argc (Some v) start num)) =
    length v - Nat.min (Z.to_nat num) (length v - Z.to_nat start).
Proof.
  intros. rewrite delete_spec by easy. cbn [snd argv_count].
  rewrite app_length, firstn_length, skipn_length. lia.
Qed.
Theorem delete_nth : forall argc v start num j,
  (0 <= start <= Z.of_nat (length v))%Z -> (0 < num)%Z ->
  let r := vec_of (snd (argv_delete argc (Some v) start num)) in
  (j < Z.to_nat start -> nth j r [] = nth j v []) /\
  (Z.to_nat start <= j -> nth j r [] = nth (j + Z.to_nat num) v []).
Proof.
  intros argc v start num j Hs Hn r. subst r. rewrite delete_spec by easy. cbn [snd vec_of].
  assert (Hl : length (firstn (Z.to_nat start) v) = Z.to_nat start) by (rewrite firstn_length; lia).
  split; intro Hj.
  - rewrite app_nth1 by lia. apply nth_firstn_lt; lia.
  - rewrite app_nth2 by lia. rewrite nth_skipn_plus, Hl. f_equal; lia.
Qed.
(* the argc out-parameter stays equal to the count exactly when the whole
   range exists (it is decremented by num_to_delete, not by what was deleted) *)
Theorem delete_argc : forall v start num,
  (0 <= start <= Z.of_nat (length v))%Z -> (0 < num)%Z ->
  let '(_, argc', a') := argv_delete (Z.of_nat (length v)) (Some v) start num in
  (argc' = Z.of_nat (argv_count a') <-> (start + num <= Z.of_nat (length v))%Z).
Proof.
  intros v start num Hs Hn. rewrite delete_spec by easy. cbn [argv_count].
  rewrite app_length, firstn_length, skipn_length. lia.
Qed.

(* ------------------------------------------------------------------------ *)
(* the statements of Properties_C39.v *)
Lemma P_split_join_modulo_empty_fields : forall s d,
  intercalate d (fields d s) = s /\
  vec_of (argv_split s d) = filter nonempty (fields d s) /\
  argv_join (argv_split s d) d = intercalate d (filter nonempty (fields d s)).
Proof. intros s d. split; [apply intercalate_fields | split; [apply split_spec | apply join_split]]. Qed.

Lemma P_split_with_empty_join : forall s d,
  vec_of (argv_split_with_empty s d) = match s with [] => [] | _ :: _ => fields d s end /\
  argv_join (argv_split_with_empty s d) d = s.
Proof. intros s d. split; [apply split_with_empty_spec | apply join_split_with_empty]. Qed.

Lemma P_split_after_join : forall v d,
  Forall (fun t => t <> [] /\ ~ In d t) v ->
  vec_of (argv_split (argv_join (Some v) d) d) = v /\
  vec_of (argv_split_with_empty (argv_join (Some v) d) d) = v.
Proof. intros v d H. split; [now apply split_join | now apply split_with_empty_join]. Qed.

Lemma P_insert_positions : forall tv start sv j,
  (0 <= start)%Z ->
  let p := Nat.min (Z.to_nat start) (length tv) in
  let r := vec_of (snd (argv_insert (Some tv) start (Some sv))) in
  argv_insert (Some tv) start (Some sv) =
    (RC_SUCCESS, Some (firstn (Z.to_nat start) tv ++ sv ++ skipn (Z.to_nat start) tv)) /\
  length r = length tv + length sv /\
  (j < p -> nth j r [] = nth j tv []) /\
  (p <= j < p + length sv -> nth j r [] = nth (j - p) sv []) /\
  (p + length sv <= j -> nth j r [] = nth (j - length sv) tv []).
Proof.
  intros tv start sv j Hs p r. split; [now apply insert_spec|]. split.
  - pose proof (insert_count tv start sv Hs) as Hc. subst r.
    rewrite insert_spec in * by easy. exact Hc.
  - apply (insert_nth tv start sv j Hs).
Qed.

Lemma P_delete_positions : forall argc v start num j,
  (0 <= start <= Z.of_nat (length v))%Z -> (0 < num)%Z ->
  let r := vec_of (snd (argv_delete argc (Some v) start num)) in
  argv_delete argc (Some v) start num =
    (RC_SUCCESS, (argc - num)%Z, Some (firstn (Z.to_nat start) v ++ skipn (Z.to_nat start + Z.to_nat num) v)) /\
  length r = length v - Nat.min (Z.to_nat num) (length v - Z.to_nat start) /\
  (j < Z.to_nat start -> nth j r [] = nth j v []) /\
  (Z.to_nat start <= j -> nth j r [] = nth (j + Z.to_nat num) v []).
Proof.
  intros argc v start num j Hs Hn r. split; [now apply delete_spec|]. split.
  - pose proof (delete_count argc v start num Hs Hn) as Hc. subst r.
    rewrite delete_spec in * by easy. exact Hc.
  - apply (delete_nth argc v start num j Hs Hn).
Qed.

Lemma P_delete_noop : forall argc a start num,
  ((num = 0 \/ start > Z.of_nat (argv_count a) \/ a = None)%Z ->
     argv_delete argc a start num = (RC_SUCCESS, argc, a)) /\
  (forall v, a = Some v -> (num <> 0)%Z -> (start <= Z.of_nat (length v))%Z -> (start < 0 \/ num < 0)%Z ->
     argv_delete argc a start num = (RC_BAD_PARAM, argc, a)).
Proof.
  intros argc a start num. split; [apply delete_noop|].
  intros v -> H1 H2 H3. now apply delete_bad_param.
Qed.

Lemma P_small : forall a x,
  argv_append a x = (S (argv_count a), Some (vec_of a ++ [x])) /\
  argv_append_nosize a x = Some (vec_of a ++ [x]) /\
  argv_prepend_nosize a x = Some (x :: vec_of a) /\
  argv_copy a = a /\
  argv_count a = length (vec_of a) /\
  argv_len None = 0 /\
  (forall v, argv_len (Some v) = ptr_size + fold_right (fun s acc => length s + 1 + ptr_size + acc) 0 v).
Proof.
  intros a x.
  split; [apply append_vec|]. split; [apply append_nosize_vec|]. split; [apply prepend_spec|].
  split; [apply copy_spec|]. split; [now destruct a|]. split; [reflexivity | apply len_spec].
Qed.
