(* One dimension of the (k-)cyclic distribution: ownership, local index and the
   counting loop of parsec_matrix_block_cyclic_init. *)
From PV Require Import Base.Tac Dist.DistDefs Dist.DistArith.
Local Open Scope Z_scope.

Lemma count_loop_acc fuel : forall t k s L acc,
  bc_count_loop fuel t k s L acc = acc + bc_count_loop fuel t k s L 0.
Proof.
  induction fuel as [|f IH]; intros t k s L acc; cbn [bc_count_loop]; [lia|].
  destruct (t <? L) eqn:E1; [|lia]. destruct (t + k <? L) eqn:E2; [|lia].
  rewrite IH. rewrite (IH _ _ _ _ (0 + k)). lia.
Qed.

(* the loop started at [t] counts the indices t + j*s + o (0 <= o < k) below L *)
Lemma count_loop_spec fuel : forall t k s L, 0 < k -> k <= s -> L - t < Z.of_nat fuel ->
  0 <= bc_count_loop fuel t k s L 0 /\
  forall j o, 0 <= j -> 0 <= o < k ->
    (t + j * s + o < L <-> j * k + o < bc_count_loop fuel t k s L 0).
Proof.
  induction fuel as [|f IH]; intros t k s L Hk Hs Hf; cbn [bc_count_loop].
  - split; [lia|]. intros j o Hj Ho. assert (0 <= j * s) by nia. assert (0 <= j * k) by nia. lia.
  - destruct (t <? L) eqn:E1.
    + destruct (t + k <? L) eqn:E2.
      * rewrite count_loop_acc. destruct (IH (t + s) k s L Hk Hs ltac:(lia)) as [Hc IHs].
        split; [lia|]. intros j o Hj Ho.
        destruct (Z.eq_dec j 0) as [->|Hj0].
        -- lia.
        -- specialize (IHs (j - 1) o ltac:(lia) Ho).
           replace (t + s + (j - 1) * s + o) with (t + j * s + o) in IHs by lia.
           replace ((j - 1) * k + o) with (j * k + o - k) in IHs by lia. lia.
      * split; [lia|]. intros j o Hj Ho.
        destruct (Z.eq_dec j 0) as [->|Hj0]; [lia|].
        assert (s <= j * s) by nia. assert (k <= j * k) by nia. lia.
    + split; [lia|]. intros j o Hj Ho. assert (0 <= j * s) by nia. assert (0 <= j * k) by nia. lia.
Qed.

(* ---- decomposition of a tile index: M = ((M/(k np)) np + (M/k) mod np) k + M mod k ---- *)
Definition prow (np k M : Z) : Z := (M / k) mod np.
Definition glob1 (np k rr x : Z) : Z := ((x / k) * np + rr) * k + x mod k.

Lemma loc1_kcyc_eq np k M : 0 < np -> 0 < k ->
  loc1_kcyc np k M = (M / k / np) * k + M mod k.
Proof.
  intros Hn Hk. unfold loc1_kcyc. rewrite <- Z.div_div by lia.
  rewrite Z.rem_mul_r by lia.
  rewrite (Z.mul_comm k ((M / k) mod np)). rewrite Z_mod_plus_full. rewrite Z.mod_mod by lia. reflexivity.
Qed.

Lemma decomp1 np k M : 0 < np -> 0 < k ->
  M = ((M / k / np) * np + prow np k M) * k + M mod k.
Proof.
  intros Hn Hk. unfold prow.
  pose proof (divmod_spec M k Hk) as [H1 _]. pose proof (divmod_spec (M / k) np Hn) as [H2 _].
  rewrite <- H2. lia.
Qed.

Lemma glob1_loc np k M : 0 < np -> 0 < k -> 0 <= M ->
  glob1 np k (prow np k M) (loc1_kcyc np k M) = M.
Proof.
  intros Hn Hk HM. rewrite loc1_kcyc_eq by lia. unfold glob1.
  pose proof (divmod_spec M k Hk) as [_ Ho].
  rewrite (div_eq (M / k / np * k + M mod k) k (M / k / np) (M mod k)) by lia.
  rewrite (mod_eq (M / k / np * k + M mod k) k (M / k / np) (M mod k)) by lia.
  symmetry. apply decomp1; lia.
Qed.

Lemma glob1_facts np k rr x : 0 < np -> 0 < k -> 0 <= rr < np -> 0 <= x ->
  0 <= glob1 np k rr x /\ prow np k (glob1 np k rr x) = rr /\ loc1_kcyc np k (glob1 np k rr x) = x.
Proof.
  intros Hn Hk Hr Hx. unfold glob1.
  pose proof (divmod_spec x k Hk) as [Hx1 Hx2]. pose proof (div_nonneg x k Hx Hk) as Hq.
  set (q := x / k) in *. set (o := x mod k) in *.
  assert (Hd : ((q * np + rr) * k + o) / k = q * np + rr) by (apply (div_eq _ k (q * np + rr) o); lia).
  assert (Hm : ((q * np + rr) * k + o) mod k = o) by (apply (mod_eq _ k (q * np + rr) o); lia).
  split; [nia|]. split.
  - unfold prow. rewrite Hd. apply (mod_eq _ np q rr); lia.
  - rewrite loc1_kcyc_eq by lia. rewrite Hd, Hm.
    rewrite (div_eq (q * np + rr) np q rr) by lia. lia.
Qed.

(* local index and global index are in the same order, via the counting loop:
   a tile of process row rr is below L iff its local index is below the count *)
Lemma nb_elem_spec np k rr L : 0 < np -> 0 < k -> 0 <= rr < np -> 0 <= L ->
  0 <= bc_nb_elem rr k np L /\
  forall M, 0 <= M -> prow np k M = rr -> (M < L <-> loc1_kcyc np k M < bc_nb_elem rr k np L).
Proof.
  intros Hn Hk Hr HL. unfold bc_nb_elem.
  assert (Hs : k <= np * k) by nia.
  destruct (count_loop_spec (Z.to_nat L + 1) (rr * k) k (np * k) L Hk Hs) as [Hc Hsp].
  { assert (0 <= rr * k) by nia. lia. }
  split; [exact Hc|]. intros M HM Hp.
  pose proof (decomp1 np k M Hn Hk) as Hd. rewrite Hp in Hd.
  pose proof (divmod_spec M k Hk) as [_ Ho].
  assert (Hq : 0 <= M / k / np) by (apply div_nonneg; [apply div_nonneg|]; lia).
  specialize (Hsp (M / k / np) (M mod k) Hq Ho).
  rewrite loc1_kcyc_eq by lia.
  replace (rr * k + M / k / np * (np * k) + M mod k) with M in Hsp by (rewrite Hd at 1; ring).
  exact Hsp.
Qed.

Lemma loc1_nonneg np k M : 0 < np -> 0 < k -> 0 <= M -> 0 <= loc1_kcyc np k M.
Proof.
  intros Hn Hk HM. rewrite loc1_kcyc_eq by lia.
  assert (0 <= M / k / np) by (apply div_nonneg; [apply div_nonneg|]; lia).
  pose proof (divmod_spec M k Hk). nia.
Qed.

(* closed form of the count *)
Definition clamp (x k : Z) : Z := Z.max 0 (Z.min x k).
Lemma nb_elem_closed np k rr L : 0 < np -> 0 < k -> 0 <= rr < np -> 0 <= L ->
  bc_nb_elem rr k np L = (L / (np * k)) * k + clamp (L mod (np * k) - rr * k) k.
Proof.
  intros Hn Hk Hr HL.
  destruct (nb_elem_spec np k rr L Hn Hk Hr HL) as [Hc Hsp].
  assert (Hnk : 0 < np * k) by nia.
  pose proof (divmod_spec L (np * k) Hnk) as [HL1 HL2].
  pose proof (div_nonneg L (np * k) HL Hnk) as Hfull.
  set (full := L / (np * k)) in *. set (rem := L mod (np * k)) in *.
  set (c := bc_nb_elem rr k np L) in *.
  set (c0 := full * k + clamp (rem - rr * k) k).
  assert (Hc0 : 0 <= c0) by (unfold c0, clamp; nia).
  (* both c and c0 are thresholds of the same predicate on local indices *)
  assert (Hchar : forall x, 0 <= x -> (x < c <-> x < c0)).
  { intros x Hx. destruct (glob1_facts np k rr x Hn Hk Hr Hx) as (Hg0 & Hgp & Hgl).
    pose proof (Hsp _ Hg0 Hgp) as H. rewrite Hgl in H. rewrite <- H. clear H Hsp.
    unfold glob1, c0, clamp.
    pose proof (divmod_spec x k Hk) as [Hx1 Hx2]. pose proof (div_nonneg x k Hx Hk) as Hq.
    set (q := x / k) in *. set (o := x mod k) in *.
    destruct (Z_lt_ge_dec q full) as [Hlt|Hge]; [|destruct (Z.eq_dec q full) as [Heq|Hne]].
    - assert ((q + 1) * (np * k) <= full * (np * k)) by nia.
      assert ((rr + 1) * k <= np * k) by nia.
      assert ((q + 1) * k <= full * k) by nia. nia.
    - subst q. rewrite Heq in *. nia.
    - assert ((full + 1) * (np * k) <= q * (np * k)) by nia.
      assert ((full + 1) * k <= q * k) by nia.
      assert (0 <= rr * k) by nia. nia. }
  destruct (Z_lt_ge_dec c c0) as [H1|H1].
  - pose proof (Hchar c Hc). lia.
  - destruct (Z.eq_dec c c0) as [H2|H2]; [exact H2|]. pose proof (Hchar c0 Hc0). lia.
Qed.

Lemma clamp_sum k rem : 0 < k -> 0 <= rem -> forall n, 0 <= n ->
  Zsum (fun rr => clamp (rem - rr * k) k) n = Z.min rem (n * k).
Proof.
  intros Hk Hrem. apply (Zsum_ind (fun n => Zsum (fun rr => clamp (rem - rr * k) k) n = Z.min rem (n * k))).
  - rewrite Zsum_0. lia.
  - intros n Hn IH. rewrite Zsum_succ by lia. rewrite IH. unfold clamp.
    replace ((n + 1) * k) with (n * k + k) by lia. lia.
Qed.

(* the counts of the np process rows add up to the number of tile rows *)
Lemma nb_elem_sum np k L : 0 < np -> 0 < k -> 0 <= L ->
  Zsum (fun rr => bc_nb_elem rr k np L) np = L.
Proof.
  intros Hn Hk HL.
  rewrite (Zsum_ext _ (fun rr => (L / (np * k)) * k + clamp (L mod (np * k) - rr * k) k)).
  2:{ intros rr Hrr. apply nb_elem_closed; lia. }
  rewrite Zsum_add. rewrite Zsum_const by lia. rewrite clamp_sum by (try lia; apply Z.mod_pos_bound; nia).
  assert (Hnk : 0 < np * k) by nia.
  pose proof (divmod_spec L (np * k) Hnk) as [HL1 HL2]. lia.
Qed.

(* ---- ownership in one dimension ---- *)
Lemma own1_plain_kcyc np ip M : own1_plain np ip M = own1_kcyc np 1 ip M.
Proof. unfold own1_plain, own1_kcyc. rewrite Z.div_1_r. reflexivity. Qed.
Lemma loc1_plain_kcyc np M : 0 < np -> loc1_plain np M = loc1_kcyc np 1 M.
Proof. intros. unfold loc1_plain. rewrite loc1_kcyc_eq by lia. rewrite Z.div_1_r, Z.mod_1_r. lia. Qed.

Lemma own1_range np k ip M : 0 < np -> 0 <= own1_kcyc np k ip M < np.
Proof. intros. unfold own1_kcyc. apply Z.mod_pos_bound; lia. Qed.

(* process row pr owns M iff M's k-block is congruent to pr's rank in the rotated grid *)
Lemma own1_iff np k ip M pr : 0 < np -> 0 <= ip < np -> 0 <= pr < np ->
  (own1_kcyc np k ip M = pr <-> prow np k M = (pr + (np - ip)) mod np).
Proof.
  intros Hn Hip Hpr. unfold own1_kcyc, prow.
  apply rot_inv; try lia. apply Z.mod_pos_bound; lia.
Qed.

(* rrank of a rank in terms of its grid row *)
Lemma grid_rrank_eq P Q ip r : 0 < Q -> grid_rrank P Q ip r = ((r / Q) + (P - ip)) mod P.
Proof. reflexivity. Qed.
