(* Final forms of the C20 statements (on submatrix coordinates, as the
   collections' function pointers take them), refutation witnesses. *)
From PV Require Import Base.Tac Dist.DistDefs Dist.DistArith Dist.DistSum Dist.DistBC1 Dist.DistBCProofs
  Dist.DistSymProofs Dist.DistMiscProofs Dist.DistKview.
Local Open Scope Z_scope.

(* ---- legal arguments of parsec_tiled_matrix_init give a well-formed descriptor ---- *)
Definition legal_tmat_args (mb nb lm ln i j m n : Z) : Prop :=
  0 < mb /\ 0 < nb /\ 0 <= i /\ 0 <= j /\ 1 <= m /\ 1 <= n /\ i + m <= lm /\ j + n <= ln.
Definition wf_tmat (t : tmat) : Prop :=
  0 <= t_oi t /\ 0 <= t_oj t /\ 1 <= t_mt t /\ 1 <= t_nt t /\
  t_oi t + t_mt t <= t_lmt t /\ t_oj t + t_nt t <= t_lnt t.

Lemma ceil_tiles_ge lm mb : 0 < mb -> 1 <= lm -> (lm - 1) / mb + 1 <= ceil_tiles lm mb.
Proof.
  intros Hmb Hlm. unfold ceil_tiles. pose proof (divmod_spec lm mb Hmb) as [H1 H2].
  destruct (lm mod mb =? 0) eqn:E.
  - assert (1 <= lm / mb) by nia.
    rewrite (div_eq (lm - 1) mb (lm / mb - 1) (mb - 1)) by lia. lia.
  - rewrite (div_eq (lm - 1) mb (lm / mb) (lm mod mb - 1)) by lia. lia.
Qed.

Lemma sub_tiles_fit mb lm i m : 0 < mb -> 0 <= i -> 1 <= m -> i + m <= lm ->
  0 <= i / mb /\ 1 <= sub_tiles i m mb /\ i / mb + sub_tiles i m mb <= ceil_tiles lm mb.
Proof.
  intros Hmb Hi Hm Hlm. unfold sub_tiles.
  pose proof (div_nonneg i mb Hi Hmb).
  pose proof (Z.div_le_mono i (i + m - 1) mb Hmb ltac:(lia)).
  pose proof (Z.div_le_mono (i + m - 1) (lm - 1) mb Hmb ltac:(lia)).
  pose proof (ceil_tiles_ge lm mb Hmb ltac:(lia)). lia.
Qed.

Theorem tmat_init_wf st mb nb lm ln i j m n : legal_tmat_args mb nb lm ln i j m n ->
  wf_tmat (tmat_init st mb nb lm ln i j m n).
Proof.
  intros (Hmb & Hnb & Hi & Hj & Hm & Hn & Hlm & Hln). unfold wf_tmat, tmat_init, t_oi, t_oj. cbn.
  pose proof (sub_tiles_fit mb lm i m Hmb Hi Hm Hlm). pose proof (sub_tiles_fit nb ln j n Hnb Hj Hn Hln). lia.
Qed.

Lemma wf_tmat_lmt t : wf_tmat t -> 0 <= t_lmt t /\ 0 <= t_lnt t.
Proof. unfold wf_tmat. lia. Qed.

(* ================= 2D block cyclic ================= *)
Definition in_sub (t : tmat) (m n : Z) : Prop := 0 <= m < t_mt t /\ 0 <= n < t_nt t.

Lemma in_sub_global t m n : wf_tmat t -> in_sub t m n ->
  0 <= m + t_oi t < t_lmt t /\ 0 <= n + t_oj t < t_lnt t.
Proof. unfold wf_tmat, in_sub. lia. Qed.

Theorem bc_rank_in_range d m n : wf_bc d -> 0 <= bc_rank_of d m n < bP d * bQ d.
Proof. intros W. apply bc_rank_of_g_range; exact W. Qed.

Theorem bc_slot_in_range d m n : wf_bc d -> wf_tmat (bT d) -> in_sub (bT d) m n ->
  0 <= bc_position d (bc_rank_of d m n) m n < bc_nb_local_tiles d (bc_rank_of d m n).
Proof.
  intros W Wt Hs. destruct (in_sub_global _ m n Wt Hs) as [H1 H2].
  unfold bc_position, bc_rank_of. apply bc_position_range; try assumption. reflexivity.
Qed.

Theorem bc_slot_injective d m n m' n' : wf_bc d -> wf_tmat (bT d) ->
  in_sub (bT d) m n -> in_sub (bT d) m' n' ->
  bc_rank_of d m n = bc_rank_of d m' n' ->
  bc_position d (bc_rank_of d m n) m n = bc_position d (bc_rank_of d m n) m' n' ->
  m = m' /\ n = n'.
Proof.
  intros W Wt Hs Hs' Hr Hp. destruct (in_sub_global _ m n Wt Hs) as [H1 H2].
  destruct (in_sub_global _ m' n' Wt Hs') as [H1' H2'].
  unfold bc_position, bc_rank_of in *.
  destruct (bc_position_inj d _ _ _ _ _ W H1 H2 H1' H2' eq_refl (eq_sym Hr) Hp). lia.
Qed.

(* every local slot of every rank holds a tile of the matrix *)
Theorem bc_slot_onto d r x : wf_bc d -> 0 <= r < bP d * bQ d -> 0 <= x < bc_nb_local_tiles d r ->
  exists M N, 0 <= M < t_lmt (bT d) /\ 0 <= N < t_lnt (bT d) /\
              bc_rank_of_g d M N = r /\ bc_position_g d r M N = x.
Proof. apply bc_position_surj. Qed.

Theorem bc_tiles_sum d : wf_bc d ->
  Zsum (fun r => bc_nb_local_tiles d r) (bP d * bQ d) = t_lmt (bT d) * t_lnt (bT d).
Proof. apply bc_nb_local_sum. Qed.

Theorem data_key_roundtrip t m n : wf_tmat t -> in_sub t m n ->
  tm_key2coords t (tm_data_key t m n) = (m, n).
Proof. intros Wt Hs. destruct (in_sub_global _ m n Wt Hs). apply key2coords_data_key; lia. Qed.

Theorem bc_rank_of_key_data_key d m n : wf_tmat (bT d) -> in_sub (bT d) m n ->
  bc_rank_of_key d (tm_data_key (bT d) m n) = bc_rank_of d m n.
Proof. intros Wt Hs. unfold bc_rank_of_key. rewrite data_key_roundtrip by assumption. reflexivity. Qed.

(* the key of the parsec_data_t built by data_of names the tile, with or without k-cyclicity *)
Theorem bc_stored_key_roundtrip d m n : wf_tmat (bT d) -> in_sub (bT d) m n ->
  tm_key2coords (bT d) (bc_stored_key d m n) = (m, n).
Proof. intros Wt Hs. rewrite bc_stored_key_eq. apply data_key_roundtrip; assumption. Qed.

Theorem bc_stored_key_injective d m n m' n' : wf_tmat (bT d) -> in_sub (bT d) m n -> in_sub (bT d) m' n' ->
  bc_stored_key d m n = bc_stored_key d m' n' -> m = m' /\ n = n'.
Proof.
  intros Wt Hs Hs' He. pose proof (bc_stored_key_roundtrip d m n Wt Hs) as H1.
  pose proof (bc_stored_key_roundtrip d m' n' Wt Hs') as H2. rewrite He in H1. rewrite H1 in H2.
  inversion H2. auto.
Qed.

(* regression witness for the code before fix 12f6606: one process, kp = 2, four tile
   rows: tiles (0,0) and (2,0) got key 0 *)
Definition kcyc_witness : bcd := mk_bcd 1 1 2 1 0 0 ST_TILE (tmat_init ST_TILE 1 1 4 1 0 0 4 1).
Theorem bc_kcyclic_stored_key_prefix_refuted :
  exists d m n m' n', wf_bc d /\ wf_tmat (bT d) /\ in_sub (bT d) m n /\ in_sub (bT d) m' n' /\
    (m, n) <> (m', n') /\ bc_rank_of d m n = bc_rank_of d m' n' /\
    bc_stored_key_prefix d m n = bc_stored_key_prefix d m' n' /\
    tm_key2coords (bT d) (bc_stored_key_prefix d m n) <> (m, n).
Proof.
  exists kcyc_witness, 2, 0, 0, 0. unfold wf_bc, wf_tmat, in_sub. vm_compute.
  repeat split; try discriminate.
Qed.

Theorem bc_vpid_in_range d nbvp m n : 1 <= nbvp -> 0 <= bc_vpid d nbvp m n < nbvp.
Proof. intros. apply vpid_2d_range; assumption. Qed.

(* tile storage: the element ranges [offset, offset + mb*nb) of the tiles of a rank
   are pairwise disjoint and inside the nb_local_tiles * mb*nb elements of the rank *)
Theorem bc_tile_memory d m n m' n' : wf_bc d -> wf_tmat (bT d) -> bst d = ST_TILE ->
  0 < t_mb (bT d) -> 0 < t_nb (bT d) ->
  in_sub (bT d) m n -> in_sub (bT d) m' n' -> bc_rank_of d m n = bc_rank_of d m' n' ->
  let r := bc_rank_of d m n in let bsiz := t_mb (bT d) * t_nb (bT d) in
  0 <= bc_offset d r m n /\ bc_offset d r m n + bsiz <= bc_nb_local_tiles d r * bsiz /\
  ((m, n) = (m', n') \/ bc_offset d r m n + bsiz <= bc_offset d r m' n' \/
   bc_offset d r m' n' + bsiz <= bc_offset d r m n).
Proof.
  intros W Wt Hst Hmb Hnb Hs Hs' Hr r bsiz.
  pose proof (bc_slot_in_range d m n W Wt Hs) as Hp. fold r in Hp.
  pose proof (bc_slot_in_range d m' n' W Wt Hs') as Hp'. rewrite <- Hr in Hp'. fold r in Hp'.
  assert (Hb : 0 < bsiz) by (unfold bsiz; nia).
  assert (Ho : forall a b, bc_offset d r a b = bc_position d r a b * bsiz).
  { intros a b. unfold bc_offset, bc_offset_g, bc_position. rewrite Hst. reflexivity. }
  rewrite !Ho. split; [nia|]. split; [nia|].
  destruct (Z.eq_dec (bc_position d r m n) (bc_position d r m' n')) as [E|Ne].
  - left. destruct (bc_slot_injective d m n m' n' W Wt Hs Hs' Hr E). congruence.
  - right. nia.
Qed.

(* ---- the k-cyclic view: a permutation of the submatrix's tiles, then the plain functions ---- *)
Lemma kv_in_sub d vkp vkq m n : wf_bc d -> 0 < vkp -> 0 < vkq -> in_sub (bT d) m n ->
  in_sub (bT d) (kv_m d vkp m) (kv_n d vkq n).
Proof.
  intros W Hp Hq [Hm Hn]. unfold wf_bc in W. unfold in_sub, kv_m, kv_n.
  split; apply kview_in_range; lia.
Qed.

Theorem kv_slot_in_range d vkp vkq m n : wf_bc d -> wf_tmat (bT d) -> 0 < vkp -> 0 < vkq -> in_sub (bT d) m n ->
  0 <= kv_rank_of d vkp vkq m n < bP d * bQ d /\
  0 <= kv_position d vkp vkq (kv_rank_of d vkp vkq m n) m n < bc_nb_local_tiles d (kv_rank_of d vkp vkq m n).
Proof.
  intros W Wt Hp Hq Hs. split; [apply bc_rank_in_range; exact W|].
  apply bc_slot_in_range; try assumption. apply kv_in_sub; assumption.
Qed.

Theorem kv_slot_injective d vkp vkq m n m' n' : wf_bc d -> wf_tmat (bT d) -> 0 < vkp -> 0 < vkq ->
  in_sub (bT d) m n -> in_sub (bT d) m' n' -> kv_rank_of d vkp vkq m n = kv_rank_of d vkp vkq m' n' ->
  kv_position d vkp vkq (kv_rank_of d vkp vkq m n) m n = kv_position d vkp vkq (kv_rank_of d vkp vkq m n) m' n' ->
  m = m' /\ n = n'.
Proof.
  intros W Wt Hp Hq Hs Hs' Hr Hpos.
  destruct (bc_slot_injective d _ _ _ _ W Wt (kv_in_sub d vkp vkq m n W Hp Hq Hs)
              (kv_in_sub d vkp vkq m' n' W Hp Hq Hs') Hr Hpos) as [E1 E2].
  destruct Hs as [Hm Hn]. destruct Hs' as [Hm' Hn']. unfold wf_bc in W. unfold kv_m, kv_n in *.
  split; [apply (kview_injective (bP d) vkp (t_mt (bT d))) | apply (kview_injective (bQ d) vkq (t_nt (bT d)))];
    try assumption; lia.
Qed.

(* every tile of the submatrix is seen through the view *)
Theorem kv_onto d vkp vkq m n : wf_bc d -> 0 < vkp -> 0 < vkq -> in_sub (bT d) m n ->
  exists m0 n0, in_sub (bT d) m0 n0 /\ kv_m d vkp m0 = m /\ kv_n d vkq n0 = n.
Proof.
  intros W Hp Hq [Hm Hn]. unfold wf_bc in W. unfold kv_m, kv_n.
  destruct (kview_onto (bP d) vkp (t_mt (bT d)) ltac:(lia) Hp m Hm) as (m0 & Hm0 & E1).
  destruct (kview_onto (bQ d) vkq (t_nt (bT d)) ltac:(lia) Hq n Hn) as (n0 & Hn0 & E2).
  exists m0, n0. unfold in_sub. auto.
Qed.

(* ================= symmetric ================= *)
Definition sym_in_sub (d : symd) (m n : Z) : Prop :=
  in_sub (sT d) m n /\ sym_stored (suplo d) (m + t_oi (sT d)) (n + t_oj (sT d)) = true.

Theorem sym_rank_in_range d m n : wf_sym d -> sym_in_sub d m n -> 0 <= sym_rank_of d m n < sP d * sQ d.
Proof. intros W [_ Hst]. apply sym_rank_range; assumption. Qed.

Theorem sym_lower_slot_in_range d m n : wf_sym d -> wf_tmat (sT d) -> suplo d = UPLO_LOWER ->
  t_lnt (sT d) <= t_lmt (sT d) -> sym_in_sub d m n ->
  0 <= sym_position d (sym_rank_of d m n) m n < sym_nb_local_tiles d (sym_rank_of d m n).
Proof.
  intros W Wt Hlo Hsh [Hs Hst]. destruct (in_sub_global _ m n Wt Hs) as [H1 H2].
  rewrite Hlo in Hst. apply stored_lower in Hst.
  unfold sym_position, sym_rank_of. apply sym_lower_position_range; try assumption; try lia; try reflexivity.
Qed.

Theorem sym_lower_slot_injective d m n m' n' : wf_sym d -> wf_tmat (sT d) -> suplo d = UPLO_LOWER ->
  t_lnt (sT d) <= t_lmt (sT d) -> sym_in_sub d m n -> sym_in_sub d m' n' ->
  sym_rank_of d m n = sym_rank_of d m' n' ->
  sym_position d (sym_rank_of d m n) m n = sym_position d (sym_rank_of d m n) m' n' -> m = m' /\ n = n'.
Proof.
  intros W Wt Hlo Hsh [Hs Hst] [Hs' Hst'] Hr Hp.
  destruct (in_sub_global _ m n Wt Hs) as [H1 H2]. destruct (in_sub_global _ m' n' Wt Hs') as [H1' H2'].
  rewrite Hlo in Hst, Hst'. apply stored_lower in Hst. apply stored_lower in Hst'.
  unfold sym_position, sym_rank_of in *.
  destruct (sym_lower_position_inj d W Hlo Hsh (m + t_oi (sT d)) (n + t_oj (sT d)) (m' + t_oi (sT d)) (n' + t_oj (sT d)) _
              ltac:(lia) ltac:(lia) ltac:(lia) ltac:(lia) ltac:(lia) ltac:(lia) eq_refl (eq_sym Hr) Hp). lia.
Qed.

Theorem sym_upper_slot_in_range d m n : wf_sym d -> wf_tmat (sT d) -> suplo d = UPLO_UPPER ->
  t_lmt (sT d) = t_lnt (sT d) -> sym_in_sub d m n ->
  0 <= sym_position d (sym_rank_of d m n) m n < sym_nb_local_tiles d (sym_rank_of d m n).
Proof.
  intros W Wt Hup Hsq [Hs Hst]. destruct (in_sub_global _ m n Wt Hs) as [H1 H2].
  rewrite Hup in Hst. apply stored_upper in Hst.
  unfold sym_position, sym_rank_of. apply sym_upper_position_range; try assumption; try lia; try reflexivity.
Qed.

Theorem sym_upper_slot_injective d m n m' n' : wf_sym d -> wf_tmat (sT d) -> suplo d = UPLO_UPPER ->
  t_lmt (sT d) = t_lnt (sT d) -> sym_in_sub d m n -> sym_in_sub d m' n' ->
  sym_rank_of d m n = sym_rank_of d m' n' ->
  sym_position d (sym_rank_of d m n) m n = sym_position d (sym_rank_of d m n) m' n' -> m = m' /\ n = n'.
Proof.
  intros W Wt Hup Hsq [Hs Hst] [Hs' Hst'] Hr Hp.
  destruct (in_sub_global _ m n Wt Hs) as [H1 H2]. destruct (in_sub_global _ m' n' Wt Hs') as [H1' H2'].
  rewrite Hup in Hst, Hst'. apply stored_upper in Hst. apply stored_upper in Hst'.
  unfold sym_position, sym_rank_of in *.
  destruct (sym_upper_position_inj d W Hup (m + t_oi (sT d)) (n + t_oj (sT d)) (m' + t_oi (sT d)) (n' + t_oj (sT d)) _
              ltac:(lia) ltac:(lia) ltac:(lia) ltac:(lia) eq_refl (eq_sym Hr) Hp). lia.
Qed.

Theorem sym_stored_key_roundtrip d m n : wf_tmat (sT d) -> in_sub (sT d) m n ->
  tm_key2coords (sT d) (sym_stored_key d m n) = (m, n).
Proof. intros Wt Hs. apply (data_key_roundtrip (sT d) m n Wt Hs). Qed.

(* outside the domain: more tile columns than tile rows (lower), a non-square tile grid (upper) *)
Definition sym_wide_lower : symd := mk_symd 1 1 UPLO_LOWER (tmat_init ST_TILE 1 1 2 4 0 0 2 4).
Definition sym_wide_upper : symd := mk_symd 1 1 UPLO_UPPER (tmat_init ST_TILE 1 1 1 3 0 0 1 3).
Theorem sym_nonsquare_refuted :
  (wf_sym sym_wide_lower /\ sym_in_sub sym_wide_lower 1 1 /\
   sym_nb_local_tiles sym_wide_lower 0 <= sym_position sym_wide_lower (sym_rank_of sym_wide_lower 1 1) 1 1) /\
  (wf_sym sym_wide_upper /\ sym_in_sub sym_wide_upper 0 2 /\
   sym_nb_local_tiles sym_wide_upper 0 <= sym_position sym_wide_upper (sym_rank_of sym_wide_upper 0 2) 0 2).
Proof. unfold wf_sym, sym_in_sub, in_sub. vm_compute. repeat split; try discriminate. Qed.

(* ================= vector ================= *)
Theorem vec_rank_in_range d m : wf_vec d -> 0 <= vec_rank_of d m < vP d * vQ d.
Proof. intros W. apply vec_rank_range; exact W. Qed.

Theorem vec_vpid_in_range d nbvp m : 1 <= nbvp -> 0 <= vec_vpid d nbvp m < nbvp.
Proof.
  intros Hn. unfold vec_vpid, vec_vpid_g. destruct (nbvp =? 1) eqn:E; [lia|].
  destruct (vp_grid nbvp Hn) as (Hq & Hp & Hpq).
  pose proof (Z.mod_pos_bound ((m + t_oi (vT d)) / vP d) (vp_p nbvp) ltac:(lia)).
  pose proof (Z.mod_pos_bound ((m + t_oi (vT d)) / vQ d) (vp_q nbvp) ltac:(lia)).
  destruct (vdistrib d =? VD_COL), (vdistrib d =? VD_ROW); nia.
Qed.

(* ROW on a 1x2 grid: both segments go to rank 0 at local slot 0, which has room for one *)
Definition vec_row_witness : vecd := mk_vecd 1 2 VD_ROW (tmat_init ST_TILE 1 1 2 1 0 0 2 1).
(* COL on a 2x1 grid: same *)
Definition vec_col_witness : vecd := mk_vecd 2 1 VD_COL (tmat_init ST_TILE 1 1 2 1 0 0 2 1).
(* DIAG on a 1x2 grid: the init of rank 1 does not terminate; on a 2x1 grid the counts are wrong *)
Definition vec_diag_witness : vecd := mk_vecd 1 2 VD_DIAG (tmat_init ST_TILE 1 1 2 1 0 0 2 1).
Definition vec_diag_witness2 : vecd := mk_vecd 2 1 VD_DIAG (tmat_init ST_TILE 1 1 5 1 0 0 5 1).

Theorem vec_row_col_refuted :
  (wf_vec vec_row_witness /\ vec_rank_of vec_row_witness 0 = vec_rank_of vec_row_witness 1 /\
   vec_position vec_row_witness 0 = vec_position vec_row_witness 1 /\
   vec_nb_local_tiles vec_row_witness 0 = Some 1 /\ vec_nb_local_tiles vec_row_witness 1 = Some 1) /\
  (wf_vec vec_col_witness /\ vec_rank_of vec_col_witness 0 = vec_rank_of vec_col_witness 1 /\
   vec_position vec_col_witness 0 = vec_position vec_col_witness 1 /\
   vec_nb_local_tiles vec_col_witness 0 = Some 1 /\ vec_nb_local_tiles vec_col_witness 1 = Some 1).
Proof. unfold wf_vec. vm_compute. repeat split; discriminate. Qed.

Theorem vec_diag_rect_refuted :
  (wf_vec vec_diag_witness /\ vec_nb_local_tiles vec_diag_witness 1 = None) /\
  (wf_vec vec_diag_witness2 /\ vec_nb_local_tiles vec_diag_witness2 0 = Some 3 /\
   vec_nb_local_tiles vec_diag_witness2 1 = Some 3 /\ t_lmt (vT vec_diag_witness2) = 5).
Proof. unfold wf_vec. vm_compute. repeat split; discriminate. Qed.
