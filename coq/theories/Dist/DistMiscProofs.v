(* Tabular, vector and band distributions. *)
From PV Require Import Base.Tac Dist.DistDefs Dist.DistArith Dist.DistSum Dist.DistBC1 Dist.DistBCProofs.
Local Open Scope Z_scope.

(* ================= tabular ================= *)
Lemma tab_count_nonneg l r : 0 <= tab_count l r.
Proof. induction l as [|a l IH]; cbn [tab_count]; [lia|]. destruct (a =? r); lia. Qed.

Lemma tab_count_firstn_le l r k : tab_count (firstn k l) r <= tab_count l r.
Proof.
  revert k. induction l as [|a l IH]; intros k; destruct k; cbn [firstn tab_count]; try lia.
  - pose proof (tab_count_nonneg l r). destruct (a =? r); lia.
  - specialize (IH k). lia.
Qed.

(* the slot of the k-th table entry, when it belongs to r *)
Lemma tab_positions_spec l r : forall next k, (k < length l)%nat -> nth k l (-1) = r ->
  nth k (tab_positions l r next) (-1) = next + tab_count (firstn k l) r.
Proof.
  induction l as [|a l IH]; intros next k Hk Hn; [cbn in Hk; lia|].
  destruct k as [|k]; cbn [nth firstn tab_count tab_positions length] in *.
  - subst a. rewrite Z.eqb_refl. cbn [nth]. lia.
  - destruct (a =? r) eqn:E; cbn [nth]; (rewrite IH; [lia|lia|assumption]).
Qed.

Lemma tab_count_firstn_lt l r : forall k, (k < length l)%nat -> nth k l (-1) = r ->
  tab_count (firstn k l) r < tab_count l r.
Proof.
  induction l as [|a l IH]; intros k Hk Hn; [cbn in Hk; lia|].
  destruct k as [|k]; cbn [nth firstn tab_count length] in *.
  - subst a. rewrite Z.eqb_refl. pose proof (tab_count_nonneg l r). lia.
  - specialize (IH k ltac:(lia) Hn). lia.
Qed.

Lemma nth_firstn_lt {A} (l : list A) dflt : forall k k', (k < k')%nat -> nth k (firstn k' l) dflt = nth k l dflt.
Proof.
  induction l as [|a l IH]; intros k k' H; destruct k', k; cbn [firstn nth]; try lia; try reflexivity.
  apply IH. lia.
Qed.

Lemma tab_count_firstn_strict l r : forall k k', (k < k')%nat -> (k' <= length l)%nat -> nth k l (-1) = r ->
  tab_count (firstn k l) r < tab_count (firstn k' l) r.
Proof.
  intros k k' Hlt Hle Hn.
  pose proof (tab_count_firstn_lt (firstn k' l) r k) as H.
  rewrite firstn_length_le in H by lia. rewrite firstn_firstn in H. rewrite Nat.min_l in H by lia.
  apply H; [lia|]. rewrite nth_firstn_lt by lia. exact Hn.
Qed.

Theorem tab_position_range l r k : (k < length l)%nat -> nth k l (-1) = r ->
  0 <= nth k (tab_positions l r 0) (-1) < tab_nb_local_tiles l r.
Proof.
  intros Hk Hn. rewrite tab_positions_spec by assumption. unfold tab_nb_local_tiles.
  pose proof (tab_count_nonneg (firstn k l) r). pose proof (tab_count_firstn_lt l r k Hk Hn). lia.
Qed.

Theorem tab_position_inj l r k k' : (k < length l)%nat -> (k' < length l)%nat ->
  nth k l (-1) = r -> nth k' l (-1) = r ->
  nth k (tab_positions l r 0) (-1) = nth k' (tab_positions l r 0) (-1) -> k = k'.
Proof.
  intros Hk Hk' Hn Hn' He. rewrite !tab_positions_spec in He by assumption.
  destruct (Nat.lt_trichotomy k k') as [L|[E|L]]; [|exact E|].
  - pose proof (tab_count_firstn_strict l r k k' L ltac:(lia) Hn). lia.
  - pose proof (tab_count_firstn_strict l r k' k L ltac:(lia) Hn'). lia.
Qed.

Theorem tab_position_surj l r : forall x, 0 <= x < tab_nb_local_tiles l r ->
  exists k, (k < length l)%nat /\ nth k l (-1) = r /\ nth k (tab_positions l r 0) (-1) = x.
Proof.
  unfold tab_nb_local_tiles.
  assert (H : forall next x, next <= x < next + tab_count l r ->
            exists k, (k < length l)%nat /\ nth k l (-1) = r /\ nth k (tab_positions l r next) (-1) = x).
  { induction l as [|a l IH]; intros next x Hx; cbn [tab_count tab_positions] in *; [lia|].
    destruct (a =? r) eqn:E.
    - destruct (Z.eq_dec x next) as [->|Hne].
      + exists O. cbn [length nth]. split; [lia|]. split; [lia|reflexivity].
      + destruct (IH (next + 1) x ltac:(lia)) as (k & Hk & Hn & Hp).
        exists (S k). cbn [length nth]. split; [lia|]. split; assumption.
    - destruct (IH next x ltac:(lia)) as (k & Hk & Hn & Hp).
      exists (S k). cbn [length nth]. split; [lia|]. split; assumption. }
  intros x Hx. apply (H 0 x). lia.
Qed.

Theorem tab_count_sum l nodes : 0 <= nodes -> Forall (fun a => 0 <= a < nodes) l ->
  Zsum (fun r => tab_nb_local_tiles l r) nodes = Z.of_nat (length l).
Proof.
  intros Hn Hall. unfold tab_nb_local_tiles. induction Hall as [|a l Ha Hall IH]; cbn [tab_count length].
  - apply Zsum_zero. reflexivity.
  - rewrite Zsum_add. change (Zsum (tab_count l) nodes) with (Zsum (fun r => tab_count l r) nodes). rewrite IH.
    rewrite (Zsum_ext _ (fun r => b2z (r =? a))).
    2:{ intros r _. rewrite Z.eqb_sym. reflexivity. }
    rewrite Zsum_indicator by lia.
    destruct (0 <=? a) eqn:E1, (a <? nodes) eqn:E2; cbn [b2z andb]; lia.
Qed.

(* the table index of a tile determines the tile *)
Lemma tab_index_inj t m n m' n' : 0 <= m + t_oi t < t_lmt t -> 0 <= m' + t_oi t < t_lmt t ->
  tab_index t m n = tab_index t m' n' -> m = m' /\ n = n'.
Proof.
  unfold tab_index. intros H1 H2 He.
  destruct (mixed_radix_inj (t_lmt t) (n + t_oj t) (m + t_oi t) (n' + t_oj t) (m' + t_oi t) H1 H2 He). lia.
Qed.
Lemma tab_index_range t m n : 0 <= m + t_oi t < t_lmt t -> 0 <= n + t_oj t < t_lnt t ->
  0 <= tab_index t m n < t_lmt t * t_lnt t.
Proof. unfold tab_index. intros. nia. Qed.

(* ================= vector ================= *)
Definition wf_vec (d : vecd) : Prop := 1 <= vP d /\ 1 <= vQ d /\ 0 <= t_lmt (vT d).
Definition vec_nlt (d : vecd) (r : Z) : Z := match vec_nb_local_tiles d r with Some x => x | None => -1 end.

Lemma vec_rank_range d M : wf_vec d -> 0 <= vec_rank_of_g d M < vP d * vQ d.
Proof.
  intros W. unfold wf_vec in W. unfold vec_rank_of_g.
  pose proof (Z.mod_pos_bound M (vP d) ltac:(lia)). pose proof (Z.mod_pos_bound M (vQ d) ltac:(lia)).
  destruct (vdistrib d =? VD_COL), (vdistrib d =? VD_ROW); nia.
Qed.

(* the diagonal distribution on a square process grid is consistent *)
Lemma c_gcd_same n : 0 < n -> c_gcd n n = n.
Proof.
  intros Hn. unfold c_gcd. replace (Z.to_nat n + 2)%nat with (S (S (Z.to_nat n))) by lia.
  cbn [gcd_loop]. destruct (n =? 0) eqn:E; [lia|]. rewrite Z_mod_same_full. reflexivity.
Qed.

Section DiagSquare.
Variable d : vecd.
Hypothesis W : wf_vec d.
Hypothesis Hd : vdistrib d = VD_DIAG.
Hypothesis Hsq : vP d = vQ d.
Local Notation n := (vQ d).
Local Notation lmt := (t_lmt (vT d)).

Lemma diag_lcm : vec_lcm d = n.
Proof. unfold vec_lcm. rewrite Hd. cbn. unfold c_lcm. rewrite Hsq. unfold wf_vec in W.
  rewrite c_gcd_same by lia. rewrite Z.div_same by lia. lia. Qed.

Lemma diag_rank_of M : vec_rank_of_g d M = (M mod n) * n + M mod n.
Proof. unfold vec_rank_of_g. rewrite Hd, Hsq. reflexivity. Qed.

Lemma diag_nlt r : 0 <= r < n * n ->
  vec_nlt d r = if r / n =? r mod n then cnt_below n (r / n) lmt else 0.
Proof.
  intros Hr. unfold wf_vec in W. unfold vec_nlt, vec_nb_local_tiles. rewrite Hd. cbn [Z.eqb VD_DIAG Pos.eqb].
  cbv zeta. rewrite Hsq. unfold c_lcm. rewrite c_gcd_same by lia. rewrite Z.div_same by lia. rewrite Z.mul_1_l.
  pose proof (grid_row_range n n r ltac:(lia) Hr) as [H1 H2].
  assert (Hrr : grid_rrank n n 0 r = r / n) by (unfold grid_rrank; apply (mod_eq _ n 1 (r / n)); lia).
  assert (Hcr : grid_crank n 0 r = r mod n) by (unfold grid_crank; apply (mod_eq _ n 1 (r mod n)); lia).
  rewrite Hrr, Hcr.
  destruct (r / n =? r mod n) eqn:E.
  - assert (He : r mod n - r / n = 0) by lia. rewrite He. rewrite Z.rem_0_l by lia. cbn [Z.eqb].
    unfold cnt_below. rewrite Z.add_0_l.
    destruct (r / n <? lmt mod n) eqn:E1, (lmt mod n >? r / n) eqn:E2; lia.
  - assert (Hne : Z.rem (r mod n - r / n) n <> 0).
    { intros Hz. apply Z.rem_divide in Hz; [|lia]. destruct Hz as [c Hc].
      assert (c = 0) by nia. lia. }
    destruct (Z.rem (r mod n - r / n) n =? 0) eqn:E1; [lia|reflexivity].
Qed.

Lemma diag_owner_iff M r : 0 <= r < n * n ->
  (vec_rank_of_g d M = r <-> r / n = r mod n /\ M mod n = r / n).
Proof.
  intros Hr. unfold wf_vec in W. rewrite diag_rank_of.
  pose proof (Z.mod_pos_bound M n ltac:(lia)) as Hm.
  pose proof (divmod_spec r n ltac:(lia)) as [H1 H2].
  split.
  - intros He. assert (r / n = M mod n) by (apply (div_eq r n (M mod n) (M mod n)); lia).
    assert (r mod n = M mod n) by (apply (mod_eq r n (M mod n) (M mod n)); lia). lia.
  - intros [E1 E2]. rewrite E2. lia.
Qed.

Theorem vec_diag_square_range M r : 0 <= M < lmt -> vec_rank_of_g d M = r ->
  0 <= vec_position_g d M < vec_nlt d r.
Proof.
  intros HM Ho. pose proof (vec_rank_range d M W) as Hr. rewrite Ho, Hsq in Hr.
  apply (diag_owner_iff M r Hr) in Ho as [E1 E2]. unfold wf_vec in W.
  rewrite diag_nlt by assumption. rewrite <- E1, Z.eqb_refl.
  unfold vec_position_g. rewrite diag_lcm.
  pose proof (grid_row_range n n r ltac:(lia) Hr) as [H1 H2].
  rewrite <- (cnt_below_own n (r / n) M) by lia.
  pose proof (cnt_below_nonneg n (r / n) M ltac:(lia) H1 ltac:(lia)).
  pose proof (proj1 (cnt_below_lt n (r / n) M lmt ltac:(lia) H1 ltac:(lia) ltac:(lia) E2) ltac:(lia)). lia.
Qed.

Theorem vec_diag_square_inj M M' r : 0 <= M -> 0 <= M' ->
  vec_rank_of_g d M = r -> vec_rank_of_g d M' = r -> vec_position_g d M = vec_position_g d M' -> M = M'.
Proof.
  intros HM HM' Ho Ho' Hp. pose proof (vec_rank_range d M W) as Hr. rewrite Ho, Hsq in Hr.
  apply (diag_owner_iff M r Hr) in Ho as [E1 E2]. apply (diag_owner_iff M' r Hr) in Ho' as [_ E2'].
  unfold vec_position_g in Hp. rewrite diag_lcm in Hp. unfold wf_vec in W.
  rewrite (class_member_eq n (r / n) M ltac:(lia) E2). rewrite (class_member_eq n (r / n) M' ltac:(lia) E2'). lia.
Qed.

Theorem vec_diag_square_surj r x : 0 <= r < n * n -> 0 <= x < vec_nlt d r ->
  exists M, 0 <= M < lmt /\ vec_rank_of_g d M = r /\ vec_position_g d M = x.
Proof.
  intros Hr Hx. rewrite diag_nlt in Hx by assumption. unfold wf_vec in W.
  destruct (r / n =? r mod n) eqn:E; [|lia].
  pose proof (grid_row_range n n r ltac:(lia) Hr) as [H1 H2].
  destruct (cnt_below_member n (r / n) x ltac:(lia) H1 ltac:(lia)) as (HM0 & HMm & HMc).
  exists (x * n + r / n). split.
  - split; [lia|]. apply (cnt_below_lt n (r / n) _ lmt); try lia.
  - split.
    + apply (diag_owner_iff _ r Hr). split; [lia|assumption].
    + unfold vec_position_g. rewrite diag_lcm. rewrite <- (cnt_below_own n (r / n)) by lia. exact HMc.
Qed.

Theorem vec_diag_square_sum : Zsum (fun r => vec_nlt d r) (n * n) = lmt.
Proof.
  unfold wf_vec in W.
  rewrite (Zsum_ext _ (fun r => (fun a b => b2z (a =? b) * cnt_below n a lmt) (r / n) (r mod n))).
  2:{ intros r Hr. rewrite diag_nlt by assumption. destruct (r / n =? r mod n); cbn [b2z]; lia. }
  rewrite (Zsum_grid2 (fun a b => b2z (a =? b) * cnt_below n a lmt)) by lia.
  rewrite (Zsum_ext _ (fun a => cnt_below n a lmt)).
  - apply cnt_below_all; lia.
  - intros a Ha. rewrite Zsum_mul_r.
    rewrite (Zsum_ext _ (fun b => b2z (b =? a))).
    2:{ intros b _. rewrite Z.eqb_sym. reflexivity. }
    rewrite Zsum_indicator by lia.
    destruct (0 <=? a) eqn:E1, (a <? n) eqn:E2; cbn [b2z andb]; lia.
Qed.
End DiagSquare.

(* ================= band ================= *)
(* off-band and band descriptors on the same set of ranks, no submatrix offsets *)
Definition wf_band (d : bandd) : Prop :=
  wf_bc (bd_off d) /\ wf_bc (bd_band d) /\
  bP (bd_band d) * bQ (bd_band d) = bP (bd_off d) * bQ (bd_off d) /\
  1 <= bd_size d /\
  t_oi (bT (bd_off d)) = 0 /\ t_oj (bT (bd_off d)) = 0 /\
  t_oi (bT (bd_band d)) = 0 /\ t_oj (bT (bd_band d)) = 0 /\
  2 * bd_size d - 1 <= t_lmt (bT (bd_band d)) /\ t_lnt (bT (bd_off d)) <= t_lnt (bT (bd_band d)).

Lemma band_in_iff d m n : band_in d m n = true <-> - bd_size d < m - n < bd_size d.
Proof. unfold band_in. split; intros H; lia. Qed.

Theorem band_rank_range d m n : wf_band d -> 0 <= band_rank_of d m n < bP (bd_off d) * bQ (bd_off d).
Proof.
  intros (Wo & Wb & Hg & _). unfold band_rank_of, bc_rank_of.
  destruct (band_in d m n).
  - rewrite <- Hg. apply bc_rank_of_g_range; assumption.
  - apply bc_rank_of_g_range; assumption.
Qed.

(* a tile's slot: the sub-collection it lives in, and its position there *)
Theorem band_slot_range d m n r : wf_band d ->
  0 <= m < t_lmt (bT (bd_off d)) -> 0 <= n < t_lnt (bT (bd_off d)) -> band_rank_of d m n = r ->
  0 <= band_position d r m n <
  (if band_in d m n then bc_nb_local_tiles (bd_band d) r else bc_nb_local_tiles (bd_off d) r).
Proof.
  intros (Wo & Wb & Hg & Hs & Ho1 & Ho2 & Hb1 & Hb2 & Hbm & Hbn) Hm Hn Hr.
  unfold band_position, band_rank_of, bc_position, bc_rank_of in *.
  destruct (band_in d m n) eqn:E.
  - apply band_in_iff in E. rewrite Hb1, Hb2 in *. unfold band_m in *.
    apply bc_position_range; try assumption; lia.
  - rewrite Ho1, Ho2 in *. apply bc_position_range; try assumption; lia.
Qed.

Theorem band_slot_inj d m n m' n' r : wf_band d ->
  0 <= m < t_lmt (bT (bd_off d)) -> 0 <= n < t_lnt (bT (bd_off d)) ->
  0 <= m' < t_lmt (bT (bd_off d)) -> 0 <= n' < t_lnt (bT (bd_off d)) ->
  band_rank_of d m n = r -> band_rank_of d m' n' = r ->
  band_in d m n = band_in d m' n' -> band_position d r m n = band_position d r m' n' ->
  m = m' /\ n = n'.
Proof.
  intros (Wo & Wb & Hg & Hs & Ho1 & Ho2 & Hb1 & Hb2 & Hbm & Hbn) Hm Hn Hm' Hn' Hr Hr' Hin Hp.
  unfold band_position, band_rank_of, bc_position, bc_rank_of in *.
  rewrite <- Hin in *. destruct (band_in d m n) eqn:E.
  - symmetry in Hin. apply band_in_iff in E. apply band_in_iff in Hin. rewrite Hb1, Hb2 in *. unfold band_m in *.
    destruct (bc_position_inj (bd_band d) (m - n + bd_size d - 1 + 0) (n + 0) (m' - n' + bd_size d - 1 + 0) (n' + 0) r Wb)
      as [E1 E2]; try assumption; lia.
  - rewrite Ho1, Ho2 in *.
    destruct (bc_position_inj (bd_off d) (m + 0) (n + 0) (m' + 0) (n' + 0) r Wo) as [E1 E2]; try assumption; lia.
Qed.
