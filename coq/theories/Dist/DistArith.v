(* Arithmetic and finite-sum lemmas used by the distribution proofs. *)
From PV Require Import Base.Tac Dist.DistDefs.
Local Open Scope Z_scope.

Lemma mod_wrap x n : 0 < n -> 0 <= x < 2*n -> x mod n = if x <? n then x else x - n.
Proof.
  intros Hn Hx. destruct (x <? n) eqn:E.
  - apply Z.mod_small; lia.
  - symmetry; apply (Z.mod_unique_pos x n 1 (x - n)); lia.
Qed.

Lemma div_eq x n q r : 0 <= r < n -> x = q * n + r -> x / n = q.
Proof. intros Hr Hx. symmetry. apply (Z.div_unique_pos x n q r); lia. Qed.
Lemma mod_eq x n q r : 0 <= r < n -> x = q * n + r -> x mod n = r.
Proof. intros Hr Hx. symmetry. apply (Z.mod_unique_pos x n q r); lia. Qed.

Lemma divmod_spec x n : 0 < n -> x = (x / n) * n + x mod n /\ 0 <= x mod n < n.
Proof. intros Hn. pose proof (Z.div_mod x n). pose proof (Z.mod_pos_bound x n). lia. Qed.

Lemma div_nonneg x n : 0 <= x -> 0 < n -> 0 <= x / n.
Proof. intros. apply Z.div_pos; lia. Qed.

Lemma mixed_radix_inj R a b a' b' : 0 <= b < R -> 0 <= b' < R ->
  R * a + b = R * a' + b' -> a = a' /\ b = b'.
Proof.
  intros Hb Hb' H. destruct (Z_lt_ge_dec a a') as [L|G]; [|destruct (Z_lt_ge_dec a' a) as [L|G']].
  - assert (R * (a + 1) <= R * a') by nia. lia.
  - assert (R * (a' + 1) <= R * a) by nia. lia.
  - assert (a = a') by lia. subst. lia.
Qed.

(* rotation by the grid offset *)
Lemma rot_inv np ip a pr : 0 < np -> 0 <= ip < np -> 0 <= a < np -> 0 <= pr < np ->
  ((a + ip) mod np = pr <-> a = (pr + (np - ip)) mod np).
Proof.
  intros Hn Hip Ha Hpr. rewrite !mod_wrap by lia.
  destruct (a + ip <? np) eqn:E1, (pr + (np - ip) <? np) eqn:E2; lia.
Qed.
Lemma rot_range np ip pr : 0 < np -> 0 <= ip < np -> 0 <= pr < np -> 0 <= (pr + (np - ip)) mod np < np.
Proof. intros. apply Z.mod_pos_bound; lia. Qed.

(* ---------------- finite sums ---------------- *)
Lemma zsum_ext f g n : (forall k, 0 <= k < Z.of_nat n -> f k = g k) -> zsum f n = zsum g n.
Proof.
  induction n as [|n IH]; intros H; cbn [zsum]; [reflexivity|].
  rewrite IH by (intros; apply H; lia). rewrite H by lia. reflexivity.
Qed.
Lemma zsum_add f g n : zsum (fun k => f k + g k) n = zsum f n + zsum g n.
Proof. induction n as [|n IH]; cbn [zsum]; lia. Qed.
Lemma zsum_mul_l c f n : zsum (fun k => c * f k) n = c * zsum f n.
Proof. induction n as [|n IH]; cbn [zsum]; lia. Qed.
Lemma zsum_mul_r c f n : zsum (fun k => f k * c) n = zsum f n * c.
Proof. induction n as [|n IH]; cbn [zsum]; lia. Qed.
Lemma zsum_const c n : zsum (fun _ => c) n = Z.of_nat n * c.
Proof. induction n as [|n IH]; cbn [zsum]; lia. Qed.
Lemma zsum_nonneg f n : (forall k, 0 <= k < Z.of_nat n -> 0 <= f k) -> 0 <= zsum f n.
Proof.
  induction n as [|n IH]; intros H; cbn [zsum]; [lia|].
  assert (0 <= zsum f n) by (apply IH; intros; apply H; lia).
  assert (0 <= f (Z.of_nat n)) by (apply H; lia). lia.
Qed.
Lemma zsum_app f a b : zsum f (a + b) = zsum f a + zsum (fun k => f (Z.of_nat a + k)) b.
Proof.
  induction b as [|b IH]; cbn [zsum].
  - rewrite Nat.add_0_r. lia.
  - rewrite Nat.add_succ_r. cbn [zsum]. rewrite IH.
    replace (Z.of_nat (a + b)) with (Z.of_nat a + Z.of_nat b) by lia. lia.
Qed.

Lemma Zsum_ext f g n : (forall k, 0 <= k < n -> f k = g k) -> Zsum f n = Zsum g n.
Proof. intros H. unfold Zsum. apply zsum_ext. intros k Hk. apply H. lia. Qed.
Lemma Zsum_add f g n : Zsum (fun k => f k + g k) n = Zsum f n + Zsum g n.
Proof. apply zsum_add. Qed.
Lemma Zsum_mul_l c f n : Zsum (fun k => c * f k) n = c * Zsum f n.
Proof. apply zsum_mul_l. Qed.
Lemma Zsum_mul_r c f n : Zsum (fun k => f k * c) n = Zsum f n * c.
Proof. apply zsum_mul_r. Qed.
Lemma Zsum_const c n : 0 <= n -> Zsum (fun _ => c) n = n * c.
Proof. intros. unfold Zsum. rewrite zsum_const. rewrite Z2Nat.id by lia. reflexivity. Qed.
Lemma Zsum_0 f : Zsum f 0 = 0.
Proof. reflexivity. Qed.
Lemma Zsum_succ f n : 0 <= n -> Zsum f (n + 1) = Zsum f n + f n.
Proof.
  intros Hn. unfold Zsum. replace (Z.to_nat (n + 1)) with (S (Z.to_nat n)) by lia.
  cbn [zsum]. rewrite Z2Nat.id by lia. reflexivity.
Qed.
Lemma Zsum_app f a b : 0 <= a -> 0 <= b -> Zsum f (a + b) = Zsum f a + Zsum (fun k => f (a + k)) b.
Proof.
  intros Ha Hb. unfold Zsum. rewrite Z2Nat.inj_add by lia. rewrite zsum_app.
  rewrite Z2Nat.id by lia. reflexivity.
Qed.
Lemma Zsum_nonneg f n : (forall k, 0 <= k < n -> 0 <= f k) -> 0 <= Zsum f n.
Proof. intros H. apply zsum_nonneg. intros k Hk. apply H. lia. Qed.

(* induction on a non-negative Z bound *)
Lemma Zsum_ind (Pr : Z -> Prop) : Pr 0 -> (forall n, 0 <= n -> Pr n -> Pr (n + 1)) -> forall n, 0 <= n -> Pr n.
Proof. intros H0 HS n Hn. apply (natlike_ind Pr); auto. Qed.

(* sum over the ranks of a P x Q grid, r = pr * Q + pc *)
Lemma Zsum_grid f g P Q : 0 <= P -> 0 < Q ->
  Zsum (fun r => f (r / Q) * g (r mod Q)) (P * Q) = Zsum f P * Zsum g Q.
Proof.
  intros HP HQ. revert P HP. apply Zsum_ind.
  - reflexivity.
  - intros P HP IH. replace ((P + 1) * Q) with (P * Q + Q) by lia.
    rewrite Zsum_app by nia. rewrite IH. rewrite Zsum_succ by lia.
    rewrite (Zsum_ext (fun k => f ((P * Q + k) / Q) * g ((P * Q + k) mod Q)) (fun k => f P * g k)).
    + rewrite Zsum_mul_l. lia.
    + intros k Hk. rewrite (div_eq (P * Q + k) Q P k) by lia. rewrite (mod_eq (P * Q + k) Q P k) by lia. reflexivity.
Qed.

(* a sum over a rotated index set *)
Lemma Zsum_rot_aux f a c : 0 <= a -> 0 <= c -> 0 < a + c ->
  Zsum (fun x => f ((x + c) mod (a + c))) (a + c) = Zsum f (c + a).
Proof.
  intros Ha Hc Hn. rewrite Zsum_app by lia. rewrite (Zsum_app f c a) by lia.
  rewrite (Zsum_ext (fun x => f ((x + c) mod (a + c))) (fun k => f (c + k)) a).
  2:{ intros k Hk. rewrite Z.mod_small by lia. f_equal. lia. }
  rewrite (Zsum_ext (fun k => f ((a + k + c) mod (a + c))) f c).
  2:{ intros k Hk. f_equal. rewrite (mod_eq (a + k + c) (a + c) 1 k) by lia. reflexivity. }
  lia.
Qed.
Lemma Zsum_rot f n c : 0 < n -> 0 <= c <= n ->
  Zsum (fun x => f ((x + c) mod n)) n = Zsum f n.
Proof.
  intros Hn Hc. pose proof (Zsum_rot_aux f (n - c) c) as H.
  replace (n - c + c) with n in H by lia. replace (c + (n - c)) with n in H by lia.
  apply H; lia.
Qed.

(* sum of indicator over ranks: exactly one rank equals a given one *)
Lemma Zsum_indicator n a : 0 <= n -> Zsum (fun r => b2z (r =? a)) n = b2z ((0 <=? a) && (a <? n)).
Proof.
  revert n. apply Zsum_ind.
  - cbn. destruct (0 <=? a) eqn:E1, (a <? 0) eqn:E2; cbn; lia.
  - intros n Hn IH. rewrite Zsum_succ by lia. rewrite IH.
    unfold b2z. destruct (0 <=? a) eqn:E1, (a <? n) eqn:E2, (n =? a) eqn:E3, (a <? n + 1) eqn:E4; cbn; lia.
Qed.
