(* Symmetric two-dimensional block-cyclic distribution (one triangle stored). *)
From PV Require Import Base.Tac Dist.DistDefs Dist.DistArith Dist.DistSum.
Local Open Scope Z_scope.

(* ---- the loops are sums ---- *)
Lemma Zsum_shift f n : 0 <= n -> Zsum f (1 + n) = f 0 + Zsum (fun k => f (1 + k)) n.
Proof. intros. rewrite Zsum_app by lia. replace 1 with (0 + 1) at 1 by lia. rewrite Zsum_succ by lia. rewrite Zsum_0. lia. Qed.

Lemma pos_loop_sum fuel : forall f x J step acc, 0 < step -> 0 <= J -> J < Z.of_nat fuel ->
  sym_pos_loop fuel f x (x + J * step) step acc = acc + Zsum (fun j => f (x + j * step)) J.
Proof.
  induction fuel as [|n IH]; intros f x J step acc Hs HJ Hf; [lia|]. cbn [sym_pos_loop].
  destruct (Z.eq_dec J 0) as [->|HJ0].
  - replace (x + 0 * step) with x by lia. rewrite Z.eqb_refl. rewrite Zsum_0. lia.
  - assert (0 < J * step) by nia. destruct (x =? x + J * step) eqn:E; [lia|].
    replace (x + J * step) with (x + step + (J - 1) * step) by lia.
    rewrite IH by lia. replace J with (1 + (J - 1)) at 2 by lia. rewrite Zsum_shift by lia.
    rewrite (Zsum_ext (fun k => f (x + (1 + k) * step)) (fun j => f (x + step + j * step))).
    2:{ intros k _. f_equal. lia. }
    replace (x + 0 * step) with x by lia. lia.
Qed.

Lemma total_loop_sum fuel : forall f x J stop step acc, 0 < step -> 0 <= J ->
  (forall j, 0 <= j -> (x + j * step < stop <-> j < J)) -> J < Z.of_nat fuel ->
  sym_total_loop fuel f x stop step acc = acc + Zsum (fun j => f (x + j * step)) J.
Proof.
  induction fuel as [|n IH]; intros f x J stop step acc Hs HJ Hch Hf; [lia|]. cbn [sym_total_loop].
  destruct (Z.eq_dec J 0) as [->|HJ0].
  - pose proof (Hch 0 ltac:(lia)). destruct (x <? stop) eqn:E; [lia|]. rewrite Zsum_0. lia.
  - pose proof (Hch 0 ltac:(lia)). destruct (x <? stop) eqn:E; [|lia].
    rewrite (IH f (x + step) (J - 1) stop step) by
      (try lia; intros j Hj; specialize (Hch (j + 1) ltac:(lia));
       replace (x + step + j * step) with (x + (j + 1) * step) by lia; lia).
    replace J with (1 + (J - 1)) at 2 by lia. rewrite Zsum_shift by lia.
    rewrite (Zsum_ext (fun k => f (x + (1 + k) * step)) (fun j => f (x + step + j * step))).
    2:{ intros k _. f_equal. lia. }
    replace (x + 0 * step) with x by lia. lia.
Qed.

Lemma cnt_below_le np rk x : 0 < np -> 0 <= rk < np -> 0 <= x -> cnt_below np rk x <= x.
Proof.
  intros Hn Hr. revert x. apply Zsum_ind.
  - rewrite cnt_below_0 by lia. lia.
  - intros x Hx IH. rewrite cnt_below_succ by lia. destruct (x mod np =? rk); cbn [b2z]; lia.
Qed.

(* j-th member of a class is below L iff j is below the class count *)
Lemma class_char np rk L j : 0 < np -> 0 <= rk < np -> 0 <= L -> 0 <= j ->
  (rk + j * np < L <-> j < cnt_below np rk L).
Proof.
  intros Hn Hr HL Hj. destruct (cnt_below_member np rk j Hn Hr Hj) as (H0 & Hm & Hc).
  replace (rk + j * np) with (j * np + rk) by lia.
  rewrite (cnt_below_lt np rk (j * np + rk) L Hn Hr H0 HL Hm). rewrite Hc. reflexivity.
Qed.

(* ---- consecutive blocks of sizes s 0, s 1, ... ---- *)
Lemma pre_mono s J : (forall t, 0 <= t < J -> 0 <= s t) ->
  forall j j', 0 <= j <= j' -> j' <= J -> Zsum s j <= Zsum s j'.
Proof.
  intros Hs j j' Hj Hj'. replace j' with (j + (j' - j)) by lia. rewrite Zsum_app by lia.
  assert (0 <= Zsum (fun k => s (j + k)) (j' - j)) by (apply Zsum_nonneg; intros; apply Hs; lia). lia.
Qed.
Lemma block_range s J j i : (forall t, 0 <= t < J -> 0 <= s t) -> 0 <= j < J -> 0 <= i < s j ->
  0 <= Zsum s j + i < Zsum s J.
Proof.
  intros Hs Hj Hi. pose proof (pre_mono s J Hs 0 j ltac:(lia) ltac:(lia)) as H0. rewrite Zsum_0 in H0.
  pose proof (pre_mono s J Hs (j + 1) J ltac:(lia) ltac:(lia)) as H1. rewrite Zsum_succ in H1 by lia. lia.
Qed.
Lemma block_inj s J j i j' i' : (forall t, 0 <= t < J -> 0 <= s t) -> 0 <= j < J -> 0 <= i < s j ->
  0 <= j' < J -> 0 <= i' < s j' -> Zsum s j + i = Zsum s j' + i' -> j = j' /\ i = i'.
Proof.
  intros Hs Hj Hi Hj' Hi' He.
  destruct (Z_lt_ge_dec j j') as [L|G]; [|destruct (Z_lt_ge_dec j' j) as [L|G']].
  - pose proof (pre_mono s J Hs (j + 1) j' ltac:(lia) ltac:(lia)) as H. rewrite Zsum_succ in H by lia. lia.
  - pose proof (pre_mono s J Hs (j' + 1) j ltac:(lia) ltac:(lia)) as H. rewrite Zsum_succ in H by lia. lia.
  - assert (j = j') by lia. subst. lia.
Qed.
Lemma block_surj s : forall J, 0 <= J -> (forall t, 0 <= t < J -> 0 <= s t) ->
  forall x, 0 <= x < Zsum s J -> exists j i, 0 <= j < J /\ 0 <= i < s j /\ x = Zsum s j + i.
Proof.
  apply (Zsum_ind (fun J => (forall t, 0 <= t < J -> 0 <= s t) ->
    forall x, 0 <= x < Zsum s J -> exists j i, 0 <= j < J /\ 0 <= i < s j /\ x = Zsum s j + i)).
  - intros _ x Hx. rewrite Zsum_0 in Hx. lia.
  - intros J HJ IH Hs x Hx. rewrite Zsum_succ in Hx by lia.
    destruct (Z_lt_ge_dec x (Zsum s J)) as [L|G].
    + destruct (IH ltac:(intros; apply Hs; lia) x ltac:(lia)) as (j & i & H1 & H2 & H3).
      exists j, i. lia.
    + exists J, (x - Zsum s J). lia.
Qed.

(* ---- the symmetric distribution ---- *)
Definition wf_sym (d : symd) : Prop :=
  1 <= sP d /\ 1 <= sQ d /\ 0 <= t_lmt (sT d) /\ 0 <= t_lnt (sT d).

Lemma sym_ranks d r : wf_sym d -> 0 <= r < sP d * sQ d ->
  sym_rrank d r = r / sQ d /\ sym_crank d r = r mod sQ d /\ 0 <= r / sQ d < sP d /\ 0 <= r mod sQ d < sQ d.
Proof.
  intros W Hr. unfold wf_sym in W. unfold sym_rrank, sym_crank, grid_rrank, grid_crank.
  pose proof (divmod_spec r (sQ d) ltac:(lia)) as [H1 H2].
  assert (0 <= r / sQ d) by (apply div_nonneg; lia). assert (r / sQ d < sP d) by nia.
  split; [apply (mod_eq _ (sP d) 1 (r / sQ d)); lia|].
  split; [apply (mod_eq _ (sQ d) 1 (r mod sQ d)); lia|]. lia.
Qed.

Lemma sym_rank_iff d M N r : wf_sym d -> 0 <= r < sP d * sQ d -> sym_stored (suplo d) M N = true ->
  (sym_rank_of_g d M N = r <-> M mod sP d = r / sQ d /\ N mod sQ d = r mod sQ d).
Proof.
  intros W Hr Hst. unfold sym_rank_of_g. rewrite Hst. unfold wf_sym in W.
  pose proof (Z.mod_pos_bound N (sQ d) ltac:(lia)) as Hc.
  pose proof (divmod_spec r (sQ d) ltac:(lia)) as [Hr1 Hr2].
  split.
  - intros <-. split; [symmetry; apply (div_eq _ (sQ d) (M mod sP d) (N mod sQ d)); lia
                      | symmetry; apply (mod_eq _ (sQ d) (M mod sP d) (N mod sQ d)); lia].
  - intros [-> ->]. lia.
Qed.

Lemma sym_rank_range d M N : wf_sym d -> sym_stored (suplo d) M N = true ->
  0 <= sym_rank_of_g d M N < sP d * sQ d.
Proof.
  intros W Hst. unfold sym_rank_of_g. rewrite Hst. unfold wf_sym in W.
  pose proof (Z.mod_pos_bound N (sQ d) ltac:(lia)). pose proof (Z.mod_pos_bound M (sP d) ltac:(lia)). nia.
Qed.

Lemma stored_lower M N : sym_stored UPLO_LOWER M N = true <-> N <= M.
Proof. unfold sym_stored, UPLO_LOWER, UPLO_UPPER. cbn. destruct (M <? N) eqn:E; cbn; lia. Qed.
Lemma stored_upper M N : sym_stored UPLO_UPPER M N = true <-> M <= N.
Proof. unfold sym_stored, UPLO_LOWER, UPLO_UPPER. cbn. destruct (M >? N) eqn:E; cbn; lia. Qed.

(* ---------------- lower ---------------- *)
Section Lower.
Variable d : symd.
Hypothesis W : wf_sym d.
Hypothesis Hlo : suplo d = UPLO_LOWER.
Hypothesis Hshape : t_lnt (sT d) <= t_lmt (sT d).
Local Notation P := (sP d). Local Notation Q := (sQ d).
Local Notation lmt := (t_lmt (sT d)). Local Notation lnt := (t_lnt (sT d)).

Definition colsize (rr N : Z) : Z := cnt_below P rr lmt - cnt_below P rr N.

Lemma lower_total r : 0 <= r < P * Q ->
  sym_nb_local_tiles d r = Zsum (fun j => colsize (r / Q) (r mod Q + j * Q)) (cnt_below Q (r mod Q) lnt).
Proof.
  intros Hr. destruct (sym_ranks d r W Hr) as (H1 & H2 & H3 & H4). unfold wf_sym in W.
  unfold sym_nb_local_tiles. rewrite Hlo, Z.eqb_refl. cbv zeta. rewrite H1, H2.
  assert (HJ : 0 <= cnt_below Q (r mod Q) lnt) by (apply cnt_below_nonneg; lia).
  pose proof (cnt_below_le Q (r mod Q) lnt ltac:(lia) ltac:(lia) ltac:(lia)) as Hle.
  rewrite (total_loop_sum _ _ (r mod Q) (cnt_below Q (r mod Q) lnt) lnt Q 0 ltac:(lia) HJ);
    [reflexivity| |lia].
  intros j Hj. apply class_char; lia.
Qed.

Lemma lower_pos r M N : 0 <= r < P * Q -> 0 <= N -> N mod Q = r mod Q ->
  sym_position_g d r M N = Zsum (fun j => colsize (r / Q) (r mod Q + j * Q)) (N / Q) + (M - N) / P.
Proof.
  intros Hr HN Hc. destruct (sym_ranks d r W Hr) as (H1 & H2 & H3 & H4). unfold wf_sym in W.
  unfold sym_position_g. rewrite Hlo, Z.eqb_refl. cbv zeta. rewrite H1, H2.
  pose proof (class_member_eq Q (r mod Q) N ltac:(lia) Hc) as HNe.
  assert (0 <= N / Q) by (apply div_nonneg; lia).
  replace N with (r mod Q + (N / Q) * Q) at 2 by lia.
  rewrite pos_loop_sum; try lia. reflexivity. nia.
Qed.

Lemma colsize_nonneg rr j cr : 0 <= rr < P -> 0 <= cr < Q -> 0 <= j < cnt_below Q cr lnt ->
  0 <= colsize rr (cr + j * Q).
Proof.
  intros Hrr Hcr Hj. unfold wf_sym in W. unfold colsize.
  pose proof (proj2 (class_char Q cr lnt j ltac:(lia) Hcr ltac:(lia) ltac:(lia)) ltac:(lia)).
  assert (0 <= cr + j * Q) by nia.
  pose proof (cnt_below_mono P rr (cr + j * Q) lmt ltac:(lia) Hrr ltac:(lia)). lia.
Qed.

(* an owned tile: its block (column) and its index in the block *)
Lemma lower_owned r M N : 0 <= r < P * Q -> 0 <= N <= M -> M < lmt -> N < lnt ->
  M mod P = r / Q -> N mod Q = r mod Q ->
  0 <= N / Q < cnt_below Q (r mod Q) lnt /\ N = r mod Q + (N / Q) * Q /\
  0 <= (M - N) / P < colsize (r / Q) N /\ (M - N) / P = cnt_below P (r / Q) M - cnt_below P (r / Q) N.
Proof.
  intros Hr HNM HM HN Hm Hn. destruct (sym_ranks d r W Hr) as (_ & _ & H3 & H4). unfold wf_sym in W.
  pose proof (class_member_eq Q (r mod Q) N ltac:(lia) Hn) as HNe.
  assert (Hq : 0 <= N / Q) by (apply div_nonneg; lia).
  split.
  { split; [lia|]. apply (class_char Q (r mod Q) lnt (N / Q)); lia. }
  split; [lia|].
  pose proof (class_diff P (r / Q) M N ltac:(lia) H3 ltac:(lia) Hm) as Hd.
  pose proof (cnt_below_mono P (r / Q) N M ltac:(lia) H3 ltac:(lia)).
  pose proof (proj1 (cnt_below_lt P (r / Q) M lmt ltac:(lia) H3 ltac:(lia) ltac:(lia) Hm) HM).
  unfold colsize. lia.
Qed.

Theorem sym_lower_position_range M N r :
  0 <= N <= M -> M < lmt -> N < lnt -> sym_rank_of_g d M N = r ->
  0 <= sym_position_g d r M N < sym_nb_local_tiles d r.
Proof.
  intros HNM HM HN Ho.
  assert (Hst : sym_stored (suplo d) M N = true) by (rewrite Hlo; apply stored_lower; lia).
  pose proof (sym_rank_range d M N W Hst) as Hr. rewrite Ho in Hr.
  apply (sym_rank_iff d M N r W Hr Hst) in Ho as [Hm Hn].
  destruct (sym_ranks d r W Hr) as (_ & _ & H3 & H4).
  destruct (lower_owned r M N Hr HNM HM HN Hm Hn) as (Hj & HNe & Hi & _).
  rewrite lower_total, lower_pos by lia.
  assert (Hi2 : 0 <= (M - N) / P < colsize (r / Q) (r mod Q + N / Q * Q)) by (rewrite <- HNe; exact Hi).
  apply (block_range (fun j => colsize (r / Q) (r mod Q + j * Q)) _ (N / Q) ((M - N) / P)); try assumption.
  intros t Ht. apply colsize_nonneg; assumption.
Qed.

Theorem sym_lower_position_inj M N M' N' r :
  0 <= N <= M -> M < lmt -> N < lnt -> 0 <= N' <= M' -> M' < lmt -> N' < lnt ->
  sym_rank_of_g d M N = r -> sym_rank_of_g d M' N' = r ->
  sym_position_g d r M N = sym_position_g d r M' N' -> M = M' /\ N = N'.
Proof.
  intros HNM HM HN HNM' HM' HN' Ho Ho' Hp.
  assert (Hst : sym_stored (suplo d) M N = true) by (rewrite Hlo; apply stored_lower; lia).
  assert (Hst' : sym_stored (suplo d) M' N' = true) by (rewrite Hlo; apply stored_lower; lia).
  pose proof (sym_rank_range d M N W Hst) as Hr. rewrite Ho in Hr.
  apply (sym_rank_iff d M N r W Hr Hst) in Ho as [Hm Hn].
  apply (sym_rank_iff d M' N' r W Hr Hst') in Ho' as [Hm' Hn'].
  destruct (sym_ranks d r W Hr) as (_ & _ & H3 & H4).
  destruct (lower_owned r M N Hr HNM HM HN Hm Hn) as (Hj & HNe & Hi & Hie).
  destruct (lower_owned r M' N' Hr HNM' HM' HN' Hm' Hn') as (Hj' & HNe' & Hi' & Hie').
  rewrite !lower_pos in Hp by lia.
  assert (Hi2 : 0 <= (M - N) / P < colsize (r / Q) (r mod Q + N / Q * Q)) by (rewrite <- HNe; exact Hi).
  assert (Hi2' : 0 <= (M' - N') / P < colsize (r / Q) (r mod Q + N' / Q * Q)) by (rewrite <- HNe'; exact Hi').
  destruct (block_inj (fun j => colsize (r / Q) (r mod Q + j * Q)) (cnt_below Q (r mod Q) lnt) _ _ _ _
              ltac:(intros t Ht; apply colsize_nonneg; assumption) Hj Hi2 Hj' Hi2' Hp) as [E1 E2].
  assert (N = N') by lia. subst N'. split; [|reflexivity].
  unfold wf_sym in W.
  rewrite (class_member_eq P (r / Q) M ltac:(lia) Hm). rewrite (class_member_eq P (r / Q) M' ltac:(lia) Hm').
  rewrite <- (cnt_below_own P (r / Q) M) by lia. rewrite <- (cnt_below_own P (r / Q) M') by lia. lia.
Qed.

Theorem sym_lower_position_surj r x : 0 <= r < P * Q -> 0 <= x < sym_nb_local_tiles d r ->
  exists M N, 0 <= N <= M /\ M < lmt /\ N < lnt /\ sym_rank_of_g d M N = r /\ sym_position_g d r M N = x.
Proof.
  intros Hr Hx. destruct (sym_ranks d r W Hr) as (_ & _ & H3 & H4). assert (W' := W). unfold wf_sym in W'.
  rewrite lower_total in Hx by assumption.
  destruct (block_surj (fun j => colsize (r / Q) (r mod Q + j * Q)) (cnt_below Q (r mod Q) lnt)
              ltac:(apply cnt_below_nonneg; lia) ltac:(intros t Ht; apply colsize_nonneg; assumption) x Hx)
    as (j & i & Hj & Hi & Hxe).
  set (N := r mod Q + j * Q). set (c := cnt_below P (r / Q) N + i). set (M := c * P + r / Q).
  assert (HN0 : 0 <= N) by (unfold N; nia).
  assert (HNl : N < lnt) by (apply (class_char Q (r mod Q) lnt j); lia).
  assert (HNm : N mod Q = r mod Q) by (apply (mod_eq _ Q j (r mod Q)); unfold N; lia).
  assert (HNq : N / Q = j) by (apply (div_eq _ Q j (r mod Q)); unfold N; lia).
  pose proof (cnt_below_nonneg P (r / Q) N ltac:(lia) H3 HN0) as Hcn.
  assert (Hc0 : 0 <= c) by (unfold c; lia).
  destruct (cnt_below_member P (r / Q) c ltac:(lia) H3 Hc0) as (HM0 & HMm & HMc). fold M in HM0, HMm, HMc.
  assert (HMl : M < lmt).
  { apply (cnt_below_lt P (r / Q) M lmt); try lia. rewrite HMc. unfold c, N, colsize in *. lia. }
  assert (HNM : N <= M).
  { destruct (Z_lt_ge_dec M N) as [L|G]; [|lia].
    pose proof (cnt_below_mono P (r / Q) (M + 1) N ltac:(lia) H3 ltac:(lia)) as Hmo.
    rewrite cnt_below_succ in Hmo by lia. rewrite HMm, Z.eqb_refl in Hmo. cbn [b2z] in Hmo. unfold c in HMc. unfold colsize in Hi. fold N in Hi. lia. }
  assert (Hst : sym_stored (suplo d) M N = true) by (rewrite Hlo; apply stored_lower; lia).
  exists M, N. split; [lia|]. split; [lia|]. split; [lia|]. split.
  - apply (sym_rank_iff d M N r W Hr Hst). split; assumption.
  - rewrite lower_pos by assumption. rewrite HNq.
    rewrite (class_diff P (r / Q) M N) by lia. rewrite HMc. unfold c. lia.
Qed.

End Lower.

(* ---------------- upper (square tile grid) ---------------- *)
Section Upper.
Variable d : symd.
Hypothesis W : wf_sym d.
Hypothesis Hup : suplo d = UPLO_UPPER.
Hypothesis Hsq : t_lmt (sT d) = t_lnt (sT d).
Local Notation P := (sP d). Local Notation Q := (sQ d).
Local Notation lmt := (t_lmt (sT d)). Local Notation lnt := (t_lnt (sT d)).

(* rows of class rr in column N of the upper triangle: M <= N *)
Definition colcnt (rr N : Z) : Z := cnt_below P rr (N + 1).

Lemma upper_pos r M N : 0 <= r < P * Q -> 0 <= N -> N mod Q = r mod Q ->
  sym_position_g d r M N = Zsum (fun j => colcnt (r / Q) (r mod Q + j * Q)) (N / Q) + M / P.
Proof.
  intros Hr HN Hc. destruct (sym_ranks d r W Hr) as (H1 & H2 & H3 & H4). unfold wf_sym in W.
  unfold sym_position_g. rewrite Hup. change (UPLO_UPPER =? UPLO_LOWER) with false. cbv zeta. rewrite H1, H2.
  pose proof (class_member_eq Q (r mod Q) N ltac:(lia) Hc) as HNe.
  assert (0 <= N / Q) by (apply div_nonneg; lia).
  replace N with (r mod Q + (N / Q) * Q) at 2 by lia.
  rewrite pos_loop_sum; try lia. reflexivity. nia.
Qed.

(* nb_local_tiles is computed row by row *)
Lemma upper_total_rows r : 0 <= r < P * Q ->
  sym_nb_local_tiles d r =
  Zsum (fun t => cnt_below Q (r mod Q) lnt - cnt_below Q (r mod Q) (r / Q + t * P)) (cnt_below P (r / Q) lmt).
Proof.
  intros Hr. destruct (sym_ranks d r W Hr) as (H1 & H2 & H3 & H4). unfold wf_sym in W.
  unfold sym_nb_local_tiles. rewrite Hup. change (UPLO_UPPER =? UPLO_LOWER) with false. cbv zeta. rewrite H1, H2.
  assert (HJ : 0 <= cnt_below P (r / Q) lmt) by (apply cnt_below_nonneg; lia).
  pose proof (cnt_below_le P (r / Q) lmt ltac:(lia) ltac:(lia) ltac:(lia)) as Hle.
  rewrite (total_loop_sum _ _ (r / Q) (cnt_below P (r / Q) lmt) lmt P 0 ltac:(lia) HJ);
    [reflexivity| |lia].
  intros j Hj. apply class_char; lia.
Qed.

(* the same set counted column by column *)
Lemma upper_double_count rr cr : 0 <= rr < P -> 0 <= cr < Q ->
  Zsum (fun t => cnt_below Q cr lnt - cnt_below Q cr (rr + t * P)) (cnt_below P rr lmt)
  = Zsum (fun j => colcnt rr (cr + j * Q)) (cnt_below Q cr lnt).
Proof.
  intros Hrr Hcr. unfold wf_sym in W.
  rewrite (Zsum_class (fun M => cnt_below Q cr lnt - cnt_below Q cr M) P rr lmt) by lia.
  rewrite (Zsum_class (fun N => colcnt rr N) Q cr lnt) by lia.
  (* both are the double sum of [M = rr][M <= N][N = cr] *)
  rewrite (Zsum_ext _ (fun M => Zsum (fun N => b2z (M mod P =? rr) * (b2z (M <=? N) * b2z (N mod Q =? cr))) lnt)).
  2:{ intros M HM. rewrite Zsum_mul_l. f_equal.
      rewrite (Zsum_ge_ind (fun N => b2z (N mod Q =? cr)) lnt M) by lia.
      rewrite <- !cnt_below_sum by lia. reflexivity. }
  rewrite (Zsum_ext (fun N => b2z (N mod Q =? cr) * colcnt rr N)
                    (fun N => Zsum (fun M => b2z (M mod P =? rr) * (b2z (M <=? N) * b2z (N mod Q =? cr))) lmt)).
  2:{ intros N HN. unfold colcnt. rewrite (cnt_below_sum P rr (N + 1)) by lia.
      rewrite <- (Zsum_lt_ind (fun M => b2z (M mod P =? rr)) lmt (N + 1)) by lia.
      rewrite <- Zsum_mul_l. apply Zsum_ext. intros M HM.
      destruct (M <? N + 1) eqn:E1, (M <=? N) eqn:E2; try lia; cbn [b2z]; lia. }
  apply Zsum_fubini; lia.
Qed.

Lemma upper_total r : 0 <= r < P * Q ->
  sym_nb_local_tiles d r = Zsum (fun j => colcnt (r / Q) (r mod Q + j * Q)) (cnt_below Q (r mod Q) lnt).
Proof.
  intros Hr. destruct (sym_ranks d r W Hr) as (_ & _ & H3 & H4).
  rewrite upper_total_rows by assumption. apply upper_double_count; assumption.
Qed.

Lemma colcnt_nonneg rr j cr : 0 <= rr < P -> 0 <= cr < Q -> 0 <= j -> 0 <= colcnt rr (cr + j * Q).
Proof. intros Hrr Hcr Hj. unfold wf_sym in W. unfold colcnt. assert (0 <= j * Q) by nia. apply cnt_below_nonneg; lia. Qed.

Lemma upper_owned r M N : 0 <= r < P * Q -> 0 <= M <= N -> N < lnt ->
  M mod P = r / Q -> N mod Q = r mod Q ->
  0 <= N / Q < cnt_below Q (r mod Q) lnt /\ N = r mod Q + (N / Q) * Q /\
  0 <= M / P < colcnt (r / Q) N /\ M / P = cnt_below P (r / Q) M.
Proof.
  intros Hr HMN HN Hm Hn. destruct (sym_ranks d r W Hr) as (_ & _ & H3 & H4). unfold wf_sym in W.
  pose proof (class_member_eq Q (r mod Q) N ltac:(lia) Hn) as HNe.
  assert (Hq : 0 <= N / Q) by (apply div_nonneg; lia).
  split.
  { split; [lia|]. apply (class_char Q (r mod Q) lnt (N / Q)); lia. }
  split; [lia|].
  rewrite <- (cnt_below_own P (r / Q) M) by lia.
  pose proof (cnt_below_nonneg P (r / Q) M ltac:(lia) H3 ltac:(lia)).
  pose proof (proj1 (cnt_below_lt P (r / Q) M (N + 1) ltac:(lia) H3 ltac:(lia) ltac:(lia) Hm) ltac:(lia)).
  unfold colcnt. lia.
Qed.

Theorem sym_upper_position_range M N r :
  0 <= M <= N -> N < lnt -> sym_rank_of_g d M N = r ->
  0 <= sym_position_g d r M N < sym_nb_local_tiles d r.
Proof.
  intros HMN HN Ho.
  assert (Hst : sym_stored (suplo d) M N = true) by (rewrite Hup; apply stored_upper; lia).
  pose proof (sym_rank_range d M N W Hst) as Hr. rewrite Ho in Hr.
  apply (sym_rank_iff d M N r W Hr Hst) in Ho as [Hm Hn].
  destruct (sym_ranks d r W Hr) as (_ & _ & H3 & H4).
  destruct (upper_owned r M N Hr HMN HN Hm Hn) as (Hj & HNe & Hi & _).
  rewrite upper_total, upper_pos by lia.
  assert (Hi2 : 0 <= M / P < colcnt (r / Q) (r mod Q + N / Q * Q)) by (rewrite <- HNe; exact Hi).
  apply (block_range (fun j => colcnt (r / Q) (r mod Q + j * Q)) _ (N / Q) (M / P)); try assumption.
  intros t Ht. apply colcnt_nonneg; lia.
Qed.

Theorem sym_upper_position_inj M N M' N' r :
  0 <= M <= N -> N < lnt -> 0 <= M' <= N' -> N' < lnt ->
  sym_rank_of_g d M N = r -> sym_rank_of_g d M' N' = r ->
  sym_position_g d r M N = sym_position_g d r M' N' -> M = M' /\ N = N'.
Proof.
  intros HMN HN HMN' HN' Ho Ho' Hp.
  assert (Hst : sym_stored (suplo d) M N = true) by (rewrite Hup; apply stored_upper; lia).
  assert (Hst' : sym_stored (suplo d) M' N' = true) by (rewrite Hup; apply stored_upper; lia).
  pose proof (sym_rank_range d M N W Hst) as Hr. rewrite Ho in Hr.
  apply (sym_rank_iff d M N r W Hr Hst) in Ho as [Hm Hn].
  apply (sym_rank_iff d M' N' r W Hr Hst') in Ho' as [Hm' Hn'].
  destruct (sym_ranks d r W Hr) as (_ & _ & H3 & H4).
  destruct (upper_owned r M N Hr HMN HN Hm Hn) as (Hj & HNe & Hi & Hie).
  destruct (upper_owned r M' N' Hr HMN' HN' Hm' Hn') as (Hj' & HNe' & Hi' & Hie').
  rewrite !upper_pos in Hp by lia.
  assert (Hi2 : 0 <= M / P < colcnt (r / Q) (r mod Q + N / Q * Q)) by (rewrite <- HNe; exact Hi).
  assert (Hi2' : 0 <= M' / P < colcnt (r / Q) (r mod Q + N' / Q * Q)) by (rewrite <- HNe'; exact Hi').
  destruct (block_inj (fun j => colcnt (r / Q) (r mod Q + j * Q)) (cnt_below Q (r mod Q) lnt) _ _ _ _
              ltac:(intros t Ht; apply colcnt_nonneg; lia) Hj Hi2 Hj' Hi2' Hp) as [E1 E2].
  split; [|lia]. unfold wf_sym in W.
  rewrite (class_member_eq P (r / Q) M ltac:(lia) Hm). rewrite (class_member_eq P (r / Q) M' ltac:(lia) Hm'). lia.
Qed.

Theorem sym_upper_position_surj r x : 0 <= r < P * Q -> 0 <= x < sym_nb_local_tiles d r ->
  exists M N, 0 <= M <= N /\ N < lnt /\ sym_rank_of_g d M N = r /\ sym_position_g d r M N = x.
Proof.
  intros Hr Hx. destruct (sym_ranks d r W Hr) as (_ & _ & H3 & H4). assert (W' := W). unfold wf_sym in W'.
  rewrite upper_total in Hx by assumption.
  destruct (block_surj (fun j => colcnt (r / Q) (r mod Q + j * Q)) (cnt_below Q (r mod Q) lnt)
              ltac:(apply cnt_below_nonneg; lia) ltac:(intros t Ht; apply colcnt_nonneg; lia) x Hx)
    as (j & i & Hj & Hi & Hxe).
  set (N := r mod Q + j * Q) in *. set (M := i * P + r / Q).
  assert (HN0 : 0 <= N) by (unfold N; nia).
  assert (HNl : N < lnt) by (apply (class_char Q (r mod Q) lnt j); lia).
  assert (HNm : N mod Q = r mod Q) by (apply (mod_eq _ Q j (r mod Q)); unfold N; lia).
  assert (HNq : N / Q = j) by (apply (div_eq _ Q j (r mod Q)); unfold N; lia).
  destruct (cnt_below_member P (r / Q) i ltac:(lia) H3 ltac:(lia)) as (HM0 & HMm & HMc). fold M in HM0, HMm, HMc.
  assert (HMN : M < N + 1).
  { apply (cnt_below_lt P (r / Q) M (N + 1)); try lia. rewrite HMc. unfold colcnt in Hi. lia. }
  assert (Hst : sym_stored (suplo d) M N = true) by (rewrite Hup; apply stored_upper; lia).
  exists M, N. split; [lia|]. split; [lia|]. split.
  - apply (sym_rank_iff d M N r W Hr Hst). split; assumption.
  - rewrite upper_pos by assumption. rewrite HNq.
    rewrite <- (cnt_below_own P (r / Q) M) by lia. lia.
Qed.

End Upper.

(* ---------------- counts over all ranks ---------------- *)
Lemma class_grid_sum h P Q L : 0 < P -> 0 < Q -> 0 <= L ->
  Zsum (fun r => Zsum (fun N => b2z (N mod Q =? r mod Q) * h (r / Q) N) L) (P * Q)
  = Zsum (fun N => Zsum (fun rr => h rr N) P) L.
Proof.
  intros HP HQ HL.
  rewrite (Zsum_grid2 (fun rr cr => Zsum (fun N => b2z (N mod Q =? cr) * h rr N) L) P Q) by lia.
  rewrite (Zsum_ext _ (fun rr => Zsum (fun N => h rr N) L)).
  - apply Zsum_fubini; lia.
  - intros rr Hrr. rewrite Zsum_fubini by lia. apply Zsum_ext. intros N HN.
    rewrite (Zsum_ext _ (fun cr => b2z (cr =? N mod Q) * h rr N)).
    2:{ intros cr _. rewrite (Z.eqb_sym cr). reflexivity. }
    rewrite Zsum_mul_r. rewrite Zsum_indicator by lia. pose proof (Z.mod_pos_bound N Q HQ).
    destruct (0 <=? N mod Q) eqn:E1, (N mod Q <? Q) eqn:E2; cbn [b2z andb]; lia.
Qed.

Theorem sym_lower_sum d : wf_sym d -> suplo d = UPLO_LOWER -> t_lnt (sT d) <= t_lmt (sT d) ->
  Zsum (fun r => sym_nb_local_tiles d r) (sP d * sQ d)
  = Zsum (fun N => Zsum (fun M => b2z (sym_stored (suplo d) M N)) (t_lmt (sT d))) (t_lnt (sT d)).
Proof.
  intros W Hlo Hsh. assert (W' := W). unfold wf_sym in W'.
  rewrite (Zsum_ext _ (fun r => Zsum (fun N => b2z (N mod sQ d =? r mod sQ d) * colsize d (r / sQ d) N) (t_lnt (sT d)))).
  2:{ intros r Hr. destruct (sym_ranks d r W Hr) as (_ & _ & H3 & H4).
      rewrite (lower_total d W Hlo r Hr).
      apply (Zsum_class (fun N => colsize d (r / sQ d) N)); lia. }
  rewrite (class_grid_sum (fun rr N => colsize d rr N)) by lia.
  apply Zsum_ext. intros N HN. unfold colsize. rewrite Zsum_sub. rewrite !cnt_below_all by lia.
  rewrite Hlo. rewrite (Zsum_ext _ (fun M => b2z (N <=? M) * 1)).
  2:{ intros M _. destruct (N <=? M) eqn:E.
      - rewrite (proj2 (stored_lower M N)) by lia. reflexivity.
      - destruct (sym_stored UPLO_LOWER M N) eqn:E2; [apply stored_lower in E2; lia|reflexivity]. }
  rewrite (Zsum_ge_ind (fun _ => 1)) by lia. rewrite !Zsum_one by lia. reflexivity.
Qed.

Theorem sym_upper_sum d : wf_sym d -> suplo d = UPLO_UPPER -> t_lmt (sT d) = t_lnt (sT d) ->
  Zsum (fun r => sym_nb_local_tiles d r) (sP d * sQ d)
  = Zsum (fun N => Zsum (fun M => b2z (sym_stored (suplo d) M N)) (t_lmt (sT d))) (t_lnt (sT d)).
Proof.
  intros W Hup Hsq. assert (W' := W). unfold wf_sym in W'.
  rewrite (Zsum_ext _ (fun r => Zsum (fun N => b2z (N mod sQ d =? r mod sQ d) * colcnt d (r / sQ d) N) (t_lnt (sT d)))).
  2:{ intros r Hr. destruct (sym_ranks d r W Hr) as (_ & _ & H3 & H4).
      rewrite (upper_total d W Hup Hsq r Hr).
      apply (Zsum_class (fun N => colcnt d (r / sQ d) N)); lia. }
  rewrite (class_grid_sum (fun rr N => colcnt d rr N)) by lia.
  apply Zsum_ext. intros N HN. unfold colcnt. rewrite cnt_below_all by lia.
  rewrite Hup. rewrite (Zsum_ext _ (fun M => b2z (M <? N + 1) * 1)).
  2:{ intros M _. destruct (M <? N + 1) eqn:E.
      - rewrite (proj2 (stored_upper M N)) by lia. reflexivity.
      - destruct (sym_stored UPLO_UPPER M N) eqn:E2; [apply stored_upper in E2; lia|reflexivity]. }
  rewrite (Zsum_lt_ind (fun _ => 1)) by lia. rewrite Zsum_one by lia. reflexivity.
Qed.
