(* Two-dimensional block-cyclic distribution (plain and k-cyclic): ownership,
   local slots, counts, keys, virtual processes. *)
From PV Require Import Base.Tac Dist.DistDefs Dist.DistArith Dist.DistBC1.
Local Open Scope Z_scope.

(* legal parameters of parsec_matrix_block_cyclic_init *)
Definition wf_bc (d : bcd) : Prop :=
  1 <= bP d /\ 1 <= bQ d /\ 1 <= bkp d /\ 1 <= bkq d /\
  0 <= bip d < bP d /\ 0 <= bjq d < bQ d /\ 0 <= t_lmt (bT d) /\ 0 <= t_lnt (bT d).

Lemma is_plain_k d : bc_is_plain d = true -> bkp d = 1 /\ bkq d = 1.
Proof. unfold bc_is_plain. intros H. apply andb_true_iff in H. lia. Qed.

Lemma bc_own_row_eq d M : bc_own_row d M = own1_kcyc (bP d) (bkp d) (bip d) M.
Proof. unfold bc_own_row. destruct (bc_is_plain d) eqn:E; [|reflexivity].
  apply is_plain_k in E as [-> _]. apply own1_plain_kcyc. Qed.
Lemma bc_own_col_eq d N : bc_own_col d N = own1_kcyc (bQ d) (bkq d) (bjq d) N.
Proof. unfold bc_own_col. destruct (bc_is_plain d) eqn:E; [|reflexivity].
  apply is_plain_k in E as [_ ->]. apply own1_plain_kcyc. Qed.
Lemma bc_loc_row_eq d M : wf_bc d -> bc_loc_row d M = loc1_kcyc (bP d) (bkp d) M.
Proof. intros W. unfold bc_loc_row. destruct (bc_is_plain d) eqn:E; [|reflexivity].
  apply is_plain_k in E as [-> _]. apply loc1_plain_kcyc. unfold wf_bc in W; lia. Qed.
Lemma bc_loc_col_eq d N : wf_bc d -> bc_loc_col d N = loc1_kcyc (bQ d) (bkq d) N.
Proof. intros W. unfold bc_loc_col. destruct (bc_is_plain d) eqn:E; [|reflexivity].
  apply is_plain_k in E as [_ ->]. apply loc1_plain_kcyc. unfold wf_bc in W; lia. Qed.

(* ---- rank_of ---- *)
Lemma bc_rank_of_g_range d M N : wf_bc d -> 0 <= bc_rank_of_g d M N < bP d * bQ d.
Proof.
  intros W. unfold bc_rank_of_g. rewrite bc_own_row_eq, bc_own_col_eq. unfold wf_bc in W.
  pose proof (own1_range (bP d) (bkp d) (bip d) M ltac:(lia)).
  pose proof (own1_range (bQ d) (bkq d) (bjq d) N ltac:(lia)). nia.
Qed.

Lemma bc_rank_of_g_iff d M N r : wf_bc d -> 0 <= r < bP d * bQ d ->
  (bc_rank_of_g d M N = r <-> bc_own_row d M = r / bQ d /\ bc_own_col d N = r mod bQ d).
Proof.
  intros W Hr. unfold bc_rank_of_g. rewrite bc_own_row_eq, bc_own_col_eq. unfold wf_bc in W.
  pose proof (own1_range (bQ d) (bkq d) (bjq d) N ltac:(lia)) as Hc.
  set (a := own1_kcyc (bP d) (bkp d) (bip d) M) in *. set (b := own1_kcyc (bQ d) (bkq d) (bjq d) N) in *.
  pose proof (divmod_spec r (bQ d) ltac:(lia)) as [Hr1 Hr2].
  split.
  - intros <-. split; [symmetry; apply (div_eq _ (bQ d) a b); lia | symmetry; apply (mod_eq _ (bQ d) a b); lia].
  - intros [-> ->]. lia.
Qed.

Lemma grid_row_range P Q r : 0 < Q -> 0 <= r < P * Q -> 0 <= r / Q < P /\ 0 <= r mod Q < Q.
Proof.
  intros HQ Hr. pose proof (divmod_spec r Q HQ) as [H1 H2].
  assert (0 <= r / Q) by (apply div_nonneg; lia). split; [|lia]. split; [lia|]. nia.
Qed.

(* the tiles of rank r, one dimension at a time *)
Lemma bc_row_owned d M r : wf_bc d -> 0 <= r < bP d * bQ d ->
  (bc_own_row d M = r / bQ d <-> prow (bP d) (bkp d) M = bc_rrank d r).
Proof.
  intros W Hr. rewrite bc_own_row_eq. unfold bc_rrank, grid_rrank. unfold wf_bc in W.
  pose proof (grid_row_range (bP d) (bQ d) r ltac:(lia) Hr) as [H1 _].
  apply own1_iff; lia.
Qed.
Lemma bc_col_owned d N r : wf_bc d -> 0 <= r < bP d * bQ d ->
  (bc_own_col d N = r mod bQ d <-> prow (bQ d) (bkq d) N = bc_crank d r).
Proof.
  intros W Hr. rewrite bc_own_col_eq. unfold bc_crank, grid_crank. unfold wf_bc in W.
  pose proof (grid_row_range (bP d) (bQ d) r ltac:(lia) Hr) as [_ H1].
  apply own1_iff; lia.
Qed.
Lemma bc_rrank_range d r : wf_bc d -> 0 <= bc_rrank d r < bP d.
Proof. intros W. unfold bc_rrank, grid_rrank. unfold wf_bc in W. apply Z.mod_pos_bound; lia. Qed.
Lemma bc_crank_range d r : wf_bc d -> 0 <= bc_crank d r < bQ d.
Proof. intros W. unfold bc_crank, grid_crank. unfold wf_bc in W. apply Z.mod_pos_bound; lia. Qed.

(* ---- the local counts ---- *)
Lemma bc_r0_nonneg d r : wf_bc d -> 0 <= bc_nb_elem_r0 d r.
Proof. intros W. unfold bc_nb_elem_r0. pose proof (bc_rrank_range d r W). unfold wf_bc in W.
  apply nb_elem_spec; lia. Qed.
Lemma bc_c0_nonneg d r : wf_bc d -> 0 <= bc_nb_elem_c0 d r.
Proof. intros W. unfold bc_nb_elem_c0. pose proof (bc_crank_range d r W). unfold wf_bc in W.
  apply nb_elem_spec; lia. Qed.
Lemma bc_nb_local_eq d r : bc_nb_local_tiles d r = bc_nb_elem_r0 d r * bc_nb_elem_c0 d r.
Proof.
  unfold bc_nb_local_tiles, bc_nb_elem_r, bc_nb_elem_c.
  destruct (bc_nb_elem_r0 d r =? 0) eqn:E1; cbn.
  - lia.
  - destruct (bc_nb_elem_c0 d r =? 0) eqn:E2; lia.
Qed.
Lemma bc_nb_elem_r_pos d r : 0 < bc_nb_elem_r0 d r -> 0 < bc_nb_elem_c0 d r -> bc_nb_elem_r d r = bc_nb_elem_r0 d r.
Proof.
  intros H1 H2. unfold bc_nb_elem_r, bc_nb_elem_c.
  destruct (bc_nb_elem_r0 d r =? 0) eqn:E1; [lia|]. destruct (bc_nb_elem_c0 d r =? 0) eqn:E2; lia.
Qed.

(* an owned tile inside the matrix has local coordinates below the counts *)
Lemma bc_owned_loc d M N r : wf_bc d -> 0 <= r < bP d * bQ d ->
  0 <= M < t_lmt (bT d) -> 0 <= N < t_lnt (bT d) -> bc_rank_of_g d M N = r ->
  0 <= bc_loc_row d M < bc_nb_elem_r0 d r /\ 0 <= bc_loc_col d N < bc_nb_elem_c0 d r.
Proof.
  intros W Hr HM HN Ho. apply (bc_rank_of_g_iff d M N r W Hr) in Ho as [Ho1 Ho2].
  apply (bc_row_owned d M r W Hr) in Ho1. apply (bc_col_owned d N r W Hr) in Ho2.
  rewrite bc_loc_row_eq, bc_loc_col_eq by exact W.
  pose proof (bc_rrank_range d r W) as Hrr. pose proof (bc_crank_range d r W) as Hcr.
  unfold bc_nb_elem_r0, bc_nb_elem_c0. unfold wf_bc in W.
  destruct (nb_elem_spec (bP d) (bkp d) (bc_rrank d r) (t_lmt (bT d))) as [_ H1]; try lia.
  destruct (nb_elem_spec (bQ d) (bkq d) (bc_crank d r) (t_lnt (bT d))) as [_ H2]; try lia.
  pose proof (loc1_nonneg (bP d) (bkp d) M ltac:(lia) ltac:(lia) ltac:(lia)).
  pose proof (loc1_nonneg (bQ d) (bkq d) N ltac:(lia) ltac:(lia) ltac:(lia)).
  specialize (H1 M ltac:(lia) Ho1). specialize (H2 N ltac:(lia) Ho2). lia.
Qed.

Theorem bc_position_range d M N r : wf_bc d ->
  0 <= M < t_lmt (bT d) -> 0 <= N < t_lnt (bT d) -> bc_rank_of_g d M N = r ->
  0 <= bc_position_g d r M N < bc_nb_local_tiles d r.
Proof.
  intros W HM HN Ho. pose proof (bc_rank_of_g_range d M N W) as Hr. rewrite Ho in Hr.
  destruct (bc_owned_loc d M N r W Hr HM HN Ho) as [H1 H2].
  unfold bc_position_g. rewrite bc_nb_local_eq. rewrite bc_nb_elem_r_pos by lia. nia.
Qed.

Theorem bc_position_inj d M N M' N' r : wf_bc d ->
  0 <= M < t_lmt (bT d) -> 0 <= N < t_lnt (bT d) -> 0 <= M' < t_lmt (bT d) -> 0 <= N' < t_lnt (bT d) ->
  bc_rank_of_g d M N = r -> bc_rank_of_g d M' N' = r ->
  bc_position_g d r M N = bc_position_g d r M' N' -> M = M' /\ N = N'.
Proof.
  intros W HM HN HM' HN' Ho Ho' Hp. pose proof (bc_rank_of_g_range d M N W) as Hr. rewrite Ho in Hr.
  destruct (bc_owned_loc d M N r W Hr HM HN Ho) as [H1 H2].
  destruct (bc_owned_loc d M' N' r W Hr HM' HN' Ho') as [H1' H2'].
  unfold bc_position_g in Hp. rewrite bc_nb_elem_r_pos in Hp by lia.
  destruct (mixed_radix_inj _ _ _ _ _ H1 H1' Hp) as [Hl2 Hl1].
  apply (bc_rank_of_g_iff d M N r W Hr) in Ho as [Ho1 Ho2].
  apply (bc_rank_of_g_iff d M' N' r W Hr) in Ho' as [Ho1' Ho2'].
  apply (bc_row_owned d M r W Hr) in Ho1. apply (bc_col_owned d N r W Hr) in Ho2.
  apply (bc_row_owned d M' r W Hr) in Ho1'. apply (bc_col_owned d N' r W Hr) in Ho2'.
  rewrite !bc_loc_row_eq in Hl1 by exact W. rewrite !bc_loc_col_eq in Hl2 by exact W.
  unfold wf_bc in W. split.
  - rewrite <- (glob1_loc (bP d) (bkp d) M) by lia. rewrite <- (glob1_loc (bP d) (bkp d) M') by lia.
    rewrite Ho1, Ho1', Hl1. reflexivity.
  - rewrite <- (glob1_loc (bQ d) (bkq d) N) by lia. rewrite <- (glob1_loc (bQ d) (bkq d) N') by lia.
    rewrite Ho2, Ho2', Hl2. reflexivity.
Qed.

Theorem bc_position_surj d r x : wf_bc d -> 0 <= r < bP d * bQ d ->
  0 <= x < bc_nb_local_tiles d r ->
  exists M N, 0 <= M < t_lmt (bT d) /\ 0 <= N < t_lnt (bT d) /\
              bc_rank_of_g d M N = r /\ bc_position_g d r M N = x.
Proof.
  intros W Hr Hx. rewrite bc_nb_local_eq in Hx.
  pose proof (bc_r0_nonneg d r W) as HR. pose proof (bc_c0_nonneg d r W) as HC.
  assert (HRp : 0 < bc_nb_elem_r0 d r) by nia. assert (HCp : 0 < bc_nb_elem_c0 d r) by nia.
  pose proof (divmod_spec x _ HRp) as [Hx1 Hx2].
  assert (Hq : 0 <= x / bc_nb_elem_r0 d r) by (apply div_nonneg; lia).
  assert (Hq2 : x / bc_nb_elem_r0 d r < bc_nb_elem_c0 d r) by nia.
  set (lm := x mod bc_nb_elem_r0 d r) in *. set (ln := x / bc_nb_elem_r0 d r) in *.
  pose proof (bc_rrank_range d r W) as Hrr. pose proof (bc_crank_range d r W) as Hcr.
  assert (W' := W). unfold wf_bc in W'.
  destruct (glob1_facts (bP d) (bkp d) (bc_rrank d r) lm) as (Hg0 & Hgp & Hgl); try lia.
  destruct (glob1_facts (bQ d) (bkq d) (bc_crank d r) ln) as (Hh0 & Hhp & Hhl); try lia.
  set (M := glob1 (bP d) (bkp d) (bc_rrank d r) lm) in *.
  set (N := glob1 (bQ d) (bkq d) (bc_crank d r) ln) in *.
  destruct (nb_elem_spec (bP d) (bkp d) (bc_rrank d r) (t_lmt (bT d))) as [_ H1]; try lia.
  destruct (nb_elem_spec (bQ d) (bkq d) (bc_crank d r) (t_lnt (bT d))) as [_ H2]; try lia.
  specialize (H1 M Hg0 Hgp). specialize (H2 N Hh0 Hhp). rewrite Hgl in H1. rewrite Hhl in H2.
  fold (bc_nb_elem_r0 d r) in H1. fold (bc_nb_elem_c0 d r) in H2.
  exists M, N. split; [lia|]. split; [lia|]. split.
  - apply (bc_rank_of_g_iff d M N r W Hr). split.
    + apply (bc_row_owned d M r W Hr). exact Hgp.
    + apply (bc_col_owned d N r W Hr). exact Hhp.
  - unfold bc_position_g. rewrite bc_nb_elem_r_pos by lia.
    rewrite bc_loc_row_eq, bc_loc_col_eq by exact W. rewrite Hgl, Hhl. lia.
Qed.

(* ---- the counts of all ranks add up to the number of tiles ---- *)
Theorem bc_nb_local_sum d : wf_bc d ->
  Zsum (fun r => bc_nb_local_tiles d r) (bP d * bQ d) = t_lmt (bT d) * t_lnt (bT d).
Proof.
  intros W. assert (W' := W). unfold wf_bc in W'.
  set (f := fun pr => bc_nb_elem ((pr + (bP d - bip d)) mod bP d) (bkp d) (bP d) (t_lmt (bT d))).
  set (g := fun pc => bc_nb_elem ((pc + (bQ d - bjq d)) mod bQ d) (bkq d) (bQ d) (t_lnt (bT d))).
  rewrite (Zsum_ext _ (fun r => f (r / bQ d) * g (r mod bQ d))).
  2:{ intros r Hr. rewrite bc_nb_local_eq. reflexivity. }
  rewrite (Zsum_grid f g) by lia. unfold f, g.
  rewrite (Zsum_rot (fun rr => bc_nb_elem rr (bkp d) (bP d) (t_lmt (bT d))) (bP d) (bP d - bip d)) by lia.
  rewrite (Zsum_rot (fun cr => bc_nb_elem cr (bkq d) (bQ d) (t_lnt (bT d))) (bQ d) (bQ d - bjq d)) by lia.
  rewrite !nb_elem_sum by lia. reflexivity.
Qed.

(* ---- data keys ---- *)
Lemma key2coords_data_key t m n : 0 <= m + t_oi t < t_lmt t ->
  tm_key2coords t (tm_data_key t m n) = (m, n).
Proof.
  intros H. unfold tm_key2coords, tm_data_key.
  rewrite (mod_eq _ (t_lmt t) (n + t_oj t) (m + t_oi t)) by lia.
  rewrite (div_eq _ (t_lmt t) (n + t_oj t) (m + t_oi t)) by lia. f_equal; lia.
Qed.

Lemma bc_stored_key_eq d m n : bc_stored_key d m n = tm_data_key (bT d) m n.
Proof. reflexivity. Qed.

(* ---- virtual processes ---- *)
Lemma ceil_sqrt_range n : 1 <= n -> 1 <= ceil_sqrt n <= n.
Proof.
  intros Hn. unfold ceil_sqrt. pose proof (Z.sqrt_spec n ltac:(lia)) as Hs. cbv zeta in Hs. unfold Z.succ in Hs. cbv zeta.
  set (s := Z.sqrt n) in *. assert (0 <= s) by apply Z.sqrt_nonneg.
  destruct (s * s =? n) eqn:E; nia.
Qed.

Lemma vp_loop_spec fuel : forall pq q, 1 <= q <= pq -> pq - q < Z.of_nat fuel ->
  q <= vp_loop fuel pq q <= pq /\ (pq / vp_loop fuel pq q) * vp_loop fuel pq q = pq.
Proof.
  induction fuel as [|f IH]; intros pq q Hq Hf; cbn [vp_loop]; [lia|].
  destruct (pq / q * q =? pq) eqn:E; [lia|].
  assert (q <> pq). { intros ->. rewrite Z.div_same in E by lia. lia. }
  destruct (IH pq (q + 1)) as [H1 H2]; lia.
Qed.

Lemma vp_grid nbvp : 1 <= nbvp -> 1 <= vp_q nbvp /\ 1 <= vp_p nbvp /\ vp_p nbvp * vp_q nbvp = nbvp.
Proof.
  intros Hn. unfold vp_p, vp_q. pose proof (ceil_sqrt_range nbvp Hn) as Hc.
  destruct (vp_loop_spec (Z.to_nat nbvp) nbvp (ceil_sqrt nbvp) Hc ltac:(lia)) as [H1 H2].
  set (q := vp_loop (Z.to_nat nbvp) nbvp (ceil_sqrt nbvp)) in *.
  split; [lia|]. split; [|exact H2]. nia.
Qed.

Theorem vpid_2d_range nbvp lm ln : 1 <= nbvp -> 0 <= vpid_2d nbvp lm ln < nbvp.
Proof.
  intros Hn. unfold vpid_2d. destruct (nbvp =? 1) eqn:E; [lia|].
  destruct (vp_grid nbvp Hn) as (Hq & Hp & Hpq).
  pose proof (Z.mod_pos_bound ln (vp_q nbvp) ltac:(lia)). pose proof (Z.mod_pos_bound lm (vp_p nbvp) ltac:(lia)).
  nia.
Qed.
