(* Executable model of the tiled-matrix data distributions of
   parsec/data_dist/matrix: matrix.c (derived tile counts, data keys),
   grid_2Dcyclic.c (process grid, VP grid), two_dim_rectangle_cyclic.c (2D block
   cyclic: plain, k-cyclic and the k-cyclic view), sym_two_dim_rectangle_cyclic.c,
   vector_two_dim_cyclic.c, two_dim_tabular.c and two_dim_rectangle_cyclic_band.c.

   Everything is over Z.  All quantities of the C code that are modelled are
   non-negative ints (except crank-rrank in the vector code, where the C
   remainder is modelled by Z.rem), so C's / and % are Z.div and Z.modulo; int
   overflow is excluded by hypothesis (the generator keeps every product far
   below 2^31).  Assertions are compiled out (-DNDEBUG) and are not modelled.
   NO proofs in this file. *)
From Coq Require Import ZArith List Bool.
Import ListNotations.
Local Open Scope Z_scope.

(* ------------------------------------------------------------------ *)
(* matrix.c : parsec_tiled_matrix_init, derived parameters            *)
Definition ST_LAPACK : Z := 0.
Definition ST_TILE : Z := 1.

Record tmat := mk_tmat {
  t_mb : Z; t_nb : Z;            (* tile size *)
  t_lm : Z; t_ln : Z;            (* global size, padded unless LAPACK storage *)
  t_lmt : Z; t_lnt : Z;          (* tiles of the whole matrix *)
  t_i : Z; t_j : Z;              (* first row / column of the submatrix *)
  t_mt : Z; t_nt : Z             (* tiles of the submatrix *)
}.

(* tdesc->lmt = (lm%mb==0) ? (lm/mb) : (lm/mb+1) *)
Definition ceil_tiles (lm mb : Z) : Z := if lm mod mb =? 0 then lm / mb else lm / mb + 1.
(* tdesc->mt = (i+m-1)/mb - i/mb + 1 *)
Definition sub_tiles (i m mb : Z) : Z := (i + m - 1) / mb - i / mb + 1.

Definition tmat_init (st mb nb lm ln i j m n : Z) : tmat :=
  let lmt := ceil_tiles lm mb in
  let lnt := ceil_tiles ln nb in
  mk_tmat mb nb
          (if st =? ST_LAPACK then lm else lmt * mb)
          (if st =? ST_LAPACK then ln else lnt * nb)
          lmt lnt i j (sub_tiles i m mb) (sub_tiles j n nb).

(* tile offsets of the submatrix: dc->i / dc->mb, dc->j / dc->nb *)
Definition t_oi (t : tmat) : Z := t_i t / t_mb t.
Definition t_oj (t : tmat) : Z := t_j t / t_nb t.

(* matrix.c: tiled_matrix_data_key(m, n) = (n + j/nb) * lmt + (m + i/mb) *)
Definition tm_data_key (t : tmat) (m n : Z) : Z := (n + t_oj t) * t_lmt t + (m + t_oi t).
(* parsec_matrix_block_cyclic_key2coords / sym_twoDBC_key_to_coordinates *)
Definition tm_key2coords (t : tmat) (key : Z) : Z * Z :=
  (key mod t_lmt t - t_oi t, key / t_lmt t - t_oj t).

(* ------------------------------------------------------------------ *)
(* grid_2Dcyclic.c                                                    *)
(* grid->rrank = ((myrank / Q) + (rows - ip)) % rows *)
Definition grid_rrank (P Q ip myrank : Z) : Z := ((myrank / Q) + (P - ip)) mod P.
(* grid->crank = ((myrank % Q) + (cols - jq)) % cols *)
Definition grid_crank (Q jq myrank : Z) : Z := ((myrank mod Q) + (Q - jq)) mod Q.

(* default_vp_data_dist: q = ceil(sqrt(pq)); p = pq/q; while (p*q != pq) { q++; p = pq/q; } *)
Definition ceil_sqrt (n : Z) : Z := let s := Z.sqrt n in if s * s =? n then s else s + 1.
Fixpoint vp_loop (fuel : nat) (pq q : Z) : Z :=
  match fuel with
  | O => q
  | S f => if (pq / q) * q =? pq then q else vp_loop f pq (q + 1)
  end.
Definition vp_q (nbvp : Z) : Z := vp_loop (Z.to_nat nbvp) nbvp (ceil_sqrt nbvp).
Definition vp_p (nbvp : Z) : Z := nbvp / vp_q nbvp.

(* vpid = (local_n % q) * p + (local_m % p), 0 when there is one VP *)
Definition vpid_2d (nbvp local_m local_n : Z) : Z :=
  if nbvp =? 1 then 0
  else (local_n mod vp_q nbvp) * vp_p nbvp + local_m mod vp_p nbvp.

(* ------------------------------------------------------------------ *)
(* two_dim_rectangle_cyclic.c                                         *)
Record bcd := mk_bcd {
  bP : Z; bQ : Z;          (* process grid *)
  bkp : Z; bkq : Z;        (* k-cyclicity *)
  bip : Z; bjq : Z;        (* grid offsets *)
  bst : Z;                 (* storage *)
  bT : tmat
}.

(* the two while loops of parsec_matrix_block_cyclic_init:
     temp = rank * k;
     while (temp < lt) { if (temp + k < lt) { nb += k; temp += np*k; continue; }
                         nb += lt - temp; break; }                                *)
Fixpoint bc_count_loop (fuel : nat) (temp k stride lt acc : Z) : Z :=
  match fuel with
  | O => acc
  | S f => if temp <? lt then
             if temp + k <? lt then bc_count_loop f (temp + stride) k stride lt (acc + k)
             else acc + (lt - temp)
           else acc
  end.
Definition bc_nb_elem (rk k np lt : Z) : Z :=
  bc_count_loop (Z.to_nat lt + 1) (rk * k) k (np * k) lt 0.

Definition bc_rrank (d : bcd) (myrank : Z) : Z := grid_rrank (bP d) (bQ d) (bip d) myrank.
Definition bc_crank (d : bcd) (myrank : Z) : Z := grid_crank (bQ d) (bjq d) myrank.

Definition bc_nb_elem_r0 (d : bcd) (myrank : Z) : Z :=
  bc_nb_elem (bc_rrank d myrank) (bkp d) (bP d) (t_lmt (bT d)).
Definition bc_nb_elem_c0 (d : bcd) (myrank : Z) : Z :=
  bc_nb_elem (bc_crank d myrank) (bkq d) (bQ d) (t_lnt (bT d)).
(* if(nb_elem_r == 0) nb_elem_c = 0;  if(nb_elem_c == 0) nb_elem_r = 0; *)
Definition bc_nb_elem_c (d : bcd) (myrank : Z) : Z :=
  if bc_nb_elem_r0 d myrank =? 0 then 0 else bc_nb_elem_c0 d myrank.
Definition bc_nb_elem_r (d : bcd) (myrank : Z) : Z :=
  if bc_nb_elem_c d myrank =? 0 then 0 else bc_nb_elem_r0 d myrank.
Definition bc_nb_local_tiles (d : bcd) (myrank : Z) : Z :=
  bc_nb_elem_r d myrank * bc_nb_elem_c d myrank.
(* llm / lln after init (storage != LAPACK: nb_elem * tile size; LAPACK: the global size) *)
Definition bc_llm (d : bcd) (myrank : Z) : Z :=
  if bst d =? ST_LAPACK then t_lm (bT d) else bc_nb_elem_r d myrank * t_mb (bT d).
Definition bc_lln (d : bcd) (myrank : Z) : Z :=
  if bst d =? ST_LAPACK then t_ln (bT d) else bc_nb_elem_c d myrank * t_nb (bT d).

(* which function set parsec_matrix_block_cyclic_init installs *)
Definition bc_is_plain (d : bcd) : bool := (bkp d =? 1) && (bkq d =? 1).

(* one dimension, on a global tile index M:
   plain    rr = (M % P + ip) % P                 local = M / P
   kcyclic  rr = ((M / k) % P + ip) % P           local = (M / (k*P)) * k + (M % (k*P)) % k *)
Definition own1_plain (np ip M : Z) : Z := (M mod np + ip) mod np.
Definition own1_kcyc (np k ip M : Z) : Z := ((M / k) mod np + ip) mod np.
Definition loc1_plain (np M : Z) : Z := M / np.
Definition loc1_kcyc (np k M : Z) : Z := (M / (k * np)) * k + (M mod (k * np)) mod k.

Definition bc_own_row (d : bcd) (M : Z) : Z :=
  if bc_is_plain d then own1_plain (bP d) (bip d) M else own1_kcyc (bP d) (bkp d) (bip d) M.
Definition bc_own_col (d : bcd) (N : Z) : Z :=
  if bc_is_plain d then own1_plain (bQ d) (bjq d) N else own1_kcyc (bQ d) (bkq d) (bjq d) N.
Definition bc_loc_row (d : bcd) (M : Z) : Z :=
  if bc_is_plain d then loc1_plain (bP d) M else loc1_kcyc (bP d) (bkp d) M.
Definition bc_loc_col (d : bcd) (N : Z) : Z :=
  if bc_is_plain d then loc1_plain (bQ d) N else loc1_kcyc (bQ d) (bkq d) N.

(* functions on GLOBAL tile coordinates (M, N) = (m + i/mb, n + j/nb) *)
Definition bc_rank_of_g (d : bcd) (M N : Z) : Z := bc_own_row d M * bQ d + bc_own_col d N.
(* position = nb_elem_r * local_n + local_m, with the caller's nb_elem_r *)
Definition bc_position_g (d : bcd) (myrank M N : Z) : Z :=
  bc_nb_elem_r d myrank * bc_loc_col d N + bc_loc_row d M.
(* key given to parsec_tiled_matrix_create_data: (n * lmt) + m on the global
   coordinates, in the plain and (since fix 12f6606) in the k-cyclic data_of *)
Definition bc_stored_key_g (d : bcd) (M N : Z) : Z := N * t_lmt (bT d) + M.
(* the code before fix 12f6606: the k-cyclic data_of built the key after m and n had
   been reduced modulo k*P (k*Q); kept for the regression witness *)
Definition bc_stored_key_prefix_g (d : bcd) (M N : Z) : Z :=
  if bc_is_plain d then N * t_lmt (bT d) + M
  else (N mod (bkq d * bQ d)) * t_lmt (bT d) + M mod (bkp d * bP d).
(* element offset of the tile in the local storage (when mat != NULL) *)
Definition bc_offset_g (d : bcd) (myrank M N : Z) : Z :=
  if bst d =? ST_TILE then bc_position_g d myrank M N * (t_mb (bT d) * t_nb (bT d))
  else (bc_loc_col d N * t_nb (bT d)) * bc_llm d myrank + bc_loc_row d M * t_mb (bT d).
Definition bc_vpid_g (d : bcd) (nbvp M N : Z) : Z :=
  vpid_2d nbvp (bc_loc_row d M) (bc_loc_col d N).

(* the same on submatrix coordinates, as the collection's function pointers take them *)
Definition bc_rank_of (d : bcd) (m n : Z) : Z :=
  bc_rank_of_g d (m + t_oi (bT d)) (n + t_oj (bT d)).
Definition bc_position (d : bcd) (myrank m n : Z) : Z :=
  bc_position_g d myrank (m + t_oi (bT d)) (n + t_oj (bT d)).
Definition bc_stored_key (d : bcd) (m n : Z) : Z :=
  bc_stored_key_g d (m + t_oi (bT d)) (n + t_oj (bT d)).
Definition bc_stored_key_prefix (d : bcd) (m n : Z) : Z :=
  bc_stored_key_prefix_g d (m + t_oi (bT d)) (n + t_oj (bT d)).
Definition bc_offset (d : bcd) (myrank m n : Z) : Z :=
  bc_offset_g d myrank (m + t_oi (bT d)) (n + t_oj (bT d)).
Definition bc_vpid (d : bcd) (nbvp m n : Z) : Z :=
  bc_vpid_g d nbvp (m + t_oi (bT d)) (n + t_oj (bT d)).
Definition bc_rank_of_key (d : bcd) (key : Z) : Z :=
  let c := tm_key2coords (bT d) key in bc_rank_of d (fst c) (snd c).

(* ---- the k-cyclic view (parsec_matrix_block_cyclic_kview) ---------- *)
(* do { m = m - m%(p*ps) + (m%ps)*p + (m/ps)%p; } while (m >= mt); *)
Definition kview_step (p ps m : Z) : Z := m - m mod (p * ps) + (m mod ps) * p + (m / ps) mod p.
Fixpoint kview_loop (fuel : nat) (p ps mt m : Z) : Z :=
  match fuel with
  | O => m
  | S f => let m' := kview_step p ps m in
           if m' <? mt then m' else kview_loop f p ps mt m'
  end.
Definition kview_compute (p ps mt m : Z) : Z := kview_loop (Z.to_nat (p * ps) + 1) p ps mt m.

(* a view [v] (kp, kq of the view) over the plain descriptor [d] (its kp = kq = 1) *)
Definition kv_m (d : bcd) (vkp : Z) (m : Z) : Z := kview_compute (bP d) vkp (t_mt (bT d)) m.
Definition kv_n (d : bcd) (vkq : Z) (n : Z) : Z := kview_compute (bQ d) vkq (t_nt (bT d)) n.
Definition kv_rank_of (d : bcd) (vkp vkq m n : Z) : Z := bc_rank_of d (kv_m d vkp m) (kv_n d vkq n).
Definition kv_position (d : bcd) (vkp vkq myrank m n : Z) : Z :=
  bc_position d myrank (kv_m d vkp m) (kv_n d vkq n).
Definition kv_stored_key (d : bcd) (vkp vkq m n : Z) : Z :=
  bc_stored_key d (kv_m d vkp m) (kv_n d vkq n).
Definition kv_offset (d : bcd) (vkp vkq myrank m n : Z) : Z :=
  bc_offset d myrank (kv_m d vkp m) (kv_n d vkq n).
Definition kv_vpid (d : bcd) (vkp vkq nbvp m n : Z) : Z :=
  bc_vpid d nbvp (kv_m d vkp m) (kv_n d vkq n).
Definition kv_rank_of_key (d : bcd) (vkp vkq key : Z) : Z :=
  let c := tm_key2coords (bT d) key in kv_rank_of d vkp vkq (fst c) (snd c).

(* ------------------------------------------------------------------ *)
(* sym_two_dim_rectangle_cyclic.c  (grid offsets 0, no k-cyclicity)    *)
Definition UPLO_UPPER : Z := 121.
Definition UPLO_LOWER : Z := 122.
Definition UINT_MAX : Z := 4294967295.

Record symd := mk_symd { sP : Z; sQ : Z; suplo : Z; sT : tmat }.

Definition sym_stored (uplo M N : Z) : bool :=
  negb (((uplo =? UPLO_LOWER) && (M <? N)) || ((uplo =? UPLO_UPPER) && (M >? N))).
Definition sym_rank_of_g (d : symd) (M N : Z) : Z :=
  if sym_stored (suplo d) M N then (M mod sP d) * sQ d + N mod sQ d else UINT_MAX.

(* nb = x / np; if (x % np > rk) nb++  : number of indices below x with residue rk *)
Definition cnt_below (np rk x : Z) : Z := x / np + (if x mod np >? rk then 1 else 0).

(* lower: while(column < lnt) { total += nb_elem_col - cnt_below(P, rrank, column); column += Q; } *)
Fixpoint sym_total_loop (fuel : nat) (f : Z -> Z) (x stop step acc : Z) : Z :=
  match fuel with
  | O => acc
  | S k => if x <? stop then sym_total_loop k f (x + step) stop step (acc + f x) else acc
  end.
(* coord2pos: while(column != n) { pos += f(column); column += Q; } *)
Fixpoint sym_pos_loop (fuel : nat) (f : Z -> Z) (x stop step acc : Z) : Z :=
  match fuel with
  | O => acc
  | S k => if x =? stop then acc else sym_pos_loop k f (x + step) stop step (acc + f x)
  end.

Definition sym_rrank (d : symd) (myrank : Z) : Z := grid_rrank (sP d) (sQ d) 0 myrank.
Definition sym_crank (d : symd) (myrank : Z) : Z := grid_crank (sQ d) 0 myrank.

Definition sym_nb_local_tiles (d : symd) (myrank : Z) : Z :=
  let rr := sym_rrank d myrank in
  let cr := sym_crank d myrank in
  let lmt := t_lmt (sT d) in
  let lnt := t_lnt (sT d) in
  if suplo d =? UPLO_LOWER then
    let nb_elem_col := cnt_below (sP d) rr lmt in
    sym_total_loop (Z.to_nat lnt + 1) (fun c => nb_elem_col - cnt_below (sP d) rr c) cr lnt (sQ d) 0
  else
    let nb_elem_row := cnt_below (sQ d) cr lnt in
    sym_total_loop (Z.to_nat lmt + 1) (fun r => nb_elem_row - cnt_below (sQ d) cr r) rr lmt (sP d) 0.

(* parsec_matrix_sym_block_cyclic_coord2pos(dc, M, N), global coordinates *)
Definition sym_position_g (d : symd) (myrank M N : Z) : Z :=
  let rr := sym_rrank d myrank in
  let cr := sym_crank d myrank in
  if suplo d =? UPLO_LOWER then
    let nb_elem_col := cnt_below (sP d) rr (t_lmt (sT d)) in
    sym_pos_loop (Z.to_nat N + 1) (fun c => nb_elem_col - cnt_below (sP d) rr c) cr N (sQ d) 0
    + (M - N) / sP d
  else
    sym_pos_loop (Z.to_nat N + 1) (fun c => cnt_below (sP d) rr (c + 1)) cr N (sQ d) 0
    + M / sP d.
Definition sym_stored_key_g (d : symd) (M N : Z) : Z := N * t_lmt (sT d) + M.
Definition sym_vpid_g (d : symd) (nbvp M N : Z) : Z := vpid_2d nbvp (M / sP d) (N / sQ d).

Definition sym_rank_of (d : symd) (m n : Z) : Z := sym_rank_of_g d (m + t_oi (sT d)) (n + t_oj (sT d)).
Definition sym_position (d : symd) (myrank m n : Z) : Z :=
  sym_position_g d myrank (m + t_oi (sT d)) (n + t_oj (sT d)).
Definition sym_stored_key (d : symd) (m n : Z) : Z := sym_stored_key_g d (m + t_oi (sT d)) (n + t_oj (sT d)).
Definition sym_vpid (d : symd) (nbvp m n : Z) : Z := sym_vpid_g d nbvp (m + t_oi (sT d)) (n + t_oj (sT d)).
Definition sym_rank_of_key (d : symd) (key : Z) : Z :=
  let c := tm_key2coords (sT d) key in sym_rank_of d (fst c) (snd c).

(* ------------------------------------------------------------------ *)
(* vector_two_dim_cyclic.c                                            *)
Definition VD_ROW : Z := 0.
Definition VD_COL : Z := 1.
Definition VD_DIAG : Z := 2.

Record vecd := mk_vecd { vP : Z; vQ : Z; vdistrib : Z; vT : tmat }.

(* x = a; y = b; while (y != 0) { t = y; y = x % y; x = t; } return x; *)
Fixpoint gcd_loop (fuel : nat) (x y : Z) : Z :=
  match fuel with
  | O => x
  | S f => if y =? 0 then x else gcd_loop f y (x mod y)
  end.
Definition c_gcd (a b : Z) : Z := gcd_loop (Z.to_nat b + 2) a b.
Definition c_lcm (a b : Z) : Z := (a / c_gcd a b) * b.

(* dc->lcm *)
Definition vec_lcm (d : vecd) : Z :=
  if vdistrib d =? VD_DIAG then c_lcm (vP d) (vQ d)
  else if vdistrib d =? VD_ROW then vQ d else vP d.

(* nb_local_tiles computed by parsec_vector_two_dim_cyclic_init; None: the loop
     while (drank % Q != 0) drank += Q;
   never terminates (drank % Q does not change) *)
Definition vec_nb_local_tiles (d : vecd) (myrank : Z) : option Z :=
  let rr := grid_rrank (vP d) (vQ d) 0 myrank in
  let cr := grid_crank (vQ d) 0 myrank in
  let lmt := t_lmt (vT d) in
  if vdistrib d =? VD_DIAG then
    let pmq := cr - rr in
    let g := c_gcd (vP d) (vQ d) in
    let l := c_lcm (vP d) (vQ d) in
    if Z.rem pmq g =? 0 then
      if Z.rem pmq (vQ d) =? 0 then
        let drank := pmq + rr in
        Some (lmt / l + (if drank <? lmt mod l then 1 else 0))
      else None
    else Some 0
  else if vdistrib d =? VD_ROW then
    if rr =? 0 then Some (lmt / vQ d + (if rr <? lmt mod vQ d then 1 else 0)) else Some 0
  else
    if cr =? 0 then Some (lmt / vP d + (if cr <? lmt mod vP d then 1 else 0)) else Some 0.

(* rr = (distrib != COL) ? m % P : 0;  cr = (distrib != ROW) ? m % Q : 0 *)
Definition vec_rank_of_g (d : vecd) (M : Z) : Z :=
  (if vdistrib d =? VD_COL then 0 else M mod vP d) * vQ d
  + (if vdistrib d =? VD_ROW then 0 else M mod vQ d).
Definition vec_position_g (d : vecd) (M : Z) : Z := M / vec_lcm d.
Definition vec_stored_key_g (M : Z) : Z := M.
Definition vec_offset_g (d : vecd) (M : Z) : Z := vec_position_g d M * t_mb (vT d).
Definition vec_vpid_g (d : vecd) (nbvp M : Z) : Z :=
  if nbvp =? 1 then 0
  else (if vdistrib d =? VD_COL then 0 else (M / vP d) mod vp_p nbvp) * vp_q nbvp
       + (if vdistrib d =? VD_ROW then 0 else (M / vQ d) mod vp_q nbvp).

Definition vec_rank_of (d : vecd) (m : Z) : Z := vec_rank_of_g d (m + t_oi (vT d)).
Definition vec_position (d : vecd) (m : Z) : Z := vec_position_g d (m + t_oi (vT d)).
Definition vec_stored_key (d : vecd) (m : Z) : Z := vec_stored_key_g (m + t_oi (vT d)).
Definition vec_offset (d : vecd) (m : Z) : Z := vec_offset_g d (m + t_oi (vT d)).
Definition vec_vpid (d : vecd) (nbvp m : Z) : Z := vec_vpid_g d nbvp (m + t_oi (vT d)).

(* ------------------------------------------------------------------ *)
(* two_dim_tabular.c : parsec_matrix_tabular_set_table                *)
(* the table gives the owner of each tile, column major; positions are handed
   out in table order to the tiles of myrank, the others get -1 *)
Fixpoint tab_positions (ranks : list Z) (myrank next : Z) : list Z :=
  match ranks with
  | [] => []
  | r :: rest => if r =? myrank then next :: tab_positions rest myrank (next + 1)
                 else (-1) :: tab_positions rest myrank next
  end.
Fixpoint tab_count (ranks : list Z) (myrank : Z) : Z :=
  match ranks with
  | [] => 0
  | r :: rest => (if r =? myrank then 1 else 0) + tab_count rest myrank
  end.
Definition tab_nb_local_tiles (ranks : list Z) (myrank : Z) : Z := tab_count ranks myrank.
(* index in the table: res = lmt * n + m (global coordinates); also the data key *)
Definition tab_index (t : tmat) (m n : Z) : Z := t_lmt t * (n + t_oj t) + (m + t_oi t).
Definition tab_rank_of (t : tmat) (ranks : list Z) (m n : Z) : Z :=
  nth (Z.to_nat (tab_index t m n)) ranks (-1).
Definition tab_position (t : tmat) (ranks : list Z) (myrank m n : Z) : Z :=
  nth (Z.to_nat (tab_index t m n)) (tab_positions ranks myrank 0) (-1).
(* vpid: the table's value for the tiles of myrank, -1 for the others *)
Definition tab_vpid (t : tmat) (ranks vpids : list Z) (myrank m n : Z) : Z :=
  if nth (Z.to_nat (tab_index t m n)) ranks (-1) =? myrank
  then nth (Z.to_nat (tab_index t m n)) vpids (-1) else -1.

(* ------------------------------------------------------------------ *)
(* two_dim_rectangle_cyclic_band.c                                    *)
(* tiles with |m - n| < band_size live in [band] at (m - n + band_size - 1, n),
   the others in [off_band] at (m, n) *)
Record bandd := mk_bandd { bd_band : bcd; bd_off : bcd; bd_size : Z }.
Definition band_in (d : bandd) (m n : Z) : bool := Z.abs (m - n) <? bd_size d.
Definition band_m (d : bandd) (m n : Z) : Z := m - n + bd_size d - 1.
Definition band_rank_of (d : bandd) (m n : Z) : Z :=
  if band_in d m n then bc_rank_of (bd_band d) (band_m d m n) n else bc_rank_of (bd_off d) m n.
Definition band_position (d : bandd) (myrank m n : Z) : Z :=
  if band_in d m n then bc_position (bd_band d) myrank (band_m d m n) n
  else bc_position (bd_off d) myrank m n.
Definition band_stored_key (d : bandd) (m n : Z) : Z :=
  if band_in d m n then bc_stored_key (bd_band d) (band_m d m n) n else bc_stored_key (bd_off d) m n.
Definition band_vpid (d : bandd) (nbvp m n : Z) : Z :=
  if band_in d m n then bc_vpid (bd_band d) nbvp (band_m d m n) n else bc_vpid (bd_off d) nbvp m n.
Definition band_offset (d : bandd) (myrank m n : Z) : Z :=
  if band_in d m n then bc_offset (bd_band d) myrank (band_m d m n) n else bc_offset (bd_off d) myrank m n.

(* ------------------------------------------------------------------ *)
(* finite sums used by the statements (not by the code)               *)
Fixpoint zsum (f : Z -> Z) (n : nat) : Z :=
  match n with O => 0 | S k => zsum f k + f (Z.of_nat k) end.
(* sum of f over 0 <= x < n *)
Definition Zsum (f : Z -> Z) (n : Z) : Z := zsum f (Z.to_nat n).
Definition b2z (b : bool) : Z := if b then 1 else 0.
