(* The k-cyclic view (parsec_matrix_block_cyclic_kview): kview_compute_m/n is a
   permutation of the tile indices of the submatrix ("cycle walking" of the block
   transposition until the index falls inside the matrix). *)
From PV Require Import Base.Tac Dist.DistDefs Dist.DistArith.
Local Open Scope Z_scope.

(* ---- the step is a block-wise transposition ---- *)
Lemma step_decomp p ps blk a b : 0 < p -> 0 < ps -> 0 <= a < p -> 0 <= b < ps ->
  kview_step p ps (blk * (p * ps) + a * ps + b) = blk * (p * ps) + b * p + a.
Proof.
  intros Hp Hps Ha Hb. unfold kview_step.
  set (m := blk * (p * ps) + a * ps + b).
  assert (Hx : 0 <= a * ps + b < p * ps) by nia.
  assert (H1 : m mod (p * ps) = a * ps + b) by (apply (mod_eq m (p * ps) blk (a * ps + b)); unfold m; lia).
  assert (H2 : m mod ps = b) by (apply (mod_eq m ps (blk * p + a) b); unfold m; lia).
  assert (H3 : m / ps = blk * p + a) by (apply (div_eq m ps (blk * p + a) b); unfold m; lia).
  assert (H4 : (blk * p + a) mod p = a) by (apply (mod_eq _ p blk a); lia).
  rewrite H1, H2, H3, H4. unfold m. lia.
Qed.

Lemma decomp_exists p ps m : 0 < p -> 0 < ps -> 0 <= m ->
  exists blk a b, 0 <= blk /\ 0 <= a < p /\ 0 <= b < ps /\ m = blk * (p * ps) + a * ps + b.
Proof.
  intros Hp Hps Hm. assert (HB : 0 < p * ps) by nia.
  pose proof (divmod_spec m (p * ps) HB) as [H1 H2].
  pose proof (divmod_spec (m mod (p * ps)) ps Hps) as [H3 H4].
  exists (m / (p * ps)), (m mod (p * ps) / ps), ((m mod (p * ps)) mod ps).
  assert (0 <= m mod (p * ps) / ps) by (apply div_nonneg; lia).
  assert (m mod (p * ps) / ps < p) by nia.
  split; [apply div_nonneg; lia|]. split; [lia|]. split; [lia|]. lia.
Qed.

Lemma step_inverse p ps m : 0 < p -> 0 < ps -> 0 <= m ->
  0 <= kview_step p ps m /\ kview_step ps p (kview_step p ps m) = m /\
  kview_step p ps m / (p * ps) = m / (p * ps).
Proof.
  intros Hp Hps Hm. destruct (decomp_exists p ps m Hp Hps Hm) as (blk & a & b & Hblk & Ha & Hb & ->).
  rewrite step_decomp by lia. split; [nia|]. split.
  - replace (blk * (p * ps) + b * p + a) with (blk * (ps * p) + b * p + a) by lia.
    rewrite step_decomp by lia. lia.
  - assert (0 <= a * ps + b < p * ps) by nia. assert (0 <= b * p + a < p * ps) by nia.
    rewrite (div_eq (blk * (p * ps) + b * p + a) (p * ps) blk (b * p + a)) by lia.
    rewrite (div_eq (blk * (p * ps) + a * ps + b) (p * ps) blk (a * ps + b)) by lia. reflexivity.
Qed.

(* ---- iteration ---- *)
Fixpoint iter (f : Z -> Z) (j : nat) (x : Z) : Z :=
  match j with O => x | S k => iter f k (f x) end.
Lemma iter_S_out f j x : iter f (S j) x = f (iter f j x).
Proof. revert x. induction j as [|j IH]; intros x; [reflexivity|]. cbn [iter] in *. rewrite IH. reflexivity. Qed.
Lemma iter_add f a b x : iter f (a + b) x = iter f a (iter f b x).
Proof. revert x. induction b as [|b IH]; intros x.
  - rewrite Nat.add_0_r. reflexivity.
  - rewrite Nat.add_succ_r. cbn [iter]. apply IH. Qed.

(* ---- pigeonhole ---- *)
Lemma not_NoDup_nth (l : list Z) : ~ NoDup l ->
  exists a b, (a < b)%nat /\ (b < length l)%nat /\ nth a l 0 = nth b l 0.
Proof.
  induction l as [|x t IH]; intros H; [exfalso; apply H; constructor|].
  destruct (in_dec Z.eq_dec x t) as [Hin|Hnin].
  - destruct (In_nth t x 0 Hin) as (k & Hk & Hn). exists O, (S k). cbn [length nth]. split; [lia|]. split; [lia|]. auto.
  - destruct IH as (a & b & Hab & Hb & He).
    + intros Hnd. apply H. constructor; assumption.
    + exists (S a), (S b). cbn [length nth]. split; [lia|]. split; [lia|assumption].
Qed.

Lemma pigeonhole lo B (l : list Z) : 0 <= B -> (forall y, In y l -> lo <= y < lo + B) -> (Z.to_nat B < length l)%nat ->
  exists a b, (a < b)%nat /\ (b < length l)%nat /\ nth a l 0 = nth b l 0.
Proof.
  intros HB Hin Hlen. apply not_NoDup_nth. intros Hnd.
  set (S := map (fun k => lo + Z.of_nat k) (seq 0 (Z.to_nat B))).
  assert (Hincl : incl l S).
  { intros y Hy. specialize (Hin y Hy). unfold S. apply in_map_iff. exists (Z.to_nat (y - lo)).
    split; [lia|]. apply in_seq. lia. }
  pose proof (NoDup_incl_length Hnd Hincl) as Hle. unfold S in Hle. rewrite map_length, seq_length in Hle. lia.
Qed.

(* the orbit of x under an injective map that keeps a finite block comes back to x *)
Lemma orbit_returns f g lo B x : 0 < B ->
  (forall y, lo <= y < lo + B -> lo <= f y < lo + B /\ g (f y) = y) -> lo <= x < lo + B ->
  exists j, (1 <= j <= Z.to_nat B)%nat /\ iter f j x = x.
Proof.
  intros HB Hf Hx.
  assert (Hin : forall j, lo <= iter f j x < lo + B).
  { induction j as [|j IH]; [exact Hx|]. rewrite iter_S_out. apply Hf. exact IH. }
  set (l := map (fun j => iter f j x) (seq 0 (S (Z.to_nat B)))).
  destruct (pigeonhole lo B l ltac:(lia)) as (a & b & Hab & Hb & He).
  { intros y Hy. unfold l in Hy. apply in_map_iff in Hy as (j & <- & _). apply Hin. }
  { unfold l. rewrite map_length, seq_length. lia. }
  unfold l in Hb, He. rewrite map_length, seq_length in Hb.
  rewrite (nth_indep _ 0 (iter f 0 x)) in He by (rewrite map_length, seq_length; lia).
  rewrite (nth_indep _ 0 (iter f 0 x)) in He at 1 by (rewrite map_length, seq_length; lia).
  rewrite !(map_nth (fun j => iter f j x)) in He. rewrite !seq_nth in He by lia. cbn [plus] in He.
  (* peel a applications of f with g *)
  assert (Hpeel : forall a y z, lo <= y < lo + B -> lo <= z < lo + B -> iter f a y = iter f a z -> y = z).
  { induction a0 as [|a0 IH]; intros y z Hy Hz E; [exact E|]. cbn [iter] in E.
    apply IH in E; try (apply Hf; assumption).
    rewrite <- (proj2 (Hf y Hy)), <- (proj2 (Hf z Hz)). rewrite E. reflexivity. }
  exists (b - a)%nat. split; [lia|].
  replace b with (a + (b - a))%nat in He by lia. rewrite iter_add in He.
  symmetry. apply (Hpeel a x (iter f (b - a) x) Hx (Hin _)). exact He.
Qed.

(* ---- cycle walking ---- *)
Section Walk.
Variables p ps mt : Z.
Hypothesis Hp : 0 < p.
Hypothesis Hps : 0 < ps.
Local Notation sg := (kview_step p ps).
Local Notation sg' := (kview_step ps p).

Lemma sg_nonneg j m : 0 <= m -> 0 <= iter sg j m.
Proof. revert m. induction j as [|j IH]; intros m Hm; [exact Hm|]. cbn [iter]. apply IH. apply step_inverse; lia. Qed.
Lemma sg'_nonneg j m : 0 <= m -> 0 <= iter sg' j m.
Proof. revert m. induction j as [|j IH]; intros m Hm; [exact Hm|]. cbn [iter]. apply IH. apply step_inverse; lia. Qed.

Lemma sg'_sg j m : 0 <= m -> iter sg' j (iter sg j m) = m.
Proof.
  revert m. induction j as [|j IH]; intros m Hm; [reflexivity|].
  rewrite (iter_S_out sg j m). cbn [iter]. rewrite (proj1 (proj2 (step_inverse p ps _ Hp Hps (sg_nonneg j m Hm)))).
  apply IH. exact Hm.
Qed.
Lemma sg_sg' j m : 0 <= m -> iter sg j (iter sg' j m) = m.
Proof.
  revert m. induction j as [|j IH]; intros m Hm; [reflexivity|].
  rewrite (iter_S_out sg' j m). cbn [iter]. rewrite (proj1 (proj2 (step_inverse ps p _ Hps Hp (sg'_nonneg j m Hm)))).
  apply IH. exact Hm.
Qed.

(* the block of m is kept, so the orbit comes back *)
Lemma block_bounds B m : 0 < B -> 0 <= m -> (m / B) * B <= m < (m / B) * B + B.
Proof. intros HB Hm. pose proof (divmod_spec m B HB). lia. Qed.
Lemma in_block B y blk : 0 < B -> (blk * B <= y < blk * B + B <-> y / B = blk).
Proof.
  intros HB. split.
  - intros H. apply (div_eq y B blk (y - blk * B)); lia.
  - intros <-. pose proof (divmod_spec y B HB). lia.
Qed.

Lemma sg_returns m : 0 <= m -> exists j, (1 <= j <= Z.to_nat (p * ps))%nat /\ iter sg j m = m.
Proof.
  intros Hm. assert (HB : 0 < p * ps) by nia.
  apply (orbit_returns sg sg' ((m / (p * ps)) * (p * ps)) (p * ps) m HB).
  - intros y Hy. assert (Hy0 : 0 <= y).
    { assert (0 <= m / (p * ps)) by (apply div_nonneg; lia). nia. }
    destruct (step_inverse p ps y Hp Hps Hy0) as (H1 & H2 & H3). split; [|exact H2].
    apply (in_block (p * ps) _ (m / (p * ps)) HB). rewrite H3. apply (in_block (p * ps) y _ HB). exact Hy.
  - apply block_bounds; lia.
Qed.
Lemma sg'_returns m : 0 <= m -> exists j, (1 <= j <= Z.to_nat (p * ps))%nat /\ iter sg' j m = m.
Proof.
  intros Hm. assert (HB : 0 < ps * p) by nia. replace (p * ps) with (ps * p) by lia.
  apply (orbit_returns sg' sg ((m / (ps * p)) * (ps * p)) (ps * p) m HB).
  - intros y Hy. assert (Hy0 : 0 <= y).
    { assert (0 <= m / (ps * p)) by (apply div_nonneg; lia). nia. }
    destruct (step_inverse ps p y Hps Hp Hy0) as (H1 & H2 & H3). split; [|exact H2].
    apply (in_block (ps * p) _ (m / (ps * p)) HB). rewrite H3. apply (in_block (ps * p) y _ HB). exact Hy.
  - apply block_bounds; lia.
Qed.

(* first time the orbit is inside [0, mt) *)
Definition first_hit (f : Z -> Z) (j : nat) (m : Z) : Prop :=
  (1 <= j)%nat /\ iter f j m < mt /\ forall i, (1 <= i < j)%nat -> mt <= iter f i m.

Lemma first_hit_exists f n m : (1 <= n)%nat -> iter f n m < mt -> exists j, (j <= n)%nat /\ first_hit f j m.
Proof.
  revert m. induction n as [|n IH]; intros m Hn Hh; [lia|].
  destruct (Z_lt_ge_dec (f m) mt) as [L|G].
  - exists 1%nat. split; [lia|]. split; [lia|]. split; [exact L|]. intros i Hi. lia.
  - destruct n as [|n]; [cbn [iter] in Hh; lia|].
    destruct (IH (f m) ltac:(lia) Hh) as (j & Hj & H1 & H2 & H3).
    exists (S j). split; [lia|]. split; [lia|]. split; [exact H2|].
    intros i Hi. destruct i as [|i]; [lia|]. cbn [iter]. destruct i as [|i]; [cbn [iter]; lia|]. apply H3. lia.
Qed.

Lemma loop_first_hit fuel : forall m j, first_hit sg j m -> (j <= fuel)%nat -> kview_loop fuel p ps mt m = iter sg j m.
Proof.
  induction fuel as [|fuel IH]; intros m j (H1 & H2 & H3) Hf; [lia|].
  cbn [kview_loop]. cbv zeta. destruct (sg m <? mt) eqn:E.
  - destruct j as [|[|j]]; [lia|reflexivity|]. specialize (H3 1%nat ltac:(lia)). cbn [iter] in H3. lia.
  - destruct j as [|[|j]]; [lia|cbn [iter] in H2; lia|].
    rewrite (IH (sg m) (S j)); [reflexivity| |lia].
    split; [lia|]. split; [exact H2|]. intros i Hi. specialize (H3 (S i) ltac:(lia)). exact H3.
Qed.

Theorem kview_in_range m : 0 <= m < mt -> 0 <= kview_compute p ps mt m < mt.
Proof.
  intros Hm. destruct (sg_returns m ltac:(lia)) as (n & Hn & Hr).
  destruct (first_hit_exists sg n m ltac:(lia) ltac:(lia)) as (j & Hj & Hfh).
  unfold kview_compute. rewrite (loop_first_hit _ m j Hfh) by lia.
  destruct Hfh as (_ & H2 & _). split; [apply sg_nonneg; lia|exact H2].
Qed.

Theorem kview_injective m m' : 0 <= m < mt -> 0 <= m' < mt ->
  kview_compute p ps mt m = kview_compute p ps mt m' -> m = m'.
Proof.
  intros Hm Hm' He.
  destruct (sg_returns m ltac:(lia)) as (n & Hn & Hr). destruct (sg_returns m' ltac:(lia)) as (n' & Hn' & Hr').
  destruct (first_hit_exists sg n m ltac:(lia) ltac:(lia)) as (j & Hj & Hfh).
  destruct (first_hit_exists sg n' m' ltac:(lia) ltac:(lia)) as (j' & Hj' & Hfh').
  unfold kview_compute in He.
  rewrite (loop_first_hit _ m j Hfh) in He by lia. rewrite (loop_first_hit _ m' j' Hfh') in He by lia.
  assert (Hgen : forall a b x y, (a <= b)%nat -> 0 <= x < mt -> 0 <= y < mt ->
            first_hit sg a x -> first_hit sg b y -> iter sg a x = iter sg b y -> x = y).
  { intros a b x y Hab Hx Hy Ha Hb E.
    replace b with (a + (b - a))%nat in E by lia. rewrite iter_add in E.
    assert (E2 : x = iter sg (b - a) y).
    { rewrite <- (sg'_sg a x) by lia. rewrite E. apply sg'_sg. apply sg_nonneg; lia. }
    destruct (Nat.eq_dec a b) as [->|Hne]; [rewrite Nat.sub_diag in E2; exact E2|].
    destruct Hb as (_ & _ & Hb3). specialize (Hb3 (b - a)%nat ltac:(destruct Ha; lia)). lia. }
  destruct (Nat.le_ge_cases j j') as [L|G].
  - apply (Hgen j j' m m' L Hm Hm' Hfh Hfh' He).
  - symmetry. apply (Hgen j' j m' m G Hm' Hm Hfh' Hfh (eq_sym He)).
Qed.

Theorem kview_onto y : 0 <= y < mt -> exists m, 0 <= m < mt /\ kview_compute p ps mt m = y.
Proof.
  intros Hy. destruct (sg'_returns y ltac:(lia)) as (n & Hn & Hr).
  destruct (first_hit_exists sg' n y ltac:(lia) ltac:(lia)) as (j & Hj & (H1 & H2 & H3)).
  exists (iter sg' j y). split; [split; [apply sg'_nonneg; lia|exact H2]|].
  unfold kview_compute. rewrite (loop_first_hit _ (iter sg' j y) j); [apply sg_sg'; lia| |lia].
  split; [exact H1|]. split; [rewrite sg_sg' by lia; lia|].
  intros i Hi.
  (* sg^i (sg'^j y) = sg'^(j-i) y, which is outside by minimality of j *)
  replace j with (i + (j - i))%nat at 1 by lia. rewrite iter_add.
  assert (Hc : forall a x, 0 <= x -> iter sg a (iter sg' a x) = x) by (intros; apply sg_sg'; assumption).
  assert (Hs : forall a b x, 0 <= x -> iter sg' (a + b) x = iter sg' a (iter sg' b x)) by (intros; apply iter_add).
  replace (i + (j - i))%nat with ((j - i) + i)%nat by lia.
  assert (Hcomm : iter sg' (j - i + i) y = iter sg' i (iter sg' (j - i) y)).
  { rewrite Nat.add_comm. apply iter_add. }
  rewrite <- iter_add. replace (i + (j - i))%nat with (j - i + i)%nat by lia. rewrite Hcomm.
  rewrite sg_sg' by (apply sg'_nonneg; lia). apply H3. lia.
Qed.
End Walk.
