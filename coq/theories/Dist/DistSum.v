(* More finite sums: exchange of summation, conditional sums, sums over residue classes. *)
From PV Require Import Base.Tac Dist.DistDefs Dist.DistArith.
Local Open Scope Z_scope.

Lemma Zsum_zero f n : (forall k, 0 <= k < n -> f k = 0) -> Zsum f n = 0.
Proof.
  intros H. rewrite (Zsum_ext f (fun _ => 0) n H). destruct (Z_lt_ge_dec n 0).
  - unfold Zsum. replace (Z.to_nat n) with O by lia. reflexivity.
  - rewrite Zsum_const by lia. lia.
Qed.

Lemma Zsum_sub f g n : Zsum (fun k => f k - g k) n = Zsum f n - Zsum g n.
Proof. unfold Zsum. induction (Z.to_nat n) as [|m IH]; cbn [zsum]; lia. Qed.

Lemma Zsum_fubini h m n : 0 <= m -> 0 <= n ->
  Zsum (fun a => Zsum (fun b => h a b) n) m = Zsum (fun b => Zsum (fun a => h a b) m) n.
Proof.
  intros Hm Hn. revert m Hm. apply Zsum_ind.
  - rewrite Zsum_0. symmetry. apply Zsum_zero. intros; apply Zsum_0.
  - intros m Hm IH. rewrite Zsum_succ by lia. rewrite IH. rewrite <- Zsum_add.
    apply Zsum_ext. intros b Hb. rewrite Zsum_succ by lia. reflexivity.
Qed.

(* sum over the ranks of a grid of a function of (row, column) *)
Lemma Zsum_grid2 h P Q : 0 <= P -> 0 < Q ->
  Zsum (fun r => h (r / Q) (r mod Q)) (P * Q) = Zsum (fun a => Zsum (fun b => h a b) Q) P.
Proof.
  intros HP HQ. revert P HP. apply Zsum_ind.
  - reflexivity.
  - intros P HP IH. replace ((P + 1) * Q) with (P * Q + Q) by lia.
    rewrite Zsum_app by nia. rewrite IH. rewrite Zsum_succ by lia. f_equal.
    apply Zsum_ext. intros k Hk.
    rewrite (div_eq (P * Q + k) Q P k) by lia. rewrite (mod_eq (P * Q + k) Q P k) by lia. reflexivity.
Qed.

(* indicator sums *)
Lemma Zsum_lt_ind f n c : 0 <= c <= n -> Zsum (fun k => b2z (k <? c) * f k) n = Zsum f c.
Proof.
  intros Hc. replace n with (c + (n - c)) by lia. rewrite Zsum_app by lia.
  rewrite (Zsum_ext (fun k => b2z (k <? c) * f k) f c).
  2:{ intros k Hk. destruct (k <? c) eqn:E; cbn [b2z]; lia. }
  rewrite (Zsum_zero (fun k => b2z (c + k <? c) * f (c + k))); [lia|].
  intros k Hk. destruct (c + k <? c) eqn:E; cbn [b2z]; lia.
Qed.
Lemma Zsum_ge_ind f n c : 0 <= c <= n -> Zsum (fun k => b2z (c <=? k) * f k) n = Zsum f n - Zsum f c.
Proof.
  intros Hc. rewrite <- (Zsum_lt_ind f n c Hc). rewrite <- Zsum_sub. apply Zsum_ext.
  intros k Hk. destruct (c <=? k) eqn:E1, (k <? c) eqn:E2; cbn [b2z]; lia.
Qed.
Lemma Zsum_one n : 0 <= n -> Zsum (fun _ => 1) n = n.
Proof. intros. rewrite Zsum_const by lia. lia. Qed.

(* ---- residues ---- *)
(* cnt_below np rk x = number of y in [0, x) with y mod np = rk *)
Lemma cnt_below_0 np rk : 0 <= rk -> cnt_below np rk 0 = 0.
Proof. intros. unfold cnt_below. rewrite Zdiv_0_l, Zmod_0_l. destruct (0 >? rk) eqn:E; lia. Qed.

Lemma cnt_below_succ np rk x : 0 < np -> 0 <= rk < np -> 0 <= x ->
  cnt_below np rk (x + 1) = cnt_below np rk x + b2z (x mod np =? rk).
Proof.
  intros Hn Hr Hx. unfold cnt_below. pose proof (divmod_spec x np Hn) as [H1 H2].
  set (q := x / np) in *. set (s := x mod np) in *.
  destruct (Z_lt_ge_dec (s + 1) np) as [L|G].
  - rewrite (div_eq (x + 1) np q (s + 1)) by lia. rewrite (mod_eq (x + 1) np q (s + 1)) by lia.
    destruct (s + 1 >? rk) eqn:E1, (s >? rk) eqn:E2, (s =? rk) eqn:E3; cbn [b2z]; lia.
  - rewrite (div_eq (x + 1) np (q + 1) 0) by lia. rewrite (mod_eq (x + 1) np (q + 1) 0) by lia.
    destruct (0 >? rk) eqn:E1, (s >? rk) eqn:E2, (s =? rk) eqn:E3; cbn [b2z]; lia.
Qed.

Lemma cnt_below_sum np rk x : 0 < np -> 0 <= rk < np -> 0 <= x ->
  cnt_below np rk x = Zsum (fun y => b2z (y mod np =? rk)) x.
Proof.
  intros Hn Hr. revert x. apply Zsum_ind.
  - rewrite Zsum_0. apply cnt_below_0; lia.
  - intros x Hx IH. rewrite Zsum_succ by lia. rewrite cnt_below_succ by lia. lia.
Qed.

Lemma cnt_below_mono np rk x y : 0 < np -> 0 <= rk < np -> 0 <= x <= y ->
  cnt_below np rk x <= cnt_below np rk y.
Proof.
  intros Hn Hr Hxy. replace y with (x + (y - x)) by lia.
  assert (H : forall dlt, 0 <= dlt -> cnt_below np rk x <= cnt_below np rk (x + dlt)).
  { apply Zsum_ind.
    - rewrite Z.add_0_r. lia.
    - intros n Hn0 IH. replace (x + (n + 1)) with (x + n + 1) by lia. rewrite cnt_below_succ by lia.
      destruct ((x + n) mod np =? rk); cbn [b2z]; lia. }
  apply H. lia.
Qed.
Lemma cnt_below_nonneg np rk x : 0 < np -> 0 <= rk < np -> 0 <= x -> 0 <= cnt_below np rk x.
Proof. intros. rewrite <- (cnt_below_0 np rk) by lia. apply cnt_below_mono; lia. Qed.

(* on its own residue class cnt_below is the quotient *)
Lemma cnt_below_own np rk M : 0 < np -> 0 <= rk < np -> M mod np = rk -> cnt_below np rk M = M / np.
Proof. intros Hn Hr Hm. unfold cnt_below. rewrite Hm. destruct (rk >? rk) eqn:E; lia. Qed.

Lemma cnt_below_lt np rk M L : 0 < np -> 0 <= rk < np -> 0 <= M -> 0 <= L -> M mod np = rk ->
  (M < L <-> cnt_below np rk M < cnt_below np rk L).
Proof.
  intros Hn Hr HM HL Hm. split.
  - intros Hlt. pose proof (cnt_below_succ np rk M Hn Hr HM) as H. rewrite Hm in H.
    rewrite Z.eqb_refl in H. cbn [b2z] in H.
    pose proof (cnt_below_mono np rk (M + 1) L Hn Hr ltac:(lia)). lia.
  - intros Hlt. destruct (Z_lt_ge_dec M L) as [|G]; [assumption|].
    pose proof (cnt_below_mono np rk L M Hn Hr ltac:(lia)). lia.
Qed.

(* the member of the class with a given rank *)
Lemma cnt_below_member np rk c : 0 < np -> 0 <= rk < np -> 0 <= c ->
  0 <= c * np + rk /\ (c * np + rk) mod np = rk /\ cnt_below np rk (c * np + rk) = c.
Proof.
  intros Hn Hr Hc. assert (Hm : (c * np + rk) mod np = rk) by (apply (mod_eq _ np c rk); lia).
  split; [nia|]. split; [exact Hm|]. rewrite cnt_below_own by lia. apply (div_eq _ np c rk); lia.
Qed.
Lemma class_member_eq np rk M : 0 < np -> M mod np = rk -> M = (M / np) * np + rk.
Proof. intros Hn Hm. pose proof (divmod_spec M np Hn). lia. Qed.

(* (M - N) / np for M in the class, N <= M : the members of the class in [N, M) *)
Lemma class_diff np rk M N : 0 < np -> 0 <= rk < np -> 0 <= N <= M -> M mod np = rk ->
  (M - N) / np = cnt_below np rk M - cnt_below np rk N.
Proof.
  intros Hn Hr HNM Hm. rewrite (cnt_below_own np rk M) by lia. unfold cnt_below.
  pose proof (divmod_spec M np Hn) as [HM1 HM2]. pose proof (divmod_spec N np Hn) as [HN1 HN2].
  rewrite Hm in *. set (a := M / np) in *. set (b := N / np) in *. set (s := N mod np) in *.
  destruct (s >? rk) eqn:E.
  - apply (div_eq _ np (a - (b + 1)) (np + rk - s)); lia.
  - apply (div_eq _ np (a - (b + 0)) (rk - s)); lia.
Qed.

(* all the classes together *)
Lemma cnt_below_all np x : 0 < np -> 0 <= x -> Zsum (fun rk => cnt_below np rk x) np = x.
Proof.
  intros Hn Hx.
  rewrite (Zsum_ext _ (fun rk => Zsum (fun y => b2z (y mod np =? rk)) x)).
  2:{ intros rk Hrk. apply cnt_below_sum; lia. }
  rewrite Zsum_fubini by lia.
  rewrite (Zsum_ext _ (fun _ => 1)); [apply Zsum_one; lia|].
  intros y Hy. rewrite (Zsum_ext _ (fun rk => b2z (rk =? y mod np))).
  2:{ intros rk _. rewrite Z.eqb_sym. reflexivity. }
  rewrite Zsum_indicator by lia. pose proof (Z.mod_pos_bound y np Hn).
  destruct (0 <=? y mod np) eqn:E1, (y mod np <? np) eqn:E2; cbn; lia.
Qed.

(* a sum along one residue class *)
Lemma Zsum_class g np rk L : 0 < np -> 0 <= rk < np -> 0 <= L ->
  Zsum (fun j => g (rk + j * np)) (cnt_below np rk L) = Zsum (fun N => b2z (N mod np =? rk) * g N) L.
Proof.
  intros Hn Hr. revert L. apply Zsum_ind.
  - rewrite cnt_below_0 by lia. reflexivity.
  - intros L HL IH. rewrite Zsum_succ by lia. rewrite cnt_below_succ by lia.
    destruct (L mod np =? rk) eqn:E; cbn [b2z].
    + rewrite Zsum_succ by (apply cnt_below_nonneg; lia). rewrite IH.
      assert (Hm : L mod np = rk) by lia. rewrite (cnt_below_own np rk L) by lia.
      replace (rk + L / np * np) with L by (pose proof (class_member_eq np rk L Hn Hm); lia). lia.
    + rewrite Z.add_0_r. rewrite IH. lia.
Qed.
