(* Invariant proofs for the distributed dataflow engine (DistEngine.v), for EVERY schedule,
   rank count, placement, activation tree and eager/rendezvous choice. *)
From Coq Require Import ZArith List Bool Arith Lia Permutation.
From PV Require Import Base.Tac PTG.Engine PTG.EngineProofs PTGDist.DistEngine.
Import ListNotations.

Definition b2n (b : bool) : nat := if b then 1 else 0.
Definition cnt {A} (f : A -> bool) (l : list A) : nat := length (filter f l).

Lemma cnt_app {A} (f : A -> bool) l1 l2 : cnt f (l1 ++ l2) = cnt f l1 + cnt f l2.
Proof. unfold cnt. rewrite filter_app, app_length. reflexivity. Qed.
Lemma cnt_cons {A} (f : A -> bool) x l : cnt f (x :: l) = b2n (f x) + cnt f l.
Proof. unfold cnt. cbn [filter]. destruct (f x); reflexivity. Qed.
Lemma cnt_nil {A} (f : A -> bool) : cnt f [] = 0.
Proof. reflexivity. Qed.
Lemma cnt_zero {A} (f : A -> bool) l : (forall x, In x l -> f x = false) -> cnt f l = 0.
Proof.
  intros H. induction l as [|x l IH]; [reflexivity|]. rewrite cnt_cons, H by (left; reflexivity).
  rewrite IH; [reflexivity|]. intros y Hy. apply H. right; assumption.
Qed.
Lemma cnt_pos_in {A} (f : A -> bool) l : 0 < cnt f l -> exists x, In x l /\ f x = true.
Proof.
  induction l as [|x l IH]; [cbn; lia|]. rewrite cnt_cons. destruct (f x) eqn:E.
  - intros _. exists x. split; [left; reflexivity|assumption].
  - cbn [b2n]. intros H. destruct (IH H) as (y & Hy & Hf). exists y. split; [right; assumption|assumption].
Qed.
Lemma cnt_ext {A} (f g : A -> bool) l : (forall x, In x l -> f x = g x) -> cnt f l = cnt g l.
Proof. intros H. unfold cnt. f_equal. apply filter_ext_in. assumption. Qed.
Lemma cnt_map {A B} (h : A -> B) (f : B -> bool) l : cnt f (map h l) = cnt (fun x => f (h x)) l.
Proof. induction l as [|x l IH]; [reflexivity|]. cbn [map]. rewrite !cnt_cons, IH. reflexivity. Qed.
(* exactly one element of a duplicate-free list satisfies a predicate that singles out x *)
Lemma cnt_single {A} (f : A -> bool) l x : NoDup l -> In x l -> f x = true ->
  (forall y, In y l -> f y = true -> y = x) -> cnt f l = 1.
Proof.
  intros Hnd. induction Hnd as [|a l Hna Hnd IH]; intros Hin Hfx Hu; [destruct Hin|].
  rewrite cnt_cons. destruct Hin as [->|Hin].
  - rewrite Hfx. cbn [b2n]. rewrite cnt_zero; [reflexivity|].
    intros y Hy. destruct (f y) eqn:E; [|reflexivity]. exfalso. apply Hna.
    rewrite <- (Hu y (or_intror Hy) E). assumption.
  - destruct (f a) eqn:E.
    + exfalso. apply Hna. rewrite (Hu a (or_introl eq_refl) E). assumption.
    + cbn [b2n]. apply IH; auto. intros y Hy. apply Hu. right; assumption.
Qed.

Lemma cnt_filter {A} (f g : A -> bool) l : cnt f (filter g l) = cnt (fun x => g x && f x) l.
Proof.
  induction l as [|x l IH]; [reflexivity|]. cbn [filter]. rewrite cnt_cons.
  destruct (g x); cbn [andb]; [rewrite cnt_cons, IH; reflexivity|rewrite IH; reflexivity].
Qed.

Lemma cnt_perm {A} (f : A -> bool) l1 l2 : Permutation l1 l2 -> cnt f l1 = cnt f l2.
Proof.
  intros H. induction H as [|x l l' H IH|x y l|l l' l'' H1 IH1 H2 IH2]; [reflexivity| | |congruence].
  - rewrite !cnt_cons, IH. reflexivity.
  - rewrite !cnt_cons. lia.
Qed.

(* lia on the arithmetic facts only: the contexts of the step lemmas hold large local definitions *)
Ltac keep_nat :=
  repeat match goal with
         | H : ?T |- _ => lazymatch T with
                          | @eq nat _ _ => fail
                          | le _ _ => fail
                          | lt _ _ => fail
                          | _ => clear H
                          end
         end.
Ltac flia := keep_nat; lia.

Section DistProofs.
  Variable task : Type.
  Variable teq : forall a b : task, {a = b} + {a <> b}.
  Variable tasks : list task.
  Variable ins outs : task -> list (edge task).
  Variable isctl writes : task -> nat -> bool.
  Variable reads wlist : task -> list nat.
  Variable hashv : task -> nat -> list Z -> Z.
  Variable srcv : task -> nat -> Z.
  Variable nranks : nat.
  Variable rank_of : task -> nat.
  Variable parent : task -> nat -> nat.
  Variable eager : task -> nat -> nat -> bool.

  Local Notation edge := (edge task).
  Local Notation e_flow := (e_flow task).
  Local Notation e_task := (e_task task).
  Local Notation e_oflow := (e_oflow task).
  Local Notation teqb := (teqb task teq).
  Local Notation State := (state task).
  Local Notation packet := (packet task).
  Local Notation stepD := (step task teq tasks ins outs isctl writes reads wlist hashv srcv nranks rank_of parent eager).
  Local Notation initD := (init task teq tasks ins).
  Local Notation runD := (run task teq tasks ins outs isctl writes reads wlist hashv srcv nranks rank_of parent eager).
  Local Notation in_edgeD := (in_edge task ins).
  Local Notation bodyD := (body task isctl writes reads hashv).
  Local Notation invalD := (inval task ins srcv).
  Local Notation needsD := (needs task outs rank_of).
  Local Notation neededD := (needed task outs rank_of).
  Local Notation isdestD := (isdest task outs rank_of).
  Local Notation childrenD := (children task outs nranks rank_of parent).
  Local Notation holdsD := (holds task rank_of).
  Local Notation payloadD := (payload task outs rank_of eager).
  Local Notation actsD := (acts task outs nranks rank_of parent eager).
  Local Notation arriveD := (arrive task teq outs rank_of).
  Local Notation completeD := (complete task outs rank_of).
  Local Notation propagateD := (propagate task outs nranks rank_of parent eager).
  Local Notation remote_outsD := (remote_outs task outs rank_of).
  Local Notation local_outsD := (local_outs task outs rank_of).
  Local Notation release_edgesD := (release_edges task teq).
  Local Notation updE := (upd task teq).
  Local Notation releaseE := (release task teq).

  (* ------------------------------------------------------------------ hypotheses *)
  (* the two views of every edge agree with multiplicity: the successors of p that are x, seen from x *)
  Hypothesis H_perm : forall p x, In p tasks -> In x tasks ->
    Permutation (map (fun e : edge => (e_oflow e, p, e_flow e)) (filter (fun e => teqb (e_task e) x) (outs p)))
                (filter (fun e => teqb (e_task e) p) (ins x)).
  Hypothesis H_succ_in : forall p e, In p tasks -> In e (outs p) -> In (e_task e) tasks.
  Hypothesis H_pred_in : forall t e, In t tasks -> In e (ins t) -> In (e_task e) tasks.
  Variable drank : task -> nat.
  Hypothesis H_drank : forall t e, In t tasks -> In e (ins t) -> drank (e_task e) < drank t.
  (* a data flow has at most one input edge *)
  Hypothesis H_single : forall t e1 e2, In t tasks -> In e1 (ins t) -> In e2 (ins t) ->
    e_flow e1 = e_flow e2 -> isctl t (e_flow e1) = false -> e1 = e2.
  Hypothesis H_reads_data : forall t f, In t tasks -> In f (reads t) -> isctl t f = false.
  Hypothesis H_ranks : forall t, In t tasks -> rank_of t < nranks.
  (* the activation tree of every producer: the parent of a destination is the root or a destination, closer to the root *)
  Variable depth : task -> nat -> nat.
  Hypothesis H_tree : forall p d, In p tasks -> isdestD d p = true ->
    (parent p d = rank_of p \/ isdestD (parent p d) p = true) /\ depth p (parent p d) < depth p d.
  (* NO relay-lacks-output (finding F8): the sender of d's activation is the root or consumes what d consumes *)
  Hypothesis H_relay_holds : forall p d k, In p tasks -> isdestD d p = true -> needsD d p k = true ->
    parent p d = rank_of p \/ needsD (parent p d) p k = true.
  (* the sequential reference: any solution of the dataflow equations (PTGDistProofs builds seq_exec) *)
  Variable refin refout : task -> nat -> Z.
  Hypothesis H_refin : forall t f, refin t f = match in_edgeD t f with
                                                | Some e => refout (e_task e) (e_oflow e)
                                                | None => srcv t f end.
  Hypothesis H_refout : forall t k, In t tasks -> refout t k = bodyD t k (refin t).

  (* ------------------------------------------------------------------ small facts *)
  Lemma teqb_true a b : teqb a b = true <-> a = b.
  Proof. unfold DistEngine.teqb. destruct (teq a b); split; congruence. Qed.
  Lemma teqb_refl a : teqb a a = true.
  Proof. apply teqb_true. reflexivity. Qed.
  Lemma teqb_false a b : teqb a b = false <-> a <> b.
  Proof. unfold DistEngine.teqb. destruct (teq a b); split; congruence. Qed.

  Lemma updS_same m t f v : updS task teq m t f v t f = v.
  Proof. unfold updS. destruct (teq t t); [|congruence]. rewrite Nat.eqb_refl. reflexivity. Qed.
  Lemma updS_other m t f v t' f' : (t', f') <> (t, f) -> updS task teq m t f v t' f' = m t' f'.
  Proof.
    intros H. unfold updS. destruct (teq t' t) as [->|]; [|reflexivity].
    destruct (Nat.eqb f' f) eqn:E; [|reflexivity]. apply Nat.eqb_eq in E. subst. congruence.
  Qed.
  Lemma updG_same m d p k v : updG task teq m d p k v d p k = v.
  Proof. unfold updG. rewrite !Nat.eqb_refl. destruct (teq p p); congruence. Qed.
  Lemma updG_other m d p k v d' p' k' : (d', p', k') <> (d, p, k) -> updG task teq m d p k v d' p' k' = m d' p' k'.
  Proof.
    intros H. unfold updG. destruct (Nat.eqb d' d) eqn:E1; [|reflexivity]. apply Nat.eqb_eq in E1.
    destruct (teq p' p) as [->|]; [|reflexivity]. destruct (Nat.eqb k' k) eqn:E2; [|reflexivity].
    apply Nat.eqb_eq in E2. subst. congruence.
  Qed.
  Lemma updA_same m d p v : updA task teq m d p v d p = v.
  Proof. unfold updA. rewrite Nat.eqb_refl. destruct (teq p p); congruence. Qed.
  Lemma updA_other m d p v d' p' : (d', p') <> (d, p) -> updA task teq m d p v d' p' = m d' p'.
  Proof.
    intros H. unfold updA. destruct (Nat.eqb d' d) eqn:E1; [|reflexivity]. apply Nat.eqb_eq in E1.
    destruct (teq p' p) as [->|]; [|reflexivity]. subst. congruence.
  Qed.

  (* ---- the two views of an edge *)
  Lemma in_out p x f k : In p tasks -> In x tasks -> In (f, p, k) (ins x) -> In (k, x, f) (outs p).
  Proof.
    intros Hp Hx Hin.
    assert (H : In (f, p, k) (filter (fun e => teqb (e_task e) p) (ins x))).
    { apply filter_In. split; [assumption|]. apply teqb_refl. }
    apply (Permutation_in _ (Permutation_sym (H_perm p x Hp Hx))) in H.
    apply in_map_iff in H. destruct H as ([[k' x'] f'] & Heq & Hin').
    apply filter_In in Hin'. destruct Hin' as [Hin' Hx']. apply teqb_true in Hx'.
    unfold DistEngine.e_oflow, DistEngine.e_flow, DistEngine.e_task in *. cbn [fst snd] in *.
    inversion Heq; subst. assumption.
  Qed.
  Lemma out_in p x f k : In p tasks -> In x tasks -> In (k, x, f) (outs p) -> In (f, p, k) (ins x).
  Proof.
    intros Hp Hx Hin.
    assert (H : In (f, p, k) (map (fun e : edge => (e_oflow e, p, e_flow e)) (filter (fun e => teqb (e_task e) x) (outs p)))).
    { apply in_map_iff. exists (k, x, f). split; [reflexivity|]. apply filter_In. split; [assumption|apply teqb_refl]. }
    apply (Permutation_in _ (H_perm p x Hp Hx)) in H. apply filter_In in H. apply H.
  Qed.
  (* for any selection phi of the producer's flows: as many edges p -> x seen from p as seen from x *)
  Lemma edge_count p x (phi : nat -> bool) : In p tasks -> In x tasks ->
    cnt (fun e : edge => teqb (e_task e) p && phi (e_oflow e)) (ins x)
    = cnt (fun e : edge => teqb (e_task e) x && phi (e_flow e)) (outs p).
  Proof.
    intros Hp Hx. pose proof (H_perm p x Hp Hx) as HP.
    assert (H1 : cnt (fun e : edge => teqb (e_task e) p && phi (e_oflow e)) (ins x)
                 = cnt (fun e : edge => phi (e_oflow e)) (filter (fun e => teqb (e_task e) p) (ins x))).
    { unfold cnt. clear. induction (ins x) as [|a l IH]; [reflexivity|]. cbn [filter].
      destruct (teqb (e_task a) p); cbn [andb filter]; [destruct (phi (e_oflow a)); cbn [length]; congruence|exact IH]. }
    assert (H2 : cnt (fun e : edge => teqb (e_task e) x && phi (e_flow e)) (outs p)
                 = cnt (fun e : edge => phi (e_flow e)) (filter (fun e => teqb (e_task e) x) (outs p))).
    { unfold cnt. clear. induction (outs p) as [|a l IH]; [reflexivity|]. cbn [filter].
      destruct (teqb (e_task a) x); cbn [andb filter]; [destruct (phi (e_flow a)); cbn [length]; congruence|exact IH]. }
    rewrite H1, H2. rewrite <- (cnt_perm _ _ _ HP).
    rewrite cnt_map. apply cnt_ext. intros e _. reflexivity.
  Qed.

  (* ------------------------------------------------------------------ release_edges *)
  Lemma release_edges_cons a es v stm slm :
    release_edgesD (a :: es) v stm slm
    = release_edgesD es v (releaseE stm (e_task a)) (updS task teq slm (e_task a) (e_oflow a) (Some (v (e_flow a)))).
  Proof. reflexivity. Qed.

  Lemma release_edges_st es v : forall stm slm,
    fst (release_edgesD es v stm slm) = fold_left releaseE (map e_task es) stm.
  Proof.
    induction es as [|a es IH]; intros stm slm; [reflexivity|].
    rewrite release_edges_cons. cbn [fold_left map]. apply IH.
  Qed.

  Lemma release_edges_slot es v : forall stm slm t f,
    (snd (release_edgesD es v stm slm) t f = slm t f /\ forall e, In e es -> ~ (e_task e = t /\ e_oflow e = f))
    \/ exists e, In e es /\ e_task e = t /\ e_oflow e = f /\ snd (release_edgesD es v stm slm) t f = Some (v (e_flow e)).
  Proof.
    induction es as [|a es IH]; intros stm slm t f.
    - left. split; [reflexivity|]. intros e [].
    - rewrite release_edges_cons.
      destruct (IH (releaseE stm (e_task a)) (updS task teq slm (e_task a) (e_oflow a) (Some (v (e_flow a)))) t f)
        as [[Heq Hno]|(e & He & H1 & H2 & H3)].
      + destruct (teq (e_task a) t) as [Ht|Ht]; [destruct (Nat.eq_dec (e_oflow a) f) as [Hf|Hf]|].
        * right. exists a. split; [left; reflexivity|]. split; [assumption|]. split; [assumption|].
          rewrite Heq, <- Ht, <- Hf. apply updS_same.
        * left. split.
          -- rewrite Heq. apply updS_other. intros H. inversion H. congruence.
          -- intros e [<-|He]; [intros [_ H]; congruence|apply Hno; assumption].
        * left. split.
          -- rewrite Heq. apply updS_other. intros H. inversion H. congruence.
          -- intros e [<-|He]; [intros [H _]; congruence|apply Hno; assumption].
      + right. exists e. split; [right; assumption|]. auto.
  Qed.

  Lemma count_occ_map_cnt {A} (g : A -> task) l x : count_occ teq (map g l) x = cnt (fun e => teqb (g e) x) l.
  Proof.
    induction l as [|a l IH]; [reflexivity|]. cbn [map count_occ]. rewrite cnt_cons, IH.
    unfold DistEngine.teqb. destruct (teq (g a) x); reflexivity.
  Qed.

  (* ------------------------------------------------------------------ status arithmetic *)
  Lemma iter_absent c : Nat.iter c rel1 Absent = Absent.
  Proof. apply iter_rel1_fixed. intros n; discriminate. Qed.
  Lemma rel1_cat s : match rel1 s with Running | Done => 1 | _ => 0 end = match s with Running | Done => 1 | _ => 0 end.
  Proof. destruct s as [|[|[|n]]| | |]; reflexivity. Qed.
  Lemma iter_cat c s : match Nat.iter c rel1 s with Running | Done => 1 | _ => 0 end = match s with Running | Done => 1 | _ => 0 end.
  Proof. induction c as [|c IH]; [reflexivity|]. rewrite iter_S, rel1_cat. exact IH. Qed.
  Lemma iter_cat_done c s : match Nat.iter c rel1 s with Done => 1 | _ => 0 end = match s with Done => 1 | _ => 0 end.
  Proof.
    pose proof (isdone_iter c s) as H. unfold isdone in H.
    destruct (Nat.iter c rel1 s), s; try reflexivity; discriminate.
  Qed.
  Lemma rel1_present s : s <> Absent -> rel1 s <> Absent.
  Proof. destruct s as [|[|[|n]]| | |]; cbn; congruence. Qed.
  Lemma iter_present c s : s <> Absent -> Nat.iter c rel1 s <> Absent.
  Proof. intros H. induction c as [|c IH]; [assumption|]. rewrite iter_S. apply rel1_present. assumption. Qed.

  Lemma count_step (s0 : status) P P' c :
    match s0 with Waiting n => n = P | _ => P = 0 end -> P = P' + c ->
    match Nat.iter c rel1 s0 with Waiting n => n = P' | _ => P' = 0 end.
  Proof.
    intros H0 HP. destruct c as [|c].
    - change (Nat.iter 0 rel1 s0) with s0. destruct s0; lia.
    - destruct s0 as [|n| | |]; try lia. subst n.
      rewrite iter_rel1_waiting by lia.
      destruct (Nat.eqb P (S c)) eqn:E; [apply Nat.eqb_eq in E|apply Nat.eqb_neq in E]; lia.
  Qed.

  (* ------------------------------------------------------------------ pending inputs *)
  (* input edge e of x has been released to x: a local producer is done, a remote one's datum has arrived *)
  Definition delivered (s : State) (x : task) (e : edge) : bool :=
    if Nat.eqb (rank_of (e_task e)) (rank_of x) then isdone (st task s (e_task e))
    else isSome (got task s (rank_of x) (e_task e) (e_oflow e)).
  Definition pending (s : State) (x : task) : nat := cnt (fun e => negb (delivered s x e)) (ins x).

  Lemma pending_split (s s' : State) x (hit : edge -> bool) :
    (forall e, In e (ins x) -> hit e = true -> delivered s x e = false /\ delivered s' x e = true) ->
    (forall e, In e (ins x) -> hit e = false -> delivered s' x e = delivered s x e) ->
    pending s x = pending s' x + cnt hit (ins x).
  Proof.
    unfold pending. induction (ins x) as [|a l IH]; intros H1 H2; [reflexivity|].
    rewrite !cnt_cons. rewrite IH; [|intros e He; apply H1; right; assumption|intros e He; apply H2; right; assumption].
    destruct (hit a) eqn:E.
    - destruct (H1 a (or_introl eq_refl) E) as [Ha Hb]. rewrite Ha, Hb. cbn. lia.
    - rewrite (H2 a (or_introl eq_refl) E). cbn [b2n]. lia.
  Qed.

  Lemma pending_zero (s : State) x e : pending s x = 0 -> In e (ins x) -> delivered s x e = true.
  Proof.
    unfold pending. intros H Hin. destruct (delivered s x e) eqn:E; [reflexivity|]. exfalso.
    assert (Hp : 0 < cnt (fun e => negb (delivered s x e)) (ins x)).
    { clear H. induction (ins x) as [|a l IH]; [destruct Hin|]. rewrite cnt_cons.
      destruct Hin as [->|Hin]; [rewrite E; cbn; lia|specialize (IH Hin); lia]. }
    lia.
  Qed.

  Local Notation beginsD := (begins task).
  Local Notation endsD := (ends task).

  Record Inv1 (s : State) : Prop := {
    i_absent : forall t, ~ In t tasks -> st task s t = Absent;
    i_present : forall t, In t tasks -> st task s t <> Absent;
    i_count : forall t, In t tasks -> match st task s t with Waiting n => n = pending s t | _ => pending s t = 0 end;
    i_slot : forall t e, In t tasks -> In e (ins t) -> delivered s t e = true -> isctl t (e_flow e) = false ->
                         slot task s t (e_flow e) = Some (refout (e_task e) (e_oflow e));
    i_outv : forall p k, In p tasks -> isdone (st task s p) = true -> outv task s p k = Some (refout p k);
    i_got : forall d p k v, got task s d p k = Some v ->
                            v = refout p k /\ In p tasks /\ needsD d p k = true /\ d <> rank_of p;
    i_begins : forall t, count_occ teq (beginsD (log task s)) t = match st task s t with Running | Done => 1 | _ => 0 end;
    i_ends : forall t, count_occ teq (endsD (log task s)) t = match st task s t with Done => 1 | _ => 0 end;
    i_logb : forall t r vs, In (LBegin t r vs) (log task s) -> In t tasks /\ r = rank_of t /\ vs = map (refin t) (reads t);
    i_loge : forall t r ovs, In (LEnd t r ovs) (log task s) ->
                             In t tasks /\ r = rank_of t /\ ovs = map (fun k => (k, refout t k)) (wlist t)
  }.

  Lemma Inv1_ext (s s' : State) :
    st task s' = st task s -> slot task s' = slot task s -> outv task s' = outv task s ->
    got task s' = got task s -> log task s' = log task s -> Inv1 s -> Inv1 s'.
  Proof.
    destruct s as [a1 a2 a3 a4 a5 a6 a7 a8], s' as [b1 b2 b3 b4 b5 b6 b7 b8].
    cbn [st slot outv got log]. intros -> -> -> -> -> I.
    destruct I as [I1 I2 I3 I4 I5 I6 I7 I8 I9 I10]. split; assumption.
  Qed.

  Lemma Inv1_init : Inv1 initD.
  Proof.
    split; cbn [init st slot outv got log]; intros.
    - destruct (in_dec teq t tasks); [contradiction|reflexivity].
    - destruct (in_dec teq t tasks); [discriminate|contradiction].
    - destruct (in_dec teq t tasks); [|contradiction].
      unfold pending, cnt. rewrite <- (filter_ext_in (fun _ => true)).
      + clear. induction (ins t) as [|a l IH]; cbn; congruence.
      + intros e _. unfold delivered. cbn [init st got].
        destruct (Nat.eqb (rank_of (e_task e)) (rank_of t)); [|reflexivity].
        destruct (in_dec teq (e_task e) tasks); reflexivity.
    - exfalso. unfold delivered in H1. cbn [init st got] in H1.
      destruct (Nat.eqb (rank_of (e_task e)) (rank_of t)); [|discriminate].
      destruct (in_dec teq (e_task e) tasks); discriminate.
    - exfalso. destruct (in_dec teq p tasks); discriminate.
    - discriminate.
    - cbn. destruct (in_dec teq t tasks); reflexivity.
    - cbn. destruct (in_dec teq t tasks); reflexivity.
    - destruct H.
    - destruct H.
  Qed.

  Lemma in_edge_some t f e : in_edgeD t f = Some e -> In e (ins t) /\ e_flow e = f.
  Proof.
    unfold in_edge. intros H. apply find_some in H. destruct H as [H1 H2]. apply Nat.eqb_eq in H2. auto.
  Qed.

  (* once every input edge has been released the slots hold the reference inputs *)
  Lemma inval_ref (s : State) t f : Inv1 s -> In t tasks -> pending s t = 0 -> isctl t f = false ->
    invalD s t f = refin t f.
  Proof.
    intros I Ht Hp Hc. unfold inval. rewrite H_refin. destruct (in_edgeD t f) as [e|] eqn:E; [|reflexivity].
    destruct (in_edge_some t f e E) as [Hin Hf]. subst f.
    rewrite (i_slot s I t e Ht Hin (pending_zero s t e Hp Hin) Hc). reflexivity.
  Qed.

  Lemma body_ext t k g g' : (forall f, isctl t f = false -> g f = g' f) -> In t tasks -> bodyD t k g = bodyD t k g'.
  Proof.
    intros H Ht. unfold body. destruct (isctl t k) eqn:Ec; [reflexivity|].
    destruct (writes t k); [|apply H; assumption]. f_equal. apply map_ext_in. intros f Hf.
    apply H. apply (H_reads_data t f Ht Hf).
  Qed.

  Lemma fold_release_iter l f x : fold_left releaseE l f x = Nat.iter (count_occ teq l x) rel1 (f x).
  Proof. apply fold_release. Qed.

  (* ------------------------------------------------------------------ Inv1 is kept by an arrival *)
  Lemma remote_outs_in d p k e : In e (remote_outsD d p k) <-> In e (outs p) /\ e_flow e = k /\ rank_of (e_task e) = d.
  Proof.
    unfold remote_outs. rewrite filter_In, andb_true_iff, !Nat.eqb_eq. tauto.
  Qed.

  Lemma needs_iff d p k : needsD d p k = true <-> exists e, In e (outs p) /\ e_flow e = k /\ rank_of (e_task e) = d.
  Proof.
    unfold needs. rewrite existsb_exists. split; intros (e & H1 & H2); exists e.
    - apply andb_true_iff in H2. rewrite !Nat.eqb_eq in H2. tauto.
    - split; [tauto|]. apply andb_true_iff. rewrite !Nat.eqb_eq. tauto.
  Qed.

  Lemma arrive_st d p k v (s : State) x :
    st task (arriveD d p k v s) x = Nat.iter (count_occ teq (map e_task (remote_outsD d p k)) x) rel1 (st task s x).
  Proof. unfold arrive. cbn [st]. rewrite release_edges_st. apply fold_release_iter. Qed.

  Lemma arrive_isdone d p k v (s : State) x : isdone (st task (arriveD d p k v s) x) = isdone (st task s x).
  Proof. rewrite arrive_st. apply isdone_iter. Qed.

  Lemma Inv1_arrive d p k v (s : State) :
    Inv1 s -> In p tasks -> d <> rank_of p -> needsD d p k = true -> got task s d p k = None -> v = refout p k ->
    Inv1 (arriveD d p k v s).
  Proof.
    intros I Hp Hd Hn Hg Hv.
    set (s' := arriveD d p k v s).
    assert (Hgot : forall d' p' k', got task s' d' p' k' = updG task teq (got task s) d p k (Some v) d' p' k') by reflexivity.
    assert (Htgt : forall x, rank_of x <> d -> count_occ teq (map e_task (remote_outsD d p k)) x = 0).
    { intros x Hx. rewrite count_occ_map_cnt. apply cnt_zero. intros e He. apply remote_outs_in in He.
      apply teqb_false. intros Heq. rewrite Heq in He. tauto. }
    (* the delivered predicate changes exactly on the edges (p, k) of the tasks of rank d *)
    set (hit := fun x (e : edge) => Nat.eqb (rank_of x) d && (teqb (e_task e) p && Nat.eqb (e_oflow e) k)).
    assert (Hhit : forall x e, hit x e = true -> delivered s x e = false /\ delivered s' x e = true).
    { intros x e H. unfold hit in H. apply andb_true_iff in H. destruct H as [H1 H2].
      apply andb_true_iff in H2. destruct H2 as [H2 H3]. apply Nat.eqb_eq in H1, H3. apply teqb_true in H2.
      unfold delivered. rewrite H2, H1, H3.
      destruct (Nat.eqb (rank_of p) d) eqn:E; [apply Nat.eqb_eq in E; congruence|].
      rewrite Hg, Hgot, updG_same. split; reflexivity. }
    assert (Hnohit : forall x e, hit x e = false -> delivered s' x e = delivered s x e).
    { intros x e H. unfold delivered. destruct (Nat.eqb (rank_of (e_task e)) (rank_of x)).
      - apply arrive_isdone.
      - rewrite Hgot, updG_other; [reflexivity|]. intros Heq. inversion Heq. unfold hit in H.
        rewrite H1, H2, H3, Nat.eqb_refl, teqb_refl, Nat.eqb_refl in H. discriminate. }
    assert (Hcnt : forall x, In x tasks -> cnt (hit x) (ins x) = count_occ teq (map e_task (remote_outsD d p k)) x).
    { intros x Hx. unfold hit. destruct (Nat.eqb (rank_of x) d) eqn:E.
      - apply Nat.eqb_eq in E. cbn [andb].
        rewrite (edge_count p x (fun j => Nat.eqb j k) Hp Hx), count_occ_map_cnt.
        unfold remote_outs. rewrite cnt_filter. apply cnt_ext. intros e _.
        destruct (teqb (e_task e) x) eqn:Et; [apply teqb_true in Et; rewrite Et, E, Nat.eqb_refl|];
          destruct (Nat.eqb (e_flow e) k); cbn; try reflexivity.
        destruct (Nat.eqb (rank_of (e_task e)) d); reflexivity.
      - apply Nat.eqb_neq in E. rewrite (Htgt x E). apply cnt_zero. reflexivity. }
    split.
    - intros t Ht. unfold s'. rewrite arrive_st, (i_absent s I t Ht). apply iter_absent.
    - intros t Ht. unfold s'. rewrite arrive_st. apply iter_present. apply (i_present s I t Ht).
    - intros t Ht. unfold s'. rewrite arrive_st. apply (count_step _ (pending s t)); [apply (i_count s I t Ht)|].
      rewrite <- (Hcnt t Ht). apply pending_split; intros e _ H; [apply Hhit|apply Hnohit]; assumption.
    - intros t e Ht He Hdel Hc.
      destruct (release_edges_slot (remote_outsD d p k) (fun _ => v) (st task s) (slot task s) t (e_flow e))
        as [[Heq Hno]|(e' & He' & H1 & H2 & H3)].
      + change (slot task s' t (e_flow e)) with (snd (release_edgesD (remote_outsD d p k) (fun _ => v) (st task s) (slot task s)) t (e_flow e)).
        rewrite Heq. apply (i_slot s I t e Ht He); [|assumption].
        destruct (hit t e) eqn:Eh; [|rewrite <- (Hnohit t e Eh); assumption].
        exfalso. unfold hit in Eh. apply andb_true_iff in Eh. destruct Eh as [E1 E2].
        apply andb_true_iff in E2. destruct E2 as [E2 E3]. apply Nat.eqb_eq in E1, E3. apply teqb_true in E2.
        destruct e as [[f q] j]. unfold DistEngine.e_task, DistEngine.e_oflow, DistEngine.e_flow in *. cbn [fst snd] in *. subst q j.
        apply (Hno (k, t, f)); [|split; reflexivity].
        apply remote_outs_in. split; [apply in_out; assumption|split; [reflexivity|exact E1]].
      + change (slot task s' t (e_flow e)) with (snd (release_edgesD (remote_outsD d p k) (fun _ => v) (st task s) (slot task s)) t (e_flow e)).
        rewrite H3. apply remote_outs_in in He'. destruct He' as (Ho & Hf & Hr).
        destruct e' as [[k' t'] f']. unfold DistEngine.e_task, DistEngine.e_oflow, DistEngine.e_flow in H1, H2, Hf. cbn [fst snd] in H1, H2, Hf. subst t' f' k'.
        pose proof (out_in p t (e_flow e) k Hp Ht Ho) as Hi.
        assert (Heq : (e_flow e, p, k) = e) by (apply (H_single t _ e Ht Hi He); [reflexivity|exact Hc]).
        rewrite <- Heq. unfold DistEngine.e_task, DistEngine.e_oflow. cbn [fst snd]. rewrite Hv. reflexivity.
    - intros q j Hq Hdn. change (outv task s' q j) with (outv task s q j). apply (i_outv s I q j Hq).
      unfold s' in Hdn. rewrite arrive_isdone in Hdn. exact Hdn.
    - intros d' p' k' v' H. rewrite Hgot in H.
      destruct (Nat.eq_dec d' d) as [->|Hd']; [destruct (teq p' p) as [->|Hp']; [destruct (Nat.eq_dec k' k) as [->|Hk']|]|].
      + rewrite updG_same in H. inversion H; subst. auto.
      + rewrite updG_other in H by (intros Heq; inversion Heq; congruence). apply (i_got s I _ _ _ _ H).
      + rewrite updG_other in H by (intros Heq; inversion Heq; congruence). apply (i_got s I _ _ _ _ H).
      + rewrite updG_other in H by (intros Heq; inversion Heq; congruence). apply (i_got s I _ _ _ _ H).
    - intros t. change (log task s') with (log task s). rewrite (i_begins s I t). unfold s'. rewrite arrive_st, iter_cat. reflexivity.
    - intros t. change (log task s') with (log task s). rewrite (i_ends s I t). unfold s'. rewrite arrive_st, iter_cat_done. reflexivity.
    - apply (i_logb s I).
    - apply (i_loge s I).
  Qed.

  (* ------------------------------------------------------------------ Inv1 is kept by Startup and Begin *)
  Lemma delivered_ext (s s' : State) x e :
    (forall q, isdone (st task s' q) = isdone (st task s q)) -> got task s' = got task s ->
    delivered s' x e = delivered s x e.
  Proof. intros H1 H2. unfold delivered. rewrite H1, H2. reflexivity. Qed.

  Lemma pending_ext (s s' : State) x :
    (forall q, isdone (st task s' q) = isdone (st task s q)) -> got task s' = got task s -> pending s' x = pending s x.
  Proof. intros H1 H2. unfold pending. apply cnt_ext. intros e _. rewrite (delivered_ext s s' x e H1 H2). reflexivity. Qed.

  Lemma Inv1_startish (s : State) (g : task -> status) :
    Inv1 s -> (forall x, g x = st task s x \/ (st task s x = Waiting 0 /\ g x = Ready)) ->
    Inv1 {| st := g; slot := slot task s; outv := outv task s; acted := acted task s; got := got task s;
            net := net task s; failed := failed task s; log := log task s |}.
  Proof.
    intros I Hg. set (s' := Build_state task g _ _ _ _ _ _ _).
    assert (Hd : forall q, isdone (st task s' q) = isdone (st task s q)).
    { intros q. cbn [st s']. destruct (Hg q) as [->|[H1 H2]]; [reflexivity|]. rewrite H1, H2. reflexivity. }
    assert (Hp : forall x, pending s' x = pending s x) by (intros x; apply pending_ext; [exact Hd|reflexivity]).
    split; cbn [st slot outv got log s'].
    - intros t Ht. destruct (Hg t) as [->|[H1 _]]; [apply (i_absent s I t Ht)|].
      rewrite (i_absent s I t Ht) in H1. discriminate.
    - intros t Ht. destruct (Hg t) as [->|[_ H2]]; [apply (i_present s I t Ht)|]. rewrite H2; discriminate.
    - intros t Ht. change (pending _ t) with (pending s' t). rewrite Hp. pose proof (i_count s I t Ht) as Hc.
      destruct (Hg t) as [->|[H1 H2]]; [exact Hc|]. rewrite H1 in Hc. rewrite H2. symmetry; exact Hc.
    - intros t e Ht He Hdel Hc. apply (i_slot s I t e Ht He); [|assumption].
      rewrite <- (delivered_ext s s' t e Hd eq_refl). exact Hdel.
    - intros p k Hp' Hdn. apply (i_outv s I p k Hp'). rewrite <- Hd. exact Hdn.
    - apply (i_got s I).
    - intros t. rewrite (i_begins s I t). destruct (Hg t) as [->|[H1 H2]]; [reflexivity|]. rewrite H1, H2. reflexivity.
    - intros t. rewrite (i_ends s I t). destruct (Hg t) as [->|[H1 H2]]; [reflexivity|]. rewrite H1, H2. reflexivity.
    - apply (i_logb s I).
    - apply (i_loge s I).
  Qed.

  Lemma st_in_tasks (s : State) t : Inv1 s -> st task s t <> Absent -> In t tasks.
  Proof.
    intros I H. destruct (in_dec teq t tasks) as [Hi|Hi]; [assumption|]. exfalso. apply H. apply (i_absent s I t Hi).
  Qed.

  Lemma count_begins_cons_b t r vs l x :
    count_occ teq (beginsD (LBegin t r vs :: l)) x = (if teq t x then 1 else 0) + count_occ teq (beginsD l) x.
  Proof. cbn [begins flat_map app count_occ]. destruct (teq t x); reflexivity. Qed.
  Lemma count_ends_cons_e t r ovs l x :
    count_occ teq (endsD (LEnd t r ovs :: l)) x = (if teq t x then 1 else 0) + count_occ teq (endsD l) x.
  Proof. cbn [ends flat_map app count_occ]. destruct (teq t x); reflexivity. Qed.

  Lemma Inv1_begin (s : State) t : Inv1 s -> st task s t = Ready ->
    Inv1 {| st := updE (st task s) t Running; slot := slot task s; outv := outv task s; acted := acted task s;
            got := got task s; net := net task s; failed := failed task s;
            log := LBegin t (rank_of t) (map (invalD s t) (reads t)) :: log task s |}.
  Proof.
    intros I Et. set (s' := Build_state task _ _ _ _ _ _ _ _).
    assert (Htin : In t tasks) by (apply (st_in_tasks s t I); rewrite Et; discriminate).
    assert (Hd : forall q, isdone (st task s' q) = isdone (st task s q)).
    { intros q. cbn [st s']. destruct (teq q t) as [->|Hne]; [rewrite upd_same, Et; reflexivity|rewrite upd_other by assumption; reflexivity]. }
    assert (Hp : forall x, pending s' x = pending s x) by (intros x; apply pending_ext; [exact Hd|reflexivity]).
    split; cbn [st slot outv got log s'].
    - intros x Hx. rewrite upd_other; [apply (i_absent s I x Hx)|]. intros ->. contradiction.
    - intros x Hx. destruct (teq x t) as [->|Hne]; [rewrite upd_same; discriminate|].
      rewrite upd_other by assumption. apply (i_present s I x Hx).
    - intros x Hx. change (pending _ x) with (pending s' x). rewrite Hp. pose proof (i_count s I x Hx) as Hc.
      destruct (teq x t) as [->|Hne]; [rewrite upd_same; rewrite Et in Hc; exact Hc|].
      rewrite upd_other by assumption. exact Hc.
    - intros x e Hx He Hdel Hc. apply (i_slot s I x e Hx He); [|assumption].
      rewrite <- (delivered_ext s s' x e Hd eq_refl). exact Hdel.
    - intros p k Hp' Hdn. apply (i_outv s I p k Hp'). rewrite <- Hd. exact Hdn.
    - apply (i_got s I).
    - intros x. rewrite count_begins_cons_b, (i_begins s I x).
      destruct (teq t x) as [<-|Hne]; [rewrite upd_same, Et; reflexivity|].
      rewrite upd_other by congruence. reflexivity.
    - intros x. change (endsD (LBegin t (rank_of t) (map (invalD s t) (reads t)) :: log task s)) with (endsD (log task s)).
      rewrite (i_ends s I x).
      destruct (teq x t) as [->|Hne]; [rewrite upd_same, Et; reflexivity|].
      rewrite upd_other by assumption. reflexivity.
    - intros x r vs [H|H]; [|apply (i_logb s I x r vs H)]. inversion H; subst x r vs.
      split; [assumption|]. split; [reflexivity|]. apply map_ext_in. intros f Hf.
      apply inval_ref; [assumption|assumption| |apply (H_reads_data t f Htin Hf)].
      pose proof (i_count s I t Htin) as Hc. rewrite Et in Hc. exact Hc.
    - intros x r ovs [H|H]; [discriminate|apply (i_loge s I x r ovs H)].
  Qed.

  (* ------------------------------------------------------------------ Inv1 is kept by End *)
  Lemma local_outs_in t e : In e (local_outsD t) <-> In e (outs t) /\ rank_of (e_task e) = rank_of t.
  Proof. unfold local_outs. rewrite filter_In, Nat.eqb_eq. tauto. Qed.

  Lemma ov_ref (s : State) t k : Inv1 s -> In t tasks -> pending s t = 0 -> bodyD t k (invalD s t) = refout t k.
  Proof.
    intros I Ht Hp. rewrite (H_refout t k Ht). apply body_ext; [|assumption].
    intros f Hf. apply inval_ref; assumption.
  Qed.

  Lemma Inv1_end (s : State) t : Inv1 s -> st task s t = Running ->
    let ov := fun k => bodyD t k (invalD s t) in
    let r := release_edgesD (local_outsD t) ov (updE (st task s) t Done) (slot task s) in
    Inv1 {| st := fst r; slot := snd r; outv := updO task teq (outv task s) t (fun k => Some (ov k));
            acted := acted task s; got := got task s; net := net task s; failed := failed task s;
            log := LEnd t (rank_of t) (map (fun k => (k, ov k)) (wlist t)) :: log task s |}.
  Proof.
    intros I Et ov r. set (s' := Build_state task _ _ _ _ _ _ _ _).
    assert (Htin : In t tasks) by (apply (st_in_tasks s t I); rewrite Et; discriminate).
    assert (Hpt : pending s t = 0) by (pose proof (i_count s I t Htin) as Hc; rewrite Et in Hc; exact Hc).
    assert (Hov : forall k, ov k = refout t k) by (intros k; apply ov_ref; assumption).
    assert (Hst : forall x, st task s' x = Nat.iter (count_occ teq (map e_task (local_outsD t)) x) rel1 (updE (st task s) t Done x)).
    { intros x. cbn [st s']. unfold r. rewrite release_edges_st. apply fold_release_iter. }
    assert (Hstt : st task s' t = Done).
    { rewrite Hst, upd_same. apply iter_rel1_fixed. intros n; discriminate. }
    assert (Hdn : forall q, q <> t -> isdone (st task s' q) = isdone (st task s q)).
    { intros q Hq. rewrite Hst, isdone_iter, upd_other by assumption. reflexivity. }
    set (hit := fun x (e : edge) => teqb (e_task e) t && Nat.eqb (rank_of x) (rank_of t)).
    assert (Hhit : forall x e, hit x e = true -> delivered s x e = false /\ delivered s' x e = true).
    { intros x e H. unfold hit in H. apply andb_true_iff in H. destruct H as [H1 H2].
      apply teqb_true in H1. apply Nat.eqb_eq in H2. unfold delivered. rewrite H1, H2, Nat.eqb_refl, Et, Hstt. split; reflexivity. }
    assert (Hnohit : forall x e, hit x e = false -> delivered s' x e = delivered s x e).
    { intros x e H. unfold delivered. destruct (Nat.eqb (rank_of (e_task e)) (rank_of x)) eqn:E; [|reflexivity].
      apply Hdn. intros Heq. unfold hit in H. rewrite Heq, teqb_refl in H. rewrite Heq in E.
      rewrite Nat.eqb_sym, E in H. discriminate. }
    assert (Hcnt : forall x, In x tasks -> cnt (hit x) (ins x) = count_occ teq (map e_task (local_outsD t)) x).
    { intros x Hx. unfold hit. rewrite count_occ_map_cnt. unfold local_outs. rewrite cnt_filter.
      destruct (Nat.eqb (rank_of x) (rank_of t)) eqn:E.
      - apply Nat.eqb_eq in E.
        etransitivity; [exact (edge_count t x (fun _ => true) Htin Hx)|]. apply cnt_ext. intros e _. cbv beta.
        destruct (teqb (e_task e) x) eqn:Et'; [apply teqb_true in Et'; rewrite Et', E, Nat.eqb_refl; reflexivity|].
        rewrite andb_false_r. reflexivity.
      - apply Nat.eqb_neq in E. rewrite (cnt_zero (fun e : edge => teqb (e_task e) t && false)) by (intros; apply andb_false_r).
        symmetry. apply cnt_zero. intros e _.
        destruct (Nat.eqb (rank_of (e_task e)) (rank_of t)) eqn:E2; [|reflexivity]. apply Nat.eqb_eq in E2. cbn [andb].
        apply teqb_false. intros Heq. rewrite Heq in E2. congruence. }
    split.
    - intros x Hx. rewrite Hst, upd_other by (intros ->; contradiction). rewrite (i_absent s I x Hx). apply iter_absent.
    - intros x Hx. rewrite Hst. apply iter_present. destruct (teq x t) as [->|Hne]; [rewrite upd_same; discriminate|].
      rewrite upd_other by assumption. apply (i_present s I x Hx).
    - intros x Hx. rewrite Hst. apply (count_step _ (pending s x)).
      + destruct (teq x t) as [->|Hne]; [rewrite upd_same; exact Hpt|]. rewrite upd_other by assumption. apply (i_count s I x Hx).
      + rewrite <- (Hcnt x Hx). apply pending_split; intros e _ H; [apply Hhit|apply Hnohit]; assumption.
    - intros x e Hx He Hdel Hc.
      destruct (release_edges_slot (local_outsD t) ov (updE (st task s) t Done) (slot task s) x (e_flow e))
        as [[Heq Hno]|(e' & He' & H1 & H2 & H3)].
      + change (slot task s' x (e_flow e)) with (snd r x (e_flow e)). unfold r. rewrite Heq.
        apply (i_slot s I x e Hx He); [|assumption].
        destruct (hit x e) eqn:Eh; [|rewrite <- (Hnohit x e Eh); assumption].
        exfalso. unfold hit in Eh. apply andb_true_iff in Eh. destruct Eh as [E1 E2].
        apply teqb_true in E1. apply Nat.eqb_eq in E2.
        destruct e as [[f q] j]. unfold DistEngine.e_task, DistEngine.e_oflow, DistEngine.e_flow in *. cbn [fst snd] in *. subst q.
        apply (Hno (j, x, f)); [|split; reflexivity].
        apply local_outs_in. split; [apply in_out; assumption|exact E2].
      + change (slot task s' x (e_flow e)) with (snd r x (e_flow e)). unfold r. rewrite H3.
        apply local_outs_in in He'. destruct He' as (Ho & Hr).
        destruct e' as [[k' t'] f']. unfold DistEngine.e_task, DistEngine.e_oflow, DistEngine.e_flow in H1, H2 |- *. cbn [fst snd] in H1, H2 |- *. subst t' f'.
        pose proof (out_in t x (fst (fst e)) k' Htin Hx Ho) as Hi.
        assert (Heq : (fst (fst e), t, k') = e) by (apply (H_single x _ e Hx Hi He); [reflexivity|exact Hc]).
        rewrite <- Heq. cbn [fst snd]. rewrite Hov. reflexivity.
    - intros p k Hp Hd. cbn [outv s']. unfold updO. destruct (teq p t) as [->|Hne]; [rewrite Hov; reflexivity|].
      apply (i_outv s I p k Hp). rewrite <- (Hdn p Hne). exact Hd.
    - apply (i_got s I).
    - intros x. change (beginsD (log task s')) with (beginsD (log task s)). rewrite (i_begins s I x), Hst, iter_cat.
      destruct (teq x t) as [->|Hne]; [rewrite upd_same, Et; reflexivity|]. rewrite upd_other by assumption. reflexivity.
    - intros x. cbn [log s']. rewrite count_ends_cons_e, (i_ends s I x), Hst, iter_cat_done.
      destruct (teq t x) as [<-|Hne]; [rewrite upd_same, Et; reflexivity|]. rewrite upd_other by congruence. reflexivity.
    - intros x rr vs [H|H]; [discriminate|apply (i_logb s I x rr vs H)].
    - intros x rr ovs [H|H]; [|apply (i_loge s I x rr ovs H)]. inversion H; subst x rr ovs.
      split; [assumption|]. split; [reflexivity|]. apply map_ext. intros k. rewrite Hov. reflexivity.
  Qed.

  (* ------------------------------------------------------------------ message accounting *)
  Local Notation lookupD := (lookup).
  Definition isAct (p : task) (d : nat) (pk : packet) : bool :=
    Nat.eqb (p_dst task pk) d && match p_body task pk with Act q _ => teqb q p | _ => false end.
  Definition isGet (p : task) (d k : nat) (pk : packet) : bool :=
    Nat.eqb (p_src task pk) d && match p_body task pk with Get q j => teqb q p && Nat.eqb j k | _ => false end.
  Definition isPut (p : task) (d k : nat) (pk : packet) : bool :=
    Nat.eqb (p_dst task pk) d && match p_body task pk with Put q j _ => teqb q p && Nat.eqb j k | _ => false end.

  (* rank n has sent the activation of p to its children: the root when p is done, a relay when everything it consumes has arrived *)
  Definition sent (s : State) (p : task) (n : nat) : bool :=
    if Nat.eqb n (rank_of p) then isdone (st task s p) else acted task s n p && completeD s n p.

  Definition pk_ok (s : State) (pk : packet) : Prop :=
    match p_body task pk with
    | Act p pl => In p tasks /\ isdestD (p_dst task pk) p = true /\ p_src task pk = parent p (p_dst task pk)
                  /\ (forall k v, lookupD k pl = Some v -> v = refout p k)
                  /\ (forall k, needsD (p_dst task pk) p k = true -> holdsD s (p_src task pk) p k = Some (refout p k))
    | Get p k => In p tasks /\ isdestD (p_src task pk) p = true /\ p_dst task pk = parent p (p_src task pk)
                 /\ needsD (p_src task pk) p k = true /\ holdsD s (p_dst task pk) p k = Some (refout p k)
    | Put p k v => In p tasks /\ isdestD (p_dst task pk) p = true /\ needsD (p_dst task pk) p k = true /\ v = refout p k
    end.

  Record Inv2 (s : State) : Prop := {
    j_act : forall p d, In p tasks -> isdestD d p = true ->
              cnt (isAct p d) (net task s) + b2n (acted task s d p) = b2n (sent s p (parent p d));
    j_data : forall p d k, In p tasks -> isdestD d p = true -> needsD d p k = true ->
              cnt (isGet p d k) (net task s) + cnt (isPut p d k) (net task s) + b2n (isSome (got task s d p k))
              = b2n (acted task s d p);
    j_acted : forall d p, acted task s d p = true -> In p tasks /\ isdestD d p = true;
    j_pk : forall pk, In pk (net task s) -> pk_ok s pk;
    j_failed : failed task s = false
  }.
  Definition Inv (s : State) : Prop := Inv1 s /\ Inv2 s.

  Lemma isdest_iff d p : isdestD d p = true <-> d <> rank_of p /\ exists e, In e (outs p) /\ rank_of (e_task e) = d.
  Proof.
    unfold isdest. rewrite andb_true_iff, negb_true_iff, Nat.eqb_neq, existsb_exists.
    split; intros [H1 (e & H2 & H3)]; (split; [assumption|]); exists e; [rewrite Nat.eqb_eq in H3|rewrite Nat.eqb_eq]; auto.
  Qed.
  Lemma needs_isdest d p k : needsD d p k = true -> d <> rank_of p -> isdestD d p = true.
  Proof. intros H Hd. apply needs_iff in H. destruct H as (e & H1 & _ & H3). apply isdest_iff. split; [assumption|]. exists e; auto. Qed.
  Lemma isdest_lt d p : In p tasks -> isdestD d p = true -> d < nranks.
  Proof.
    intros Hp H. apply isdest_iff in H. destruct H as [_ (e & H1 & H2)]. subst d. apply H_ranks. apply (H_succ_in p e Hp H1).
  Qed.
  Lemma isdest_ne d p : isdestD d p = true -> d <> rank_of p.
  Proof. intros H. apply isdest_iff in H. tauto. Qed.
  Lemma parent_ne p d : In p tasks -> isdestD d p = true -> parent p d <> d.
  Proof. intros Hp H. destruct (H_tree p d Hp H) as [_ Hlt]. intros Heq. rewrite Heq in Hlt. lia. Qed.

  Lemma needed_in d p k : In k (neededD d p) <-> needsD d p k = true.
  Proof.
    unfold needed. rewrite filter_In. split; [tauto|]. intros H. split; [|assumption].
    unfold oflows. apply nodup_In. apply needs_iff in H. destruct H as (e & H1 & H2 & _). subst k. apply in_map. assumption.
  Qed.
  Lemma needed_nodup d p : NoDup (neededD d p).
  Proof. unfold needed, oflows. apply NoDup_filter. apply NoDup_nodup. Qed.
  Lemma children_in p n c : In p tasks -> (In c (childrenD p n) <-> isdestD c p = true /\ parent p c = n).
  Proof.
    intros Hp. unfold children. rewrite filter_In, andb_true_iff, Nat.eqb_eq, in_seq. split; [tauto|].
    intros [H1 H2]. split; [|tauto]. pose proof (isdest_lt c p Hp H1). lia.
  Qed.
  Lemma children_nodup p n : NoDup (childrenD p n).
  Proof. unfold children. apply NoDup_filter. apply seq_NoDup. Qed.

  Lemma take_spec a b (l : list packet) pk rest : take task a b l = Some (pk, rest) ->
    In pk l /\ p_src task pk = a /\ p_dst task pk = b /\ (forall f, cnt f l = cnt f rest + b2n (f pk)) /\ (forall x, In x rest -> In x l).
  Proof.
    revert pk rest. induction l as [|x l IH]; intros pk rest H; [discriminate|]. cbn [take] in H.
    destruct (Nat.eqb (p_src task x) a && Nat.eqb (p_dst task x) b) eqn:E.
    - inversion H; subst x rest. apply andb_true_iff in E. rewrite !Nat.eqb_eq in E.
      split; [left; reflexivity|]. split; [tauto|]. split; [tauto|]. split; [intros f; rewrite cnt_cons; lia|].
      intros y Hy. right; assumption.
    - destruct (take task a b l) as [[y r']|]; [|discriminate]. inversion H; subst y rest.
      destruct (IH pk r' eq_refl) as (H1 & H2 & H3 & H4 & H5).
      split; [right; assumption|]. split; [assumption|]. split; [assumption|]. split.
      + intros f. rewrite !cnt_cons, (H4 f). lia.
      + intros y [->|Hy]; [left; reflexivity|right; apply H5; assumption].
  Qed.

  (* ---- counting the packets produced by one step *)
  Lemma cnt_isAct_acts (s : State) n p p' d' : In p tasks ->
    cnt (isAct p' d') (actsD s n p) = if teq p p' then b2n (isdestD d' p && Nat.eqb (parent p d') n) else 0.
  Proof.
    intros Hp. unfold acts. rewrite cnt_map. unfold isAct. cbn [p_dst p_body].
    destruct (teq p p') as [<-|Hne].
    - rewrite (cnt_ext _ (fun c => Nat.eqb c d')) by (intros c _; rewrite teqb_refl; apply andb_true_r).
      destruct (isdestD d' p && Nat.eqb (parent p d') n) eqn:E.
      + apply andb_true_iff in E. destruct E as [E1 E2]. apply Nat.eqb_eq in E2.
        apply (cnt_single _ _ d'); [apply children_nodup|apply children_in; auto|apply Nat.eqb_refl|].
        intros y _ Hy. apply Nat.eqb_eq in Hy. assumption.
      + apply cnt_zero. intros c Hc. apply (children_in p n c Hp) in Hc. destruct Hc as [H1 H2].
        destruct (Nat.eqb c d') eqn:Ec; [|reflexivity]. apply Nat.eqb_eq in Ec. subst c.
        rewrite H1, H2, Nat.eqb_refl in E. discriminate.
    - apply cnt_zero. intros c _. apply andb_false_iff. right. apply teqb_false. assumption.
  Qed.
  Lemma cnt_isGet_acts (s : State) n p p' d' k' : cnt (isGet p' d' k') (actsD s n p) = 0.
  Proof. unfold acts. rewrite cnt_map. apply cnt_zero. intros c _. unfold isGet. cbn [p_body]. apply andb_false_r. Qed.
  Lemma cnt_isPut_acts (s : State) n p p' d' k' : cnt (isPut p' d' k') (actsD s n p) = 0.
  Proof. unfold acts. rewrite cnt_map. apply cnt_zero. intros c _. unfold isPut. cbn [p_body]. apply andb_false_r. Qed.

  Lemma lookup_payload (s : State) n p c k v : lookupD k (payloadD s n p c) = Some v -> holdsD s n p k = Some v.
  Proof.
    unfold payload. induction (neededD c p) as [|a l IH]; [discriminate|].
    cbn [flat_map]. destruct (holdsD s n p a) as [w|] eqn:Eh; [|exact IH].
    unfold lookup. cbn [app find fst]. destruct (Nat.eqb a k) eqn:E.
    - apply Nat.eqb_eq in E. subst a. destruct (eager p c k); [|discriminate]. intros H. inversion H; subst. assumption.
    - exact IH.
  Qed.

  Lemma pk_ok_mono (s s' : State) pk :
    (forall n q j, holdsD s n q j = Some (refout q j) -> holdsD s' n q j = Some (refout q j)) -> pk_ok s pk -> pk_ok s' pk.
  Proof.
    intros H. unfold pk_ok. destruct (p_body task pk) as [p pl|p k|p k v]; [| |tauto].
    - intros (H1 & H2 & H3 & H4 & H5). repeat split; auto.
    - intros (H1 & H2 & H3 & H4 & H5). repeat split; auto.
  Qed.

  Lemma acts_ok (s : State) n p pk : In p tasks -> In pk (actsD s n p) ->
    (forall k v, holdsD s n p k = Some v -> v = refout p k) ->
    (forall c k, isdestD c p = true -> parent p c = n -> needsD c p k = true -> holdsD s n p k = Some (refout p k)) ->
    pk_ok s pk.
  Proof.
    intros Hp Hin Hv Hh. unfold acts in Hin. apply in_map_iff in Hin. destruct Hin as (c & <- & Hc).
    apply (children_in p n c Hp) in Hc. destruct Hc as [H1 H2]. unfold pk_ok. cbn [p_body p_dst p_src].
    split; [assumption|]. split; [assumption|]. split; [congruence|]. split.
    - intros k v Hl. apply (Hv k v). apply (lookup_payload s n p c k v Hl).
    - intros k Hk. apply (Hh c k H1 H2 Hk).
  Qed.

  (* ------------------------------------------------------------------ steps that do not touch the protocol state *)
  Lemma complete_ext (s s' : State) n p : (forall k, got task s' n p k = got task s n p k) -> completeD s' n p = completeD s n p.
  Proof.
    intros H. unfold complete. induction (neededD n p) as [|k l IH]; [reflexivity|].
    cbn [forallb]. rewrite H, IH. reflexivity.
  Qed.

  Lemma Inv2_same (s s' : State) : Inv2 s ->
    net task s' = net task s -> acted task s' = acted task s -> got task s' = got task s -> outv task s' = outv task s ->
    failed task s' = failed task s -> (forall q, isdone (st task s' q) = isdone (st task s q)) -> Inv2 s'.
  Proof.
    intros J Hn Ha Hg Ho Hf Hd.
    assert (Hs : forall p n, sent s' p n = sent s p n).
    { intros p n. unfold sent. rewrite Hd, Ha. rewrite (complete_ext s s' n p) by (intros; rewrite Hg; reflexivity). reflexivity. }
    split.
    - intros p d Hp Hdd. rewrite Hn, Ha, Hs. apply (j_act s J p d Hp Hdd).
    - intros p d k Hp Hdd Hk. rewrite Hn, Ha, Hg. apply (j_data s J p d k Hp Hdd Hk).
    - intros d p. rewrite Ha. apply (j_acted s J).
    - intros pk Hin. rewrite Hn in Hin. apply (pk_ok_mono s s'); [|apply (j_pk s J pk Hin)].
      intros n q j. unfold holds. rewrite Ho, Hg. auto.
    - rewrite Hf. apply (j_failed s J).
  Qed.

  Lemma Inv_startup (s : State) r : Inv s -> Inv (stepD s (Startup r)).
  Proof.
    intros [I J]. cbn [step].
    assert (Hg : forall x, fold_left (start_one task teq) (filter (fun t => Nat.eqb (rank_of t) r) tasks) (st task s) x = st task s x
                           \/ (st task s x = Waiting 0 /\ fold_left (start_one task teq) (filter (fun t => Nat.eqb (rank_of t) r) tasks) (st task s) x = Ready)).
    { intros x. rewrite fold_start. destruct (in_dec teq x _); [|left; reflexivity].
      destruct (st task s x) as [|[|n]| | |]; cbn [start1]; auto. }
    split; [apply Inv1_startish; assumption|].
    apply (Inv2_same s); try reflexivity; [assumption|]. intros q. cbn [st].
    destruct (Hg q) as [->|[H1 H2]]; [reflexivity|]. rewrite H1, H2. reflexivity.
  Qed.

  Lemma Inv_begin (s : State) t : Inv s -> Inv (stepD s (Begin t)).
  Proof.
    intros [I J]. cbn [step]. destruct (st task s t) eqn:Et; try (split; assumption).
    split; [apply Inv1_begin; assumption|].
    apply (Inv2_same s); try reflexivity; [assumption|]. intros q. cbn [st].
    destruct (teq q t) as [->|Hne]; [rewrite upd_same, Et; reflexivity|rewrite upd_other by assumption; reflexivity].
  Qed.

  (* ------------------------------------------------------------------ End *)
  Lemma Inv_end (s : State) t : Inv s -> Inv (stepD s (End t)).
  Proof.
    intros [I J]. cbn [step]. destruct (st task s t) eqn:Et; try (split; assumption).
    pose proof (Inv1_end s t I Et) as I1. cbv zeta in I1.
    set (ov := fun k => bodyD t k (invalD s t)) in *.
    set (r := release_edgesD (local_outsD t) ov (updE (st task s) t Done) (slot task s)) in *.
    set (s1 := Build_state task (fst r) (snd r) _ _ _ _ _ _) in *.
    assert (Htin : In t tasks) by (apply (st_in_tasks s t I); rewrite Et; discriminate).
    assert (Hpt : pending s t = 0) by (pose proof (i_count s I t Htin) as Hc; rewrite Et in Hc; exact Hc).
    assert (Hov : forall k, ov k = refout t k) by (intros k; apply ov_ref; assumption).
    assert (Hst : forall x, st task s1 x = Nat.iter (count_occ teq (map e_task (local_outsD t)) x) rel1 (updE (st task s) t Done x)).
    { intros x. cbn [st s1]. unfold r. rewrite release_edges_st. apply fold_release_iter. }
    assert (Hdt : isdone (st task s1 t) = true) by (rewrite Hst, isdone_iter, upd_same; reflexivity).
    assert (Hdn : forall q, q <> t -> isdone (st task s1 q) = isdone (st task s q)).
    { intros q Hq. rewrite Hst, isdone_iter, upd_other by assumption. reflexivity. }
    assert (Hholds : forall n q j, holdsD s n q j = Some (refout q j) -> holdsD s1 n q j = Some (refout q j)).
    { intros n q j. unfold holds. cbn [outv got s1]. unfold updO. destruct (Nat.eqb n (rank_of q)); [|auto].
      destruct (teq q t) as [->|]; [rewrite Hov; reflexivity|auto]. }
    assert (Hsent : forall p n, sent s1 p n = if Nat.eqb n (rank_of p) then (if teq p t then true else sent s p n) else sent s p n).
    { intros p n. unfold sent. destruct (Nat.eqb n (rank_of p)); [|reflexivity].
      destruct (teq p t) as [->|Hne]; [exact Hdt|apply Hdn; assumption]. }
    split; [apply (Inv1_ext s1); try reflexivity; exact I1|].
    split; cbn [send net acted got failed st slot outv log].
    - intros p d Hp Hd. rewrite cnt_app, cnt_isAct_acts by assumption.
      change (acted task s1) with (acted task s). change (net task s1) with (net task s).
      pose proof (j_act s J p d Hp Hd) as Hj.
      assert (Hs' : sent (send task s1 (actsD s1 (rank_of t) t)) p (parent p d) = sent s1 p (parent p d)) by reflexivity.
      rewrite Hs', Hsent.
      destruct (teq t p) as [<-|Hne].
      + rewrite Hd. cbn [andb]. destruct (teq t t) as [_|]; [|congruence].
        destruct (Nat.eqb (parent t d) (rank_of t)) eqn:E.
        * unfold sent in Hj. rewrite E, Et in Hj. cbn [isdone b2n] in Hj. cbn [b2n]. lia.
        * cbn [b2n]. lia.
      + destruct (teq p t) as [->|_]; [congruence|]. destruct (Nat.eqb (parent p d) (rank_of p)); lia.
    - intros p d k Hp Hd Hk. rewrite !cnt_app, cnt_isGet_acts, cnt_isPut_acts.
      pose proof (j_data s J p d k Hp Hd Hk) as Hj. change (net task s1) with (net task s).
      change (got task s1) with (got task s). change (acted task s1) with (acted task s). lia.
    - apply (j_acted s J).
    - intros pk Hin. apply in_app_or in Hin. destruct Hin as [Hin|Hin].
      + apply (pk_ok_mono s); [|apply (j_pk s J pk Hin)]. intros n q j H. apply Hholds. assumption.
      + apply (pk_ok_mono s1); [intros; assumption|].
        apply (acts_ok s1 (rank_of t) t pk Htin Hin).
        * intros k v. unfold holds. rewrite Nat.eqb_refl. cbn [outv s1]. unfold updO.
          destruct (teq t t); [|congruence]. intros H. inversion H. apply Hov.
        * intros c k _ _ _. unfold holds. rewrite Nat.eqb_refl. cbn [outv s1]. unfold updO.
          destruct (teq t t); [|congruence]. rewrite Hov. reflexivity.
    - apply (j_failed s J).
  Qed.

  (* ------------------------------------------------------------------ Deliver: GET *)
  Lemma set_net_Inv1 (s : State) l : Inv1 s -> Inv1 (set_net task s l).
  Proof. apply Inv1_ext; reflexivity. Qed.

  Lemma Inv_deliver_get (s : State) a b pk rest p k : Inv s ->
    take task a b (net task s) = Some (pk, rest) -> p_body task pk = Get p k -> Inv (stepD s (Deliver a b)).
  Proof.
    intros [I J] Ht Hb. cbn [step]. rewrite Ht, Hb.
    destruct (take_spec a b _ pk rest Ht) as (Hin & Hsrc & Hdst & Hcnt & Hsub).
    pose proof (j_pk s J pk Hin) as Hok. unfold pk_ok in Hok. rewrite Hb, Hsrc, Hdst in Hok.
    destruct Hok as (Hp & Hda & Hpar & Hnk & Hh).
    change (holdsD (set_net task s rest) b p k) with (holdsD s b p k). rewrite Hh.
    split; [apply (Inv1_ext s); try reflexivity; assumption|].
    set (put := Build_packet task b a (Put p k (refout p k))).
    split; cbn [send set_net net acted got failed st slot outv log].
    - intros p' d' Hp' Hd'. pose proof (j_act s J p' d' Hp' Hd') as Hj. rewrite (Hcnt (isAct p' d')) in Hj.
      rewrite cnt_app, cnt_cons, cnt_nil.
      assert (E1 : isAct p' d' pk = false) by (unfold isAct; rewrite Hb; apply andb_false_r).
      assert (E2 : isAct p' d' put = false) by (unfold isAct; cbn [p_body put]; apply andb_false_r).
      rewrite E1 in Hj. rewrite E2. cbn [b2n] in *.
      assert (Hs' : forall n, sent (send task (set_net task s rest) [put]) p' n = sent s p' n) by reflexivity.
      rewrite Hs'. lia.
    - intros p' d' k' Hp' Hd' Hk'. pose proof (j_data s J p' d' k' Hp' Hd' Hk') as Hj.
      rewrite (Hcnt (isGet p' d' k')), (Hcnt (isPut p' d' k')) in Hj. rewrite !cnt_app, !cnt_cons, !cnt_nil.
      assert (E1 : isPut p' d' k' pk = false) by (unfold isPut; rewrite Hb; apply andb_false_r).
      assert (E2 : isGet p' d' k' put = false) by (unfold isGet; cbn [p_body put]; apply andb_false_r).
      assert (E3 : isPut p' d' k' put = isGet p' d' k' pk).
      { unfold isPut, isGet. rewrite Hb, Hsrc. reflexivity. }
      rewrite E1 in Hj. rewrite E2, E3. cbn [b2n] in *. lia.
    - apply (j_acted s J).
    - intros x Hx. apply in_app_or in Hx. destruct Hx as [Hx|[<-|[]]].
      + apply (pk_ok_mono s); [intros; assumption|]. apply (j_pk s J x (Hsub x Hx)).
      + unfold pk_ok. cbn [p_body p_dst put]. auto.
    - apply (j_failed s J).
  Qed.

  (* ------------------------------------------------------------------ what an arrival does to the protocol state *)
  Lemma arrive_holds d p k v (s : State) n q j : d <> rank_of p -> v = refout p k ->
    holdsD s n q j = Some (refout q j) -> holdsD (arriveD d p k v s) n q j = Some (refout q j).
  Proof.
    intros Hd Hv. unfold holds. cbn [arrive outv got]. destruct (Nat.eqb n (rank_of q)) eqn:E; [auto|].
    intros H. destruct (Nat.eq_dec n d) as [->|Hn]; [destruct (teq q p) as [->|Hq]; [destruct (Nat.eq_dec j k) as [->|Hj]|]|].
    - rewrite updG_same, Hv. reflexivity.
    - rewrite updG_other by (intros Heq; inversion Heq; congruence). assumption.
    - rewrite updG_other by (intros Heq; inversion Heq; congruence). assumption.
    - rewrite updG_other by (intros Heq; inversion Heq; congruence). assumption.
  Qed.

  Lemma complete_got (s : State) n p k : completeD s n p = true -> needsD n p k = true -> isSome (got task s n p k) = true.
  Proof.
    unfold complete. rewrite forallb_forall. intros H Hk. apply H. apply needed_in. assumption.
  Qed.
  Lemma complete_false (s : State) n p k : needsD n p k = true -> got task s n p k = None -> completeD s n p = false.
  Proof.
    intros Hk Hg. destruct (completeD s n p) eqn:E; [|reflexivity].
    pose proof (complete_got s n p k E Hk) as H. rewrite Hg in H. discriminate.
  Qed.

  (* the packets a relay sends when it propagates are well formed *)
  Lemma relay_acts_ok (s : State) b p pk : Inv1 s -> In p tasks -> isdestD b p = true -> completeD s b p = true ->
    In pk (actsD s b p) -> pk_ok s pk.
  Proof.
    intros I Hp Hb Hc Hin. pose proof (isdest_ne b p Hb) as Hne.
    assert (Hhold : forall j, holdsD s b p j = got task s b p j).
    { intros j. unfold holds. destruct (Nat.eqb b (rank_of p)) eqn:E; [apply Nat.eqb_eq in E; congruence|reflexivity]. }
    apply (acts_ok s b p pk Hp Hin).
    - intros j v. rewrite Hhold. intros H. apply (i_got s I b p j v H).
    - intros c j Hc1 Hc2 Hj. rewrite Hhold.
      destruct (H_relay_holds p c j Hp Hc1 Hj) as [H|H]; [congruence|]. rewrite Hc2 in H.
      pose proof (complete_got s b p j Hc H) as Hs. destruct (got task s b p j) as [x|] eqn:Eg; [|discriminate].
      destruct (i_got s I b p j x Eg) as [-> _]. reflexivity.
  Qed.

  (* ------------------------------------------------------------------ Deliver: PUT *)
  Lemma Inv_deliver_put (s : State) a b pk rest p k v : Inv s ->
    take task a b (net task s) = Some (pk, rest) -> p_body task pk = Put p k v -> Inv (stepD s (Deliver a b)).
  Proof.
    intros [I J] Ht Hb. cbn [step]. rewrite Ht, Hb.
    destruct (take_spec a b _ pk rest Ht) as (Hin & Hsrc & Hdst & Hcnt & Hsub).
    pose proof (j_pk s J pk Hin) as Hok. unfold pk_ok in Hok. rewrite Hb, Hdst in Hok.
    destruct Hok as (Hp & Hdb & Hnk & Hv).
    pose proof (isdest_ne b p Hdb) as Hne.
    pose proof (j_data s J p b k Hp Hdb Hnk) as Hjd. rewrite (Hcnt (isPut p b k)) in Hjd.
    assert (Epk : isPut p b k pk = true).
    { unfold isPut. rewrite Hb, Hdst, Nat.eqb_refl, teqb_refl, Nat.eqb_refl. reflexivity. }
    rewrite Epk in Hjd. cbn [b2n] in Hjd.
    assert (Hacted : acted task s b p = true) by (destruct (acted task s b p); [reflexivity|cbn [b2n] in Hjd; lia]).
    assert (Hgot : got task s b p k = None).
    { destruct (got task s b p k); [|reflexivity]. rewrite Hacted in Hjd. cbn [isSome b2n] in Hjd. lia. }
    set (s0 := set_net task s rest).
    set (sA := arriveD b p k v s0).
    assert (IA : Inv1 sA) by (apply Inv1_arrive; try assumption; apply set_net_Inv1; assumption).
    assert (HgA : forall d' q j, got task sA d' q j = updG task teq (got task s) b p k (Some v) d' q j) by reflexivity.
    assert (HdA : forall q, isdone (st task sA q) = isdone (st task s q)) by (intros q; unfold sA; rewrite arrive_isdone; reflexivity).
    assert (HcA : forall n q, (n, q) <> (b, p) -> completeD sA n q = completeD s n q).
    { intros n q Hnq. apply complete_ext. intros j. rewrite HgA. apply updG_other. intros Heq. inversion Heq. congruence. }
    assert (Hcs : completeD s b p = false) by (apply (complete_false s b p k); assumption).
    assert (HsentA : forall q n, sent sA q n = if Nat.eqb n (rank_of q) then sent s q n
                                              else if Nat.eqb n b && teqb q p then completeD sA b p else sent s q n).
    { intros q n. unfold sent. destruct (Nat.eqb n (rank_of q)); [apply HdA|].
      change (acted task sA) with (acted task s).
      destruct (Nat.eqb n b) eqn:E1; [destruct (teqb q p) eqn:E2|]; cbn [andb].
      - apply Nat.eqb_eq in E1. apply teqb_true in E2. subst n q. rewrite Hacted. reflexivity.
      - rewrite HcA; [reflexivity|]. apply teqb_false in E2. congruence.
      - rewrite HcA; [reflexivity|]. apply Nat.eqb_neq in E1. congruence. }
    assert (Hmono : forall n q j, holdsD s n q j = Some (refout q j) -> holdsD sA n q j = Some (refout q j)).
    { intros n q j H. apply arrive_holds; assumption. }
    unfold propagate. fold s0. fold sA.
    assert (Hfinal : Inv2 (if completeD sA b p then send task sA (actsD sA b p) else sA)).
    { split.
      - intros p' d' Hp' Hd'. pose proof (j_act s J p' d' Hp' Hd') as Hj. rewrite (Hcnt (isAct p' d')) in Hj.
        assert (E1 : isAct p' d' pk = false) by (unfold isAct; rewrite Hb; apply andb_false_r).
        rewrite E1 in Hj. cbn [b2n] in Hj.
        assert (Hgoal : cnt (isAct p' d') rest + (if completeD sA b p then cnt (isAct p' d') (actsD sA b p) else 0)
                        + b2n (acted task s d' p') = b2n (sent sA p' (parent p' d'))).
        { rewrite HsentA. destruct (Nat.eqb (parent p' d') (rank_of p')) eqn:E0.
          - assert (Hz : (if completeD sA b p then cnt (isAct p' d') (actsD sA b p) else 0) = 0).
            { destruct (completeD sA b p); [|reflexivity]. rewrite cnt_isAct_acts by assumption.
              destruct (teq p p') as [<-|]; [|reflexivity]. rewrite Hd'. cbn [andb].
              destruct (Nat.eqb (parent p d') b) eqn:E; [|reflexivity]. apply Nat.eqb_eq in E, E0. congruence. }
            rewrite Hz. unfold sent in Hj |- *. rewrite E0 in Hj |- *. lia.
          - destruct (Nat.eqb (parent p' d') b && teqb p' p) eqn:E.
            + apply andb_true_iff in E. destruct E as [E2 E3]. apply teqb_true in E3. subst p'.
              unfold sent in Hj. rewrite E0 in Hj. apply Nat.eqb_eq in E2. rewrite E2, Hacted, Hcs in Hj. cbn [andb b2n] in Hj.
              destruct (completeD sA b p); [|cbn [b2n]; lia].
              rewrite cnt_isAct_acts by assumption. destruct (teq p p); [|congruence]. rewrite Hd', E2, Nat.eqb_refl. cbn [andb b2n]. flia.
            + assert (Hz : (if completeD sA b p then cnt (isAct p' d') (actsD sA b p) else 0) = 0).
              { destruct (completeD sA b p); [|reflexivity]. rewrite cnt_isAct_acts by assumption.
                destruct (teq p p') as [<-|]; [|reflexivity]. rewrite Hd'. cbn [andb].
                rewrite teqb_refl, andb_true_r in E. rewrite E. reflexivity. }
              rewrite Hz. flia. }
        destruct (completeD sA b p); cbn [send net acted]; [rewrite cnt_app|]; exact Hgoal || (rewrite Nat.add_0_r in Hgoal; exact Hgoal).
      - intros p' d' k' Hp' Hd' Hk'. pose proof (j_data s J p' d' k' Hp' Hd' Hk') as Hj.
        rewrite (Hcnt (isGet p' d' k')), (Hcnt (isPut p' d' k')) in Hj.
        assert (E1 : isGet p' d' k' pk = false) by (unfold isGet; rewrite Hb; apply andb_false_r).
        rewrite E1 in Hj. cbn [b2n] in Hj.
        assert (Hgoal : cnt (isGet p' d' k') rest + cnt (isPut p' d' k') rest + b2n (isSome (got task sA d' p' k')) = b2n (acted task s d' p')).
        { rewrite HgA. destruct (isPut p' d' k' pk) eqn:E2.
          - unfold isPut in E2. rewrite Hb, Hdst in E2. apply andb_true_iff in E2. destruct E2 as [E2 E3].
            apply andb_true_iff in E3. destruct E3 as [E3 E4]. apply Nat.eqb_eq in E2, E4. apply teqb_true in E3. subst d' p' k'.
            rewrite updG_same. rewrite Hgot in Hj. cbn [isSome b2n] in *. lia.
          - rewrite updG_other; [cbn [b2n] in Hj; flia|]. intros Heq. inversion Heq as [[Hx1 Hx2 Hx3]].
            rewrite Hx1, Hx2, Hx3 in E2. rewrite Epk in E2. discriminate. }
        destruct (completeD sA b p); cbn [send net acted got]; [rewrite !cnt_app, cnt_isGet_acts, cnt_isPut_acts|]; change (net task sA) with rest; change (acted task sA) with (acted task s); flia.
      - intros d' q. destruct (completeD sA b p); cbn [send acted]; apply (j_acted s J).
      - intros x Hx.
        assert (Hold : In x rest -> pk_ok sA x).
        { intros Hr. apply (pk_ok_mono s); [exact Hmono|]. apply (j_pk s J x (Hsub x Hr)). }
        destruct (completeD sA b p) eqn:Ec; cbn [send net] in Hx |- *.
        + apply (pk_ok_mono sA); [intros; assumption|]. apply in_app_or in Hx. destruct Hx as [Hx|Hx]; [apply Hold; exact Hx|].
          apply (relay_acts_ok sA b p x IA Hp Hdb Ec Hx).
        + apply Hold. exact Hx.
      - destruct (completeD sA b p); cbn [send failed]; apply (j_failed s J). }
    split; [|exact Hfinal].
    destruct (completeD sA b p); [apply (Inv1_ext sA); try reflexivity; exact IA|exact IA].
  Qed.

  (* ------------------------------------------------------------------ Deliver: activation *)
  Definition arr_step (b : nat) (p : task) (pl : list (nat * option Z)) (s : State) (k : nat) : State :=
    match lookupD k pl with Some v => arriveD b p k v s | None => s end.

  Lemma arrivals b p pl : In p tasks -> b <> rank_of p -> (forall k v, lookupD k pl = Some v -> v = refout p k) ->
    forall l (s : State), NoDup l -> (forall k, In k l -> needsD b p k = true /\ got task s b p k = None) -> Inv1 s ->
    let s1 := fold_left (arr_step b p pl) l s in
    Inv1 s1 /\ acted task s1 = acted task s /\ net task s1 = net task s /\ failed task s1 = failed task s
    /\ outv task s1 = outv task s
    /\ (forall q, isdone (st task s1 q) = isdone (st task s q))
    /\ (forall k, In k l -> got task s1 b p k = lookupD k pl)
    /\ (forall d' q j, ~ (d' = b /\ q = p /\ In j l) -> got task s1 d' q j = got task s d' q j).
  Proof.
    intros Hp Hb Hv. induction l as [|k l IH]; intros s Hnd Hl I.
    - cbn [fold_left]. split; [exact I|]. repeat (split; [reflexivity|]). split; [intros k []|]. intros; reflexivity.
    - cbn [fold_left]. inversion Hnd as [|? ? Hk Hnd']; subst.
      set (s' := arr_step b p pl s k).
      assert (Hs' : Inv1 s' /\ acted task s' = acted task s /\ net task s' = net task s /\ failed task s' = failed task s
                    /\ outv task s' = outv task s /\ (forall q, isdone (st task s' q) = isdone (st task s q))
                    /\ got task s' b p k = lookupD k pl
                    /\ (forall d' q j, (d', q, j) <> (b, p, k) -> got task s' d' q j = got task s d' q j)).
      { unfold s', arr_step. destruct (Hl k (or_introl eq_refl)) as [Hn Hg].
        destruct (lookupD k pl) as [v|] eqn:El.
        - split; [apply Inv1_arrive; auto|]. repeat (split; [reflexivity|]).
          split; [intros q; apply arrive_isdone|]. split.
          + cbn [arrive got]. apply updG_same.
          + intros d' q j Hne. cbn [arrive got]. apply updG_other. assumption.
        - split; [exact I|]. repeat (split; [reflexivity|]). split; [exact Hg|]. intros; reflexivity. }
      destruct Hs' as (I' & Ha & Hn & Hf & Ho & Hd & Hgk & Hgo).
      destruct (IH s' Hnd') as (I1 & Ha1 & Hn1 & Hf1 & Ho1 & Hd1 & Hg1 & Hgo1); [|exact I'|].
      { intros j Hj. destruct (Hl j (or_intror Hj)) as [H1 H2]. split; [assumption|].
        rewrite Hgo; [assumption|]. intros Heq. inversion Heq. subst. contradiction. }
      cbv zeta in *. split; [exact I1|]. split; [congruence|]. split; [congruence|]. split; [congruence|]. split; [congruence|].
      split; [intros q; rewrite Hd1; apply Hd|]. split.
      + intros j [<-|Hj]; [|apply Hg1; assumption]. rewrite Hgo1; [exact Hgk|]. intros (_ & _ & Hin). contradiction.
      + intros d' q j Hno. rewrite Hgo1 by (intros (H1 & H2 & H3); apply Hno; repeat split; auto; right; assumption).
        apply Hgo. intros Heq. inversion Heq. subst. apply Hno. repeat split. left; reflexivity.
  Qed.

  Definition getsD (a b : nat) (p : task) (pl : list (nat * option Z)) (l : list nat) : list packet :=
    flat_map (fun k => match lookupD k pl with
                       | Some _ => []
                       | None => [Build_packet task b a (Get p k)] end) l.

  Lemma cnt_isAct_gets a b p pl l p' d' : cnt (isAct p' d') (getsD a b p pl l) = 0.
  Proof.
    apply cnt_zero. intros x Hx. unfold getsD in Hx. apply in_flat_map in Hx. destruct Hx as (k & _ & Hx).
    destruct (lookupD k pl); [destruct Hx|]. destruct Hx as [<-|[]]. unfold isAct. cbn [p_body]. apply andb_false_r.
  Qed.
  Lemma cnt_isPut_gets a b p pl l p' d' k' : cnt (isPut p' d' k') (getsD a b p pl l) = 0.
  Proof.
    apply cnt_zero. intros x Hx. unfold getsD in Hx. apply in_flat_map in Hx. destruct Hx as (k & _ & Hx).
    destruct (lookupD k pl); [destruct Hx|]. destruct Hx as [<-|[]]. unfold isPut. cbn [p_body]. apply andb_false_r.
  Qed.
  Lemma cnt_isGet_gets a b p pl l p' d' k' : NoDup l ->
    cnt (isGet p' d' k') (getsD a b p pl l)
    = b2n (Nat.eqb b d' && teqb p p' && existsb (Nat.eqb k') l && negb (isSome (lookupD k' pl))).
  Proof.
    intros Hnd. induction Hnd as [|k l Hk Hnd IH].
    - cbn [getsD flat_map existsb]. rewrite andb_false_r. reflexivity.
    - unfold getsD in *. cbn [flat_map existsb]. rewrite cnt_app, IH.
      destruct (Nat.eqb k' k) eqn:E.
      + apply Nat.eqb_eq in E. subst k'.
        assert (Hex : existsb (Nat.eqb k) l = false).
        { destruct (existsb (Nat.eqb k) l) eqn:Ee; [|reflexivity]. apply existsb_exists in Ee. destruct Ee as (y & Hy & Hyk).
          apply Nat.eqb_eq in Hyk. subst y. contradiction. }
        rewrite Hex. cbn [orb]. rewrite !andb_false_r. cbn [andb b2n]. rewrite Nat.add_0_r.
        destruct (lookupD k pl); cbn [isSome negb]; [rewrite cnt_nil, andb_false_r; reflexivity|].
        rewrite cnt_cons, cnt_nil. unfold isGet. cbn [p_src p_body]. rewrite Nat.eqb_refl, !andb_true_r. rewrite Nat.add_0_r. reflexivity.
      + cbn [orb]. assert (Hz : cnt (isGet p' d' k') (match lookupD k pl with Some _ => [] | None => [Build_packet task b a (Get p k)] end) = 0).
        { destruct (lookupD k pl); [reflexivity|]. rewrite cnt_cons, cnt_nil. unfold isGet. cbn [p_src p_body].
          rewrite (Nat.eqb_sym k k'), E, !andb_false_r. reflexivity. }
        rewrite Hz. reflexivity.
  Qed.

  Lemma existsb_in k l : existsb (Nat.eqb k) l = true <-> In k l.
  Proof.
    rewrite existsb_exists. split; [intros (y & Hy & E); apply Nat.eqb_eq in E; subst; assumption|].
    intros H. exists k. split; [assumption|apply Nat.eqb_refl].
  Qed.

  Lemma Inv_deliver_act (s : State) a b pk rest p pl : Inv s ->
    take task a b (net task s) = Some (pk, rest) -> p_body task pk = Act p pl -> Inv (stepD s (Deliver a b)).
  Proof.
    intros [I J] Ht Hb. cbn [step]. rewrite Ht, Hb.
    destruct (take_spec a b _ pk rest Ht) as (Hin & Hsrc & Hdst & Hcnt & Hsub).
    pose proof (j_pk s J pk Hin) as Hok. unfold pk_ok in Hok. rewrite Hb, Hdst, Hsrc in Hok.
    destruct Hok as (Hp & Hdb & Hpar & Hlv & Hhold).
    pose proof (isdest_ne b p Hdb) as Hne.
    pose proof (parent_ne p b Hp Hdb) as Hab. rewrite <- Hpar in Hab.
    (* before: the activation is in flight, so b has not been activated and holds nothing of p *)
    pose proof (j_act s J p b Hp Hdb) as Hja. rewrite (Hcnt (isAct p b)) in Hja.
    assert (Epk : isAct p b pk = true) by (unfold isAct; rewrite Hb, Hdst, Nat.eqb_refl, teqb_refl; reflexivity).
    rewrite Epk in Hja. cbn [b2n] in Hja.
    assert (Hact0 : acted task s b p = false).
    { destruct (acted task s b p); [|reflexivity]. destruct (sent s p (parent p b)); cbn [b2n] in Hja; lia. }
    assert (Hrest0 : cnt (isAct p b) rest = 0) by (destruct (sent s p (parent p b)); cbn [b2n] in Hja; lia).
    assert (Hsenta : sent s p a = true).
    { rewrite Hpar. destruct (sent s p (parent p b)); [reflexivity|]. cbn [b2n] in Hja. lia. }
    assert (Hgot0 : forall k, needsD b p k = true -> got task s b p k = None
                              /\ cnt (isGet p b k) (net task s) = 0 /\ cnt (isPut p b k) (net task s) = 0).
    { intros k Hk. pose proof (j_data s J p b k Hp Hdb Hk) as Hj. rewrite Hact0 in Hj. cbn [b2n] in Hj.
      destruct (got task s b p k); cbn [isSome b2n] in Hj; [lia|]. repeat split; lia. }
    set (s0 := set_net task s rest).
    unfold deliver_act. fold (arr_step b p pl). fold (getsD a b p pl (neededD b p)).
    destruct (arrivals b p pl Hp Hne Hlv (neededD b p) s0 (needed_nodup b p)) as (I1 & Ha1 & Hn1 & Hf1 & Ho1 & Hd1 & Hg1 & Hgo1).
    { intros k Hk. apply needed_in in Hk. split; [assumption|]. apply (Hgot0 k Hk). }
    { apply set_net_Inv1. assumption. }
    cbv zeta in *.
    set (s1 := fold_left (arr_step b p pl) (neededD b p) s0) in *.
    set (gets := getsD a b p pl (neededD b p)).
    set (s2 := Build_state task (st task s1) (slot task s1) (outv task s1) (updA task teq (acted task s1) b p true)
                           (got task s1) (net task s1 ++ gets) (failed task s1) (log task s1)).
    assert (I2 : Inv1 s2) by (apply (Inv1_ext s1); try reflexivity; exact I1).
    assert (Hg2 : forall d' q j, got task s2 d' q j = if Nat.eqb d' b && teqb q p && needsD b p j then lookupD j pl else got task s d' q j).
    { intros d' q j. cbn [got s2]. destruct (Nat.eqb d' b && teqb q p && needsD b p j) eqn:E.
      - apply andb_true_iff in E. destruct E as [E E3]. apply andb_true_iff in E. destruct E as [E1 E2].
        apply Nat.eqb_eq in E1. apply teqb_true in E2. subst d' q. apply Hg1. apply needed_in. assumption.
      - rewrite Hgo1; [reflexivity|]. intros (H1 & H2 & H3). subst d' q. apply needed_in in H3.
        rewrite Nat.eqb_refl, teqb_refl, H3 in E. discriminate. }
    assert (Hgo2 : forall d' q j, (d', q) <> (b, p) -> got task s2 d' q j = got task s d' q j).
    { intros d' q j Hne'. rewrite Hg2. destruct (Nat.eqb d' b) eqn:E1; [|reflexivity]. destruct (teqb q p) eqn:E2; [|reflexivity].
      apply Nat.eqb_eq in E1. apply teqb_true in E2. congruence. }
    assert (Hd2 : forall q, isdone (st task s2 q) = isdone (st task s q)) by (intros q; apply Hd1).
    assert (Hc2 : forall n q, (n, q) <> (b, p) -> completeD s2 n q = completeD s n q).
    { intros n q Hnq. apply complete_ext. intros j. apply Hgo2. assumption. }
    assert (Hact2 : forall d' q, acted task s2 d' q = if Nat.eqb d' b && teqb q p then true else acted task s d' q).
    { intros d' q. cbn [acted s2]. rewrite Ha1. change (acted task s0) with (acted task s).
      destruct (Nat.eqb d' b) eqn:E1; [destruct (teqb q p) eqn:E2|]; cbn [andb].
      - apply Nat.eqb_eq in E1. apply teqb_true in E2. subst. apply updA_same.
      - apply updA_other. apply teqb_false in E2. congruence.
      - apply updA_other. apply Nat.eqb_neq in E1. congruence. }
    assert (Hsent2 : forall q n, sent s2 q n = if Nat.eqb n (rank_of q) then sent s q n
                                              else if Nat.eqb n b && teqb q p then completeD s2 b p else sent s q n).
    { intros q n. unfold sent. destruct (Nat.eqb n (rank_of q)); [apply Hd2|]. rewrite Hact2.
      destruct (Nat.eqb n b) eqn:E1; [destruct (teqb q p) eqn:E2|]; cbn [andb].
      - apply Nat.eqb_eq in E1. apply teqb_true in E2. subst n q. reflexivity.
      - rewrite Hc2; [reflexivity|]. apply teqb_false in E2. congruence.
      - rewrite Hc2; [reflexivity|]. apply Nat.eqb_neq in E1. congruence. }
    assert (Hmono : forall n q j, holdsD s n q j = Some (refout q j) -> holdsD s2 n q j = Some (refout q j)).
    { intros n q j. unfold holds. change (outv task s2) with (outv task s1). rewrite Ho1. change (outv task s0) with (outv task s).
      destruct (Nat.eqb n (rank_of q)) eqn:E0; [auto|]. rewrite Hg2.
      destruct (Nat.eqb n b && teqb q p && needsD b p j) eqn:E; [|auto].
      apply andb_true_iff in E. destruct E as [E E3]. apply andb_true_iff in E. destruct E as [E1 E2].
      apply Nat.eqb_eq in E1. apply teqb_true in E2. subst n q. destruct (Hgot0 j E3) as [Hg _]. rewrite Hg. discriminate. }
    assert (Hnet2 : net task s2 = rest ++ gets) by (cbn [net s2]; rewrite Hn1; reflexivity).
    unfold propagate.
    assert (Hfinal : Inv2 (if completeD s2 b p then send task s2 (actsD s2 b p) else s2)).
    { split.
      - intros p' d' Hp' Hd'. pose proof (j_act s J p' d' Hp' Hd') as Hj. rewrite (Hcnt (isAct p' d')) in Hj.
        assert (Hgoal : cnt (isAct p' d') rest + (if completeD s2 b p then cnt (isAct p' d') (actsD s2 b p) else 0)
                        + b2n (acted task s2 d' p') = b2n (sent s2 p' (parent p' d'))).
        { rewrite Hsent2, Hact2.
          assert (Eis : isAct p' d' pk = Nat.eqb b d' && teqb p p') by (unfold isAct; rewrite Hb, Hdst; reflexivity).
          rewrite Eis in Hj.
          destruct (Nat.eqb d' b && teqb p' p) eqn:Ebp.
          - (* the receiver itself *)
            apply andb_true_iff in Ebp. destruct Ebp as [E1 E2]. apply Nat.eqb_eq in E1. apply teqb_true in E2. subst d' p'.
            assert (Hz : (if completeD s2 b p then cnt (isAct p b) (actsD s2 b p) else 0) = 0).
            { destruct (completeD s2 b p); [|reflexivity]. rewrite cnt_isAct_acts by assumption.
              destruct (teq p p); [|congruence]. rewrite Hdb. cbn [andb].
              destruct (Nat.eqb (parent p b) b) eqn:E; [|reflexivity]. apply Nat.eqb_eq in E. exfalso. apply (parent_ne p b Hp Hdb E). }
            rewrite Hz, Hrest0. cbn [b2n].
            rewrite <- Hpar. destruct (Nat.eqb a (rank_of p)) eqn:E0; [rewrite Hsenta; reflexivity|].
            assert (Eab : Nat.eqb a b = false) by (apply Nat.eqb_neq; assumption). rewrite Eab. cbn [andb]. rewrite Hsenta. reflexivity.
          - assert (E1 : Nat.eqb b d' && teqb p p' = false).
            { rewrite Nat.eqb_sym. destruct (Nat.eqb d' b) eqn:Ex; [|reflexivity]. cbn [andb] in *.
              apply teqb_false in Ebp. apply teqb_false. congruence. }
            rewrite E1 in Hj. cbn [b2n] in Hj.
            destruct (Nat.eqb (parent p' d') (rank_of p')) eqn:E0.
            + assert (Hz : (if completeD s2 b p then cnt (isAct p' d') (actsD s2 b p) else 0) = 0).
              { destruct (completeD s2 b p); [|reflexivity]. rewrite cnt_isAct_acts by assumption.
                destruct (teq p p') as [<-|]; [|reflexivity]. rewrite Hd'. cbn [andb].
                destruct (Nat.eqb (parent p d') b) eqn:E; [|reflexivity]. apply Nat.eqb_eq in E, E0. congruence. }
              rewrite Hz. unfold sent in Hj |- *. rewrite E0 in Hj |- *. flia.
            + destruct (Nat.eqb (parent p' d') b && teqb p' p) eqn:E.
              * apply andb_true_iff in E. destruct E as [E2 E3]. apply teqb_true in E3. subst p'. apply Nat.eqb_eq in E2.
                unfold sent in Hj. rewrite E0, E2, Hact0 in Hj. cbn [andb b2n] in Hj.
                destruct (completeD s2 b p); [|cbn [b2n]; flia].
                rewrite cnt_isAct_acts by assumption. destruct (teq p p); [|congruence]. rewrite Hd', E2, Nat.eqb_refl. cbn [andb b2n]. flia.
              * assert (Hz : (if completeD s2 b p then cnt (isAct p' d') (actsD s2 b p) else 0) = 0).
                { destruct (completeD s2 b p); [|reflexivity]. rewrite cnt_isAct_acts by assumption.
                  destruct (teq p p') as [<-|]; [|reflexivity]. rewrite Hd'. cbn [andb].
                  rewrite teqb_refl, andb_true_r in E. rewrite E. reflexivity. }
                rewrite Hz. flia. }
        assert (Hss : forall l q n, sent (send task s2 l) q n = sent s2 q n) by reflexivity.
        destruct (completeD s2 b p); cbn [send net acted]; rewrite ?Hss, Hnet2, ?cnt_app; unfold gets; rewrite cnt_isAct_gets; lia.
      - intros p' d' k' Hp' Hd' Hk'. pose proof (j_data s J p' d' k' Hp' Hd' Hk') as Hj.
        rewrite (Hcnt (isGet p' d' k')), (Hcnt (isPut p' d' k')) in Hj.
        assert (E1 : isGet p' d' k' pk = false) by (unfold isGet; rewrite Hb; apply andb_false_r).
        assert (E2 : isPut p' d' k' pk = false) by (unfold isPut; rewrite Hb; apply andb_false_r).
        rewrite E1, E2 in Hj. cbn [b2n] in Hj.
        assert (Hgoal : cnt (isGet p' d' k') rest + cnt (isGet p' d' k') gets + cnt (isPut p' d' k') rest
                        + b2n (isSome (got task s2 d' p' k')) = b2n (acted task s2 d' p')).
        { unfold gets. rewrite cnt_isGet_gets by apply needed_nodup. rewrite Hg2, Hact2.
          rewrite (Nat.eqb_sym b d').
          destruct (Nat.eqb d' b) eqn:Ed; [destruct (teqb p' p) eqn:Ep|]; cbn [andb].
          - apply Nat.eqb_eq in Ed. apply teqb_true in Ep. subst d' p'. rewrite teqb_refl, Hk'. cbn [andb].
            assert (Hex : existsb (Nat.eqb k') (neededD b p) = true) by (apply existsb_in; apply needed_in; assumption).
            rewrite Hex. cbn [andb]. destruct (Hgot0 k' Hk') as (_ & Hz1 & Hz2).
            rewrite (Hcnt (isGet p b k')) in Hz1. rewrite (Hcnt (isPut p b k')) in Hz2.
            destruct (lookupD k' pl); cbn [isSome negb b2n]; flia.
          - assert (Et : teqb p p' = false) by (apply teqb_false; apply teqb_false in Ep; congruence).
            rewrite Et. cbn [andb b2n]. flia.
          - cbn [b2n]. flia. }
        destruct (completeD s2 b p); cbn [send net acted got]; rewrite Hnet2, ?cnt_app, ?cnt_isGet_acts, ?cnt_isPut_acts;
          fold gets; unfold gets at 2; rewrite cnt_isPut_gets; flia.
      - intros d' q Hq.
        assert (Hq' : acted task s2 d' q = true) by (destruct (completeD s2 b p); exact Hq).
        rewrite Hact2 in Hq'. destruct (Nat.eqb d' b && teqb q p) eqn:E; [|apply (j_acted s J d' q Hq')].
        apply andb_true_iff in E. destruct E as [E1 E2]. apply Nat.eqb_eq in E1. apply teqb_true in E2. subst. auto.
      - intros x Hx.
        assert (Hold : In x (rest ++ gets) -> pk_ok s2 x).
        { intros Hr. apply in_app_or in Hr. destruct Hr as [Hr|Hr].
          - apply (pk_ok_mono s); [exact Hmono|]. apply (j_pk s J x (Hsub x Hr)).
          - unfold gets, getsD in Hr. apply in_flat_map in Hr. destruct Hr as (k & Hk & Hr). apply needed_in in Hk.
            destruct (lookupD k pl); [destruct Hr|]. destruct Hr as [<-|[]]. unfold pk_ok. cbn [p_body p_src p_dst].
            split; [assumption|]. split; [assumption|]. split; [assumption|]. split; [assumption|].
            apply Hmono. apply Hhold. assumption. }
        destruct (completeD s2 b p) eqn:Ec; cbn [send net] in Hx |- *; rewrite Hnet2 in Hx.
        + apply (pk_ok_mono s2); [intros; assumption|]. apply in_app_or in Hx. destruct Hx as [Hx|Hx]; [apply Hold; exact Hx|].
          apply (relay_acts_ok s2 b p x I2 Hp Hdb Ec Hx).
        + apply Hold. exact Hx.
      - assert (Hf : failed task s2 = false) by (cbn [failed s2]; rewrite Hf1; apply (j_failed s J)).
        destruct (completeD s2 b p); cbn [send failed]; exact Hf. }
    split; [|exact Hfinal].
    destruct (completeD s2 b p); [apply (Inv1_ext s2); try reflexivity; exact I2|exact I2].
  Qed.

  (* ------------------------------------------------------------------ every schedule *)
  Lemma Inv2_init : Inv2 initD.
  Proof.
    split; cbn [init net acted got failed]; try reflexivity.
    - intros p d _ _. unfold sent. cbn [init st acted]. rewrite cnt_nil.
      destruct (Nat.eqb (parent p d) (rank_of p)); [|reflexivity]. destruct (in_dec teq p tasks); reflexivity.
    - discriminate.
    - intros pk [].
  Qed.

  Lemma Inv_step (s : State) e : Inv s -> Inv (stepD s e).
  Proof.
    intros H. destruct e as [r|t|t|a b].
    - apply Inv_startup. assumption.
    - apply Inv_begin. assumption.
    - apply Inv_end. assumption.
    - destruct (take task a b (net task s)) as [[pk rest]|] eqn:Et.
      + destruct (p_body task pk) as [p pl|p k|p k v] eqn:Eb.
        * apply (Inv_deliver_act s a b pk rest p pl H Et Eb).
        * apply (Inv_deliver_get s a b pk rest p k H Et Eb).
        * apply (Inv_deliver_put s a b pk rest p k v H Et Eb).
      + cbn [step]. rewrite Et. assumption.
  Qed.

  Theorem Inv_run (evs : list (event task)) : Inv (runD evs).
  Proof. unfold run. apply fold_left_inv; [intros a b; apply Inv_step|]. split; [apply Inv1_init|apply Inv2_init]. Qed.

  (* ------------------------------------------------------------------ consequences *)
  Theorem dist_begins_once evs : NoDup (beginsD (log task (runD evs))).
  Proof.
    destruct (Inv_run evs) as [I _]. apply (NoDup_count_occ teq). intros t. rewrite (i_begins _ I t).
    destruct (st task (runD evs) t); lia.
  Qed.

  Theorem dist_begin_on_owner evs t r vs : In (LBegin t r vs) (log task (runD evs)) ->
    In t tasks /\ r = rank_of t /\ vs = map (refin t) (reads t).
  Proof. destruct (Inv_run evs) as [I _]. apply (i_logb _ I). Qed.

  Theorem dist_end_values evs t r ovs : In (LEnd t r ovs) (log task (runD evs)) ->
    In t tasks /\ r = rank_of t /\ ovs = map (fun k => (k, refout t k)) (wlist t).
  Proof. destruct (Inv_run evs) as [I _]. apply (i_loge _ I). Qed.

  Theorem dist_no_failure evs : failed task (runD evs) = false.
  Proof. destruct (Inv_run evs) as [_ J]. apply (j_failed _ J). Qed.

  Theorem dist_received_values evs d p k v : got task (runD evs) d p k = Some v -> v = refout p k.
  Proof. destruct (Inv_run evs) as [I _]. intros H. apply (i_got _ I d p k v H). Qed.

  (* with no message in flight, the completion of p has reached every rank that consumes one of its outputs *)
  Lemma empty_net_reached (s : State) p : Inv s -> net task s = [] -> In p tasks -> isdone (st task s p) = true ->
    forall n d, depth p d < n -> isdestD d p = true -> acted task s d p = true /\ completeD s d p = true.
  Proof.
    intros [I J] Hn Hp Hd. induction n as [|n IH]; intros d Hlt Hdd; [lia|].
    destruct (H_tree p d Hp Hdd) as [Hpar Hdep].
    assert (Hs : sent s p (parent p d) = true).
    { unfold sent. destruct (Nat.eqb (parent p d) (rank_of p)) eqn:E; [assumption|].
      destruct Hpar as [Hpar|Hpar]; [apply Nat.eqb_neq in E; contradiction|].
      destruct (IH (parent p d)) as [H1 H2]; [lia|assumption|]. rewrite H1, H2. reflexivity. }
    pose proof (j_act s J p d Hp Hdd) as Hj. rewrite Hn, cnt_nil, Hs in Hj. cbn [b2n] in Hj.
    assert (Ha : acted task s d p = true) by (destruct (acted task s d p); [reflexivity|cbn [b2n] in Hj; lia]).
    split; [assumption|]. unfold complete. apply forallb_forall. intros k Hk. apply needed_in in Hk.
    pose proof (j_data s J p d k Hp Hdd Hk) as Hj2. rewrite Hn, !cnt_nil, Ha in Hj2. cbn [b2n] in Hj2.
    destruct (got task s d p k); [reflexivity|cbn [isSome b2n] in Hj2; lia].
  Qed.

  Lemma quiescent_done_by_rank (s : State) : Inv s -> quiescent task tasks s ->
    forall n t, In t tasks -> drank t < n -> st task s t = Done.
  Proof.
    intros HI [Hn Q] n. destruct HI as [I J]. induction n as [|n IH]; intros t Ht Hr; [lia|].
    assert (Hp : pending s t = 0).
    { unfold pending. apply cnt_zero. intros e He. apply negb_false_iff.
      pose proof (H_pred_in t e Ht He) as Hq. pose proof (H_drank t e Ht He) as Hlt.
      assert (Hdq : st task s (e_task e) = Done) by (apply IH; [assumption|lia]).
      unfold delivered. destruct (Nat.eqb (rank_of (e_task e)) (rank_of t)) eqn:E; [rewrite Hdq; reflexivity|].
      apply Nat.eqb_neq in E.
      destruct e as [[f q] k]. unfold DistEngine.e_task, DistEngine.e_oflow in *. cbn [fst snd] in *.
      pose proof (in_out q t f k Hq Ht He) as Ho.
      assert (Hnk : needsD (rank_of t) q k = true) by (apply needs_iff; exists (k, t, f); auto).
      assert (Hdd : isdestD (rank_of t) q = true) by (apply (needs_isdest _ _ k); auto).
      destruct (empty_net_reached s q (conj I J) Hn Hq) with (n := S (depth q (rank_of t))) (d := rank_of t) as [_ Hc];
        [rewrite Hdq; reflexivity|lia|assumption|].
      apply (complete_got s _ _ _ Hc Hnk). }
    pose proof (i_count s I t Ht) as Hc. pose proof (i_present s I t Ht) as Hpr.
    destruct (Q t Ht) as (Q1 & Q2 & Q3).
    destruct (st task s t) as [|k| | |]; try contradiction; try reflexivity.
    exfalso. apply Q3. f_equal. lia.
  Qed.

  (* no lost activation: nothing enabled and no message in flight => every task is done *)
  Theorem dist_quiescent_all_done evs : quiescent task tasks (runD evs) ->
    forall t, In t tasks -> st task (runD evs) t = Done.
  Proof. intros Q t Ht. apply (quiescent_done_by_rank _ (Inv_run evs) Q (S (drank t)) t Ht). lia. Qed.

  Theorem dist_only_tasks_begin evs t : In t (beginsD (log task (runD evs))) -> In t tasks.
  Proof.
    destruct (Inv_run evs) as [I _]. intros H. apply (count_occ_In teq) in H. rewrite (i_begins _ I t) in H.
    destruct (in_dec teq t tasks) as [Hi|Hi]; [assumption|]. rewrite (i_absent _ I t Hi) in H. lia.
  Qed.

  Theorem dist_quiescent_executed_once evs : NoDup tasks -> quiescent task tasks (runD evs) ->
    Permutation (beginsD (log task (runD evs))) tasks.
  Proof.
    intros Hnd Q. apply NoDup_Permutation; [apply dist_begins_once|assumption|].
    intros t. split; [apply dist_only_tasks_begin|].
    intros Ht. destruct (Inv_run evs) as [I _]. apply (count_occ_In teq). rewrite (i_begins _ I t).
    rewrite (dist_quiescent_all_done evs Q t Ht). lia.
  Qed.

  Theorem dist_quiescent_outputs evs : quiescent task tasks (runD evs) ->
    forall t k, In t tasks -> outv task (runD evs) t k = Some (refout t k).
  Proof.
    intros Q t k Ht. destruct (Inv_run evs) as [I _]. apply (i_outv _ I t k Ht).
    rewrite (dist_quiescent_all_done evs Q t Ht). reflexivity.
  Qed.
End DistProofs.
