(* Distributed dataflow engine over a finite DAG with values.  Definitions only
   (proofs: DistProofs.v).  Extension of PTG/Engine.v:

   tasks, ins/outs   the finite set of task instances and their dependency edges WITH flows:
                     an edge end is (my flow, other task, its flow); multiplicities count
   values            every flow of a task carries an integer; the body of t computes the value of
                     flow k from the values of the flows it reads:
                       body t k g = 0                              CTL flow
                                    hashv t k (map g (reads t))    written flow (RW / WRITE)
                                    g k                            READ flow (forwarded unchanged)
                     an input flow no task feeds reads srcv t f (memory, NEW, NULL)
   rank_of           placement: the rank that owns (runs) each task
   parent p d        the tree along which the completion of producer p is propagated: the
                     rank that sends the activation of p to destination rank d.  ANY function
                     (DistProofs asks for a depth measure); parsec_remote_dep_activate's
                     star / chain / binomial trees are instances (Bcast/, C13)
   eager p d k       protocol of output k of p towards rank d: true = the datum travels
                     inside the activation message (short), false = GET / PUT (rendezvous)

   One output per flow (a flow whose output dependencies have different remote shapes has
   one output per shape in the runtime: that documented unsupported case is outside this model).

   State = status, input slots and completed outputs per task (a task's entries are only
   touched by steps of its owner: `step_local`), per rank the activations received (acted) and the data
   received (got), the network, a failure flag and the log.  The network is ONE list of
   packets; `take a b` removes the OLDEST packet from a to b: per-pair FIFO channels, any
   interleaving between pairs, arbitrary delay (a schedule decides when Deliver a b happens).

   Events (not enabled = no-op), each executed by one rank:
     Startup r      rank r makes its tasks without inputs ready
     Begin t        (rank_of t) a ready task starts; its inputs are read from its slots
     End t          (rank_of t) the task completes: outputs computed, local successors released
                    (count decremented, value stored in the successor's slot), activation
                    sent to the children of the root in p's tree — release_deps + parsec_remote_dep_activate
     Deliver a b    rank b handles the oldest packet from a:
       Act p pl     remote_dep_mpi_save_activate_cb / recv_activate: for every output b consumes,
                    embedded datum -> arrive (store, release local successors: remote_dep_release_incoming),
                    otherwise GET sent to the sender; when all have arrived, propagate to b's children
       Get p k      remote_dep_mpi_save_put_cb/put_start: reply PUT with the datum; a process asked for
                    a datum it never held FAILS (the runtime aborts in MPI_Isend: finding F8)
       Put p k v    remote_dep_mpi_get_end_cb: arrive; propagate when complete *)
From Coq Require Import ZArith List Bool Arith.
From PV Require Import PTG.Engine.
Import ListNotations.

Section DistEngine.
  Variable task : Type.
  Variable teq : forall a b : task, {a = b} + {a <> b}.
  Variable tasks : list task.

  Definition edge : Type := (nat * task * nat)%type.
  Definition e_flow (e : edge) : nat := fst (fst e).
  Definition e_task (e : edge) : task := snd (fst e).
  Definition e_oflow (e : edge) : nat := snd e.
  Variable ins outs : task -> list edge.

  Variable isctl : task -> nat -> bool.
  Variable writes : task -> nat -> bool.
  Variable reads : task -> list nat.
  Variable wlist : task -> list nat.          (* the flows whose written value is logged *)
  Variable hashv : task -> nat -> list Z -> Z.
  Variable srcv : task -> nat -> Z.

  Variable nranks : nat.
  Variable rank_of : task -> nat.
  Variable parent : task -> nat -> nat.
  Variable eager : task -> nat -> nat -> bool.

  Definition teqb (a b : task) : bool := if teq a b then true else false.

  Definition in_edge (t : task) (f : nat) : option edge :=
    find (fun e => Nat.eqb (e_flow e) f) (ins t).
  Definition body (t : task) (k : nat) (g : nat -> Z) : Z :=
    if isctl t k then 0%Z else if writes t k then hashv t k (map g (reads t)) else g k.

  Inductive pbody := Act (p : task) (pl : list (nat * option Z)) | Get (p : task) (k : nat) | Put (p : task) (k : nat) (v : Z).
  Record packet := { p_src : nat; p_dst : nat; p_body : pbody }.
  Inductive logev := LBegin (t : task) (r : nat) (vs : list Z) | LEnd (t : task) (r : nat) (ovs : list (nat * Z)).
  Inductive event := Startup (r : nat) | Begin (t : task) | End (t : task) | Deliver (a b : nat).

  Record state := { st : task -> status;
                    slot : task -> nat -> option Z;
                    outv : task -> nat -> option Z;
                    acted : nat -> task -> bool;
                    got : nat -> task -> nat -> option Z;
                    net : list packet;
                    failed : bool;
                    log : list logev }.

  Definition updS (m : task -> nat -> option Z) (t : task) (f : nat) (v : option Z) : task -> nat -> option Z :=
    fun t' f' => if teq t' t then if Nat.eqb f' f then v else m t' f' else m t' f'.
  Definition updO (m : task -> nat -> option Z) (t : task) (g : nat -> option Z) : task -> nat -> option Z :=
    fun t' k => if teq t' t then g k else m t' k.
  Definition updA (m : nat -> task -> bool) (d : nat) (p : task) (v : bool) : nat -> task -> bool :=
    fun d' p' => if Nat.eqb d' d then if teq p' p then v else m d' p' else m d' p'.
  Definition updG (m : nat -> task -> nat -> option Z) (d : nat) (p : task) (k : nat) (v : option Z) : nat -> task -> nat -> option Z :=
    fun d' p' k' => if Nat.eqb d' d then if teq p' p then if Nat.eqb k' k then v else m d' p' k' else m d' p' k' else m d' p' k'.

  Definition init : state :=
    {| st := fun t => if in_dec teq t tasks then Waiting (length (ins t)) else Absent;
       slot := fun _ _ => None; outv := fun _ _ => None;
       acted := fun _ _ => false; got := fun _ _ _ => None;
       net := []; failed := false; log := [] |}.

  (* ---- releasing successor edges: count decremented, value stored in the input slot *)
  Definition rel_edge (v : nat -> Z) (acc : (task -> status) * (task -> nat -> option Z)) (e : edge) :=
    (release task teq (fst acc) (e_task e), updS (snd acc) (e_task e) (e_oflow e) (Some (v (e_flow e)))).
  Definition release_edges (es : list edge) (v : nat -> Z) (stm : task -> status) (slm : task -> nat -> option Z) :=
    fold_left (rel_edge v) es (stm, slm).

  Definition local_outs (t : task) : list edge :=
    filter (fun e => Nat.eqb (rank_of (e_task e)) (rank_of t)) (outs t).
  (* the successors of output k of p that live on rank d *)
  Definition remote_outs (d : nat) (p : task) (k : nat) : list edge :=
    filter (fun e => Nat.eqb (e_flow e) k && Nat.eqb (rank_of (e_task e)) d) (outs p).

  (* ---- who consumes what: rebuilt by every rank from the task description (iterate_successors) *)
  Definition needs (d : nat) (p : task) (k : nat) : bool :=
    existsb (fun e => Nat.eqb (e_flow e) k && Nat.eqb (rank_of (e_task e)) d) (outs p).
  Definition oflows (p : task) : list nat := nodup Nat.eq_dec (map e_flow (outs p)).
  Definition needed (d : nat) (p : task) : list nat := filter (needs d p) (oflows p).
  Definition isdest (d : nat) (p : task) : bool :=
    negb (Nat.eqb d (rank_of p)) && existsb (fun e => Nat.eqb (rank_of (e_task e)) d) (outs p).
  Definition children (p : task) (n : nat) : list nat :=
    filter (fun d => isdest d p && Nat.eqb (parent p d) n) (seq 0 nranks).

  Definition isSome {A} (o : option A) : bool := match o with Some _ => true | None => false end.

  (* the datum of output k of p as rank n holds it: the root has the completed task's output, a relay what it received *)
  Definition holds (s : state) (n : nat) (p : task) (k : nat) : option Z :=
    if Nat.eqb n (rank_of p) then outv s p k else got s n p k.
  (* remote_dep_mpi_pack_dep: the outputs announced to c are those c consumes AND the sender holds *)
  Definition payload (s : state) (n : nat) (p : task) (c : nat) : list (nat * option Z) :=
    flat_map (fun k => match holds s n p k with
                       | Some v => [(k, if eager p c k then Some v else None)]
                       | None => [] end) (needed c p).
  Definition acts (s : state) (n : nat) (p : task) : list packet :=
    map (fun c => {| p_src := n; p_dst := c; p_body := Act p (payload s n p c) |}) (children p n).

  (* output k of p has arrived on rank d with value v: remote_dep_release_incoming *)
  Definition arrive (d : nat) (p : task) (k : nat) (v : Z) (s : state) : state :=
    let r := release_edges (remote_outs d p k) (fun _ => v) (st s) (slot s) in
    {| st := fst r; slot := snd r; outv := outv s; acted := acted s;
       got := updG (got s) d p k (Some v); net := net s; failed := failed s; log := log s |}.

  Definition complete (s : state) (n : nat) (p : task) : bool :=
    forallb (fun k => isSome (got s n p k)) (needed n p).
  Definition send (s : state) (pk : list packet) : state :=
    {| st := st s; slot := slot s; outv := outv s; acted := acted s; got := got s;
       net := net s ++ pk; failed := failed s; log := log s |}.
  (* parsec_remote_dep_propagate, called when the last datum this rank consumes has arrived *)
  Definition propagate (n : nat) (p : task) (s : state) : state :=
    if complete s n p then send s (acts s n p) else s.

  (* the oldest packet from a to b *)
  Fixpoint take (a b : nat) (l : list packet) : option (packet * list packet) :=
    match l with
    | [] => None
    | x :: r => if Nat.eqb (p_src x) a && Nat.eqb (p_dst x) b then Some (x, r)
                else match take a b r with Some (y, r') => Some (y, x :: r') | None => None end
    end.

  (* the datum embedded in an activation for output k, if any *)
  Definition lookup (k : nat) (pl : list (nat * option Z)) : option Z :=
    match find (fun x => Nat.eqb (fst x) k) pl with Some (_, Some v) => Some v | _ => None end.

  Definition inval (s : state) (t : task) (f : nat) : Z :=
    match in_edge t f with
    | Some _ => match slot s t f with Some v => v | None => 0%Z end
    | None => srcv t f
    end.

  Definition set_net (s : state) (l : list packet) : state :=
    {| st := st s; slot := slot s; outv := outv s; acted := acted s; got := got s;
       net := l; failed := failed s; log := log s |}.

  Definition deliver_act (a b : nat) (p : task) (pl : list (nat * option Z)) (s : state) : state :=
    let s1 := fold_left (fun s k => match lookup k pl with Some v => arrive b p k v s | None => s end) (needed b p) s in
    let gets := flat_map (fun k => match lookup k pl with
                                   | Some _ => []
                                   | None => [{| p_src := b; p_dst := a; p_body := Get p k |}] end) (needed b p) in
    let s2 := {| st := st s1; slot := slot s1; outv := outv s1; acted := updA (acted s1) b p true; got := got s1;
                 net := net s1 ++ gets; failed := failed s1; log := log s1 |} in
    propagate b p s2.

  Definition step (s : state) (e : event) : state :=
    match e with
    | Startup r =>
        {| st := fold_left (start_one task teq) (filter (fun t => Nat.eqb (rank_of t) r) tasks) (st s);
           slot := slot s; outv := outv s; acted := acted s; got := got s; net := net s; failed := failed s; log := log s |}
    | Begin t =>
        match st s t with
        | Ready => {| st := upd task teq (st s) t Running; slot := slot s; outv := outv s; acted := acted s; got := got s;
                      net := net s; failed := failed s;
                      log := LBegin t (rank_of t) (map (inval s t) (reads t)) :: log s |}
        | _ => s
        end
    | End t =>
        match st s t with
        | Running =>
            let ov := fun k => body t k (inval s t) in
            let r := release_edges (local_outs t) ov (upd task teq (st s) t Done) (slot s) in
            let s1 := {| st := fst r; slot := snd r; outv := updO (outv s) t (fun k => Some (ov k));
                         acted := acted s; got := got s; net := net s; failed := failed s;
                         log := LEnd t (rank_of t) (map (fun k => (k, ov k)) (wlist t)) :: log s |} in
            send s1 (acts s1 (rank_of t) t)
        | _ => s
        end
    | Deliver a b =>
        match take a b (net s) with
        | None => s
        | Some (pk, rest) =>
            let s0 := set_net s rest in
            match p_body pk with
            | Act p pl => deliver_act a b p pl s0
            | Get p k =>
                match holds s0 b p k with
                | Some v => send s0 [{| p_src := b; p_dst := a; p_body := Put p k v |}]
                | None => {| st := st s0; slot := slot s0; outv := outv s0; acted := acted s0; got := got s0;
                             net := net s0; failed := true; log := log s0 |}
                end
            | Put p k v => propagate b p (arrive b p k v s0)
            end
        end
    end.
  Definition run (evs : list event) : state := fold_left step evs init.

  (* the rank that executes an event *)
  Definition ev_rank (e : event) : nat :=
    match e with Startup r => r | Begin t => rank_of t | End t => rank_of t | Deliver _ b => b end.

  Definition begins (l : list logev) : list task :=
    flat_map (fun e => match e with LBegin t _ _ => [t] | LEnd _ _ _ => [] end) l.
  Definition ends (l : list logev) : list task :=
    flat_map (fun e => match e with LEnd t _ _ => [t] | LBegin _ _ _ => [] end) l.

  (* nothing can happen any more: startup complete, nothing ready or running, no message in flight *)
  Definition quiescent (s : state) : Prop :=
    net s = [] /\ forall t, In t tasks -> st s t <> Ready /\ st s t <> Running /\ st s t <> Waiting 0.
End DistEngine.

Arguments Act {task} p pl.
Arguments Get {task} p k.
Arguments Put {task} p k v.
Arguments Startup {task} r.
Arguments Begin {task} t.
Arguments End {task} t.
Arguments Deliver {task} a b.
Arguments LBegin {task} t r vs.
Arguments LEnd {task} t r ovs.
