(* C05 — the distributed dataflow engine (PTGDist/DistEngine.v) instantiated with the JDF AST
   of PTG/PTGDefs.v.  Definitions only (proofs: PTGDistProofs.v).

   d_isctl/d_writes/d_reads/d_wlist   what the generated BODY does (tools/jdfgen.py): PTG_READ on the READ and RW
                flows, PTG_WRITE on the WRITE and RW flows; CTL flows carry nothing
   d_srcv       the value of a data flow no task feeds: D(e) holds 1000 + e initially, a NEW tile
                reads 0 here (its content is arbitrary: the generator never reads one), NULL reads -1
   d_hashv      the value PTG_WRITE stores (harness/ptgdist_driver.c ptg_rt_write): SplitMix64 chain over
                the class name, all locals, the flow number and the values read, shifted right by 3
   seq_exec     the SEQUENTIAL REFERENCE: the instances in topological order, each reading the
                outputs already computed
   place_rank   the three placements of the harness (cyclic, 2D block cyclic, hash)
   final_elem   final content of element x of the collection, from the outputs of the instances
   c13_parent   the activation tree parsec_remote_dep_activate builds, taken from C13's model (Bcast/) *)
From Coq Require Import ZArith NArith List Bool Arith.
From PV Require Import PTG.PTGDefs PTG.Engine PTG.PTGProofs PTGDist.DistEngine.
From PV Require Bcast.BcastDefs.
Import ListNotations.

(* ------------------------------------------------------------------ flows *)
Definition cflow (P : program) (t : tid) (k : nat) : option flow :=
  match nth_class P (fst t) with Some c => nth_error (c_flows c) k | None => None end.
Definition nflows (P : program) (t : tid) : nat :=
  match nth_class P (fst t) with Some c => length (c_flows c) | None => O end.
Definition mode_reads (m : mode) : bool := match m with MRead | MRW => true | _ => false end.
Definition mode_writes (m : mode) : bool := match m with MWrite | MRW => true | _ => false end.
Definition d_isctl (P : program) (t : tid) (k : nat) : bool :=
  match cflow P t k with Some f => is_ctl f | None => true end.
Definition d_writes (P : program) (t : tid) (k : nat) : bool :=
  match cflow P t k with Some f => mode_writes (f_mode f) | None => false end.
Definition d_readsb (P : program) (t : tid) (k : nat) : bool :=
  match cflow P t k with Some f => mode_reads (f_mode f) | None => false end.
Definition d_reads (P : program) (t : tid) : list nat := filter (d_readsb P t) (seq 0 (nflows P t)).
Definition d_wlist (P : program) (t : tid) : list nat := filter (d_writes P t) (seq 0 (nflows P t)).

Local Open Scope Z_scope.
Definition d_srcv (P : program) (t : tid) (f : nat) : Z :=
  match env_of P t, cflow P t f with
  | Some (c, env), Some fl =>
      match first_active (p_globals P) env (f_deps fl) with
      | Some (Tmem (e :: _)) => 1000 + eval (p_globals P) env e
      | Some (Tmem []) => 1000
      | Some Tnew => 0
      | _ => -1
      end
  | _, _ => -1
  end.

(* ------------------------------------------------------------------ the body's hash *)
Definition M64 : Z := 18446744073709551616.
Definition M32 : Z := 4294967296.
Definition mix64 (z : Z) : Z :=
  let a := (z + 11400714819323198485) mod M64 in
  let b := (Z.lxor a (Z.shiftr a 30) * 13787848793156543929) mod M64 in
  let c := (Z.lxor b (Z.shiftr b 27) * 10723151780598845931) mod M64 in
  Z.lxor c (Z.shiftr c 31).
Definition hash_instance (seed : Z) (name : list Z) (locals : list Z) : Z :=
  let h := fold_left (fun h ch => mix64 (Z.lxor h ch)) name (mix64 (seed mod M64)) in
  fold_left (fun h v => mix64 (Z.lxor h (v mod M32))) locals h.
Definition written_value (name : list Z) (locals : list Z) (flow : nat) (rd : list (nat * Z)) : Z :=
  let h := mix64 (Z.lxor (hash_instance 24301 name locals) (Z.of_nat flow)) in
  Z.shiftr (fold_left (fun h iv => mix64 (Z.lxor (Z.lxor h (snd iv mod M64)) (Z.shiftl (Z.of_nat (fst iv)) 56 mod M64))) rd h) 3.
(* names: the class names (character codes), in the order of the classes *)
Definition d_hashv (names : list (list Z)) (P : program) (t : tid) (k : nat) (vals : list Z) : Z :=
  match env_of P t with
  | Some (_, env) => written_value (nth (fst t) names []) env k (combine (d_reads P t) vals)
  | None => 0
  end.
Local Close Scope Z_scope.

(* ------------------------------------------------------------------ the distributed engine on a program *)
Definition d_in_edge (P : program) (t : tid) (f : nat) : option (DistEngine.edge tid) :=
  DistEngine.in_edge tid (pred_edges P) t f.
Definition d_body (names : list (list Z)) (P : program) (t : tid) (k : nat) (g : nat -> Z) : Z :=
  DistEngine.body tid (d_isctl P) (d_writes P) (d_reads P) (d_hashv names P) t k g.

Definition dist_step (names : list (list Z)) (P : program) (nranks : nat) (rank_of : tid -> nat)
           (parent : tid -> nat -> nat) (eager : tid -> nat -> nat -> bool) :=
  DistEngine.step tid tid_eq_dec (instances P) (pred_edges P) (succ_edges P) (d_isctl P) (d_writes P) (d_reads P) (d_wlist P)
                  (d_hashv names P) (d_srcv P) nranks rank_of parent eager.
Definition dist_run (names : list (list Z)) (P : program) (nranks : nat) (rank_of : tid -> nat)
           (parent : tid -> nat -> nat) (eager : tid -> nat -> nat -> bool) (evs : list (DistEngine.event tid)) :=
  DistEngine.run tid tid_eq_dec (instances P) (pred_edges P) (succ_edges P) (d_isctl P) (d_writes P) (d_reads P) (d_wlist P)
                 (d_hashv names P) (d_srcv P) nranks rank_of parent eager evs.
Definition dist_quiescent (P : program) (s : DistEngine.state tid) : Prop :=
  DistEngine.quiescent tid (instances P) s.
Definition dist_isdest (P : program) (rank_of : tid -> nat) (d : nat) (p : tid) : bool :=
  DistEngine.isdest tid (succ_edges P) rank_of d p.
Definition dist_needs (P : program) (rank_of : tid -> nat) (d : nat) (p : tid) (k : nat) : bool :=
  DistEngine.needs tid (succ_edges P) rank_of d p k.

(* ------------------------------------------------------------------ the sequential reference *)
(* store: the output function of every instance executed so far, most recent first *)
Definition sx_store : Type := list (tid * (nat -> Z)).
Fixpoint sx_find (t : tid) (s : sx_store) : option (nat -> Z) :=
  match s with
  | [] => None
  | (u, g) :: r => if tid_eq_dec t u then Some g else sx_find t r
  end.
Definition sx_out (s : sx_store) (t : tid) (k : nat) : Z :=
  match sx_find t s with Some g => g k | None => 0%Z end.
Definition sx_in (P : program) (s : sx_store) (t : tid) (f : nat) : Z :=
  match d_in_edge P t f with
  | Some e => sx_out s (e_task tid e) (e_oflow tid e)
  | None => d_srcv P t f
  end.
(* run instance t on the store: its flows' values are computed once (the list) and looked up afterwards *)
Definition sx_one (names : list (list Z)) (P : program) (s : sx_store) (t : tid) : sx_store :=
  let vals := map (fun k => d_body names P t k (sx_in P s t)) (seq 0 (nflows P t)) in
  (t, fun k => nth k vals (d_body names P t k (sx_in P s t))) :: s.
Definition seq_exec (names : list (list Z)) (P : program) : sx_store :=
  fold_left (sx_one names P) (topo_order P) [].
Definition seq_out (names : list (list Z)) (P : program) (t : tid) (k : nat) : Z := sx_out (seq_exec names P) t k.
Definition seq_in (names : list (list Z)) (P : program) (t : tid) (f : nat) : Z := sx_in P (seq_exec names P) t f.

(* the reference by recursion on the DAG (fuel = rank in the topological order + 1): used by the proofs *)
Fixpoint rv (names : list (list Z)) (P : program) (n : nat) (t : tid) (k : nat) : Z :=
  match n with
  | O => 0%Z
  | S n' => d_body names P t k (fun f => match d_in_edge P t f with
                                        | Some e => rv names P n' (e_task tid e) (e_oflow tid e)
                                        | None => d_srcv P t f end)
  end.
Definition ref_out (names : list (list Z)) (P : program) (t : tid) (k : nat) : Z := rv names P (S (ptg_rank P t)) t k.
Definition ref_in (names : list (list Z)) (P : program) (t : tid) (f : nat) : Z :=
  match d_in_edge P t f with
  | Some e => ref_out names P (e_task tid e) (e_oflow tid e)
  | None => d_srcv P t f
  end.

(* additional well-formedness for values: a data flow of an instance has at most one input edge *)
Definition wf_dist (P : program) : bool :=
  forallb (fun t => forallb (fun e1 => forallb (fun e2 =>
             if Nat.eqb (e_flow tid e1) (e_flow tid e2) && negb (d_isctl P t (e_flow tid e1)) then edge_eqb e1 e2 else true)
             (pred_edges P t)) (pred_edges P t)) (instances P).

(* ------------------------------------------------------------------ final content of the collection *)
(* memory references of flow f of instance t: the active input D(x), the active outputs D(y) *)
Definition mem_in (P : program) (t : tid) (f : nat) : option Z :=
  match env_of P t, cflow P t f with
  | Some (c, env), Some fl =>
      if is_ctl fl then None
      else match first_active (p_globals P) env (f_deps fl) with
           | Some (Tmem (e :: _)) => Some (eval (p_globals P) env e)
           | _ => None end
  | _, _ => None
  end.
Definition mem_outs (P : program) (t : tid) (f : nat) : list Z :=
  match env_of P t, cflow P t f with
  | Some (c, env), Some fl =>
      flat_map (fun d => if d_in d then []
                         else match dep_target (p_globals P) env d with
                              | Some (Tmem (e :: _)) => [eval (p_globals P) env e]
                              | _ => [] end) (f_deps fl)
  | _, _ => []
  end.
(* (t, f) defines element x: a written flow fed by D(x) works in place, `-> D(x)` copies the flow back *)
Definition defines (P : program) (x : Z) (tf : tid * nat) : bool :=
  let '(t, f) := tf in
  (match mem_in P t f with Some y => Z.eqb x y && d_writes P t f | None => false end)
  || existsb (Z.eqb x) (mem_outs P t f).
Definition all_flows (P : program) : list (tid * nat) :=
  flat_map (fun t => map (fun f => (t, f)) (seq 0 (nflows P t))) (instances P).
(* the element feeds a written flow in place and that flow has a writing successor: whether the successor
   keeps working in the element's memory depends on where it runs; the dataflow does not define the content *)
Definition unspecified (P : program) (x : Z) : bool :=
  existsb (fun tf => let '(t, f) := tf in
                     match mem_in P t f with
                     | Some y => Z.eqb x y && d_writes P t f
                                 && existsb (fun e => Nat.eqb (e_flow tid e) f && d_writes P (e_task tid e) (e_oflow tid e)) (succ_edges P t)
                     | None => false end) (all_flows P).
Definition final_elem (P : program) (outf : tid -> nat -> Z) (x : Z) : option Z :=
  if unspecified P x then None
  else Some (match find (defines P x) (all_flows P) with
             | Some (t, f) => outf t f
             | None => (1000 + x)%Z end).
Definition final_data (P : program) (outf : tid -> nat -> Z) (ndata : nat) : list (option Z) :=
  map (fun i => final_elem P outf (Z.of_nat i)) (seq 0 ndata).
(* the outputs a state of the distributed engine holds *)
Definition state_out (s : DistEngine.state tid) (t : tid) (k : nat) : Z :=
  match outv tid s t k with Some v => v | None => 0%Z end.

(* ------------------------------------------------------------------ placements of the harness *)
Inductive placement := PCyc | PBc (pr qc mb nb : nat) | PHash.
Local Open Scope Z_scope.
Definition place_rank (pl : placement) (np : nat) (t : tid) : nat :=
  let p0 := nth 0 (snd t) 0 in
  let p1 := nth 1 (snd t) 0 in
  let p2 := nth 2 (snd t) 0 in
  let r := match pl with
           | PCyc => p0 mod Z.of_nat np
           | PBc pr qc mb nb => ((p0 / Z.of_nat mb) mod Z.of_nat pr) * Z.of_nat qc + (p1 / Z.of_nat nb) mod Z.of_nat qc
           | PHash => (fold_left (fun h x => (h * 31 + x mod 65536 + 7) mod 65521) [p0; p1; p2] (Z.of_nat (fst t) + 1)) mod Z.of_nat np
           end in
  Nat.modulo (Z.to_nat r) np.
Local Close Scope Z_scope.

(* ------------------------------------------------------------------ the runtime's trees (C13's model) *)
Definition dest_sets (P : program) (rank_of : tid -> nat) (t : tid) : list (list N) :=
  map (fun k => map (fun e => N.of_nat (rank_of (e_task tid e)))
                    (filter (fun e => Nat.eqb (e_flow tid e) k) (succ_edges P t)))
      (oflows tid (succ_edges P) t).
Definition c13_msgs (P : program) (nranks : nat) (rank_of : tid -> nat) (topo : BcastDefs.topo) (t : tid) : list BcastDefs.msg :=
  BcastDefs.all_msgs (BcastDefs.propagate (N.of_nat nranks) (N.of_nat (rank_of t)) (dest_sets P rank_of t) (BcastDefs.child_fn topo)).
(* the sender of the one activation rank d receives for the completion of t *)
Definition c13_parent (P : program) (nranks : nat) (rank_of : tid -> nat) (topo : BcastDefs.topo) (t : tid) (d : nat) : nat :=
  match find (fun m => N.eqb (BcastDefs.m_dst m) (N.of_nat d)) (c13_msgs P nranks rank_of topo t) with
  | Some m => N.to_nat (BcastDefs.m_src m)
  | None => rank_of t
  end.
Definition c13_relay_lacks (P : program) (nranks : nat) (rank_of : tid -> nat) (topo : BcastDefs.topo) (t : tid) : bool :=
  BcastDefs.relay_lacks_output (N.of_nat nranks) (N.of_nat (rank_of t)) (dest_sets P rank_of t) (BcastDefs.child_fn topo).

(* the explicit hypothesis of the theorems, as a decision procedure on a concrete configuration *)
Definition relay_holdsb (P : program) (nranks : nat) (rank_of : tid -> nat) (parent : tid -> nat -> nat) : bool :=
  forallb (fun p => forallb (fun d => forallb (fun k =>
     if dist_isdest P rank_of d p && dist_needs P rank_of d p k
     then Nat.eqb (parent p d) (rank_of p) || dist_needs P rank_of (parent p d) p k else true)
     (oflows tid (succ_edges P) p)) (seq 0 nranks)) (instances P).

(* ------------------------------------------------------------------ schedules for the executable model *)
Definition all_events (P : program) (nranks : nat) : list (DistEngine.event tid) :=
  map Startup (seq 0 nranks)
  ++ flat_map (fun t => [Begin t; End t]) (instances P)
  ++ flat_map (fun a => map (fun b => Deliver a b) (seq 0 nranks)) (seq 0 nranks).
Fixpoint rounds (n : nat) (evs : list (DistEngine.event tid)) : list (DistEngine.event tid) :=
  match n with O => [] | S n' => evs ++ rounds n' evs end.
Definition all_done (P : program) (s : DistEngine.state tid) : bool :=
  forallb (fun t => match st tid s t with Done => true | _ => false end) (instances P).
Definition log_begins (s : DistEngine.state tid) : list (tid * nat * list Z) :=
  flat_map (fun e => match e with LBegin t r vs => [(t, r, vs)] | LEnd _ _ _ => [] end) (log tid s).
Definition log_ends (s : DistEngine.state tid) : list (tid * nat * list (nat * Z)) :=
  flat_map (fun e => match e with LEnd t r ovs => [(t, r, ovs)] | LBegin _ _ _ => [] end) (log tid s).
