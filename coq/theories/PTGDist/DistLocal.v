(* Per-rank state: a step executed by rank r reads and writes only r's part of the state.
   The status / slots / outputs of a task belong to its owner, acted and got are indexed by
   the rank; so the global maps of DistEngine.state are the disjoint union of one engine state
   per rank.  No hypothesis on the program is needed. *)
From Coq Require Import ZArith List Bool Arith Lia.
From PV Require Import Base.Tac PTG.Engine PTG.EngineProofs PTGDist.DistEngine.
Import ListNotations.

Section DistLocal.
  Variable task : Type.
  Variable teq : forall a b : task, {a = b} + {a <> b}.
  Variable tasks : list task.
  Variable ins outs : task -> list (edge task).
  Variable isctl writes : task -> nat -> bool.
  Variable reads wlist : task -> list nat.
  Variable hashv : task -> nat -> list Z -> Z.
  Variable srcv : task -> nat -> Z.
  Variable nranks : nat.
  Variable rank_of : task -> nat.
  Variable parent : task -> nat -> nat.
  Variable eager : task -> nat -> nat -> bool.

  Local Notation State := (state task).
  Local Notation stepD := (step task teq tasks ins outs isctl writes reads wlist hashv srcv nranks rank_of parent eager).
  Local Notation arriveD := (arrive task teq outs rank_of).
  Local Notation e_task := (e_task task).

  (* s and s' agree on everything rank r does not own *)
  Definition same_elsewhere (r : nat) (s s' : State) : Prop :=
    (forall t, rank_of t <> r -> st task s' t = st task s t /\ (forall f, slot task s' t f = slot task s t f)
                                 /\ (forall k, outv task s' t k = outv task s t k))
    /\ (forall d, d <> r -> (forall p, acted task s' d p = acted task s d p) /\ (forall p k, got task s' d p k = got task s d p k)).

  Lemma same_refl r s : same_elsewhere r s s.
  Proof. split; intros; repeat split; reflexivity. Qed.
  Lemma same_conv r (s s' : State) :
    st task s' = st task s -> slot task s' = slot task s -> outv task s' = outv task s ->
    acted task s' = acted task s -> got task s' = got task s -> same_elsewhere r s s'.
  Proof. intros H1 H2 H3 H4 H5. split; intros; rewrite ?H1, ?H2, ?H3, ?H4, ?H5; repeat split; reflexivity. Qed.
  Lemma same_trans r s1 s2 s3 : same_elsewhere r s1 s2 -> same_elsewhere r s2 s3 -> same_elsewhere r s1 s3.
  Proof.
    intros [A1 B1] [A2 B2]. split.
    - intros t Ht. destruct (A1 t Ht) as (a & b & c), (A2 t Ht) as (a' & b' & c').
      split; [congruence|]. split; intros; [rewrite b'; apply b|rewrite c'; apply c].
    - intros d Hd. destruct (B1 d Hd) as (a & b), (B2 d Hd) as (a' & b'). split; intros; [rewrite a'; apply a|rewrite b'; apply b].
  Qed.

  Lemma release_edges_elsewhere es v stm slm t :
    (forall e, In e es -> e_task e <> t) ->
    fst (release_edges task teq es v stm slm) t = stm t /\ forall f, snd (release_edges task teq es v stm slm) t f = slm t f.
  Proof.
    revert stm slm. induction es as [|a es IH]; intros stm slm H; [split; reflexivity|].
    change (release_edges task teq (a :: es) v stm slm)
      with (release_edges task teq es v (release task teq stm (e_task a))
              (updS task teq slm (e_task a) (e_oflow task a) (Some (v (e_flow task a))))).
    destruct (IH (release task teq stm (e_task a)) (updS task teq slm (e_task a) (e_oflow task a) (Some (v (e_flow task a)))))
      as [H1 H2]; [intros e He; apply H; right; assumption|].
    assert (Ha : e_task a <> t) by (apply H; left; reflexivity).
    split.
    - rewrite H1. unfold release, upd. destruct (teq t (e_task a)); congruence.
    - intros f. rewrite H2. unfold updS. destruct (teq t (e_task a)); congruence.
  Qed.

  Lemma arrive_elsewhere d p k v (s : State) : same_elsewhere d s (arriveD d p k v s).
  Proof.
    split.
    - intros t Ht. unfold arrive. cbn [st slot outv].
      destruct (release_edges_elsewhere (remote_outs task outs rank_of d p k) (fun _ => v) (st task s) (slot task s) t) as [H1 H2].
      + intros e He Heq. unfold remote_outs in He. apply filter_In in He. destruct He as [_ He].
        apply andb_true_iff in He. destruct He as [_ He]. apply Nat.eqb_eq in He. rewrite Heq in He. congruence.
      + split; [assumption|]. split; [assumption|reflexivity].
    - intros d' Hd'. unfold arrive. cbn [acted got]. split; [reflexivity|]. intros q j. unfold updG.
      destruct (Nat.eqb d' d) eqn:E; [apply Nat.eqb_eq in E; congruence|reflexivity].
  Qed.

  Lemma send_elsewhere r (s : State) l : same_elsewhere r s (send task s l).
  Proof. apply same_conv; reflexivity. Qed.

  Lemma propagate_elsewhere r n p (s : State) : same_elsewhere r s (propagate task outs nranks rank_of parent eager n p s).
  Proof. unfold propagate. destruct (complete task outs rank_of s n p); [apply send_elsewhere|apply same_refl]. Qed.

  (* a step of rank r leaves the state of every other rank alone *)
  Theorem step_local (s : State) (e : event task) :
    same_elsewhere (ev_rank task rank_of e) s (stepD s e).
  Proof.
    destruct e as [r|t|t|a b]; cbn [ev_rank step].
    - split; [|intros; split; reflexivity]. intros t Ht. cbn [st slot outv]. split; [|split; reflexivity].
      rewrite fold_start. destruct (in_dec teq t _) as [Hi|]; [|reflexivity].
      apply filter_In in Hi. destruct Hi as [_ Hi]. apply Nat.eqb_eq in Hi. congruence.
    - destruct (st task s t); try apply same_refl.
      split; [|intros; split; reflexivity]. intros x Hx. cbn [st slot outv]. split; [|split; reflexivity].
      unfold upd. destruct (teq x t); congruence.
    - destruct (st task s t); try apply same_refl.
      split; [|intros; split; reflexivity]. intros x Hx. cbn [send st slot outv].
      destruct (release_edges_elsewhere (local_outs task outs rank_of t) (fun k => body task isctl writes reads hashv t k (inval task ins srcv s t))
                  (upd task teq (st task s) t Done) (slot task s) x) as [H1 H2].
      + intros e He Heq. unfold local_outs in He. apply filter_In in He. destruct He as [_ He].
        apply Nat.eqb_eq in He. rewrite Heq in He. congruence.
      + split; [rewrite H1; unfold upd; destruct (teq x t); congruence|]. split; [assumption|].
        intros k. unfold updO. destruct (teq x t); congruence.
    - destruct (take task a b (net task s)) as [[pk rest]|]; [|apply same_refl].
      assert (H0 : same_elsewhere b s (set_net task s rest)) by (apply same_conv; reflexivity).
      destruct (p_body task pk) as [p pl|p k|p k v].
      + unfold deliver_act. apply (same_trans b _ _ _ H0).
        set (f := fun (s : State) k => match lookup k pl with Some v => arriveD b p k v s | None => s end).
        assert (Hf : forall l s1, same_elsewhere b s1 (fold_left f l s1)).
        { induction l as [|k l IH]; intros s1; [apply same_refl|]. cbn [fold_left].
          apply (same_trans b _ (f s1 k)); [|apply IH]. unfold f. destruct (lookup k pl); [apply arrive_elsewhere|apply same_refl]. }
        eapply same_trans; [apply (Hf (needed task outs rank_of b p))|].
        eapply same_trans; [|apply propagate_elsewhere].
        split.
        * intros t Ht. cbn [st slot outv]. repeat split; reflexivity.
        * intros d Hd. cbn [acted got]. split; [|reflexivity]. intros q. unfold updA.
          destruct (Nat.eqb d b) eqn:E; [apply Nat.eqb_eq in E; congruence|reflexivity].
      + destruct (holds task rank_of (set_net task s rest) b p k); apply same_conv; reflexivity.
      + apply (same_trans b _ _ _ H0). eapply same_trans; [apply arrive_elsewhere|apply propagate_elsewhere].
  Qed.

  (* what a step does to the network: the packet removed was addressed to the acting rank, the packets added come from it *)
  Theorem step_net_local (s : State) (e : event task) pk :
    In pk (net task (stepD s e)) -> In pk (net task s) \/ p_src task pk = ev_rank task rank_of e.
  Proof.
    destruct e as [r|t|t|a b]; cbn [ev_rank step].
    - cbn [net]. auto.
    - destruct (st task s t); cbn [net]; auto.
    - destruct (st task s t); cbn [net send]; auto. intros H. apply in_app_or in H. destruct H as [H|H]; [left; exact H|right].
      unfold acts in H. apply in_map_iff in H. destruct H as (c & <- & _). reflexivity.
    - destruct (take task a b (net task s)) as [[x rest]|] eqn:Et; [|auto].
      assert (Hsub : forall y, In y rest -> In y (net task s)).
      { clear -Et. revert x rest Et. induction (net task s) as [|z l IH]; intros x rest Et; [discriminate|]. cbn [take] in Et.
        destruct (Nat.eqb (p_src task z) a && Nat.eqb (p_dst task z) b).
        - inversion Et; subst. intros y Hy. right; assumption.
        - destruct (take task a b l) as [[y r']|]; [|discriminate]. inversion Et; subst.
          intros w [->|Hw]; [left; reflexivity|right; apply (IH x r' eq_refl); assumption]. }
      assert (Hprop : forall (s1 : State) p, (forall y, In y (net task s1) -> In y (net task s) \/ p_src task y = b) ->
                        In pk (net task (propagate task outs nranks rank_of parent eager b p s1)) -> In pk (net task s) \/ p_src task pk = b).
      { intros s1 p H1. unfold propagate. destruct (complete task outs rank_of s1 b p); [|apply H1]. cbn [send net].
        intros H. apply in_app_or in H. destruct H as [H|H]; [apply H1; exact H|right].
        unfold acts in H. apply in_map_iff in H. destruct H as (c & <- & _). reflexivity. }
      assert (Harr : forall d p k v (s1 : State), net task (arriveD d p k v s1) = net task s1) by reflexivity.
      destruct (p_body task x) as [p pl|p k|p k v].
      + unfold deliver_act. apply Hprop. cbn [net]. intros y Hy. apply in_app_or in Hy. destruct Hy as [Hy|Hy].
        * left. apply Hsub.
          assert (Hf : forall l (s1 : State), net task (fold_left (fun (s : State) k => match lookup k pl with Some v => arriveD b p k v s | None => s end) l s1) = net task s1).
          { induction l as [|k l IH]; intros s1; [reflexivity|]. cbn [fold_left]. rewrite IH. destruct (lookup k pl); reflexivity. }
          rewrite Hf in Hy. exact Hy.
        * right. apply in_flat_map in Hy. destruct Hy as (k & _ & Hy). destruct (lookup k pl); [destruct Hy|].
          destruct Hy as [<-|[]]. reflexivity.
      + destruct (holds task rank_of (set_net task s rest) b p k); cbn [send net set_net].
        * intros H. apply in_app_or in H. destruct H as [H|[<-|[]]]; [left; apply Hsub; exact H|right; reflexivity].
        * intros H. left. apply Hsub. exact H.
      + apply Hprop. rewrite Harr. cbn [set_net net]. intros y Hy. left. apply Hsub. exact Hy.
  Qed.
End DistLocal.
